(* PollReq: the C15 instance for cooked REQ (reqrep0/req.c).
   The reachable-state invariant of the two poll descriptors (RInv):
     rq_writable s = some pipe is ready                       (W)
     rq_readable s = the socket's own context holds a reply   (R, needs the repair fx_rdclr)
     a ready pipe and a queued request never coexist          (Q)
   plus what the induction needs (every queued context exists and holds a request,
   a waiting receive excludes a stashed reply, context keys are unique).
   Pack M_req fx: C15_inv, C15_nb_immediate, C15_nb_possible, C15_nb_strict, C15_mirror hold for every fx with
   fx_rdclr fx = true (the other three flags are arbitrary); C15_mirror_iff is refuted (NNG_ESTATE);
   C15_mirror fails without fx_rdclr; C15_mirror_exact holds up to NNG_ENOMEM (_partial) and in full for the
   pack M_req_b, whose contract bounds the number of contexts (second invariant JInv: the request-id map). *)
From Coq Require Import List Arith NArith Bool ZArith Lia.
From NngV Require Import Proto.Common Proto.ReqRepBacktrace Proto.ReqModel Proto.ReqRepProofs Proto.ReqProofs
  Proto.PollModel Proto.PollProofs.
Import ListNotations.

Ltac errs := unfold E_OK, E_AGAIN, E_NOTSUP, E_STATE, E_CLOSED, E_PROTO, E_NOMEM, E_CONNRESET, E_CANCELED, E_TIMEDOUT in *.
Ltac unM M := unfold M in *; cbn [pm_step pm_ok pm_inv pm_busy pm_cls pm_poll pm_st pm_init] in *.
(* projections of setter applications *)
Ltac sv := cbn [rq_ctxs rq_retry rq_tick rq_closed rq_active rq_tickdl rq_ready rq_busy rq_pclosed rq_plist rq_sendq
                rq_retryq rq_ids rq_cursor rq_sending rq_readable rq_writable rq_now rq_ttl
                set_ctxs set_retry set_tick set_closed set_timer set_pipes set_plist set_sendq set_retryq set_ids
                set_sending set_readable set_writable set_now set_ttl ctx_put].
Ltac svin H := cbn [rq_ctxs rq_retry rq_tick rq_closed rq_active rq_tickdl rq_ready rq_busy rq_pclosed rq_plist rq_sendq
                rq_retryq rq_ids rq_cursor rq_sending rq_readable rq_writable rq_now rq_ttl
                set_ctxs set_retry set_tick set_closed set_timer set_pipes set_plist set_sendq set_retryq set_ids
                set_sending set_readable set_writable set_now set_ttl ctx_put] in H.
Ltac cxs := cbn [cx_rid cx_recv cx_send cx_req cx_rep cx_retry cx_sretry cx_rtime cx_creset cx_owned].

(* ------------------------------------------------------------------ keyed lists, once more *)
Definition is_some {A} (o : option A) : bool := match o with Some _ => true | None => false end.

Lemma map_fst_assoc_set {A} k (v v0 : A) l : lookup k l = Some v0 -> map fst (assoc_set k v l) = map fst l.
Proof.
  induction l as [|[k' v'] l IH]; cbn; [discriminate|].
  destruct (N.eqb_spec k' k); cbn; intros H; [now subst|]. now rewrite IH.
Qed.
Lemma in_assoc_set {A} k (v : A) l x : In x (assoc_set k v l) -> x = (k, v) \/ In x l.
Proof.
  induction l as [|[k' v'] l IH]; cbn; [intros [H|[]]; auto|].
  destruct (N.eqb_spec k' k); cbn; intros [H|H]; auto. destruct (IH H); auto.
Qed.
Lemma assoc_set_twice {A} k (v w : A) l : assoc_set k v (assoc_set k w l) = assoc_set k v l.
Proof.
  induction l as [|[k' v'] l IH]; cbn; [now rewrite N.eqb_refl|].
  destruct (N.eqb_spec k' k); cbn; [now rewrite N.eqb_refl|].
  destruct (N.eqb_spec k' k); [contradiction|]. now rewrite IH.
Qed.
Lemma nodup_assoc_del {A} k (l : list (N * A)) : NoDup (map fst l) -> NoDup (map fst (assoc_del k l)).
Proof.
  induction l as [|[k' v'] l IH]; cbn; intros H; [constructor|]. inversion H; subst.
  destruct (N.eqb k' k); cbn; auto. constructor; auto.
  intros X. apply H2. apply in_map_iff in X as ((k2 & v2) & E & Hin). cbn in E. subst.
  apply filter_In in Hin as [Hin _]. apply in_map_iff. exists (k', v2). auto.
Qed.
Lemma nodup_lookup {A} k (v : A) l : NoDup (map fst l) -> In (k, v) l -> lookup k l = Some v.
Proof.
  induction l as [|[k' v'] l IH]; cbn; intros H Hin; [destruct Hin|]. inversion H; subst.
  destruct Hin as [E|Hin].
  - inversion E; subst. now rewrite N.eqb_refl.
  - destruct (N.eqb_spec k' k); [|auto]. subst. exfalso. apply H2. apply in_map_iff. exists (k, v). auto.
Qed.
Lemma lookup_app_one {A} k k' (v c : A) l : lookup k (l ++ [(k', v)]) = Some c -> lookup k l = Some c \/ (lookup k l = None /\ c = v).
Proof.
  destruct (lookup k l) as [c'|] eqn:E.
  - rewrite (lookup_app_some _ _ _ _ E). auto.
  - rewrite (lookup_app_none _ _ _ E). cbn. destruct (N.eqb k' k); [|discriminate]. intros H. inversion H. auto.
Qed.
Lemma find_ctx_in f l k c : find_ctx f l = Some (k, c) -> In (k, c) l /\ f c = true.
Proof.
  induction l as [|[k' c'] l IH]; cbn; [discriminate|]. destruct (f c') eqn:E.
  - intros H. inversion H; subst. auto.
  - intros H. destruct (IH H). auto.
Qed.
Lemma remove_id_nil k l : l = [] -> remove_id k l = [].
Proof. now intros ->. Qed.
Lemma not_in_remove_id k l : ~ In k (remove_id k l).
Proof. intros H. apply in_remove_id in H. now destruct H. Qed.

(* ------------------------------------------------------------------ the queued user aios *)
Definition opt_list {A} (o : option A) : list A := match o with Some a => [a] | None => [] end.
Definition ctx_aios (c : rctx) : list aioid := opt_list (cx_recv c) ++ opt_list (cx_send c).
Definition busy_of (cs : list (N * rctx)) : list aioid := flat_map (fun kc => ctx_aios (snd kc)) cs.
Definition req_busy (s : req) : list aioid := busy_of (rq_ctxs s).

Lemma busy_of_in a cs : In a (busy_of cs) <-> exists k c, In (k, c) cs /\ In a (ctx_aios c).
Proof.
  unfold busy_of. rewrite in_flat_map. split.
  - intros ([k c] & H1 & H2). exists k, c. auto.
  - intros (k & c & H1 & H2). exists (k, c). auto.
Qed.
Lemma busy_lookup_recv cs k c a : lookup k cs = Some c -> cx_recv c = Some a -> In a (busy_of cs).
Proof.
  intros H E. apply busy_of_in. exists k, c. split; [now apply lookup_in|]. unfold ctx_aios. rewrite E. now left.
Qed.
Lemma busy_lookup_send cs k c a : lookup k cs = Some c -> cx_send c = Some a -> In a (busy_of cs).
Proof.
  intros H E. apply busy_of_in. exists k, c. split; [now apply lookup_in|]. unfold ctx_aios. rewrite E.
  apply in_or_app. right. now left.
Qed.
Lemma busy_assoc_set a k c cs : In a (busy_of (assoc_set k c cs)) -> In a (ctx_aios c) \/ In a (busy_of cs).
Proof.
  intros H. apply busy_of_in in H as (k' & c' & H1 & H2). apply in_assoc_set in H1 as [E|H1].
  - inversion E; subst. auto.
  - right. apply busy_of_in. eauto.
Qed.
Lemma busy_assoc_del a k cs : In a (busy_of (assoc_del k cs)) -> In a (busy_of cs).
Proof.
  intros H. apply busy_of_in in H as (k' & c' & H1 & H2). apply filter_In in H1 as [H1 _]. apply busy_of_in. eauto.
Qed.

(* ------------------------------------------------------------------ the invariant *)
Definition CoreV (cl rd : bool) (sq : list N) (cs : list (N * rctx)) : Prop :=
  cl = false /\
  (exists c0, lookup 0%N cs = Some c0 /\ rd = is_some (cx_rep c0)) /\
  (forall k c, lookup k cs = Some c -> cx_recv c <> None -> cx_rep c = None) /\
  (forall k, In k sq -> exists c m, lookup k cs = Some c /\ cx_req c = Some m) /\
  NoDup (map fst cs).
Definition Core (s : req) : Prop := CoreV (rq_closed s) (rq_readable s) (rq_sendq s) (rq_ctxs s).
Definition WV (w : bool) (ready : list pid) : Prop := w = negb (is_nil ready).
Definition QV (ready : list pid) (sq : list N) : Prop := ready = [] \/ sq = [].
(* what req0_run_send_queue may find: W, or one pipe just became ready while requests wait *)
Definition WweakV (w : bool) (ready : list pid) (sq : list N) : Prop :=
  WV w ready \/ (exists p, ready = [p] /\ sq <> [] /\ w = false).
Definition RInv (s : req) : Prop :=
  Core s /\ WV (rq_writable s) (rq_ready s) /\ QV (rq_ready s) (rq_sendq s).
Definition RPre (s : req) : Prop :=
  Core s /\ WweakV (rq_writable s) (rq_ready s) (rq_sendq s).

Lemma RInv_RPre s : RInv s -> RPre s.
Proof. intros (A & B & C). split; [exact A|]. now left. Qed.

Lemma coreV_update cl rd sq cs k c c' rd' sq' :
  CoreV cl rd sq cs -> lookup k cs = Some c ->
  (forall x, In x sq' -> x = k \/ In x sq) ->
  (In k sq' -> exists m, cx_req c' = Some m) ->
  rd' = (if N.eqb k 0 then is_some (cx_rep c') else rd) ->
  (cx_recv c' <> None -> cx_rep c' = None) ->
  CoreV cl rd' sq' (assoc_set k c' cs).
Proof.
  intros (Hcl & (c0 & H0 & Hrd) & HC & HS & HN) Hk Hsq Hkq Hrd' Hc'. unfold CoreV. split; [exact Hcl|]. split.
  { destruct (N.eqb_spec k 0) as [->|Hne].
    - exists c'. split; [apply lookup_assoc_set_same|exact Hrd'].
    - exists c0. split; [rewrite lookup_assoc_set_other by congruence; exact H0|]. now rewrite Hrd'. }
  split.
  { intros k2 c2 H2. destruct (N.eq_dec k2 k) as [->|Hne].
    - rewrite lookup_assoc_set_same in H2. inversion H2; subst. exact Hc'.
    - rewrite lookup_assoc_set_other in H2 by exact Hne. now apply HC with k2. }
  split.
  { intros x Hx. destruct (N.eq_dec x k) as [->|Hne].
    - destruct (Hkq Hx) as [m Hm]. exists c', m. split; [apply lookup_assoc_set_same|exact Hm].
    - destruct (Hsq x Hx) as [E|Hin]; [contradiction|]. destruct (HS x Hin) as (c2 & m & A & B).
      exists c2, m. split; [now rewrite lookup_assoc_set_other by exact Hne|exact B]. }
  now rewrite (map_fst_assoc_set _ _ _ _ Hk).
Qed.

(* shrinking the send queue alone *)
Lemma coreV_sq cl rd sq sq' cs : CoreV cl rd sq cs -> (forall x, In x sq' -> In x sq) -> CoreV cl rd sq' cs.
Proof.
  intros (Hcl & H0 & HC & HS & HN) Hsq. unfold CoreV. repeat (split; [assumption|]). split; [|exact HN].
  intros x Hx. apply HS. now apply Hsq.
Qed.

(* ------------------------------------------------------------------ req0_ctx_reset *)
Lemma ctx_reset_fields fx s k c s2 c2 o :
  ctx_reset fx s k c = (s2, c2, o) ->
  rq_ctxs s2 = rq_ctxs s /\ rq_closed s2 = rq_closed s /\ rq_ready s2 = rq_ready s /\ rq_writable s2 = rq_writable s /\
  rq_sendq s2 = remove_id k (rq_sendq s) /\
  rq_readable s2 = (if fx_rdclr fx && N.eqb k 0 && is_some (cx_rep c) then false else rq_readable s) /\
  rq_now s2 = rq_now s /\ rq_active s2 = rq_active s /\
  c2 = mkRctx 0 (cx_recv c) (cx_send c) None None (cx_retry c) (cx_sretry c) (cx_rtime c) false false /\
  (forall a, compl_of a o = []).
Proof.
  unfold ctx_reset. intros H. inversion H; subst; clear H.
  change (match cx_rep c with Some _ => true | None => false end) with (is_some (cx_rep c)).
  destruct (fx_rdclr fx && N.eqb k 0 && is_some (cx_rep c)); destruct (N.eqb (cx_rid c) 0); sv;
    (repeat (split; [reflexivity|])); intros a; rewrite compl_of_app;
    (destruct (cx_req c); [destruct (retry_on fx c)|]); destruct (cx_rep c); reflexivity.
Qed.

(* a context is reset and then stored again with no reply: the core invariant survives *)
Lemma reset_put_core fx s k c0 cin s1 s2 c2 o c3 sq' :
  fx_rdclr fx = true -> Core s -> lookup k (rq_ctxs s) = Some c0 -> cx_rep cin = cx_rep c0 ->
  rq_closed s1 = rq_closed s -> rq_ctxs s1 = rq_ctxs s -> rq_readable s1 = rq_readable s ->
  (forall x, In x (rq_sendq s1) -> In x (rq_sendq s)) ->
  ctx_reset fx s1 k cin = (s2, c2, o) ->
  cx_rep c3 = None -> (cx_recv c3 <> None -> cx_rep c3 = None) ->
  (forall x, In x sq' -> x = k \/ In x (rq_sendq s2)) -> (In k sq' -> exists m, cx_req c3 = Some m) ->
  CoreV (rq_closed s2) (rq_readable s2) sq' (assoc_set k c3 (rq_ctxs s2)).
Proof.
  intros Hfx HC Hk Hrep Hcl Hcs Hrd Hsq HR Hc3 Hc3' Hsq' Hkq.
  apply ctx_reset_fields in HR as (F1 & F2 & F3 & F4 & F5 & F6 & _ & _ & _ & _).
  rewrite F1, F2, Hcl, Hcs. apply coreV_update with (rd := rq_readable s) (sq := rq_sendq s) (c := c0); auto.
  - intros x Hx. destruct (Hsq' x Hx) as [E|Hin]; [now left|]. right. rewrite F5 in Hin.
    apply in_remove_id in Hin as [Hin _]. now apply Hsq.
  - rewrite F6, Hfx, Hc3, Hrd, Hrep. cbn [andb is_some]. destruct (N.eqb_spec k 0) as [->|Hne]; [|reflexivity].
    destruct (is_some (cx_rep c0)) eqn:E; [reflexivity|].
    destruct HC as (_ & (c00 & H0 & Hr) & _). rewrite Hk in H0. inversion H0; subst. now rewrite Hr.
Qed.

(* ------------------------------------------------------------------ req0_run_send_queue *)
Lemma run_sendq_noready fx f s : rq_ready s = [] -> run_sendq fx f s = (s, [], []).
Proof. intros H. destruct f; cbn [run_sendq]; [reflexivity|]. rewrite H. destruct (rq_sendq s); reflexivity. Qed.
Lemma run_sendq_noqueue fx f s : rq_sendq s = [] -> run_sendq fx f s = (s, [], []).
Proof. intros H. destruct f; cbn [run_sendq]; [reflexivity|]. now rewrite H. Qed.

Lemma run_sendq_inv fx : forall f s, length (rq_sendq s) <= f -> RPre s -> RInv (fst (fst (run_sendq fx f s))).
Proof.
  induction f as [|f IH]; intros s Hl [HC HW].
  - cbn [run_sendq fst]. destruct (rq_sendq s) eqn:ES; [|cbn in Hl; lia].
    split; [exact HC|]. split; [|right; exact ES].
    destruct HW as [HW|(p & _ & Hne & _)]; [exact HW|]. now elim Hne.
  - cbn [run_sendq]. destruct (rq_sendq s) as [|k sq] eqn:ES.
    { cbn [fst]. split; [exact HC|]. split; [|right; exact ES].
      destruct HW as [HW|(p & _ & Hne & _)]; [exact HW|]. now elim Hne. }
    destruct (rq_ready s) as [|p rd] eqn:ER.
    { cbn [fst]. split; [exact HC|]. split; [|left; exact ER].
      destruct HW as [HW|(p & Hp & _)]; [rewrite ER; exact HW|]. discriminate. }
    assert (Hk : exists c m, lookup k (rq_ctxs s) = Some c /\ cx_req c = Some m).
    { destruct HC as (_ & _ & _ & HS & _). apply HS. rewrite ES. now left. }
    destruct Hk as (c & m & Hk & Hm). unfold ctx_get at 1. rewrite Hk, Hm.
    match goal with |- context [run_sendq fx f ?X] => set (s6 := X) end.
    assert (H6 : RPre s6).
    { split.
      - subst s6. unfold Core. destruct (retry_on fx c); destruct (is_nil rd); sv;
          (eapply coreV_update; [exact HC|exact Hk| | | |]); cxs;
          try (intros x Hx; right; rewrite ES; now right);
          try (intros _; exists m; reflexivity);
          try (destruct (N.eqb_spec k 0) as [->|Hne]; [|reflexivity];
               destruct HC as (_ & (c0 & H0 & Hr) & _); rewrite Hk in H0; inversion H0; subst; exact Hr);
          try (destruct HC as (_ & _ & HCC & _); now apply HCC with k).
      - left. subst s6. unfold WV.
        assert (Hw : rq_writable s = true \/ rd = []).
        { destruct HW as [HW|(q & Hq & _)]; [left; exact HW|right; now inversion Hq]. }
        destruct (retry_on fx c); destruct rd as [|p2 rd]; sv; cbn [is_nil negb]; try reflexivity;
          destruct Hw as [Hw|Hw]; try discriminate; exact Hw. }
    assert (Hl6 : length (rq_sendq s6) <= f).
    { subst s6. destruct (retry_on fx c); destruct (is_nil rd); sv; cbn in Hl; lia. }
    specialize (IH s6 Hl6 H6). destruct (run_sendq fx f s6) as [[s7 o7] cl7]. cbn [fst] in *. exact IH.
Qed.
Lemma run_send_queue_inv fx s : RPre s -> RInv (fst (fst (run_send_queue fx s))).
Proof. intros H. unfold run_send_queue. now apply run_sendq_inv. Qed.

(* ------------------------------------------------------------------ req0_ctx_send, in named pieces *)
Definition snd_o1 (c : rctx) : list pout := match cx_recv c with Some ra => [Complete ra E_CANCELED None] | None => [] end.
Definition snd_pre (s : req) (k : N) (c : rctx) : req * rctx * list pout :=
  match cx_send c with
  | Some sa => (set_sendq s (remove_id k (rq_sendq s)),
                mkRctx (cx_rid c) None None None (cx_rep c) (cx_retry c) (cx_sretry c) (cx_rtime c) (cx_creset c) false,
                [Complete sa E_CANCELED None])
  | None => (s, mkRctx (cx_rid c) None None (cx_req c) (cx_rep c) (cx_retry c) (cx_sretry c) (cx_rtime c) (cx_creset c) (cx_owned c), [])
  end.
Definition snd_c3nb (id : N) (c2 : rctx) : rctx :=
  mkRctx id (cx_recv c2) (cx_send c2) None None (cx_retry c2) (cx_sretry c2) (cx_rtime c2) false false.
Definition snd_c3 (s2 : req) (c2 : rctx) (a : aioid) (id : N) (m' : pmsg) : rctx :=
  mkRctx id None (Some a) (Some m') None (cx_retry c2) (cx_retry c2)
         (if (0 <? cx_retry c2)%Z then after (rq_now s2) (cx_retry c2) else cx_rtime c2) false true.
Definition snd_enq (s2 : req) (k : N) (c2 : rctx) (a : aioid) (id cur' : N) (m' : pmsg) : req * list pout :=
  let s3 := set_ids s2 (rq_ids s2 ++ [(id, k)]) cur' in
  let rt := (0 <? cx_retry c2)%Z in
  let c3 := snd_c3 s2 c2 a id m' in
  let s4 := if rt then set_retryq s3 (rq_retryq s3 ++ [k]) else s3 in
  let '(s5, o4) := if rt && negb (rq_active s4)
                   then (set_timer s4 true (tick_deadline (rq_now s4) (rq_tick s4)), arm_out (tick_deadline (rq_now s4) (rq_tick s4)))
                   else (s4, []) in
  (set_sendq (ctx_put s5 k c3) (rq_sendq s5 ++ [k]), o4).
Definition snd_full (s2 : req) : bool := (REQ_ID_MAX - REQ_ID_MIN <? N.of_nat (length (rq_ids s2)))%N.

Lemma req_ctx_send_eq fx s k c a nb m :
  req_ctx_send fx s k c a nb m =
  if rq_closed s then (s, [Complete a E_CLOSED None], []) else
  let '(s1, c1, o2) := snd_pre s k c in
  let '(s2, c2, o3) := ctx_reset fx s1 k c1 in
  if snd_full s2 then (ctx_put s2 k c2, snd_o1 c ++ o2 ++ o3 ++ [Complete a E_NOMEM None], []) else
  match id_alloc (S (length (rq_ids s2))) (rq_ids s2) (rq_cursor s2) with
  | None => (ctx_put s2 k c2, snd_o1 c ++ o2 ++ o3 ++ [Complete a E_NOMEM None], [])
  | Some (id, cur') =>
      if is_nil (rq_ready s2) && nb
      then (ctx_put (set_ids s2 (rq_ids s2) cur') k (snd_c3nb id c2), snd_o1 c ++ o2 ++ o3 ++ [Complete a E_AGAIN None], [])
      else let '(s6, o4) := snd_enq s2 k c2 a id cur' (req_send id m) in
           let '(s7, o5, cl) := run_send_queue fx s6 in
           (s7, snd_o1 c ++ o2 ++ o3 ++ o4 ++ o5, cl)
  end.
Proof.
  unfold req_ctx_send, snd_pre, snd_o1, snd_full, snd_enq, snd_c3, snd_c3nb.
  destruct (rq_closed s); [reflexivity|].
  destruct (cx_send c);
    match goal with |- context [ctx_reset fx ?X k ?Y] => destruct (ctx_reset fx X k Y) as [[s2 c2] o3] end;
    (match goal with |- context [(?A <? ?B)%N] => destruct (A <? B)%N end; [reflexivity|]);
    (destruct (id_alloc (S (length (rq_ids s2))) (rq_ids s2) (rq_cursor s2)) as [[id cur']|]; [|reflexivity]);
    (destruct (is_nil (rq_ready s2) && nb); [reflexivity|]); cbv zeta;
    destruct (0 <? cx_retry c2)%Z; cbn [andb];
    try match goal with |- context [negb ?B] => destruct B end; cbn [negb]; reflexivity.
Qed.

Lemma snd_pre_fields s k c s1 c1 o2 :
  snd_pre s k c = (s1, c1, o2) ->
  rq_closed s1 = rq_closed s /\ rq_ctxs s1 = rq_ctxs s /\ rq_readable s1 = rq_readable s /\ rq_writable s1 = rq_writable s /\
  rq_ready s1 = rq_ready s /\ (forall x, In x (rq_sendq s1) -> In x (rq_sendq s)) /\
  cx_rep c1 = cx_rep c /\ cx_recv c1 = None /\ cx_send c1 = None /\
  (forall b, cx_send c <> Some b -> compl_of b o2 = []).
Proof.
  unfold snd_pre. destruct (cx_send c) as [sa|]; intros H; inversion H; subst; clear H; sv; cxs;
    repeat (split; [reflexivity|]).
  - split; [intros x Hx; now apply in_remove_id in Hx|]. repeat (split; [reflexivity|]).
    intros b Hb. apply compl_of_other. congruence.
  - split; [auto|]. repeat (split; [reflexivity|]). reflexivity.
Qed.
Lemma snd_o1_compl c b : cx_recv c <> Some b -> compl_of b (snd_o1 c) = [].
Proof. unfold snd_o1. destruct (cx_recv c); [|reflexivity]. intros H. apply compl_of_other. congruence. Qed.

Lemma snd_enq_fields s2 k c2 a id cur' m' s6 o4 :
  snd_enq s2 k c2 a id cur' m' = (s6, o4) ->
  rq_closed s6 = rq_closed s2 /\ rq_readable s6 = rq_readable s2 /\ rq_writable s6 = rq_writable s2 /\
  rq_ready s6 = rq_ready s2 /\ rq_sendq s6 = rq_sendq s2 ++ [k] /\
  rq_ctxs s6 = assoc_set k (snd_c3 s2 c2 a id m') (rq_ctxs s2) /\ (forall b, compl_of b o4 = []).
Proof.
  unfold snd_enq. cbv zeta. destruct (0 <? cx_retry c2)%Z; cbn [andb].
  - match goal with |- context [negb ?B] => destruct B end; cbn [negb]; intros H; inversion H; subst; clear H; sv;
      repeat (split; [reflexivity|]); intros b; [reflexivity|].
    unfold arm_out. destruct (tick_deadline _ _); reflexivity.
  - intros H; inversion H; subst; clear H; sv. repeat (split; [reflexivity|]). reflexivity.
Qed.

(* ------------------------------------------------------------------ reset-and-store: the whole invariant *)
Lemma reset_put_pre fx s k c0 cin s1 s2 c2 o c3 s' :
  fx_rdclr fx = true -> RInv s -> lookup k (rq_ctxs s) = Some c0 -> cx_rep cin = cx_rep c0 ->
  rq_closed s1 = rq_closed s -> rq_ctxs s1 = rq_ctxs s -> rq_readable s1 = rq_readable s ->
  rq_writable s1 = rq_writable s -> rq_ready s1 = rq_ready s ->
  (forall x, In x (rq_sendq s1) -> In x (rq_sendq s)) ->
  ctx_reset fx s1 k cin = (s2, c2, o) ->
  cx_rep c3 = None ->
  rq_closed s' = rq_closed s2 -> rq_readable s' = rq_readable s2 -> rq_writable s' = rq_writable s2 ->
  rq_ready s' = rq_ready s2 -> rq_ctxs s' = assoc_set k c3 (rq_ctxs s2) ->
  (forall x, In x (rq_sendq s') -> x = k \/ In x (rq_sendq s2)) -> (In k (rq_sendq s') -> exists m, cx_req c3 = Some m) ->
  Core s' /\ WV (rq_writable s') (rq_ready s') /\ rq_ready s' = rq_ready s.
Proof.
  intros Hfx (HC & HW & HQ) Hk Hrep E1 E2 E3 E4 E5 Hsq HR Hc3 F1 F2 F3 F4 F5 Hsq' Hkq.
  split; [|split].
  - unfold Core. rewrite F1, F2, F5. eapply reset_put_core; eauto.
  - apply ctx_reset_fields in HR as (_ & _ & G3 & G4 & _). now rewrite F3, F4, G3, G4, E4, E5.
  - apply ctx_reset_fields in HR as (_ & _ & G3 & G4 & _). now rewrite F4, G3, E5.
Qed.

Lemma reset_put_inv fx s k c0 cin s1 s2 c2 o c3 s' :
  fx_rdclr fx = true -> RInv s -> lookup k (rq_ctxs s) = Some c0 -> cx_rep cin = cx_rep c0 ->
  rq_closed s1 = rq_closed s -> rq_ctxs s1 = rq_ctxs s -> rq_readable s1 = rq_readable s ->
  rq_writable s1 = rq_writable s -> rq_ready s1 = rq_ready s ->
  (forall x, In x (rq_sendq s1) -> In x (rq_sendq s)) ->
  ctx_reset fx s1 k cin = (s2, c2, o) ->
  cx_rep c3 = None ->
  rq_closed s' = rq_closed s2 -> rq_readable s' = rq_readable s2 -> rq_writable s' = rq_writable s2 ->
  rq_ready s' = rq_ready s2 -> rq_ctxs s' = assoc_set k c3 (rq_ctxs s2) -> rq_sendq s' = rq_sendq s2 ->
  RInv s'.
Proof.
  intros Hfx HI Hk Hrep E1 E2 E3 E4 E5 Hsq HR Hc3 F1 F2 F3 F4 F5 F6.
  assert (G5 : rq_sendq s2 = remove_id k (rq_sendq s1)) by (apply ctx_reset_fields in HR; tauto).
  destruct (reset_put_pre fx s k c0 cin s1 s2 c2 o c3 s') as (A & B & C); auto.
  - intros x Hx. right. now rewrite <- F6.
  - intros Hx. rewrite F6, G5 in Hx. now apply not_in_remove_id in Hx.
  - split; [exact A|]. split; [exact B|]. rewrite C, F6, G5. destruct HI as (_ & _ & [HQ|HQ]); [now left|right].
    apply remove_id_nil. destruct (rq_sendq s1) as [|x r]; [reflexivity|]. exfalso.
    specialize (Hsq x (or_introl eq_refl)). rewrite HQ in Hsq. destruct Hsq.
Qed.

Lemma stepL_fst fx s o : fst (req_step fx s o) = fst (fst (req_stepL fx s o)).
Proof. unfold req_step. destruct (req_stepL fx s o) as [[s' outs] cl]. reflexivity. Qed.

(* ------------------------------------------------------------------ the steps, one by one *)
Lemma inv_send fx s c a nb m : fx_rdclr fx = true -> RInv s -> RInv (fst (fst (req_stepL fx s (PSend c a nb m)))).
Proof.
  intros Hfx HI. cbn [req_stepL]. unfold ctx_get. destruct (lookup (ckey c) (rq_ctxs s)) as [cx|] eqn:Hk; [|exact HI].
  rewrite req_ctx_send_eq. assert (Hcl : rq_closed s = false) by apply HI. rewrite Hcl.
  destruct (snd_pre s (ckey c) cx) as [[s1 c1] o2] eqn:E1.
  apply snd_pre_fields in E1 as (A1 & A2 & A3 & A4 & A5 & A6 & A7 & _).
  destruct (ctx_reset fx s1 (ckey c) c1) as [[s2 c2] o3] eqn:E2.
  assert (Hc2 : cx_rep c2 = None) by (apply ctx_reset_fields in E2 as (_ & _ & _ & _ & _ & _ & _ & _ & -> & _); reflexivity).
  destruct (snd_full s2).
  { cbn [fst]. eapply reset_put_inv with (c3 := c2); eauto. }
  destruct (id_alloc (S (length (rq_ids s2))) (rq_ids s2) (rq_cursor s2)) as [[id cur']|].
  2:{ cbn [fst]. eapply reset_put_inv with (c3 := c2); eauto. }
  destruct (is_nil (rq_ready s2) && nb).
  { cbn [fst]. eapply reset_put_inv with (c3 := snd_c3nb id c2); eauto. }
  destruct (snd_enq s2 (ckey c) c2 a id cur' (req_send id m)) as [s6 o4] eqn:E6.
  apply snd_enq_fields in E6 as (B1 & B2 & B3 & B4 & B5 & B6 & _).
  assert (H6 : RPre s6).
  { destruct (reset_put_pre fx s (ckey c) cx c1 s1 s2 c2 o3 (snd_c3 s2 c2 a id (req_send id m)) s6) as (X & Y & _); auto.
    - intros x Hx. rewrite B5 in Hx. apply in_app_or in Hx as [Hx|[Hx|[]]]; auto.
    - intros _. eexists. reflexivity.
    - split; [exact X|]. left. exact Y. }
  pose proof (run_send_queue_inv fx s6 H6) as H7.
  destruct (run_send_queue fx s6) as [[s7 o5] cl]. exact H7.
Qed.

Lemma core_req s k c : Core s -> In k (rq_sendq s) -> lookup k (rq_ctxs s) = Some c -> exists m, cx_req c = Some m.
Proof. intros (_ & _ & _ & HS & _) Hin Hk. destruct (HS k Hin) as (c' & m & A & B). rewrite Hk in A. inversion A; subst. eauto. Qed.
Lemma core_r s c : Core s -> lookup 0%N (rq_ctxs s) = Some c -> rq_readable s = is_some (cx_rep c).
Proof. intros (_ & (c0 & A & B) & _) Hk. rewrite Hk in A. inversion A; subst. exact B. Qed.
Lemma core_c s k c : Core s -> lookup k (rq_ctxs s) = Some c -> cx_recv c <> None -> cx_rep c = None.
Proof. intros (_ & _ & HC & _). apply HC. Qed.

Lemma put_inv s k c c' s' :
  RInv s -> lookup k (rq_ctxs s) = Some c ->
  rq_closed s' = rq_closed s -> rq_writable s' = rq_writable s -> rq_ready s' = rq_ready s ->
  rq_ctxs s' = assoc_set k c' (rq_ctxs s) ->
  (forall x, In x (rq_sendq s') -> In x (rq_sendq s)) ->
  (In k (rq_sendq s') -> exists m, cx_req c' = Some m) ->
  rq_readable s' = (if N.eqb k 0 then is_some (cx_rep c') else rq_readable s) ->
  (cx_recv c' <> None -> cx_rep c' = None) -> RInv s'.
Proof.
  intros (HC & HW & HQ) Hk E1 E2 E3 E4 Hsq Hkq E5 Hc'. split; [|split].
  - unfold Core. rewrite E1, E4. eapply coreV_update; eauto.
  - now rewrite E2, E3.
  - rewrite E3. destruct HQ as [HQ|HQ]; [now left|right]. destruct (rq_sendq s') as [|x r]; [reflexivity|].
    exfalso. specialize (Hsq x (or_introl eq_refl)). rewrite HQ in Hsq. destruct Hsq.
Qed.
Lemma put_same_inv s k c c' s' :
  RInv s -> lookup k (rq_ctxs s) = Some c ->
  rq_closed s' = rq_closed s -> rq_writable s' = rq_writable s -> rq_ready s' = rq_ready s ->
  rq_ctxs s' = assoc_set k c' (rq_ctxs s) -> rq_sendq s' = rq_sendq s -> rq_readable s' = rq_readable s ->
  cx_req c' = cx_req c -> cx_rep c' = cx_rep c -> (cx_recv c' <> None -> cx_rep c' = None) -> RInv s'.
Proof.
  intros HI Hk E1 E2 E3 E4 E5 E6 E7 E8 Hc'. eapply put_inv; eauto.
  - intros x. now rewrite E5.
  - rewrite E5, E7. intros Hin. eapply core_req; eauto. apply HI.
  - rewrite E6, E8. destruct (N.eqb_spec k 0) as [->|]; [|reflexivity]. apply core_r; [apply HI|exact Hk].
Qed.
(* states that differ outside the fields the invariant reads *)
Lemma view_inv s s' :
  RInv s -> rq_closed s' = rq_closed s -> rq_writable s' = rq_writable s -> rq_ready s' = rq_ready s ->
  rq_ctxs s' = rq_ctxs s -> rq_sendq s' = rq_sendq s -> rq_readable s' = rq_readable s -> RInv s'.
Proof. unfold RInv, Core. now intros H -> -> -> -> -> ->. Qed.

Lemma inv_recv fx s c a nb : RInv s -> RInv (fst (fst (req_stepL fx s (PRecv c a nb)))).
Proof.
  intros HI. cbn [req_stepL]. unfold ctx_get. destruct (lookup (ckey c) (rq_ctxs s)) as [cx|] eqn:Hk; [|exact HI].
  unfold req_ctx_recv.
  destruct (_ || _) eqn:Eg.
  - destruct (cx_creset cx); [|exact HI]. cbn [fst].
    eapply (put_same_inv s (ckey c) cx (mkRctx _ _ _ _ _ _ _ _ _ _)); [exact HI|exact Hk|reflexivity..|].
    cxs. apply (core_c s (ckey c)); [apply HI|exact Hk].
  - destruct (cx_rep cx) as [mr|] eqn:Er.
    + cbn [fst]. eapply (put_inv s (ckey c) cx (mkRctx _ None _ _ None _ _ _ _ _)); [exact HI|exact Hk|..].
      * destruct (N.eqb (ckey c) 0); reflexivity.
      * destruct (N.eqb (ckey c) 0); reflexivity.
      * destruct (N.eqb (ckey c) 0); reflexivity.
      * destruct (N.eqb (ckey c) 0); reflexivity.
      * destruct (N.eqb (ckey c) 0); sv; auto.
      * cxs. intros Hin. eapply core_req; [apply HI| |exact Hk]. destruct (N.eqb (ckey c) 0); exact Hin.
      * cxs. destruct (N.eqb (ckey c) 0); reflexivity.
      * reflexivity.
    + destruct nb; [exact HI|]. cbn [fst].
      eapply (put_same_inv s (ckey c) cx (mkRctx _ _ _ _ None _ _ _ _ _)); [exact HI|exact Hk|reflexivity..| |reflexivity].
      cxs. now rewrite Er.
Qed.

Lemma nodup_snoc {A} (l : list A) x : NoDup l -> ~ In x l -> NoDup (l ++ [x]).
Proof.
  induction l as [|y l IH]; cbn; intros H Hn; [constructor; [tauto|constructor]|]. inversion H; subst.
  constructor; [|apply IH; tauto]. intros X. apply in_app_or in X as [X|[X|[]]]; [contradiction|]. subst. apply Hn. now left.
Qed.
Lemma inv_ctxopen s k : RInv s -> lookup (k + 1)%N (rq_ctxs s) = None ->
  RInv (set_ctxs s (rq_ctxs s ++ [((k + 1)%N, ctx_init (rq_retry s))])).
Proof.
  intros ((Hcl & (c0 & H0 & Hr) & HC & HS & HN) & HW & HQ) Hk. split; [|split; sv; assumption].
  unfold Core, CoreV. sv. split; [exact Hcl|]. split.
  { exists c0. split; [now apply lookup_app_some|exact Hr]. }
  split.
  { intros k2 c2 H2. apply lookup_app_one in H2 as [H2|[_ ->]]; [now apply HC with k2|reflexivity]. }
  split.
  { intros x Hx. destruct (HS x Hx) as (c2 & m2 & A & B). exists c2, m2. split; [now apply lookup_app_some|exact B]. }
  rewrite map_app. cbn [map fst]. apply nodup_snoc; [exact HN|]. now apply lookup_none_notin.
Qed.

Lemma ctx_reset_rep fx s k c s2 c2 o : ctx_reset fx s k c = (s2, c2, o) -> cx_rep c2 = None.
Proof. intros H. apply ctx_reset_fields in H as (_ & _ & _ & _ & _ & _ & _ & _ & -> & _). reflexivity. Qed.

Lemma inv_ctxclose fx s k : RInv s -> RInv (fst (fst (req_stepL fx s (PCtxClose k)))).
Proof.
  intros HI. cbn [req_stepL]. unfold ctx_get. destruct (lookup (k + 1)%N (rq_ctxs s)) as [c|] eqn:Hk; [|exact HI].
  unfold req_ctx_fini. clear Hk.
  destruct (cx_send c);
    match goal with |- context [ctx_reset fx s ?K ?C] => destruct (ctx_reset fx s K C) as [[s2 c2] o3] eqn:ER end;
    cbn [fst].
  all: apply ctx_reset_fields in ER as (F1 & F2 & F3 & F4 & F5 & F6 & _);
    assert (Hne : N.eqb (k + 1) 0 = false) by (apply N.eqb_neq; lia);
    rewrite Hne, andb_false_r in F6; cbn [andb] in F6;
    destruct HI as ((Hcl & (c0 & H0 & Hr) & HC & HS & HN) & HW & HQ);
    (split; [|split]).
  all: try (sv; rewrite F3, F4; exact HW).
  all: try (sv; rewrite F3, F5; destruct HQ as [HQ|HQ]; [now left|right; now apply remove_id_nil]).
  all: unfold Core, CoreV; sv; rewrite F1, F2, F5, F6; split; [exact Hcl|]; split;
    [exists c0; split; [rewrite lookup_assoc_del_other by lia; exact H0|exact Hr]|]; split;
    [intros k2 c2' H2; apply lookup_assoc_del_some in H2 as [_ H2]; now apply HC with k2|]; split;
    [|now apply nodup_assoc_del];
    intros x Hx; apply in_remove_id in Hx as [Hx Hne2]; destruct (HS x Hx) as (c2' & m2 & A & B);
    exists c2', m2; split; [now rewrite lookup_assoc_del_other by exact Hne2|exact B].
Qed.

Ltac rpi fx s k c HI Hfx Hk :=
  match goal with ER : ctx_reset fx ?S1 k ?CIN = (?s2, ?c2, ?o2) |- _ =>
    eapply (reset_put_inv fx s k c CIN S1 s2 c2 o2 c2);
      [exact Hfx|exact HI|exact Hk|reflexivity|reflexivity|reflexivity|reflexivity|reflexivity|reflexivity|
       |exact ER|eapply ctx_reset_rep; exact ER|reflexivity..]
  end.
Lemma inv_cancel fx s a rv : fx_rdclr fx = true -> RInv s -> RInv (fst (fst (req_stepL fx s (PCancel a rv)))).
Proof.
  intros Hfx HI. cbn [req_stepL]. assert (HN : NoDup (map fst (rq_ctxs s))) by apply HI.
  destruct (find_ctx (fun c => opt_is a (cx_recv c)) (rq_ctxs s)) as [[k c]|] eqn:F1.
  - apply find_ctx_in in F1 as [Hin _]. pose proof (nodup_lookup _ _ _ HN Hin) as Hk.
    unfold req_cancel_recv. destruct (cx_send c) as [sa|];
      match goal with |- context [ctx_reset fx ?S k ?C] => destruct (ctx_reset fx S k C) as [[s2 c2] o2] eqn:ER end;
      cbn [fst]; rpi fx s k c HI Hfx Hk; [intros x Hx; now apply in_remove_id in Hx|auto].
  - destruct (find_ctx (fun c => opt_is a (cx_send c)) (rq_ctxs s)) as [[k c]|] eqn:F2; [|exact HI].
    apply find_ctx_in in F2 as [Hin _]. pose proof (nodup_lookup _ _ _ HN Hin) as Hk.
    unfold req_cancel_send. destruct (fx_cancel fx);
      match goal with |- context [ctx_reset fx ?S k ?C] => destruct (ctx_reset fx S k C) as [[s2 c2] o2] eqn:ER end;
      cbn [fst]; rpi fx s k c HI Hfx Hk; auto.
Qed.

Lemma inv_setopt fx s c o : RInv s -> RInv (fst (fst (req_stepL fx s (PSetOpt c o)))).
Proof.
  intros HI. destruct o as [n|n|n|ms|ms|ms|b|t|t]; destruct c as [k|]; cbn [req_stepL]; try exact HI.
  - destruct (8192 <? N.of_nat n)%N; exact HI.
  - destruct (8192 <? N.of_nat n)%N; exact HI.
  - destruct (_ || _); [exact HI|]. cbn [fst]. eapply view_inv; [exact HI|reflexivity..].
  - destruct (ms <? -1)%Z; [exact HI|]. unfold ctx_get.
    destruct (lookup (ckey (Some k)) (rq_ctxs s)) as [cx|] eqn:Hk; [|exact HI]. cbn [fst].
    eapply (put_same_inv s (ckey (Some k)) cx (mkRctx _ _ _ _ _ _ _ _ _ _)); [exact HI|exact Hk|reflexivity..|].
    cxs. apply (core_c s (ckey (Some k))); [apply HI|exact Hk].
  - destruct (ms <? -1)%Z; [exact HI|]. unfold ctx_get.
    destruct (lookup (ckey None) (rq_ctxs s)) as [cx|] eqn:Hk; [|exact HI]. cbn [fst].
    eapply (put_same_inv s (ckey None) cx (mkRctx _ _ _ _ _ _ _ _ _ _)); [exact HI|exact Hk|reflexivity..|].
    cxs. apply (core_c s (ckey None)); [apply HI|exact Hk].
  - destruct (ms <? -1)%Z; [exact HI|]. cbn [fst]. eapply view_inv; [exact HI|reflexivity..].
Qed.

Lemma inv_pipestart fx s p peer : RInv s -> RInv (fst (fst (req_stepL fx s (PPipeStart p peer)))).
Proof.
  intros HI. cbn [req_stepL]. destruct (negb (N.eqb peer PROTO_REP)); [exact HI|].
  match goal with |- context [run_send_queue fx ?X] => set (s1 := X) end.
  assert (H1 : RPre s1).
  { split; [subst s1; unfold Core; sv; apply HI|]. left. subst s1. unfold WV. sv. now destruct (rq_ready s). }
  pose proof (run_send_queue_inv fx s1 H1) as H2. destruct (run_send_queue fx s1) as [[s2 o2] cl]. exact H2.
Qed.

Lemma inv_senddone fx s p rv : RInv s -> RInv (fst (fst (req_stepL fx s (PSendDone p rv)))).
Proof.
  intros HI. cbn [req_stepL]. destruct (negb (N.eqb rv 0)).
  { cbn [fst]. eapply view_inv; [exact HI|reflexivity..]. }
  destruct (_ || _).
  { cbn [fst]. eapply view_inv; [exact HI|reflexivity..]. }
  match goal with |- context [run_send_queue fx ?X] => set (s2 := X) end.
  assert (H2 : RPre s2).
  { destruct HI as (HC & HW & HQ). subst s2. sv. split.
    { destruct (is_nil (rq_sendq s)); unfold Core; sv; exact HC. }
    destruct (rq_sendq s) as [|k sq] eqn:ES; cbn [is_nil].
    - left. unfold WV. sv. now destruct (rq_ready s).
    - right. sv. exists p. destruct HQ as [HQ|HQ]; [|discriminate]. rewrite HQ in *.
      split; [reflexivity|]. split; [rewrite ES; discriminate|exact HW]. }
  pose proof (run_send_queue_inv fx s2 H2) as H3. destruct (run_send_queue fx s2) as [[s3 o3] cl]. exact H3.
Qed.

Lemma inv_recvdone fx s p rv m : RInv s -> RInv (fst (fst (req_stepL fx s (PRecvDone p rv m)))).
Proof.
  intros HI. destruct (N.eqb_spec rv 0) as [->|Hne].
  2:{ cbn [req_stepL]. apply N.eqb_neq in Hne. rewrite Hne. exact HI. }
  rewrite recvdone_cases. destruct (req_recv (pm_body m)) as [[id m']|]; [|exact HI].
  destruct (matchable_b s id) eqn:EM; [|exact HI].
  apply matchable_b_true in EM as (k & c & H1 & H2 & H3 & H4). rewrite H1, H2. cbv zeta. unfold ctx_get in H2.
  assert (Hr0 : k = 0%N -> rq_readable s = false).
  { intros ->. rewrite (core_r s c); [now rewrite H4|apply HI|exact H2]. }
  destruct (fx_stash fx); destruct (cx_recv c) as [ra|]; destruct (N.eqb_spec k 0) as [Hk0|Hk0]; cbn [fst];
    (eapply (put_inv s k c (mkRctx _ None _ _ _ _ _ _ _ _)); [exact HI|exact H2|reflexivity|reflexivity|reflexivity|reflexivity|..]); sv; cxs;
    try (intros x Hx; now apply in_remove_id in Hx);
    try (intros Hx; now apply not_in_remove_id in Hx);
    try (intros X; now elim X);
    try (apply N.eqb_neq in Hk0; rewrite Hk0; reflexivity);
    try (rewrite Hk0; cbn [N.eqb is_some]; auto).
Qed.

(* ------------------------------------------------------------------ req0_retry_cb *)
Lemma retry_scan_false s now ks : forall sq sq', retry_scan s now ks sq = (sq', false) -> sq' = sq.
Proof.
  induction ks as [|k r IH]; intros sq sq' H; cbn [retry_scan] in H; [now inversion H|].
  destruct (ctx_get s k) as [c|]; [|now apply IH].
  destruct (_ || _); [now apply IH|].
  destruct (retry_scan s now r (if has_id k sq then sq else sq ++ [k])) as [sq2 b]. discriminate.
Qed.
Lemma retry_scan_S s now ks : forall sq x, In x (fst (retry_scan s now ks sq)) ->
  In x sq \/ exists c m, ctx_get s x = Some c /\ cx_req c = Some m.
Proof.
  induction ks as [|k r IH]; intros sq x H; cbn [retry_scan] in H; [now left|].
  destruct (ctx_get s k) as [c|] eqn:Hk; [|now apply IH].
  destruct (cx_req c) as [mq|] eqn:Hq.
  2:{ rewrite orb_true_r in H. now apply IH. }
  destruct (_ || _); [now apply IH|].
  destruct (retry_scan s now r (if has_id k sq then sq else sq ++ [k])) as [sq2 b] eqn:E. cbn [fst] in H.
  specialize (IH (if has_id k sq then sq else sq ++ [k]) x). rewrite E in IH. cbn [fst] in IH.
  destruct (IH H) as [Hin|Hex]; [|now right].
  destruct (has_id k sq); [now left|]. apply in_app_or in Hin as [Hin|[<-|[]]]; [now left|]. right. eauto.
Qed.
Lemma coreV_sq_ext cl rd sq sq' cs : CoreV cl rd sq cs ->
  (forall x, In x sq' -> In x sq \/ exists c m, lookup x cs = Some c /\ cx_req c = Some m) -> CoreV cl rd sq' cs.
Proof.
  intros (Hcl & H0 & HC & HS & HN) Hsq. unfold CoreV. repeat (split; [assumption|]). split; [|exact HN].
  intros x Hx. destruct (Hsq x Hx) as [Hin|Hex]; [now apply HS|exact Hex].
Qed.

Lemma inv_tick fx s now : RInv s -> RInv (fst (fst (req_stepL fx s (PTick now)))).
Proof.
  intros HI. cbn [req_stepL].
  assert (H0 : RInv (set_now s now)) by (eapply view_inv; [exact HI|reflexivity..]).
  destruct (_ || _); [exact H0|]. destruct (rq_tickdl (set_now s now)) as [d|]; [|exact H0].
  destruct (negb (d <? now)%N); [exact H0|].
  destruct (retry_scan (set_now s now) now (rq_retryq (set_now s now)) (rq_sendq (set_now s now))) as [sq resched] eqn:ES.
  destruct resched.
  - assert (HS : forall x, In x sq -> In x (rq_sendq s) \/ exists c m, lookup x (rq_ctxs s) = Some c /\ cx_req c = Some m).
    { intros x Hx. pose proof (retry_scan_S (set_now s now) now (rq_retryq (set_now s now)) (rq_sendq (set_now s now)) x) as HS.
      rewrite ES in HS. exact (HS Hx). }
    destruct HI as (HC & HW & HQ).
    destruct (is_nil _);
      match goal with |- context [run_send_queue fx ?X] => set (s2 := X) end;
      (assert (H2 : RPre s2);
       [split; [subst s2; unfold Core; sv; eapply coreV_sq_ext; [exact HC|exact HS]|left; subst s2; sv; exact HW]|]);
      pose proof (run_send_queue_inv fx s2 H2) as H3; destruct (run_send_queue fx s2) as [[s3 o3] cl]; exact H3.
  - apply retry_scan_false in ES. subst sq. destruct (is_nil _); cbn [fst]; (eapply view_inv; [exact HI|reflexivity..]).
Qed.

(* ------------------------------------------------------------------ req0_pipe_close *)
Ltac rpi3 fx s k c C3 HI Hfx Hk :=
  match goal with ER : ctx_reset fx ?S1 k ?CIN = (?s2, ?c2, ?o2) |- _ =>
    eapply (reset_put_inv fx s k c CIN S1 s2 c2 o2 C3);
      [exact Hfx|exact HI|exact Hk|reflexivity|reflexivity|reflexivity|reflexivity|reflexivity|reflexivity|
       |exact ER|cxs; eapply ctx_reset_rep; exact ER|reflexivity..]
  end.
Ltac pcl_fin IH :=
  cbv beta iota;
  lazymatch goal with |- context [pipe_close_loop ?fx ?f ?S1 ?p] =>
    let H := fresh "HS1" in
    assert (H : RInv S1); [|specialize (IH S1 H); destruct (pipe_close_loop fx f S1 p) as [[? ?] ?]; exact IH]
  end.

Lemma pcl_inv fx p : fx_rdclr fx = true -> forall f s, RInv s -> RInv (fst (fst (pipe_close_loop fx f s p))).
Proof.
  intros Hfx. induction f as [|f IH]; intros s HI; cbn [pipe_close_loop]; [exact HI|].
  destruct (first_on p (rq_plist s)) as [k|]; [|exact HI].
  set (s0 := set_plist s (plist_del k (rq_plist s))).
  assert (H0 : RInv s0) by (eapply view_inv; [exact HI|reflexivity..]).
  unfold ctx_get at 1. destruct (lookup k (rq_ctxs s0)) as [c|] eqn:Hk; [|now apply IH].
  destruct (negb (retry_on fx c)).
  - destruct (cx_recv c) as [ra|] eqn:Era.
    + match goal with |- context [ctx_reset fx ?S k ?C] => destruct (ctx_reset fx S k C) as [[s' c'] o'] eqn:ER end.
      pcl_fin IH. rpi3 fx s0 k c c' H0 Hfx Hk. auto.
    + match goal with |- context [ctx_reset fx ?S k ?C] => destruct (ctx_reset fx S k C) as [[s' c'] o'] eqn:ER end.
      pcl_fin IH.
      rpi3 fx s0 k c (mkRctx (cx_rid c') (cx_recv c') (cx_send c') (cx_req c') (cx_rep c') (cx_retry c') (cx_sretry c') (cx_rtime c') true (cx_owned c')) H0 Hfx Hk.
      auto.
  - destruct (cx_req c) as [mq|] eqn:Eq.
    2:{ pcl_fin IH. exact H0. }
    set (c1 := mkRctx (cx_rid c) (cx_recv c) (cx_send c) (Some mq) (cx_rep c) (cx_retry c) (cx_sretry c)
                      (after (rq_now s0) (eff_retry fx c)) (cx_creset c) (cx_owned c)).
    assert (H1 : RInv (ctx_put s0 k c1)).
    { eapply (put_same_inv s0 k c c1); [exact H0|exact Hk|reflexivity..|now rewrite Eq|reflexivity|].
      subst c1. cxs. apply (core_c s0 k); [apply H0|exact Hk]. }
    destruct (has_id k (rq_sendq (ctx_put s0 k c1))).
    { pcl_fin IH. exact H1. }
    match goal with |- context [run_send_queue fx ?X] => set (s2 := X) end.
    assert (H2 : RPre s2).
    { destruct H1 as (HC & HW & HQ). split; [|left; subst s2; sv; exact HW].
      subst s2. unfold Core. sv. eapply coreV_sq_ext; [exact HC|]. intros x Hx.
      apply in_app_or in Hx as [Hx|[<-|[]]]; [now left|]. right. exists c1, mq. sv.
      split; [apply lookup_assoc_set_same|reflexivity]. }
    pose proof (run_send_queue_inv fx s2 H2) as H3. destruct (run_send_queue fx s2) as [[s3 o3] cl3].
    cbn [fst] in H3. pcl_fin IH. exact H3.
Qed.

Lemma inv_pipeclose fx s p : fx_rdclr fx = true -> RInv s -> RInv (fst (fst (req_stepL fx s (PPipeClose p)))).
Proof.
  intros Hfx (HC & HW & HQ). cbn [req_stepL]. apply pcl_inv; [exact Hfx|].
  assert (Hnil : rq_ready s = [] -> remove_id p (rq_ready s) = []) by apply remove_id_nil.
  destruct (is_nil (rq_ready (set_pipes s (remove_id p (rq_ready s)) (remove_id p (rq_busy s)) (rq_pclosed s ++ [p])))) eqn:En;
    svin En; (split; [unfold Core; sv; exact HC|]); split; unfold WV, QV in *; sv.
  - now rewrite En.
  - destruct HQ as [HQ|HQ]; [left; auto|now right].
  - rewrite En. cbn [negb]. destruct (rq_ready s); [cbn in En; discriminate|exact HW].
  - destruct HQ as [HQ|HQ]; [left; auto|now right].
Qed.

(* ================================================================== the pack *)
(* the environment contract: an aio is submitted once at a time; a context is opened once; cancel codes
   are not 0; a pipe is started once, with an id not in use; a transport send completion arrives only
   for a send in flight.  Nothing depends on the NONBLOCK flag. *)
Definition req_ok (s : req) (o : pop) : Prop :=
  match o with
  | PSend _ a _ _ => ~ In a (req_busy s)
  | PRecv _ a _ => ~ In a (req_busy s)
  | PCtxOpen k => ctx_get s (k + 1)%N = None
  | PCancel _ rv => rv <> 0%N
  | PPipeStart p _ => ~ In p (rq_ready s) /\ ~ In p (rq_busy s) /\ ~ In p (rq_pclosed s)
  | PSendDone p _ => In p (map fst (rq_sending s))
  | _ => True
  end.
Definition M_req (fx : rfix) : pmodel :=
  mkPM req req_init (req_step fx) req_poll req_ok RInv req_busy (fun _ => true).

Lemma req_inv_init fx : pm_inv (M_req fx) (pm_init (M_req fx)).
Proof.
  cbn. unfold RInv, Core, CoreV, WV, QV. cbn. split; [|split; [reflexivity|now left]].
  split; [reflexivity|]. split.
  { eexists. split; reflexivity. }
  split.
  { intros k c. destruct k; [|discriminate]. intros H. inversion H; subst. reflexivity. }
  split; [intros k []|]. constructor; [intros []|constructor].
Qed.
Lemma req_inv_step fx : fx_rdclr fx = true ->
  forall s o, pm_inv (M_req fx) s -> pm_ok (M_req fx) s o -> o <> PSockClose -> pm_inv (M_req fx) (fst (pm_step (M_req fx) s o)).
Proof.
  intros Hfx s o HI Hok Hc. unM M_req. rewrite stepL_fst. destruct o.
  - now apply inv_send.
  - now apply inv_recv.
  - now apply inv_cancel.
  - now apply inv_pipestart.
  - now apply inv_pipeclose.
  - now apply inv_senddone.
  - now apply inv_recvdone.
  - now apply inv_setopt.
  - cbn [req_stepL fst]. now apply inv_ctxopen.
  - now apply inv_ctxclose.
  - now elim Hc.
  - now apply inv_tick.
Qed.
Theorem req_c15_inv fx : fx_rdclr fx = true -> C15_inv (M_req fx).
Proof. intros Hfx. apply reachable_inv; [apply req_inv_init|now apply req_inv_step]. Qed.

(* ================================================================== the clauses *)
Lemma run_send_queue_single fx s k p rd c m :
  rq_sendq s = [k] -> rq_ready s = p :: rd -> lookup k (rq_ctxs s) = Some c -> cx_req c = Some m ->
  exists s7 cl,
    run_send_queue fx s = (s7, (match cx_send c with Some a => [Complete a E_OK None] | None => [] end) ++ [TranSend p m], cl) /\
    exists ow, rq_ctxs s7 = assoc_set k (mkRctx (cx_rid c) (cx_recv c) None (cx_req c) (cx_rep c) (cx_retry c) (cx_sretry c)
                                           (cx_rtime c) (cx_creset c) ow) (rq_ctxs s).
Proof.
  intros Hsq Hrd Hk Hm. unfold run_send_queue. rewrite Hsq. cbn [length run_sendq]. rewrite Hsq, Hrd.
  unfold ctx_get. rewrite Hk, Hm. do 2 eexists. split; [reflexivity|].
  destruct (retry_on fx c); destruct (is_nil rd); sv; eexists; reflexivity.
Qed.

Lemma not_busy_aios s k c a : ~ In a (req_busy s) -> lookup k (rq_ctxs s) = Some c -> cx_recv c <> Some a /\ cx_send c <> Some a.
Proof.
  intros Hn Hk. split; intros E; apply Hn; [eapply busy_lookup_recv|eapply busy_lookup_send]; eauto.
Qed.

(* the two ways req0_ctx_send runs out of request ids *)
Definition send_nomem (fx : rfix) (s : req) (k : N) (cx : rctx) : Prop :=
  let '(s1, c1, _) := snd_pre s k cx in
  let '(s2, _, _) := ctx_reset fx s1 k c1 in
  snd_full s2 = true \/ id_alloc (S (length (rq_ids s2))) (rq_ids s2) (rq_cursor s2) = None.

Lemma req_send_cases fx s c a : RInv s -> ~ In a (req_busy s) ->
  (exists rv s' outs, (rv = E_CLOSED /\ lookup (ckey c) (rq_ctxs s) = None \/
                       rv = E_NOMEM /\ exists cx, lookup (ckey c) (rq_ctxs s) = Some cx /\ send_nomem fx s (ckey c) cx) /\
      (forall nb m, req_step fx s (PSend c a nb m) = (s', outs)) /\
      compl_of a outs = [(rv, None)] /\ ~ In a (req_busy s'))
  \/ (rq_ready s = [] /\
      (exists s' outs, (forall m, req_step fx s (PSend c a true m) = (s', outs)) /\
         compl_of a outs = [(E_AGAIN, None)] /\ ~ In a (req_busy s')) /\
      (forall m, compl_of a (snd (req_step fx s (PSend c a false m))) = [] /\
                 In a (req_busy (fst (req_step fx s (PSend c a false m))))))
  \/ (rq_ready s <> [] /\
      forall m, req_step fx s (PSend c a true m) = req_step fx s (PSend c a false m) /\
                compl_of a (snd (req_step fx s (PSend c a true m))) = [(E_OK, None)] /\
                ~ In a (req_busy (fst (req_step fx s (PSend c a true m))))).
Proof.
  intros HI Hnb. set (k := ckey c).
  destruct (lookup k (rq_ctxs s)) as [cx|] eqn:Hk.
  2:{ left. exists E_CLOSED, s, [Complete a E_CLOSED None]. split; [left; split; reflexivity|]. split.
      - intros nb m. unfold req_step. cbn [req_stepL]. unfold ctx_get. fold k. now rewrite Hk.
      - split; [apply compl_of_self|exact Hnb]. }
  assert (Hcl : rq_closed s = false) by apply HI.
  destruct (not_busy_aios s k cx a Hnb Hk) as [Hra Hsa].
  destruct (snd_pre s k cx) as [[s1 c1] o2] eqn:E1. destruct (ctx_reset fx s1 k c1) as [[s2 c2] o3] eqn:E2.
  assert (Hstep : forall nb m, req_step fx s (PSend c a nb m) =
    if snd_full s2 then (ctx_put s2 k c2, snd_o1 cx ++ o2 ++ o3 ++ [Complete a E_NOMEM None]) else
    match id_alloc (S (length (rq_ids s2))) (rq_ids s2) (rq_cursor s2) with
    | None => (ctx_put s2 k c2, snd_o1 cx ++ o2 ++ o3 ++ [Complete a E_NOMEM None])
    | Some (id, cur') =>
        if is_nil (rq_ready s2) && nb
        then (ctx_put (set_ids s2 (rq_ids s2) cur') k (snd_c3nb id c2), snd_o1 cx ++ o2 ++ o3 ++ [Complete a E_AGAIN None])
        else let '(s6, o4) := snd_enq s2 k c2 a id cur' (req_send id m) in
             let '(s7, o5, cl) := run_send_queue fx s6 in
             (s7, snd_o1 cx ++ o2 ++ o3 ++ o4 ++ o5)
    end).
  { intros nb m. unfold req_step. cbn [req_stepL]. unfold ctx_get. fold k. rewrite Hk, req_ctx_send_eq, Hcl, E1, E2.
    destruct (snd_full s2); [reflexivity|].
    destruct (id_alloc (S (length (rq_ids s2))) (rq_ids s2) (rq_cursor s2)) as [[id cur']|]; [|reflexivity].
    destruct (is_nil (rq_ready s2) && nb); [reflexivity|].
    destruct (snd_enq s2 k c2 a id cur' (req_send id m)) as [s6 o4]. destruct (run_send_queue fx s6) as [[s7 o5] cl]. reflexivity. }
  pose proof E1 as E1'. apply snd_pre_fields in E1 as (A1 & A2 & A3 & A4 & A5 & A6 & A7 & A8 & A9 & A10).
  pose proof (ctx_reset_fields _ _ _ _ _ _ _ E2) as (F1 & F2 & F3 & F4 & F5 & F6 & F7 & F8 & F9 & F10).
  assert (Hpre : forall tl, compl_of a (snd_o1 cx ++ o2 ++ o3 ++ tl) = compl_of a tl).
  { intros tl. rewrite !compl_of_app, snd_o1_compl, A10, F10 by assumption. reflexivity. }
  assert (Hc2 : ctx_aios c2 = []).
  { rewrite F9. unfold ctx_aios. cxs. now rewrite A8, A9. }
  assert (Hcs : rq_ctxs s2 = rq_ctxs s) by now rewrite F1, A2.
  assert (Hnomem : exists rv s' outs, rv = E_NOMEM /\
            (ctx_put s2 k c2, snd_o1 cx ++ o2 ++ o3 ++ [Complete a E_NOMEM None]) = (s', outs) /\
            compl_of a outs = [(rv, None)] /\ ~ In a (req_busy s')).
  { exists E_NOMEM. do 2 eexists. split; [reflexivity|]. split; [reflexivity|]. split.
    - rewrite Hpre. apply compl_of_self.
    - unfold req_busy. sv. rewrite Hcs. intros X. apply busy_assoc_set in X as [X|X]; [now rewrite Hc2 in X|contradiction]. }
  destruct (snd_full s2) eqn:EF.
  { left. destruct Hnomem as (rv & s' & outs & R1 & R2 & R3 & R4). exists rv, s', outs.
    split; [right; split; [exact R1|exists cx; split; [reflexivity|unfold send_nomem; fold k; rewrite E1', E2; now left]]|].
    split; [|split; assumption]. intros nb m. now rewrite Hstep. }
  destruct (id_alloc (S (length (rq_ids s2))) (rq_ids s2) (rq_cursor s2)) as [[id cur']|] eqn:EA.
  2:{ left. destruct Hnomem as (rv & s' & outs & R1 & R2 & R3 & R4). exists rv, s', outs.
      split; [right; split; [exact R1|exists cx; split; [reflexivity|unfold send_nomem; fold k; rewrite E1', E2; now right]]|].
      split; [|split; assumption]. intros nb m. now rewrite Hstep. }
  clear Hnomem. assert (Hrd : rq_ready s2 = rq_ready s) by now rewrite F3, A5. rewrite Hrd in Hstep.
  destruct (rq_ready s) as [|p rd] eqn:ER; [right; left|right; right].
  - split; [reflexivity|]. split.
    + do 2 eexists. split; [intros m; rewrite Hstep; cbn [is_nil andb]; reflexivity|]. split.
      * rewrite Hpre. apply compl_of_self.
      * unfold req_busy. sv. rewrite Hcs. intros X. apply busy_assoc_set in X as [X|X]; [|contradiction].
        unfold snd_c3nb, ctx_aios in X. cxs. rewrite F9 in X. cxs. now rewrite A8, A9 in X.
    + intros m. rewrite Hstep. cbn [is_nil andb].
      destruct (snd_enq s2 k c2 a id cur' (req_send id m)) as [s6 o4] eqn:E6.
      apply snd_enq_fields in E6 as (B1 & B2 & B3 & B4 & B5 & B6 & B7).
      unfold run_send_queue. rewrite run_sendq_noready by (now rewrite B4, Hrd). cbn [fst snd]. split.
      * rewrite Hpre, compl_of_app, B7. reflexivity.
      * unfold req_busy. eapply (busy_lookup_send _ k); [rewrite B6; apply lookup_assoc_set_same|reflexivity].
  - split; [discriminate|]. intros m. rewrite !Hstep. cbn [is_nil andb]. split; [reflexivity|].
    destruct (snd_enq s2 k c2 a id cur' (req_send id m)) as [s6 o4] eqn:E6.
    apply snd_enq_fields in E6 as (B1 & B2 & B3 & B4 & B5 & B6 & B7).
    assert (Hsq : rq_sendq s6 = [k]).
    { rewrite B5, F5. destruct HI as (_ & _ & [HQ|HQ]); [rewrite ER in HQ; discriminate|].
      destruct (rq_sendq s1) as [|x r]; [reflexivity|]. exfalso. specialize (A6 x (or_introl eq_refl)). now rewrite HQ in A6. }
    destruct (run_send_queue_single fx s6 k p rd (snd_c3 s2 c2 a id (req_send id m)) (req_send id m)) as (s7 & cl & R1 & ow & R2).
    + exact Hsq.
    + now rewrite B4, Hrd.
    + rewrite B6. apply lookup_assoc_set_same.
    + reflexivity.
    + rewrite R1. cbn [fst snd]. split.
      * rewrite Hpre, compl_of_app, B7. cbn [snd_c3 cx_send app]. rewrite compl_of_cons, compl_of_self. reflexivity.
      * unfold req_busy. rewrite R2, B6, assoc_set_twice, Hcs. intros X. apply busy_assoc_set in X as [X|X]; [|contradiction].
        unfold ctx_aios in X. cxs. cbn [snd_c3 cx_recv] in X. destruct X.
Qed.

Section Clauses.
  Variable fx : rfix.
  Notation M := (M_req fx).

  Lemma req_nb_send_immediate s : pm_inv M s -> nb_send_immediate_at M s.
  Proof.
    intros HI c a m s' outs Hok H. unM M_req.
    destruct (req_send_cases fx s c a HI Hok) as [(rv & s0 & o0 & Hrv & Hst & Hc & Hb)|[(Hr & (s0 & o0 & Hst & Hc & Hb) & _)|(Hr & Hst)]].
    - rewrite Hst in H. inversion H; subst. exists rv. split; [exact Hc|]. split; [exact Hb|]. intros _ m2 _. apply Hst.
    - rewrite Hst in H. inversion H; subst. exists E_AGAIN. split; [exact Hc|]. split; [exact Hb|]. intros _ m2 _. apply Hst.
    - destruct (Hst m) as (_ & Hc & Hb). rewrite H in Hc, Hb. cbn [fst snd] in Hc, Hb.
      exists E_OK. split; [exact Hc|]. split; [exact Hb|]. intros X. now elim X.
  Qed.
  Lemma req_nb_send_possible s : pm_inv M s -> nb_send_possible_at M s.
  Proof.
    intros HI c a m Hok H. unM M_req.
    destruct (req_send_cases fx s c a HI Hok) as [(rv & s0 & o0 & Hrv & Hst & Hc & Hb)|[(Hr & _ & Hq)|(Hr & Hst)]].
    - now rewrite !Hst.
    - destruct (Hq m) as [Hc _]. unfold result_of in H. rewrite Hc in H. discriminate.
    - apply Hst.
  Qed.
  Lemma req_nb_send_strict s : pm_inv M s -> nb_send_eagain_queues_at M s.
  Proof.
    intros HI c a m Hok H. unM M_req.
    destruct (req_send_cases fx s c a HI Hok) as [(rv & s0 & o0 & Hrv & Hst & Hc & Hb)|[(Hr & _ & Hq)|(Hr & Hst)]].
    - rewrite Hst in H. cbn [snd] in H. rewrite (result_of_compl _ _ _ _ Hc) in H. errs. destruct Hrv as [[-> _]|[-> _]]; discriminate.
    - destruct (Hq m) as [Hc Hb]. split; [|exact Hb]. unfold result_of. now rewrite Hc.
    - destruct (Hst m) as (_ & Hc & _). rewrite (result_of_compl _ _ _ _ Hc) in H. discriminate.
  Qed.

  (* the result of a NONBLOCK send against the ready list *)
  Lemma req_send_result s c a m : RInv s -> ~ In a (req_busy s) ->
    let r := result_of a (snd (req_step fx s (PSend c a true m))) in
    (r = Some E_OK /\ rq_ready s <> []) \/ (r = Some E_AGAIN /\ rq_ready s = []) \/
    (r = Some E_CLOSED /\ lookup (ckey c) (rq_ctxs s) = None) \/
    (r = Some E_NOMEM /\ exists cx, lookup (ckey c) (rq_ctxs s) = Some cx /\ send_nomem fx s (ckey c) cx).
  Proof.
    intros HI Hok. cbv zeta.
    destruct (req_send_cases fx s c a HI Hok) as [(rv & s0 & o0 & Hrv & Hst & Hc & Hb)|[(Hr & (s0 & o0 & Hst & Hc & Hb) & _)|(Hr & Hst)]].
    - right. right. rewrite Hst. cbn [snd]. rewrite (result_of_compl _ _ _ _ Hc). destruct Hrv as [[-> Hn]|[-> Hn]]; auto.
    - right. left. rewrite Hst. cbn [snd]. rewrite (result_of_compl _ _ _ _ Hc). auto.
    - left. destruct (Hst m) as (_ & Hc & _). rewrite (result_of_compl _ _ _ _ Hc). auto.
  Qed.

  Lemma req_mirror_w s : pm_inv M s -> mirror_w_at M s.
  Proof.
    intros HI a m Hok _. unM M_req. unfold rv_send. unM M_req. cbn [req_poll poll_w].
    assert (HW : rq_writable s = negb (is_nil (rq_ready s))) by apply HI.
    destruct (req_send_result s None a m HI Hok) as [[E Hr]|[[E Hr]|[[E _]|[E _]]]]; cbv zeta in E; rewrite E; errs.
    - split; [|discriminate]. intros _. rewrite HW. now destruct (rq_ready s).
    - split; [discriminate|]. rewrite HW, Hr. discriminate.
    - split; discriminate.
    - split; discriminate.
  Qed.
  (* exact form of the send half, for every send that is not refused for want of a free request id *)
  Lemma req_mirror_w_exact_but_nomem s : pm_inv M s ->
    forall a m, pm_ok M s (PSend None a true m) -> rv_send M s a m <> Some E_NOMEM ->
    (rq_writable s = true <-> rv_send M s a m = Some E_OK).
  Proof.
    intros HI a m Hok. unM M_req. unfold rv_send. unM M_req.
    assert (HW : rq_writable s = negb (is_nil (rq_ready s))) by apply HI.
    assert (H0 : exists c0, lookup 0%N (rq_ctxs s) = Some c0) by (destruct HI as ((_ & (c0 & A & _) & _) & _); eauto).
    destruct (req_send_result s None a m HI Hok) as [[E Hr]|[[E Hr]|[[E Hn0]|[E _]]]]; cbv zeta in E; rewrite E; errs; intros Hn.
    - split; [reflexivity|]. intros _. rewrite HW. now destruct (rq_ready s).
    - rewrite HW, Hr. split; discriminate.
    - exfalso. destruct H0 as [c0 H0]. cbn [ckey] in Hn0. congruence.
    - now elim Hn.
  Qed.
End Clauses.

Lemma aios_notin c a : cx_recv c <> Some a -> cx_send c <> Some a -> ~ In a (ctx_aios c).
Proof.
  unfold ctx_aios. destruct (cx_recv c), (cx_send c); cbn; intros H1 H2 X;
    repeat (destruct X as [X|X]; [subst; congruence|]); exact X.
Qed.
Lemma busy_put_notin s k c c' a :
  ~ In a (req_busy s) -> lookup k (rq_ctxs s) = Some c -> ~ In a (ctx_aios c') -> ~ In a (req_busy (ctx_put s k c')).
Proof.
  intros Hn Hk Hc X. unfold req_busy in X. svin X. apply busy_assoc_set in X as [X|X]; contradiction.
Qed.

(* the NONBLOCK receive, case by case *)
Definition recv_guard (c : rctx) : bool :=
  is_some (cx_recv c) || (negb (is_some (cx_req c)) && negb (is_some (cx_rep c))).
Lemma req_ctx_recv_eq s k c a nb :
  req_ctx_recv s k c a nb =
  if recv_guard c then
    if cx_creset c
    then (ctx_put s k (mkRctx (cx_rid c) (cx_recv c) (cx_send c) (cx_req c) (cx_rep c) (cx_retry c) (cx_sretry c) (cx_rtime c) false (cx_owned c)),
          [Complete a E_CONNRESET None])
    else (s, [Complete a E_STATE None])
  else
    match cx_rep c with
    | None =>
        if nb then (s, [Complete a E_AGAIN None])
        else (ctx_put s k (mkRctx (cx_rid c) (Some a) (cx_send c) (cx_req c) None (cx_retry c) (cx_sretry c) (cx_rtime c) (cx_creset c) (cx_owned c)), [])
    | Some m =>
        let s1 := ctx_put s k (mkRctx (cx_rid c) None (cx_send c) (cx_req c) None (cx_retry c) (cx_sretry c) (cx_rtime c) (cx_creset c) (cx_owned c)) in
        ((if N.eqb k 0 then set_readable s1 false else s1), [Complete a E_OK (Some m)])
    end.
Proof. unfold req_ctx_recv, recv_guard. destruct (cx_recv c), (cx_req c), (cx_rep c); reflexivity. Qed.
Lemma req_step_recv fx s c a nb :
  req_step fx s (PRecv c a nb) =
  match lookup (ckey c) (rq_ctxs s) with
  | Some cx => req_ctx_recv s (ckey c) cx a nb
  | None => (s, [Complete a E_CLOSED None])
  end.
Proof.
  unfold req_step. cbn [req_stepL]. unfold ctx_get. destruct (lookup (ckey c) (rq_ctxs s)) as [cx|]; [|reflexivity].
  destruct (req_ctx_recv s (ckey c) cx a nb). reflexivity.
Qed.

Section ClausesR.
  Variable fx : rfix.
  Notation M := (M_req fx).

  Lemma req_nb_recv_immediate s : pm_inv M s -> nb_recv_immediate_at M s.
  Proof.
    intros HI c a s' outs Hok H. unM M_req. rewrite req_step_recv in H.
    destruct (lookup (ckey c) (rq_ctxs s)) as [cx|] eqn:Hk.
    2:{ inversion H; subst. exists E_CLOSED, None. rewrite compl_of_self. split; [reflexivity|]. split; [exact Hok|].
        errs. split; [intros X; now elim X|discriminate]. }
    destruct (not_busy_aios s _ cx a Hok Hk) as [Hra Hsa].
    rewrite req_ctx_recv_eq in H. destruct (recv_guard cx).
    - destruct (cx_creset cx); inversion H; subst; clear H.
      + exists E_CONNRESET, None. rewrite compl_of_self. split; [reflexivity|]. split.
        * eapply busy_put_notin; eauto. now apply aios_notin.
        * errs. split; [intros X; now elim X|discriminate].
      + exists E_STATE, None. rewrite compl_of_self. split; [reflexivity|]. split; [exact Hok|].
        errs. split; [intros X; now elim X|discriminate].
    - destruct (cx_rep cx) as [mr|]; inversion H; subst; clear H.
      + exists E_OK, (Some mr). rewrite compl_of_self. split; [reflexivity|]. split; [|split; [reflexivity|discriminate]].
        assert (X : ~ In a (req_busy (ctx_put s (ckey c) (mkRctx (cx_rid cx) None (cx_send cx) (cx_req cx) None (cx_retry cx) (cx_sretry cx) (cx_rtime cx) (cx_creset cx) (cx_owned cx))))).
        { eapply busy_put_notin; eauto. apply aios_notin; cxs; [discriminate|exact Hsa]. }
        destruct (N.eqb (ckey c) 0); exact X.
      + exists E_AGAIN, None. rewrite compl_of_self. split; [reflexivity|]. split; [exact Hok|].
        errs. split; [intros X; now elim X|discriminate].
  Qed.
  Lemma req_nb_recv_possible s : pm_inv M s -> nb_recv_possible_at M s.
  Proof.
    intros HI c a Hok H. unM M_req. rewrite !req_step_recv in *.
    destruct (lookup (ckey c) (rq_ctxs s)) as [cx|]; [|reflexivity].
    rewrite !req_ctx_recv_eq in *. destruct (recv_guard cx); [reflexivity|].
    destruct (cx_rep cx); [reflexivity|]. cbn [snd] in H. discriminate.
  Qed.
  Lemma req_nb_recv_strict s : pm_inv M s -> nb_recv_eagain_queues_at M s.
  Proof.
    intros HI c a Hok H. unM M_req. rewrite !req_step_recv in *.
    destruct (lookup (ckey c) (rq_ctxs s)) as [cx|] eqn:Hk.
    2:{ cbn [snd] in H. rewrite result_of_single in H. errs. discriminate. }
    rewrite !req_ctx_recv_eq in *. destruct (recv_guard cx).
    { destruct (cx_creset cx); cbn [snd] in H; rewrite result_of_single in H; errs; discriminate. }
    destruct (cx_rep cx).
    { cbn [snd] in H. rewrite result_of_single in H. errs. discriminate. }
    cbn [fst snd]. split; [reflexivity|]. unfold req_busy. sv.
    eapply (busy_lookup_recv _ (ckey c)); [apply lookup_assoc_set_same|reflexivity].
  Qed.

  (* the receive descriptor is exact: raised <-> a receive on the socket would hand over a reply *)
  Lemma req_mirror_r_exact s : pm_inv M s -> mirror_r_exact_at M s.
  Proof.
    intros HI a Hok. unM M_req. unfold rv_recv. unM M_req. cbn [req_poll poll_r]. rewrite req_step_recv. cbn [ckey].
    destruct HI as ((_ & (c0 & H0 & Hr) & HC & _) & _). rewrite H0, Hr, req_ctx_recv_eq. unfold recv_guard.
    specialize (HC 0%N c0 H0).
    destruct (cx_recv c0) as [ra|]; cbn [is_some orb].
    - rewrite HC by discriminate. cbn [is_some].
      destruct (cx_creset c0); cbn [snd]; rewrite result_of_single; errs; split; discriminate.
    - destruct (cx_rep c0) as [mr|]; cbn [is_some negb andb].
      + rewrite andb_false_r. cbn [snd]. rewrite result_of_single. split; reflexivity.
      + destruct (cx_req c0); cbn [is_some negb andb snd].
        * rewrite result_of_single. errs. split; discriminate.
        * destruct (cx_creset c0); cbn [snd]; rewrite result_of_single; errs; split; discriminate.
  Qed.
End ClausesR.

(* ================================================================== the statements over all reachable states *)
Section Lifted.
  Variable fx : rfix.
  Hypothesis Hfx : fx_rdclr fx = true.
  Notation M := (M_req fx).

  Theorem req_c15_nb_immediate : C15_nb_immediate M.
  Proof. exact (lift_at2 M (req_inv_init fx) (req_inv_step fx Hfx) _ _ (req_nb_send_immediate fx) (req_nb_recv_immediate fx)). Qed.
  Theorem req_c15_nb_possible : C15_nb_possible M.
  Proof. exact (lift_at2 M (req_inv_init fx) (req_inv_step fx Hfx) _ _ (req_nb_send_possible fx) (req_nb_recv_possible fx)). Qed.
  (* NNG_EAGAIN only where the blocking form is queued: NNG_ESTATE, NNG_ECLOSED, NNG_ENOMEM are answered by both forms *)
  Theorem req_c15_nb_strict : C15_nb_strict M.
  Proof. exact (lift_at2 M (req_inv_init fx) (req_inv_step fx Hfx) _ _ (req_nb_send_strict fx) (req_nb_recv_strict fx)). Qed.
  Theorem req_c15_mirror : C15_mirror M.
  Proof.
    exact (lift_at2 M (req_inv_init fx) (req_inv_step fx Hfx) (mirror_r_at M) (mirror_w_at M)
             (fun s HI => mirror_r_exact_weaken M s (req_mirror_r_exact fx s HI)) (req_mirror_w fx)).
  Qed.
  (* C15_mirror_exact, all of it except one case: the receive half is exact; the send half is exact for every
     send that is not answered NNG_ENOMEM.  What is missing: M_req's contract has no bound on the number of
     contexts, so a state with 2^31 live request ids (as many contexts, each with a request outstanding) is
     reachable in principle; there the send descriptor is raised (a pipe is ready) and a send answers NNG_ENOMEM.
     Hence the explicit hypothesis here.  With the bound in the contract (fewer than 2^31 - 1 contexts, pack
     M_req_b at the end of this file) the hypothesis is discharged: reqb_c15_mirror_exact is C15_mirror_exact. *)
  Theorem req_c15_mirror_exact_partial :
    forall s, reachable M s ->
      mirror_r_exact_at M s /\
      (forall a m, pm_ok M s (PSend None a true m) -> rv_send M s a m <> Some E_NOMEM ->
         match poll_w (pm_poll M s) with
         | None => rv_send M s a m = Some E_NOTSUP
         | Some b => b = true <-> rv_send M s a m = Some E_OK
         end).
  Proof.
    intros s R. pose proof (req_c15_inv fx Hfx s R) as HI. split.
    - now apply req_mirror_r_exact.
    - intros a m Hok Hn. exact (req_mirror_w_exact_but_nomem fx s HI a m Hok Hn).
  Qed.
End Lifted.

(* the form written in DESIGN 5/C15 is false of REQ, as of every protocol with a state machine: a receive
   before any request answers NNG_ESTATE -- neither NNG_EAGAIN nor advertised by the descriptor *)
Theorem req_c15_mirror_iff_refuted fx : ~ C15_mirror_iff (M_req fx).
Proof.
  intros H. destruct (H req_init (reachable_init (M_req fx))) as [Hr _].
  specialize (Hr 0%N). unM M_req. unfold rv_recv in Hr. unM M_req. cbn [req_poll poll_r req_init rq_readable] in Hr.
  assert (Hok : ~ In 0%N (req_busy req_init)) by (vm_compute; tauto).
  destruct (Hr Hok) as [_ Hr2].
  assert (X : false = true); [|discriminate]. apply Hr2. vm_compute. discriminate.
Qed.

(* without the repair fx_rdclr (req0_ctx_reset leaves the receive descriptor raised when it throws the socket's
   stashed reply away) the property itself fails: descriptor raised, receive answers NNG_EAGAIN *)
Definition w15_rdclr : list pop :=
  [PPipeStart 1%N PROTO_REP; PSend None 0%N false w_req; PSendDone 1%N 0%N; PRecvDone 1%N 0%N w_reply;
   PSend None 1%N false w_req].
Ltac ok_tac :=
  cbn [pops_ok];
  repeat (split; [vm_compute; intuition (try discriminate; try congruence)|split; [discriminate|]]);
  try exact I.
Theorem req_c15_mirror_refuted_without_rdclr fx : fx_rdclr fx = false -> ~ C15_mirror (M_req fx).
Proof.
  intros Hf H. destruct fx as [f1 f2 f3 f4]. cbn in Hf. subst f4.
  assert (R : reachable (M_req (mkFix f1 f2 f3 false)) (prun (M_req (mkFix f1 f2 f3 false)) req_init w15_rdclr)).
  { exists w15_rdclr. split; [|reflexivity]. unfold w15_rdclr. destruct f1, f2, f3; ok_tac. }
  destruct (H _ R) as [Hr _]. specialize (Hr 9%N).
  destruct f1, f2, f3; vm_compute in Hr; (destruct Hr as [_ Hr]; [tauto|]); now apply Hr.
Qed.

(* ================================================================== non-vacuity *)
Example req_reachable_w_raised fx : exists s, reachable (M_req fx) s /\ poll_w (pm_poll (M_req fx) s) = Some true.
Proof.
  exists (prun (M_req fx) req_init [PPipeStart 1%N PROTO_REP]). split; [|reflexivity].
  exists [PPipeStart 1%N PROTO_REP]. split; [|reflexivity]. ok_tac.
Qed.
Definition w15_reply : list pop :=
  [PPipeStart 1%N PROTO_REP; PSend None 0%N false w_req; PSendDone 1%N 0%N; PRecvDone 1%N 0%N w_reply].
Example req_reachable_r_raised fx : exists s, reachable (M_req fx) s /\ poll_r (pm_poll (M_req fx) s) = Some true.
Proof.
  exists (prun (M_req fx) req_init w15_reply). split.
  - exists w15_reply. split; [|reflexivity]. unfold w15_reply. destruct fx as [[] [] [] []]; ok_tac.
  - destruct fx as [[] [] [] []]; vm_compute; reflexivity.
Qed.
Example req_reachable_lowered fx :
  reachable (M_req fx) req_init /\ poll_r (pm_poll (M_req fx) req_init) = Some false /\ poll_w (pm_poll (M_req fx) req_init) = Some false.
Proof. split; [apply (reachable_init (M_req fx))|split; reflexivity]. Qed.

(* ================================================================== the request-id map, for the exact send mirror
   Under a bound on the number of contexts (an honest resource contract: fewer than 2^31 - 1 contexts) a send is
   never refused with NNG_ENOMEM, and then the send descriptor is exact too.  The bound lives in a second pack,
   M_req_b; nothing above depends on it. *)
Definition JV (ids : list (N * N)) (cur : N) (cs : list (N * rctx)) : Prop :=
  NoDup (map fst ids) /\
  (forall id k, In (id, k) ids -> cursor_ok id /\ exists c, lookup k cs = Some c /\ cx_rid c = id) /\
  cursor_ok cur.
(* context keys: unique, and fewer than 2^31 of them *)
Definition KeysOK (l : list N) : Prop := NoDup l /\ (N.of_nat (length l) <= REQ_ID_MAX - REQ_ID_MIN)%N.
Definition JInv (s : req) : Prop := JV (rq_ids s) (rq_cursor s) (rq_ctxs s) /\ KeysOK (map fst (rq_ctxs s)).
Lemma filter_len {A} (f : A -> bool) l : length (filter f l) <= length l.
Proof. induction l as [|x l IH]; cbn; [lia|]. destruct (f x); cbn; lia. Qed.
Lemma keysok_assoc_del {A} k (l : list (N * A)) : KeysOK (map fst l) -> KeysOK (map fst (assoc_del k l)).
Proof.
  intros [H1 H2]. split; [now apply nodup_assoc_del|]. rewrite map_length in *.
  pose proof (filter_len (fun x : N * A => negb (N.eqb (fst x) k)) l). unfold assoc_del. lia.
Qed.

Lemma in_assoc_del {A} k (l : list (N * A)) x : In x (assoc_del k l) <-> In x l /\ fst x <> k.
Proof.
  unfold assoc_del. rewrite filter_In. split; intros [H1 H2]; split; auto.
  - apply negb_true_iff, N.eqb_neq in H2. exact H2.
  - apply negb_true_iff, N.eqb_neq. exact H2.
Qed.
Lemma JV_put_same ids cur cs k c c' :
  JV ids cur cs -> lookup k cs = Some c -> cx_rid c' = cx_rid c -> JV ids cur (assoc_set k c' cs).
Proof.
  intros (H1 & H2 & H3) Hk Hr. split; [exact H1|]. split; [|exact H3].
  intros id k2 Hin. destruct (H2 id k2 Hin) as (Hc & c2 & A & B). split; [exact Hc|].
  destruct (N.eq_dec k2 k) as [->|Hne].
  - exists c'. split; [apply lookup_assoc_set_same|]. rewrite Hk in A. inversion A; subst. congruence.
  - exists c2. split; [now rewrite lookup_assoc_set_other|exact B].
Qed.
Lemma JV_put_free ids cur cs k c' :
  JV ids cur cs -> (forall id, ~ In (id, k) ids) -> JV ids cur (assoc_set k c' cs).
Proof.
  intros (H1 & H2 & H3) Hf. split; [exact H1|]. split; [|exact H3].
  intros id k2 Hin. destruct (H2 id k2 Hin) as (Hc & c2 & A & B). split; [exact Hc|].
  destruct (N.eq_dec k2 k) as [->|Hne]; [now apply Hf in Hin|].
  exists c2. split; [now rewrite lookup_assoc_set_other|exact B].
Qed.
Lemma JV_del ids cur cs id : JV ids cur cs -> JV (assoc_del id ids) cur cs.
Proof.
  intros (H1 & H2 & H3). split; [now apply nodup_assoc_del|]. split; [|exact H3].
  intros id2 k2 Hin. apply in_assoc_del in Hin as [Hin _]. now apply H2.
Qed.
Lemma JV_cur ids cur cur' cs : JV ids cur cs -> cursor_ok cur' -> JV ids cur' cs.
Proof. intros (H1 & H2 & H3) H. split; [exact H1|]. split; [exact H2|exact H]. Qed.
(* after the entry of a context's own id is deleted nothing points to the context any more *)
Lemma JV_del_free ids cur cs k c :
  JV ids cur cs -> lookup k cs = Some c ->
  forall id, ~ In (id, k) (if N.eqb (cx_rid c) 0 then ids else assoc_del (cx_rid c) ids).
Proof.
  intros (H1 & H2 & H3) Hk id Hin.
  assert (Hin0 : In (id, k) ids) by (destruct (N.eqb (cx_rid c) 0); [exact Hin|now apply in_assoc_del in Hin]).
  destruct (H2 id k Hin0) as (Hc & c2 & A & B). rewrite Hk in A. inversion A; subst c2.
  destruct (N.eqb_spec (cx_rid c) 0) as [E|E].
  - rewrite E in B. subst id. unfold cursor_ok, REQ_ID_MIN in Hc. lia.
  - apply in_assoc_del in Hin as [_ Hne]. cbn [fst] in Hne. congruence.
Qed.
Lemma JV_add ids cur cs id k c3 cur' :
  JV ids cur cs -> lookup id ids = None -> cursor_ok id -> cursor_ok cur' -> (forall i, ~ In (i, k) ids) ->
  cx_rid c3 = id -> JV (ids ++ [(id, k)]) cur' (assoc_set k c3 cs).
Proof.
  intros (H1 & H2 & H3) Hl Hid Hcur Hf Hr. split; [|split; [|exact Hcur]].
  - rewrite map_app. cbn [map fst]. apply nodup_snoc; [exact H1|]. now apply lookup_none_notin.
  - intros i k2 Hin. apply in_app_or in Hin as [Hin|[E|[]]].
    + destruct (H2 i k2 Hin) as (Hc & c2 & A & B). split; [exact Hc|].
      destruct (N.eq_dec k2 k) as [->|Hne]; [now apply Hf in Hin|].
      exists c2. split; [now rewrite lookup_assoc_set_other|exact B].
    + inversion E; subst. split; [exact Hid|]. exists c3. split; [apply lookup_assoc_set_same|reflexivity].
Qed.

Lemma ctx_reset_ids fx s k c s2 c2 o :
  ctx_reset fx s k c = (s2, c2, o) ->
  rq_ids s2 = (if N.eqb (cx_rid c) 0 then rq_ids s else assoc_del (cx_rid c) (rq_ids s)) /\ rq_cursor s2 = rq_cursor s.
Proof.
  unfold ctx_reset. intros H. inversion H; subst; clear H.
  destruct (fx_rdclr fx && N.eqb k 0 && _); destruct (N.eqb (cx_rid c) 0); sv; split; reflexivity.
Qed.

(* reset a context, then store anything in its place: nothing points to it any more *)
Lemma J_reset_put fx s k c0 cin s1 s2 c2 o c3 s' :
  JInv s -> lookup k (rq_ctxs s) = Some c0 -> cx_rid cin = cx_rid c0 ->
  rq_ids s1 = rq_ids s -> rq_cursor s1 = rq_cursor s -> rq_ctxs s1 = rq_ctxs s ->
  ctx_reset fx s1 k cin = (s2, c2, o) ->
  rq_ids s' = rq_ids s2 -> rq_cursor s' = rq_cursor s2 -> rq_ctxs s' = assoc_set k c3 (rq_ctxs s2) ->
  JInv s' /\ (forall i, ~ In (i, k) (rq_ids s')).
Proof.
  intros (HJ & HN) Hk Hr E1 E2 E3 ER F1 F2 F3.
  pose proof (ctx_reset_ids _ _ _ _ _ _ _ ER) as (G1 & G2).
  apply ctx_reset_fields in ER as (G3 & _).
  assert (Hfree : forall i, ~ In (i, k) (rq_ids s')).
  { intros i. rewrite F1, G1, E1, Hr. eapply JV_del_free; eauto. }
  split; [|exact Hfree]. split.
  - rewrite F3, G3, E3, F2, G2, E2. apply JV_put_free; [|exact Hfree]. rewrite F1, G1, E1.
    destruct (N.eqb (cx_rid cin) 0); [exact HJ|now apply JV_del].
  - rewrite F3, G3, E3. now rewrite (map_fst_assoc_set _ _ _ _ Hk).
Qed.

Lemma J_view s s' : JInv s -> rq_ids s' = rq_ids s -> rq_cursor s' = rq_cursor s -> rq_ctxs s' = rq_ctxs s -> JInv s'.
Proof. unfold JInv. now intros H -> -> ->. Qed.
Lemma J_put_same s k c c' s' :
  JInv s -> lookup k (rq_ctxs s) = Some c -> cx_rid c' = cx_rid c ->
  rq_ids s' = rq_ids s -> rq_cursor s' = rq_cursor s -> rq_ctxs s' = assoc_set k c' (rq_ctxs s) -> JInv s'.
Proof.
  intros (HJ & HN) Hk Hr E1 E2 E3. split.
  - rewrite E1, E2, E3. eapply JV_put_same; eauto.
  - rewrite E3. now rewrite (map_fst_assoc_set _ _ _ _ Hk).
Qed.

Lemma run_sendq_J fx : forall f s, JInv s -> JInv (fst (fst (run_sendq fx f s))).
Proof.
  induction f as [|f IH]; intros s HJ; cbn [run_sendq]; [exact HJ|].
  destruct (rq_sendq s) as [|k sq]; [exact HJ|]. destruct (rq_ready s) as [|p rd]; [exact HJ|].
  assert (Hskip : JInv (fst (fst (run_sendq fx f (set_sendq s sq))))) by (apply IH; eapply J_view; [exact HJ|reflexivity..]).
  unfold ctx_get at 1. destruct (lookup k (rq_ctxs s)) as [c|] eqn:Hk; [|exact Hskip].
  destruct (cx_req c) as [m|]; [|exact Hskip]. clear Hskip.
  match goal with |- context [run_sendq fx f ?X] => set (s6 := X) end.
  assert (H6 : JInv s6).
  { subst s6. destruct (retry_on fx c); destruct (is_nil rd);
      (eapply (J_put_same s k c (mkRctx _ _ _ _ _ _ _ _ _ _)); [exact HJ|exact Hk|reflexivity..]). }
  specialize (IH s6 H6). destruct (run_sendq fx f s6) as [[s7 o7] cl7]. exact IH.
Qed.
Lemma run_send_queue_J fx s : JInv s -> JInv (fst (fst (run_send_queue fx s))).
Proof. apply run_sendq_J. Qed.

Ltac jrp fx s k c C3 HJ Hk :=
  match goal with ER : ctx_reset fx ?S1 k ?CIN = (?s2, ?c2, ?o2) |- _ =>
    eapply (J_reset_put fx s k c CIN S1 s2 c2 o2 C3); [exact HJ|exact Hk|reflexivity|reflexivity|reflexivity|reflexivity|exact ER|reflexivity..]
  end.

Lemma J_send fx s c a nb m : JInv s -> JInv (fst (fst (req_stepL fx s (PSend c a nb m)))).
Proof.
  intros HJ. cbn [req_stepL]. unfold ctx_get. destruct (lookup (ckey c) (rq_ctxs s)) as [cx|] eqn:Hk; [|exact HJ].
  rewrite req_ctx_send_eq. destruct (rq_closed s); [exact HJ|].
  unfold snd_pre. destruct (cx_send cx) as [sa|].
  - match goal with |- context [ctx_reset fx ?S ?K ?C] => destruct (ctx_reset fx S K C) as [[s2 c2] o3] eqn:ER end.
    assert (Hany : forall c3 s', rq_ids s' = rq_ids s2 -> rq_cursor s' = rq_cursor s2 -> rq_ctxs s' = assoc_set (ckey c) c3 (rq_ctxs s2) ->
                     JInv s' /\ (forall i, ~ In (i, ckey c) (rq_ids s'))).
    { intros c3 s' F1 F2 F3. eapply (J_reset_put fx s (ckey c) cx _ _ s2 c2 o3 c3); [exact HJ|exact Hk| | | | |exact ER|exact F1|exact F2|exact F3]; reflexivity. }
    destruct (snd_full s2); [cbn [fst]; apply (Hany c2); reflexivity|].
    destruct (id_alloc (S (length (rq_ids s2))) (rq_ids s2) (rq_cursor s2)) as [[id cur']|] eqn:EA; [|cbn [fst]; apply (Hany c2); reflexivity].
    destruct (Hany c2 (ctx_put s2 (ckey c) c2) eq_refl eq_refl eq_refl) as [((J1 & J2 & J3) & JN) Hfree]. svin J1. svin J2. svin J3. svin JN. svin Hfree.
    destruct (id_alloc_fresh _ _ _ _ _ EA J3) as (Hl & Hid & Hcur).
    destruct (is_nil (rq_ready s2) && nb).
    { cbn [fst]. split; sv.
      - apply (JV_cur _ (rq_cursor s2)); [|exact Hcur]. rewrite <- (assoc_set_twice _ _ c2). apply JV_put_free; [|exact Hfree]. split; [exact J1|split; assumption].
      - rewrite <- (assoc_set_twice _ _ c2). erewrite map_fst_assoc_set; [exact JN|apply lookup_assoc_set_same]. }
    destruct (snd_enq s2 (ckey c) c2 a id cur' (req_send id m)) as [s6 o4] eqn:E6.
    assert (H6 : JInv s6).
    { unfold snd_enq in E6. cbv zeta in E6.
      assert (X : JV (rq_ids s2 ++ [(id, ckey c)]) cur' (assoc_set (ckey c) (snd_c3 s2 c2 a id (req_send id m)) (rq_ctxs s2)) /\
                  KeysOK (map fst (assoc_set (ckey c) (snd_c3 s2 c2 a id (req_send id m)) (rq_ctxs s2)))).
      { split.
        - rewrite <- (assoc_set_twice _ _ c2). apply (JV_add _ (rq_cursor s2)); auto. split; [exact J1|split; assumption].
        - rewrite <- (assoc_set_twice _ _ c2). erewrite map_fst_assoc_set; [exact JN|apply lookup_assoc_set_same]. }
      destruct (0 <? cx_retry c2)%Z; cbn [andb] in E6;
        try (match type of E6 with context [negb ?B] => destruct B end; cbn [negb] in E6);
        inversion E6; subst; unfold JInv; sv; exact X. }
    pose proof (run_send_queue_J fx s6 H6) as H7. destruct (run_send_queue fx s6) as [[s7 o5] cl]. exact H7.
  - match goal with |- context [ctx_reset fx ?S ?K ?C] => destruct (ctx_reset fx S K C) as [[s2 c2] o3] eqn:ER end.
    assert (Hany : forall c3 s', rq_ids s' = rq_ids s2 -> rq_cursor s' = rq_cursor s2 -> rq_ctxs s' = assoc_set (ckey c) c3 (rq_ctxs s2) ->
                     JInv s' /\ (forall i, ~ In (i, ckey c) (rq_ids s'))).
    { intros c3 s' F1 F2 F3. eapply (J_reset_put fx s (ckey c) cx _ _ s2 c2 o3 c3); [exact HJ|exact Hk| | | | |exact ER|exact F1|exact F2|exact F3]; reflexivity. }
    destruct (snd_full s2); [cbn [fst]; apply (Hany c2); reflexivity|].
    destruct (id_alloc (S (length (rq_ids s2))) (rq_ids s2) (rq_cursor s2)) as [[id cur']|] eqn:EA; [|cbn [fst]; apply (Hany c2); reflexivity].
    destruct (Hany c2 (ctx_put s2 (ckey c) c2) eq_refl eq_refl eq_refl) as [((J1 & J2 & J3) & JN) Hfree]. svin J1. svin J2. svin J3. svin JN. svin Hfree.
    destruct (id_alloc_fresh _ _ _ _ _ EA J3) as (Hl & Hid & Hcur).
    destruct (is_nil (rq_ready s2) && nb).
    { cbn [fst]. split; sv.
      - apply (JV_cur _ (rq_cursor s2)); [|exact Hcur]. rewrite <- (assoc_set_twice _ _ c2). apply JV_put_free; [|exact Hfree]. split; [exact J1|split; assumption].
      - rewrite <- (assoc_set_twice _ _ c2). erewrite map_fst_assoc_set; [exact JN|apply lookup_assoc_set_same]. }
    destruct (snd_enq s2 (ckey c) c2 a id cur' (req_send id m)) as [s6 o4] eqn:E6.
    assert (H6 : JInv s6).
    { unfold snd_enq in E6. cbv zeta in E6.
      assert (X : JV (rq_ids s2 ++ [(id, ckey c)]) cur' (assoc_set (ckey c) (snd_c3 s2 c2 a id (req_send id m)) (rq_ctxs s2)) /\
                  KeysOK (map fst (assoc_set (ckey c) (snd_c3 s2 c2 a id (req_send id m)) (rq_ctxs s2)))).
      { split.
        - rewrite <- (assoc_set_twice _ _ c2). apply (JV_add _ (rq_cursor s2)); auto. split; [exact J1|split; assumption].
        - rewrite <- (assoc_set_twice _ _ c2). erewrite map_fst_assoc_set; [exact JN|apply lookup_assoc_set_same]. }
      destruct (0 <? cx_retry c2)%Z; cbn [andb] in E6;
        try (match type of E6 with context [negb ?B] => destruct B end; cbn [negb] in E6);
        inversion E6; subst; unfold JInv; sv; exact X. }
    pose proof (run_send_queue_J fx s6 H6) as H7. destruct (run_send_queue fx s6) as [[s7 o5] cl]. exact H7.
Qed.

Lemma J_recv fx s c a nb : JInv s -> JInv (fst (fst (req_stepL fx s (PRecv c a nb)))).
Proof.
  intros HJ. cbn [req_stepL]. unfold ctx_get. destruct (lookup (ckey c) (rq_ctxs s)) as [cx|] eqn:Hk; [|exact HJ].
  rewrite req_ctx_recv_eq. destruct (recv_guard cx).
  - destruct (cx_creset cx); [|exact HJ]. cbn [fst].
    eapply (J_put_same s (ckey c) cx (mkRctx _ _ _ _ _ _ _ _ _ _)); [exact HJ|exact Hk|reflexivity..].
  - destruct (cx_rep cx).
    + cbn [fst]. destruct (N.eqb (ckey c) 0);
        (eapply (J_put_same s (ckey c) cx (mkRctx _ _ _ _ _ _ _ _ _ _)); [exact HJ|exact Hk|reflexivity..]).
    + destruct nb; [exact HJ|]. cbn [fst].
      eapply (J_put_same s (ckey c) cx (mkRctx _ _ _ _ _ _ _ _ _ _)); [exact HJ|exact Hk|reflexivity..].
Qed.
Lemma J_ctxopen s k : JInv s -> lookup (k + 1)%N (rq_ctxs s) = None ->
  (N.of_nat (length (rq_ctxs s)) < REQ_ID_MAX - REQ_ID_MIN)%N ->
  JInv (set_ctxs s (rq_ctxs s ++ [((k + 1)%N, ctx_init (rq_retry s))])).
Proof.
  intros ((H1 & H2 & H3) & HN & HL) Hk Hb. unfold JInv, JV. sv. split; [split; [exact H1|split; [|exact H3]]|].
  - intros id k2 Hin. destruct (H2 id k2 Hin) as (Hc & c2 & A & B). split; [exact Hc|]. exists c2. split; [now apply lookup_app_some|exact B].
  - split; [rewrite map_app; cbn [map fst]; apply nodup_snoc; [exact HN|]; now apply lookup_none_notin|].
    rewrite map_length, app_length. cbn [length]. lia.
Qed.
Lemma J_ctxclose fx s k : JInv s -> JInv (fst (fst (req_stepL fx s (PCtxClose k)))).
Proof.
  intros HJ. cbn [req_stepL]. unfold ctx_get. destruct (lookup (k + 1)%N (rq_ctxs s)) as [c|] eqn:Hk; [|exact HJ].
  unfold req_ctx_fini.
  destruct (cx_send c);
    match goal with |- context [ctx_reset fx s ?K ?C] => destruct (ctx_reset fx s K C) as [[s2 c2] o3] eqn:ER end;
    cbn [fst];
    (match goal with ER : ctx_reset fx s ?K ?CIN = _ |- _ =>
       destruct (J_reset_put fx s K c CIN s s2 c2 o3 c2 (ctx_put s2 K c2) HJ Hk eq_refl eq_refl eq_refl eq_refl ER eq_refl eq_refl eq_refl)
         as [((J1 & J2 & J3) & JN) Hfree] end);
    svin J1; svin J2; svin J3; svin JN; svin Hfree;
    (split; sv; [split; [exact J1|split; [|exact J3]]|]).
  all: try (intros id k2 Hin; destruct (J2 id k2 Hin) as (Hc & c3 & A & B); split; [exact Hc|];
            destruct (N.eq_dec k2 (k + 1)) as [->|Hne]; [now apply Hfree in Hin|];
            exists c3; split; [|exact B]; rewrite lookup_assoc_del_other by exact Hne;
            now rewrite lookup_assoc_set_other in A by exact Hne).
  all: apply keysok_assoc_del; apply ctx_reset_fields in ER as (G & _); rewrite G; apply HJ.
Qed.
Lemma J_cancel fx s a rv : JInv s -> JInv (fst (fst (req_stepL fx s (PCancel a rv)))).
Proof.
  intros HJ. cbn [req_stepL]. assert (HN : NoDup (map fst (rq_ctxs s))) by (destruct HJ as (_ & HN' & _); exact HN').
  destruct (find_ctx (fun c => opt_is a (cx_recv c)) (rq_ctxs s)) as [[k c]|] eqn:F1.
  - apply find_ctx_in in F1 as [Hin _]. pose proof (nodup_lookup _ _ _ HN Hin) as Hk.
    unfold req_cancel_recv. destruct (cx_send c) as [sa|];
      match goal with |- context [ctx_reset fx ?S k ?C] => destruct (ctx_reset fx S k C) as [[s2 c2] o2] eqn:ER end;
      cbn [fst]; apply (proj1 (A := JInv (ctx_put s2 k c2)) (B := forall i, ~ In (i, k) (rq_ids (ctx_put s2 k c2)))); jrp fx s k c c2 HJ Hk.
  - destruct (find_ctx (fun c => opt_is a (cx_send c)) (rq_ctxs s)) as [[k c]|] eqn:F2; [|exact HJ].
    apply find_ctx_in in F2 as [Hin _]. pose proof (nodup_lookup _ _ _ HN Hin) as Hk.
    unfold req_cancel_send. destruct (fx_cancel fx);
      match goal with |- context [ctx_reset fx ?S k ?C] => destruct (ctx_reset fx S k C) as [[s2 c2] o2] eqn:ER end;
      cbn [fst]; apply (proj1 (A := JInv (ctx_put s2 k c2)) (B := forall i, ~ In (i, k) (rq_ids (ctx_put s2 k c2)))); jrp fx s k c c2 HJ Hk.
Qed.
Lemma J_setopt fx s c o : JInv s -> JInv (fst (fst (req_stepL fx s (PSetOpt c o)))).
Proof.
  intros HJ. destruct o as [n|n|n|ms|ms|ms|b|t|t]; destruct c as [k|]; cbn [req_stepL]; try exact HJ.
  - destruct (8192 <? N.of_nat n)%N; exact HJ.
  - destruct (8192 <? N.of_nat n)%N; exact HJ.
  - destruct (_ || _); [exact HJ|]. cbn [fst]. eapply J_view; [exact HJ|reflexivity..].
  - destruct (ms <? -1)%Z; [exact HJ|]. unfold ctx_get.
    destruct (lookup (ckey (Some k)) (rq_ctxs s)) as [cx|] eqn:Hk; [|exact HJ]. cbn [fst].
    eapply (J_put_same s (ckey (Some k)) cx (mkRctx _ _ _ _ _ _ _ _ _ _)); [exact HJ|exact Hk|reflexivity..].
  - destruct (ms <? -1)%Z; [exact HJ|]. unfold ctx_get.
    destruct (lookup (ckey None) (rq_ctxs s)) as [cx|] eqn:Hk; [|exact HJ]. cbn [fst].
    eapply (J_put_same s (ckey None) cx (mkRctx _ _ _ _ _ _ _ _ _ _)); [exact HJ|exact Hk|reflexivity..].
  - destruct (ms <? -1)%Z; [exact HJ|]. cbn [fst]. eapply J_view; [exact HJ|reflexivity..].
Qed.
Lemma J_pipestart fx s p peer : JInv s -> JInv (fst (fst (req_stepL fx s (PPipeStart p peer)))).
Proof.
  intros HJ. cbn [req_stepL]. destruct (negb (N.eqb peer PROTO_REP)); [exact HJ|].
  match goal with |- context [run_send_queue fx ?X] => set (s1 := X) end.
  assert (H1 : JInv s1) by (eapply J_view; [exact HJ|reflexivity..]).
  pose proof (run_send_queue_J fx s1 H1) as H2. destruct (run_send_queue fx s1) as [[s2 o2] cl]. exact H2.
Qed.
Lemma J_senddone fx s p rv : JInv s -> JInv (fst (fst (req_stepL fx s (PSendDone p rv)))).
Proof.
  intros HJ. cbn [req_stepL]. destruct (negb (N.eqb rv 0)).
  { cbn [fst]. eapply J_view; [exact HJ|reflexivity..]. }
  destruct (_ || _).
  { cbn [fst]. eapply J_view; [exact HJ|reflexivity..]. }
  match goal with |- context [run_send_queue fx ?X] => set (s2 := X) end.
  assert (H2 : JInv s2) by (subst s2; destruct (is_nil _); (eapply J_view; [exact HJ|reflexivity..])).
  pose proof (run_send_queue_J fx s2 H2) as H3. destruct (run_send_queue fx s2) as [[s3 o3] cl]. exact H3.
Qed.

Lemma J_recvdone fx s p rv m : JInv s -> JInv (fst (fst (req_stepL fx s (PRecvDone p rv m)))).
Proof.
  intros HJ. destruct (N.eqb_spec rv 0) as [->|Hne].
  2:{ cbn [req_stepL]. apply N.eqb_neq in Hne. rewrite Hne. exact HJ. }
  rewrite recvdone_cases. destruct (req_recv (pm_body m)) as [[id m']|]; [|exact HJ].
  destruct (matchable_b s id) eqn:EM; [|exact HJ].
  apply matchable_b_true in EM as (k & c & H1 & H2 & H3 & H4). rewrite H1, H2. cbv zeta. unfold ctx_get in H2.
  destruct HJ as (HJ & HN).
  assert (Hfree : forall i, ~ In (i, k) (assoc_del id (rq_ids s))).
  { destruct HJ as (J1 & J2 & J3). apply lookup_in in H1. destruct (J2 id k H1) as (Hc & c2 & A & B).
    rewrite H2 in A. inversion A; subst c2. intros i Hin.
    pose proof (JV_del_free (rq_ids s) (rq_cursor s) (rq_ctxs s) k c (conj J1 (conj J2 J3)) H2 i) as X.
    rewrite B in X. replace (N.eqb id 0) with false in X; [now apply X|].
    symmetry. apply N.eqb_neq. unfold cursor_ok, REQ_ID_MIN in Hc. lia. }
  assert (X : forall c', JV (assoc_del id (rq_ids s)) (rq_cursor s) (assoc_set k c' (rq_ctxs s)) /\
                         KeysOK (map fst (assoc_set k c' (rq_ctxs s)))).
  { intros c'. split; [apply JV_put_free; [now apply JV_del|exact Hfree]|]. now rewrite (map_fst_assoc_set _ _ _ _ H2). }
  destruct (fx_stash fx); destruct (cx_recv c) as [ra|]; destruct (N.eqb k 0); cbn [fst]; unfold JInv; sv; apply X.
Qed.
Lemma J_tick fx s now : JInv s -> JInv (fst (fst (req_stepL fx s (PTick now)))).
Proof.
  intros HJ. cbn [req_stepL].
  assert (H0 : JInv (set_now s now)) by (eapply J_view; [exact HJ|reflexivity..]).
  destruct (_ || _); [exact H0|]. destruct (rq_tickdl (set_now s now)) as [d|]; [|exact H0].
  destruct (negb (d <? now)%N); [exact H0|].
  destruct (retry_scan (set_now s now) now (rq_retryq (set_now s now)) (rq_sendq (set_now s now))) as [sq resched].
  destruct resched.
  - destruct (is_nil _);
      match goal with |- context [run_send_queue fx ?X] => set (s2 := X) end;
      (assert (H2 : JInv s2) by (eapply J_view; [exact HJ|reflexivity..]));
      pose proof (run_send_queue_J fx s2 H2) as H3; destruct (run_send_queue fx s2) as [[s3 o3] cl]; exact H3.
  - destruct (is_nil _); cbn [fst]; (eapply J_view; [exact HJ|reflexivity..]).
Qed.

Ltac pcl_finJ IH :=
  cbv beta iota;
  lazymatch goal with |- context [pipe_close_loop ?fx ?f ?S1 ?p] =>
    let H := fresh "HS1" in
    assert (H : JInv S1); [|specialize (IH S1 H); destruct (pipe_close_loop fx f S1 p) as [[? ?] ?]; exact IH]
  end.
Lemma pcl_J fx p : forall f s, JInv s -> JInv (fst (fst (pipe_close_loop fx f s p))).
Proof.
  induction f as [|f IH]; intros s HJ; cbn [pipe_close_loop]; [exact HJ|].
  destruct (first_on p (rq_plist s)) as [k|]; [|exact HJ].
  set (s0 := set_plist s (plist_del k (rq_plist s))).
  assert (H0 : JInv s0) by (eapply J_view; [exact HJ|reflexivity..]).
  unfold ctx_get at 1. destruct (lookup k (rq_ctxs s0)) as [c|] eqn:Hk; [|now apply IH].
  destruct (negb (retry_on fx c)).
  - destruct (cx_recv c) as [ra|] eqn:Era.
    + match goal with |- context [ctx_reset fx ?S k ?C] => destruct (ctx_reset fx S k C) as [[s' c'] o'] eqn:ER end.
      pcl_finJ IH.
      apply (proj1 (A := JInv (ctx_put s' k c')) (B := forall i, ~ In (i, k) (rq_ids (ctx_put s' k c')))). jrp fx s0 k c c' H0 Hk.
    + match goal with |- context [ctx_reset fx ?S k ?C] => destruct (ctx_reset fx S k C) as [[s' c'] o'] eqn:ER end.
      pcl_finJ IH.
      match goal with |- JInv (ctx_put s' k ?C3) =>
        apply (proj1 (A := JInv (ctx_put s' k C3)) (B := forall i, ~ In (i, k) (rq_ids (ctx_put s' k C3)))); jrp fx s0 k c C3 H0 Hk end.
  - destruct (cx_req c) as [mq|] eqn:Eq.
    2:{ pcl_finJ IH. exact H0. }
    set (c1 := mkRctx (cx_rid c) (cx_recv c) (cx_send c) (Some mq) (cx_rep c) (cx_retry c) (cx_sretry c)
                      (after (rq_now s0) (eff_retry fx c)) (cx_creset c) (cx_owned c)).
    assert (H1 : JInv (ctx_put s0 k c1)).
    { eapply (J_put_same s0 k c c1); [exact H0|exact Hk|reflexivity..]. }
    destruct (has_id k (rq_sendq (ctx_put s0 k c1))).
    { pcl_finJ IH. exact H1. }
    match goal with |- context [run_send_queue fx ?X] => set (s2 := X) end.
    assert (H2 : JInv s2) by (eapply J_view; [exact H1|reflexivity..]).
    pose proof (run_send_queue_J fx s2 H2) as H3. destruct (run_send_queue fx s2) as [[s3 o3] cl3].
    cbn [fst] in H3. pcl_finJ IH. exact H3.
Qed.
Lemma J_pipeclose fx s p : JInv s -> JInv (fst (fst (req_stepL fx s (PPipeClose p)))).
Proof.
  intros HJ. cbn [req_stepL]. apply pcl_J. destruct (is_nil _); (eapply J_view; [exact HJ|reflexivity..]).
Qed.

Lemma J_init : JInv req_init.
Proof.
  unfold JInv, JV, KeysOK. cbn. split; [split; [constructor|split; [intros id k []|]]|split; [constructor; [intros []|constructor]|]].
  - unfold cursor_ok, REQ_ID_MIN, REQ_ID_MAX. lia.
  - unfold REQ_ID_MIN, REQ_ID_MAX. lia.
Qed.
Definition req_ok_b (s : req) (o : pop) : Prop :=
  req_ok s o /\ match o with PCtxOpen _ => (N.of_nat (length (rq_ctxs s)) < REQ_ID_MAX - REQ_ID_MIN)%N | _ => True end.
Lemma J_step fx s o : JInv s -> req_ok_b s o -> o <> PSockClose -> JInv (fst (req_step fx s o)).
Proof.
  intros HJ [Hok Hb] Hc. rewrite stepL_fst. destruct o.
  - now apply J_send.
  - now apply J_recv.
  - now apply J_cancel.
  - now apply J_pipestart.
  - now apply J_pipeclose.
  - now apply J_senddone.
  - now apply J_recvdone.
  - now apply J_setopt.
  - cbn [req_stepL fst]. now apply J_ctxopen.
  - now apply J_ctxclose.
  - now elim Hc.
  - now apply J_tick.
Qed.

(* ---- at most one live id per context ---- *)
Lemma nodup_map_snd (l : list (N * N)) :
  NoDup (map fst l) -> (forall a b k, In (a, k) l -> In (b, k) l -> a = b) -> NoDup (map snd l).
Proof.
  induction l as [|[a k] l IH]; cbn [map fst snd]; intros H Hinj; [constructor|]. inversion H; subst. constructor.
  - intros X. apply in_map_iff in X as ([b k2] & E & Hin). cbn in E. subst k2.
    assert (b = a) by (apply (Hinj b a k); [now right|now left]). subst b.
    apply H2. apply in_map_iff. exists (a, k). auto.
  - apply IH; [exact H3|]. intros x y k2 Hx Hy. apply (Hinj x y k2); now right.
Qed.
Lemma J_len s : JInv s -> length (rq_ids s) <= length (rq_ctxs s).
Proof.
  intros ((J1 & J2 & _) & _). rewrite <- (map_length snd (rq_ids s)), <- (map_length fst (rq_ctxs s)).
  apply NoDup_incl_length.
  - apply nodup_map_snd; [exact J1|]. intros a b k Ha Hb.
    destruct (J2 a k Ha) as (_ & c1 & A1 & B1). destruct (J2 b k Hb) as (_ & c2 & A2 & B2).
    rewrite A1 in A2. inversion A2; subst. reflexivity.
  - intros k Hk. apply in_map_iff in Hk as ([a k2] & E & Hin). cbn in E. subst k2.
    destruct (J2 a k Hin) as (_ & c & A & _). apply lookup_in in A. apply in_map_iff. exists (k, c). auto.
Qed.

(* ---- nni_id_alloc finds a free id whenever fewer than 2^31 are in use ---- *)
Definition id_pos (c j : N) : N := if (c + j <=? REQ_ID_MAX)%N then (c + j)%N else (c + j - REQ_ID_MIN)%N.
Lemma id_pos_0 c : cursor_ok c -> id_pos c 0 = c.
Proof.
  unfold id_pos, cursor_ok, REQ_ID_MAX, REQ_ID_MIN. intros H. rewrite N.add_0_r.
  destruct (N.leb_spec c 4294967295); [reflexivity|lia].
Qed.
Lemma id_pos_next c j : cursor_ok c -> (j < REQ_ID_MIN)%N -> id_next (id_pos c j) = id_pos c (j + 1).
Proof.
  unfold id_pos, id_next, cursor_ok, REQ_ID_MAX, REQ_ID_MIN. intros H Hj.
  destruct (N.leb_spec (c + j) 4294967295); destruct (N.leb_spec (c + (j + 1)) 4294967295);
    match goal with |- context [(?A <? ?B)%N] => destruct (N.ltb_spec A B) end; lia.
Qed.
Lemma id_pos_inj c i j : cursor_ok c -> (i < j)%N -> (j < REQ_ID_MIN)%N -> id_pos c i <> id_pos c j.
Proof.
  unfold id_pos, cursor_ok, REQ_ID_MAX, REQ_ID_MIN. intros H Hij Hj.
  destruct (N.leb_spec (c + i) 4294967295); destruct (N.leb_spec (c + j) 4294967295); lia.
Qed.
Lemma id_alloc_none ids c : cursor_ok c -> forall f j,
  (j + N.of_nat f <= REQ_ID_MIN)%N -> id_alloc f ids (id_pos c j) = None ->
  forall i, (j <= i)%N -> (i < j + N.of_nat f)%N -> In (id_pos c i) (map fst ids).
Proof.
  intros Hc. induction f as [|f IH]; intros j Hb H i H1 H2; [lia|]. cbn [id_alloc] in H.
  destruct (lookup (id_pos c j) ids) as [k|] eqn:El; [|discriminate].
  destruct (N.eq_dec i j) as [->|Hne].
  - apply lookup_in in El. apply in_map_iff. exists (id_pos c j, k). auto.
  - rewrite id_pos_next in H by (auto; lia). apply (IH (j + 1)%N); auto; lia.
Qed.
Lemma nodup_map_inj {A B} (g : A -> B) l :
  NoDup l -> (forall x y, In x l -> In y l -> g x = g y -> x = y) -> NoDup (map g l).
Proof.
  induction l as [|x l IH]; cbn; intros H Hinj; [constructor|]. inversion H; subst. constructor.
  - intros X. apply in_map_iff in X as (y & E & Hin). assert (y = x) by (apply Hinj; auto). now subst.
  - apply IH; auto.
Qed.
Lemma id_alloc_some ids c : cursor_ok c -> (N.of_nat (length ids) <= REQ_ID_MAX - REQ_ID_MIN)%N ->
  id_alloc (S (length ids)) ids c <> None.
Proof.
  intros Hc Hb H. rewrite <- (id_pos_0 c Hc) in H.
  assert (Hb' : (0 + N.of_nat (S (length ids)) <= REQ_ID_MIN)%N) by (unfold REQ_ID_MAX, REQ_ID_MIN in *; lia).
  pose proof (id_alloc_none ids c Hc (S (length ids)) 0%N Hb' H) as Hall.
  set (L := map (fun i => id_pos c (N.of_nat i)) (seq 0 (S (length ids)))).
  assert (HL : NoDup L).
  { apply nodup_map_inj; [apply seq_NoDup|]. intros x y Hx Hy E. apply in_seq in Hx, Hy.
    assert (Bx : (N.of_nat x < REQ_ID_MIN)%N) by (clear - Hx Hb; unfold REQ_ID_MAX, REQ_ID_MIN in *; lia).
    assert (By : (N.of_nat y < REQ_ID_MIN)%N) by (clear - Hy Hb; unfold REQ_ID_MAX, REQ_ID_MIN in *; lia).
    destruct (Nat.lt_trichotomy x y) as [Hlt|[Heq|Hgt]]; [|exact Heq|]; exfalso.
    - apply (id_pos_inj c (N.of_nat x) (N.of_nat y) Hc); [clear - Hlt; lia|exact By|exact E].
    - apply (id_pos_inj c (N.of_nat y) (N.of_nat x) Hc); [clear - Hgt; lia|exact Bx|symmetry; exact E]. }
  assert (Hincl : incl L (map fst ids)).
  { intros v Hv. apply in_map_iff in Hv as (i & <- & Hi). apply in_seq in Hi. apply Hall; clear - Hi; lia. }
  pose proof (NoDup_incl_length HL Hincl) as X. subst L. rewrite !map_length, seq_length in X. clear - X. lia.
Qed.

(* with fewer than 2^31 contexts no send runs out of request ids *)
Lemma send_never_nomem fx s k cx : JInv s -> lookup k (rq_ctxs s) = Some cx -> ~ send_nomem fx s k cx.
Proof.
  intros HJ Hk. unfold send_nomem.
  assert (Hs1 : forall s1 c1 o2, snd_pre s k cx = (s1, c1, o2) -> rq_ids s1 = rq_ids s /\ rq_cursor s1 = rq_cursor s).
  { unfold snd_pre. intros s1 c1 o2 H. destruct (cx_send cx); inversion H; subst; split; reflexivity. }
  destruct (snd_pre s k cx) as [[s1 c1] o2] eqn:E1. destruct (Hs1 _ _ _ eq_refl) as [A1 A2].
  destruct (ctx_reset fx s1 k c1) as [[s2 c2] o3] eqn:E2. apply ctx_reset_ids in E2 as [B1 B2].
  pose proof (J_len s HJ) as HL. destruct HJ as ((_ & _ & J3) & _ & HB). rewrite map_length in HB.
  assert (Hlen : length (rq_ids s2) <= length (rq_ids s)).
  { rewrite B1, A1. destruct (N.eqb (cx_rid c1) 0); [lia|]. apply filter_len. }
  assert (Hb : (N.of_nat (length (rq_ids s2)) <= REQ_ID_MAX - REQ_ID_MIN)%N) by lia.
  intros [H|H].
  - unfold snd_full in H. apply N.ltb_lt in H. lia.
  - revert H. apply id_alloc_some; [|exact Hb]. now rewrite B2, A2.
Qed.

(* ---- the pack with the resource bound in its contract ---- *)
Definition M_req_b (fx : rfix) : pmodel :=
  mkPM req req_init (req_step fx) req_poll req_ok_b (fun s => RInv s /\ JInv s) req_busy (fun _ => true).

Lemma reqb_inv_init fx : pm_inv (M_req_b fx) (pm_init (M_req_b fx)).
Proof. split; [exact (req_inv_init fx)|exact J_init]. Qed.
Lemma reqb_inv_step fx : fx_rdclr fx = true ->
  forall s o, pm_inv (M_req_b fx) s -> pm_ok (M_req_b fx) s o -> o <> PSockClose -> pm_inv (M_req_b fx) (fst (pm_step (M_req_b fx) s o)).
Proof.
  intros Hfx s o [HI HJ] Hok Hc. unM M_req_b. split.
  - exact (req_inv_step fx Hfx s o HI (proj1 Hok) Hc).
  - now apply J_step.
Qed.
Theorem reqb_c15_inv fx : fx_rdclr fx = true -> C15_inv (M_req_b fx).
Proof. intros Hfx. apply reachable_inv; [apply reqb_inv_init|now apply reqb_inv_step]. Qed.

Lemma reqb_mirror_w_exact fx s : pm_inv (M_req_b fx) s -> mirror_w_exact_at (M_req_b fx) s.
Proof.
  intros [HI HJ] a m [Hok _] _. unM M_req_b. unfold rv_send. unM M_req_b. cbn [req_poll poll_w].
  apply (req_mirror_w_exact_but_nomem fx s HI a m Hok).
  unM M_req. unfold rv_send. unM M_req.
  destruct (req_send_result fx s None a m HI Hok) as [[E _]|[[E _]|[[E _]|[E (cx & Hk & Hn)]]]]; cbv zeta in E;
    try (rewrite E; errs; discriminate).
  exfalso. exact (send_never_nomem fx s _ cx HJ Hk Hn).
Qed.
(* C15_mirror_exact under the bounded contract: both descriptors are exact *)
Theorem reqb_c15_mirror_exact fx : fx_rdclr fx = true -> C15_mirror_exact (M_req_b fx).
Proof.
  intros Hfx s R. pose proof (reqb_c15_inv fx Hfx s R) as HI. split.
  - intros a [Hok _]. exact (req_mirror_r_exact fx s (proj1 HI) a Hok).
  - now apply reqb_mirror_w_exact.
Qed.
(* the bounded contract is satisfiable and does not trivialise the statement: the witnesses above respect it *)
Example reqb_reachable_w_raised fx : exists s, reachable (M_req_b fx) s /\ poll_w (pm_poll (M_req_b fx) s) = Some true.
Proof.
  exists (prun (M_req_b fx) req_init [PPipeStart 1%N PROTO_REP]). split; [|reflexivity].
  exists [PPipeStart 1%N PROTO_REP]. split; [|reflexivity]. ok_tac.
Qed.
Example reqb_reachable_r_raised fx : exists s, reachable (M_req_b fx) s /\ poll_r (pm_poll (M_req_b fx) s) = Some true.
Proof.
  exists (prun (M_req_b fx) req_init w15_reply). split.
  - exists w15_reply. split; [|reflexivity]. unfold w15_reply. destruct fx as [[] [] [] []]; ok_tac.
  - destruct fx as [[] [] [] []]; vm_compute; reflexivity.
Qed.

(* every state reachable under the bounded contract is reachable under the plain one, so everything proved for
   M_req holds of M_req_b's reachable states as well *)
Lemma reqb_pops_ok fx : forall ops s, pops_ok (M_req_b fx) s ops -> pops_ok (M_req fx) s ops /\ prun (M_req_b fx) s ops = prun (M_req fx) s ops.
Proof.
  induction ops as [|o r IH]; intros s H; cbn [pops_ok prun] in *; [split; [exact I|reflexivity]|].
  destruct H as ([Hok _] & Hc & Hr). destruct (IH _ Hr) as [A B]. split; [|exact B]. split; [exact Hok|]. split; [exact Hc|exact A].
Qed.
Lemma reqb_reachable_req fx s : reachable (M_req_b fx) s -> reachable (M_req fx) s.
Proof. intros (ops & Hok & <-). destruct (reqb_pops_ok fx ops _ Hok) as [A B]. exists ops. split; [exact A|]. symmetry. exact B. Qed.

(* the step function the C15 model daemon runs (PollModel.c15_req_step = req_step c15_req_fix): everything above
   applies as soon as the generated constant says that the repair is in the source *)
Corollary req_c15_source :
  NngV.Gen.Consts.C04_REQ_RDCLR_FIXED = true ->
  pm_step (M_req c15_req_fix) = c15_req_step /\
  C15_inv (M_req c15_req_fix) /\ C15_nb_immediate (M_req c15_req_fix) /\ C15_nb_possible (M_req c15_req_fix) /\
  C15_nb_strict (M_req c15_req_fix) /\ C15_mirror (M_req c15_req_fix) /\ C15_mirror_exact (M_req_b c15_req_fix).
Proof.
  intros H. assert (Hfx : fx_rdclr c15_req_fix = true) by exact H.
  split; [reflexivity|]. split; [now apply req_c15_inv|]. split; [now apply req_c15_nb_immediate|].
  split; [now apply req_c15_nb_possible|]. split; [now apply req_c15_nb_strict|]. split; [now apply req_c15_mirror|].
  now apply reqb_c15_mirror_exact.
Qed.
