(* ReqRepBacktrace: the pure header/body transformers of the REQ/REP family
   (src/sp/protocol/reqrep0/{req,rep,xreq,xrep}.c), lifted out of the receive /
   send callbacks.  Definitions only; shared by C04/C12 (the protocol models use
   them) and C13 (devices).

   A wire message is a byte string (what the transport carries: header bytes
   followed by body bytes).  A message inside the library is a pmsg (header,
   body).  Words are 4 bytes, big endian; the last word of a backtrace (the
   request id) has the high bit of its first byte set. *)
From Coq Require Import List Arith NArith Bool.
From NngV Require Import Proto.Common.
Import ListNotations.

Definition be32 (v : N) : list N :=
  [(v / 16777216) mod 256; (v / 65536) mod 256; (v / 256) mod 256; v mod 256]%N.
Definition word_of (b : list N) : N :=
  fold_left (fun acc x => acc * 256 + x)%N (firstn 4 b) 0%N.
(* (body[0] & 0x80) != 0 *)
Definition high_bit (b : list N) : bool :=
  match b with x :: _ => (128 <=? x)%N | [] => false end.

(* sizeof(m_header_buf) = (NNI_MAX_MAX_TTL + 1) * 4 bytes; nni_msg_header_append
   fails when len + m_header_len exceeds it *)
Definition BT_HEADER_MAX : nat := 64.
Definition BT_TTL_MIN : nat := 1.
Definition BT_TTL_MAX : nat := 15.
Definition BT_TTL_DEFAULT : nat := 8.

Inductive bt_result :=
| BtDeliver (m : pmsg)     (* parsed: header = backtrace, body = payload *)
| BtDrop                   (* message freed, receive re-armed, connection kept *)
| BtClose.                 (* message freed, the sender is disconnected *)

(* what a transport puts on the wire for a message *)
Definition wire_of (m : pmsg) : list N := pm_hdr m ++ pm_body m.

(* --- the hop loop of rep0_pipe_recv_cb / xrep0_pipe_recv_cb ---------------
   left = ttl - hops + 1 iterations still allowed: `hops > ttl` <=> left = 0 *)
Fixpoint bt_loop (left : nat) (hdr body : list N) : bt_result :=
  match left with
  | 0 => BtDrop                                           (* hops > ttl *)
  | S left' =>
      if length body <? 4 then BtClose                    (* nni_msg_len(msg) < 4 *)
      else if BT_HEADER_MAX <? length hdr + 4 then BtDrop (* header append fails *)
      else
        let w := firstn 4 body in
        let hdr' := hdr ++ w in
        let body' := skipn 4 body in
        if high_bit w then BtDeliver (mkPmsg hdr' body') else bt_loop left' hdr' body'
  end.

(* cooked REP: header starts empty *)
Definition rep_recv (ttl : nat) (wire : list N) : bt_result := bt_loop ttl [] wire.
(* raw REP: the receiving pipe's id is pushed first *)
Definition xrep_recv (p : N) (ttl : nat) (wire : list N) : bt_result := bt_loop ttl (be32 p) wire.

(* xreq0_recv_cb: move words until the high bit; no TTL; a failed header append
   or a short body disconnects *)
Fixpoint xreq_loop (fuel : nat) (hdr body : list N) : bt_result :=
  match fuel with
  | 0 => BtClose
  | S f =>
      if length body <? 4 then BtClose
      else if BT_HEADER_MAX <? length hdr + 4 then BtClose
      else
        let w := firstn 4 body in
        if high_bit w then BtDeliver (mkPmsg (hdr ++ w) (skipn 4 body))
        else xreq_loop f (hdr ++ w) (skipn 4 body)
  end.
Definition xreq_recv (wire : list N) : bt_result := xreq_loop (S (length wire)) [] wire.

(* req0_ctx_send: header := request id *)
Definition req_send (id : N) (m : pmsg) : pmsg := mkPmsg (be32 id) (pm_body m).
(* req0_recv_cb: trim the id off the body (it is not put into the header) *)
Definition req_recv (wire : list N) : option (N * pmsg) :=
  if length wire <? 4 then None else Some (word_of wire, mkPmsg [] (skipn 4 wire)).

(* rep0_ctx_send: header := the saved backtrace *)
Definition rep_send (bt : list N) (m : pmsg) : pmsg := mkPmsg bt (pm_body m).
(* what rep0_ctx_recv hands to the application / keeps for the reply *)
Definition rep_deliver (m : pmsg) : pmsg := mkPmsg [] (pm_body m).

(* xrep0_sock_getq_cb: pop the first header word -> pipe id *)
Definition xrep_send (m : pmsg) : option (N * pmsg) :=
  if length (pm_hdr m) <? 4 then None
  else Some (word_of (pm_hdr m), mkPmsg (skipn 4 (pm_hdr m)) (pm_body m)).
