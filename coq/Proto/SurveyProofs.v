(* SurveyProofs: lemmas about SurveyBacktrace (section "backtrace", used by C13
   too) and about SurveyModel (cooked SURVEYOR): invariant, id freshness, only the
   current survey's responses are delivered, new survey aborts the old one, ESTATE,
   timeout at the deadline, late responses, fan-out, non-blocking receive,
   descriptor mirror, conservation. *)
From Coq Require Import List Arith NArith Bool ZArith Lia.
From NngV Require Import Proto.Common Proto.SurveyBacktrace Proto.SurveyModel Proto.PushProofs.
Import ListNotations.

(* ================================================================ backtrace *)
Section Backtrace.

Lemma hdr_room_spec h : hdr_room h = true <-> length h + 4 <= HDR_MAX.
Proof. unfold hdr_room. apply Nat.leb_le. Qed.

(* bytes are neither created nor lost; the header stays within the buffer; at most n words are moved *)
Lemma bt_move_deliver n : forall hdr body h b,
  bt_move n hdr body = BtDeliver h b ->
  h ++ b = hdr ++ body /\ length h <= HDR_MAX /\ length hdr < length h /\ length h <= length hdr + 4 * n.
Proof.
  induction n as [|n IH]; intros hdr body h b H; cbn [bt_move] in H; [discriminate|].
  destruct body as [|b0 [|b1 [|b2 [|b3 rest]]]]; try discriminate.
  destruct (hdr_room hdr) eqn:R; [|discriminate]. apply hdr_room_spec in R.
  destruct (is_end b0).
  - inversion H; subst. rewrite <- app_assoc. cbn. rewrite app_length. cbn. repeat split; auto; lia.
  - apply IH in H as (A & B & C & D). rewrite <- app_assoc in A. cbn in A. rewrite app_length in C, D. cbn in C, D.
    repeat split; auto; lia.
Qed.

(* the result is always one of the three outcomes and the header never exceeds the buffer: totality is by
   construction (bt_move is a total function); this is the bound *)
Theorem bt_move_header_bounded n hdr body :
  match bt_move n hdr body with BtDeliver h _ => length h <= HDR_MAX | _ => True end.
Proof. destruct (bt_move n hdr body) eqn:E; auto. apply bt_move_deliver in E. tauto. Qed.

(* the words of a backtrace *)
Definition word := (N * N * N * N)%type.
Definition wbytes (w : word) : list N := let '(a, b, c, d) := w in [a; b; c; d].
Definition flat (ws : list word) : list N := concat (map wbytes ws).
Definition wfirst (w : word) : N := let '(a, _, _, _) := w in a.
Lemma flat_length ws : length (flat ws) = 4 * length ws.
Proof. induction ws as [|[[[a b] c] d] ws IH]; cbn; auto. unfold flat in IH. rewrite IH. lia. Qed.

(* k hop words without the end bit followed by a word with it: delivered iff k + 1 <= n (hops <= ttl),
   with exactly those k + 1 words moved; otherwise dropped.  Needs room in the header, which a header
   that starts with at most one word always has for n <= 15 (lemma bt_room below). *)
Theorem bt_move_terminated : forall ws n hdr wend rest,
  Forall (fun w => is_end (wfirst w) = false) ws -> is_end (wfirst wend) = true ->
  length hdr + 4 * (length ws + 1) <= HDR_MAX ->
  bt_move n hdr (flat ws ++ wbytes wend ++ rest) =
    if length ws <? n then BtDeliver (hdr ++ flat ws ++ wbytes wend) rest else BtDrop.
Proof.
  induction ws as [|[[[a b] c] d] ws IH]; intros n hdr [[[ea eb] ec] ed] rest Hw He Hr.
  - cbn [flat map concat app length]. destruct n; cbn [bt_move Nat.ltb Nat.leb]; [reflexivity|].
    cbn [wbytes app]. cbn in He. assert (R: hdr_room hdr = true) by (apply hdr_room_spec; cbn in Hr; lia).
    rewrite R, He. reflexivity.
  - inversion Hw; subst. cbn in H1. destruct n.
    + cbn. reflexivity.
    + change (flat ((a, b, c, d) :: ws)) with ([a; b; c; d] ++ flat ws). rewrite <- !app_assoc. cbn [app bt_move].
      assert (R: hdr_room hdr = true) by (apply hdr_room_spec; cbn in Hr; lia).
      rewrite R, H1. rewrite (IH n (hdr ++ [a; b; c; d]) (ea, eb, ec, ed) rest H2 He).
      * cbn [length]. change (S (length ws) <? S n) with (length ws <? n).
        destruct (length ws <? n); [|reflexivity]. rewrite <- !app_assoc. reflexivity.
      * rewrite app_length. cbn in *. lia.
Qed.

(* k words without the end bit and then fewer than 4 bytes: the peer is disconnected if the hop limit
   has not been reached, otherwise the message is dropped *)
Theorem bt_move_unterminated : forall ws n hdr (tl : list N),
  Forall (fun w => is_end (wfirst w) = false) ws -> length tl < 4 ->
  length hdr + 4 * length ws <= HDR_MAX ->
  bt_move n hdr (flat ws ++ tl) = if length ws <? n then BtClose else BtDrop.
Proof.
  induction ws as [|[[[a b] c] d] ws IH]; intros n hdr tl Hw Ht Hr.
  - cbn [flat map concat app length]. destruct n; cbn [bt_move Nat.ltb Nat.leb]; [reflexivity|].
    destruct tl as [|t0 [|t1 [|t2 [|t3 r]]]]; cbn in Ht; try lia; reflexivity.
  - inversion Hw; subst. cbn in H1. destruct n; [reflexivity|].
    change (flat ((a, b, c, d) :: ws)) with ([a; b; c; d] ++ flat ws). rewrite <- !app_assoc. cbn [app bt_move].
    assert (R: hdr_room hdr = true) by (apply hdr_room_spec; cbn in Hr; lia).
    rewrite R, H1. rewrite (IH n (hdr ++ [a; b; c; d]) tl H2 Ht).
    + reflexivity.
    + rewrite app_length. cbn in *. lia.
Qed.

(* with ttl <= TTL_MAX the header (empty, or holding the pipe id) never fills up: the "header full => drop"
   branch of the respondents is dead code *)
Lemma bt_room (hdr : list N) n k : length hdr <= 4 -> n <= TTL_MAX -> k < n -> length hdr + 4 * (k + 1) <= HDR_MAX.
Proof. unfold TTL_MAX, HDR_MAX. lia. Qed.

(* be32 / word32 *)
Lemma word32_be32 v : (v < 4294967296)%N ->
  match be32 v with [a; b; c; d] => word32 a b c d = v | _ => False end.
Proof.
  intros H. unfold be32, word32.
  replace (v / 65536)%N with (v / 256 / 256)%N by (rewrite N.div_div by lia; reflexivity).
  replace (v / 16777216)%N with (v / 256 / 256 / 256)%N by (rewrite !N.div_div by lia; reflexivity).
  pose proof (N.div_mod v 256 ltac:(lia)) as D0.
  pose proof (N.div_mod (v / 256) 256 ltac:(lia)) as D1.
  pose proof (N.div_mod (v / 256 / 256) 256 ltac:(lia)) as D2.
  pose proof (N.mod_lt v 256 ltac:(lia)).
  pose proof (N.mod_lt (v / 256) 256 ltac:(lia)).
  pose proof (N.mod_lt (v / 256 / 256) 256 ltac:(lia)).
  assert (E: ((v / 256 / 256 / 256) mod 256 = v / 256 / 256 / 256)%N).
  { apply N.mod_small. repeat (apply N.div_lt_upper_bound; [lia|]). lia. }
  rewrite E. lia.
Qed.
Lemma be32_length v : length (be32 v) = 4. Proof. reflexivity. Qed.

(* the raw respondent stores the pipe id first and the raw respondent's send pops exactly that word:
   what xresp0_recv_cb passes up routes back to the pipe it came from, with the peer's backtrace as header *)
Lemma bt_move_prefix p : forall n hdr0 body h b,
  bt_move n (be32 p ++ hdr0) body = BtDeliver h b ->
  exists bt, h = be32 p ++ bt /\ bt_move n hdr0 body = BtDeliver bt b.
Proof.
  induction n as [|n IH]; intros hdr0 body h0 b0 E; cbn [bt_move] in E; [discriminate|].
  destruct body as [|x0 [|x1 [|x2 [|x3 rest]]]]; try discriminate.
  destruct (hdr_room (be32 p ++ hdr0)) eqn:R; [|discriminate].
  apply hdr_room_spec in R. rewrite app_length, be32_length in R.
  cbn [bt_move]. destruct (hdr_room hdr0) eqn:R0.
  2:{ apply Bool.not_true_iff_false in R0. exfalso. apply R0. apply hdr_room_spec. lia. }
  destruct (is_end x0).
  - inversion E; subst. exists (hdr0 ++ [x0; x1; x2; x3]). rewrite app_assoc. auto.
  - rewrite <- app_assoc in E. apply IH in E. exact E.
Qed.

Theorem xresp_roundtrip p ttl wire h b :
  (p < 4294967296)%N -> xresp_recv p ttl wire = BtDeliver h b ->
  exists bt, h = be32 p ++ bt /\ xresp_send h = Some (p, bt) /\ bt ++ b = wire /\ resp_recv ttl wire = BtDeliver bt b.
Proof.
  intros Hp H. unfold xresp_recv, resp_recv in *.
  destruct (bt_move_prefix p ttl [] wire h b) as [bt [A B]]; [rewrite app_nil_r; exact H|].
  exists bt. split; [exact A|]. split.
  - subst h. pose proof (word32_be32 p Hp) as W. unfold be32 in *. cbn [app xresp_send]. rewrite W. reflexivity.
  - split; [|exact B]. apply bt_move_deliver in B. cbn in B. tauto.
Qed.

(* raw surveyor: at most a full header of words; anything else disconnects the peer *)
Lemma xsurv_move_deliver f : forall hdr body h b,
  xsurv_move f hdr body = BtDeliver h b -> h ++ b = hdr ++ body /\ length h <= HDR_MAX.
Proof.
  induction f as [|f IH]; intros hdr body h b H; cbn [xsurv_move] in H; [discriminate|].
  destruct body as [|b0 [|b1 [|b2 [|b3 rest]]]]; try discriminate.
  destruct (hdr_room hdr) eqn:R; [|discriminate]. apply hdr_room_spec in R.
  destruct (is_end b0).
  - inversion H; subst. rewrite <- app_assoc. cbn. rewrite app_length. cbn. split; auto; lia.
  - apply IH in H as (A & B). rewrite <- app_assoc in A. cbn in A. split; auto.
Qed.
Theorem xsurv_recv_never_drops wire : xsurv_recv wire <> BtDrop.
Proof.
  unfold xsurv_recv. generalize (S (length wire)) as f. generalize (@nil N) as hdr. revert wire.
  intros wire hdr f. revert wire hdr. induction f as [|f IH]; intros wire hdr; cbn [xsurv_move]; [discriminate|].
  destruct wire as [|b0 [|b1 [|b2 [|b3 rest]]]]; try discriminate.
  destruct (hdr_room hdr); [|discriminate]. destruct (is_end b0); [discriminate|apply IH].
Qed.

(* cooked surveyor: a response shorter than 4 bytes has no id; otherwise exactly one word is the id *)
Theorem surv_recv_spec wire :
  (length wire < 4 -> surv_recv wire = None) /\
  (forall id h b, surv_recv wire = Some (id, h, b) -> h ++ b = wire /\ length h = 4).
Proof.
  split.
  - destruct wire as [|b0 [|b1 [|b2 [|b3 rest]]]]; cbn; intros; auto; lia.
  - intros id h b. destruct wire as [|b0 [|b1 [|b2 [|b3 rest]]]]; cbn; intros H; try discriminate.
    inversion H; subst. auto.
Qed.
Theorem surv_send_recv id body : (id < 4294967296)%N ->
  surv_recv (surv_send id body) = Some (id, be32 id, body).
Proof.
  intros H. unfold surv_send, wire_of. pose proof (word32_be32 id H) as W. unfold be32 in *. cbn [app surv_recv].
  rewrite W. reflexivity.
Qed.

End Backtrace.

(* ================================================================ keyed lists *)
Lemma kget_kset_eq {A} k (v : A) l : kget k (kset k v l) = Some v.
Proof.
  induction l as [|[k' v'] l IH]; cbn; [now rewrite N.eqb_refl|].
  destruct (N.eqb_spec k' k); cbn; [now rewrite N.eqb_refl|]. destruct (N.eqb_spec k' k); [contradiction|auto].
Qed.
Lemma kget_kset_neq {A} k k' (v : A) l : k' <> k -> kget k' (kset k v l) = kget k' l.
Proof.
  intros H. induction l as [|[k0 v0] l IH]; cbn.
  - destruct (N.eqb_spec k k'); [congruence|reflexivity].
  - destruct (N.eqb_spec k0 k); cbn.
    + subst. destruct (N.eqb_spec k k'); [congruence|reflexivity].
    + destruct (N.eqb_spec k0 k'); auto.
Qed.
Lemma kget_in {A} k (v : A) l : kget k l = Some v -> In (k, v) l.
Proof.
  induction l as [|[k' v'] l IH]; cbn; [discriminate|]. destruct (N.eqb_spec k' k); intros H.
  - inversion H; subst. now left.
  - right. auto.
Qed.
Lemma in_kget {A} k (v : A) l : NoDup (map fst l) -> In (k, v) l -> kget k l = Some v.
Proof.
  induction l as [|[k' v'] l IH]; cbn; intros ND H; [contradiction|]. inversion ND as [|? ? Hn Hd]; subst.
  destruct H as [H|H].
  - inversion H; subst. now rewrite N.eqb_refl.
  - destruct (N.eqb_spec k' k); [|auto]. subst. exfalso. apply Hn. change k with (fst (k, v)). now apply in_map.
Qed.
Lemma keys_kset_present {A} k (v v0 : A) l : kget k l = Some v0 -> map fst (kset k v l) = map fst l.
Proof.
  induction l as [|[k' v'] l IH]; cbn; [discriminate|]. destruct (N.eqb_spec k' k); cbn; intros H; [now subst|].
  f_equal. auto.
Qed.
Lemma keys_kset_absent {A} k (v : A) l : kget k l = None -> map fst (kset k v l) = map fst l ++ [k].
Proof.
  induction l as [|[k' v'] l IH]; cbn; [reflexivity|]. destruct (N.eqb_spec k' k); cbn; intros H; [discriminate|].
  f_equal. auto.
Qed.
Lemma kget_none_notin {A} k (l : list (N * A)) : kget k l = None -> ~ In k (map fst l).
Proof.
  induction l as [|[k' v'] l IH]; cbn; [tauto|]. destruct (N.eqb_spec k' k); [discriminate|]. intros H [E|I]; [congruence|].
  now apply IH.
Qed.
Lemma nodup_kset {A} k (v : A) l : NoDup (map fst l) -> NoDup (map fst (kset k v l)).
Proof.
  intros H. destruct (kget k l) eqn:E.
  - now rewrite (keys_kset_present k v a l E).
  - rewrite (keys_kset_absent k v l E). apply nodup_snoc; auto. now apply kget_none_notin.
Qed.
Lemma in_kset {A} k (v : A) l k' v' :
  NoDup (map fst l) -> In (k', v') (kset k v l) -> (k' = k /\ v' = v) \/ (k' <> k /\ In (k', v') l).
Proof.
  induction l as [|[k0 v0] l IH]; cbn; intros ND H.
  - destruct H as [H|[]]. inversion H; auto.
  - inversion ND as [|? ? Hn Hd]; subst. destruct (N.eqb_spec k0 k).
    + subst. destruct H as [H|H]; [inversion H; auto|]. right. split; [|now right].
      intros ->. apply Hn. change k with (fst (k, v')). now apply in_map.
    + destruct H as [H|H].
      * inversion H; subst. right. split; auto.
      * destruct (IH Hd H) as [A0|[A0 B0]]; auto.
Qed.
Lemma in_kdel {A} k (l : list (N * A)) k' v' : In (k', v') (kdel k l) -> k' <> k /\ In (k', v') l.
Proof.
  unfold kdel. intros H. apply filter_In in H as [H1 H2]. cbn in H2. split; auto.
  intros ->. rewrite N.eqb_refl in H2. discriminate.
Qed.
Lemma nodup_kdel {A} k (l : list (N * A)) : NoDup (map fst l) -> NoDup (map fst (kdel k l)).
Proof. intros H. unfold kdel. now apply nodup_filter_keys. Qed.
Lemma kget_kdel_neq {A} k k' (l : list (N * A)) : k' <> k -> kget k' (kdel k l) = kget k' l.
Proof.
  intros H. induction l as [|[k0 v0] l IH]; cbn; [reflexivity|].
  destruct (N.eqb_spec k0 k); cbn.
  - subst. destruct (N.eqb_spec k k'); [congruence|auto].
  - destruct (N.eqb_spec k0 k'); auto.
Qed.

(* ================================================================ the id generator *)
Lemma id_succ_range x : (ID_LO <= x <= ID_HI)%N -> (ID_LO <= id_succ x <= ID_HI)%N.
Proof. unfold id_succ, ID_LO, ID_HI. intros H. destruct (N.ltb_spec 4294967295 (x + 1)); lia. Qed.
Lemma has_id_in a l : has_id a l = true <-> In a l.
Proof.
  unfold has_id. rewrite existsb_exists. split.
  - intros (x & H1 & H2). apply N.eqb_eq in H2. now subst.
  - intros H. exists a. split; auto. apply N.eqb_refl.
Qed.
(* ids handed out by the generator: in range, not in use, and the cursor stays in range *)
Theorem id_alloc_fresh fuel : forall live cur id cur',
  (ID_LO <= cur <= ID_HI)%N -> id_alloc fuel live cur = Some (id, cur') ->
  ~ In id live /\ (ID_LO <= id <= ID_HI)%N /\ (ID_LO <= cur' <= ID_HI)%N.
Proof.
  induction fuel as [|f IH]; intros live cur id cur' Hc H; cbn in H; [discriminate|].
  destruct (has_id cur live) eqn:E.
  - apply IH in H; auto. now apply id_succ_range.
  - inversion H; subst. split; [|split; [auto|now apply id_succ_range]].
    intros Hin. apply has_id_in in Hin. congruence.
Qed.
(* "in range" is "32 bits with the high bit set" *)
Lemma id_range_high_bit id : (ID_LO <= id <= ID_HI)%N <-> (N.testbit id 31 = true /\ id < 4294967296)%N.
Proof.
  unfold ID_LO, ID_HI. split.
  - intros H. split; [|lia]. apply N.testbit_true. change (2 ^ 31)%N with 2147483648%N.
    assert (id / 2147483648 = 1)%N as ->; [|reflexivity].
    symmetry. apply (N.div_unique id 2147483648 1 (id - 2147483648)); lia.
  - intros [H1 H2]. split; [|lia]. apply N.testbit_true in H1. change (2 ^ 31)%N with 2147483648%N in H1.
    destruct (N.lt_ge_cases id 2147483648); [|lia]. rewrite N.div_small in H1 by lia. discriminate.
Qed.

(* ================================================================ single steps of the surveyor *)
Definition hdr_id (h : list N) : N := match h with [a; b; c; d] => word32 a b c d | _ => 0%N end.
Definition get_ctx (s : surv) (c : option ctxid) : option sctx := kget (ckey c) (sv_ctxs s).

(* receive with no survey, or at/after the deadline: NNG_ESTATE, nothing changes (blocking or not) *)
Theorem surv_recv_estate_no_survey fx s c a nb cx :
  get_ctx s c = Some cx -> sc_survey cx = 0%N ->
  surv_step fx s (PRecv c a nb) = (s, [Complete a E_STATE None]).
Proof. unfold get_ctx. intros H E. cbn [surv_step]. rewrite H, E. reflexivity. Qed.
Theorem surv_recv_estate_after_deadline fx s c a nb cx :
  get_ctx s c = Some cx -> (sc_expire cx <= Z.of_N (sv_now s))%Z ->
  surv_step fx s (PRecv c a nb) = (s, [Complete a E_STATE None]).
Proof.
  unfold get_ctx. intros H E. cbn [surv_step]. rewrite H.
  apply Z.leb_le in E. rewrite E, orb_true_r. reflexivity.
Qed.

(* a response shorter than 4 bytes disconnects its sender; nothing else happens *)
Theorem surv_short_response_disconnects fx s p m :
  length (pm_body m) < 4 -> surv_step fx s (PRecvDone p 0 m) = (s, [Free m; ClosePipe p]).
Proof. intros H. cbn [surv_step N.eqb negb]. destruct (surv_recv_spec (pm_body m)) as [A _]. now rewrite (A H). Qed.

(* a response whose id no context currently owns (stale, foreign to every context, unknown, high bit
   clear, zero) is discarded: the state -- every context -- is untouched and the pipe keeps receiving *)
Theorem surv_unowned_response_discarded fx s p m id h b :
  surv_recv (pm_body m) = Some (id, h, b) -> find_owner id (sv_ctxs s) = None ->
  surv_step fx s (PRecvDone p 0 m) = (s, [Free (mkPmsg (pm_hdr m ++ h) b); TranRecv p]).
Proof. intros H F. cbn [surv_step N.eqb negb]. now rewrite H, F. Qed.

Lemma find_owner_some id l k c : find_owner id l = Some (k, c) -> sc_survey c = id /\ id <> 0%N /\ In (k, c) l.
Proof.
  unfold find_owner. destruct (N.eqb_spec id 0); [discriminate|]. intros H. apply find_some in H as [H1 H2].
  cbn in H2. apply N.eqb_eq in H2. auto.
Qed.

(* a response whose id a context owns goes to that context and to no other: to its oldest waiting receive,
   else into its queue (if not full); every other context is unchanged *)
Theorem surv_owned_response fx s p m id h b k c s' outs :
  NoDup (map fst (sv_ctxs s)) ->
  surv_recv (pm_body m) = Some (id, h, b) -> find_owner id (sv_ctxs s) = Some (k, c) ->
  surv_step fx s (PRecvDone p 0 m) = (s', outs) ->
  sc_survey c = id /\ id <> 0%N /\
  (forall k', k' <> k -> kget k' (sv_ctxs s') = kget k' (sv_ctxs s)) /\
  sv_pipes s' = sv_pipes s /\
  (forall a rv x, In (Complete a rv x) outs ->
     rv = E_OK /\ x = Some (mkPmsg (pm_hdr m ++ h) b) /\ exists r, sc_rq c = a :: r) /\
  (sc_rq c = [] -> length (sc_lmq c) < SURV_RECV_BUF ->
     exists c', kget k (sv_ctxs s') = Some c' /\ sc_lmq c' = sc_lmq c ++ [mkPmsg (pm_hdr m ++ h) b] /\ sc_survey c' = id).
Proof.
  intros ND H F S. destruct (find_owner_some _ _ _ _ F) as (E1 & E2 & E3).
  cbn [surv_step N.eqb negb] in S. rewrite H, F in S.
  split; [exact E1|]. split; [exact E2|].
  destruct (SURV_RECV_BUF <=? length (sc_lmq c)) eqn:FL.
  - inversion S; subst. split; [auto|]. split; [auto|]. split.
    + intros a rv x [X|[X|[]]]; discriminate.
    + intros _ L. apply Nat.leb_le in FL. lia.
  - destruct (sc_rq c) as [|a0 r0] eqn:RQ.
    + assert (S2: sv_ctxs s' = kset k (mkSctx (sc_survey c) (sc_lmq c ++ [mkPmsg (pm_hdr m ++ h) b]) [] (sc_stime c) (sc_expire c)) (sv_ctxs s) /\
                  sv_pipes s' = sv_pipes s /\ outs = [TranRecv p]).
      { destruct (k =? 0)%N; inversion S; subst; cbn; auto. }
      destruct S2 as (A & B & C). rewrite A, C. split; [|split; [auto|split]].
      * intros k' Hk. now apply kget_kset_neq.
      * intros a rv x [X|[]]; discriminate.
      * intros _ _. eexists. split; [apply kget_kset_eq|]. cbn. auto.
    + inversion S; subst. cbn [sv_ctxs sv_pipes set_ctxs]. split; [|split; [auto|split]].
      * intros k' Hk. now apply kget_kset_neq.
      * intros a rv x [X|[X|[]]]; inversion X; subst. split; [auto|]. split; [auto|]. eauto.
      * discriminate.
Qed.

(* a new survey: every pending receive of that context is cancelled, its queued responses are freed,
   the old id is retired and a fresh one (in range, owned by nobody) installed; deadline = now + survey time *)
Lemma fanout_no_complete m0 l : forall r rv x, ~ In (Complete r rv x) (snd (fanout m0 l)).
Proof.
  induction l as [|[q y] l IH]; cbn [fanout snd]; [cbn; tauto|]. destruct (fanout m0 l) as [r' o]. cbn [snd] in IH.
  destruct (sp_closed y); [exact IH|]. destruct (sp_busy y); cbn [negb].
  - destruct (length (sp_q y) <? SURV_SEND_BUF); exact IH.
  - cbn [snd]. intros r rv x [X|X]; [discriminate|]. eapply IH; eauto.
Qed.
Lemma in_kset_other {A} k (v : A) l k' v' : k' <> k -> In (k', v') l -> In (k', v') (kset k v l).
Proof.
  intros Hk. induction l as [|[k0 v0] l IH]; cbn; [tauto|]. intros [X|X].
  - inversion X; subst. destruct (N.eqb_spec k' k); [contradiction|now left].
  - destruct (N.eqb_spec k0 k); right; auto.
Qed.

Theorem surv_new_survey_aborts_old fx s c a nb m cx s' outs :
  (ID_LO <= sv_cur s <= ID_HI)%N ->
  get_ctx s c = Some cx -> surv_step fx s (PSend c a nb m) = (s', outs) ->
  (forall r, In r (sc_rq cx) -> In (Complete r E_CANCELED None) outs) /\
  (forall x, In x (sc_lmq cx) -> In (Free x) outs) /\
  (forall r rv x, In (Complete r rv x) outs -> r <> a -> In r (sc_rq cx) /\ rv = E_CANCELED /\ x = None) /\
  (In (Complete a E_OK None) outs ->
     exists cx', get_ctx s' c = Some cx' /\ sc_lmq cx' = [] /\ sc_rq cx' = [] /\
       (ID_LO <= sc_survey cx' <= ID_HI)%N /\
       sc_expire cx' = (Z.of_N (sv_now s) + sc_stime cx)%Z /\
       (forall k' c', k' <> ckey c -> In (k', c') (sv_ctxs s) -> sc_survey c' <> sc_survey cx') /\
       (forall k', k' <> ckey c -> kget k' (sv_ctxs s') = kget k' (sv_ctxs s))).
Proof.
  unfold get_ctx. intros HC H St. cbn [surv_step] in St. rewrite H in St. cbn [ctx_abort] in St.
  set (cx1 := mkSctx 0 [] [] (sc_stime cx) (sc_expire cx)) in *.
  set (ctxs1 := kset (ckey c) cx1 (sv_ctxs s)) in *.
  set (o1 := fail_aios E_CANCELED (sc_rq cx) ++ map Free (sc_lmq cx)) in *.
  assert (FO: forall r rv x, In (Complete r rv x) o1 -> In r (sc_rq cx) /\ rv = E_CANCELED /\ x = None).
  { intros r rv x Hin. apply in_app_or in Hin as [Hin|Hin].
    - unfold fail_aios in Hin. apply in_map_iff in Hin as (y & E & Hy). inversion E; subst. auto.
    - apply in_map_iff in Hin as (y & E & _). discriminate. }
  assert (P1: forall r, In r (sc_rq cx) -> In (Complete r E_CANCELED None) o1).
  { intros r Hr. apply in_or_app. left. unfold fail_aios. apply in_map_iff. eauto. }
  assert (P2: forall x, In x (sc_lmq cx) -> In (Free x) o1).
  { intros x Hx. apply in_or_app. right. now apply in_map. }
  destruct (id_alloc (Datatypes.S (length (live_ids ctxs1))) (live_ids ctxs1) (sv_cur s)) as [[id cur']|] eqn:AL.
  - pose proof (fanout_no_complete (mkPmsg (be32 id) (pm_body m)) (sv_pipes s)) as TXC.
    destruct (fanout (mkPmsg (be32 id) (pm_body m)) (sv_pipes s)) as [pipes' tx] eqn:FA. cbn [snd] in TXC.
    inversion St; subst s' outs; clear St.
    destruct (id_alloc_fresh _ _ _ _ _ HC AL) as (NI & RG & CR).
    split; [|split; [|split]].
    + intros r Hr. apply in_or_app. left. auto.
    + intros x Hx. apply in_or_app. left. auto.
    + intros r rv x Hin Hne. apply in_app_or in Hin as [X|X]; [now apply FO|].
      apply in_app_or in X as [X|[X|[]]]; [exfalso; eapply TXC; eauto|]. inversion X; subst. contradiction.
    + intros _. eexists. cbn [sv_ctxs]. split; [apply kget_kset_eq|]. cbn [sc_lmq sc_rq sc_survey sc_expire].
      split; [reflexivity|]. split; [reflexivity|]. split; [exact RG|]. split; [reflexivity|]. split.
      * intros k' c' Hk Hin E. apply NI. unfold live_ids. apply filter_In. split.
        -- apply in_map_iff. exists (k', c'). split; [exact E|]. unfold ctxs1. now apply in_kset_other.
        -- destruct (N.eqb_spec id 0); [|reflexivity]. unfold ID_LO in RG. lia.
      * intros k' Hk. rewrite kget_kset_neq by auto. unfold ctxs1. now apply kget_kset_neq.
  - inversion St; subst s' outs; clear St. split; [|split; [|split]].
    + intros r Hr. apply in_or_app. left. auto.
    + intros x Hx. apply in_or_app. left. auto.
    + intros r rv x Hin Hne. apply in_app_or in Hin as [X|[X|[]]]; [now apply FO|]. inversion X; subst. contradiction.
    + intros X. exfalso. apply in_app_or in X as [X|[X|[]]]; [apply FO in X; destruct X as (_ & X & _); discriminate|discriminate].
Qed.

(* ================================================================ the deadline *)
Definition timed_out (c : sctx) : sctx := mkSctx 0 (sc_lmq c) [] (sc_stime c) (sc_expire c).
Lemma expire_ctxs_get now l k c :
  kget k l = Some c ->
  kget k (fst (expire_ctxs now l)) =
    Some (match sc_rq c with [] => c | _ => if (sc_expire c <? Z.of_N now)%Z then timed_out c else c end).
Proof.
  induction l as [|[k0 c0] l IH]; cbn [kget expire_ctxs]; [discriminate|].
  destruct (expire_ctxs now l) as [r' o] eqn:E. cbn [fst] in IH.
  destruct (N.eqb_spec k0 k).
  - intros H. inversion H; subst. destruct (sc_rq c); cbn [fst kget]; [now rewrite N.eqb_refl|].
    destruct (sc_expire c <? Z.of_N now)%Z; cbn [fst kget]; now rewrite N.eqb_refl.
  - intros H. specialize (IH H).
    destruct (sc_rq c0); cbn [fst kget]; [destruct (N.eqb_spec k0 k); [contradiction|exact IH]|].
    destruct (sc_expire c0 <? Z.of_N now)%Z; cbn [fst kget]; destruct (N.eqb_spec k0 k); try contradiction; exact IH.
Qed.
Lemma expire_ctxs_outs now l k c a :
  In (k, c) l -> In a (sc_rq c) -> (sc_expire c < Z.of_N now)%Z ->
  In (Complete a E_TIMEDOUT None) (snd (expire_ctxs now l)).
Proof.
  induction l as [|[k0 c0] l IH]; cbn [expire_ctxs]; [contradiction|].
  destruct (expire_ctxs now l) as [r' o] eqn:E. cbn [snd] in IH. intros [X|X] Ha Hl.
  - inversion X; subst. destruct (sc_rq c) eqn:RQ; [contradiction|]. apply Z.ltb_lt in Hl. rewrite Hl. cbn [snd].
    apply in_or_app. left. unfold fail_aios. apply in_map_iff. eauto.
  - specialize (IH X Ha Hl). destruct (sc_rq c0); cbn [snd]; auto.
    destruct (sc_expire c0 <? Z.of_N now)%Z; cbn [snd]; auto. apply in_or_app. now right.
Qed.
Lemma expire_ctxs_only_timeouts now l a rv x :
  In (Complete a rv x) (snd (expire_ctxs now l)) ->
  rv = E_TIMEDOUT /\ x = None /\ exists k c, In (k, c) l /\ In a (sc_rq c) /\ (sc_expire c < Z.of_N now)%Z.
Proof.
  induction l as [|[k0 c0] l IH]; cbn [expire_ctxs]; [cbn; contradiction|].
  destruct (expire_ctxs now l) as [r' o] eqn:E. cbn [snd] in IH.
  assert (R: In (Complete a rv x) o -> rv = E_TIMEDOUT /\ x = None /\ exists k c, In (k, c) ((k0, c0) :: l) /\ In a (sc_rq c) /\ (sc_expire c < Z.of_N now)%Z).
  { intros H. destruct (IH H) as (A & B & k & c & C & D & F). repeat split; auto. exists k, c. split; [now right|auto]. }
  destruct (sc_rq c0) eqn:RQ; cbn [snd]; [exact R|].
  destruct (sc_expire c0 <? Z.of_N now)%Z eqn:LT; cbn [snd]; [|exact R].
  intros H. apply in_app_or in H as [H|H]; [|now apply R].
  unfold fail_aios in H. apply in_map_iff in H as (y & Ey & Hy). inversion Ey; subst.
  repeat split; auto. exists k0, c0. split; [now left|]. rewrite RQ. split; [exact Hy|]. now apply Z.ltb_lt.
Qed.

(* the expiry event (the clock is past the deadline): every receive still pending on the context
   completes with NNG_ETIMEDOUT and the survey id is retired; nothing is delivered by this step *)
Theorem surv_pending_times_out fx s now k c a s' outs :
  kget k (sv_ctxs s) = Some c -> In a (sc_rq c) -> (sc_expire c < Z.of_N now)%Z ->
  surv_step fx s (PTick now) = (s', outs) ->
  In (Complete a E_TIMEDOUT None) outs /\
  (exists c', kget k (sv_ctxs s') = Some c' /\ sc_survey c' = 0%N /\ sc_rq c' = []) /\
  (forall a' rv x, In (Complete a' rv x) outs -> rv = E_TIMEDOUT /\ x = None).
Proof.
  intros H Ha Hl St. cbn [surv_step] in St.
  pose proof (expire_ctxs_get now _ _ _ H) as G. pose proof (expire_ctxs_outs now _ _ _ a (kget_in _ _ _ H) Ha Hl) as O.
  pose proof (fun a' rv x => expire_ctxs_only_timeouts now (sv_ctxs s) a' rv x) as T.
  destruct (expire_ctxs now (sv_ctxs s)) as [cs o]. cbn [fst snd] in *. inversion St; subst. cbn [sv_ctxs].
  split; [exact O|]. split.
  - eexists. split; [exact G|]. destruct (sc_rq c) eqn:RQ; [contradiction|]. apply Z.ltb_lt in Hl. rewrite Hl. cbn. auto.
  - intros a' rv x Hin. destruct (T a' rv x Hin) as (A & B & _). auto.
Qed.

(* ================================================================ invariant: queued responses carry the context's current id *)
Definition CInv (c : sctx) : Prop :=
  (sc_rq c <> [] -> sc_lmq c = []) /\
  (forall m, In m (sc_lmq c) -> hdr_id (pm_hdr m) = sc_survey c /\ sc_survey c <> 0%N).
Definition SInv (s : surv) : Prop :=
  NoDup (map fst (sv_ctxs s)) /\ forall k c, In (k, c) (sv_ctxs s) -> CInv c.

(* the environment's contract: transports deliver whole wire messages in the body *)
Definition surv_op_ok (o : pop) : Prop :=
  match o with PRecvDone _ rv m => rv = 0%N -> pm_hdr m = [] | _ => True end.

Lemma cinv_zero c : CInv (mkSctx 0 [] [] (sc_stime c) (sc_expire c)).
Proof. split; cbn; [auto|contradiction]. Qed.
Lemma in_kset_weak {A} k (v : A) l k' v' : In (k', v') (kset k v l) -> v' = v \/ In (k', v') l.
Proof.
  induction l as [|[k0 v0] l IH]; cbn; intros H.
  - destruct H as [H|[]]. inversion H; auto.
  - destruct (N.eqb_spec k0 k).
    + destruct H as [H|H]; [inversion H; auto|]. right. now right.
    + destruct H as [H|H]; [right; now left|]. destruct (IH H); auto.
Qed.
Lemma sinv_kset s k v : SInv s -> CInv v -> SInv (set_ctxs s (kset k v (sv_ctxs s))).
Proof.
  intros [ND H] Hv. split; cbn [sv_ctxs set_ctxs]; [now apply nodup_kset|].
  intros k' c' Hin. apply in_kset_weak in Hin as [->|Hin]; eauto.
Qed.
Lemma expire_ctxs_keys now l : map fst (fst (expire_ctxs now l)) = map fst l.
Proof.
  induction l as [|[k c] l IH]; cbn [expire_ctxs]; [reflexivity|]. destruct (expire_ctxs now l) as [r o]. cbn [fst] in IH.
  destruct (sc_rq c); cbn [fst map]; [now rewrite IH|]. destruct (sc_expire c <? Z.of_N now)%Z; cbn [fst map]; now rewrite IH.
Qed.
Lemma expire_ctxs_in now l k c' :
  In (k, c') (fst (expire_ctxs now l)) -> exists c, In (k, c) l /\ (c' = c \/ (sc_rq c <> [] /\ c' = timed_out c)).
Proof.
  induction l as [|[k0 c0] l IH]; cbn [expire_ctxs]; [cbn; contradiction|]. destruct (expire_ctxs now l) as [r o]. cbn [fst] in IH.
  assert (R: In (k, c') r -> exists c, In (k, c) ((k0, c0) :: l) /\ (c' = c \/ (sc_rq c <> [] /\ c' = timed_out c))).
  { intros H. destruct (IH H) as (c & A & B). exists c. split; [now right|auto]. }
  destruct (sc_rq c0) eqn:RQ; cbn [fst].
  - intros [X|X]; [inversion X; subst; exists c'; split; [now left|auto]|auto].
  - destruct (sc_expire c0 <? Z.of_N now)%Z; cbn [fst]; intros [X|X]; auto.
    + inversion X; subst. exists c0. split; [now left|]. right. split; [congruence|reflexivity].
    + inversion X; subst. exists c'. split; [now left|auto].
Qed.
Lemma cancel_ctxs_keys a rv l : map fst (fst (cancel_ctxs a rv l)) = map fst l.
Proof.
  induction l as [|[k c] l IH]; cbn [cancel_ctxs]; [reflexivity|]. destruct (has_id a (sc_rq c)); cbn [fst map]; [reflexivity|].
  destruct (cancel_ctxs a rv l) as [r o]. cbn [fst map] in *. now rewrite IH.
Qed.
Lemma cancel_ctxs_in a rv l k c' :
  In (k, c') (fst (cancel_ctxs a rv l)) ->
  exists c, In (k, c) l /\ (c' = c \/ (sc_rq c <> [] /\ c' = mkSctx 0 (sc_lmq c) (remove_id a (sc_rq c)) (sc_stime c) (sc_expire c))).
Proof.
  induction l as [|[k0 c0] l IH]; cbn [cancel_ctxs]; [cbn; contradiction|].
  destruct (has_id a (sc_rq c0)) eqn:HA; cbn [fst].
  - intros [X|X].
    + inversion X; subst. exists c0. split; [now left|]. right. split; [|reflexivity].
      intros E. rewrite E in HA. discriminate.
    + exists c'. split; [now right|auto].
  - destruct (cancel_ctxs a rv l) as [r o]. cbn [fst] in *. intros [X|X].
    + inversion X; subst. exists c'. split; [now left|auto].
    + destruct (IH X) as (c & A & B). exists c. split; [now right|auto].
Qed.
Lemma cinv_retire c rq' : CInv c -> sc_rq c <> [] -> CInv (mkSctx 0 (sc_lmq c) rq' (sc_stime c) (sc_expire c)).
Proof. intros [A B] H. rewrite (A H). split; cbn; [auto|contradiction]. Qed.

Theorem surv_step_inv fx s o s' outs : SInv s -> surv_op_ok o -> surv_step fx s o = (s', outs) -> SInv s'.
Proof.
  intros HI Hok St. pose proof HI as [ND HC].
  destruct o as [c a nb m|c a nb|a rv|p peer|p|p rv|p rv m|c op|c|c| |now]; cbn [surv_step] in St.
  - (* PSend *)
    destruct (kget (ckey c) (sv_ctxs s)) as [cx|] eqn:G; [|inversion St; subst; exact HI]. cbn [ctx_abort] in St.
    set (cx1 := mkSctx 0 [] [] (sc_stime cx) (sc_expire cx)) in *.
    pose proof (sinv_kset s (ckey c) cx1 HI (cinv_zero cx)) as H1. cbn [sv_ctxs set_ctxs] in St.
    destruct (id_alloc _ _ _) as [[id cur']|].
    + destruct (fanout _ _) as [pipes' tx]. inversion St; subst. destruct H1 as [ND1 HC1]. cbn [sv_ctxs set_ctxs] in *.
      split; cbn [sv_ctxs]; [now apply nodup_kset|]. intros k' c' Hin. apply in_kset_weak in Hin as [->|Hin]; eauto.
      split; cbn; [auto|contradiction].
    + inversion St; subst. exact H1.
  - (* PRecv *)
    destruct (kget (ckey c) (sv_ctxs s)) as [cx|] eqn:G; [|inversion St; subst; exact HI].
    destruct (_ || _); [inversion St; subst; exact HI|].
    pose proof (HC _ _ (kget_in _ _ _ G)) as [CA CB].
    destruct (sc_lmq cx) as [|m0 r] eqn:L.
    + destruct (nb && fx); inversion St; subst; [exact HI|]. apply sinv_kset; auto.
      split; cbn; [auto|contradiction].
    + assert (SI: SInv (set_ctxs s (kset (ckey c) (mkSctx (sc_survey cx) r (sc_rq cx) (sc_stime cx) (sc_expire cx)) (sv_ctxs s)))).
      { apply sinv_kset; auto. split; cbn.
        - intros H. specialize (CA H). discriminate.
        - intros m1 Hm. apply CB. now right. }
      destruct (isnil r && (ckey c =? 0)%N); inversion St; subst; exact SI.
  - (* PCancel *)
    pose proof (cancel_ctxs_keys a rv (sv_ctxs s)) as K. pose proof (fun k c' => cancel_ctxs_in a rv (sv_ctxs s) k c') as I.
    destruct (cancel_ctxs a rv (sv_ctxs s)) as [cs o]. cbn [fst] in *. inversion St; subst. split; cbn [sv_ctxs set_ctxs].
    + now rewrite K.
    + intros k c' Hin. destruct (I k c' Hin) as (c0 & A & [->|[B ->]]); eauto. apply cinv_retire; eauto.
  - (* PPipeStart *) destruct (negb _); inversion St; subst; exact HI.
  - (* PPipeClose *) destruct (kget p (sv_pipes s)); inversion St; subst; exact HI.
  - (* PSendDone *)
    destruct (kget p (sv_pipes s)) as [x|]; [|inversion St; subst; exact HI].
    destruct (negb _); [inversion St; subst; exact HI|]. destruct (sp_closed x); [inversion St; subst; exact HI|].
    destruct (sp_q x); inversion St; subst; exact HI.
  - (* PRecvDone *)
    destruct (N.eqb_spec rv 0) as [->|]; cbn [negb] in St; [|inversion St; subst; exact HI].
    cbn in Hok. specialize (Hok eq_refl).
    destruct (surv_recv (pm_body m)) as [[[id h] b]|] eqn:SR; [|inversion St; subst; exact HI].
    destruct (find_owner id (sv_ctxs s)) as [[k c]|] eqn:FO; [|inversion St; subst; exact HI].
    destruct (find_owner_some _ _ _ _ FO) as (E1 & E2 & E3). pose proof (HC _ _ E3) as [CA CB].
    destruct (_ <=? _); [inversion St; subst; exact HI|].
    destruct (sc_rq c) as [|a r] eqn:RQ.
    + assert (SI: SInv (set_ctxs s (kset k (mkSctx (sc_survey c) (sc_lmq c ++ [mkPmsg (pm_hdr m ++ h) b]) [] (sc_stime c) (sc_expire c)) (sv_ctxs s)))).
      { apply sinv_kset; auto. split; cbn; [congruence|].
        intros m1 Hm. apply in_app_or in Hm as [Hm|[<-|[]]]; [auto|]. cbn [pm_hdr]. rewrite Hok. cbn [app].
        split; [|congruence]. rewrite E1.
        destruct (pm_body m) as [|b0 [|b1 [|b2 [|b3 rest]]]]; cbn in SR; try discriminate. inversion SR; subst. reflexivity. }
      destruct (k =? 0)%N; inversion St; subst; exact SI.
    + inversion St; subst. apply sinv_kset; auto. assert (L: sc_lmq c = []) by (apply CA; congruence).
      rewrite L. split; cbn; [auto|contradiction].
  - (* PSetOpt *)
    destruct op; try (destruct c; inversion St; subst; exact HI).
    + destruct c; [inversion St; subst; exact HI|]. destruct (_ <? _)%N; inversion St; subst; exact HI.
    + destruct c; [inversion St; subst; exact HI|]. destruct (_ <? _)%N; inversion St; subst; exact HI.
    + destruct c; [inversion St; subst; exact HI|]. destruct (_ && _); inversion St; subst; [|exact HI]. exact HI.
    + destruct (ms <? -1)%Z; [destruct c; inversion St; subst; exact HI|].
      assert (G: forall k, (match kget k (sv_ctxs s) with
                | Some cx => (set_ctxs s (kset k (mkSctx (sc_survey cx) (sc_lmq cx) (sc_rq cx) ms (sc_expire cx)) (sv_ctxs s)), [OptRv E_OK])
                | None => (s, [OptRv E_CLOSED]) end) = (s', outs) -> SInv s').
      { intros k G. destruct (kget k (sv_ctxs s)) as [cx|] eqn:GE; inversion G; subst; [|exact HI].
        apply sinv_kset; auto. exact (HC _ _ (kget_in _ _ _ GE)). }
      destruct c; apply (G _ St).
  - (* PCtxOpen *) inversion St; subst. apply sinv_kset; auto. split; cbn; [auto|contradiction].
  - (* PCtxClose *)
    destruct (kget (ckey (Some c)) (sv_ctxs s)); inversion St; subst; [|exact HI].
    split; cbn [sv_ctxs set_ctxs]; [now apply nodup_kdel|]. intros k c' Hin. apply in_kdel in Hin as [_ Hin]. eauto.
  - (* PSockClose *)
    destruct (kget 0%N (sv_ctxs s)) as [cx|]; inversion St; subst; [|exact HI].
    pose proof (sinv_kset s 0%N _ HI (cinv_zero cx)) as [A B]. split; exact A || exact B.
  - (* PTick *)
    pose proof (expire_ctxs_keys now (sv_ctxs s)) as K. pose proof (fun k c' => expire_ctxs_in now (sv_ctxs s) k c') as I.
    destruct (expire_ctxs now (sv_ctxs s)) as [cs o]. cbn [fst] in *. inversion St; subst. split; cbn [sv_ctxs].
    + now rewrite K.
    + intros k c' Hin. destruct (I k c' Hin) as (c0 & A & [->|[B ->]]); eauto. apply cinv_retire; eauto.
Qed.

Lemma surv_init_inv : SInv surv_init.
Proof.
  split; cbn; [constructor; [tauto|constructor]|]. intros k c [H|[]]. inversion H; subst. split; cbn; [auto|contradiction].
Qed.

(* ================================================================ only the current survey's responses reach the application *)
Definition no_msg (outs : list pout) : Prop := forall a rv m, ~ In (Complete a rv (Some m)) outs.
Lemma no_msg_app a b : no_msg a -> no_msg b -> no_msg (a ++ b).
Proof. intros A B x rv m H. apply in_app_or in H as [H|H]; [eapply A|eapply B]; eauto. Qed.
Lemma no_msg_fail rv l : no_msg (fail_aios rv l).
Proof. intros a r m H. unfold fail_aios in H. apply in_map_iff in H as (y & E & _). discriminate. Qed.
Lemma no_msg_free l : no_msg (map Free l).
Proof. intros a r m H. apply in_map_iff in H as (y & E & _). discriminate. Qed.
Lemma no_msg_nil : no_msg []. Proof. intros a r m []. Qed.
Lemma no_msg_fanout m0 l : no_msg (snd (fanout m0 l)).
Proof. intros a r m H. eapply fanout_no_complete; eauto. Qed.
Lemma no_msg_cancel a rv l : no_msg (snd (cancel_ctxs a rv l)).
Proof.
  induction l as [|[k c] l IH]; cbn [cancel_ctxs]; [apply no_msg_nil|]. destruct (has_id a (sc_rq c)); cbn [snd].
  - intros x r m [H|[]]. discriminate.
  - destruct (cancel_ctxs a rv l). exact IH.
Qed.
Lemma no_msg_expire now l : no_msg (snd (expire_ctxs now l)).
Proof. intros a r m H. apply expire_ctxs_only_timeouts in H as (_ & H & _). discriminate. Qed.
Ltac nm := repeat first [apply no_msg_app | apply no_msg_fail | apply no_msg_free | apply no_msg_nil
                        | (intros ? ? ? [X|[]]; discriminate) | (intros ? ? ? [X|[X|[]]]; discriminate) ].

Lemma surv_setopt_outs fx s c op s' outs : surv_step fx s (PSetOpt c op) = (s', outs) -> exists rv, outs = [OptRv rv].
Proof.
  cbn [surv_step]. destruct op; destruct c as [c|]; cbn [ckey];
    repeat match goal with
           | |- context [if ?b then _ else _] => destruct b
           | |- context [match kget ?k ?l with _ => _ end] => destruct (kget k l)
           end; intros H; inversion H; eauto.
Qed.

(* whatever the step, a message handed to the application (a) carries the current, live survey id of the
   context that receives it, and (b) goes either to the receive being posted on that context -- then the
   deadline has not passed -- or to that context's oldest pending receive *)
Theorem surv_delivery_only_current fx s o s' outs a m :
  SInv s -> surv_op_ok o -> surv_step fx s o = (s', outs) -> In (Complete a E_OK (Some m)) outs ->
  exists k c, kget k (sv_ctxs s) = Some c /\ sc_survey c <> 0%N /\ hdr_id (pm_hdr m) = sc_survey c /\
    ((exists cc nb, o = PRecv cc a nb /\ ckey cc = k /\ (Z.of_N (sv_now s) < sc_expire c)%Z) \/
     (exists r p rv w, sc_rq c = a :: r /\ o = PRecvDone p rv w)).
Proof.
  intros HI Hok St Hin. pose proof HI as [ND HC].
  assert (NM: forall l, no_msg l -> outs = l -> False) by (intros l H ->; eapply H; eauto).
  destruct o as [c a0 nb m0|c a0 nb|a0 rv|p peer|p|p rv|p rv m0|c op|c|c| |now]; cbn [surv_step] in St.
  - exfalso. destruct (kget (ckey c) (sv_ctxs s)) as [cx|]; [|inversion St; subst; eapply NM; [|reflexivity]; nm].
    cbn [ctx_abort] in St. destruct (id_alloc _ _ _) as [[id cur']|].
    + pose proof (no_msg_fanout (mkPmsg (be32 id) (pm_body m0)) (sv_pipes s)) as F.
      destruct (fanout _ _) as [pipes' tx]. cbn [snd] in F. inversion St; subst. eapply NM; [|reflexivity]. nm. exact F.
    + inversion St; subst. eapply NM; [|reflexivity]. nm.
  - destruct (kget (ckey c) (sv_ctxs s)) as [cx|] eqn:G; [|exfalso; inversion St; subst; eapply NM; [|reflexivity]; nm].
    destruct (N.eqb_spec (sc_survey cx) 0) as [|NZ]; cbn [orb] in St; [exfalso; inversion St; subst; eapply NM; [|reflexivity]; nm|].
    destruct (sc_expire cx <=? Z.of_N (sv_now s))%Z eqn:EX; [exfalso; inversion St; subst; eapply NM; [|reflexivity]; nm|].
    destruct (sc_lmq cx) as [|m1 r] eqn:L.
    + exfalso. destruct (nb && fx); inversion St; subst; eapply NM; try reflexivity; nm.
    + assert (O: outs = [Complete a0 E_OK (Some m1)]) by (destruct (isnil r && (ckey c =? 0)%N); inversion St; auto).
      subst outs. destruct Hin as [X|[]]. inversion X; subst.
      pose proof (HC _ _ (kget_in _ _ _ G)) as [_ CB]. destruct (CB m ltac:(rewrite L; now left)) as [B1 B2].
      exists (ckey c), cx. repeat split; auto. left. exists c, nb. repeat split; auto. apply Z.leb_gt in EX. lia.
  - exfalso. pose proof (no_msg_cancel a0 rv (sv_ctxs s)) as F. destruct (cancel_ctxs a0 rv (sv_ctxs s)). inversion St; subst. eapply NM; eauto.
  - exfalso. destruct (negb _); inversion St; subst; eapply NM; try reflexivity; nm.
  - exfalso. destruct (kget p (sv_pipes s)); inversion St; subst; eapply NM; try reflexivity; nm.
  - exfalso. destruct (kget p (sv_pipes s)) as [x|]; [|inversion St; subst; eapply NM; try reflexivity; nm].
    destruct (negb _); [inversion St; subst; eapply NM; try reflexivity; nm|].
    destruct (sp_closed x); [inversion St; subst; eapply NM; try reflexivity; nm|].
    destruct (sp_q x); inversion St; subst; eapply NM; try reflexivity; nm.
  - destruct (N.eqb_spec rv 0) as [->|]; cbn [negb] in St; [|exfalso; inversion St; subst; eapply NM; try reflexivity; nm].
    cbn in Hok. specialize (Hok eq_refl).
    destruct (surv_recv (pm_body m0)) as [[[id h] b]|] eqn:SR; [|exfalso; inversion St; subst; eapply NM; try reflexivity; nm].
    destruct (find_owner id (sv_ctxs s)) as [[k c]|] eqn:FO; [|exfalso; inversion St; subst; eapply NM; try reflexivity; nm].
    destruct (find_owner_some _ _ _ _ FO) as (E1 & E2 & E3).
    destruct (_ <=? _); [exfalso; inversion St; subst; eapply NM; try reflexivity; nm|].
    destruct (sc_rq c) as [|a1 r] eqn:RQ.
    + exfalso. destruct (k =? 0)%N; inversion St; subst; eapply NM; try reflexivity; nm.
    + inversion St; subst. destruct Hin as [X|[X|[]]]; [|discriminate]. inversion X; subst.
      exists k, c. split; [now apply in_kget|]. split; [congruence|]. split.
      * cbn [pm_hdr]. rewrite Hok. cbn [app].
        destruct (pm_body m0) as [|b0 [|b1 [|b2 [|b3 rest]]]]; cbn in SR; try discriminate. inversion SR; subst. reflexivity.
      * right. exists r, p, 0%N, m0. auto.
  - exfalso. destruct (surv_setopt_outs fx s c op s' outs St) as [rv0 ->]. destruct Hin as [X|[]]. discriminate.
  - exfalso. inversion St; subst. eapply NM; try reflexivity; nm.
  - exfalso. destruct (kget (ckey (Some c)) (sv_ctxs s)); inversion St; subst; eapply NM; try reflexivity; nm.
  - exfalso. destruct (kget 0%N (sv_ctxs s)); inversion St; subst; eapply NM; try reflexivity; nm.
  - exfalso. pose proof (no_msg_expire now (sv_ctxs s)) as F. destruct (expire_ctxs now (sv_ctxs s)). inversion St; subst. eapply NM; eauto.
Qed.

(* ================================================================ late responses *)
(* a context is past its deadline with nothing pending: its survey is over as far as the application goes *)
Definition dead_ctx (s : surv) (k : N) : Prop :=
  forall c, kget k (sv_ctxs s) = Some c -> sc_rq c = [] /\ (sc_expire c <= Z.of_N (sv_now s))%Z.
Definition time_ok (s : surv) (o : pop) : Prop := match o with PTick now => (sv_now s <= now)%N | _ => True end.
Definition is_send_on (k : N) (o : pop) : Prop := exists c a nb m, o = PSend c a nb m /\ ckey c = k.
Definition is_open_of (k : N) (o : pop) : Prop := exists c, o = PCtxOpen c /\ ckey (Some c) = k.

(* ... it stays over until the application sends a new survey on that context, whatever arrives ... *)
Theorem surv_dead_stable fx s o s' outs k :
  SInv s -> dead_ctx s k -> time_ok s o -> ~ is_send_on k o -> ~ is_open_of k o ->
  surv_step fx s o = (s', outs) -> dead_ctx s' k.
Proof.
  intros HI HD HT NS NO St. pose proof HI as [ND HC]. unfold dead_ctx in *.
  destruct o as [c a0 nb m0|c a0 nb|a0 rv|p peer|p|p rv|p rv m0|c op|c|c| |now]; cbn [surv_step] in St.
  - destruct (kget (ckey c) (sv_ctxs s)) as [cx|] eqn:G; [|inversion St; subst; exact HD]. cbn [ctx_abort] in St.
    assert (NK: ckey c <> k) by (intros E; apply NS; exists c, a0, nb, m0; auto).
    destruct (id_alloc _ _ _) as [[id cur']|].
    + destruct (fanout _ _) as [pipes' tx]. inversion St; subst. cbn [sv_ctxs sv_now]. intros c0 G0.
      rewrite !kget_kset_neq in G0 by auto. auto.
    + inversion St; subst. cbn [sv_ctxs sv_now set_ctxs set_readable]. intros c0 G0. rewrite kget_kset_neq in G0 by auto. auto.
  - destruct (kget (ckey c) (sv_ctxs s)) as [cx|] eqn:G; [|inversion St; subst; exact HD].
    destruct (N.eqb_spec (ckey c) k) as [E|NE].
    + subst k. destruct (HD _ G) as [D1 D2]. apply Z.leb_le in D2. rewrite D2, orb_true_r in St. inversion St; subst. exact HD.
    + destruct (_ || _); [inversion St; subst; exact HD|].
      destruct (sc_lmq cx).
      * destruct (nb && fx); inversion St; subst; [exact HD|]. cbn [sv_ctxs sv_now set_ctxs]. intros c0 G0. rewrite kget_kset_neq in G0 by auto. auto.
      * assert (forall s1, s1 = set_ctxs s (kset (ckey c) (mkSctx (sc_survey cx) l (sc_rq cx) (sc_stime cx) (sc_expire cx)) (sv_ctxs s)) ->
                 forall c0, kget k (sv_ctxs s1) = Some c0 -> sc_rq c0 = [] /\ (sc_expire c0 <= Z.of_N (sv_now s1))%Z) as R.
        { intros s1 -> c0 G0. cbn [sv_ctxs sv_now set_ctxs] in *. rewrite kget_kset_neq in G0 by auto. auto. }
        destruct (isnil l && (ckey c =? 0)%N); inversion St; subst; cbn [sv_ctxs sv_now set_readable]; eapply R; reflexivity.
  - pose proof (fun k c' => cancel_ctxs_in a0 rv (sv_ctxs s) k c') as I. pose proof (cancel_ctxs_keys a0 rv (sv_ctxs s)) as K.
    destruct (cancel_ctxs a0 rv (sv_ctxs s)) as [cs o]. cbn [fst] in *. inversion St; subst. cbn [sv_ctxs sv_now set_ctxs].
    intros c0 G0. apply kget_in in G0. destruct (I _ _ G0) as (c1 & A & [->|[B ->]]).
    + apply HD. now apply in_kget.
    + exfalso. apply B. apply (HD c1). now apply in_kget.
  - destruct (negb _); inversion St; subst; exact HD.
  - destruct (kget p (sv_pipes s)); inversion St; subst; exact HD.
  - destruct (kget p (sv_pipes s)) as [x|]; [|inversion St; subst; exact HD].
    destruct (negb _); [inversion St; subst; exact HD|]. destruct (sp_closed x); [inversion St; subst; exact HD|].
    destruct (sp_q x); inversion St; subst; exact HD.
  - destruct (negb _); [inversion St; subst; exact HD|].
    destruct (surv_recv (pm_body m0)) as [[[id h] b]|]; [|inversion St; subst; exact HD].
    destruct (find_owner id (sv_ctxs s)) as [[k1 c1]|] eqn:FO; [|inversion St; subst; exact HD].
    destruct (find_owner_some _ _ _ _ FO) as (E1 & E2 & E3). pose proof (in_kget _ _ _ ND E3) as G1.
    destruct (_ <=? _); [inversion St; subst; exact HD|].
    destruct (N.eqb_spec k1 k) as [E|NE].
    + subst k1. destruct (HD _ G1) as [D1 D2]. rewrite D1 in St.
      assert (forall s1, s1 = set_ctxs s (kset k (mkSctx (sc_survey c1) (sc_lmq c1 ++ [mkPmsg (pm_hdr m0 ++ h) b]) [] (sc_stime c1) (sc_expire c1)) (sv_ctxs s)) ->
                 forall c0, kget k (sv_ctxs s1) = Some c0 -> sc_rq c0 = [] /\ (sc_expire c0 <= Z.of_N (sv_now s1))%Z) as R.
      { intros s1 -> c0 G0. cbn [sv_ctxs sv_now set_ctxs] in *. rewrite kget_kset_eq in G0. inversion G0; subst. cbn. auto. }
      destruct (k =? 0)%N; inversion St; subst; cbn [sv_ctxs sv_now set_readable]; eapply R; reflexivity.
    + assert (forall cx', forall s1, s1 = set_ctxs s (kset k1 cx' (sv_ctxs s)) ->
                 forall c0, kget k (sv_ctxs s1) = Some c0 -> sc_rq c0 = [] /\ (sc_expire c0 <= Z.of_N (sv_now s1))%Z) as R.
      { intros cx' s1 -> c0 G0. cbn [sv_ctxs sv_now set_ctxs] in *. rewrite kget_kset_neq in G0 by auto. auto. }
      destruct (sc_rq c1); [destruct (k1 =? 0)%N|]; inversion St; subst; cbn [sv_ctxs sv_now set_readable]; eapply R; reflexivity.
  - destruct op; try (destruct c; inversion St; subst; exact HD).
    + destruct c; [inversion St; subst; exact HD|]. destruct (_ <? _)%N; inversion St; subst; exact HD.
    + destruct c; [inversion St; subst; exact HD|]. destruct (_ <? _)%N; inversion St; subst; exact HD.
    + destruct c; [inversion St; subst; exact HD|]. destruct (_ && _); inversion St; subst; exact HD.
    + destruct (ms <? -1)%Z; [destruct c; inversion St; subst; exact HD|].
      assert (G: forall k1, (match kget k1 (sv_ctxs s) with
                | Some cx => (set_ctxs s (kset k1 (mkSctx (sc_survey cx) (sc_lmq cx) (sc_rq cx) ms (sc_expire cx)) (sv_ctxs s)), [OptRv E_OK])
                | None => (s, [OptRv E_CLOSED]) end) = (s', outs) ->
                forall c0, kget k (sv_ctxs s') = Some c0 -> sc_rq c0 = [] /\ (sc_expire c0 <= Z.of_N (sv_now s'))%Z).
      { intros k1 G. destruct (kget k1 (sv_ctxs s)) as [cx|] eqn:GE; inversion G; subst; [|exact HD].
        cbn [sv_ctxs sv_now set_ctxs]. intros c0 G0. destruct (N.eqb_spec k1 k).
        - subst. rewrite kget_kset_eq in G0. inversion G0; subst. cbn. auto.
        - rewrite kget_kset_neq in G0 by auto. auto. }
      destruct c; apply (G _ St).
  - inversion St; subst. cbn [sv_ctxs sv_now set_ctxs]. intros c0 G0.
    rewrite kget_kset_neq in G0; [auto|]. intros E. apply NO. exists c. auto.
  - destruct (kget (ckey (Some c)) (sv_ctxs s)); inversion St; subst; [|exact HD]. cbn [sv_ctxs sv_now set_ctxs].
    intros c0 G0. apply kget_in in G0. apply in_kdel in G0 as [_ G0]. apply HD. now apply in_kget.
  - destruct (kget 0%N (sv_ctxs s)) as [cx|] eqn:G0; inversion St; subst; [|exact HD]. cbn [sv_ctxs sv_now set_ctxs set_readable].
    intros c0 G1. destruct (N.eqb_spec 0 k).
    + subst. rewrite kget_kset_eq in G1. inversion G1; subst. cbn. split; [auto|]. apply (HD _ G0).
    + rewrite kget_kset_neq in G1 by auto. auto.
  - pose proof (fun k c' => expire_ctxs_in now (sv_ctxs s) k c') as I.
    destruct (expire_ctxs now (sv_ctxs s)) as [cs o]. cbn [fst] in *. inversion St; subst. cbn [sv_ctxs sv_now].
    cbn in HT. intros c0 G0. apply kget_in in G0. destruct (I _ _ G0) as (c1 & A & [->|[B ->]]).
    + destruct (HD c1 (in_kget _ _ _ ND A)). split; [auto|lia].
    + exfalso. apply B. apply (HD c1). now apply in_kget.
Qed.

(* ... and in that state no step hands that context a message (a receive answers NNG_ESTATE; a response
   with its id is at most queued) *)
Theorem surv_dead_no_delivery fx s o s' outs k a m :
  SInv s -> surv_op_ok o -> dead_ctx s k -> surv_step fx s o = (s', outs) ->
  In (Complete a E_OK (Some m)) outs ->
  forall c, kget k (sv_ctxs s) = Some c ->
    ~ In a (sc_rq c) /\ (forall cc nb, o = PRecv cc a nb -> ckey cc <> k).
Proof.
  intros HI Hok HD St Hin c G. destruct (HD _ G) as [D1 D2]. split; [rewrite D1; tauto|].
  intros cc nb -> E. subst k.
  destruct (surv_delivery_only_current _ _ _ _ _ _ _ HI Hok St Hin) as (k' & c' & G' & _ & _ & [(cc' & nb' & X & Y & Z)|(r & p & rv & w & _ & X)]); [|discriminate].
  inversion X; subst. rewrite G in G'. inversion G'; subst. lia.
Qed.

(* histories *)
Fixpoint surv_run (fx : bool) (s : surv) (ops : list pop) : surv * list (pop * surv * list pout) :=
  match ops with
  | [] => (s, [])
  | o :: r => let (s1, outs) := surv_step fx s o in let (s2, tr) := surv_run fx s1 r in (s2, (o, s, outs) :: tr)
  end.
Fixpoint surv_ops_ok (fx : bool) (s : surv) (k : N) (ops : list pop) : Prop :=
  match ops with
  | [] => True
  | o :: r => surv_op_ok o /\ time_ok s o /\ ~ is_send_on k o /\ ~ is_open_of k o /\ surv_ops_ok fx (fst (surv_step fx s o)) k r
  end.

(* once a survey's deadline has passed with no receive pending (in particular after the expiry event
   completed the pending ones), no history without a new survey on that context delivers anything to it:
   late responses, however many and whatever their ids, are never handed to the application *)
Theorem surv_late_never_delivered fx ops : forall s k,
  SInv s -> dead_ctx s k -> surv_ops_ok fx s k ops ->
  forall o s1 outs a m, In (o, s1, outs) (snd (surv_run fx s ops)) -> In (Complete a E_OK (Some m)) outs ->
  forall c, kget k (sv_ctxs s1) = Some c -> ~ In a (sc_rq c) /\ (forall cc nb, o = PRecv cc a nb -> ckey cc <> k).
Proof.
  induction ops as [|o r IH]; intros s k HI HD Hok o1 s1 outs a m Hin.
  { cbn in Hin. contradiction. }
  cbn [surv_run] in Hin.
  cbn [surv_ops_ok] in Hok. destruct Hok as (O1 & O2 & O3 & O4 & O5).
  destruct (surv_step fx s o) as [s2 outs2] eqn:St. cbn [fst] in O5.
  destruct (surv_run fx s2 r) as [s3 tr] eqn:R. cbn [snd] in Hin. destruct Hin as [X|X].
  - inversion X; subst. intros Hc c G. exact (surv_dead_no_delivery fx s1 o1 s2 outs k a m HI O1 HD St Hc c G).
  - assert (HI2: SInv s2) by (eapply surv_step_inv; eauto).
    assert (HD2: dead_ctx s2 k) by exact (surv_dead_stable fx s o s2 outs2 k HI HD O2 O3 O4 St).
    specialize (IH s2 k HI2 HD2 O5 o1 s1 outs a m). rewrite R in IH. cbn [snd] in IH. exact (IH X).
Qed.

(* ================================================================ fan-out *)
(* a survey is offered to every pipe on s->pipes exactly once, in list order: an idle pipe gets it at
   once (and becomes busy), a busy pipe with room queues it, a busy pipe whose queue is full does not
   get it (the drop rule as coded); closed pipes are skipped; nothing else is transmitted *)
Definition offer (m : pmsg) (x : spipe) : spipe :=
  if sp_closed x then x
  else if negb (sp_busy x) then mkSpipe (sp_q x) true [m] false
  else if length (sp_q x) <? SURV_SEND_BUF then mkSpipe (sp_q x ++ [m]) true (sp_held x) false
  else x.
Theorem surv_fanout_each_pipe_once m l :
  fst (fanout m l) = map (fun px => (fst px, offer m (snd px))) l /\
  snd (fanout m l) = map (fun px => TranSend (fst px) m) (filter (fun px => negb (sp_closed (snd px)) && negb (sp_busy (snd px))) l).
Proof.
  induction l as [|[p x] l [IH1 IH2]]; cbn [fanout map filter fst snd]; [auto|].
  destruct (fanout m l) as [r o]. cbn [fst snd] in *. subst. unfold offer.
  destruct (sp_closed x); cbn [negb andb fst snd]; [auto|].
  destruct (sp_busy x); cbn [negb andb fst snd map]; [|auto].
  destruct (length (sp_q x) <? SURV_SEND_BUF); cbn [fst snd]; auto.
Qed.

(* ================================================================ non-blocking receive *)
Definition surv_recv_would_wait (s : surv) (c : option ctxid) : bool :=
  match get_ctx s c with
  | Some cx => negb (N.eqb (sc_survey cx) 0 || (sc_expire cx <=? Z.of_N (sv_now s))%Z) && isnil (sc_lmq cx)
  | None => false
  end.
(* with the repair: completes in the same step, never queues the aio; EAGAIN exactly when the blocking form
   would have been queued, and then nothing changes *)
Theorem surv_nb_recv_immediate s c a s' outs :
  surv_step true s (PRecv c a true) = (s', outs) ->
  exists rv x, outs = [Complete a rv x] /\
    (rv = E_AGAIN <-> surv_recv_would_wait s c = true) /\ (rv = E_AGAIN -> s' = s /\ x = None) /\
    (forall k cx', In (k, cx') (sv_ctxs s') -> exists k0 cx, In (k0, cx) (sv_ctxs s) /\ sc_rq cx' = sc_rq cx).
Proof.
  intros St. cbn [surv_step] in St. unfold surv_recv_would_wait, get_ctx.
  destruct (kget (ckey c) (sv_ctxs s)) as [cx|] eqn:G.
  - destruct (_ || _) eqn:D; cbn [negb andb].
    + inversion St; subst. exists E_STATE, None. repeat split; try discriminate. intros k cx' H. eauto.
    + destruct (sc_lmq cx) as [|m r] eqn:L; cbn [isnil andb] in *.
      * inversion St; subst. exists E_AGAIN, None. repeat split; auto. intros k cx' H. eauto.
      * assert (O: outs = [Complete a E_OK (Some m)] /\ sv_ctxs s' = kset (ckey c) (mkSctx (sc_survey cx) r (sc_rq cx) (sc_stime cx) (sc_expire cx)) (sv_ctxs s)).
        { destruct (isnil r && (ckey c =? 0)%N); inversion St; subst; auto. }
        destruct O as [-> O2]. exists E_OK, (Some m). repeat split; try discriminate.
        intros k cx' H. rewrite O2 in H. apply in_kset_weak in H as [->|H]; [|eauto].
        exists (ckey c), cx. split; [now apply kget_in|reflexivity].
  - inversion St; subst. exists E_CLOSED, None. repeat split; try discriminate. intros k cx' H. eauto.
Qed.
(* the pinned source (clamp test `timeout < 1`): a NONBLOCK receive with a live survey and no response is
   queued like a blocking one -- no completion in the step *)
Theorem surv_nb_recv_immediate_refuted :
  exists s a, snd (surv_step false s (PRecv None a true)) = [Arm 1000%N] /\
              exists cx, kget 0%N (sv_ctxs (fst (surv_step false s (PRecv None a true)))) = Some cx /\ sc_rq cx = [a].
Proof.
  exists (fst (surv_step false surv_init (PSend None 1%N false (mkPmsg [] [7%N])))), 2%N.
  split; [vm_compute; reflexivity|]. eexists. split; vm_compute; reflexivity.
Qed.

(* ================================================================ a receive's own timeout (or any cancel) *)
(* surv0_ctx_cancel: the receive completes with the given error (NNG_ETIMEDOUT when its own timeout ends before
   the survey's deadline, NNG_ECANCELED for nng_aio_cancel), nothing is delivered, and -- as coded -- the
   survey is retired *)
Lemma cancel_ctxs_hit a rv l k c :
  kget k l = Some c -> In a (sc_rq c) -> (forall k' c', In (k', c') l -> In a (sc_rq c') -> k' = k) ->
  snd (cancel_ctxs a rv l) = [Complete a rv None] /\
  kget k (fst (cancel_ctxs a rv l)) = Some (mkSctx 0 (sc_lmq c) (remove_id a (sc_rq c)) (sc_stime c) (sc_expire c)).
Proof.
  induction l as [|[k0 c0] l IH]; cbn [kget cancel_ctxs]; [discriminate|]. intros G Ha U.
  destruct (has_id a (sc_rq c0)) eqn:HA.
  - assert (k0 = k) by (apply (U k0 c0); [now left|now apply has_id_in]). subst. rewrite N.eqb_refl in G. inversion G; subst.
    cbn [fst snd kget]. now rewrite N.eqb_refl.
  - destruct (N.eqb_spec k0 k).
    + inversion G; subst. apply has_id_in in Ha. congruence.
    + destruct (IH G Ha) as [A B]; [intros k' c' Hin; apply U; now right|].
      destruct (cancel_ctxs a rv l) as [r o]. cbn [fst snd kget] in *. destruct (N.eqb_spec k0 k); [contradiction|]. auto.
Qed.
Theorem surv_recv_cancel_retires fx s a rv k c s' outs :
  kget k (sv_ctxs s) = Some c -> In a (sc_rq c) ->
  (forall k' c', In (k', c') (sv_ctxs s) -> In a (sc_rq c') -> k' = k) ->
  surv_step fx s (PCancel a rv) = (s', outs) ->
  outs = [Complete a rv None] /\
  exists c', kget k (sv_ctxs s') = Some c' /\ sc_survey c' = 0%N /\ sc_rq c' = remove_id a (sc_rq c) /\ sc_lmq c' = sc_lmq c.
Proof.
  intros G Ha U St. cbn [surv_step] in St. destruct (cancel_ctxs_hit a rv _ _ _ G Ha U) as [A B].
  destruct (cancel_ctxs a rv (sv_ctxs s)) as [cs o]. cbn [fst snd] in *. inversion St; subst. split; [reflexivity|].
  eexists. split; [exact B|]. cbn. auto.
Qed.
