(* SurveyProofs: lemmas about SurveyBacktrace (section "backtrace", used by C13
   too) and about SurveyModel (cooked SURVEYOR): invariant, id freshness, only the
   current survey's responses are delivered, new survey aborts the old one, ESTATE,
   timeout at the deadline, late responses, fan-out, non-blocking receive,
   descriptor mirror, conservation. *)
From Coq Require Import List Arith NArith Bool ZArith Lia.
From NngV Require Import Proto.Common Proto.SurveyBacktrace Proto.SurveyModel Proto.PushProofs.
Import ListNotations.

(* ================================================================ backtrace *)
Section Backtrace.

Lemma hdr_room_spec h : hdr_room h = true <-> length h + 4 <= HDR_MAX.
Proof. unfold hdr_room. apply Nat.leb_le. Qed.

(* bytes are neither created nor lost; the header stays within the buffer; at most n words are moved *)
Lemma bt_move_deliver n : forall hdr body h b,
  bt_move n hdr body = BtDeliver h b ->
  h ++ b = hdr ++ body /\ length h <= HDR_MAX /\ length hdr < length h /\ length h <= length hdr + 4 * n.
Proof.
  induction n as [|n IH]; intros hdr body h b H; cbn [bt_move] in H; [discriminate|].
  destruct body as [|b0 [|b1 [|b2 [|b3 rest]]]]; try discriminate.
  destruct (hdr_room hdr) eqn:R; [|discriminate]. apply hdr_room_spec in R.
  destruct (is_end b0).
  - inversion H; subst. rewrite <- app_assoc. cbn. rewrite app_length. cbn. repeat split; auto; lia.
  - apply IH in H as (A & B & C & D). rewrite <- app_assoc in A. cbn in A. rewrite app_length in C, D. cbn in C, D.
    repeat split; auto; lia.
Qed.

(* the result is always one of the three outcomes and the header never exceeds the buffer: totality is by
   construction (bt_move is a total function); this is the bound *)
Theorem bt_move_header_bounded n hdr body :
  match bt_move n hdr body with BtDeliver h _ => length h <= HDR_MAX | _ => True end.
Proof. destruct (bt_move n hdr body) eqn:E; auto. apply bt_move_deliver in E. tauto. Qed.

(* the words of a backtrace *)
Definition word := (N * N * N * N)%type.
Definition wbytes (w : word) : list N := let '(a, b, c, d) := w in [a; b; c; d].
Definition flat (ws : list word) : list N := concat (map wbytes ws).
Definition wfirst (w : word) : N := let '(a, _, _, _) := w in a.
Lemma flat_length ws : length (flat ws) = 4 * length ws.
Proof. induction ws as [|[[[a b] c] d] ws IH]; cbn; auto. unfold flat in IH. rewrite IH. lia. Qed.

(* k hop words without the end bit followed by a word with it: delivered iff k + 1 <= n (hops <= ttl),
   with exactly those k + 1 words moved; otherwise dropped.  Needs room in the header, which a header
   that starts with at most one word always has for n <= 15 (lemma bt_room below). *)
Theorem bt_move_terminated : forall ws n hdr wend rest,
  Forall (fun w => is_end (wfirst w) = false) ws -> is_end (wfirst wend) = true ->
  length hdr + 4 * (length ws + 1) <= HDR_MAX ->
  bt_move n hdr (flat ws ++ wbytes wend ++ rest) =
    if length ws <? n then BtDeliver (hdr ++ flat ws ++ wbytes wend) rest else BtDrop.
Proof.
  induction ws as [|[[[a b] c] d] ws IH]; intros n hdr [[[ea eb] ec] ed] rest Hw He Hr.
  - cbn [flat map concat app length]. destruct n; cbn [bt_move Nat.ltb Nat.leb]; [reflexivity|].
    cbn [wbytes app]. cbn in He. assert (R: hdr_room hdr = true) by (apply hdr_room_spec; cbn in Hr; lia).
    rewrite R, He. reflexivity.
  - inversion Hw; subst. cbn in H1. destruct n.
    + cbn. reflexivity.
    + change (flat ((a, b, c, d) :: ws)) with ([a; b; c; d] ++ flat ws). rewrite <- !app_assoc. cbn [app bt_move].
      assert (R: hdr_room hdr = true) by (apply hdr_room_spec; cbn in Hr; lia).
      rewrite R, H1. rewrite (IH n (hdr ++ [a; b; c; d]) (ea, eb, ec, ed) rest H2 He).
      * cbn [length]. change (S (length ws) <? S n) with (length ws <? n).
        destruct (length ws <? n); [|reflexivity]. rewrite <- !app_assoc. reflexivity.
      * rewrite app_length. cbn in *. lia.
Qed.

(* k words without the end bit and then fewer than 4 bytes: the peer is disconnected if the hop limit
   has not been reached, otherwise the message is dropped *)
Theorem bt_move_unterminated : forall ws n hdr (tl : list N),
  Forall (fun w => is_end (wfirst w) = false) ws -> length tl < 4 ->
  length hdr + 4 * length ws <= HDR_MAX ->
  bt_move n hdr (flat ws ++ tl) = if length ws <? n then BtClose else BtDrop.
Proof.
  induction ws as [|[[[a b] c] d] ws IH]; intros n hdr tl Hw Ht Hr.
  - cbn [flat map concat app length]. destruct n; cbn [bt_move Nat.ltb Nat.leb]; [reflexivity|].
    destruct tl as [|t0 [|t1 [|t2 [|t3 r]]]]; cbn in Ht; try lia; reflexivity.
  - inversion Hw; subst. cbn in H1. destruct n; [reflexivity|].
    change (flat ((a, b, c, d) :: ws)) with ([a; b; c; d] ++ flat ws). rewrite <- !app_assoc. cbn [app bt_move].
    assert (R: hdr_room hdr = true) by (apply hdr_room_spec; cbn in Hr; lia).
    rewrite R, H1. rewrite (IH n (hdr ++ [a; b; c; d]) tl H2 Ht).
    + reflexivity.
    + rewrite app_length. cbn in *. lia.
Qed.

(* with ttl <= TTL_MAX the header (empty, or holding the pipe id) never fills up: the "header full => drop"
   branch of the respondents is dead code *)
Lemma bt_room (hdr : list N) n k : length hdr <= 4 -> n <= TTL_MAX -> k < n -> length hdr + 4 * (k + 1) <= HDR_MAX.
Proof. unfold TTL_MAX, HDR_MAX. lia. Qed.

(* be32 / word32 *)
Lemma word32_be32 v : (v < 4294967296)%N ->
  match be32 v with [a; b; c; d] => word32 a b c d = v | _ => False end.
Proof.
  intros H. unfold be32, word32.
  replace (v / 65536)%N with (v / 256 / 256)%N by (rewrite N.div_div by lia; reflexivity).
  replace (v / 16777216)%N with (v / 256 / 256 / 256)%N by (rewrite !N.div_div by lia; reflexivity).
  pose proof (N.div_mod v 256 ltac:(lia)) as D0.
  pose proof (N.div_mod (v / 256) 256 ltac:(lia)) as D1.
  pose proof (N.div_mod (v / 256 / 256) 256 ltac:(lia)) as D2.
  pose proof (N.mod_lt v 256 ltac:(lia)).
  pose proof (N.mod_lt (v / 256) 256 ltac:(lia)).
  pose proof (N.mod_lt (v / 256 / 256) 256 ltac:(lia)).
  assert (E: ((v / 256 / 256 / 256) mod 256 = v / 256 / 256 / 256)%N).
  { apply N.mod_small. repeat (apply N.div_lt_upper_bound; [lia|]). lia. }
  rewrite E. lia.
Qed.
Lemma be32_length v : length (be32 v) = 4. Proof. reflexivity. Qed.

(* the raw respondent stores the pipe id first and the raw respondent's send pops exactly that word:
   what xresp0_recv_cb passes up routes back to the pipe it came from, with the peer's backtrace as header *)
Lemma bt_move_prefix p : forall n hdr0 body h b,
  bt_move n (be32 p ++ hdr0) body = BtDeliver h b ->
  exists bt, h = be32 p ++ bt /\ bt_move n hdr0 body = BtDeliver bt b.
Proof.
  induction n as [|n IH]; intros hdr0 body h0 b0 E; cbn [bt_move] in E; [discriminate|].
  destruct body as [|x0 [|x1 [|x2 [|x3 rest]]]]; try discriminate.
  destruct (hdr_room (be32 p ++ hdr0)) eqn:R; [|discriminate].
  apply hdr_room_spec in R. rewrite app_length, be32_length in R.
  cbn [bt_move]. destruct (hdr_room hdr0) eqn:R0.
  2:{ apply Bool.not_true_iff_false in R0. exfalso. apply R0. apply hdr_room_spec. lia. }
  destruct (is_end x0).
  - inversion E; subst. exists (hdr0 ++ [x0; x1; x2; x3]). rewrite app_assoc. auto.
  - rewrite <- app_assoc in E. apply IH in E. exact E.
Qed.

Theorem xresp_roundtrip p ttl wire h b :
  (p < 4294967296)%N -> xresp_recv p ttl wire = BtDeliver h b ->
  exists bt, h = be32 p ++ bt /\ xresp_send h = Some (p, bt) /\ bt ++ b = wire /\ resp_recv ttl wire = BtDeliver bt b.
Proof.
  intros Hp H. unfold xresp_recv, resp_recv in *.
  destruct (bt_move_prefix p ttl [] wire h b) as [bt [A B]]; [rewrite app_nil_r; exact H|].
  exists bt. split; [exact A|]. split.
  - subst h. pose proof (word32_be32 p Hp) as W. unfold be32 in *. cbn [app xresp_send]. rewrite W. reflexivity.
  - split; [|exact B]. apply bt_move_deliver in B. cbn in B. tauto.
Qed.

(* raw surveyor: at most a full header of words; anything else disconnects the peer *)
Lemma xsurv_move_deliver f : forall hdr body h b,
  xsurv_move f hdr body = BtDeliver h b -> h ++ b = hdr ++ body /\ length h <= HDR_MAX.
Proof.
  induction f as [|f IH]; intros hdr body h b H; cbn [xsurv_move] in H; [discriminate|].
  destruct body as [|b0 [|b1 [|b2 [|b3 rest]]]]; try discriminate.
  destruct (hdr_room hdr) eqn:R; [|discriminate]. apply hdr_room_spec in R.
  destruct (is_end b0).
  - inversion H; subst. rewrite <- app_assoc. cbn. rewrite app_length. cbn. split; auto; lia.
  - apply IH in H as (A & B). rewrite <- app_assoc in A. cbn in A. split; auto.
Qed.
Theorem xsurv_recv_never_drops wire : xsurv_recv wire <> BtDrop.
Proof.
  unfold xsurv_recv. generalize (S (length wire)) as f. generalize (@nil N) as hdr. revert wire.
  intros wire hdr f. revert wire hdr. induction f as [|f IH]; intros wire hdr; cbn [xsurv_move]; [discriminate|].
  destruct wire as [|b0 [|b1 [|b2 [|b3 rest]]]]; try discriminate.
  destruct (hdr_room hdr); [|discriminate]. destruct (is_end b0); [discriminate|apply IH].
Qed.

(* cooked surveyor: a response shorter than 4 bytes has no id; otherwise exactly one word is the id *)
Theorem surv_recv_spec wire :
  (length wire < 4 -> surv_recv wire = None) /\
  (forall id h b, surv_recv wire = Some (id, h, b) -> h ++ b = wire /\ length h = 4).
Proof.
  split.
  - destruct wire as [|b0 [|b1 [|b2 [|b3 rest]]]]; cbn; intros; auto; lia.
  - intros id h b. destruct wire as [|b0 [|b1 [|b2 [|b3 rest]]]]; cbn; intros H; try discriminate.
    inversion H; subst. auto.
Qed.
Theorem surv_send_recv id body : (id < 4294967296)%N ->
  surv_recv (surv_send id body) = Some (id, be32 id, body).
Proof.
  intros H. unfold surv_send, wire_of. pose proof (word32_be32 id H) as W. unfold be32 in *. cbn [app surv_recv].
  rewrite W. reflexivity.
Qed.

End Backtrace.

(* ================================================================ keyed lists *)
Lemma kget_kset_eq {A} k (v : A) l : kget k (kset k v l) = Some v.
Proof.
  induction l as [|[k' v'] l IH]; cbn; [now rewrite N.eqb_refl|].
  destruct (N.eqb_spec k' k); cbn; [now rewrite N.eqb_refl|]. destruct (N.eqb_spec k' k); [contradiction|auto].
Qed.
Lemma kget_kset_neq {A} k k' (v : A) l : k' <> k -> kget k' (kset k v l) = kget k' l.
Proof.
  intros H. induction l as [|[k0 v0] l IH]; cbn.
  - destruct (N.eqb_spec k k'); [congruence|reflexivity].
  - destruct (N.eqb_spec k0 k); cbn.
    + subst. destruct (N.eqb_spec k k'); [congruence|reflexivity].
    + destruct (N.eqb_spec k0 k'); auto.
Qed.
Lemma kget_in {A} k (v : A) l : kget k l = Some v -> In (k, v) l.
Proof.
  induction l as [|[k' v'] l IH]; cbn; [discriminate|]. destruct (N.eqb_spec k' k); intros H.
  - inversion H; subst. now left.
  - right. auto.
Qed.
Lemma in_kget {A} k (v : A) l : NoDup (map fst l) -> In (k, v) l -> kget k l = Some v.
Proof.
  induction l as [|[k' v'] l IH]; cbn; intros ND H; [contradiction|]. inversion ND as [|? ? Hn Hd]; subst.
  destruct H as [H|H].
  - inversion H; subst. now rewrite N.eqb_refl.
  - destruct (N.eqb_spec k' k); [|auto]. subst. exfalso. apply Hn. change k with (fst (k, v)). now apply in_map.
Qed.
Lemma keys_kset_present {A} k (v v0 : A) l : kget k l = Some v0 -> map fst (kset k v l) = map fst l.
Proof.
  induction l as [|[k' v'] l IH]; cbn; [discriminate|]. destruct (N.eqb_spec k' k); cbn; intros H; [now subst|].
  f_equal. auto.
Qed.
Lemma keys_kset_absent {A} k (v : A) l : kget k l = None -> map fst (kset k v l) = map fst l ++ [k].
Proof.
  induction l as [|[k' v'] l IH]; cbn; [reflexivity|]. destruct (N.eqb_spec k' k); cbn; intros H; [discriminate|].
  f_equal. auto.
Qed.
Lemma kget_none_notin {A} k (l : list (N * A)) : kget k l = None -> ~ In k (map fst l).
Proof.
  induction l as [|[k' v'] l IH]; cbn; [tauto|]. destruct (N.eqb_spec k' k); [discriminate|]. intros H [E|I]; [congruence|].
  now apply IH.
Qed.
Lemma nodup_kset {A} k (v : A) l : NoDup (map fst l) -> NoDup (map fst (kset k v l)).
Proof.
  intros H. destruct (kget k l) eqn:E.
  - now rewrite (keys_kset_present k v a l E).
  - rewrite (keys_kset_absent k v l E). apply nodup_snoc; auto. now apply kget_none_notin.
Qed.
Lemma in_kset {A} k (v : A) l k' v' :
  NoDup (map fst l) -> In (k', v') (kset k v l) -> (k' = k /\ v' = v) \/ (k' <> k /\ In (k', v') l).
Proof.
  induction l as [|[k0 v0] l IH]; cbn; intros ND H.
  - destruct H as [H|[]]. inversion H; auto.
  - inversion ND as [|? ? Hn Hd]; subst. destruct (N.eqb_spec k0 k).
    + subst. destruct H as [H|H]; [inversion H; auto|]. right. split; [|now right].
      intros ->. apply Hn. change k with (fst (k, v')). now apply in_map.
    + destruct H as [H|H].
      * inversion H; subst. right. split; auto.
      * destruct (IH Hd H) as [A0|[A0 B0]]; auto.
Qed.
Lemma in_kdel {A} k (l : list (N * A)) k' v' : In (k', v') (kdel k l) -> k' <> k /\ In (k', v') l.
Proof.
  unfold kdel. intros H. apply filter_In in H as [H1 H2]. cbn in H2. split; auto.
  intros ->. rewrite N.eqb_refl in H2. discriminate.
Qed.
Lemma nodup_kdel {A} k (l : list (N * A)) : NoDup (map fst l) -> NoDup (map fst (kdel k l)).
Proof. intros H. unfold kdel. now apply nodup_filter_keys. Qed.
Lemma kget_kdel_neq {A} k k' (l : list (N * A)) : k' <> k -> kget k' (kdel k l) = kget k' l.
Proof.
  intros H. induction l as [|[k0 v0] l IH]; cbn; [reflexivity|].
  destruct (N.eqb_spec k0 k); cbn.
  - subst. destruct (N.eqb_spec k k'); [congruence|auto].
  - destruct (N.eqb_spec k0 k'); auto.
Qed.

(* ================================================================ the id generator *)
Lemma id_succ_range x : (ID_LO <= x <= ID_HI)%N -> (ID_LO <= id_succ x <= ID_HI)%N.
Proof. unfold id_succ, ID_LO, ID_HI. intros H. destruct (N.ltb_spec 4294967295 (x + 1)); lia. Qed.
Lemma has_id_in a l : has_id a l = true <-> In a l.
Proof.
  unfold has_id. rewrite existsb_exists. split.
  - intros (x & H1 & H2). apply N.eqb_eq in H2. now subst.
  - intros H. exists a. split; auto. apply N.eqb_refl.
Qed.
(* ids handed out by the generator: in range, not in use, and the cursor stays in range *)
Theorem id_alloc_fresh fuel : forall live cur id cur',
  (ID_LO <= cur <= ID_HI)%N -> id_alloc fuel live cur = Some (id, cur') ->
  ~ In id live /\ (ID_LO <= id <= ID_HI)%N /\ (ID_LO <= cur' <= ID_HI)%N.
Proof.
  induction fuel as [|f IH]; intros live cur id cur' Hc H; cbn in H; [discriminate|].
  destruct (has_id cur live) eqn:E.
  - apply IH in H; auto. now apply id_succ_range.
  - inversion H; subst. split; [|split; [auto|now apply id_succ_range]].
    intros Hin. apply has_id_in in Hin. congruence.
Qed.
(* "in range" is "32 bits with the high bit set" *)
Lemma id_range_high_bit id : (ID_LO <= id <= ID_HI)%N <-> (N.testbit id 31 = true /\ id < 4294967296)%N.
Proof.
  unfold ID_LO, ID_HI. split.
  - intros H. split; [|lia]. apply N.testbit_true. change (2 ^ 31)%N with 2147483648%N.
    assert (id / 2147483648 = 1)%N as ->; [|reflexivity].
    symmetry. apply (N.div_unique id 2147483648 1 (id - 2147483648)); lia.
  - intros [H1 H2]. split; [|lia]. apply N.testbit_true in H1. change (2 ^ 31)%N with 2147483648%N in H1.
    destruct (N.lt_ge_cases id 2147483648); [|lia]. rewrite N.div_small in H1 by lia. discriminate.
Qed.

(* ================================================================ single steps of the surveyor *)
Definition hdr_id (h : list N) : N := match h with [a; b; c; d] => word32 a b c d | _ => 0%N end.
Definition get_ctx (s : surv) (c : option ctxid) : option sctx := kget (ckey c) (sv_ctxs s).

(* receive with no survey, or at/after the deadline: NNG_ESTATE, nothing changes (blocking or not) *)
Theorem surv_recv_estate_no_survey fx s c a nb cx :
  get_ctx s c = Some cx -> sc_survey cx = 0%N ->
  surv_step fx s (PRecv c a nb) = (s, [Complete a E_STATE None]).
Proof. unfold get_ctx. intros H E. cbn [surv_step]. rewrite H, E. reflexivity. Qed.
Theorem surv_recv_estate_after_deadline fx s c a nb cx :
  get_ctx s c = Some cx -> (sc_expire cx <= Z.of_N (sv_now s))%Z ->
  surv_step fx s (PRecv c a nb) = (s, [Complete a E_STATE None]).
Proof.
  unfold get_ctx. intros H E. cbn [surv_step]. rewrite H.
  apply Z.leb_le in E. rewrite E, orb_true_r. reflexivity.
Qed.

(* a response shorter than 4 bytes disconnects its sender; nothing else happens *)
Theorem surv_short_response_disconnects fx s p m :
  length (pm_body m) < 4 -> surv_step fx s (PRecvDone p 0 m) = (s, [Free m; ClosePipe p]).
Proof. intros H. cbn [surv_step N.eqb negb]. destruct (surv_recv_spec (pm_body m)) as [A _]. now rewrite (A H). Qed.

(* a response whose id no context currently owns (stale, foreign to every context, unknown, high bit
   clear, zero) is discarded: the state -- every context -- is untouched and the pipe keeps receiving *)
Theorem surv_unowned_response_discarded fx s p m id h b :
  surv_recv (pm_body m) = Some (id, h, b) -> find_owner id (sv_ctxs s) = None ->
  surv_step fx s (PRecvDone p 0 m) = (s, [Free (mkPmsg (pm_hdr m ++ h) b); TranRecv p]).
Proof. intros H F. cbn [surv_step N.eqb negb]. now rewrite H, F. Qed.

Lemma find_owner_some id l k c : find_owner id l = Some (k, c) -> sc_survey c = id /\ id <> 0%N /\ In (k, c) l.
Proof.
  unfold find_owner. destruct (N.eqb_spec id 0); [discriminate|]. intros H. apply find_some in H as [H1 H2].
  cbn in H2. apply N.eqb_eq in H2. auto.
Qed.

(* a response whose id a context owns goes to that context and to no other: to its oldest waiting receive,
   else into its queue (if not full); every other context is unchanged *)
Theorem surv_owned_response fx s p m id h b k c s' outs :
  NoDup (map fst (sv_ctxs s)) ->
  surv_recv (pm_body m) = Some (id, h, b) -> find_owner id (sv_ctxs s) = Some (k, c) ->
  surv_step fx s (PRecvDone p 0 m) = (s', outs) ->
  sc_survey c = id /\ id <> 0%N /\
  (forall k', k' <> k -> kget k' (sv_ctxs s') = kget k' (sv_ctxs s)) /\
  sv_pipes s' = sv_pipes s /\
  (forall a rv x, In (Complete a rv x) outs ->
     rv = E_OK /\ x = Some (mkPmsg (pm_hdr m ++ h) b) /\ exists r, sc_rq c = a :: r) /\
  (sc_rq c = [] -> length (sc_lmq c) < SURV_RECV_BUF ->
     exists c', kget k (sv_ctxs s') = Some c' /\ sc_lmq c' = sc_lmq c ++ [mkPmsg (pm_hdr m ++ h) b] /\ sc_survey c' = id).
Proof.
  intros ND H F S. destruct (find_owner_some _ _ _ _ F) as (E1 & E2 & E3).
  cbn [surv_step N.eqb negb] in S. rewrite H, F in S.
  split; [exact E1|]. split; [exact E2|].
  destruct (SURV_RECV_BUF <=? length (sc_lmq c)) eqn:FL.
  - inversion S; subst. split; [auto|]. split; [auto|]. split.
    + intros a rv x [X|[X|[]]]; discriminate.
    + intros _ L. apply Nat.leb_le in FL. lia.
  - destruct (sc_rq c) as [|a0 r0] eqn:RQ.
    + assert (S2: sv_ctxs s' = kset k (mkSctx (sc_survey c) (sc_lmq c ++ [mkPmsg (pm_hdr m ++ h) b]) [] (sc_stime c) (sc_expire c)) (sv_ctxs s) /\
                  sv_pipes s' = sv_pipes s /\ outs = [TranRecv p]).
      { destruct (k =? 0)%N; inversion S; subst; cbn; auto. }
      destruct S2 as (A & B & C). rewrite A, C. split; [|split; [auto|split]].
      * intros k' Hk. now apply kget_kset_neq.
      * intros a rv x [X|[]]; discriminate.
      * intros _ _. eexists. split; [apply kget_kset_eq|]. cbn. auto.
    + inversion S; subst. cbn [sv_ctxs sv_pipes set_ctxs]. split; [|split; [auto|split]].
      * intros k' Hk. now apply kget_kset_neq.
      * intros a rv x [X|[X|[]]]; inversion X; subst. split; [auto|]. split; [auto|]. eauto.
      * discriminate.
Qed.

(* a new survey: every pending receive of that context is cancelled, its queued responses are freed,
   the old id is retired and a fresh one (in range, owned by nobody) installed; deadline = now + survey time *)
Lemma fanout_no_complete m0 l : forall r rv x, ~ In (Complete r rv x) (snd (fanout m0 l)).
Proof.
  induction l as [|[q y] l IH]; cbn [fanout snd]; [cbn; tauto|]. destruct (fanout m0 l) as [r' o]. cbn [snd] in IH.
  destruct (sp_closed y); [exact IH|]. destruct (sp_busy y); cbn [negb].
  - destruct (length (sp_q y) <? SURV_SEND_BUF); exact IH.
  - cbn [snd]. intros r rv x [X|X]; [discriminate|]. eapply IH; eauto.
Qed.
Lemma in_kset_other {A} k (v : A) l k' v' : k' <> k -> In (k', v') l -> In (k', v') (kset k v l).
Proof.
  intros Hk. induction l as [|[k0 v0] l IH]; cbn; [tauto|]. intros [X|X].
  - inversion X; subst. destruct (N.eqb_spec k' k); [contradiction|now left].
  - destruct (N.eqb_spec k0 k); right; auto.
Qed.

Theorem surv_new_survey_aborts_old fx s c a nb m cx s' outs :
  (ID_LO <= sv_cur s <= ID_HI)%N ->
  get_ctx s c = Some cx -> surv_step fx s (PSend c a nb m) = (s', outs) ->
  (forall r, In r (sc_rq cx) -> In (Complete r E_CANCELED None) outs) /\
  (forall x, In x (sc_lmq cx) -> In (Free x) outs) /\
  (forall r rv x, In (Complete r rv x) outs -> r <> a -> In r (sc_rq cx) /\ rv = E_CANCELED /\ x = None) /\
  (In (Complete a E_OK None) outs ->
     exists cx', get_ctx s' c = Some cx' /\ sc_lmq cx' = [] /\ sc_rq cx' = [] /\
       (ID_LO <= sc_survey cx' <= ID_HI)%N /\
       sc_expire cx' = (Z.of_N (sv_now s) + sc_stime cx)%Z /\
       (forall k' c', k' <> ckey c -> In (k', c') (sv_ctxs s) -> sc_survey c' <> sc_survey cx') /\
       (forall k', k' <> ckey c -> kget k' (sv_ctxs s') = kget k' (sv_ctxs s))).
Proof.
  unfold get_ctx. intros HC H St. cbn [surv_step] in St. rewrite H in St. cbn [ctx_abort] in St.
  set (cx1 := mkSctx 0 [] [] (sc_stime cx) (sc_expire cx)) in *.
  set (ctxs1 := kset (ckey c) cx1 (sv_ctxs s)) in *.
  set (o1 := fail_aios E_CANCELED (sc_rq cx) ++ map Free (sc_lmq cx)) in *.
  assert (FO: forall r rv x, In (Complete r rv x) o1 -> In r (sc_rq cx) /\ rv = E_CANCELED /\ x = None).
  { intros r rv x Hin. apply in_app_or in Hin as [Hin|Hin].
    - unfold fail_aios in Hin. apply in_map_iff in Hin as (y & E & Hy). inversion E; subst. auto.
    - apply in_map_iff in Hin as (y & E & _). discriminate. }
  assert (P1: forall r, In r (sc_rq cx) -> In (Complete r E_CANCELED None) o1).
  { intros r Hr. apply in_or_app. left. unfold fail_aios. apply in_map_iff. eauto. }
  assert (P2: forall x, In x (sc_lmq cx) -> In (Free x) o1).
  { intros x Hx. apply in_or_app. right. now apply in_map. }
  destruct (id_alloc (Datatypes.S (length (live_ids ctxs1))) (live_ids ctxs1) (sv_cur s)) as [[id cur']|] eqn:AL.
  - pose proof (fanout_no_complete (mkPmsg (be32 id) (pm_body m)) (sv_pipes s)) as TXC.
    destruct (fanout (mkPmsg (be32 id) (pm_body m)) (sv_pipes s)) as [pipes' tx] eqn:FA. cbn [snd] in TXC.
    inversion St; subst s' outs; clear St.
    destruct (id_alloc_fresh _ _ _ _ _ HC AL) as (NI & RG & CR).
    split; [|split; [|split]].
    + intros r Hr. apply in_or_app. left. auto.
    + intros x Hx. apply in_or_app. left. auto.
    + intros r rv x Hin Hne. apply in_app_or in Hin as [X|X]; [now apply FO|].
      apply in_app_or in X as [X|[X|[]]]; [exfalso; eapply TXC; eauto|]. inversion X; subst. contradiction.
    + intros _. eexists. cbn [sv_ctxs]. split; [apply kget_kset_eq|]. cbn [sc_lmq sc_rq sc_survey sc_expire].
      split; [reflexivity|]. split; [reflexivity|]. split; [exact RG|]. split; [reflexivity|]. split.
      * intros k' c' Hk Hin E. apply NI. unfold live_ids. apply filter_In. split.
        -- apply in_map_iff. exists (k', c'). split; [exact E|]. unfold ctxs1. now apply in_kset_other.
        -- destruct (N.eqb_spec id 0); [|reflexivity]. unfold ID_LO in RG. lia.
      * intros k' Hk. rewrite kget_kset_neq by auto. unfold ctxs1. now apply kget_kset_neq.
  - inversion St; subst s' outs; clear St. split; [|split; [|split]].
    + intros r Hr. apply in_or_app. left. auto.
    + intros x Hx. apply in_or_app. left. auto.
    + intros r rv x Hin Hne. apply in_app_or in Hin as [X|[X|[]]]; [now apply FO|]. inversion X; subst. contradiction.
    + intros X. exfalso. apply in_app_or in X as [X|[X|[]]]; [apply FO in X; destruct X as (_ & X & _); discriminate|discriminate].
Qed.
