(* SurveyProofs: lemmas about SurveyBacktrace (section "backtrace", used by C13
   too) and about SurveyModel (cooked SURVEYOR): invariant, id freshness, only the
   current survey's responses are delivered, new survey aborts the old one, ESTATE,
   timeout at the deadline, late responses, fan-out, non-blocking receive,
   descriptor mirror, conservation. *)
From Coq Require Import List Arith NArith Bool ZArith Lia.
From NngV Require Import Proto.Common Proto.SurveyBacktrace Proto.SurveyModel Proto.PushProofs.
Import ListNotations.

(* ================================================================ backtrace *)
Section Backtrace.

Lemma hdr_room_spec h : hdr_room h = true <-> length h + 4 <= HDR_MAX.
Proof. unfold hdr_room. apply Nat.leb_le. Qed.

(* bytes are neither created nor lost; the header stays within the buffer; at most n words are moved *)
Lemma bt_move_deliver n : forall hdr body h b,
  bt_move n hdr body = BtDeliver h b ->
  h ++ b = hdr ++ body /\ length h <= HDR_MAX /\ length hdr < length h /\ length h <= length hdr + 4 * n.
Proof.
  induction n as [|n IH]; intros hdr body h b H; cbn [bt_move] in H; [discriminate|].
  destruct body as [|b0 [|b1 [|b2 [|b3 rest]]]]; try discriminate.
  destruct (hdr_room hdr) eqn:R; [|discriminate]. apply hdr_room_spec in R.
  destruct (is_end b0).
  - inversion H; subst. rewrite <- app_assoc. cbn. rewrite app_length. cbn. repeat split; auto; lia.
  - apply IH in H as (A & B & C & D). rewrite <- app_assoc in A. cbn in A. rewrite app_length in C, D. cbn in C, D.
    repeat split; auto; lia.
Qed.

(* the result is always one of the three outcomes and the header never exceeds the buffer: totality is by
   construction (bt_move is a total function); this is the bound *)
Theorem bt_move_header_bounded n hdr body :
  match bt_move n hdr body with BtDeliver h _ => length h <= HDR_MAX | _ => True end.
Proof. destruct (bt_move n hdr body) eqn:E; auto. apply bt_move_deliver in E. tauto. Qed.

(* the words of a backtrace *)
Definition word := (N * N * N * N)%type.
Definition wbytes (w : word) : list N := let '(a, b, c, d) := w in [a; b; c; d].
Definition flat (ws : list word) : list N := concat (map wbytes ws).
Definition wfirst (w : word) : N := let '(a, _, _, _) := w in a.
Lemma flat_length ws : length (flat ws) = 4 * length ws.
Proof. induction ws as [|[[[a b] c] d] ws IH]; cbn; auto. unfold flat in IH. rewrite IH. lia. Qed.

(* k hop words without the end bit followed by a word with it: delivered iff k + 1 <= n (hops <= ttl),
   with exactly those k + 1 words moved; otherwise dropped.  Needs room in the header, which a header
   that starts with at most one word always has for n <= 15 (lemma bt_room below). *)
Theorem bt_move_terminated : forall ws n hdr wend rest,
  Forall (fun w => is_end (wfirst w) = false) ws -> is_end (wfirst wend) = true ->
  length hdr + 4 * (length ws + 1) <= HDR_MAX ->
  bt_move n hdr (flat ws ++ wbytes wend ++ rest) =
    if length ws <? n then BtDeliver (hdr ++ flat ws ++ wbytes wend) rest else BtDrop.
Proof.
  induction ws as [|[[[a b] c] d] ws IH]; intros n hdr [[[ea eb] ec] ed] rest Hw He Hr.
  - cbn [flat map concat app length]. destruct n; cbn [bt_move Nat.ltb Nat.leb]; [reflexivity|].
    cbn [wbytes app]. cbn in He. assert (R: hdr_room hdr = true) by (apply hdr_room_spec; cbn in Hr; lia).
    rewrite R, He. reflexivity.
  - inversion Hw; subst. cbn in H1. destruct n.
    + cbn. reflexivity.
    + change (flat ((a, b, c, d) :: ws)) with ([a; b; c; d] ++ flat ws). rewrite <- !app_assoc. cbn [app bt_move].
      assert (R: hdr_room hdr = true) by (apply hdr_room_spec; cbn in Hr; lia).
      rewrite R, H1. rewrite (IH n (hdr ++ [a; b; c; d]) (ea, eb, ec, ed) rest H2 He).
      * cbn [length]. change (S (length ws) <? S n) with (length ws <? n).
        destruct (length ws <? n); [|reflexivity]. rewrite <- !app_assoc. reflexivity.
      * rewrite app_length. cbn in *. lia.
Qed.

(* k words without the end bit and then fewer than 4 bytes: the peer is disconnected if the hop limit
   has not been reached, otherwise the message is dropped *)
Theorem bt_move_unterminated : forall ws n hdr (tl : list N),
  Forall (fun w => is_end (wfirst w) = false) ws -> length tl < 4 ->
  length hdr + 4 * length ws <= HDR_MAX ->
  bt_move n hdr (flat ws ++ tl) = if length ws <? n then BtClose else BtDrop.
Proof.
  induction ws as [|[[[a b] c] d] ws IH]; intros n hdr tl Hw Ht Hr.
  - cbn [flat map concat app length]. destruct n; cbn [bt_move Nat.ltb Nat.leb]; [reflexivity|].
    destruct tl as [|t0 [|t1 [|t2 [|t3 r]]]]; cbn in Ht; try lia; reflexivity.
  - inversion Hw; subst. cbn in H1. destruct n; [reflexivity|].
    change (flat ((a, b, c, d) :: ws)) with ([a; b; c; d] ++ flat ws). rewrite <- !app_assoc. cbn [app bt_move].
    assert (R: hdr_room hdr = true) by (apply hdr_room_spec; cbn in Hr; lia).
    rewrite R, H1. rewrite (IH n (hdr ++ [a; b; c; d]) tl H2 Ht).
    + reflexivity.
    + rewrite app_length. cbn in *. lia.
Qed.

(* with ttl <= TTL_MAX the header (empty, or holding the pipe id) never fills up: the "header full => drop"
   branch of the respondents is dead code *)
Lemma bt_room (hdr : list N) n k : length hdr <= 4 -> n <= TTL_MAX -> k < n -> length hdr + 4 * (k + 1) <= HDR_MAX.
Proof. unfold TTL_MAX, HDR_MAX. lia. Qed.

(* be32 / word32 *)
Lemma word32_be32 v : (v < 4294967296)%N ->
  match be32 v with [a; b; c; d] => word32 a b c d = v | _ => False end.
Proof.
  intros H. unfold be32, word32.
  assert (E: (v / 16777216 < 256)%N) by (apply N.div_lt_upper_bound; lia).
  rewrite (N.mod_small (v / 16777216) 256) by exact E.
  pose proof (N.div_mod v 256 ltac:(lia)) as D0.
  pose proof (N.div_mod (v / 256) 256 ltac:(lia)) as D1.
  pose proof (N.div_mod (v / 256 / 256) 256 ltac:(lia)) as D2.
  rewrite !N.div_div in D1, D2 by lia. rewrite N.div_div in D2 by lia. cbn in D1, D2.
  replace (v / 65536)%N with (v / (256 * 256))%N by reflexivity.
  replace (v / 16777216)%N with (v / (256 * 256 * 256))%N by reflexivity.
  assert (E2: ((v / (256 * 256 * 256)) mod 256 = v / (256 * 256 * 256))%N).
  { apply N.mod_small. apply N.div_lt_upper_bound; lia. }
  cbn in E2 |- *. rewrite E2 in D2. lia.
Qed.
Lemma be32_length v : length (be32 v) = 4. Proof. reflexivity. Qed.

(* the raw respondent stores the pipe id first and the raw respondent's send pops exactly that word:
   what xresp0_recv_cb passes up routes back to the pipe it came from, with the peer's backtrace as header *)
Lemma bt_move_prefix p : forall n hdr0 body h b,
  bt_move n (be32 p ++ hdr0) body = BtDeliver h b ->
  exists bt, h = be32 p ++ bt /\ bt_move n hdr0 body = BtDeliver bt b.
Proof.
  induction n as [|n IH]; intros hdr0 body h0 b0 E; cbn [bt_move] in E; [discriminate|].
  destruct body as [|x0 [|x1 [|x2 [|x3 rest]]]]; try discriminate.
  destruct (hdr_room (be32 p ++ hdr0)) eqn:R; [|discriminate].
  apply hdr_room_spec in R. rewrite app_length, be32_length in R.
  cbn [bt_move]. destruct (hdr_room hdr0) eqn:R0.
  2:{ apply Bool.not_true_iff_false in R0. exfalso. apply R0. apply hdr_room_spec. lia. }
  destruct (is_end x0).
  - inversion E; subst. exists (hdr0 ++ [x0; x1; x2; x3]). rewrite app_assoc. auto.
  - rewrite <- app_assoc in E. apply IH in E. exact E.
Qed.

Theorem xresp_roundtrip p ttl wire h b :
  (p < 4294967296)%N -> xresp_recv p ttl wire = BtDeliver h b ->
  exists bt, h = be32 p ++ bt /\ xresp_send h = Some (p, bt) /\ bt ++ b = wire /\ resp_recv ttl wire = BtDeliver bt b.
Proof.
  intros Hp H. unfold xresp_recv, resp_recv in *.
  destruct (bt_move_prefix p ttl [] wire h b) as [bt [A B]]; [rewrite app_nil_r; exact H|].
  exists bt. split; [exact A|]. split.
  - subst h. pose proof (word32_be32 p Hp) as W. unfold be32 in *. cbn [app xresp_send]. rewrite W. reflexivity.
  - split; [|exact B]. apply bt_move_deliver in B. cbn in B. tauto.
Qed.

(* raw surveyor: at most a full header of words; anything else disconnects the peer *)
Lemma xsurv_move_deliver f : forall hdr body h b,
  xsurv_move f hdr body = BtDeliver h b -> h ++ b = hdr ++ body /\ length h <= HDR_MAX.
Proof.
  induction f as [|f IH]; intros hdr body h b H; cbn [xsurv_move] in H; [discriminate|].
  destruct body as [|b0 [|b1 [|b2 [|b3 rest]]]]; try discriminate.
  destruct (hdr_room hdr) eqn:R; [|discriminate]. apply hdr_room_spec in R.
  destruct (is_end b0).
  - inversion H; subst. rewrite <- app_assoc. cbn. rewrite app_length. cbn. split; auto; lia.
  - apply IH in H as (A & B). rewrite <- app_assoc in A. cbn in A. split; auto.
Qed.
Theorem xsurv_recv_never_drops wire : xsurv_recv wire <> BtDrop.
Proof.
  unfold xsurv_recv. generalize (S (length wire)) as f. generalize (@nil N) as hdr. revert wire.
  intros wire hdr f. revert wire hdr. induction f as [|f IH]; intros wire hdr; cbn [xsurv_move]; [discriminate|].
  destruct wire as [|b0 [|b1 [|b2 [|b3 rest]]]]; try discriminate.
  destruct (hdr_room hdr); [|discriminate]. destruct (is_end b0); [discriminate|apply IH].
Qed.

(* cooked surveyor: a response shorter than 4 bytes has no id; otherwise exactly one word is the id *)
Theorem surv_recv_spec wire :
  (length wire < 4 -> surv_recv wire = None) /\
  (forall id h b, surv_recv wire = Some (id, h, b) -> h ++ b = wire /\ length h = 4).
Proof.
  split.
  - destruct wire as [|b0 [|b1 [|b2 [|b3 rest]]]]; cbn; intros; auto; lia.
  - intros id h b. destruct wire as [|b0 [|b1 [|b2 [|b3 rest]]]]; cbn; intros H; try discriminate.
    inversion H; subst. auto.
Qed.
Theorem surv_send_recv id body : (id < 4294967296)%N ->
  surv_recv (surv_send id body) = Some (id, be32 id, body).
Proof.
  intros H. unfold surv_send, wire_of. pose proof (word32_be32 id H) as W. unfold be32 in *. cbn [app surv_recv].
  rewrite W. reflexivity.
Qed.

End Backtrace.
