(* PushModel: src/sp/protocol/pipeline0/push.c.  Definitions only.
   The send buffer (an nni_lmq) is used at the level of its specification, a
   bounded FIFO (justified by Properties_C18.lmq_refines_fifo). *)
From Coq Require Import List Arith NArith Bool.
From NngV Require Import Proto.Common.
Import ListNotations.

Definition PROTO_PUSH : N := 80.  Definition PROTO_PULL : N := 81.

Record push := mkPush {
  ps_pl : list pid;                 (* ready pipes, oldest first *)
  ps_wq : list pmsg; ps_cap : nat;  (* send buffer and its capacity *)
  ps_aq : list (aioid * pmsg);      (* blocked senders *)
  ps_sending : list (pid * pmsg);   (* message held by each pipe's aio_send *)
  ps_writable : bool }.

Definition push_init : push := mkPush [] [] 0 [] [] false.
Definition wq_full (s : push) : bool := ps_cap s <=? length (ps_wq s).

Definition set_sending (s : push) (p : pid) (m : option pmsg) : list (pid * pmsg) :=
  let rest := filter (fun x => negb (N.eqb (fst x) p)) (ps_sending s) in
  match m with Some x => (p, x) :: rest | None => rest end.

(* push0_pipe_ready *)
Definition push_pipe_ready (s : push) (p : pid) : push * list pout :=
  let blocked := wq_full s && (match ps_pl s with [] => true | _ => false end) in
  let '(s1, outs) :=
    match ps_wq s with
    | m :: rest =>
        match ps_aq s with
        | (a, m2) :: aqr =>
            (mkPush (ps_pl s) (rest ++ [m2]) (ps_cap s) aqr (set_sending s p (Some m)) (ps_writable s),
             [TranSend p m; Complete a E_OK None])
        | [] =>
            (mkPush (ps_pl s) rest (ps_cap s) [] (set_sending s p (Some m)) (ps_writable s), [TranSend p m])
        end
    | [] =>
        match ps_aq s with
        | (a, m2) :: aqr =>
            (mkPush (ps_pl s) [] (ps_cap s) aqr (set_sending s p (Some m2)) (ps_writable s),
             [TranSend p m2; Complete a E_OK None])
        | [] =>
            (mkPush (ps_pl s ++ [p]) [] (ps_cap s) [] (set_sending s p None) (ps_writable s), [])
        end
    end in
  let w := if blocked && (negb (wq_full s1) || negb (match ps_pl s1 with [] => true | _ => false end))
           then true else ps_writable s1 in
  (mkPush (ps_pl s1) (ps_wq s1) (ps_cap s1) (ps_aq s1) (ps_sending s1) w, outs).

Definition push_step (s : push) (o : pop) : push * list pout :=
  match o with
  | PPipeStart p peer =>
      if negb (N.eqb peer PROTO_PULL) then (s, [Reject E_PROTO])
      else let (s', outs) := push_pipe_ready s p in (s', TranRecv p :: outs)
  | PPipeClose p =>
      if has_id p (ps_pl s) then
        let pl' := remove_id p (ps_pl s) in
        let w := if (match pl' with [] => true | _ => false end) && wq_full s then false else ps_writable s in
        (mkPush pl' (ps_wq s) (ps_cap s) (ps_aq s) (ps_sending s) w, [])
      else (s, [])
  | PRecvDone p rv m =>
      if negb (N.eqb rv 0) then (s, [ClosePipe p]) else (s, [Free m; TranRecv p])
  | PSendDone p rv =>
      if negb (N.eqb rv 0) then
        (* the message is still attached to aio_send: free it, close the pipe *)
        let held := map snd (filter (fun x => N.eqb (fst x) p) (ps_sending s)) in
        (mkPush (ps_pl s) (ps_wq s) (ps_cap s) (ps_aq s) (set_sending s p None) (ps_writable s),
         map Free held ++ [ClosePipe p])
      else push_pipe_ready (mkPush (ps_pl s) (ps_wq s) (ps_cap s) (ps_aq s) (set_sending s p None) (ps_writable s)) p
  | PSend _ a nb m =>
      match ps_pl s with
      | p :: rest =>
          let w := if (match rest with [] => true | _ => false end) && wq_full s then false else ps_writable s in
          (mkPush rest (ps_wq s) (ps_cap s) (ps_aq s) (set_sending s p (Some m)) w,
           [Complete a E_OK None; TranSend p m])
      | [] =>
          if negb (wq_full s) then
            let s1 := mkPush [] (ps_wq s ++ [m]) (ps_cap s) (ps_aq s) (ps_sending s) (ps_writable s) in
            (mkPush [] (ps_wq s1) (ps_cap s1) (ps_aq s1) (ps_sending s1) (if wq_full s1 then false else ps_writable s1),
             [Complete a E_OK None])
          else if nb then (s, [Complete a E_AGAIN None])
          else (mkPush [] (ps_wq s) (ps_cap s) (ps_aq s ++ [(a, m)]) (ps_sending s) (ps_writable s), [])
      end
  | PRecv _ a _ => (s, [Complete a E_NOTSUP None])
  | PCancel a rv =>
      if has_aio a (ps_aq s)
      then (mkPush (ps_pl s) (ps_wq s) (ps_cap s) (remove_aio a (ps_aq s)) (ps_sending s) (ps_writable s),
            [Complete a rv None])
      else (s, [])
  | PSetOpt _ (OSendBuf n) =>
      if (8192 <? N.of_nat n)%N then (s, [OptRv E_INVAL]) else
      let wq' := firstn n (ps_wq s) in
      let s1 := mkPush (ps_pl s) wq' n (ps_aq s) (ps_sending s) (ps_writable s) in
      let w := if negb (wq_full s1) then true
               else if (match ps_pl s with [] => true | _ => false end) then false else ps_writable s in
      (mkPush (ps_pl s) wq' n (ps_aq s) (ps_sending s) w, map Free (skipn n (ps_wq s)) ++ [OptRv E_OK])
  | PSetOpt _ _ => (s, [OptRv E_NOTSUP])
  | PSockClose =>
      (mkPush (ps_pl s) (ps_wq s) (ps_cap s) [] (ps_sending s) (ps_writable s),
       fail_aios E_CLOSED (map fst (ps_aq s)))
  | PCtxOpen _ | PCtxClose _ | PTick _ => (s, [])
  end.

Definition push_poll (s : push) : ppoll := mkPoll None (Some (ps_writable s)).

(* ---- push0_set_send_buf_len with the repair of finding push-resize-overtakes-blocked ----
   (same shape as fix 7c956d7 for PAIR): after nni_lmq_resize the blocked senders move into the
   buffer, in order, while there is room, and their sends complete.  [push_step] above keeps the
   pinned text (the wait list is left alone); [push_step_r fr] is the step for either text,
   fr = Gen/Consts.v C06_PUSH_RESIZE_ADMITS_FIXED; it differs from push_step only on an in-range
   NNG_OPT_SENDBUF when fr = true. *)
Definition push_resize_takein (s : push) (n : nat) : push * list pout :=
  let wq1 := firstn n (ps_wq s) in
  let room := n - length wq1 in
  let adm := firstn room (ps_aq s) in
  let wq' := wq1 ++ map snd adm in
  let aq' := skipn room (ps_aq s) in
  let s1 := mkPush (ps_pl s) wq' n aq' (ps_sending s) (ps_writable s) in
  let w := if negb (wq_full s1) then true
           else if (match ps_pl s with [] => true | _ => false end) then false else ps_writable s in
  (mkPush (ps_pl s) wq' n aq' (ps_sending s) w,
   map Free (skipn n (ps_wq s)) ++ map (fun x => Complete (fst x) E_OK None) adm ++ [OptRv E_OK]).

Definition push_step_r (fr : bool) (s : push) (o : pop) : push * list pout :=
  match o with
  | PSetOpt _ (OSendBuf n) =>
      if fr && negb (8192 <? N.of_nat n)%N then push_resize_takein s n else push_step s o
  | _ => push_step s o
  end.
