(* PairProofs: invariants, one-peer rule, conservation, FIFO both directions,
   back-pressure / non-blocking laws, poll mirror, hop rules for PairModel.
   Generic lemmas on multisets of messages (cnt, txs, freed ...) come from PushProofs. *)
From Coq Require Import List Arith NArith ZArith Bool Lia.
From NngV Require Import Proto.Common Proto.PairModel Proto.PushProofs.
Import ListNotations.

Ltac simp_r := cbn [pr_p pr_ttl pr_wmq pr_wcap pr_waq pr_rmq pr_rcap pr_raq pr_rd pr_wr pr_sending pr_readable pr_writable] in *.
Ltac msimp := cbn [map app snd fst] in *; rewrite ?map_app, ?cnt_app, ?cnt_cons, ?cnt_nil, ?app_nil_r in *;
  cbn [map app snd fst] in *; rewrite ?cnt_app, ?cnt_cons, ?cnt_nil in *.

(* ---- order-preserving sub-sequences ---- *)
Inductive sublist {A} : list A -> list A -> Prop :=
| sl_nil : sublist [] []
| sl_skip x l1 l2 : sublist l1 l2 -> sublist l1 (x :: l2)
| sl_keep x l1 l2 : sublist l1 l2 -> sublist (x :: l1) (x :: l2).
Lemma sublist_refl {A} (l : list A) : sublist l l.
Proof. induction l; [apply sl_nil|apply sl_keep; assumption]. Qed.
Lemma sublist_nil_l {A} (l : list A) : sublist [] l.
Proof. induction l; [apply sl_nil|apply sl_skip; assumption]. Qed.
Lemma sublist_app {A} (a b c d : list A) : sublist a b -> sublist c d -> sublist (a ++ c) (b ++ d).
Proof. intros H1 H2. induction H1; cbn; [assumption|apply sl_skip; assumption|apply sl_keep; assumption]. Qed.
Lemma sublist_trans {A} (l1 l2 l3 : list A) : sublist l1 l2 -> sublist l2 l3 -> sublist l1 l3.
Proof.
  intros H12 H23. revert l1 H12. induction H23; intros l0 H12.
  - inversion H12; constructor.
  - apply sl_skip, IHsublist, H12.
  - inversion H12; subst; [apply sl_skip|apply sl_keep]; apply IHsublist; assumption.
Qed.
Lemma sublist_firstn {A} n (l : list A) : sublist (firstn n l) l.
Proof. revert n. induction l; intros [|n]; cbn; [apply sl_nil|apply sl_nil|apply sublist_nil_l|apply sl_keep; apply IHl]. Qed.
Lemma sublist_app_l {A} (a b : list A) : sublist a (a ++ b).
Proof. rewrite <- (app_nil_r a) at 1. apply sublist_app; [apply sublist_refl|apply sublist_nil_l]. Qed.
Lemma sl_skip_app {A} (a b : list A) : sublist b (a ++ b).
Proof. induction a; cbn; [apply sublist_refl|apply sl_skip; assumption]. Qed.
Lemma sublist_cnt (a b : list pmsg) x : sublist a b -> cnt x a <= cnt x b.
Proof. induction 1; rewrite ?cnt_cons, ?cnt_nil; lia. Qed.

(* ---- 32-bit words ---- *)
Definition byte_ok (b : N) : Prop := (b < 256)%N.
Lemma be32_word a b c d : byte_ok a -> byte_ok b -> byte_ok c -> byte_ok d -> be32 (word32 a b c d) = [a; b; c; d].
Proof.
  unfold byte_ok, be32, word32. intros Ha Hb Hc Hd.
  set (v := (a * 16777216 + b * 65536 + c * 256 + d)%N).
  assert (D1: (v / 16777216 = a)%N) by (symmetry; apply N.div_unique with (r := (b * 65536 + c * 256 + d)%N); unfold v; lia).
  assert (D2: (v / 65536 = a * 256 + b)%N) by (symmetry; apply N.div_unique with (r := (c * 256 + d)%N); unfold v; lia).
  assert (D3: (v / 256 = a * 65536 + b * 256 + c)%N) by (symmetry; apply N.div_unique with (r := d); unfold v; lia).
  rewrite D1, D2, D3.
  rewrite (N.mod_small a) by lia.
  replace ((a * 256 + b) mod 256)%N with b by (apply N.mod_unique with (q := a); lia).
  replace ((a * 65536 + b * 256 + c) mod 256)%N with c by (apply N.mod_unique with (q := (a * 256 + b)%N); lia).
  replace (v mod 256)%N with d by (apply N.mod_unique with (q := (a * 65536 + b * 256 + c)%N); unfold v; lia).
  reflexivity.
Qed.
Lemma word32_small a b c d v : byte_ok a -> byte_ok b -> byte_ok c -> byte_ok d ->
  word32 a b c d = v -> (v <= 255)%N -> a = 0%N /\ b = 0%N /\ c = 0%N /\ d = v.
Proof. unfold byte_ok, word32. intros. lia. Qed.
Lemma be32_small v : (v <= 255)%N -> be32 v = [0; 0; 0; v]%N.
Proof.
  intros H. unfold be32. rewrite !N.div_small by lia. rewrite (N.mod_small v) by lia. reflexivity.
Qed.
Lemma word32_lt a b c d : byte_ok a -> byte_ok b -> byte_ok c -> byte_ok d -> (word32 a b c d < 4294967296)%N.
Proof. unfold byte_ok, word32. intros. lia. Qed.

Section Pair.
Variable k : pkind.
Variable fx : bool.
Variable fr : bool.

Definition rdl (s : pair) : list pmsg := match pr_rd s with Some h => [h] | None => [] end.
(* received and not yet delivered, in arrival order; accepted and not yet handed to the transport *)
Definition inq (s : pair) : list pmsg := pr_rmq s ++ rdl s.
Definition sendingl (s : pair) : list pmsg := map snd (pr_sending s).
Definition optl {A} (o : option A) : list A := match o with Some x => [x] | None => [] end.
(* the messages (in the normalised form sock_send gives them) of the senders whose send
   completes with success in this step *)
Fixpoint pacc (aq : list (aioid * pmsg)) (o : pop) (outs : list pout) : list pmsg :=
  match outs with
  | [] => []
  | Complete a rv None :: r =>
      (if N.eqb rv 0 then
         match o with
         | PSend _ a' _ m => if N.eqb a a' then optl (norm_send k m) else lookup_aq a aq
         | _ => lookup_aq a aq
         end
       else []) ++ pacc aq o r
  | _ :: r => pacc aq o r
  end.
Definition paccepted (s : pair) (o : pop) (outs : list pout) : list pmsg := pacc (pr_waq s) o outs.
Fixpoint pdelivered (outs : list pout) : list pmsg :=
  match outs with
  | [] => []
  | Complete _ rv (Some m) :: r => if N.eqb rv 0 then m :: pdelivered r else pdelivered r
  | _ :: r => pdelivered r
  end.
(* a wire message taken from the peer that the hop rules let in, in decoded form; one they reject *)
Definition arrived_ok (s : pair) (o : pop) : list pmsg :=
  match o with
  | PRecvDone _ rv m => if N.eqb rv 0 then match rx_decode k (pr_ttl s) m with RxOk m' => [m'] | _ => [] end else []
  | _ => []
  end.
Definition rx_rejected (s : pair) (o : pop) : list pmsg :=
  match o with
  | PRecvDone _ rv m => if N.eqb rv 0 then match rx_decode k (pr_ttl s) m with RxOk _ => [] | _ => [m] end else []
  | _ => []
  end.
(* the message attached to a transport send that failed *)
Definition snd_freed (s : pair) (o : pop) : list pmsg :=
  match o with PSendDone p rv => if N.eqb rv 0 then [] else snd_of (pr_sending s) p | _ => [] end.
(* what the transport took off the pipe in this step *)
Definition wire_taken (s : pair) (o : pop) : list pmsg :=
  match o with PSendDone p rv => if N.eqb rv 0 then snd_of (pr_sending s) p else [] | _ => [] end.
(* the explicit losses: buffer shrink, socket close; the parked message of a connection that goes down *)
Definition wloss (s : pair) (o : pop) : list pmsg :=
  match o with
  | PSetOpt _ (OSendBuf n) => if (PAIR_BUF_MAX <? N.of_nat n)%N then [] else skipn n (pr_wmq s)
  | PSockClose => pr_wmq s
  | _ => []
  end.
Definition attached (s : pair) (p : pid) : bool := match pr_p s with Some q => N.eqb q p | None => false end.
Definition rloss (s : pair) (o : pop) : list pmsg :=
  match o with
  | PSetOpt _ (ORecvBuf n) => if (PAIR_BUF_MAX <? N.of_nat n)%N then [] else skipn n (pr_rmq s)
  | PSockClose => pr_rmq s
  | PPipeClose p => if attached s p then rdl s else []
  | _ => []
  end.

Definition can_send (s : pair) : bool := pr_wr s || negb (lmq_full (pr_wmq s) (pr_wcap s)).
Definition can_recv (s : pair) : bool := negb (isnil (pr_rmq s)) || match pr_rd s with Some _ => true | None => false end.
Definition RInv (s : pair) : Prop := pr_readable s = can_recv s.
Definition WInv (s : pair) : Prop := pr_writable s = can_send s.

Definition PInv (s : pair) : Prop :=
  (pr_wr s = true -> match pr_p s with Some p => ~ In p (map fst (pr_sending s)) | None => False end /\ pr_wmq s = [] /\ pr_waq s = []) /\
  (pr_rd s <> None -> pr_p s <> None /\ pr_raq s = []) /\
  (pr_raq s <> [] -> pr_rmq s = []) /\
  length (pr_wmq s) <= pr_wcap s /\ length (pr_rmq s) <= pr_rcap s /\
  NoDup (map fst (pr_waq s)) /\ NoDup (map fst (pr_sending s)).

(* the environment's side: pipe ids are fresh; a completion belongs to an operation in
   flight; successful completions are delivered before the pipe's pipe_stop section (the
   transport fails what is pending at close); an aio is submitted once at a time *)
Definition op_ok (s : pair) (o : pop) : Prop :=
  match o with
  | PPipeStart p _ => ~ In p (map fst (pr_sending s))
  | PSendDone p rv => In p (map fst (pr_sending s)) /\ (rv = 0%N -> pr_p s = Some p)
  | PRecvDone p rv _ => rv = 0%N -> pr_p s = Some p /\ pr_rd s = None
  | PSend _ a _ _ => ~ In a (map fst (pr_waq s))
  | PCancel _ rv => rv <> 0%N
  | _ => True
  end.

Lemma pair_init_inv : PInv pair_init /\ RInv pair_init /\ WInv pair_init.
Proof.
  unfold PInv, RInv, WInv, pair_init. simp_r. cbn. repeat split; try discriminate; try congruence; auto; constructor.
Qed.

(* ---- small facts ---- *)
Lemma lmq_put_ok q cap m : length q < cap -> lmq_put q cap m = q ++ [m].
Proof. intros H. unfold lmq_put, lmq_full. destruct (Nat.leb_spec cap (length q)); [lia|reflexivity]. Qed.
Lemma set_snd_some_fresh l p x : ~ In p (map fst l) -> set_snd l p (Some x) = (p, x) :: l.
Proof. intros H. unfold set_snd. now rewrite filter_keep_notin. Qed.
Lemma set_snd_none_fresh l p : ~ In p (map fst l) -> set_snd l p None = l.
Proof. intros H. unfold set_snd. now rewrite filter_keep_notin. Qed.
Lemma snd_of_fresh l p : ~ In p (map fst l) -> snd_of l p = [].
Proof. intros H. unfold snd_of. now rewrite filter_eq_notin. Qed.
Lemma set_snd_none_notin l p : ~ In p (map fst (set_snd l p None)).
Proof. unfold set_snd. apply notin_filter_self. Qed.
Lemma set_snd_none_nodup l p : NoDup (map fst l) -> NoDup (map fst (set_snd l p None)).
Proof. unfold set_snd. apply nodup_filter_keys. Qed.
Lemma cnt_set_snd_none x l p : cnt x (map snd l) = cnt x (snd_of l p) + cnt x (map snd (set_snd l p None)).
Proof. unfold snd_of, set_snd. apply cnt_partition. Qed.

Opaque set_snd snd_of.

Lemma pacc_app aq o a b : pacc aq o (a ++ b) = pacc aq o a ++ pacc aq o b.
Proof. induction a as [|x a IH]; cbn; [reflexivity|]. destruct x; rewrite ?IH; auto. destruct m; rewrite ?app_assoc; auto. Qed.
Lemma pacc_map_Free aq o l : pacc aq o (map Free l) = [].
Proof. induction l; cbn; auto. Qed.
Lemma pacc_fail aq o rv l : rv <> 0%N -> pacc aq o (fail_aios rv l) = [].
Proof. intros H. induction l as [|a l IH]; cbn; [reflexivity|]. destruct (N.eqb_spec rv 0); [contradiction|]. exact IH. Qed.
Lemma pdelivered_app a b : pdelivered (a ++ b) = pdelivered a ++ pdelivered b.
Proof. induction a as [|x a IH]; cbn; [reflexivity|]. destruct x; rewrite ?IH; auto. destruct m; auto. destruct (rv =? 0)%N; cbn; congruence. Qed.
Lemma pdelivered_map_Free l : pdelivered (map Free l) = [].
Proof. induction l; cbn; auto. Qed.
Lemma pdelivered_fail rv l : pdelivered (fail_aios rv l) = [].
Proof. induction l; cbn; auto. Qed.

Ltac in_cases H := repeat (destruct H as [H|H]; [inversion H; subst; auto|]); try (destruct H).
Ltac sched_tac :=
  try discriminate; try lia; try (constructor; auto; fail);
  try (intros ?x; cbn [pacc txs]; msimp; lia);
  try (cbn [pacc txs app]; rewrite ?map_app, ?app_nil_r; cbn [map app]; reflexivity);
  try (intros ?q ?mm ?HH; in_cases HH; fail);
  try (intros ?q ?HH; in_cases HH; fail).

(* ================= pairX_send_sched ================= *)
(* with a peer attached whose aio_send is idle and wr_ready not set (the two call sites) *)
Lemma sched_law s p o s' outs :
  (forall c a nb m, o <> PSend c a nb m) ->
  pr_p s = Some p -> ~ In p (map fst (pr_sending s)) -> pr_wr s = false ->
  length (pr_wmq s) <= pr_wcap s -> NoDup (map fst (pr_waq s)) -> NoDup (map fst (pr_sending s)) ->
  pair_send_sched k s = (s', outs) ->
  (* invariants *)
  ((pr_wr s' = true -> ~ In p (map fst (pr_sending s')) /\ pr_wmq s' = [] /\ pr_waq s' = []) /\
   length (pr_wmq s') <= pr_wcap s' /\ NoDup (map fst (pr_waq s')) /\ NoDup (map fst (pr_sending s'))) /\
  (* frame *)
  (pr_p s' = pr_p s /\ pr_ttl s' = pr_ttl s /\ pr_wcap s' = pr_wcap s /\ pr_rmq s' = pr_rmq s /\ pr_rcap s' = pr_rcap s /\
   pr_raq s' = pr_raq s /\ pr_rd s' = pr_rd s /\ pr_readable s' = pr_readable s) /\
  (* conservation and order *)
  (forall x, cnt x (sendingl s ++ txs outs) = cnt x (sendingl s')) /\
  map (wire_form k) (pr_wmq s ++ pacc (pr_waq s) o outs) = txs outs ++ map (wire_form k) (pr_wmq s') /\
  freed outs = [] /\ pdelivered outs = [] /\
  (forall q m, In (TranSend q m) outs -> q = p) /\ (forall q, ~ In (TranRecv q) outs) /\ (forall q, ~ In (ClosePipe q) outs) /\
  (* the send descriptor *)
  (WInv s -> WInv s').
Proof.
  intros Ho Hp Hfr Hwr Hlen Hnd Hns H. unfold pair_send_sched in H. rewrite Hp in H.
  destruct s as [p0 ttl wmq wcap waq rmq rcap raq rd wr sn rdb wrb]. simp_r. subst p0 wr.
  unfold sendingl, WInv, can_send, lmq_full. simp_r.
  destruct wmq as [|m rest]; destruct waq as [|[a m2] aqr]; inversion H; subst; clear H; simp_r;
    rewrite ?(set_snd_some_fresh _ _ _ Hfr); cbn [map fst snd length] in *.
  - (* nothing to send: wr_ready stays set *)
    repeat split; auto; sched_tac.
    intros _. unfold lmq_full. cbn [length]. destruct (wcap <=? 0); reflexivity.
  - (* unbuffered, a sender was waiting *)
    assert (L: lookup_aq a ((a, m2) :: aqr) = [m2]) by (apply lookup_head_nodup; exact Hnd).
    assert (PA: pacc ((a, m2) :: aqr) o [TranSend p (wire_form k m2); Complete a E_OK None] = [m2]).
    { cbn [pacc]. change (E_OK =? 0)%N with true. cbn iota. destruct o; try (rewrite L; reflexivity). exfalso; eapply Ho; reflexivity. }
    rewrite PA. inversion Hnd; subst.
    repeat split; auto; sched_tac.
    intros W. unfold lmq_full. cbn [length] in *. rewrite W. destruct (wcap <=? 0); reflexivity.
  - (* buffered message goes out, nobody waiting *)
    repeat split; auto; sched_tac.
    intros _. unfold lmq_full. destruct (Nat.leb_spec wcap (length rest)); [lia|reflexivity].
  - (* buffered message goes out, the oldest waiter's message takes its place *)
    assert (L: lookup_aq a ((a, m2) :: aqr) = [m2]) by (apply lookup_head_nodup; exact Hnd).
    assert (PA: pacc ((a, m2) :: aqr) o [TranSend p (wire_form k m); Complete a E_OK None] = [m2]).
    { cbn [pacc]. change (E_OK =? 0)%N with true. cbn iota. destruct o; try (rewrite L; reflexivity). exfalso; eapply Ho; reflexivity. }
    rewrite PA. rewrite lmq_put_ok by lia. inversion Hnd; subst.
    repeat split; auto; sched_tac.
    + rewrite app_length. cbn. lia.
    + intros W. unfold lmq_full. rewrite app_length. cbn [length]. replace (length rest + 1) with (S (length rest)) by lia.
      rewrite W. destruct (wcap <=? S (length rest)); reflexivity.
Qed.


(* ================= one step ================= *)
Definition StepLaw (s : pair) (o : pop) (s' : pair) (outs : list pout) : Prop :=
  PInv s' /\
  (* C1 outbound, as sequences: accepted messages reach the transport in acceptance order *)
  map (wire_form k) (pr_wmq s ++ paccepted s o outs) = txs outs ++ map (wire_form k) (pr_wmq s' ++ wloss s o) /\
  (* C2 in flight *)
  (forall x, cnt x (sendingl s ++ txs outs) = cnt x (sendingl s' ++ wire_taken s o ++ snd_freed s o)) /\
  (* C3 inbound, as multisets and (when nothing is explicitly dropped) as sequences *)
  (forall x, cnt x (inq s ++ arrived_ok s o) = cnt x (pdelivered outs ++ inq s' ++ rloss s o)) /\
  (rloss s o = [] -> inq s ++ arrived_ok s o = pdelivered outs ++ inq s') /\
  sublist (pdelivered outs ++ inq s') (inq s ++ arrived_ok s o) /\
  (* C4 every Free is one of the named losses *)
  (forall x, cnt x (freed outs) = cnt x (rx_rejected s o ++ rloss s o ++ wloss s o ++ snd_freed s o)) /\
  (* all traffic goes to the attached peer *)
  (forall q m, In (TranSend q m) outs -> pr_p s' = Some q) /\
  (forall q, In (TranRecv q) outs -> pr_p s' = Some q).

Ltac use_I1 := match goal with I1 : ?w = true -> _, W : ?w = true |- _ => destruct (I1 W) as (? & ? & ?); subst; cbn; auto end.
Ltac use_I2 := match goal with I2 : ?r <> None -> _, R : ?r <> None |- _ => destruct (I2 R) as (? & ?); subst; cbn; auto end.
Ltac leaf :=
  try discriminate; try (constructor; auto; fail); try (intros; discriminate); try congruence; try lia; try (intros; congruence);
  try solve [use_I1]; try solve [use_I2];
  try (intros ?x; cbn [pacc txs freed pdelivered]; msimp; lia);
  try (cbn [pacc txs pdelivered app]; rewrite ?map_app, ?app_nil_r; cbn [map app]; reflexivity);
  try (intros _; cbn [pacc txs pdelivered app]; rewrite ?map_app, ?app_nil_r, <- ?app_assoc; cbn [map app]; reflexivity);
  try (cbn [pdelivered app]; rewrite ?app_nil_r; apply sublist_refl);
  try (intros ?q ?mm ?HH; in_cases HH; fail);
  try (intros ?q ?HH; in_cases HH; fail).

Ltac open_state s :=
  destruct s as [p0 ttl wmq wcap waq rmq rcap raq rd wr sn rdb wrb];
  unfold StepLaw, PInv, paccepted, inq, rdl, sendingl, wloss, rloss, attached, wire_taken, snd_freed, arrived_ok, rx_rejected, op_ok in *; simp_r.

Lemma notin_set_snd_none l p q : ~ In q (map fst l) -> ~ In q (map fst (set_snd l p None)).
Proof. Transparent set_snd. unfold set_snd. intros H Hin. apply H. eapply in_filter_keys; eauto. Qed.
Opaque set_snd.

Lemma law_trivial s o : PInv s ->
  wloss s o = [] -> rloss s o = [] -> wire_taken s o = [] -> snd_freed s o = [] -> arrived_ok s o = [] ->
  forall outs, txs outs = [] -> pdelivered outs = [] -> paccepted s o outs = [] ->
  (forall x, cnt x (freed outs) = cnt x (rx_rejected s o)) ->
  (forall q m, ~ In (TranSend q m) outs) -> (forall q, In (TranRecv q) outs -> pr_p s = Some q) ->
  StepLaw s o s outs.
Proof.
  intros HI E1 E2 E3 E4 E5 outs T D A F NS NR. unfold StepLaw. rewrite E1, E2, E3, E4, E5, T, D, A.
  split; [exact HI|]. repeat split; auto; rewrite ?app_nil_r; auto.
  - apply sublist_refl.
  - intros q m Hin. exfalso. eapply NS; eauto.
Qed.

Lemma law_PSend s c a nb m s' outs :
  PInv s -> op_ok s (PSend c a nb m) -> pair_step k fx fr s (PSend c a nb m) = (s', outs) -> StepLaw s (PSend c a nb m) s' outs.
Proof.
  intros HI Hok H. cbn [pair_step] in H.
  destruct (norm_send k m) as [m'|] eqn:EN.
  2:{ inversion H; subst. apply law_trivial; auto; try reflexivity; try (intros ? ? [E|[]]; inversion E); try (intros ? [E|[]]; inversion E). }
  pose proof HI as (I1 & I2 & I3 & I4 & I5 & I6 & I7).
  open_state s. destruct wr.
  - destruct (I1 eq_refl) as (A & B & C). subst wmq waq. destruct p0 as [p|]; [|contradiction].
    inversion H; subst; clear H; simp_r. rewrite (set_snd_some_fresh _ _ _ A).
    cbn [pacc]. change (E_OK =? 0)%N with true. cbn iota. rewrite N.eqb_refl, EN. cbn [optl app].
    repeat split; auto; leaf.
  - destruct (lmq_full wmq wcap) eqn:F; cbn [negb] in H.
    + destruct nb; inversion H; subst; clear H; simp_r.
      * cbn [pacc]. change (E_AGAIN =? 0)%N with false. cbn iota.
        repeat split; auto; leaf.
      * cbn [pacc]. repeat split; auto; leaf.
        rewrite map_app. cbn [map fst]. apply nodup_snoc; auto.
    + inversion H; subst; clear H; simp_r. unfold lmq_full in F. apply Nat.leb_gt in F.
      cbn [pacc]. change (E_OK =? 0)%N with true. cbn iota. rewrite N.eqb_refl, EN. cbn [optl app].
      repeat split; auto; leaf. rewrite app_length. cbn. lia.
Qed.

Lemma law_PRecv s c a nb s' outs :
  PInv s -> pair_step k fx fr s (PRecv c a nb) = (s', outs) -> StepLaw s (PRecv c a nb) s' outs.
Proof.
  intros HI H. cbn [pair_step] in H. pose proof HI as (I1 & I2 & I3 & I4 & I5 & I6 & I7).
  open_state s. destruct rmq as [|m rest].
  - destruct rd as [h|].
    + destruct I2 as [P R]; [discriminate|]. subst raq. destruct p0 as [p|]; [|congruence].
      inversion H; subst; clear H; simp_r. cbn [pacc pdelivered]. change (E_OK =? 0)%N with true. cbn iota.
      repeat split; auto; leaf.
    + destruct nb; inversion H; subst; clear H; simp_r; cbn [pacc pdelivered]; change (E_AGAIN =? 0)%N with false; cbn iota;
        repeat split; auto; leaf.
  - assert (RQ: raq = []) by (destruct raq; auto; exfalso; assert (X: m :: rest = []) by (apply I3; discriminate); discriminate).
    subst raq. cbn [length] in I5. destruct rd as [h|].
    + destruct I2 as [P _]; [discriminate|]. destruct p0 as [p|]; [|congruence].
      rewrite lmq_put_ok in H by lia.
      inversion H; subst; clear H; simp_r. cbn [pacc pdelivered]. change (E_OK =? 0)%N with true. cbn iota.
      repeat split; auto; leaf.
      all: try solve [rewrite app_length; cbn; lia].
      all: try solve [intros _; cbn [app]; now rewrite <- app_assoc, app_nil_r].
      all: try solve [cbn [app]; rewrite app_nil_r; rewrite <- app_assoc; apply sublist_refl].
    + inversion H; subst; clear H; simp_r. cbn [pacc pdelivered]. change (E_OK =? 0)%N with true. cbn iota.
      repeat split; auto; leaf.
Qed.

Lemma law_PCancel s a rv s' outs :
  PInv s -> rv <> 0%N -> pair_step k fx fr s (PCancel a rv) = (s', outs) -> StepLaw s (PCancel a rv) s' outs.
Proof.
  intros HI Hrv H. cbn [pair_step] in H. pose proof HI as (I1 & I2 & I3 & I4 & I5 & I6 & I7).
  open_state s. destruct (has_aio a waq) eqn:EA; [|destruct (has_id a raq) eqn:ER]; inversion H; subst; clear H; simp_r;
    cbn [pacc pdelivered]; try (destruct (N.eqb_spec rv 0); [contradiction|]).
  - repeat split; auto; leaf.
    all: try solve [use_I1].
    all: try solve [unfold remove_aio; now apply nodup_filter_keys].
  - repeat split; auto; leaf.
    all: try solve [use_I2].
    all: try solve [intros R; apply I3; intros E; subst; apply R; reflexivity].
  - repeat split; auto; leaf.
Qed.

Lemma law_PPipeClose s p s' outs :
  PInv s -> pair_step k fx fr s (PPipeClose p) = (s', outs) -> StepLaw s (PPipeClose p) s' outs.
Proof.
  intros HI H. cbn [pair_step] in H. pose proof HI as (I1 & I2 & I3 & I4 & I5 & I6 & I7).
  open_state s. destruct p0 as [q|].
  - destruct (q =? p)%N; inversion H; subst; clear H; simp_r.
    + destruct rd as [h|]; cbn [pacc pdelivered freed app]; repeat split; auto; leaf.
      all: try solve [rewrite ?app_nil_r; apply sublist_app_l].
    + repeat split; auto; leaf.
  - inversion H; subst; clear H. repeat split; auto; leaf.
Qed.

Lemma law_PSockClose s s' outs :
  PInv s -> pair_step k fx fr s PSockClose = (s', outs) -> StepLaw s PSockClose s' outs.
Proof.
  intros HI H. cbn [pair_step] in H. pose proof HI as (I1 & I2 & I3 & I4 & I5 & I6 & I7).
  open_state s. inversion H; subst; clear H; simp_r.
  rewrite !pacc_app, !pdelivered_app, !txs_app, !freed_app, !pacc_fail, !pdelivered_fail, !txs_fail, !freed_fail,
    !pacc_map_Free, !pdelivered_map_Free, !txs_map_Free, !freed_map_Free by discriminate.
  cbn [app]. repeat split; auto; leaf.
  all: try solve [use_I1].
  all: try solve [use_I2].
  all: try solve [intros x; msimp; lia].
  all: try solve [cbn; lia].
  all: try solve [intros E; subst; cbn [app]; now rewrite app_nil_r].
  all: try solve [rewrite app_nil_r; apply sl_skip_app].
  all: try solve [intros q m Hin; exfalso; revert Hin; rewrite !in_app_iff; unfold fail_aios; rewrite !in_map_iff;
    intros [(? & E & _)|[(? & E & _)|[(? & E & _)|(? & E & _)]]]; inversion E].
  all: try solve [intros q Hin; exfalso; revert Hin; rewrite !in_app_iff; unfold fail_aios; rewrite !in_map_iff;
    intros [(? & E & _)|[(? & E & _)|[(? & E & _)|(? & E & _)]]]; inversion E].
Qed.

Lemma law_PRecvDone s p rv m s' outs :
  PInv s -> op_ok s (PRecvDone p rv m) -> pair_step k fx fr s (PRecvDone p rv m) = (s', outs) -> StepLaw s (PRecvDone p rv m) s' outs.
Proof.
  intros HI Hok H. cbn [pair_step] in H. pose proof HI as (I1 & I2 & I3 & I4 & I5 & I6 & I7).
  open_state s. destruct (N.eqb_spec rv 0) as [->|Hrv]; cbn [negb] in H.
  2:{ inversion H; subst; clear H. repeat split; auto; leaf. }
  destruct (Hok eq_refl) as [HP HR]. subst p0 rd.
  destruct (rx_decode k ttl m) as [| |m'] eqn:ED.
  - inversion H; subst; clear H. repeat split; auto; leaf.
  - inversion H; subst; clear H. repeat split; auto; leaf.
  - destruct raq as [|a rest].
    + destruct (lmq_full rmq rcap) eqn:F; cbn [negb] in H; inversion H; subst; clear H; simp_r.
      * repeat split; auto; leaf.
      * unfold lmq_full in F. apply Nat.leb_gt in F. repeat split; auto; leaf.
        all: try solve [rewrite app_length; cbn; lia].
    + assert (RQ: rmq = []) by (apply I3; discriminate). subst rmq.
      inversion H; subst; clear H; simp_r. cbn [pacc pdelivered]. change (E_OK =? 0)%N with true. cbn iota.
      repeat split; auto; leaf.
Qed.

Lemma law_PSendDone s p rv s' outs :
  PInv s -> op_ok s (PSendDone p rv) -> pair_step k fx fr s (PSendDone p rv) = (s', outs) -> StepLaw s (PSendDone p rv) s' outs.
Proof.
  intros HI Hok H. cbn [pair_step] in H. pose proof HI as (I1 & I2 & I3 & I4 & I5 & I6 & I7).
  destruct (N.eqb_spec rv 0) as [->|Hrv]; cbn [negb] in H.
  - (* success: the transport consumed the message; send_sched *)
    destruct Hok as [Hin HP]. specialize (HP eq_refl).
    assert (WR: pr_wr s = false).
    { destruct (pr_wr s) eqn:W; auto. destruct (I1 eq_refl) as (A & _). rewrite HP in A. contradiction. }
    set (s0 := mkPair (pr_p s) (pr_ttl s) (pr_wmq s) (pr_wcap s) (pr_waq s) (pr_rmq s) (pr_rcap s) (pr_raq s) (pr_rd s) (pr_wr s)
                      (set_snd (pr_sending s) p None) (pr_readable s) (pr_writable s)) in *.
    destruct (sched_law s0 p (PSendDone p 0) s' outs ltac:(intros; discriminate) HP (set_snd_none_notin _ _) WR I4 I6
                (set_snd_none_nodup _ _ I7) H)
      as ((J1 & J2 & J3 & J4) & (F1 & F2 & F3 & F4 & F5 & F6 & F7 & F8) & C2 & C1 & FR & DL & TS & TR & CP & _).
    unfold s0 in *; simp_r. unfold StepLaw, PInv, paccepted, inq, rdl, sendingl, wloss, rloss, wire_taken, snd_freed, arrived_ok, rx_rejected. simp_r.
    rewrite N.eqb_refl. rewrite F1, F4, F5, F6, F7, FR, DL, HP.
    split; [|split; [|split; [|split; [|split; [|split; [|split; [|split]]]]]]]; auto.
    all: try reflexivity.
    all: try solve [repeat split; auto; try discriminate; try solve [apply J1; assumption]; try solve [apply I2; assumption]; try solve [apply I3; assumption]].
    all: try solve [rewrite C1; now rewrite !app_nil_r].
    all: try solve [intros x; specialize (C2 x); pose proof (cnt_set_snd_none x (pr_sending s) p) as P; unfold sendingl in *; simp_r; msimp; lia].
    all: try solve [intros x; msimp; lia].
    all: try solve [intros _; now rewrite app_nil_r].
    all: try solve [cbn [app]; rewrite app_nil_r; apply sublist_refl].
    all: try solve [intros q m Hq; f_equal; symmetry; eapply TS; eauto].
    all: try solve [intros q Hq; exfalso; eapply TR; eauto].
  - (* failure: the message is freed, the pipe closed; no socket state is touched *)
    destruct Hok as [Hin _]. open_state s. inversion H; subst; clear H; simp_r.
    destruct (N.eqb_spec rv 0); [contradiction|].
    rewrite !pacc_app, !pdelivered_app, !txs_app, !freed_app, !pacc_map_Free, !pdelivered_map_Free, !txs_map_Free, !freed_map_Free.
    cbn [pacc pdelivered txs freed app]. repeat split; auto; leaf.
    all: try solve [use_I1; destruct p0; auto; apply notin_set_snd_none; auto].
    all: try solve [apply set_snd_none_nodup; auto].
    all: try solve [intros x; pose proof (cnt_set_snd_none x sn p) as P; msimp; lia].
    all: try solve [intros q m Hq; exfalso; revert Hq; rewrite in_app_iff, in_map_iff; intros [(? & E & _)|[E|[]]]; inversion E].
    all: try solve [intros q Hq; exfalso; revert Hq; rewrite in_app_iff, in_map_iff; intros [(? & E & _)|[E|[]]]; inversion E].
Qed.

Lemma law_PPipeStart s p peer s' outs :
  PInv s -> op_ok s (PPipeStart p peer) -> pair_step k fx fr s (PPipeStart p peer) = (s', outs) -> StepLaw s (PPipeStart p peer) s' outs.
Proof.
  intros HI Hok H. cbn [pair_step] in H. pose proof HI as (I1 & I2 & I3 & I4 & I5 & I6 & I7).
  destruct (negb (peer =? pair_peer k)%N).
  { inversion H; subst. apply law_trivial; auto; try reflexivity; try (intros ? ? [E|[]]; inversion E); try (intros ? [E|[]]; inversion E). }
  destruct (pr_p s) as [q|] eqn:EP.
  { inversion H; subst. apply law_trivial; auto; try reflexivity; try (intros ? ? [E|[]]; inversion E); try (intros ? [E|[]]; inversion E). }
  assert (WR: pr_wr s = false).
  { destruct (pr_wr s) eqn:W; auto. destruct (I1 eq_refl) as (A & _). destruct A. }
  assert (RD: pr_rd s = None).
  { destruct (pr_rd s) eqn:R; auto. destruct I2 as [A _]; [discriminate|]. congruence. }
  set (s1 := mkPair (Some p) (pr_ttl s) (pr_wmq s) (pr_wcap s) (pr_waq s) (pr_rmq s) (pr_rcap s) (pr_raq s) None (pr_wr s)
                    (pr_sending s) (pr_readable s) (pr_writable s)) in *.
  destruct (pair_send_sched k s1) as [s2 o2] eqn:SS. inversion H; subst; clear H.
  cbn [op_ok] in Hok.
  destruct (sched_law s1 p (PPipeStart p peer) s' o2 ltac:(intros; discriminate) eq_refl Hok WR I4 I6 I7 SS)
    as ((J1 & J2 & J3 & J4) & (F1 & F2 & F3 & F4 & F5 & F6 & F7 & F8) & C2 & C1 & FR & DL & TS & TR & CP & _).
  unfold s1 in *; simp_r. unfold StepLaw, PInv, paccepted, inq, rdl, sendingl, wloss, rloss, wire_taken, snd_freed, arrived_ok, rx_rejected. simp_r.
  rewrite !pacc_app, !pdelivered_app, !txs_app, !freed_app. cbn [pacc pdelivered txs freed].
  rewrite F1, F4, F5, F6, F7, FR, DL, RD.
  split; [|split; [|split; [|split; [|split; [|split; [|split; [|split]]]]]]]; auto.
  all: try reflexivity.
  all: try solve [repeat split; auto; try discriminate; try congruence; try solve [apply J1; assumption]; try solve [apply I2; assumption]; try solve [apply I3; assumption]].
  all: try solve [rewrite !app_nil_r; rewrite C1; reflexivity].
  all: try solve [intros x; specialize (C2 x); unfold sendingl in *; simp_r; msimp; lia].
  all: try solve [intros x; unfold attached; rewrite ?EP; msimp; lia].
  all: try solve [intros _; now rewrite !app_nil_r].
  all: try solve [cbn [app]; rewrite !app_nil_r; apply sublist_refl].
  all: try solve [intros q m Hq; apply in_app_or in Hq as [Hq|[E|[]]]; [|inversion E]; f_equal; symmetry; eapply TS; eauto].
  all: try solve [intros q Hq; apply in_app_or in Hq as [Hq|[E|[]]]; [exfalso; eapply TR; eauto|]; inversion E; reflexivity].
Qed.

(* ---- set_send_buf_len's admission loop ---- *)
Lemma takein_spec cap : forall q w,
  takein_waiters cap w q =
  (w ++ map snd (firstn (cap - length w) q), skipn (cap - length w) q, map fst (firstn (cap - length w) q)).
Proof.
  induction q as [|[a m] r IH]; intros w; cbn [takein_waiters].
  - rewrite firstn_nil, skipn_nil. cbn. now rewrite app_nil_r.
  - unfold lmq_full. destruct (Nat.leb_spec cap (length w)).
    + replace (cap - length w) with 0 by lia. cbn. now rewrite app_nil_r.
    + rewrite IH. rewrite app_length. cbn [length]. replace (cap - length w) with (S (cap - (length w + 1))) by lia.
      cbn [firstn skipn map fst snd]. rewrite <- app_assoc. reflexivity.
Qed.
Definition completes (l : list aioid) : list pout := map (fun a => Complete a E_OK None) l.
Lemma txs_completes l : txs (completes l) = [].
Proof. induction l; cbn; auto. Qed.
Lemma freed_completes l : freed (completes l) = [].
Proof. induction l; cbn; auto. Qed.
Lemma pdelivered_completes l : pdelivered (completes l) = [].
Proof. induction l; cbn; auto. Qed.
Lemma pacc_completes aq c op l : pacc aq (PSetOpt c op) (completes l) = flat_map (fun a => lookup_aq a aq) l.
Proof. induction l as [|a l IH]; cbn [completes map pacc flat_map]; [reflexivity|]. change (E_OK =? 0)%N with true. cbn iota. now rewrite <- IH. Qed.
Lemma lookup_prefix : forall (q pre : list (aioid * pmsg)) r, NoDup (map fst (pre ++ q)) ->
  flat_map (fun a => lookup_aq a (pre ++ q)) (map fst (firstn r q)) = map snd (firstn r q).
Proof.
  induction q as [|[a m] rest IH]; intros pre r ND; [now rewrite firstn_nil|].
  destruct r; [reflexivity|]. cbn [firstn map fst snd flat_map].
  assert (L: lookup_aq a (pre ++ (a, m) :: rest) = [m]).
  { rewrite map_app in ND. cbn [map fst] in ND. apply NoDup_remove_2 in ND.
    unfold lookup_aq. rewrite filter_app. cbn [filter fst]. rewrite N.eqb_refl.
    rewrite !filter_eq_notin; [reflexivity| |]; intros Hin; apply ND; apply in_or_app; auto. }
  rewrite L. cbn [app]. f_equal.
  replace (pre ++ (a, m) :: rest) with ((pre ++ [(a, m)]) ++ rest) in * by (now rewrite <- app_assoc).
  apply IH. exact ND.
Qed.
Lemma nodup_skipn_keys r (q : list (aioid * pmsg)) : NoDup (map fst q) -> NoDup (map fst (skipn r q)).
Proof.
  intros H. rewrite <- (firstn_skipn r q) in H. rewrite map_app in H.
  induction (map fst (firstn r q)) as [|x l IH]; cbn in H; [exact H|]. inversion H; subst. auto.
Qed.


Lemma law_PSetOpt s c op s' outs :
  PInv s -> pair_step k fx fr s (PSetOpt c op) = (s', outs) -> StepLaw s (PSetOpt c op) s' outs.
Proof.
  intros HI H. cbn [pair_step] in H. pose proof HI as (I1 & I2 & I3 & I4 & I5 & I6 & I7).
  destruct op;
    try (inversion H; subst; apply law_trivial; auto; try reflexivity; try (intros ? ? [E|[]]; inversion E); try (intros ? [E|[]]; inversion E); fail).
  - (* send buffer *)
    destruct (PAIR_BUF_MAX <? N.of_nat n)%N eqn:EB.
    { inversion H; subst. apply law_trivial; auto; try reflexivity; try (intros ? ? [E|[]]; inversion E); try (intros ? [E|[]]; inversion E).
      cbn [wloss]. now rewrite EB. }
    open_state s. rewrite EB. destruct fr.
    + (* since 7c956d7: the blocked senders move into the resized queue *)
      rewrite takein_spec in H. fold (completes (map fst (firstn (n - length (firstn n wmq)) waq))) in H.
      set (room := n - length (firstn n wmq)) in *.
      assert (SK: skipn n wmq = [] \/ room = 0).
      { destruct (Nat.le_gt_cases (length wmq) n) as [L|L]; [left; now apply skipn_all2|right].
        unfold room. rewrite firstn_length. lia. }
      inversion H; subst; clear H; simp_r.
      rewrite !pacc_app, !pdelivered_app, !txs_app, !freed_app, !pacc_map_Free, !pdelivered_map_Free, !txs_map_Free, !freed_map_Free,
        pacc_completes, txs_completes, freed_completes, pdelivered_completes.
      pose proof (lookup_prefix waq [] room I6) as LP. cbn [app] in LP. rewrite LP. clear LP.
      cbn [pacc pdelivered txs freed app]. repeat split; auto; leaf.
      all: try solve [use_I1; unfold room; cbn; now rewrite ?firstn_nil, ?skipn_nil].
      all: try solve [rewrite app_length, map_length, !firstn_length; unfold room; rewrite firstn_length; lia].
      all: try solve [apply nodup_skipn_keys; auto].
      all: try solve [rewrite !app_nil_r; destruct SK as [E|E]; rewrite E; [rewrite app_nil_r; rewrite <- (firstn_skipn n wmq) at 1; now rewrite E, app_nil_r
                                                                           |cbn [firstn map]; rewrite !app_nil_r; now rewrite firstn_skipn]].
      all: try solve [intros q m Hq; exfalso; revert Hq; rewrite !in_app_iff, in_map_iff; unfold completes; rewrite in_map_iff; intros [(? & E & _)|[(? & E & _)|[E|[]]]]; inversion E].
      all: try solve [intros q Hq; exfalso; revert Hq; rewrite !in_app_iff, in_map_iff; unfold completes; rewrite in_map_iff; intros [(? & E & _)|[(? & E & _)|[E|[]]]]; inversion E].
    + inversion H; subst; clear H; simp_r. cbn [map app].
      rewrite !pacc_app, !pdelivered_app, !txs_app, !freed_app, !pacc_map_Free, !pdelivered_map_Free, !txs_map_Free, !freed_map_Free.
      cbn [pacc pdelivered txs freed app]. repeat split; auto; leaf.
      all: try solve [use_I1; now rewrite firstn_nil].
      all: try solve [rewrite firstn_length; lia].
      all: try solve [rewrite !app_nil_r; now rewrite firstn_skipn].
      all: try solve [intros q m Hq; exfalso; revert Hq; rewrite in_app_iff, in_map_iff; intros [(? & E & _)|[E|[]]]; inversion E].
      all: try solve [intros q Hq; exfalso; revert Hq; rewrite in_app_iff, in_map_iff; intros [(? & E & _)|[E|[]]]; inversion E].
  - (* receive buffer *)
    destruct (PAIR_BUF_MAX <? N.of_nat n)%N eqn:EB.
    { inversion H; subst. apply law_trivial; auto; try reflexivity; try (intros ? ? [E|[]]; inversion E); try (intros ? [E|[]]; inversion E).
      cbn [rloss]. now rewrite EB. }
    open_state s. rewrite EB. inversion H; subst; clear H; simp_r.
    rewrite !pacc_app, !pdelivered_app, !txs_app, !freed_app, !pacc_map_Free, !pdelivered_map_Free, !txs_map_Free, !freed_map_Free.
    cbn [pacc pdelivered txs freed app]. repeat split; auto; leaf.
    all: try solve [intros R; rewrite (I3 R); now rewrite firstn_nil].
    all: try solve [rewrite firstn_length; lia].
    all: try solve [intros x; rewrite <- (firstn_skipn n rmq) at 1; msimp; lia].
    all: try solve [intros E; rewrite !app_nil_r; rewrite <- (firstn_skipn n rmq) at 1; rewrite E; now rewrite app_nil_r].
    all: try solve [rewrite !app_nil_r; apply sublist_app; [apply sublist_firstn|apply sublist_refl]].
    all: try solve [intros q m Hq; exfalso; revert Hq; rewrite in_app_iff, in_map_iff; intros [(? & E & _)|[E|[]]]; inversion E].
    all: try solve [intros q Hq; exfalso; revert Hq; rewrite in_app_iff, in_map_iff; intros [(? & E & _)|[E|[]]]; inversion E].
  - (* ttl *)
    destruct k.
    { inversion H; subst. apply law_trivial; auto; try reflexivity; try (intros ? ? [E|[]]; inversion E); try (intros ? [E|[]]; inversion E). }
    destruct ((n <? PAIR_TTL_MIN) || (PAIR_TTL_MAX <? n)).
    { inversion H; subst. apply law_trivial; auto; try reflexivity; try (intros ? ? [E|[]]; inversion E); try (intros ? [E|[]]; inversion E). }
    open_state s. inversion H; subst; clear H; simp_r. repeat split; auto; leaf.
Qed.

Theorem pair_step_law s o s' outs :
  PInv s -> op_ok s o -> pair_step k fx fr s o = (s', outs) -> StepLaw s o s' outs.
Proof.
  intros HI Hok H.
  destruct o as [c a nb m|c a nb|a rv|p peer|p|p rv|p rv m| c op|c|c| |now].
  - eapply law_PSend; eauto.
  - eapply law_PRecv; eauto.
  - eapply law_PCancel; eauto.
  - eapply law_PPipeStart; eauto.
  - eapply law_PPipeClose; eauto.
  - eapply law_PSendDone; eauto.
  - eapply law_PRecvDone; eauto.
  - eapply law_PSetOpt; eauto.
  - cbn [pair_step] in H. inversion H; subst. apply law_trivial; auto; try reflexivity; try (intros ? ? [E|[]]; inversion E); try (intros ? [E|[]]; inversion E).
  - cbn [pair_step] in H. inversion H; subst. apply law_trivial; auto; try reflexivity; try (intros ? ? []); try (intros ? []).
  - eapply law_PSockClose; eauto.
  - cbn [pair_step] in H. inversion H; subst. apply law_trivial; auto; try reflexivity; try (intros ? ? []); try (intros ? []).
Qed.

(* ================= the poll descriptors ================= *)
Ltac inv H := injection H as <- <-.
Ltac open_flags s :=
  destruct s as [p0 ttl wmq wcap waq rmq rcap raq rd wr sn rdb wrb];
  unfold PInv, RInv, WInv, can_recv, can_send, op_ok in *; simp_r.
Ltac bool_crunch :=
  repeat match goal with
         | |- context[if ?b then _ else _] => destruct b eqn:?
         | H : context[if ?b then _ else _] |- _ => destruct b eqn:?
         end; cbn in *; try congruence; try reflexivity.

Theorem pair_readable_mirror s o s' outs :
  PInv s -> op_ok s o -> o <> PSockClose -> RInv s -> pair_step k fx fr s o = (s', outs) -> RInv s'.
Proof.
  intros HI Hok Hns HR H. pose proof HI as (I1 & I2 & I3 & I4 & I5 & I6 & I7).
  destruct o as [c a nb m|c a nb|a rv|p peer|p|p rv|p rv m| c op|c|c| |now]; cbn [pair_step] in H.
  - (* PSend: receive side untouched *)
    destruct (norm_send k m); [|inv H; exact HR].
    open_flags s. destruct wr; [destruct p0|destruct (lmq_full wmq wcap); [destruct nb|]]; inv H; simp_r; exact HR.
  - (* PRecv *)
    open_flags s. destruct rmq as [|m rest].
    + destruct rd; [|destruct nb]; inv H; simp_r; auto.
    + destruct rd as [h|].
      * cbn [length] in I5. rewrite lmq_put_ok in H by lia. inv H; simp_r.
        destruct rest; cbn in *; auto.
      * inv H; simp_r. destruct rest; cbn in *; auto.
  - open_flags s. destruct (has_aio a waq); [|destruct (has_id a raq)]; inv H; simp_r; exact HR.
  - (* PPipeStart *)
    destruct (negb (peer =? pair_peer k)%N); [inv H; exact HR|].
    destruct (pr_p s) eqn:EP; [inv H; exact HR|].
    assert (WR: pr_wr s = false).
    { destruct (pr_wr s) eqn:W; auto. destruct (I1 eq_refl) as (A & _). destruct A. }
    assert (RD: pr_rd s = None).
    { destruct (pr_rd s) eqn:R; auto. destruct I2 as [A _]; [discriminate|]. congruence. }
    set (s1 := mkPair (Some p) (pr_ttl s) (pr_wmq s) (pr_wcap s) (pr_waq s) (pr_rmq s) (pr_rcap s) (pr_raq s) None (pr_wr s)
                      (pr_sending s) (pr_readable s) (pr_writable s)) in *.
    destruct (pair_send_sched k s1) as [s2 o2] eqn:SS. inv H. cbn [op_ok] in Hok.
    destruct (sched_law s1 p (PPipeStart p peer) s2 o2 ltac:(intros; discriminate) eq_refl Hok WR I4 I6 I7 SS)
      as (_ & (F1 & F2 & F3 & F4 & F5 & F6 & F7 & F8) & _).
    unfold RInv, can_recv in *. rewrite F4, F7, F8. unfold s1; simp_r. rewrite HR, RD. reflexivity.
  - (* PPipeClose *)
    open_flags s. destruct p0 as [q|]; [destruct (q =? p)%N|]; inv H; simp_r; auto.
    all: try solve [destruct rmq; cbn in *; auto; destruct rd; auto].
  - (* PSendDone *)
    destruct (negb (rv =? 0)%N) eqn:ER.
    + open_flags s. inv H; simp_r; exact HR.
    + destruct (N.eqb_spec rv 0) as [->|]; [|discriminate]. destruct Hok as [Hin HP]. specialize (HP eq_refl).
      assert (WR: pr_wr s = false).
      { destruct (pr_wr s) eqn:W; auto. destruct (I1 eq_refl) as (A & _). rewrite HP in A. contradiction. }
      set (s0 := mkPair (pr_p s) (pr_ttl s) (pr_wmq s) (pr_wcap s) (pr_waq s) (pr_rmq s) (pr_rcap s) (pr_raq s) (pr_rd s) (pr_wr s)
                        (set_snd (pr_sending s) p None) (pr_readable s) (pr_writable s)) in *.
      destruct (sched_law s0 p (PSendDone p 0) s' outs ltac:(intros; discriminate) HP (set_snd_none_notin _ _) WR I4 I6
                  (set_snd_none_nodup _ _ I7) H) as (_ & (F1 & F2 & F3 & F4 & F5 & F6 & F7 & F8) & _).
      unfold RInv, can_recv in *. rewrite F4, F7, F8. unfold s0; simp_r. exact HR.
  - (* PRecvDone *)
    open_flags s. destruct (negb (rv =? 0)%N); [inv H; exact HR|].
    destruct (rx_decode k ttl m); try (inv H; exact HR).
    destruct raq as [|a rest].
    + destruct (lmq_full rmq rcap); cbn [negb] in H; inv H; simp_r.
      * destruct rmq; reflexivity.
      * destruct rmq; reflexivity.
    + assert (RQ: rmq = []) by (apply I3; discriminate). inv H; simp_r. exact HR.
  - (* PSetOpt *)
    open_flags s. destruct op; try (inv H; exact HR).
    + destruct (PAIR_BUF_MAX <? N.of_nat n)%N; [inv H; simp_r; exact HR|].
      destruct fr; [rewrite takein_spec in H|]; inv H; simp_r; exact HR.
    + destruct (PAIR_BUF_MAX <? N.of_nat n)%N; inv H; simp_r; [exact HR|].
      destruct (firstn n rmq); cbn; auto. destruct rd; auto. rewrite HR. now rewrite orb_true_r.
    + destruct k; [inv H; exact HR|].
      destruct ((n <? PAIR_TTL_MIN) || (PAIR_TTL_MAX <? n)); inv H; simp_r; exact HR.
  - inv H; exact HR.
  - inv H; exact HR.
  - congruence.
  - inv H; exact HR.
Qed.

(* the send descriptor: every step keeps it equal to "a non-blocking send would not get
   NNG_EAGAIN", except -- in the pinned source (fx = false) -- pipe_stop *)
Theorem pair_writable_mirror s o s' outs :
  PInv s -> op_ok s o -> o <> PSockClose -> (fx = true \/ forall p, o <> PPipeClose p) ->
  WInv s -> pair_step k fx fr s o = (s', outs) -> WInv s'.
Proof.
  intros HI Hok Hns Hfx HW H. pose proof HI as (I1 & I2 & I3 & I4 & I5 & I6 & I7).
  destruct o as [c a nb m|c a nb|a rv|p peer|p|p rv|p rv m| c op|c|c| |now]; cbn [pair_step] in H.
  - (* PSend *)
    destruct (norm_send k m) as [m'|]; [|inv H; exact HW].
    open_flags s. destruct wr.
    + destruct (I1 eq_refl) as (A & B & C). subst. destruct p0; [|contradiction]. inv H; simp_r.
      unfold lmq_full in *. cbn [length] in *. destruct (wcap <=? 0); cbn in *; auto.
    + destruct (lmq_full wmq wcap) eqn:F; cbn [negb] in H.
      * destruct nb; inv H; simp_r; rewrite ?F; auto.
      * inv H; simp_r. rewrite ?F in HW. cbn in *. destruct (lmq_full (wmq ++ [m']) wcap); cbn; auto.
  - (* PRecv: send side untouched *)
    open_flags s. destruct rmq as [|m rest]; [destruct rd; [|destruct nb]|destruct rd]; inv H; simp_r; exact HW.
  - open_flags s. destruct (has_aio a waq); [|destruct (has_id a raq)]; inv H; simp_r; exact HW.
  - (* PPipeStart *)
    destruct (negb (peer =? pair_peer k)%N); [inv H; exact HW|].
    destruct (pr_p s) eqn:EP; [inv H; exact HW|].
    assert (WR: pr_wr s = false).
    { destruct (pr_wr s) eqn:W; auto. destruct (I1 eq_refl) as (A & _). destruct A. }
    set (s1 := mkPair (Some p) (pr_ttl s) (pr_wmq s) (pr_wcap s) (pr_waq s) (pr_rmq s) (pr_rcap s) (pr_raq s) None (pr_wr s)
                      (pr_sending s) (pr_readable s) (pr_writable s)) in *.
    destruct (pair_send_sched k s1) as [s2 o2] eqn:SS. inv H. cbn [op_ok] in Hok.
    destruct (sched_law s1 p (PPipeStart p peer) s2 o2 ltac:(intros; discriminate) eq_refl Hok WR I4 I6 I7 SS)
      as (_ & _ & _ & _ & _ & _ & _ & _ & _ & W). apply W. exact HW.
  - (* PPipeClose *)
    open_flags s. destruct p0 as [q|]; [destruct (q =? p)%N eqn:EQ|]; inv H; simp_r; auto.
    destruct wr; [|exact HW]. destruct Hfx as [->|Hn]; [|exfalso; eapply Hn; reflexivity].
    cbn. destruct (I1 eq_refl) as (A & B & C). subst. destruct (lmq_full [] wcap) eqn:F; cbn; auto; try (rewrite HW; cbn; reflexivity).
  - (* PSendDone *)
    destruct (negb (rv =? 0)%N) eqn:ER.
    + open_flags s. inv H; simp_r; exact HW.
    + destruct (N.eqb_spec rv 0) as [->|]; [|discriminate]. destruct Hok as [Hin HP]. specialize (HP eq_refl).
      assert (WR: pr_wr s = false).
      { destruct (pr_wr s) eqn:W; auto. destruct (I1 eq_refl) as (A & _). rewrite HP in A. contradiction. }
      set (s0 := mkPair (pr_p s) (pr_ttl s) (pr_wmq s) (pr_wcap s) (pr_waq s) (pr_rmq s) (pr_rcap s) (pr_raq s) (pr_rd s) (pr_wr s)
                        (set_snd (pr_sending s) p None) (pr_readable s) (pr_writable s)) in *.
      destruct (sched_law s0 p (PSendDone p 0) s' outs ltac:(intros; discriminate) HP (set_snd_none_notin _ _) WR I4 I6
                  (set_snd_none_nodup _ _ I7) H) as (_ & _ & _ & _ & _ & _ & _ & _ & _ & W). apply W. exact HW.
  - (* PRecvDone: send side untouched *)
    open_flags s. destruct (negb (rv =? 0)%N); [inv H; exact HW|].
    destruct (rx_decode k ttl m); try (inv H; exact HW).
    destruct raq; [destruct (lmq_full rmq rcap); cbn [negb] in H|]; inv H; simp_r; exact HW.
  - (* PSetOpt *)
    open_flags s. destruct op; try (inv H; exact HW).
    + destruct (PAIR_BUF_MAX <? N.of_nat n)%N; [inv H; simp_r; exact HW|].
      destruct fr; [rewrite takein_spec in H|]; inv H; simp_r;
        match goal with |- context[lmq_full ?q n] => destruct (lmq_full q n) end; cbn; try (now rewrite orb_true_r);
        destruct wr; cbn; auto; try (rewrite HW; reflexivity).
    + destruct (PAIR_BUF_MAX <? N.of_nat n)%N; inv H; simp_r; exact HW.
    + destruct k; [inv H; exact HW|].
      destruct ((n <? PAIR_TTL_MIN) || (PAIR_TTL_MAX <? n)); inv H; simp_r; exact HW.
  - inv H; exact HW.
  - inv H; exact HW.
  - congruence.
  - inv H; exact HW.
Qed.

(* ================= one peer at a time ================= *)
Theorem pair_second_peer_rejected s q p peer :
  pr_p s = Some q ->
  pair_step k fx fr s (PPipeStart p peer) = (s, [Reject (if N.eqb peer (pair_peer k) then E_BUSY else E_PROTO)]).
Proof. intros HP. cbn [pair_step]. destruct (peer =? pair_peer k)%N; cbn [negb]; [rewrite HP|]; reflexivity. Qed.

Theorem pair_wrong_peer_rejected s p peer :
  peer <> pair_peer k -> pair_step k fx fr s (PPipeStart p peer) = (s, [Reject E_PROTO]).
Proof. intros Hne. cbn [pair_step]. destruct (N.eqb_spec peer (pair_peer k)); [contradiction|]. reflexivity. Qed.

Lemma sched_no_reject s s' outs : pair_send_sched k s = (s', outs) -> pr_p s' = pr_p s /\ forall rv, ~ In (Reject rv) outs.
Proof.
  unfold pair_send_sched. destruct (pr_p s) as [p|] eqn:EP.
  - destruct (pr_wmq s) as [|m rest]; destruct (pr_waq s) as [|[a m2] aqr]; intros H; inversion H; subst; simp_r;
      (split; [auto|]); intros rv HH; in_cases HH.
  - intros H; inversion H; subst. split; auto.
Qed.

Theorem pair_peer_released_then_accepted s q s1 o1 :
  pr_p s = Some q -> pair_step k fx fr s (PPipeClose q) = (s1, o1) ->
  pr_p s1 = None /\
  forall p s2 o2, pair_step k fx fr s1 (PPipeStart p (pair_peer k)) = (s2, o2) ->
    pr_p s2 = Some p /\ In (TranRecv p) o2 /\ forall rv, ~ In (Reject rv) o2.
Proof.
  intros HP H. cbn [pair_step] in H. rewrite HP, N.eqb_refl in H. inversion H; subst; clear H; simp_r.
  split; [reflexivity|]. intros p s2 o2 H2. cbn [pair_step] in H2. rewrite N.eqb_refl in H2. cbn [negb] in H2. simp_r.
  match type of H2 with (let (_, _) := pair_send_sched k ?s1 in _) = _ => destruct (pair_send_sched k s1) as [s3 o3] eqn:SS end.
  inversion H2; subst; clear H2. destruct (sched_no_reject _ _ _ SS) as [A B]. simp_r.
  split; [exact A|]. split; [apply in_or_app; right; left; reflexivity|].
  intros rv Hin. apply in_app_or in Hin as [Hin|[E|[]]]; [eapply B; eauto|inversion E].
Qed.

(* ================= sending: blocks or refuses, never drops ================= *)
Theorem pair_send_nonblocking s c a m s' outs :
  pair_step k fx fr s (PSend c a true m) = (s', outs) ->
  exists rv rest, outs = Complete a rv None :: rest /\ pr_waq s' = pr_waq s /\ (forall x, ~ In (Free x) outs) /\
    (rv = E_AGAIN <-> (norm_send k m <> None /\ can_send s = false)) /\
    (rv = E_PROTO <-> norm_send k m = None) /\
    (rv <> E_OK -> s' = s /\ rest = []) /\
    (rv = E_OK \/ rv = E_AGAIN \/ rv = E_PROTO).
Proof.
  intros H. cbn [pair_step] in H. unfold can_send.
  destruct (norm_send k m) as [m'|] eqn:EN.
  - destruct (pr_wr s) eqn:W.
    + destruct (pr_p s) as [p|]; inversion H; subst; clear H; simp_r.
      * exists E_OK, [TranSend p (wire_form k m')]. repeat split; auto; try discriminate; try (intros ? HH; in_cases HH); try (intros [? ?]; discriminate); try congruence.
      * exists E_OK, []. repeat split; auto; try discriminate; try (intros ? HH; in_cases HH); try (intros [? ?]; discriminate); try congruence.
    + destruct (lmq_full (pr_wmq s) (pr_wcap s)) eqn:F; cbn [negb] in H; inversion H; subst; clear H; simp_r.
      * exists E_AGAIN, []. repeat split; auto; try discriminate; try (intros ? HH; in_cases HH); try congruence.
      * exists E_OK, []. repeat split; auto; try discriminate; try (intros ? HH; in_cases HH); try (intros [? ?]; discriminate); try congruence.
  - inversion H; subst; clear H. exists E_PROTO, []. repeat split; auto; try discriminate; try (intros ? HH; in_cases HH); try (intros [? ?]; congruence); try congruence.
Qed.

Theorem pair_send_blocks_not_drops s c a m m' :
  norm_send k m = Some m' -> can_send s = false ->
  pair_step k fx fr s (PSend c a false m) =
    (mkPair (pr_p s) (pr_ttl s) (pr_wmq s) (pr_wcap s) (pr_waq s ++ [(a, m')]) (pr_rmq s) (pr_rcap s) (pr_raq s)
            (pr_rd s) (pr_wr s) (pr_sending s) (pr_readable s) (pr_writable s), []).
Proof.
  unfold can_send. intros EN HC. cbn [pair_step]. rewrite EN. apply orb_false_iff in HC as [W F]. rewrite W.
  apply negb_false_iff in F. rewrite F. reflexivity.
Qed.

(* a blocking send that can be taken is taken at once *)
Theorem pair_send_accepts_when_possible s c a nb m s' outs :
  PInv s -> norm_send k m <> None -> can_send s = true ->
  pair_step k fx fr s (PSend c a nb m) = (s', outs) -> exists rest, outs = Complete a E_OK None :: rest /\ pr_waq s' = pr_waq s.
Proof.
  unfold can_send. intros HI EN HC H. cbn [pair_step] in H. destruct (norm_send k m) as [m'|]; [|congruence].
  destruct (pr_wr s) eqn:W.
  - destruct (pr_p s); inversion H; subst; simp_r; eauto.
  - cbn in HC. rewrite HC in H. inversion H; subst; simp_r; eauto.
Qed.

(* ================= receiving ================= *)
Theorem pair_recv_nonblocking s c a s' outs :
  PInv s -> pair_step k fx fr s (PRecv c a true) = (s', outs) ->
  exists rv mo rest, outs = Complete a rv mo :: rest /\ pr_raq s' = pr_raq s /\ (forall x, ~ In (Free x) outs) /\
    (rv = E_AGAIN <-> can_recv s = false) /\
    (rv = E_AGAIN -> s' = s /\ mo = None /\ rest = []) /\
    (rv <> E_AGAIN -> rv = E_OK /\ exists x, mo = Some x /\ hd_error (inq s) = Some x).
Proof.
  intros HI H. cbn [pair_step] in H. unfold can_recv, inq, rdl.
  destruct (pr_rmq s) as [|m rest] eqn:ER.
  - destruct (pr_rd s) as [h|] eqn:ED; inversion H; subst; clear H; simp_r.
    + eexists E_OK, (Some h), _. repeat split; auto; try discriminate; try (intros ? HH; destruct (pr_p s); in_cases HH); eauto.
    + exists E_AGAIN, None, []. repeat split; auto; try discriminate; try (intros ? HH; in_cases HH); try congruence.
  - match type of H with (let '(_, _) := ?X in _) = _ => destruct X as [rmq' rearm] eqn:EX end.
    inversion H; subst; clear H; simp_r.
    eexists E_OK, (Some m), _. repeat split; auto; try discriminate; eauto.
    intros x HH. destruct HH as [HH|HH]; [inversion HH|].
    destruct (pr_rd s); inversion EX; subst; [destruct (pr_p s)|]; in_cases HH.
Qed.

Theorem pair_recv_blocks s c a :
  can_recv s = false ->
  pair_step k fx fr s (PRecv c a false) =
    (mkPair (pr_p s) (pr_ttl s) (pr_wmq s) (pr_wcap s) (pr_waq s) [] (pr_rcap s) (pr_raq s ++ [a])
            None (pr_wr s) (pr_sending s) (pr_readable s) (pr_writable s), []).
Proof.
  unfold can_recv. intros HC. cbn [pair_step]. destruct (pr_rmq s); [|discriminate]. destruct (pr_rd s); [discriminate|]. reflexivity.
Qed.

(* ================= histories ================= *)
Definition ptrace := list (pop * pair * list pout).
Fixpoint pair_run (s : pair) (ops : list pop) : pair * ptrace :=
  match ops with
  | [] => (s, [])
  | o :: r => let (s1, outs) := pair_step k fx fr s o in
              let (s2, tr) := pair_run s1 r in (s2, (o, s, outs) :: tr)
  end.
Fixpoint ops_ok (s : pair) (ops : list pop) : Prop :=
  match ops with
  | [] => True
  | o :: r => op_ok s o /\ ops_ok (fst (pair_step k fx fr s o)) r
  end.
Fixpoint tr_acc (tr : ptrace) : list pmsg := match tr with [] => [] | (o, s, outs) :: r => paccepted s o outs ++ tr_acc r end.
Fixpoint tr_tx (tr : ptrace) : list pmsg := match tr with [] => [] | (o, s, outs) :: r => txs outs ++ tr_tx r end.
Fixpoint tr_wloss (tr : ptrace) : list pmsg := match tr with [] => [] | (o, s, outs) :: r => wloss s o ++ tr_wloss r end.
Fixpoint tr_arr (tr : ptrace) : list pmsg := match tr with [] => [] | (o, s, outs) :: r => arrived_ok s o ++ tr_arr r end.
Fixpoint tr_dlv (tr : ptrace) : list pmsg := match tr with [] => [] | (o, s, outs) :: r => pdelivered outs ++ tr_dlv r end.
Fixpoint tr_rloss (tr : ptrace) : list pmsg := match tr with [] => [] | (o, s, outs) :: r => rloss s o ++ tr_rloss r end.

Lemma sublist_insert {A} (x u w v : list A) : sublist x (u ++ v) -> sublist x (u ++ w ++ v).
Proof.
  intros H. eapply sublist_trans; [exact H|]. apply sublist_app; [apply sublist_refl|apply sl_skip_app].
Qed.

Theorem pair_run_law ops : forall s, PInv s -> ops_ok s ops ->
  let (s', tr) := pair_run s ops in
  PInv s' /\
  (* outbound: what reached the transport, plus what is still buffered, is an in-order
     sub-sequence of what was accepted -- all of it when nothing was explicitly dropped *)
  sublist (tr_tx tr ++ map (wire_form k) (pr_wmq s')) (map (wire_form k) (pr_wmq s ++ tr_acc tr)) /\
  (tr_wloss tr = [] -> tr_tx tr ++ map (wire_form k) (pr_wmq s') = map (wire_form k) (pr_wmq s ++ tr_acc tr)) /\
  (forall x, cnt x (map (wire_form k) (pr_wmq s ++ tr_acc tr)) = cnt x (tr_tx tr ++ map (wire_form k) (pr_wmq s' ++ tr_wloss tr))) /\
  (* inbound: the same for what was delivered to the application *)
  sublist (tr_dlv tr ++ inq s') (inq s ++ tr_arr tr) /\
  (tr_rloss tr = [] -> tr_dlv tr ++ inq s' = inq s ++ tr_arr tr) /\
  (forall x, cnt x (inq s ++ tr_arr tr) = cnt x (tr_dlv tr ++ inq s' ++ tr_rloss tr)).
Proof.
  induction ops as [|o r IH]; intros s HI Hok; cbn [pair_run].
  - cbn [tr_tx tr_acc tr_wloss tr_arr tr_dlv tr_rloss app]. rewrite !app_nil_r.
    split; [exact HI|]. repeat split; auto; try apply sublist_refl.
  - cbn [ops_ok] in Hok. destruct Hok as [Ho Hr]. destruct (pair_step k fx fr s o) as [s1 outs] eqn:S. cbn [fst] in Hr.
    destruct (pair_step_law _ _ _ _ HI Ho S) as (HI1 & C1 & C2 & C3 & C3s & C3l & C4 & _).
    specialize (IH s1 HI1 Hr). destruct (pair_run s1 r) as [s2 tr]. destruct IH as (A & O1 & O2 & O3 & N1 & N2 & N3).
    cbn [tr_tx tr_acc tr_wloss tr_arr tr_dlv tr_rloss].
    split; [exact A|]. split; [|split; [|split; [|split; [|split]]]].
    + rewrite !app_assoc. rewrite map_app. rewrite C1. rewrite map_app in *. rewrite <- !app_assoc.
      apply sublist_app; [apply sublist_refl|]. apply sublist_insert. exact O1.
    + intros E. apply app_eq_nil in E as [E1 E2]. rewrite E1, app_nil_r in C1.
      rewrite !app_assoc. rewrite map_app. rewrite C1. rewrite <- !app_assoc. f_equal. rewrite O2 by exact E2. now rewrite map_app.
    + intros x. specialize (O3 x). apply (f_equal (cnt x)) in C1. revert C1 O3. rewrite !map_app. rewrite !cnt_app. lia.
    + rewrite <- !app_assoc. rewrite (app_assoc (inq s)).
      eapply sublist_trans; [|apply sublist_app; [exact C3l|apply sublist_refl]].
      rewrite <- !app_assoc. apply sublist_app; [apply sublist_refl|exact N1].
    + intros E. apply app_eq_nil in E as [E1 E2]. rewrite (app_assoc (inq s)). rewrite (C3s E1).
      rewrite <- !app_assoc. f_equal. apply N2. exact E2.
    + intros x. specialize (N3 x). specialize (C3 x). revert C3 N3. rewrite !cnt_app. lia.
Qed.

(* the descriptors along a history that does not close the socket *)
Theorem pair_run_mirror ops : forall s, PInv s -> ops_ok s ops -> ~ In PSockClose ops ->
  RInv s -> (fx = true \/ forall p, ~ In (PPipeClose p) ops) -> WInv s ->
  RInv (fst (pair_run s ops)) /\ ((fx = true \/ forall p, ~ In (PPipeClose p) ops) -> WInv (fst (pair_run s ops))).
Proof.
  induction ops as [|o r IH]; intros s HI Hok Hnc HR Hfx HW; cbn [pair_run].
  - cbn. auto.
  - cbn [ops_ok] in Hok. destruct Hok as [Ho Hr]. destruct (pair_step k fx fr s o) as [s1 outs] eqn:S. cbn [fst] in Hr.
    destruct (pair_step_law _ _ _ _ HI Ho S) as (HI1 & _).
    assert (Hno: o <> PSockClose) by (intros ->; apply Hnc; now left).
    pose proof (pair_readable_mirror _ _ _ _ HI Ho Hno HR S) as HR1.
    assert (Hfx1: fx = true \/ forall p, o <> PPipeClose p).
    { destruct Hfx as [E|E]; [now left|right]. intros p ->. eapply E. left. reflexivity. }
    pose proof (pair_writable_mirror _ _ _ _ HI Ho Hno Hfx1 HW S) as HW1.
    assert (Hfxr: fx = true \/ forall p, ~ In (PPipeClose p) r).
    { destruct Hfx as [E|E]; [now left|right]. intros p Hin. eapply E. right. exact Hin. }
    specialize (IH s1 HI1 Hr (fun Hin => Hnc (or_intror Hin)) HR1 Hfxr HW1).
    destruct (pair_run s1 r) as [s2 tr]. cbn [fst] in *. destruct IH as [A B]. split; [exact A|]. intros _. apply B. exact Hfxr.
Qed.

(* ================= submission order (with the set_send_buf_len repair, fr = true) ================= *)
(* submitted and not yet handed to the transport, oldest first: the buffer, then the blocked senders *)
Definition pend (s : pair) : list pmsg := pr_wmq s ++ map snd (pr_waq s).
(* the message a PSend submits -- unless the call is refused on the spot (NNG_EPROTO, or
   NNG_EAGAIN for a non-blocking send that cannot be taken) *)
Definition submitted (s : pair) (o : pop) : list pmsg :=
  match o with
  | PSend _ _ nb m => match norm_send k m with None => [] | Some m' => if nb && negb (can_send s) then [] else [m'] end
  | _ => []
  end.
(* submitted messages that leave without being transmitted: buffer shrink, a cancelled blocked send, socket close *)
Definition sub_loss (s : pair) (o : pop) : list pmsg :=
  match o with
  | PSetOpt _ (OSendBuf n) => if (PAIR_BUF_MAX <? N.of_nat n)%N then [] else skipn n (pr_wmq s)
  | PCancel a _ => lookup_aq a (pr_waq s)
  | PSockClose => pend s
  | _ => []
  end.
(* a blocked sender => the send buffer is full *)
Definition QInv (s : pair) : Prop := pr_waq s <> [] -> lmq_full (pr_wmq s) (pr_wcap s) = true.

Definition SubLaw (s : pair) (o : pop) (s' : pair) (outs : list pout) : Prop :=
  QInv s' /\
  (sub_loss s o = [] -> map (wire_form k) (pend s ++ submitted s o) = txs outs ++ map (wire_form k) (pend s')) /\
  sublist (txs outs ++ map (wire_form k) (pend s')) (map (wire_form k) (pend s ++ submitted s o)) /\
  (forall x, cnt x (map (wire_form k) (pend s ++ submitted s o)) = cnt x (txs outs ++ map (wire_form k) (pend s' ++ sub_loss s o))).

Lemma sublist_map {A B} (f : A -> B) a b : sublist a b -> sublist (map f a) (map f b).
Proof. induction 1; cbn; [apply sl_nil|apply sl_skip; auto|apply sl_keep; auto]. Qed.
Lemma sublist_filter {A} (f : A -> bool) l : sublist (filter f l) l.
Proof. induction l; cbn; [apply sl_nil|]. destruct (f a); [apply sl_keep|apply sl_skip]; auto. Qed.

Lemma cnt_partition_wire x (a : aioid) (l : list (aioid * pmsg)) :
  cnt x (map (wire_form k) (map snd l)) =
  cnt x (map (wire_form k) (map snd (filter (fun y => N.eqb (fst y) a) l))) +
  cnt x (map (wire_form k) (map snd (filter (fun y => negb (N.eqb (fst y) a)) l))).
Proof.
  induction l as [|[a0 v] l IH]; cbn [filter map fst snd]; [reflexivity|].
  destruct (N.eqb a0 a); cbn [negb map snd]; rewrite ?cnt_cons, IH; lia.
Qed.

Lemma sub_exact s o s' outs :
  QInv s' -> sub_loss s o = [] ->
  map (wire_form k) (pend s ++ submitted s o) = txs outs ++ map (wire_form k) (pend s') -> SubLaw s o s' outs.
Proof.
  intros Q L E. unfold SubLaw. rewrite L, E, app_nil_r. repeat split; auto. apply sublist_refl.
Qed.
Lemma sub_same s o s' outs :
  QInv s -> pr_wmq s' = pr_wmq s -> pr_waq s' = pr_waq s -> pr_wcap s' = pr_wcap s ->
  txs outs = [] -> submitted s o = [] -> sub_loss s o = [] -> SubLaw s o s' outs.
Proof.
  intros Q A B C T S L. apply sub_exact; auto.
  - unfold QInv in *. now rewrite A, B, C.
  - unfold pend. now rewrite S, T, A, B, app_nil_r.
Qed.

Lemma sched_pend s p s' outs :
  pr_p s = Some p -> QInv s -> length (pr_wmq s) <= pr_wcap s -> pair_send_sched k s = (s', outs) ->
  map (wire_form k) (pend s) = txs outs ++ map (wire_form k) (pend s') /\ QInv s'.
Proof.
  intros Hp Q Hlen H. unfold pair_send_sched in H. rewrite Hp in H. unfold pend, QInv in *.
  destruct s as [p0 ttl wmq wcap waq rmq rcap raq rd wr sn rdb wrb]. simp_r.
  destruct wmq as [|m rest]; destruct waq as [|[a m2] aqr]; cbn [length] in *.
  - inversion H; subst; simp_r. split; [reflexivity|congruence].
  - inversion H; subst; simp_r. cbn [map snd txs app]. split; [reflexivity|]. intros _. apply Q. discriminate.
  - inversion H; subst; simp_r. cbn [map snd txs app]. split; [reflexivity|congruence].
  - rewrite lmq_put_ok in H by lia. inversion H; subst; simp_r. cbn [map snd txs app]. split.
    + rewrite <- app_assoc. reflexivity.
    + intros _. specialize (Q ltac:(discriminate)). unfold lmq_full in *. rewrite app_length. cbn [length] in *.
      apply Nat.leb_le in Q. apply Nat.leb_le. lia.
Qed.

Theorem pair_submission_step s o s' outs :
  fr = true -> PInv s -> QInv s -> op_ok s o -> pair_step k fx fr s o = (s', outs) -> SubLaw s o s' outs.
Proof.
  intros Hfr HI Q Hok H. subst fr. pose proof HI as (I1 & I2 & I3 & I4 & I5 & I6 & I7).
  destruct o as [c a nb m|c a nb|a rv|p peer|p|p rv|p rv m| c op|c|c| |now]; cbn [pair_step] in H.
  - (* PSend *)
    destruct (norm_send k m) as [m'|] eqn:EN.
    2:{ inversion H; subst. apply sub_same; auto. cbn [submitted]. now rewrite EN. }
    destruct s as [p0 ttl wmq wcap waq rmq rcap raq rd wr sn rdb wrb]. pose proof Q as Q0. unfold QInv, PInv in Q, I1. simp_r.
    destruct wr.
    + destruct (I1 eq_refl) as (A & B & C). subst wmq waq. destruct p0 as [p|]; [|contradiction].
      inversion H; subst; clear H. apply sub_exact; cbn [submitted]; unfold QInv, pend, can_send; simp_r; rewrite ?EN; auto.
      rewrite andb_false_r. reflexivity.
    + destruct (lmq_full wmq wcap) eqn:F; cbn [negb] in H.
      * destruct nb; inversion H; subst; clear H.
        -- apply sub_same; auto. cbn [submitted]. unfold can_send. simp_r. now rewrite EN, F.
        -- apply sub_exact; cbn [submitted]; unfold QInv, pend, can_send; simp_r; rewrite ?EN; auto.
           cbn [andb txs app]. rewrite (map_app snd). cbn [map snd]. now rewrite <- app_assoc.
      * assert (WQ: waq = []) by (destruct waq; auto; exfalso; specialize (Q ltac:(discriminate)); congruence). subst waq.
        inversion H; subst; clear H. apply sub_exact; cbn [submitted]; unfold QInv, pend, can_send; simp_r; rewrite ?EN, ?F; auto.
        rewrite andb_false_r. cbn [map app]. now rewrite !app_nil_r.
  - (* PRecv *)
    destruct s as [p0 ttl wmq wcap waq rmq rcap raq rd wr sn rdb wrb]. simp_r.
    destruct rmq as [|m rest]; [destruct rd; [|destruct nb]|destruct rd]; inversion H; subst; clear H; apply sub_same; auto;
      cbn [txs]; try reflexivity; destruct p0; reflexivity.
  - (* PCancel *)
    destruct s as [p0 ttl wmq wcap waq rmq rcap raq rd wr sn rdb wrb]. pose proof Q as Q0. unfold QInv in Q. simp_r.
    destruct (has_aio a waq) eqn:EA; [|destruct (has_id a raq)]; inversion H; subst; clear H.
    + unfold SubLaw, QInv, pend, sub_loss, submitted, lookup_aq, remove_aio. simp_r. cbn [txs app]. rewrite !app_nil_r.
      split; [|split; [|split]].
      * intros Hne. apply Q. intros E. subst. apply Hne. reflexivity.
      * intros E. f_equal. f_equal.
        assert (X: forall l : list (aioid * pmsg), map snd (filter (fun x => (fst x =? a)%N) l) = [] ->
                     map snd (filter (fun x => negb (fst x =? a)%N) l) = map snd l).
        { induction l as [|[a0 v] l IHl]; cbn; [reflexivity|]. destruct (a0 =? a)%N; cbn; [discriminate|]. intros E0. now rewrite IHl. }
        symmetry. apply X. exact E.
      * apply sublist_map. apply sublist_app; [apply sublist_refl|]. apply sublist_map. apply sublist_filter.
      * intros x. pose proof (cnt_partition_wire x a waq) as P. rewrite !map_app, !cnt_app. lia.
    + apply sub_same; auto. cbn [sub_loss]. simp_r. unfold lookup_aq. clear - EA. unfold has_aio in EA.
      induction waq as [|[a0 v] l IHl]; cbn in *; [reflexivity|]. apply orb_false_iff in EA as [E1 E2]. rewrite E1. auto.
    + apply sub_same; auto. cbn [sub_loss]. simp_r. unfold lookup_aq. clear - EA. unfold has_aio in EA.
      induction waq as [|[a0 v] l IHl]; cbn in *; [reflexivity|]. apply orb_false_iff in EA as [E1 E2]. rewrite E1. auto.
  - (* PPipeStart *)
    destruct (negb (peer =? pair_peer k)%N); [inversion H; subst; apply sub_same; auto|].
    destruct (pr_p s) eqn:EP; [inversion H; subst; apply sub_same; auto|].
    set (s1 := mkPair (Some p) (pr_ttl s) (pr_wmq s) (pr_wcap s) (pr_waq s) (pr_rmq s) (pr_rcap s) (pr_raq s) None (pr_wr s)
                      (pr_sending s) (pr_readable s) (pr_writable s)) in *.
    destruct (pair_send_sched k s1) as [s2 o2] eqn:SS. inversion H; subst; clear H.
    destruct (sched_pend s1 p s' o2 eq_refl Q I4 SS) as [E Q'].
    apply sub_exact; auto. cbn [submitted]. rewrite app_nil_r, txs_app. cbn [txs]. rewrite app_nil_r. exact E.
  - (* PPipeClose *)
    destruct s as [p0 ttl wmq wcap waq rmq rcap raq rd wr sn rdb wrb]. simp_r.
    destruct p0 as [q|]; [destruct (q =? p)%N|]; inversion H; subst; clear H; apply sub_same; auto. destruct rd; reflexivity.
  - (* PSendDone *)
    destruct (N.eqb_spec rv 0) as [->|Hrv]; cbn [negb] in H.
    + destruct Hok as [Hin HP]. specialize (HP eq_refl).
      set (s0 := mkPair (pr_p s) (pr_ttl s) (pr_wmq s) (pr_wcap s) (pr_waq s) (pr_rmq s) (pr_rcap s) (pr_raq s) (pr_rd s) (pr_wr s)
                        (set_snd (pr_sending s) p None) (pr_readable s) (pr_writable s)) in *.
      destruct (sched_pend s0 p s' outs HP Q I4 H) as [E Q'].
      apply sub_exact; auto. cbn [submitted]. rewrite app_nil_r. exact E.
    + inversion H; subst; clear H. apply sub_same; auto. rewrite txs_app, txs_map_Free. reflexivity.
  - (* PRecvDone *)
    destruct s as [p0 ttl wmq wcap waq rmq rcap raq rd wr sn rdb wrb]. simp_r.
    destruct (negb (rv =? 0)%N); [inversion H; subst; apply sub_same; auto|].
    destruct (rx_decode k ttl m); try (inversion H; subst; apply sub_same; auto; fail).
    destruct raq; [destruct (lmq_full rmq rcap); cbn [negb] in H|]; inversion H; subst; apply sub_same; auto.
  - (* PSetOpt *)
    destruct op; try (inversion H; subst; apply sub_same; auto; fail).
    + destruct (PAIR_BUF_MAX <? N.of_nat n)%N eqn:EB.
      { inversion H; subst. apply sub_same; auto. cbn [sub_loss]. now rewrite EB. }
      destruct s as [p0 ttl wmq wcap waq rmq rcap raq rd wr sn rdb wrb]. simp_r.
      rewrite takein_spec in H. set (room := n - length (firstn n wmq)) in *.
      inversion H; subst; clear H.
      unfold SubLaw, QInv, pend, sub_loss, submitted. simp_r. rewrite EB.
      rewrite !txs_app, txs_map_Free. fold (completes (map fst (firstn room waq))). rewrite txs_completes. cbn [txs app]. rewrite !app_nil_r.
      assert (RW: map snd (firstn room waq) ++ map snd (skipn room waq) = map snd waq) by (rewrite <- map_app; now rewrite firstn_skipn).
      split; [|split; [|split]].
      * intros Hne. unfold lmq_full. apply Nat.leb_le. rewrite app_length, map_length, !firstn_length.
        assert (room < length waq).
        { destruct (Nat.lt_ge_cases room (length waq)); auto. exfalso. apply Hne. now apply skipn_all2. }
        unfold room in *. rewrite firstn_length in *. lia.
      * intros E. rewrite <- app_assoc, RW. rewrite <- (firstn_skipn n wmq) at 1. now rewrite E, app_nil_r.
      * rewrite <- app_assoc, RW. apply sublist_map. apply sublist_app; [apply sublist_firstn|apply sublist_refl].
      * intros x. rewrite <- (firstn_skipn n wmq) at 1. rewrite <- RW. rewrite !map_app, !cnt_app. lia.
    + destruct (PAIR_BUF_MAX <? N.of_nat n)%N; inversion H; subst; apply sub_same; auto.
      rewrite txs_app, txs_map_Free. reflexivity.
    + destruct k; [inversion H; subst; apply sub_same; auto|].
      destruct ((n <? PAIR_TTL_MIN) || (PAIR_TTL_MAX <? n)); inversion H; subst; apply sub_same; auto.
  - inversion H; subst; apply sub_same; auto.
  - inversion H; subst; apply sub_same; auto.
  - (* PSockClose *)
    inversion H; subst; clear H. unfold SubLaw, QInv, pend, sub_loss, submitted. simp_r.
    rewrite !txs_app, !txs_fail, !txs_map_Free. cbn [app map]. rewrite !app_nil_r.
    split; [congruence|]. split; [intros E; unfold pend in E; now rewrite E|]. split; [apply sublist_nil_l|]. intros x. reflexivity.
  - inversion H; subst; apply sub_same; auto.
Qed.

Fixpoint tr_sub (tr : ptrace) : list pmsg := match tr with [] => [] | (o, s, outs) :: r => submitted s o ++ tr_sub r end.
Fixpoint tr_subloss (tr : ptrace) : list pmsg := match tr with [] => [] | (o, s, outs) :: r => sub_loss s o ++ tr_subloss r end.

(* every history: what reached the transport, then the buffer, then the blocked senders, is an
   in-order sub-sequence of the messages in the order their sends were SUBMITTED (refused calls
   excepted) -- all of them, i.e. the transmitted sequence is a prefix of the submitted one,
   when nothing was dropped by a shrink, a cancel or the socket close *)
Theorem pair_submission_order_law ops : forall s, fr = true -> PInv s -> QInv s -> ops_ok s ops ->
  let (s', tr) := pair_run s ops in
  QInv s' /\
  sublist (tr_tx tr ++ map (wire_form k) (pend s')) (map (wire_form k) (pend s ++ tr_sub tr)) /\
  (tr_subloss tr = [] -> tr_tx tr ++ map (wire_form k) (pend s') = map (wire_form k) (pend s ++ tr_sub tr)) /\
  (forall x, cnt x (map (wire_form k) (pend s ++ tr_sub tr)) = cnt x (tr_tx tr ++ map (wire_form k) (pend s' ++ tr_subloss tr))).
Proof.
  induction ops as [|o r IH]; intros s Hfr HI Q Hok; cbn [pair_run].
  - cbn [tr_tx tr_sub tr_subloss app]. rewrite !app_nil_r. repeat split; auto. apply sublist_refl.
  - cbn [ops_ok] in Hok. destruct Hok as [Ho Hr]. destruct (pair_step k fx fr s o) as [s1 outs] eqn:S. cbn [fst] in Hr.
    destruct (pair_step_law _ _ _ _ HI Ho S) as (HI1 & _).
    destruct (pair_submission_step _ _ _ _ Hfr HI Q Ho S) as (Q1 & E1 & L1 & C1).
    specialize (IH s1 Hfr HI1 Q1 Hr). destruct (pair_run s1 r) as [s2 tr]. destruct IH as (Q2 & L2 & E2 & C2).
    cbn [tr_tx tr_sub tr_subloss]. split; [exact Q2|]. split; [|split].
    + rewrite (app_assoc (pend s)), map_app, <- app_assoc.
      eapply sublist_trans; [apply sublist_app; [apply sublist_refl|exact L2]|].
      rewrite map_app, app_assoc. apply sublist_app; [exact L1|apply sublist_refl].
    + intros E. apply app_eq_nil in E as [Ea Eb]. rewrite (app_assoc (pend s)), map_app, (E1 Ea), <- !app_assoc. f_equal.
      rewrite (E2 Eb). now rewrite map_app.
    + intros x. specialize (C1 x). specialize (C2 x). revert C1 C2. rewrite !map_app, !cnt_app. lia.
Qed.

End Pair.

(* ================= PAIRv1: the hop-count rules ================= *)
(* a wire message of at least four bytes from the peer; v = its first 32-bit word, ANY value *)
Theorem pair1_hop_rules_law raw fx fr s p hdr b0 b1 b2 b3 rest :
  let m := mkPmsg hdr (b0 :: b1 :: b2 :: b3 :: rest) in
  let v := word32 b0 b1 b2 b3 in
  (* more than 0xff: malformed -- freed, sender disconnected, nothing else changes *)
  ((255 < v)%N -> pair_step (K1 raw) fx fr s (PRecvDone p 0 m) = (s, [Free m; ClosePipe p])) /\
  (* a valid count above the limit: freed, the receive re-armed, the connection kept *)
  ((v <= 255)%N -> (N.of_nat (pr_ttl s) < v)%N -> pair_step (K1 raw) fx fr s (PRecvDone p 0 m) = (s, [Free m; TranRecv p])) /\
  (* otherwise: letin, with the hop count as header and the four bytes trimmed *)
  ((v <= 255)%N -> (v <= N.of_nat (pr_ttl s))%N ->
     rx_decode (K1 raw) (pr_ttl s) m = RxOk (mkPmsg (hdr ++ [0; 0; 0; v]%N) rest) /\
     arrived_ok (K1 raw) s (PRecvDone p 0 m) = [mkPmsg (hdr ++ [0; 0; 0; v]%N) rest] /\
     rx_rejected (K1 raw) s (PRecvDone p 0 m) = []).
Proof.
  intros m v. unfold m, v. cbn [pair_step N.eqb negb rx_decode get32 pm_body pm_hdr arrived_ok rx_rejected].
  repeat split; intros.
  - destruct (N.ltb_spec 255 (word32 b0 b1 b2 b3)); [reflexivity|lia].
  - destruct (N.ltb_spec 255 (word32 b0 b1 b2 b3)); [lia|].
    destruct (N.ltb_spec (N.of_nat (pr_ttl s)) (word32 b0 b1 b2 b3)); [reflexivity|lia].
  - destruct (N.ltb_spec 255 (word32 b0 b1 b2 b3)); [lia|].
    destruct (N.ltb_spec (N.of_nat (pr_ttl s)) (word32 b0 b1 b2 b3)); [lia|]. now rewrite be32_small.
  - destruct (N.ltb_spec 255 (word32 b0 b1 b2 b3)); [lia|].
    destruct (N.ltb_spec (N.of_nat (pr_ttl s)) (word32 b0 b1 b2 b3)); [lia|]. now rewrite be32_small.
  - destruct (N.ltb_spec 255 (word32 b0 b1 b2 b3)); [lia|].
    destruct (N.ltb_spec (N.of_nat (pr_ttl s)) (word32 b0 b1 b2 b3)); [lia|]. reflexivity.
Qed.

(* shorter than four bytes: malformed as well *)
Theorem pair1_short_message_law raw fx fr s p m :
  length (pm_body m) < 4 -> pair_step (K1 raw) fx fr s (PRecvDone p 0 m) = (s, [Free m; ClosePipe p]).
Proof.
  intros H. cbn [pair_step N.eqb negb rx_decode]. destruct m as [h b]. cbn [pm_body] in *.
  destruct b as [|b0 [|b1 [|b2 [|b3 r]]]]; cbn in H; try lia; reflexivity.
Qed.

(* for well-formed bytes the letin header is exactly the four bytes received *)
Lemma word32_small_bytes b0 b1 b2 b3 : byte_ok b0 -> byte_ok b1 -> byte_ok b2 -> byte_ok b3 ->
  (word32 b0 b1 b2 b3 <= 255)%N -> [0; 0; 0; word32 b0 b1 b2 b3]%N = [b0; b1; b2; b3].
Proof. intros A B C D H. destruct (word32_small _ _ _ _ _ A B C D eq_refl H) as (-> & -> & -> & E). now rewrite <- E. Qed.

(* outgoing: pipe_send adds one to the 32-bit header word *)
Theorem pair1_bump_law b0 b1 b2 b3 body :
  bump (mkPmsg [b0; b1; b2; b3] body) = mkPmsg (be32 ((word32 b0 b1 b2 b3 + 1) mod 4294967296)) body.
Proof. unfold bump. cbn [get32 pm_hdr pm_body]. now rewrite app_nil_r. Qed.
Theorem pair1_bump_small v body : (v <= 254)%N -> bump (mkPmsg [0; 0; 0; v]%N body) = mkPmsg [0; 0; 0; v + 1]%N body.
Proof.
  intros H. rewrite pair1_bump_law. unfold word32. cbn [N.mul]. rewrite !N.add_0_l.
  rewrite N.mod_small by lia. now rewrite be32_small by lia.
Qed.

(* sock_send: cooked sockets start every message at hop 0 (so it leaves with 1); raw sockets
   accept exactly a four-byte header below 0xff and refuse everything else with NNG_EPROTO,
   leaving state and message alone *)
Theorem pair1_cooked_send_header m : norm_send (K1 false) m = Some (mkPmsg [0; 0; 0; 0]%N (pm_body m)).
Proof. reflexivity. Qed.
Theorem pair1_raw_send_header m :
  (forall m', norm_send (K1 true) m = Some m' -> m' = m /\ exists b0 b1 b2 b3, pm_hdr m = [b0; b1; b2; b3] /\ (word32 b0 b1 b2 b3 < 255)%N) /\
  (forall b0 b1 b2 b3, pm_hdr m = [b0; b1; b2; b3] -> (word32 b0 b1 b2 b3 < 255)%N -> norm_send (K1 true) m = Some m) /\
  (forall fx fr s c a nb, norm_send (K1 true) m = None -> pair_step (K1 true) fx fr s (PSend c a nb m) = (s, [Complete a E_PROTO None])).
Proof.
  repeat split.
  - unfold norm_send in H. destruct (pm_hdr m) as [|b0 [|b1 [|b2 [|b3 [|x r]]]]]; cbn [get32] in H; try discriminate.
    destruct (255 <=? word32 b0 b1 b2 b3)%N; congruence.
  - unfold norm_send in H. destruct (pm_hdr m) as [|b0 [|b1 [|b2 [|b3 [|x r]]]]]; cbn [get32] in H; try discriminate.
    destruct (N.leb_spec 255 (word32 b0 b1 b2 b3)); [discriminate|]. exists b0, b1, b2, b3. split; [reflexivity|lia].
  - intros b0 b1 b2 b3 E Hlt. unfold norm_send. rewrite E. cbn [get32]. destruct (N.leb_spec 255 (word32 b0 b1 b2 b3)); [lia|reflexivity].
  - intros fx fr s c a nb E. cbn [pair_step]. now rewrite E.
Qed.

(* every header the model puts on the wire for PAIRv1 is four bytes: the NNI_ASSERT of pipe_send holds *)
Lemma norm_hdr4 raw m m' : norm_send (K1 raw) m = Some m' -> length (pm_hdr m') = 4.
Proof.
  destruct raw; [|intros H; inversion H; reflexivity].
  intros H. destruct (proj1 (pair1_raw_send_header m) m' H) as (-> & b0 & b1 & b2 & b3 & E & _). now rewrite E.
Qed.

(* ================= refutations on the pinned source ================= *)
(* the send descriptor misses a wake-up: with room in the send buffer and the peer gone,
   pipe_stop (pinned form, fx = false) leaves the descriptor cleared although a non-blocking
   send succeeds *)
Definition poll_w_witness (k : pkind) : list pop :=
  [PSetOpt None (OSendBuf 2); PPipeStart 1%N (pair_peer k); PPipeClose 1%N].
Theorem pair_poll_w_mirror_refuted_pinned k fr :
  let s := fst (pair_run k false fr pair_init (poll_w_witness k)) in
  ops_ok k false fr pair_init (poll_w_witness k) /\
  pr_writable s = false /\ can_send s = true /\
  exists s' rest, pair_step k false fr s (PSend None 7%N true (mkPmsg [0; 0; 0; 0]%N [1%N])) = (s', Complete 7%N E_OK None :: rest).
Proof.
  destruct fr; destruct k as [|[]]; vm_compute; (split; [tauto|]); (split; [reflexivity|]); (split; [reflexivity|]); eexists _, _; reflexivity.
Qed.
Theorem pair_poll_w_mirror_repaired_on_witness k fr :
  let s := fst (pair_run k true fr pair_init (poll_w_witness k)) in pr_writable s = can_send s.
Proof. destruct fr; destruct k as [|[]]; vm_compute; reflexivity. Qed.

(* why op_ok demands that a successful send completion belongs to the attached pipe:
   pipe_send_cb calls send_sched(s) for whatever pipe is attached NOW.  If the callback of a
   pipe that has meanwhile been stopped runs after a new peer was attached (it was queued
   before the close; pipe_stop waits for it only after its critical section), send_sched
   hands a second message to the new pipe's busy aio_send: the first one is overwritten. *)
Definition stale_witness : list pop :=
  [PSetOpt None (OSendBuf 4);
   PSend None 1%N true (mkPmsg [] [1%N]); PSend None 2%N true (mkPmsg [] [2%N]); PSend None 3%N true (mkPmsg [] [3%N]);
   PPipeStart 1%N PROTO_PAIR0;                 (* message 1 goes to pipe 1 *)
   PPipeClose 1%N;                             (* pipe 1 is reaped; its successful completion is still queued *)
   PPipeStart 2%N PROTO_PAIR0;                 (* message 2 goes to pipe 2 *)
   PSendDone 1%N 0%N].                         (* the stale callback: message 3 replaces message 2 on pipe 2 *)
Theorem pair_stale_send_completion_refuted fx fr :
  let (s, tr) := pair_run K0 fx fr pair_init stale_witness in
  tr_acc K0 tr = [mkPmsg [] [1%N]; mkPmsg [] [2%N]; mkPmsg [] [3%N]] /\
  tr_tx tr = [mkPmsg [] [1%N]; mkPmsg [] [2%N]; mkPmsg [] [3%N]] /\
  pr_p s = Some 2%N /\ sendingl s = [mkPmsg [] [3%N]] /\ tr_wloss tr = [].
Proof. destruct fx; destruct fr; vm_compute; repeat split; reflexivity. Qed.

(* ================= the pinned set_send_buf_len (fr = false, before fix 7c956d7) ================= *)
(* unbuffered socket, the peer not taking: sends 1 2 3 (2 and 3 block), the send buffer grows
   to 2 -- the blocked senders are left on the wait list --, send 4 finds room in the buffer and
   overtakes them: the transport gets 1 4 2 3 *)
Definition resize_witness : list pop :=
  [PPipeStart 1%N PROTO_PAIR0;
   PSend None 1%N false (mkPmsg [] [1%N]); PSend None 2%N false (mkPmsg [] [2%N]); PSend None 3%N false (mkPmsg [] [3%N]);
   PSetOpt None (OSendBuf 2);
   PSend None 4%N false (mkPmsg [] [4%N]);
   PSendDone 1%N 0%N; PSendDone 1%N 0%N; PSendDone 1%N 0%N; PSendDone 1%N 0%N].
Theorem pair_submission_order_refuted_pinned fx :
  ops_ok K0 fx false pair_init resize_witness /\
  let (s, tr) := pair_run K0 fx false pair_init resize_witness in
  tr_sub K0 tr = [mkPmsg [] [1%N]; mkPmsg [] [2%N]; mkPmsg [] [3%N]; mkPmsg [] [4%N]] /\
  tr_tx tr = [mkPmsg [] [1%N]; mkPmsg [] [4%N]; mkPmsg [] [2%N]; mkPmsg [] [3%N]] /\
  tr_subloss tr = [] /\ pend s = [].
Proof. destruct fx; vm_compute; (split; [intuition discriminate|]); repeat split; reflexivity. Qed.
(* ... and right after the resize a sender is blocked although the buffer has room *)
Theorem pair_blocked_sender_not_full_refuted_pinned fx :
  let s := fst (pair_run K0 fx false pair_init (firstn 5 resize_witness)) in
  pr_waq s <> [] /\ lmq_full (pr_wmq s) (pr_wcap s) = false.
Proof. destruct fx; vm_compute; (split; [discriminate|reflexivity]). Qed.
Theorem pair_submission_order_on_witness fx :
  let (s, tr) := pair_run K0 fx true pair_init resize_witness in
  tr_tx tr = [mkPmsg [] [1%N]; mkPmsg [] [2%N]; mkPmsg [] [3%N]; mkPmsg [] [4%N]] /\ tr_sub K0 tr = tr_tx tr.
Proof. destruct fx; vm_compute; split; reflexivity. Qed.
