(* PairModel: src/sp/protocol/pair0/pair.c and src/sp/protocol/pair1/pair.c
   (pair1_poly.c is out of scope).  Definitions only.

   The two C files are the same state machine (after renaming pair0/pair1 they
   differ only in: the peer protocol number, the hop-count header handling in
   pipe_recv_cb / sock_send / pipe_send, the raw flag and the ttl option), so
   there is ONE parametric step function; the parameter [pkind] selects the
   file: K0 = pair0/pair.c, K1 raw = pair1/pair.c (cooked / raw socket).
   Every branch below names the C function it mirrors.

   One step = one critical section of s->mtx.  Where a C entry point consists
   of several sections that commute with every other entry point it is one
   step (pipe_start = {check s->p, set it} ; send_sched ; nni_pipe_recv : the
   first section writes only s->p and rd_ready:=false (already false), which
   no other entry point reads before send_sched does).

   PPipeClose p stands for the reaper's pipe_reap of that pipe: the protocol's
   pipe_close (closes the two pipe aios, touches no socket state) followed by
   the critical section of pipe_stop (which is where s->p is released).  The
   failing completions of the pipe's aios arrive as PSendDone/PRecvDone with a
   non-zero rv and touch no socket state either.

   The two lmqs are used at the level of their specification (bounded FIFO,
   Properties_C18.lmq_refines_fifo): put fails when len >= cap, resize keeps
   the oldest min(len,cap) messages and frees the rest.  nni_lmq_resize's
   allocation failure (NNG_ENOMEM) is not modelled.
   The NNG_TEST_LIB-only option "pair1_test_inject_header" is not modelled
   (never set by the harness).

   [fx] = the pipe_stop repair is present in the source (Gen/Consts.v,
   PAIRx_STOP_WRITABLE_FIXED): pipe_stop clears the send pollable only when the
   send buffer is full (fix 6a91792).  The tree as first pinned cleared it unconditionally
   (fx = false; Properties_C08.pair_poll_w_mirror_refuted).

   [fr] = the set_send_buf_len repair is present (Gen/Consts.v, PAIRx_RESIZE_ADMITS_FIXED,
   fix 7c956d7): right after nni_lmq_resize the blocked senders move from waq into wmq, in
   order, while the queue is not full.  The tree as first pinned left waq alone, so a later
   send overtook a blocked one through the new room (fr = false;
   Properties_C08.pair_submission_order_refuted). *)
From Coq Require Import List Arith NArith Bool.
From NngV Require Import Proto.Common.
Import ListNotations.

Inductive pkind := K0 | K1 (raw : bool).

Definition PROTO_PAIR0 : N := 16.    (* NNI_PROTO(1, 0) *)
Definition PROTO_PAIR1 : N := 17.    (* 0x11 *)
Definition pair_peer (k : pkind) : N := match k with K0 => PROTO_PAIR0 | K1 _ => PROTO_PAIR1 end.
Definition PAIR_TTL_DEFAULT : nat := 8.
Definition PAIR_TTL_MIN : nat := 1.
Definition PAIR_TTL_MAX : nat := 15.     (* NNI_MAX_MAX_TTL *)
Definition PAIR_BUF_MAX : N := 8192.
Definition PAIR_BUF_DEFAULT : nat := 0.

(* ---- 32-bit big-endian words (NNI_GET32 / NNI_PUT32) ---- *)
Definition word32 (a b c d : N) : N := (a * 16777216 + b * 65536 + c * 256 + d)%N.
Definition be32 (v : N) : list N :=
  [((v / 16777216) mod 256)%N; ((v / 65536) mod 256)%N; ((v / 256) mod 256)%N; (v mod 256)%N].
Definition get32 (l : list N) : option (N * list N) :=
  match l with a :: b :: c :: d :: rest => Some (word32 a b c d, rest) | _ => None end.

(* pair1_pipe_send: nni_msg_header_poke_u32(m, nni_msg_header_peek_u32(m) + 1)  (uint32_t wrap) *)
Definition bump (m : pmsg) : pmsg :=
  match get32 (pm_hdr m) with
  | Some (v, rest) => mkPmsg (be32 ((v + 1) mod 4294967296)%N ++ rest) (pm_body m)
  | None => m          (* NNI_ASSERT(header_len == 4) -- unreachable, see PairProofs.norm_hdr4 *)
  end.
(* the message as pipe_send attaches it to aio_send *)
Definition wire_form (k : pkind) (m : pmsg) : pmsg := match k with K0 => m | K1 _ => bump m end.

(* sock_send, before the lock: None = nni_aio_finish_error(aio, NNG_EPROTO) *)
Definition norm_send (k : pkind) (m : pmsg) : option pmsg :=
  match k with
  | K0 => Some m
  | K1 false => Some (mkPmsg (be32 0) (pm_body m))     (* header_clear; header_append_u32(0) *)
  | K1 true =>
      match get32 (pm_hdr m) with
      | Some (v, []) => if (255 <=? v)%N then None else Some m
      | _ => None                                       (* header_len != 4 *)
      end
  end.

(* pipe_recv_cb, before the lock *)
Inductive rxres := RxBad | RxDrop | RxOk (m : pmsg).
Definition rx_decode (k : pkind) (ttl : nat) (m : pmsg) : rxres :=
  match k with
  | K0 => RxOk m
  | K1 _ =>
      match get32 (pm_body m) with
      | None => RxBad                                   (* len < sizeof(uint32_t) *)
      | Some (v, rest) =>
          if (255 <? v)%N then RxBad                    (* hdr > 0xff *)
          else if (N.of_nat ttl <? v)%N then RxDrop     (* (int) hdr > ttl *)
          else RxOk (mkPmsg (pm_hdr m ++ be32 v) rest)  (* trim_u32; header_append_u32(hdr) *)
      end
  end.

Record pair := mkPair {
  pr_p : option pid;                 (* s->p *)
  pr_ttl : nat;                      (* s->ttl (pair1 only) *)
  pr_wmq : list pmsg; pr_wcap : nat; (* s->wmq *)
  pr_waq : list (aioid * pmsg);      (* s->waq: blocked senders with their (normalised) message *)
  pr_rmq : list pmsg; pr_rcap : nat; (* s->rmq *)
  pr_raq : list aioid;               (* s->raq *)
  pr_rd : option pmsg;               (* rd_ready, with the message parked in p->aio_recv *)
  pr_wr : bool;                      (* wr_ready *)
  pr_sending : list (pid * pmsg);    (* message attached to each pipe's aio_send (in flight) *)
  pr_readable : bool; pr_writable : bool }.

Definition pair_init : pair := mkPair None PAIR_TTL_DEFAULT [] PAIR_BUF_DEFAULT [] [] PAIR_BUF_DEFAULT [] None false [] false false.

Definition lmq_full (q : list pmsg) (cap : nat) : bool := cap <=? length q.
(* nni_lmq_put; the C callers below ignore a failure (the message would be leaked) *)
Definition lmq_put (q : list pmsg) (cap : nat) (m : pmsg) : list pmsg := if lmq_full q cap then q else q ++ [m].
Definition isnil {A} (l : list A) : bool := match l with [] => true | _ => false end.

Definition set_snd (l : list (pid * pmsg)) (p : pid) (m : option pmsg) : list (pid * pmsg) :=
  let rest := filter (fun x => negb (N.eqb (fst x) p)) l in
  match m with Some x => (p, x) :: rest | None => rest end.
Definition snd_of (l : list (pid * pmsg)) (p : pid) : list pmsg :=
  map snd (filter (fun x => N.eqb (fst x) p) l).

(* pairX_set_send_buf_len (since 7c956d7): while (!nni_lmq_full(&s->wmq)) { a = first(waq); if none break;
   remove; lmq_put(wmq, msg); finish(a, 0) }  -> (wmq', waq', aios completed) *)
Fixpoint takein_waiters (cap : nat) (wmq : list pmsg) (waq : list (aioid * pmsg)) : list pmsg * list (aioid * pmsg) * list aioid :=
  match waq with
  | [] => (wmq, [], [])
  | (a, m) :: r =>
      if lmq_full wmq cap then (wmq, waq, [])
      else let '(w, q, d) := takein_waiters cap (wmq ++ [m]) r in (w, q, a :: d)
  end.

(* pairX_send_sched *)
Definition pair_send_sched (k : pkind) (s : pair) : pair * list pout :=
  match pr_p s with
  | None => (s, [])
  | Some p =>
      (* s->wr_ready = true *)
      let '(wmq', waq', wr', snd', outs) :=
        match pr_wmq s with
        | m :: rest =>
            (* pipe_send(p, m): wr_ready = false *)
            match pr_waq s with
            | (a, m2) :: aqr =>
                (lmq_put rest (pr_wcap s) m2, aqr, false, set_snd (pr_sending s) p (Some (wire_form k m)),
                 [TranSend p (wire_form k m); Complete a E_OK None])
            | [] => (rest, [], false, set_snd (pr_sending s) p (Some (wire_form k m)), [TranSend p (wire_form k m)])
            end
        | [] =>
            match pr_waq s with
            | (a, m2) :: aqr =>
                ([], aqr, false, set_snd (pr_sending s) p (Some (wire_form k m2)),
                 [TranSend p (wire_form k m2); Complete a E_OK None])
            | [] => ([], [], true, pr_sending s, [])
            end
        end in
      let w := if negb (lmq_full wmq' (pr_wcap s)) || wr' then true else pr_writable s in
      (mkPair (pr_p s) (pr_ttl s) wmq' (pr_wcap s) waq' (pr_rmq s) (pr_rcap s) (pr_raq s) (pr_rd s) wr' snd'
              (pr_readable s) w, outs)
  end.

Definition pair_step (k : pkind) (fx fr : bool) (s : pair) (o : pop) : pair * list pout :=
  match o with
  | PPipeStart p peer =>                                   (* pairX_pipe_start *)
      if negb (N.eqb peer (pair_peer k)) then (s, [Reject E_PROTO])
      else match pr_p s with
           | Some _ => (s, [Reject E_BUSY])
           | None =>
               let s1 := mkPair (Some p) (pr_ttl s) (pr_wmq s) (pr_wcap s) (pr_waq s) (pr_rmq s) (pr_rcap s) (pr_raq s)
                                None (pr_wr s) (pr_sending s) (pr_readable s) (pr_writable s) in
               let (s2, outs) := pair_send_sched k s1 in (s2, outs ++ [TranRecv p])
           end
  | PPipeClose p =>                                        (* pairX_pipe_close ; pairX_pipe_stop *)
      match pr_p s with
      | Some q =>
          if N.eqb q p then
            let fr := match pr_rd s with Some h => [Free h] | None => [] end in
            let w := if pr_wr s then (if fx && negb (lmq_full (pr_wmq s) (pr_wcap s)) then pr_writable s else false)
                     else pr_writable s in
            let r := if isnil (pr_rmq s) then false else pr_readable s in
            (mkPair None (pr_ttl s) (pr_wmq s) (pr_wcap s) (pr_waq s) (pr_rmq s) (pr_rcap s) (pr_raq s)
                    None false (pr_sending s) r w, fr)
          else (s, [])
      | None => (s, [])
      end
  | PSendDone p rv =>                                      (* pairX_pipe_send_cb *)
      if negb (N.eqb rv 0) then
        (mkPair (pr_p s) (pr_ttl s) (pr_wmq s) (pr_wcap s) (pr_waq s) (pr_rmq s) (pr_rcap s) (pr_raq s)
                (pr_rd s) (pr_wr s) (set_snd (pr_sending s) p None) (pr_readable s) (pr_writable s),
         map Free (snd_of (pr_sending s) p) ++ [ClosePipe p])
      else
        pair_send_sched k (mkPair (pr_p s) (pr_ttl s) (pr_wmq s) (pr_wcap s) (pr_waq s) (pr_rmq s) (pr_rcap s) (pr_raq s)
                                  (pr_rd s) (pr_wr s) (set_snd (pr_sending s) p None) (pr_readable s) (pr_writable s))
  | PRecvDone p rv m =>                                    (* pairX_pipe_recv_cb *)
      if negb (N.eqb rv 0) then (s, [ClosePipe p])
      else match rx_decode k (pr_ttl s) m with
           | RxBad => (s, [Free m; ClosePipe p])
           | RxDrop => (s, [Free m; TranRecv p])
           | RxOk m' =>
               match pr_raq s with
               | a :: rest =>
                   (mkPair (pr_p s) (pr_ttl s) (pr_wmq s) (pr_wcap s) (pr_waq s) (pr_rmq s) (pr_rcap s) rest
                           (pr_rd s) (pr_wr s) (pr_sending s) (pr_readable s) (pr_writable s),
                    [TranRecv p; Complete a E_OK (Some m')])
               | [] =>
                   if negb (lmq_full (pr_rmq s) (pr_rcap s)) then
                     (mkPair (pr_p s) (pr_ttl s) (pr_wmq s) (pr_wcap s) (pr_waq s) (pr_rmq s ++ [m']) (pr_rcap s) []
                             (pr_rd s) (pr_wr s) (pr_sending s) true (pr_writable s), [TranRecv p])
                   else
                     (mkPair (pr_p s) (pr_ttl s) (pr_wmq s) (pr_wcap s) (pr_waq s) (pr_rmq s) (pr_rcap s) []
                             (Some m') (pr_wr s) (pr_sending s) true (pr_writable s), [])
               end
           end
  | PSend _ a nb m =>                                      (* pairX_sock_send *)
      match norm_send k m with
      | None => (s, [Complete a E_PROTO None])
      | Some m' =>
          if pr_wr s then
            match pr_p s with
            | Some p =>
                let w := if lmq_full (pr_wmq s) (pr_wcap s) then false else pr_writable s in
                (mkPair (pr_p s) (pr_ttl s) (pr_wmq s) (pr_wcap s) (pr_waq s) (pr_rmq s) (pr_rcap s) (pr_raq s)
                        (pr_rd s) false (set_snd (pr_sending s) p (Some (wire_form k m'))) (pr_readable s) w,
                 [Complete a E_OK None; TranSend p (wire_form k m')])
            | None => (s, [Complete a E_OK None])   (* wr_ready with s->p == NULL: the C dereferences NULL; unreachable (PairProofs.PInv) *)
            end
          else if negb (lmq_full (pr_wmq s) (pr_wcap s)) then
            let wmq' := pr_wmq s ++ [m'] in
            let w := if lmq_full wmq' (pr_wcap s) then false else pr_writable s in
            (mkPair (pr_p s) (pr_ttl s) wmq' (pr_wcap s) (pr_waq s) (pr_rmq s) (pr_rcap s) (pr_raq s)
                    (pr_rd s) (pr_wr s) (pr_sending s) (pr_readable s) w, [Complete a E_OK None])
          else if nb then (s, [Complete a E_AGAIN None])
          else (mkPair (pr_p s) (pr_ttl s) (pr_wmq s) (pr_wcap s) (pr_waq s ++ [(a, m')]) (pr_rmq s) (pr_rcap s) (pr_raq s)
                       (pr_rd s) (pr_wr s) (pr_sending s) (pr_readable s) (pr_writable s), [])
      end
  | PRecv _ a nb =>                                        (* pairX_sock_recv *)
      match pr_rmq s with
      | m :: rest =>
          let '(rmq', rearm) :=
            match pr_rd s with
            | Some h => (lmq_put rest (pr_rcap s) h, match pr_p s with Some p => [TranRecv p] | None => [] end)
            | None => (rest, [])
            end in
          let r := if isnil rmq' then false else pr_readable s in
          (mkPair (pr_p s) (pr_ttl s) (pr_wmq s) (pr_wcap s) (pr_waq s) rmq' (pr_rcap s) (pr_raq s)
                  None (pr_wr s) (pr_sending s) r (pr_writable s), Complete a E_OK (Some m) :: rearm)
      | [] =>
          match pr_rd s with
          | Some h =>
              (mkPair (pr_p s) (pr_ttl s) (pr_wmq s) (pr_wcap s) (pr_waq s) [] (pr_rcap s) (pr_raq s)
                      None (pr_wr s) (pr_sending s) false (pr_writable s),
               Complete a E_OK (Some h) :: match pr_p s with Some p => [TranRecv p] | None => [] end)
          | None =>
              if nb then (s, [Complete a E_AGAIN None])
              else (mkPair (pr_p s) (pr_ttl s) (pr_wmq s) (pr_wcap s) (pr_waq s) [] (pr_rcap s) (pr_raq s ++ [a])
                           None (pr_wr s) (pr_sending s) (pr_readable s) (pr_writable s), [])
          end
      end
  | PCancel a rv =>                                        (* pairX_cancel *)
      if has_aio a (pr_waq s) then
        (mkPair (pr_p s) (pr_ttl s) (pr_wmq s) (pr_wcap s) (remove_aio a (pr_waq s)) (pr_rmq s) (pr_rcap s) (pr_raq s)
                (pr_rd s) (pr_wr s) (pr_sending s) (pr_readable s) (pr_writable s), [Complete a rv None])
      else if has_id a (pr_raq s) then
        (mkPair (pr_p s) (pr_ttl s) (pr_wmq s) (pr_wcap s) (pr_waq s) (pr_rmq s) (pr_rcap s) (remove_id a (pr_raq s))
                (pr_rd s) (pr_wr s) (pr_sending s) (pr_readable s) (pr_writable s), [Complete a rv None])
      else (s, [])
  | PSetOpt _ (OSendBuf n) =>                              (* pairX_set_send_buf_len *)
      if (PAIR_BUF_MAX <? N.of_nat n)%N then (s, [OptRv E_INVAL]) else
      let '(wmq', waq', done) :=
        if fr then takein_waiters n (firstn n (pr_wmq s)) (pr_waq s) else (firstn n (pr_wmq s), pr_waq s, []) in
      let w := if negb (lmq_full wmq' n) then true else if negb (pr_wr s) then false else pr_writable s in
      (mkPair (pr_p s) (pr_ttl s) wmq' n waq' (pr_rmq s) (pr_rcap s) (pr_raq s)
              (pr_rd s) (pr_wr s) (pr_sending s) (pr_readable s) w,
       map Free (skipn n (pr_wmq s)) ++ map (fun a => Complete a E_OK None) done ++ [OptRv E_OK])
  | PSetOpt _ (ORecvBuf n) =>                              (* pairX_set_recv_buf_len *)
      if (PAIR_BUF_MAX <? N.of_nat n)%N then (s, [OptRv E_INVAL]) else
      let rmq' := firstn n (pr_rmq s) in
      let r := if negb (isnil rmq') then true else match pr_rd s with None => false | Some _ => pr_readable s end in
      (mkPair (pr_p s) (pr_ttl s) (pr_wmq s) (pr_wcap s) (pr_waq s) rmq' n (pr_raq s)
              (pr_rd s) (pr_wr s) (pr_sending s) r (pr_writable s),
       map Free (skipn n (pr_rmq s)) ++ [OptRv E_OK])
  | PSetOpt _ (OMaxTtl n) =>                               (* pair1_sock_set_max_ttl *)
      match k with
      | K0 => (s, [OptRv E_NOTSUP])
      | K1 _ =>
          if (n <? PAIR_TTL_MIN) || (PAIR_TTL_MAX <? n) then (s, [OptRv E_INVAL])
          else (mkPair (pr_p s) n (pr_wmq s) (pr_wcap s) (pr_waq s) (pr_rmq s) (pr_rcap s) (pr_raq s)
                       (pr_rd s) (pr_wr s) (pr_sending s) (pr_readable s) (pr_writable s), [OptRv E_OK])
      end
  | PSetOpt _ _ => (s, [OptRv E_NOTSUP])
  | PSockClose =>                                          (* pairX_sock_close *)
      (mkPair (pr_p s) (pr_ttl s) [] (pr_wcap s) [] [] (pr_rcap s) []
              (pr_rd s) (pr_wr s) (pr_sending s) (pr_readable s) (pr_writable s),
       fail_aios E_CLOSED (pr_raq s) ++ fail_aios E_CLOSED (map fst (pr_waq s)) ++
       map Free (pr_rmq s) ++ map Free (pr_wmq s))
  | PCtxOpen _ => (s, [OptRv E_NOTSUP])                    (* no ctx ops: nng_ctx_open fails *)
  | PCtxClose _ | PTick _ => (s, [])
  end.

Definition pair_poll (s : pair) : ppoll := mkPoll (Some (pr_readable s)) (Some (pr_writable s)).
