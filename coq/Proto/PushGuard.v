(* PushGuard: push.c since fix 8475361 ("PUSH put a closed pipe back on its ready list"):
   push0_pipe_close marks the pipe closed and push0_pipe_ready does nothing for a closed pipe.
   The wrapper adds the set of closed pipes to PushModel's state; [fc] = the repair is in the
   source (Gen/Consts.v C06_PUSH_CLOSED_GUARD_FIXED).  With fc = false, and in every step that is
   not the successful send completion of a closed pipe, it is PushModel.push_step_r fr unchanged
   (fr = the resize repair is in the source, Gen/Consts.v C06_PUSH_RESIZE_ADMITS_FIXED; push_step_r
   false = push_step, and push_step_r true differs from push_step only on NNG_OPT_SENDBUF), so the
   theorems of PushProofs / PushSubmit / PipelineProofs carry over (PushGuard_contract below). *)
From Coq Require Import List Arith NArith Bool Lia.
From NngV Require Import Gen.Consts Proto.Common Proto.PushModel.
Import ListNotations.

Record pushg := mkPushg { pg_s : push; pg_closed : list pid }.

Definition pushg_init : pushg := mkPushg push_init [].

Definition push_step_g (fc fr : bool) (g : pushg) (o : pop) : pushg * list pout :=
  match o with
  | PPipeClose p =>
      let (s', outs) := push_step_r fr (pg_s g) o in (mkPushg s' (p :: pg_closed g), outs)
  | PSendDone p rv =>
      if fc && N.eqb rv 0 && has_id p (pg_closed g) then
        (* push0_send_cb -> push0_pipe_ready: p->closed => return (the message was sent) *)
        let s := pg_s g in
        (mkPushg (mkPush (ps_pl s) (ps_wq s) (ps_cap s) (ps_aq s) (set_sending s p None) (ps_writable s)) (pg_closed g), [])
      else let (s', outs) := push_step_r fr (pg_s g) o in (mkPushg s' (pg_closed g), outs)
  | _ => let (s', outs) := push_step_r fr (pg_s g) o in (mkPushg s' (pg_closed g), outs)
  end.

Definition pushg_poll (g : pushg) : ppoll := push_poll (pg_s g).

(* the instance for the source as it is *)
Definition push0_init : pushg := pushg_init.
Definition push0_step : pushg -> pop -> pushg * list pout := push_step_g C06_PUSH_CLOSED_GUARD_FIXED C06_PUSH_RESIZE_ADMITS_FIXED.
Definition push0_poll : pushg -> ppoll := pushg_poll.

(* ---- proofs ---- *)
Definition stale_done (g : pushg) (o : pop) : bool :=
  match o with PSendDone p rv => N.eqb rv 0 && has_id p (pg_closed g) | _ => false end.
Definition is_resize (o : pop) : bool := match o with PSetOpt _ (OSendBuf _) => true | _ => false end.

Lemma push_step_r_false s o : push_step_r false s o = push_step s o.
Proof. destruct o as [| | | | | | |c op| | | |]; try reflexivity. destruct op; reflexivity. Qed.
Lemma push_step_r_other fr s o : is_resize o = false -> push_step_r fr s o = push_step s o.
Proof. destruct o as [| | | | | | |c op| | | |]; try reflexivity. destruct op; try reflexivity. discriminate. Qed.

Theorem PushGuard_contract_r fc fr g o : stale_done g o = false ->
  pg_s (fst (push_step_g fc fr g o)) = fst (push_step_r fr (pg_s g) o) /\
  snd (push_step_g fc fr g o) = snd (push_step_r fr (pg_s g) o).
Proof.
  intros H. destruct o; cbn [push_step_g stale_done] in *;
    try (destruct (push_step_r fr (pg_s g) _) as [s' outs]; split; reflexivity).
  rewrite <- andb_assoc, H, andb_false_r. destruct (push_step_r fr (pg_s g) _) as [s' outs]. split; reflexivity.
Qed.

Theorem PushGuard_contract fc fr g o : stale_done g o = false -> (fr = false \/ is_resize o = false) ->
  fst (fst (push_step_g fc fr g o), snd (push_step_g fc fr g o)) = fst (push_step_g fc fr g o) /\
  pg_s (fst (push_step_g fc fr g o)) = fst (push_step (pg_s g) o) /\
  snd (push_step_g fc fr g o) = snd (push_step (pg_s g) o).
Proof.
  intros H R. split; [reflexivity|]. destruct (PushGuard_contract_r fc fr g o H) as [A B]. rewrite A, B.
  destruct R as [->|R]; [rewrite push_step_r_false|rewrite push_step_r_other by exact R]; split; reflexivity.
Qed.

(* a closed pipe is never on the ready list again (pipe ids are not reused) *)
Definition CInv (g : pushg) : Prop := forall p, In p (pg_closed g) -> ~ In p (ps_pl (pg_s g)).
Definition fresh_ok (g : pushg) (o : pop) : Prop :=
  match o with PPipeStart p _ => ~ In p (pg_closed g) | _ => True end.

Lemma has_id_In p l : has_id p l = true <-> In p l.
Proof.
  unfold has_id. rewrite existsb_exists. split.
  - intros (x & Hx & E). apply N.eqb_eq in E. subst. exact Hx.
  - intros H. exists p. split; [exact H|apply N.eqb_refl].
Qed.
Lemma remove_id_sub p q l : In q (remove_id p l) -> In q l /\ q <> p.
Proof.
  unfold remove_id. intros H. apply filter_In in H as [H1 H2]. split; auto.
  intros ->. rewrite N.eqb_refl in H2. discriminate.
Qed.

(* what push_pipe_ready can add to the ready list: only the pipe it was called for *)
Lemma ready_pl s p s' outs : push_pipe_ready s p = (s', outs) -> forall q, In q (ps_pl s') -> In q (ps_pl s) \/ q = p.
Proof.
  unfold push_pipe_ready. intros H q.
  destruct (ps_wq s) as [|m rest]; destruct (ps_aq s) as [|[a m2] aqr]; inversion H; subst; cbn [ps_pl];
    intros Hin; try (left; exact Hin).
  apply in_app_or in Hin as [Hin|[<-|[]]]; [left; exact Hin|right; reflexivity].
Qed.

Theorem push_closed_never_ready_step fr g o g' outs :
  CInv g -> fresh_ok g o -> push_step_g true fr g o = (g', outs) -> CInv g'.
Proof.
  unfold CInv. intros HI HF H.
  destruct o as [c a nb m|c a nb|a rv|p peer|p|p rv|p rv m|c o|c|c| |now]; cbn [push_step_g push_step_r fresh_ok] in *.
  - (* PSend *)
    cbn [push_step] in H. destruct (ps_pl (pg_s g)) as [|p0 rest] eqn:PL.
    + destruct (negb (wq_full (pg_s g))); [|destruct nb]; inversion H; subst; cbn [pg_closed pg_s ps_pl];
        intros q Hq Hin; rewrite ?PL in Hin; destruct Hin.
    + inversion H; subst. cbn [pg_closed pg_s ps_pl]. intros q Hq Hin. apply (HI q Hq).
      right. exact Hin.
  - cbn [push_step] in H. inversion H; subst. exact HI.
  - cbn [push_step] in H. destruct (has_aio a (ps_aq (pg_s g))); inversion H; subst; exact HI.
  - (* PPipeStart *)
    cbn [push_step] in H. destruct (negb (peer =? PROTO_PULL)%N).
    + inversion H; subst. exact HI.
    + destruct (push_pipe_ready (pg_s g) p) as [s' o1] eqn:R. inversion H; subst. cbn [pg_closed pg_s].
      intros q Hq Hin. destruct (ready_pl _ _ _ _ R q Hin) as [X| ->]; [exact (HI q Hq X)|exact (HF Hq)].
  - (* PPipeClose *)
    cbn [push_step] in H. destruct (has_id p (ps_pl (pg_s g))) eqn:HP; inversion H; subst; cbn [pg_closed pg_s ps_pl].
    + intros q [<-|Hq] Hin.
      * apply remove_id_sub in Hin as [_ X]. congruence.
      * apply remove_id_sub in Hin as [X _]. exact (HI q Hq X).
    + intros q [<-|Hq] Hin.
      * apply has_id_In in Hin. congruence.
      * exact (HI q Hq Hin).
  - (* PSendDone *)
    cbn [andb] in H. destruct ((rv =? 0)%N && has_id p (pg_closed g)) eqn:ST.
    + inversion H; subst. cbn [pg_closed pg_s ps_pl]. exact HI.
    + cbn [push_step] in H. destruct (negb (rv =? 0)%N) eqn:RV.
      * inversion H; subst. cbn [pg_closed pg_s ps_pl]. exact HI.
      * destruct (push_pipe_ready _ p) as [s' o1] eqn:R. inversion H; subst. cbn [pg_closed pg_s].
        intros q Hq Hin. destruct (ready_pl _ _ _ _ R q Hin) as [X| ->]; [cbn [ps_pl] in X; exact (HI q Hq X)|].
        apply negb_false_iff in RV. rewrite RV in ST. cbn [andb] in ST.
        apply has_id_In in Hq. congruence.
  - (* PRecvDone *) cbn [push_step] in H. destruct (negb (rv =? 0)%N); inversion H; subst; exact HI.
  - (* PSetOpt: neither text touches the ready list *)
    destruct o; try (cbn [push_step] in H; inversion H; subst; exact HI).
    destruct (fr && negb (8192 <? N.of_nat n)%N).
    + unfold push_resize_takein in H. inversion H; subst. exact HI.
    + cbn [push_step] in H. destruct (8192 <? N.of_nat n)%N; inversion H; subst; exact HI.
  - cbn [push_step] in H. inversion H; subst. exact HI.
  - cbn [push_step] in H. inversion H; subst. exact HI.
  - cbn [push_step] in H. inversion H; subst. exact HI.
  - cbn [push_step] in H. inversion H; subst. exact HI.
Qed.

Fixpoint push_run_g (fc fr : bool) (g : pushg) (ops : list pop) : pushg :=
  match ops with [] => g | o :: r => push_run_g fc fr (fst (push_step_g fc fr g o)) r end.
Fixpoint fresh_all (fc fr : bool) (g : pushg) (ops : list pop) : Prop :=
  match ops with [] => True | o :: r => fresh_ok g o /\ fresh_all fc fr (fst (push_step_g fc fr g o)) r end.

Theorem push_closed_never_ready fr ops : forall g, CInv g -> fresh_all true fr g ops -> CInv (push_run_g true fr g ops).
Proof.
  induction ops as [|o r IH]; intros g HI HF; cbn [push_run_g fresh_all] in *; [exact HI|].
  destruct HF as [F1 F2]. destruct (push_step_g true fr g o) as [g' outs] eqn:E. cbn [fst] in *.
  apply IH; [eapply push_closed_never_ready_step; eauto|exact F2].
Qed.

(* the pinned push0_send_cb: a send that succeeded just before the close puts the closed pipe
   back on the ready list, and the next send hands a message to it (in C: a destroyed pipe) *)
Definition push_stale_witness : list pop :=
  [PPipeStart 1%N PROTO_PULL; PSend None 1%N true (mkPmsg [] [1%N]); PPipeClose 1%N; PSendDone 1%N 0%N].
Theorem push_closed_pipe_ready_refuted fr :
  let g := push_run_g false fr pushg_init push_stale_witness in
  fresh_all false fr pushg_init push_stale_witness /\ In 1%N (pg_closed g) /\ In 1%N (ps_pl (pg_s g)) /\
  exists g' rest, push_step_g false fr g (PSend None 2%N true (mkPmsg [] [2%N])) = (g', Complete 2%N E_OK None :: TranSend 1%N (mkPmsg [] [2%N]) :: rest).
Proof. destruct fr; vm_compute; (split; [intuition discriminate|]); (split; [left; reflexivity|]); (split; [left; reflexivity|]); eexists _, _; reflexivity. Qed.
Theorem push_closed_pipe_ready_holds_on_witness fr :
  let g := push_run_g true fr pushg_init push_stale_witness in ps_pl (pg_s g) = [] /\ ps_sending (pg_s g) = [].
Proof. destruct fr; vm_compute; split; reflexivity. Qed.
