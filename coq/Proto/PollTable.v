(* PollTable: the C15 packs instantiated with the repairs the CURRENT source has
   (Gen/Consts.v is regenerated from /repo on every run), the proof that each of
   them runs exactly the step function of this property's model daemon
   (PollModel.c15_*_step), and the flag-dependent forms of the clauses that depend
   on a repair the source does not (yet) have.  A regression of any other repair
   makes the instantiation lemmas of Properties_C15 fail to type-check, which the
   check reports as a broken proof obligation (and its oracle finds the input). *)
From Coq Require Import List NArith Bool.
From NngV Require Import Gen.Consts Proto.Common Proto.PollModel Proto.PollProofs Proto.PollPipeline Proto.PollPubSub
  Proto.PollReq Proto.PollRepX Proto.PollSurvey Proto.PollPairBus.
From NngV Require Proto.PairModel Proto.RespondModel.
Import ListNotations.

Definition Req_now : pmodel := M_req c15_req_fix.
Definition Rep_now : pmodel := M_rep c15_rep_fix.
Definition XReq_now : pmodel := M_xreq c15_mq_fix.
Definition XRep_now : pmodel := M_xrep c15_mq_fix.
Definition Pub_now : pmodel := M_pub.
Definition Sub_now : pmodel := M_sub C05_SUB_UNSUB_CLEARS_POLL.
Definition XSub_now : pmodel := M_xsub C05_MSGQ_GET_TRIES_FIRST C05_MSGQ_RESIZE_NOTIFIES.
Definition Push_now : pmodel := M_push.
Definition Pull_now : pmodel := M_pull.
Definition Surv_now : pmodel := M_surv C07_SURV_NBRECV_FIXED.
Definition Resp_now : pmodel := M_resp c15_resp_fix.
Definition XSurv_now : pmodel := M_xsurv c15_xs_fix.
Definition XResp_now : pmodel := M_xresp c15_xs_fix.
Definition Pair0_now : pmodel := M_pair PairModel.K0 C08_PAIR0_STOP_WRITABLE_FIXED C08_PAIR0_RESIZE_ADMITS_FIXED C08_PAIR0_STALE_FIXED.
Definition Pair1_now : pmodel := M_pair (PairModel.K1 false) C08_PAIR1_STOP_WRITABLE_FIXED C08_PAIR1_RESIZE_ADMITS_FIXED C08_PAIR1_STALE_FIXED.
Definition Pair1raw_now : pmodel := M_pair (PairModel.K1 true) C08_PAIR1_STOP_WRITABLE_FIXED C08_PAIR1_RESIZE_ADMITS_FIXED C08_PAIR1_STALE_FIXED.
Definition Bus_now (raw : bool) : pmodel := M_bus BUS_SEND_NO_AIO_START C03_BUS_START_BEFORE_DETACH raw.

(* each pack runs what the daemon runs *)
Lemma now_steps :
  pm_step Req_now = c15_req_step /\ pm_step Rep_now = c15_rep_step /\ pm_step XReq_now = c15_xreq_step /\
  pm_step XRep_now = c15_xrep_step /\ pm_step Pub_now = c15_pub_step /\ pm_step Sub_now = c15_sub_step /\
  pm_step XSub_now = c15_xsub_step /\ pm_step Push_now = c15_push_step /\ pm_step Pull_now = c15_pull_step /\
  pm_step Surv_now = c15_surv_step /\ pm_step Resp_now = c15_resp_step /\ pm_step XSurv_now = c15_xsurv_step /\
  pm_step XResp_now = c15_xresp_step /\ pm_step Pair0_now = c15_pair0_step /\ pm_step Pair1_now = c15_pair1_step /\
  pm_step Pair1raw_now = c15_pair1raw_step /\ (forall raw, pm_step (Bus_now raw) = c15_bus_step).
Proof. repeat split. Qed.
Lemma now_inits_polls :
  pm_init Req_now = c15_req_init /\ pm_poll Req_now = c15_req_poll /\ pm_init Rep_now = c15_rep_init /\ pm_poll Rep_now = c15_rep_poll /\
  pm_init XReq_now = c15_xreq_init /\ pm_poll XReq_now = c15_xreq_poll /\ pm_init XRep_now = c15_xrep_init /\ pm_poll XRep_now = c15_xrep_poll /\
  pm_init Pub_now = c15_pub_init /\ pm_poll Pub_now = c15_pub_poll /\ pm_init Sub_now = c15_sub_init /\ pm_poll Sub_now = c15_sub_poll /\
  pm_init XSub_now = c15_xsub_init /\ pm_poll XSub_now = c15_xsub_poll /\ pm_init Push_now = c15_push_init /\ pm_poll Push_now = c15_push_poll /\
  pm_init Pull_now = c15_pull_init /\ pm_poll Pull_now = c15_pull_poll /\ pm_init Surv_now = c15_surv_init /\ pm_poll Surv_now = c15_surv_poll /\
  pm_init Resp_now = c15_resp_init /\ pm_poll Resp_now = c15_resp_poll /\ pm_init XSurv_now = c15_xsurv_init /\ pm_poll XSurv_now = c15_xsurv_poll /\
  pm_init XResp_now = c15_xresp_init /\ pm_poll XResp_now = c15_xresp_poll /\ pm_init Pair0_now = c15_pair_init /\ pm_poll Pair0_now = c15_pair_poll /\
  (forall raw, pm_init (Bus_now raw) = c15_bus_init raw /\ pm_poll (Bus_now raw) = c15_bus_poll).
Proof. repeat split. Qed.

(* a clause that holds iff a repair is present: [now b P] = P if the source has the repair, ~ P if it has not *)
Definition now (b : bool) (P : Prop) : Prop := if b then P else ~ P.

(* RESPONDENT: everything on the send side hinges on rf_nb (respond.c calls nni_aio_start before it looks at its
   state: recorded, unrepaired -- the repository's own respond_test expects it) *)
Lemma resp_nb_possible_by_flag nb : now nb (C15_nb_possible (M_resp (rfx nb))).
Proof. destruct nb; [exact resp_c15_nb_possible|exact resp_c15_nb_possible_refuted_cur]. Qed.
Lemma resp_mirror_by_flag nb : now nb (C15_mirror (M_resp (rfx nb))).
Proof. destruct nb; [exact resp_c15_mirror|exact resp_c15_mirror_refuted_cur]. Qed.
Lemma resp_nb_immediate_any nb : C15_nb_immediate (M_resp (rfx nb)).
Proof. destruct nb; [exact resp_c15_nb_immediate|exact resp_c15_nb_immediate_cur]. Qed.
Lemma resp_inv_any nb : C15_inv (M_resp (rfx nb)).
Proof. destruct nb; [exact resp_c15_inv|exact resp_c15_inv_cur]. Qed.
Lemma resp_mirror_r_any nb : C15_mirror_r (M_resp (rfx nb)).
Proof.
  destruct nb; [|exact resp_c15_mirror_r_cur]. intros s R. exact (proj1 (resp_c15_mirror s R)).
Qed.
Lemma resp_nb_recv_possible_any nb : C15_nb_recv_possible (M_resp (rfx nb)).
Proof.
  destruct nb; [|exact resp_c15_nb_recv_possible_cur]. intros s R. exact (proj2 (resp_c15_nb_possible s R)).
Qed.
