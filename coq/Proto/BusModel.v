(* BusModel: src/sp/protocol/bus0/bus.c, cooked and raw.  Definitions only.
   One step = one critical section of bus0_sock.mtx (or an entry point / callback
   that completes without locking).  The per-pipe send queues and the receive
   queue (nni_lmq) are used at the level of their specification, a bounded FIFO
   (justified by Properties_C18.lmq_refines_fifo).

   [fixed] follows the source (tools/gen_consts_d/c09_bus.py, BUS_SEND_NO_AIO_START):
   false = bus0_sock_send takes the message out of the aio, strips / trims its
           header and only then calls nni_aio_start(aio, NULL, NULL), which refuses
           every aio whose timeout is zero (NNG_FLAG_NONBLOCK): the send returns
           NNG_EAGAIN, nothing is sent and the aio's message slot is already empty;
   true  = that call is gone (the send completes without ever being started, as
           pub0_sock_send does). *)
From Coq Require Import List Arith NArith Bool.
From NngV Require Import Proto.Common.
Import ListNotations.

Definition PROTO_BUS : N := 112.          (* NNI_PROTO(7, 0), self and peer *)
Definition BUS_SENDBUF_DEFAULT : nat := 16.   (* s->send_buf = 16 *)
Definition BUS_RECVBUF_DEFAULT : nat := 16.   (* nni_lmq_init(&s->recv_msgs, 16) *)
Definition BUS_BUF_MIN : N := 1.          (* nni_copyin_int(&val, buf, sz, 1, 8192, t) *)
Definition BUS_BUF_MAX : N := 8192.

(* bus0_pipe: the pipe's id, busy, send_queue and its capacity *)
Record bpipe := mkBP { bp_id : pid; bp_busy : bool; bp_q : list pmsg; bp_cap : nat }.

Record bus := mkBus {
  bs_raw : bool;
  bs_pipes : list bpipe;             (* s->pipes, in list order (started, not closed) *)
  bs_rq : list pmsg; bs_rcap : nat;  (* recv_msgs and its capacity *)
  bs_wait : list aioid;              (* recv_wait *)
  bs_sendbuf : nat;                  (* send_buf: depth given to new pipes *)
  bs_sending : list (pid * pmsg);    (* message attached to each pipe's aio_send *)
  bs_readable : bool;                (* can_recv *)
  bs_lost : list pmsg                (* ghost: messages taken out of a user aio whose send then
                                        failed -- not sent, not freed, not put back in the aio *)
}.

Definition bus_init (raw : bool) : bus :=
  mkBus raw [] [] BUS_RECVBUF_DEFAULT [] BUS_SENDBUF_DEFAULT [] false [].

(* big-endian 32-bit words of the header (NNI_GET32 / NNI_PUT32) *)
Definition dec32 (l : list N) : N := fold_left (fun acc b => (acc * 256 + b)%N) l 0%N.
Definition enc32 (v : N) : list N :=
  [((v / 16777216) mod 256)%N; ((v / 65536) mod 256)%N; ((v / 256) mod 256)%N; (v mod 256)%N].

(* the part of bus0_sock_send before the lock: raw = trim the originating pipe id
   off the header when there are at least 4 header bytes (the rest of the header
   stays); cooked = clear the header.  Returns (sender, the message as sent). *)
Definition bus_prep (raw : bool) (m : pmsg) : N * pmsg :=
  if raw then
    if 4 <=? length (pm_hdr m)
    then (dec32 (firstn 4 (pm_hdr m)), mkPmsg (skipn 4 (pm_hdr m)) (pm_body m))
    else (0%N, m)
  else (0%N, mkPmsg [] (pm_body m)).

(* the body of the NNI_LIST_FOREACH in bus0_sock_send, for one pipe *)
Inductive offer := OSkip | ODirect | OQueued | ODropped.
Definition offer_kind (raw : bool) (sender : N) (bp : bpipe) : offer :=
  if raw && N.eqb (bp_id bp) sender then OSkip
  else if negb (bp_busy bp) then ODirect
  else if length (bp_q bp) <? bp_cap bp then OQueued
  else ODropped.
Definition offer_pipe (raw : bool) (sender : N) (m : pmsg) (bp : bpipe) : bpipe :=
  match offer_kind raw sender bp with
  | ODirect => mkBP (bp_id bp) true (bp_q bp) (bp_cap bp)
  | OQueued => mkBP (bp_id bp) (bp_busy bp) (bp_q bp ++ [m]) (bp_cap bp)
  | _ => bp
  end.
Definition offer_outs (raw : bool) (sender : N) (m : pmsg) (bp : bpipe) : list pout :=
  match offer_kind raw sender bp with ODirect => [TranSend (bp_id bp) m] | _ => [] end.
Definition offer_sending (raw : bool) (sender : N) (m : pmsg) (bp : bpipe) : list (pid * pmsg) :=
  match offer_kind raw sender bp with ODirect => [(bp_id bp, m)] | _ => [] end.

(* bus0_pipe_send_cb, success branch, on the pipe's own record *)
Definition pipe_next (bp : bpipe) : bpipe * list pmsg :=
  match bp_q bp with
  | m :: r => (mkBP (bp_id bp) (bp_busy bp) r (bp_cap bp), [m])
  | [] => (mkBP (bp_id bp) false [] (bp_cap bp), [])
  end.

Definition is_pipe (p : pid) (bp : bpipe) : bool := N.eqb (bp_id bp) p.
Definition has_pipe (p : pid) (l : list bpipe) : bool := existsb (is_pipe p) l.
Definition held_of (p : pid) (l : list (pid * pmsg)) : list pmsg :=
  map snd (filter (fun x => N.eqb (fst x) p) l).
Definition drop_sending (p : pid) (l : list (pid * pmsg)) : list (pid * pmsg) :=
  filter (fun x => negb (N.eqb (fst x) p)) l.
Definition buf_bad (n : nat) : bool := (N.of_nat n <? BUS_BUF_MIN)%N || (BUS_BUF_MAX <? N.of_nat n)%N.
Definition is_nil {A} (l : list A) : bool := match l with [] => true | _ => false end.

Definition bus_step (fixed : bool) (s : bus) (o : pop) : bus * list pout :=
  match o with
  | PPipeStart p peer =>
      (* bus0_pipe_init (queue of the current send_buf) + bus0_pipe_start *)
      if negb (N.eqb peer PROTO_BUS) then (s, [Reject E_PROTO])
      else (mkBus (bs_raw s) (bs_pipes s ++ [mkBP p false [] (bs_sendbuf s)]) (bs_rq s) (bs_rcap s) (bs_wait s)
                  (bs_sendbuf s) (bs_sending s) (bs_readable s) (bs_lost s), [TranRecv p])
  | PPipeClose p =>
      (* bus0_pipe_close: flush the send queue, leave the list *)
      (mkBus (bs_raw s) (filter (fun bp => negb (is_pipe p bp)) (bs_pipes s)) (bs_rq s) (bs_rcap s) (bs_wait s)
             (bs_sendbuf s) (bs_sending s) (bs_readable s) (bs_lost s),
       map Free (flat_map (fun bp => if is_pipe p bp then bp_q bp else []) (bs_pipes s)))
  | PSendDone p rv =>
      if negb (N.eqb rv 0) then
        (* the message is still attached to aio_send: free it, close the pipe (no lock, busy stays) *)
        (mkBus (bs_raw s) (bs_pipes s) (bs_rq s) (bs_rcap s) (bs_wait s) (bs_sendbuf s)
               (drop_sending p (bs_sending s)) (bs_readable s) (bs_lost s),
         map Free (held_of p (bs_sending s)) ++ [ClosePipe p])
      else
        let next := flat_map (fun bp => if is_pipe p bp then snd (pipe_next bp) else []) (bs_pipes s) in
        (mkBus (bs_raw s) (map (fun bp => if is_pipe p bp then fst (pipe_next bp) else bp) (bs_pipes s))
               (bs_rq s) (bs_rcap s) (bs_wait s) (bs_sendbuf s)
               (map (fun m => (p, m)) next ++ drop_sending p (bs_sending s)) (bs_readable s) (bs_lost s),
         map (TranSend p) next)
  | PRecvDone p rv m =>
      if negb (N.eqb rv 0) then (s, [ClosePipe p])
      else
        (* raw: the id of the pipe it arrived on is appended to the header *)
        let m' := if bs_raw s then mkPmsg (pm_hdr m ++ enc32 p) (pm_body m) else m in
        match bs_wait s with
        | a :: rest =>
            (mkBus (bs_raw s) (bs_pipes s) (bs_rq s) (bs_rcap s) rest (bs_sendbuf s) (bs_sending s)
                   (bs_readable s) (bs_lost s), [Complete a E_OK (Some m'); TranRecv p])
        | [] =>
            if length (bs_rq s) <? bs_rcap s
            then (mkBus (bs_raw s) (bs_pipes s) (bs_rq s ++ [m']) (bs_rcap s) [] (bs_sendbuf s) (bs_sending s)
                        true (bs_lost s), [TranRecv p])
            else (s, [Free m'; TranRecv p])      (* dropped message due to no room *)
        end
  | PSend _ a nb m =>
      let sender := fst (bus_prep (bs_raw s) m) in
      let m' := snd (bus_prep (bs_raw s) m) in
      if negb fixed && nb then
        (* nni_aio_start(aio, NULL, NULL) refuses a zero timeout; the slot was cleared above *)
        (mkBus (bs_raw s) (bs_pipes s) (bs_rq s) (bs_rcap s) (bs_wait s) (bs_sendbuf s) (bs_sending s)
               (bs_readable s) (bs_lost s ++ [m']), [Complete a E_AGAIN None])
      else
        (mkBus (bs_raw s) (map (offer_pipe (bs_raw s) sender m') (bs_pipes s)) (bs_rq s) (bs_rcap s) (bs_wait s)
               (bs_sendbuf s) (flat_map (offer_sending (bs_raw s) sender m') (bs_pipes s) ++ bs_sending s)
               (bs_readable s) (bs_lost s),
         flat_map (offer_outs (bs_raw s) sender m') (bs_pipes s) ++ [Free m'; Complete a E_OK None])
  | PRecv _ a nb =>
      match bs_rq s with
      | [] => if nb then (s, [Complete a E_AGAIN None])
              else (mkBus (bs_raw s) (bs_pipes s) [] (bs_rcap s) (bs_wait s ++ [a]) (bs_sendbuf s) (bs_sending s)
                          (bs_readable s) (bs_lost s), [])
      | m :: rest =>
          (mkBus (bs_raw s) (bs_pipes s) rest (bs_rcap s) (bs_wait s) (bs_sendbuf s) (bs_sending s)
                 (if is_nil rest then false else bs_readable s) (bs_lost s), [Complete a E_OK (Some m)])
      end
  | PCancel a rv =>
      if has_id a (bs_wait s)
      then (mkBus (bs_raw s) (bs_pipes s) (bs_rq s) (bs_rcap s) (remove_id a (bs_wait s)) (bs_sendbuf s)
                  (bs_sending s) (bs_readable s) (bs_lost s), [Complete a rv None])
      else (s, [])
  | PSetOpt _ (ORecvBuf n) =>
      if buf_bad n then (s, [OptRv E_INVAL])
      else (mkBus (bs_raw s) (bs_pipes s) (firstn n (bs_rq s)) n (bs_wait s) (bs_sendbuf s) (bs_sending s)
                  (bs_readable s) (bs_lost s), map Free (skipn n (bs_rq s)) ++ [OptRv E_OK])
  | PSetOpt _ (OSendBuf n) =>
      if buf_bad n then (s, [OptRv E_INVAL])
      else (mkBus (bs_raw s) (map (fun bp => mkBP (bp_id bp) (bp_busy bp) (firstn n (bp_q bp)) n) (bs_pipes s))
                  (bs_rq s) (bs_rcap s) (bs_wait s) n (bs_sending s) (bs_readable s) (bs_lost s),
            map Free (flat_map (fun bp => skipn n (bp_q bp)) (bs_pipes s)) ++ [OptRv E_OK])
  | PSetOpt _ _ => (s, [OptRv E_NOTSUP])
  | PSockClose =>
      (mkBus (bs_raw s) (bs_pipes s) (bs_rq s) (bs_rcap s) [] (bs_sendbuf s) (bs_sending s) (bs_readable s) (bs_lost s),
       fail_aios E_CLOSED (bs_wait s))
  | PCtxOpen _ => (s, [OptRv E_NOTSUP])       (* no ctx ops: nng_ctx_open fails *)
  | PCtxClose _ | PTick _ => (s, [])
  end.

(* the send descriptor is raised by bus0_sock_get_send_fd itself ("always writable") *)
Definition bus_poll (s : bus) : ppoll := mkPoll (Some (bs_readable s)) (Some true).
