(* XRepModel: src/sp/protocol/reqrep0/xrep.c (raw REP).  Definitions only.
   The socket's aio_getq is posted on the upper write queue from sock_open on
   and re-posted at the end of xrep0_sock_getq_cb, so a message put by the
   application is handed to xrep0_sock_getq_cb at once whatever the capacity of
   that queue (it never holds anything; its `sendable' predicate is constantly
   true while the socket is open).  Each pipe has its own msgq `sendq' of
   capacity 64 between the router and its aio_send; the pipe's aio_getq waits
   on it whenever no transport send is in flight. *)
From Coq Require Import List Arith NArith Bool ZArith.
From NngV Require Import Proto.Common Proto.ReqRepBacktrace Proto.ReqModel Proto.XReqModel.
Import ListNotations.

Definition XREP_PIPE_SENDQ_CAP : nat := 64.

Record xrep := mkXrep {
  xp_pipes : list pid;               (* the `pipes' id map *)
  xp_idle : list pid;                (* pipes whose aio_getq waits on their sendq *)
  xp_sendq : list (pid * pmsg);      (* all per-pipe sendqs: (pipe, message), oldest first *)
  xp_sending : list (pid * pmsg);
  xp_urq : urq;
  xp_ttl : nat;
  xp_closed : bool }.

Definition xrep_init : xrep := mkXrep [] [] [] [] urq_init 8 false.

Definition pipe_qlen (s : xrep) (p : pid) : nat := length (filter (fun x => N.eqb (fst x) p) (xp_sendq s)).
Fixpoint del_first (p : pid) (l : list (pid * pmsg)) : list (pid * pmsg) :=
  match l with [] => [] | (q, m) :: r => if N.eqb q p then r else (q, m) :: del_first p r end.
Fixpoint first_msg (p : pid) (l : list (pid * pmsg)) : option pmsg :=
  match l with [] => None | (q, m) :: r => if N.eqb q p then Some m else first_msg p r end.

(* xrep0_sock_getq_cb on one message taken from the upper write queue *)
Definition xrep_route (s : xrep) (m : pmsg) : xrep * list pout :=
  match xrep_send m with
  | None => (s, [Free m])                                   (* header shorter than a pipe id *)
  | Some (p, m') =>
      if negb (has_id p (xp_pipes s)) then (s, [Free m'])   (* no such pipe *)
      else if has_id p (xp_idle s) then                     (* nni_msgq_tryput: a getter waits *)
        (mkXrep (xp_pipes s) (remove_id p (xp_idle s)) (xp_sendq s) ((p, m') :: xp_sending s) (xp_urq s) (xp_ttl s) (xp_closed s),
         [TranSend p m'])
      else if pipe_qlen s p <? XREP_PIPE_SENDQ_CAP then
        (mkXrep (xp_pipes s) (xp_idle s) (xp_sendq s ++ [(p, m')]) (xp_sending s) (xp_urq s) (xp_ttl s) (xp_closed s), [])
      else (s, [Free m'])                                   (* NNG_EAGAIN from tryput: dropped *)
  end.

Definition xp_set_urq (s : xrep) (q : urq) : xrep :=
  mkXrep (xp_pipes s) (xp_idle s) (xp_sendq s) (xp_sending s) q (xp_ttl s) (xp_closed s).

Definition xrep_step (mf : mqfix) (s : xrep) (o : pop) : xrep * list pout :=
  match o with
  | PSend _ a nb m =>
      (* the socket's aio_getq always waits on the upper write queue: a put never has to wait *)
      if nb_refused mf nb false then (s, [Complete a E_AGAIN None])
      else let '(s1, outs) := xrep_route s m in (s1, Complete a E_OK None :: outs)
  | PRecv _ a nb =>
      if nb_refused mf nb (mq_get_waits (xp_urq s)) then (s, [Complete a E_AGAIN None])
      else let '(q, ev) := mq_get (mf_getput mf) (xp_urq s) a in (xp_set_urq s q, map urq_out ev)
  | PCancel a rv =>
      let ur := xp_urq s in
      if has_id a (mq_getq ur)
      then (xp_set_urq s (mkMq (mq_q ur) (mq_cap ur) (remove_id a (mq_getq ur)) (mq_putq ur)), [Complete a rv None])
      else (s, [])
  | PPipeStart p peer =>
      if negb (N.eqb peer PROTO_REQ) then (s, [Reject E_PROTO])
      else (mkXrep (xp_pipes s ++ [p]) (xp_idle s ++ [p]) (xp_sendq s) (xp_sending s) (xp_urq s) (xp_ttl s) (xp_closed s),
            [TranRecv p])
  | PPipeClose p =>
      let '(ur, o1) := urq_pipe_close (xp_urq s) p in
      (mkXrep (remove_id p (xp_pipes s)) (remove_id p (xp_idle s))
              (filter (fun x => negb (N.eqb (fst x) p)) (xp_sendq s)) (xp_sending s) ur (xp_ttl s) (xp_closed s),
       o1 ++ map (fun x => Free (snd x)) (filter (fun x => N.eqb (fst x) p) (xp_sendq s)))
  | PSendDone p rv =>
      let held := map snd (filter (fun x => N.eqb (fst x) p) (xp_sending s)) in
      let snd' := filter (fun x => negb (N.eqb (fst x) p)) (xp_sending s) in
      if negb (N.eqb rv 0)
      then (mkXrep (xp_pipes s) (xp_idle s) (xp_sendq s) snd' (xp_urq s) (xp_ttl s) (xp_closed s), map Free held ++ [ClosePipe p])
      else
        match first_msg p (xp_sendq s) with
        | Some m => (mkXrep (xp_pipes s) (xp_idle s) (del_first p (xp_sendq s)) ((p, m) :: snd') (xp_urq s) (xp_ttl s) (xp_closed s),
                     [TranSend p m])
        | None => (mkXrep (xp_pipes s) (xp_idle s ++ [p]) (xp_sendq s) snd' (xp_urq s) (xp_ttl s) (xp_closed s), [])
        end
  | PRecvDone p rv m =>
      if negb (N.eqb rv 0) then (s, [ClosePipe p])
      else
        match xrep_recv p (xp_ttl s) (pm_body m) with
        | BtDrop => (s, [Free m; TranRecv p])
        | BtClose => (s, [Free m; ClosePipe p])
        | BtDeliver m' => let '(q, ev) := mq_put (xp_urq s) p m' in (xp_set_urq s q, map urq_out ev)
        end
  | PSetOpt None (OSendBuf n) =>
      if (8192 <? N.of_nat n)%N then (s, [OptRv E_INVAL]) else (s, [OptRv E_OK])
  | PSetOpt None (ORecvBuf n) =>
      if (8192 <? N.of_nat n)%N then (s, [OptRv E_INVAL])
      else let '(q, fr) := mq_resize (xp_urq s) n in
           let '(q', ev) := if mf_resize mf then mq_rerun q else (q, []) in
           (xp_set_urq s q', map Free fr ++ map urq_out ev ++ [OptRv E_OK])
  | PSetOpt None (OMaxTtl n) =>
      if (n <? BT_TTL_MIN) || (BT_TTL_MAX <? n) then (s, [OptRv E_INVAL])
      else (mkXrep (xp_pipes s) (xp_idle s) (xp_sendq s) (xp_sending s) (xp_urq s) n (xp_closed s), [OptRv E_OK])
  | PSetOpt _ _ => (s, [OptRv E_NOTSUP])
  | PCtxOpen _ => (s, [OptRv E_NOTSUP])
  | PSockClose =>
      let '(ur, o1) := urq_close (xp_urq s) in
      (mkXrep (xp_pipes s) (xp_idle s) (xp_sendq s) (xp_sending s) ur (xp_ttl s) true, o1)
  | PCtxClose _ | PTick _ => (s, [])
  end.

Definition xrep_poll (s : xrep) : ppoll :=
  mkPoll (Some (mq_recvable (xp_urq s))) (Some (negb (xp_closed s))).
