(* PollPairBus: the C15 instances for BUS (bus0/bus.c, cooked and raw) and PAIR
   (pair0/pair.c; pair1/pair.c cooked and raw).

   BUS.  The receive side holds at full strength whatever the repair flags.  The
   send descriptor is constantly raised.  With fixed = true (bus0_sock_send no longer
   calls nni_aio_start) a send never waits and every clause holds at full strength.
   With fixed = false (the recorded, unrepaired defect) a NONBLOCK send always
   answers NNG_EAGAIN: C15_nb_possible, C15_mirror (hence _exact, _iff) and
   C15_nb_strict are refuted from the initial state; C15_inv, C15_nb_immediate
   (keep = true: the refused send keeps its message), C15_mirror_r (also the exact
   and iff forms of the receive half), C15_nb_recv_possible still hold.

   PAIR.  With the pipe_stop repair present (fx = true) every clause holds at full
   strength for every kind (pair0, pair1 cooked, pair1 raw) and either value of the
   stale-completion guard fs.  With fx = false (the tree as first pinned) C15_mirror
   is refuted. *)
From Coq Require Import List Arith NArith Bool Lia.
From NngV Require Import Proto.Common Proto.PairModel Proto.PairGuard Proto.BusModel Proto.PollModel Proto.PollProofs.
From NngV Require Gen.Consts Proto.Pair0Model Proto.Pair1Model Proto.PairProofs Proto.PairGuardProofs Proto.BusProofs.
Import ListNotations.

Ltac errs := unfold E_OK, E_AGAIN, E_NOTSUP, E_STATE, E_CLOSED, E_PROTO, E_NOMEM, E_CONNRESET, E_CANCELED, E_TIMEDOUT in *.
Ltac unM M := unfold M in *; cbn [pm_step pm_ok pm_inv pm_busy pm_cls pm_poll pm_st pm_init] in *.

(* ================================================================== BUS *)
Definition bus_ok (s : bus) (o : pop) : Prop :=
  BusProofs.op_ok s o /\ match o with PSend _ a _ _ => ~ In a (bs_wait s) | _ => True end.
Definition M_bus (fixed keep raw : bool) : pmodel :=
  mkPM bus (bus_init raw) (bus_step_k fixed keep) bus_poll bus_ok BusProofs.BInv (fun s => bs_wait s) (fun _ => true).

(* bus_step_k is bus_step with the ghost field kept *)
Definition keep_lost (keep : bool) (s s' : bus) : bus :=
  if keep then mkBus (bs_raw s') (bs_pipes s') (bs_rq s') (bs_rcap s') (bs_wait s') (bs_sendbuf s') (bs_sending s')
                     (bs_readable s') (bs_lost s)
  else s'.
Lemma bus_step_k_eq fixed keep s o :
  bus_step_k fixed keep s o = (keep_lost keep s (fst (bus_step fixed s o)), snd (bus_step fixed s o)).
Proof. unfold bus_step_k, keep_lost. destruct (bus_step fixed s o); reflexivity. Qed.
Lemma keep_wait keep s s' : bs_wait (keep_lost keep s s') = bs_wait s'.
Proof. destruct keep; reflexivity. Qed.
Lemma keep_rq keep s s' : bs_rq (keep_lost keep s s') = bs_rq s'.
Proof. destruct keep; reflexivity. Qed.
Lemma keep_readable keep s s' : bs_readable (keep_lost keep s s') = bs_readable s'.
Proof. destruct keep; reflexivity. Qed.
(* the invariant does not look at the ghost field *)
Lemma keep_inv keep s s' : BusProofs.BInv s' -> BusProofs.BInv (keep_lost keep s s').
Proof.
  destruct keep; [|auto]. unfold keep_lost, BusProofs.BInv, BusProofs.pipe_ids, BusProofs.pipe_ok.
  cbn [bs_raw bs_pipes bs_rq bs_rcap bs_wait bs_sendbuf bs_sending bs_readable bs_lost]. auto.
Qed.
Lemma keep_self s : keep_lost true s s = s.
Proof. destruct s; reflexivity. Qed.

Lemma bus_inv_init fixed keep raw : pm_inv (M_bus fixed keep raw) (pm_init (M_bus fixed keep raw)).
Proof. exact (BusProofs.bus_init_inv raw). Qed.
Lemma bus_inv_step fixed keep raw s o :
  pm_inv (M_bus fixed keep raw) s -> pm_ok (M_bus fixed keep raw) s o -> o <> PSockClose ->
  pm_inv (M_bus fixed keep raw) (fst (pm_step (M_bus fixed keep raw) s o)).
Proof.
  unM M_bus. intros HI [Hok _] _. rewrite bus_step_k_eq. cbn [fst]. apply keep_inv.
  destruct (bus_step fixed s o) as [s' outs] eqn:E. cbn [fst].
  exact (BusProofs.bus_step_inv _ _ _ _ _ HI Hok E).
Qed.
Theorem bus_c15_inv fixed keep raw : C15_inv (M_bus fixed keep raw).
Proof. apply reachable_inv; [apply bus_inv_init|apply bus_inv_step]. Qed.

Lemma compl_of_offer a raw sender m l : compl_of a (flat_map (offer_outs raw sender m) l) = [].
Proof.
  induction l as [|bp l IH]; [reflexivity|]. cbn [flat_map]. rewrite compl_of_app, IH, app_nil_r.
  unfold offer_outs. destruct (offer_kind raw sender bp); reflexivity.
Qed.
Lemma compl_of_bus_send a raw sender m l :
  compl_of a (flat_map (offer_outs raw sender m) l ++ [Free m; Complete a E_OK None]) = [(E_OK, None)].
Proof. rewrite compl_of_app, compl_of_offer, compl_of_cons, compl_of_Free, compl_of_self. reflexivity. Qed.

(* ---- the receive side: every flag value ---- *)
Lemma bus_nb_recv_immediate fixed keep raw s :
  pm_inv (M_bus fixed keep raw) s -> nb_recv_immediate_at (M_bus fixed keep raw) s.
Proof.
  intros _ c a s' outs [Hok _] H. unM M_bus. rewrite bus_step_k_eq in H. cbn [bus_step] in H. cbn [BusProofs.op_ok] in Hok.
  destruct (bs_rq s) as [|x r]; inversion H; subst; clear H; cbn [fst snd]; rewrite keep_wait.
  - exists E_AGAIN, None. rewrite compl_of_self. repeat split; auto; [intros X; now elim X|discriminate].
  - exists E_OK, (Some x). rewrite compl_of_self. cbn [bs_wait]. repeat split; auto; discriminate.
Qed.
Lemma bus_nb_recv_possible fixed keep raw s :
  pm_inv (M_bus fixed keep raw) s -> nb_recv_possible_at (M_bus fixed keep raw) s.
Proof.
  intros _ c a _ H. unM M_bus. rewrite !bus_step_k_eq in *. cbn [bus_step] in *.
  destruct (bs_rq s) as [|x r]; [|reflexivity]. cbn [snd] in H. discriminate.
Qed.
Lemma bus_nb_recv_strict fixed keep raw s :
  pm_inv (M_bus fixed keep raw) s -> nb_recv_eagain_queues_at (M_bus fixed keep raw) s.
Proof.
  intros _ c a _ H. unM M_bus. rewrite !bus_step_k_eq in *. cbn [bus_step] in *.
  destruct (bs_rq s) as [|x r]; cbn [fst snd] in *.
  - split; [reflexivity|]. rewrite keep_wait. cbn [bs_wait]. apply in_or_app. right. now left.
  - rewrite result_of_single in H. errs. discriminate.
Qed.
Lemma bus_mirror_r_exact fixed keep raw s :
  pm_inv (M_bus fixed keep raw) s -> mirror_r_exact_at (M_bus fixed keep raw) s.
Proof.
  intros (_ & _ & _ & _ & _ & _ & I7) a _. unM M_bus. unfold rv_recv. unM M_bus.
  rewrite bus_step_k_eq. cbn [bus_poll poll_r bus_step snd]. rewrite I7.
  destruct (bs_rq s) as [|x r]; cbn [is_nil negb snd]; rewrite result_of_single; errs; split; intros X; congruence.
Qed.
Lemma bus_mirror_r_iff fixed keep raw s :
  pm_inv (M_bus fixed keep raw) s -> mirror_r_iff_at (M_bus fixed keep raw) s.
Proof.
  intros (_ & _ & _ & _ & _ & _ & I7) a _. unM M_bus. unfold rv_recv. unM M_bus.
  rewrite bus_step_k_eq. cbn [bus_poll poll_r bus_step snd]. rewrite I7.
  destruct (bs_rq s) as [|x r]; cbn [is_nil negb snd]; rewrite result_of_single; errs; split; intros X;
    try congruence; try discriminate.
Qed.

Theorem bus_c15_nb_recv_immediate fixed keep raw : C15_nb_recv_immediate (M_bus fixed keep raw).
Proof. exact (lift_at _ (bus_inv_init _ _ _) (bus_inv_step _ _ _) _ (bus_nb_recv_immediate _ _ _)). Qed.
Theorem bus_c15_nb_recv_possible fixed keep raw : C15_nb_recv_possible (M_bus fixed keep raw).
Proof. exact (lift_at _ (bus_inv_init _ _ _) (bus_inv_step _ _ _) _ (bus_nb_recv_possible _ _ _)). Qed.
Theorem bus_c15_nb_recv_strict fixed keep raw :
  forall s, reachable (M_bus fixed keep raw) s -> nb_recv_eagain_queues_at (M_bus fixed keep raw) s.
Proof. exact (lift_at _ (bus_inv_init _ _ _) (bus_inv_step _ _ _) _ (bus_nb_recv_strict _ _ _)). Qed.
Theorem bus_c15_mirror_r_exact fixed keep raw :
  forall s, reachable (M_bus fixed keep raw) s -> mirror_r_exact_at (M_bus fixed keep raw) s.
Proof. exact (lift_at _ (bus_inv_init _ _ _) (bus_inv_step _ _ _) _ (bus_mirror_r_exact _ _ _)). Qed.
Theorem bus_c15_mirror_r_iff fixed keep raw :
  forall s, reachable (M_bus fixed keep raw) s -> mirror_r_iff_at (M_bus fixed keep raw) s.
Proof. exact (lift_at _ (bus_inv_init _ _ _) (bus_inv_step _ _ _) _ (bus_mirror_r_iff _ _ _)). Qed.
Theorem bus_c15_mirror_r fixed keep raw : C15_mirror_r (M_bus fixed keep raw).
Proof. intros s R. apply mirror_r_exact_weaken. now apply bus_c15_mirror_r_exact. Qed.

(* ---- the send side, fixed = true: a send never waits ---- *)
Lemma bus_nb_send_immediate_fixed keep raw s :
  pm_inv (M_bus true keep raw) s -> nb_send_immediate_at (M_bus true keep raw) s.
Proof.
  intros _ c a m s' outs [_ Hok] H. unM M_bus. rewrite bus_step_k_eq in H. cbn [bus_step negb andb] in H.
  inversion H; subst; clear H. exists E_OK. cbn [fst snd]. rewrite keep_wait. cbn [bs_wait].
  rewrite compl_of_bus_send. repeat split; auto. intros X. now elim X.
Qed.
Lemma bus_nb_send_possible_fixed keep raw s :
  pm_inv (M_bus true keep raw) s -> nb_send_possible_at (M_bus true keep raw) s.
Proof. intros _ c a m _ _. reflexivity. Qed.
Lemma bus_rv_send_fixed keep raw s c a nb m :
  result_of a (snd (pm_step (M_bus true keep raw) s (PSend c a nb m))) = Some E_OK.
Proof.
  unM M_bus. rewrite bus_step_k_eq. cbn [bus_step negb andb snd]. eapply result_of_compl. apply compl_of_bus_send.
Qed.
Lemma bus_nb_send_strict_fixed keep raw s :
  pm_inv (M_bus true keep raw) s -> nb_send_eagain_queues_at (M_bus true keep raw) s.
Proof. intros _ c a m _ H. rewrite bus_rv_send_fixed in H. errs. discriminate. Qed.
Lemma bus_mirror_w_exact_fixed keep raw s :
  pm_inv (M_bus true keep raw) s -> mirror_w_exact_at (M_bus true keep raw) s.
Proof.
  intros _ a m _ _. unfold rv_send. rewrite bus_rv_send_fixed. unM M_bus. cbn [bus_poll poll_w]. split; auto.
Qed.
Lemma bus_mirror_w_iff_fixed keep raw s :
  pm_inv (M_bus true keep raw) s -> mirror_w_iff_at (M_bus true keep raw) s.
Proof.
  intros _ a m _ _. unfold rv_send. rewrite bus_rv_send_fixed. unM M_bus. cbn [bus_poll poll_w].
  split; auto. intros _. errs. discriminate.
Qed.

Theorem bus_c15_nb_immediate keep raw : C15_nb_immediate (M_bus true keep raw).
Proof.
  exact (lift_at2 _ (bus_inv_init _ _ _) (bus_inv_step _ _ _) _ _ (bus_nb_send_immediate_fixed _ _) (bus_nb_recv_immediate _ _ _)).
Qed.
Theorem bus_c15_nb_possible keep raw : C15_nb_possible (M_bus true keep raw).
Proof.
  exact (lift_at2 _ (bus_inv_init _ _ _) (bus_inv_step _ _ _) _ _ (bus_nb_send_possible_fixed _ _) (bus_nb_recv_possible _ _ _)).
Qed.
Theorem bus_c15_nb_strict keep raw : C15_nb_strict (M_bus true keep raw).
Proof.
  exact (lift_at2 _ (bus_inv_init _ _ _) (bus_inv_step _ _ _) _ _ (bus_nb_send_strict_fixed _ _) (bus_nb_recv_strict _ _ _)).
Qed.
Theorem bus_c15_mirror_exact keep raw : C15_mirror_exact (M_bus true keep raw).
Proof.
  exact (lift_at2 _ (bus_inv_init _ _ _) (bus_inv_step _ _ _) _ _ (bus_mirror_r_exact _ _ _) (bus_mirror_w_exact_fixed _ _)).
Qed.
Theorem bus_c15_mirror_iff keep raw : C15_mirror_iff (M_bus true keep raw).
Proof.
  exact (lift_at2 _ (bus_inv_init _ _ _) (bus_inv_step _ _ _) _ _ (bus_mirror_r_iff _ _ _) (bus_mirror_w_iff_fixed _ _)).
Qed.
Theorem bus_c15_mirror keep raw : C15_mirror (M_bus true keep raw).
Proof.
  intros s R. destruct (bus_c15_mirror_exact keep raw s R) as [A B].
  split; [now apply mirror_r_exact_weaken|now apply mirror_w_exact_weaken].
Qed.

(* ---- the send side, fixed = false (the source today): a NONBLOCK send always answers NNG_EAGAIN ---- *)
(* with keep = true the refused send changes nothing at all, whatever the message *)
Lemma bus_refused_send_cur s c a m :
  bus_step_k false true s (PSend c a true m) = (s, [Complete a E_AGAIN None]).
Proof.
  rewrite bus_step_k_eq. cbn [bus_step negb andb fst snd]. unfold keep_lost.
  cbn [bs_raw bs_pipes bs_rq bs_rcap bs_wait bs_sendbuf bs_sending bs_readable bs_lost]. destruct s; reflexivity.
Qed.
Lemma bus_nb_send_immediate_cur raw s :
  pm_inv (M_bus false true raw) s -> nb_send_immediate_at (M_bus false true raw) s.
Proof.
  intros _ c a m s' outs [_ Hok] H. unM M_bus. rewrite bus_refused_send_cur in H. inversion H; subst; clear H.
  exists E_AGAIN. rewrite compl_of_self. repeat split; auto. intros _ m2 _. apply bus_refused_send_cur.
Qed.
Theorem bus_c15_nb_immediate_cur raw : C15_nb_immediate (M_bus false true raw).
Proof.
  exact (lift_at2 _ (bus_inv_init _ _ _) (bus_inv_step _ _ _) _ _ (bus_nb_send_immediate_cur _) (bus_nb_recv_immediate _ _ _)).
Qed.
(* the same for either value of fixed, keep = true *)
Theorem bus_c15_nb_immediate_keep fixed raw : C15_nb_immediate (M_bus fixed true raw).
Proof. destruct fixed; [apply bus_c15_nb_immediate|apply bus_c15_nb_immediate_cur]. Qed.

Definition bus_wit_msg : pmsg := mkPmsg [] [7%N].
Lemma bus_wit_ok fixed keep raw : pm_ok (M_bus fixed keep raw) (bus_init raw) (PSend None 5%N true bus_wit_msg).
Proof. unM M_bus. split; [exact I|]. cbn. tauto. Qed.

(* witness: the initial state; a blocking send succeeds at once, the NONBLOCK one answers NNG_EAGAIN *)
Theorem bus_c15_nb_send_possible_refuted_cur raw : ~ C15_nb_send_possible (M_bus false true raw).
Proof.
  intros H. specialize (H _ (reachable_init _) None 5%N bus_wit_msg (bus_wit_ok _ _ _)).
  unM M_bus. rewrite bus_refused_send_cur in H.
  assert (E : snd (bus_init raw, [Complete 5%N E_AGAIN None]) = snd (bus_step_k false true (bus_init raw) (PSend None 5%N false bus_wit_msg))).
  { f_equal. apply H. destruct raw; vm_compute; reflexivity. }
  destruct raw; vm_compute in E; discriminate.
Qed.
Theorem bus_c15_nb_possible_refuted_cur raw : ~ C15_nb_possible (M_bus false true raw).
Proof. intros H. apply (bus_c15_nb_send_possible_refuted_cur raw). intros s R. apply H. exact R. Qed.

Lemma bus_mirror_w_refuted_at_init raw : ~ mirror_w_at (M_bus false true raw) (bus_init raw).
Proof.
  intros H. specialize (H 5%N bus_wit_msg (bus_wit_ok _ _ _) eq_refl). unfold rv_send in H. unM M_bus.
  rewrite bus_refused_send_cur in H. cbn [bus_poll poll_w snd] in H. rewrite result_of_single in H.
  destruct H as [_ H]. now apply H.
Qed.
Theorem bus_c15_mirror_w_refuted_cur raw : ~ C15_mirror_w (M_bus false true raw).
Proof. intros H. exact (bus_mirror_w_refuted_at_init raw (H _ (reachable_init _))). Qed.
Theorem bus_c15_mirror_refuted_cur raw : ~ C15_mirror (M_bus false true raw).
Proof. intros H. apply (bus_c15_mirror_w_refuted_cur raw). intros s R. apply H. exact R. Qed.
Theorem bus_c15_mirror_exact_refuted_cur raw : ~ C15_mirror_exact (M_bus false true raw).
Proof.
  intros H. apply (bus_mirror_w_refuted_at_init raw). apply mirror_w_exact_weaken. apply H. apply reachable_init.
Qed.
Theorem bus_c15_mirror_iff_refuted_cur raw : ~ C15_mirror_iff (M_bus false true raw).
Proof.
  intros H. apply (bus_mirror_w_refuted_at_init raw). apply mirror_w_iff_weaken. apply H. apply reachable_init.
Qed.
(* the strict reading fails the same way: NNG_EAGAIN although the blocking send is not queued *)
Theorem bus_c15_nb_strict_refuted_cur raw : ~ C15_nb_strict (M_bus false true raw).
Proof.
  intros H. destruct (H _ (reachable_init _)) as [H1 _].
  specialize (H1 None 5%N bus_wit_msg (bus_wit_ok _ _ _)). unM M_bus. rewrite bus_refused_send_cur in H1.
  cbn [snd] in H1. rewrite result_of_single in H1. destruct (H1 eq_refl) as [E _].
  destruct raw; vm_compute in E; discriminate.
Qed.

(* the flag-dependent forms: [fixed] = Gen.Consts.BUS_SEND_NO_AIO_START *)
Theorem bus_c15_mirror_by_flag (fixed raw : bool) :
  if fixed then C15_mirror (M_bus true true raw) else ~ C15_mirror (M_bus false true raw).
Proof. destruct fixed; [apply bus_c15_mirror|apply bus_c15_mirror_refuted_cur]. Qed.
Theorem bus_c15_nb_possible_by_flag (fixed raw : bool) :
  if fixed then C15_nb_possible (M_bus true true raw) else ~ C15_nb_possible (M_bus false true raw).
Proof. destruct fixed; [apply bus_c15_nb_possible|apply bus_c15_nb_possible_refuted_cur]. Qed.
Theorem bus_c15_mirror_exact_by_flag (fixed raw : bool) :
  if fixed then C15_mirror_exact (M_bus true true raw) else ~ C15_mirror_exact (M_bus false true raw).
Proof. destruct fixed; [apply bus_c15_mirror_exact|apply bus_c15_mirror_exact_refuted_cur]. Qed.
Theorem bus_c15_mirror_iff_by_flag (fixed raw : bool) :
  if fixed then C15_mirror_iff (M_bus true true raw) else ~ C15_mirror_iff (M_bus false true raw).
Proof. destruct fixed; [apply bus_c15_mirror_iff|apply bus_c15_mirror_iff_refuted_cur]. Qed.
Theorem bus_c15_nb_strict_by_flag (fixed raw : bool) :
  if fixed then C15_nb_strict (M_bus true true raw) else ~ C15_nb_strict (M_bus false true raw).
Proof. destruct fixed; [apply bus_c15_nb_strict|apply bus_c15_nb_strict_refuted_cur]. Qed.

(* the tree as first pinned (fixed = false, keep = false): the refused send had already taken the message
   out of the aio -- the step depends on the message through the ghost record *)
Theorem bus_c15_nb_immediate_refuted_pinned raw : ~ C15_nb_immediate (M_bus false false raw).
Proof.
  intros H. destruct (H _ (reachable_init _)) as [H1 _].
  destruct (bus_step_k false false (bus_init raw) (PSend None 5%N true bus_wit_msg)) as [s' outs] eqn:E.
  destruct (H1 None 5%N bus_wit_msg s' outs (bus_wit_ok _ _ _) E) as (rv & C & _ & D).
  assert (rv = E_AGAIN) as ->.
  { revert C. injection E as <- <-. destruct raw; vm_compute; congruence. }
  specialize (D ltac:(errs; discriminate) (mkPmsg [] [8%N]) eq_refl). unM M_bus. rewrite <- D in E.
  apply (f_equal (fun x => bs_lost (fst x))) in E. destruct raw; vm_compute in E; discriminate.
Qed.

(* non-vacuity *)
Example bus_reachable_r_raised fixed keep raw :
  exists s, reachable (M_bus fixed keep raw) s /\ poll_r (pm_poll (M_bus fixed keep raw) s) = Some true.
Proof.
  exists (fst (bus_step_k fixed keep (fst (bus_step_k fixed keep (bus_init raw) (PPipeStart 1%N PROTO_BUS)))
                         (PRecvDone 1%N 0%N (mkPmsg [] [1%N])))).
  split; [|destruct fixed, keep, raw; reflexivity].
  apply (reachable_step (M_bus fixed keep raw)); [|split; exact I|discriminate].
  apply (reachable_step (M_bus fixed keep raw)); [apply reachable_init| |discriminate].
  unM M_bus. split; [|exact I]. cbn. repeat split; auto; try discriminate; tauto.
Qed.
Example bus_reachable_r_lowered fixed keep raw :
  reachable (M_bus fixed keep raw) (bus_init raw) /\ poll_r (pm_poll (M_bus fixed keep raw) (bus_init raw)) = Some false.
Proof. split; [apply (reachable_init (M_bus fixed keep raw))|reflexivity]. Qed.
Example bus_reachable_w_raised fixed keep raw :
  reachable (M_bus fixed keep raw) (bus_init raw) /\ poll_w (pm_poll (M_bus fixed keep raw) (bus_init raw)) = Some true.
Proof. split; [apply (reachable_init (M_bus fixed keep raw))|reflexivity]. Qed.

(* ================================================================== PAIR *)
Definition pair_busy (s : pair) : list aioid := map fst (pr_waq s) ++ pr_raq s.
Definition pair_ok (s : pair) (o : pop) : Prop :=
  PairProofs.op_ok s o /\ match o with PSend _ a _ _ | PRecv _ a _ => ~ In a (pair_busy s) | _ => True end.
(* pairX_sock_send validates the message before it takes the lock (raw PAIRv1 only can refuse) *)
Definition pair_cls (k : pkind) (m : pmsg) : bool := match norm_send k m with Some _ => true | None => false end.
Definition pair_inv (s : pair) : Prop := PairProofs.PInv s /\ PairProofs.RInv s /\ PairProofs.WInv s.
Definition M_pair (k : pkind) (fx fr fs : bool) : pmodel :=
  mkPM pair pair_init (pair_step_g k fx fr fs) pair_poll pair_ok pair_inv pair_busy (pair_cls k).

Lemma pair_inv_init k fx fr fs : pm_inv (M_pair k fx fr fs) (pm_init (M_pair k fx fr fs)).
Proof. exact PairProofs.pair_init_inv. Qed.
Lemma pair_inv_step k fr fs s o :
  pm_inv (M_pair k true fr fs) s -> pm_ok (M_pair k true fr fs) s o -> o <> PSockClose ->
  pm_inv (M_pair k true fr fs) (fst (pm_step (M_pair k true fr fs) s o)).
Proof.
  unM M_pair. intros (HI & HR & HW) [Hok _] Hns. rewrite (PairGuardProofs.pair_step_g_contract k true fr fs s o Hok).
  destruct (pair_step k true fr s o) as [s' outs] eqn:E. cbn [fst].
  destruct (PairProofs.pair_step_law k true fr _ _ _ _ HI Hok E) as [HI' _].
  split; [exact HI'|split].
  - exact (PairProofs.pair_readable_mirror k true fr _ _ _ _ HI Hok Hns HR E).
  - exact (PairProofs.pair_writable_mirror k true fr _ _ _ _ HI Hok Hns (or_introl eq_refl) HW E).
Qed.
Theorem pair_c15_inv k fr fs : C15_inv (M_pair k true fr fs).
Proof. apply reachable_inv; [apply pair_inv_init|apply pair_inv_step]. Qed.

Ltac psend_open s k m :=
  cbn [pair_step_g pair_step] in *;
  destruct (norm_send k m) as [m'|] eqn:EN;
  [destruct (pr_wr s) eqn:W;
   [destruct (pr_p s) as [p|] eqn:P
   |destruct (lmq_full (pr_wmq s) (pr_wcap s)) eqn:F; cbn [negb] in *]
  |].
Ltac precv_open s :=
  cbn [pair_step_g pair_step] in *;
  destruct (pr_rmq s) as [|x rest] eqn:RM; destruct (pr_rd s) as [h|] eqn:RD; cbv iota beta zeta in *.
Ltac busy_same := unfold pair_busy in *; cbn [pr_waq pr_raq] in *.

Lemma compl_of_rearm a (po : option pid) : compl_of a (match po with Some p => [TranRecv p] | None => [] end) = [].
Proof. destruct po; reflexivity. Qed.

(* ---- clause 1 (holds whatever the flags) ---- *)
Lemma pair_nb_send_immediate k fx fr fs s : nb_send_immediate_at (M_pair k fx fr fs) s.
Proof.
  intros c a m s' outs [_ Hb] H. unM M_pair. unfold pair_cls. psend_open s k m; inversion H; subst; clear H.
  - exists E_OK. rewrite compl_of_cons, compl_of_self. cbn [app]. rewrite compl_of_TranSend. busy_same.
    repeat split; auto. intros X. now elim X.
  - exists E_OK. rewrite compl_of_self. repeat split; auto. intros X. now elim X.
  - exists E_AGAIN. rewrite compl_of_self. repeat split; auto. intros _ m2 Hc.
    cbn [pair_step_g pair_step]. destruct (norm_send k m2); [|discriminate]. reflexivity.
  - exists E_OK. rewrite compl_of_self. busy_same. repeat split; auto. intros X. now elim X.
  - exists E_PROTO. rewrite compl_of_self. repeat split; auto. intros _ m2 Hc.
    cbn [pair_step_g pair_step]. destruct (norm_send k m2); [discriminate|reflexivity].
Qed.
Lemma pair_nb_recv_immediate k fx fr fs s : nb_recv_immediate_at (M_pair k fx fr fs) s.
Proof.
  intros c a s' outs [_ Hb] H. unM M_pair. precv_open s; inversion H; subst; clear H.
  - exists E_OK, (Some h). rewrite compl_of_cons, compl_of_self, compl_of_rearm. busy_same.
    repeat split; auto; discriminate.
  - exists E_AGAIN, None. rewrite compl_of_self. repeat split; auto; [intros X; now elim X|discriminate].
  - exists E_OK, (Some x). rewrite compl_of_cons, compl_of_self, compl_of_rearm. busy_same.
    repeat split; auto; discriminate.
  - exists E_OK, (Some x). rewrite compl_of_self. busy_same. repeat split; auto; discriminate.
Qed.

(* ---- clause 2 (holds whatever the flags) ---- *)
Lemma pair_nb_send_possible k fx fr fs s : nb_send_possible_at (M_pair k fx fr fs) s.
Proof.
  intros c a m _ H. unM M_pair. psend_open s k m; try reflexivity. cbn [snd] in H. discriminate.
Qed.
Lemma pair_nb_recv_possible k fx fr fs s : nb_recv_possible_at (M_pair k fx fr fs) s.
Proof.
  intros c a _ H. unM M_pair. precv_open s; try reflexivity. cbn [snd] in H. discriminate.
Qed.
Lemma pair_nb_send_strict k fx fr fs s : nb_send_eagain_queues_at (M_pair k fx fr fs) s.
Proof.
  intros c a m _ H. unM M_pair. psend_open s k m; cbn [fst snd] in *;
    try (rewrite result_of_self in H; errs; discriminate).
  split; [reflexivity|]. busy_same. rewrite map_app. apply in_or_app. left. apply in_or_app. right. now left.
Qed.
Lemma pair_nb_recv_strict k fx fr fs s : nb_recv_eagain_queues_at (M_pair k fx fr fs) s.
Proof.
  intros c a _ H. unM M_pair. precv_open s; cbn [fst snd] in *;
    try (rewrite result_of_self in H; errs; discriminate).
  split; [reflexivity|]. busy_same. apply in_or_app. right. apply in_or_app. right. now left.
Qed.

(* ---- clause 3: needs the descriptor invariants, hence the pipe_stop repair ---- *)
Ltac mir_w HW := unM M_pair; unfold rv_send; unM M_pair; cbn [pair_poll poll_w];
  unfold PairProofs.WInv, PairProofs.can_send in HW; rewrite HW.
Ltac mir_r HR := unM M_pair; unfold rv_recv; unM M_pair; cbn [pair_poll poll_r];
  unfold PairProofs.RInv, PairProofs.can_recv in HR; rewrite HR.
Lemma pair_mirror_w_exact k fx fr fs s : pm_inv (M_pair k fx fr fs) s -> mirror_w_exact_at (M_pair k fx fr fs) s.
Proof.
  intros (HI & HR & HW) a m _ Hc. mir_w HW. unfold pair_cls in Hc.
  psend_open s k m; try discriminate; cbn [orb negb fst snd]; rewrite result_of_self; errs; split; intros X; congruence.
Qed.
Lemma pair_mirror_w_iff k fx fr fs s : pm_inv (M_pair k fx fr fs) s -> mirror_w_iff_at (M_pair k fx fr fs) s.
Proof.
  intros (HI & HR & HW) a m _ Hc. mir_w HW. unfold pair_cls in Hc.
  psend_open s k m; try discriminate; cbn [orb negb fst snd]; rewrite result_of_self; errs; split; intros X;
    try congruence; try discriminate; try (now elim X).
Qed.
Lemma pair_mirror_r_exact_R k fx fr fs s : PairProofs.RInv s -> mirror_r_exact_at (M_pair k fx fr fs) s.
Proof.
  intros HR a _. mir_r HR.
  precv_open s; cbn [isnil orb negb fst snd]; rewrite result_of_self; errs; split; intros X; congruence.
Qed.
Lemma pair_mirror_r_iff_R k fx fr fs s : PairProofs.RInv s -> mirror_r_iff_at (M_pair k fx fr fs) s.
Proof.
  intros HR a _. mir_r HR.
  precv_open s; cbn [isnil orb negb fst snd]; rewrite result_of_self; errs; split; intros X;
    try congruence; try discriminate; try (now elim X).
Qed.
Lemma pair_mirror_r_exact k fx fr fs s : pm_inv (M_pair k fx fr fs) s -> mirror_r_exact_at (M_pair k fx fr fs) s.
Proof. intros (_ & HR & _). now apply pair_mirror_r_exact_R. Qed.
Lemma pair_mirror_r_iff k fx fr fs s : pm_inv (M_pair k fx fr fs) s -> mirror_r_iff_at (M_pair k fx fr fs) s.
Proof. intros (_ & HR & _). now apply pair_mirror_r_iff_R. Qed.

Theorem pair_c15_nb_immediate k fx fr fs : C15_nb_immediate (M_pair k fx fr fs).
Proof. intros s _. split; [apply pair_nb_send_immediate|apply pair_nb_recv_immediate]. Qed.
Theorem pair_c15_nb_possible k fx fr fs : C15_nb_possible (M_pair k fx fr fs).
Proof. intros s _. split; [apply pair_nb_send_possible|apply pair_nb_recv_possible]. Qed.
Theorem pair_c15_nb_strict k fx fr fs : C15_nb_strict (M_pair k fx fr fs).
Proof. intros s _. split; [apply pair_nb_send_strict|apply pair_nb_recv_strict]. Qed.
Theorem pair_c15_mirror_exact k fr fs : C15_mirror_exact (M_pair k true fr fs).
Proof.
  exact (lift_at2 _ (pair_inv_init _ _ _ _) (pair_inv_step _ _ _) _ _ (pair_mirror_r_exact _ _ _ _) (pair_mirror_w_exact _ _ _ _)).
Qed.
Theorem pair_c15_mirror_iff k fr fs : C15_mirror_iff (M_pair k true fr fs).
Proof.
  exact (lift_at2 _ (pair_inv_init _ _ _ _) (pair_inv_step _ _ _) _ _ (pair_mirror_r_iff _ _ _ _) (pair_mirror_w_iff _ _ _ _)).
Qed.
Theorem pair_c15_mirror k fr fs : C15_mirror (M_pair k true fr fs).
Proof.
  intros s R. destruct (pair_c15_mirror_exact k fr fs s R) as [A B].
  split; [now apply mirror_r_exact_weaken|now apply mirror_w_exact_weaken].
Qed.

(* ---- the tree as first pinned (fx = false): pipe_stop cleared the send descriptor unconditionally ----
   witness (PairProofs.poll_w_witness): send buffer 2, a peer attaches and goes away; the descriptor stays
   lowered although a NONBLOCK send succeeds (a missed wake-up) *)
Definition pair_wit_msg : pmsg := mkPmsg [0; 0; 0; 0]%N [1%N].
Lemma pair_wit_reachable k fr fs :
  reachable (M_pair k false fr fs) (prun (M_pair k false fr fs) pair_init (PairProofs.poll_w_witness k)).
Proof.
  exists (PairProofs.poll_w_witness k). split; [|reflexivity].
  destruct k as [|[]]; destruct fr; destruct fs; vm_compute; repeat split; try exact I; try discriminate; tauto.
Qed.
Theorem pair_c15_mirror_w_refuted_pinned k fr fs : ~ C15_mirror_w (M_pair k false fr fs).
Proof.
  intros H. specialize (H _ (pair_wit_reachable k fr fs) 7%N pair_wit_msg).
  assert (Hok : pm_ok (M_pair k false fr fs) (prun (M_pair k false fr fs) pair_init (PairProofs.poll_w_witness k))
                      (PSend None 7%N true pair_wit_msg)).
  { destruct k as [|[]]; destruct fr; destruct fs; vm_compute; tauto. }
  assert (Hc : pm_cls (M_pair k false fr fs) pair_wit_msg = true) by (destruct k as [|[]]; reflexivity).
  specialize (H Hok Hc). clear Hok Hc.
  assert (X : poll_w (pm_poll (M_pair k false fr fs) (prun (M_pair k false fr fs) pair_init (PairProofs.poll_w_witness k))) = Some false)
    by (destruct k as [|[]]; destruct fr; destruct fs; reflexivity).
  rewrite X in H. destruct H as [H _].
  assert (Y : rv_send (M_pair k false fr fs) (prun (M_pair k false fr fs) pair_init (PairProofs.poll_w_witness k)) 7%N pair_wit_msg = Some E_OK)
    by (destruct k as [|[]]; destruct fr; destruct fs; vm_compute; reflexivity).
  specialize (H Y). discriminate.
Qed.
Theorem pair_c15_mirror_refuted_pinned k fr fs : ~ C15_mirror (M_pair k false fr fs).
Proof. intros H. apply (pair_c15_mirror_w_refuted_pinned k fr fs). intros s R. apply H. exact R. Qed.
(* the flag-dependent form: [fx] = Gen.Consts.C08_PAIR0_STOP_WRITABLE_FIXED / C08_PAIR1_STOP_WRITABLE_FIXED *)
Theorem pair_c15_mirror_by_flag (k : pkind) (fx fr fs : bool) :
  if fx then C15_mirror (M_pair k true fr fs) else ~ C15_mirror (M_pair k false fr fs).
Proof. destruct fx; [apply pair_c15_mirror|apply pair_c15_mirror_refuted_pinned]. Qed.
(* the receive descriptor does not depend on that repair: C15_mirror_r for every flag value *)
Lemma pair_rinv_step k fx fr fs s o :
  PairProofs.PInv s /\ PairProofs.RInv s -> pair_ok s o -> o <> PSockClose ->
  PairProofs.PInv (fst (pair_step_g k fx fr fs s o)) /\ PairProofs.RInv (fst (pair_step_g k fx fr fs s o)).
Proof.
  intros (HI & HR) [Hok _] Hns. rewrite (PairGuardProofs.pair_step_g_contract k fx fr fs s o Hok).
  destruct (pair_step k fx fr s o) as [s' outs] eqn:E. cbn [fst].
  destruct (PairProofs.pair_step_law k fx fr _ _ _ _ HI Hok E) as [HI' _].
  split; [exact HI'|exact (PairProofs.pair_readable_mirror k fx fr _ _ _ _ HI Hok Hns HR E)].
Qed.
Lemma pair_rinv_run k fx fr fs ops : forall s, PairProofs.PInv s /\ PairProofs.RInv s ->
  pops_ok (M_pair k fx fr fs) s ops ->
  PairProofs.PInv (prun (M_pair k fx fr fs) s ops) /\ PairProofs.RInv (prun (M_pair k fx fr fs) s ops).
Proof.
  induction ops as [|o r IH]; intros s HI Hok; cbn [prun]; [exact HI|].
  cbn [pops_ok] in Hok. destruct Hok as (Ho & Hc & Hr). apply IH; [|exact Hr].
  unM M_pair. apply pair_rinv_step; auto.
Qed.
Theorem pair_c15_mirror_r_any k fx fr fs :
  forall s, reachable (M_pair k fx fr fs) s -> mirror_r_exact_at (M_pair k fx fr fs) s /\ mirror_r_iff_at (M_pair k fx fr fs) s.
Proof.
  intros s (ops & Hok & <-).
  destruct (pair_rinv_run k fx fr fs ops pair_init (conj (proj1 PairProofs.pair_init_inv) (proj1 (proj2 PairProofs.pair_init_inv))) Hok)
    as [HI HR].
  split; [now apply pair_mirror_r_exact_R|now apply pair_mirror_r_iff_R].
Qed.
Theorem pair_c15_mirror_r k fx fr fs : C15_mirror_r (M_pair k fx fr fs).
Proof. intros s R. apply mirror_r_exact_weaken. now apply pair_c15_mirror_r_any. Qed.

(* ---- non-vacuity: reachable PAIR states with each descriptor raised and lowered (every kind) ---- *)
Definition pair_rx_msg : pmsg := mkPmsg [] [0; 0; 0; 1; 9]%N.   (* hop count 1, one byte of payload *)
Example pair_reachable_lowered k fx fr fs :
  reachable (M_pair k fx fr fs) pair_init /\ pm_poll (M_pair k fx fr fs) pair_init = mkPoll (Some false) (Some false).
Proof. split; [apply (reachable_init (M_pair k fx fr fs))|reflexivity]. Qed.
Example pair_reachable_w_raised k fx fr fs :
  exists s, reachable (M_pair k fx fr fs) s /\ poll_w (pm_poll (M_pair k fx fr fs) s) = Some true.
Proof.
  exists (prun (M_pair k fx fr fs) pair_init [PPipeStart 1%N (pair_peer k)]). split.
  - exists [PPipeStart 1%N (pair_peer k)]. split; [|reflexivity].
    destruct k as [|[]]; vm_compute; repeat split; try exact I; try discriminate; tauto.
  - destruct k as [|[]]; destruct fx, fs; reflexivity.
Qed.
Example pair_reachable_r_raised k fx fr fs :
  exists s, reachable (M_pair k fx fr fs) s /\ poll_r (pm_poll (M_pair k fx fr fs) s) = Some true.
Proof.
  exists (prun (M_pair k fx fr fs) pair_init [PPipeStart 1%N (pair_peer k); PRecvDone 1%N 0%N pair_rx_msg]). split.
  - exists [PPipeStart 1%N (pair_peer k); PRecvDone 1%N 0%N pair_rx_msg]. split; [|reflexivity].
    destruct k as [|[]]; destruct fx, fs; vm_compute; repeat split; try exact I; try discriminate; tauto.
  - destruct k as [|[]]; destruct fx, fs; reflexivity.
Qed.
(* the initial state: descriptor lowered and the NONBLOCK send answers NNG_EAGAIN *)
Example pair_init_eagain k fx fr fs :
  rv_send (M_pair k fx fr fs) pair_init 7%N pair_wit_msg = Some E_AGAIN /\ pm_cls (M_pair k fx fr fs) pair_wit_msg = true.
Proof. destruct k as [|[]]; vm_compute; auto. Qed.
(* raw PAIRv1 refuses an ill-formed header with NNG_EPROTO although the descriptor is raised (outside the
   mirror clauses: pm_cls = false) *)
Example pair_raw_eproto fx fr fs :
  exists s, reachable (M_pair (K1 true) fx fr fs) s /\ poll_w (pm_poll (M_pair (K1 true) fx fr fs) s) = Some true /\
    rv_send (M_pair (K1 true) fx fr fs) s 7%N (mkPmsg [] [1%N]) = Some E_PROTO /\ pm_cls (M_pair (K1 true) fx fr fs) (mkPmsg [] [1%N]) = false.
Proof.
  exists (prun (M_pair (K1 true) fx fr fs) pair_init [PPipeStart 1%N PROTO_PAIR1]). split; [|destruct fx, fr, fs; vm_compute; auto].
  exists [PPipeStart 1%N PROTO_PAIR1]. split; [|reflexivity].
  vm_compute; repeat split; try exact I; try discriminate; tauto.
Qed.

(* ---- the packs whose step is what the model daemon of this property runs (PollModel.c15_*_step) ---- *)
Lemma pair0_cur_step :
  pm_step (M_pair K0 Gen.Consts.C08_PAIR0_STOP_WRITABLE_FIXED Gen.Consts.C08_PAIR0_RESIZE_ADMITS_FIXED Gen.Consts.C08_PAIR0_STALE_FIXED) = c15_pair0_step.
Proof. reflexivity. Qed.
Lemma pair1_cur_step :
  pm_step (M_pair (K1 false) Gen.Consts.C08_PAIR1_STOP_WRITABLE_FIXED Gen.Consts.C08_PAIR1_RESIZE_ADMITS_FIXED Gen.Consts.C08_PAIR1_STALE_FIXED) = c15_pair1_step.
Proof. reflexivity. Qed.
Lemma pair1raw_cur_step :
  pm_step (M_pair (K1 true) Gen.Consts.C08_PAIR1_STOP_WRITABLE_FIXED Gen.Consts.C08_PAIR1_RESIZE_ADMITS_FIXED Gen.Consts.C08_PAIR1_STALE_FIXED) = c15_pair1raw_step.
Proof. reflexivity. Qed.
Lemma bus_cur_step raw :
  pm_step (M_bus Gen.Consts.BUS_SEND_NO_AIO_START Gen.Consts.C03_BUS_START_BEFORE_DETACH raw) = c15_bus_step.
Proof. reflexivity. Qed.
