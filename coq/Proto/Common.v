(* Common: the signature shared by all protocol models (DESIGN appendix A.2).
   One model step = one critical section of the protocol's socket mutex (or an
   entry point that completes without locking).  Definitions only. *)
From Coq Require Import List Arith NArith Bool ZArith.
Import ListNotations.

Notation pid := N (only parsing).      (* pipe id *)
Notation aioid := N (only parsing).    (* user aio *)
Notation ctxid := N (only parsing).

Record pmsg := mkPmsg { pm_hdr : list N; pm_body : list N }.

(* NNG error numbers (re-checked against Gen/Consts.v) *)
Definition E_OK : N := 0.       Definition E_NOMEM : N := 2.   Definition E_INVAL : N := 3.
Definition E_BUSY : N := 4.     Definition E_TIMEDOUT : N := 5. Definition E_CLOSED : N := 7.
Definition E_AGAIN : N := 8.    Definition E_NOTSUP : N := 9.  Definition E_STATE : N := 11.
Definition E_NOENT : N := 12.   Definition E_PROTO : N := 13.  Definition E_CONNRESET : N := 19.
Definition E_CANCELED : N := 20. Definition E_CONNSHUT : N := 31.

Inductive popt :=
| OSendBuf (n : nat) | ORecvBuf (n : nat) | OMaxTtl (n : nat)
| OResendTime (ms : Z) | OResendTick (ms : Z) | OSurveyTime (ms : Z)
| OPrefNew (b : bool) | OSub (t : list N) | OUnsub (t : list N).

Inductive pop :=
| PSend (c : option ctxid) (a : aioid) (nb : bool) (m : pmsg)
| PRecv (c : option ctxid) (a : aioid) (nb : bool)
| PCancel (a : aioid) (rv : N)
| PPipeStart (p : pid) (peer : N)
| PPipeClose (p : pid)                       (* the protocol's pipe_close *)
| PSendDone (p : pid) (rv : N)               (* callback of the pipe's send aio *)
| PRecvDone (p : pid) (rv : N) (m : pmsg)    (* callback of the pipe's recv aio *)
| PSetOpt (c : option ctxid) (o : popt)
| PCtxOpen (c : ctxid) | PCtxClose (c : ctxid)
| PSockClose
| PTick (now : N).

Inductive pout :=
| Complete (a : aioid) (rv : N) (m : option pmsg)  (* completion of a user aio *)
| TranSend (p : pid) (m : pmsg)                    (* nni_pipe_send *)
| TranRecv (p : pid)                               (* nni_pipe_recv *)
| ClosePipe (p : pid)                              (* nni_pipe_close *)
| Free (m : pmsg)                                  (* nni_msg_free of a message the protocol owns *)
| Reject (rv : N)                                  (* pipe_start failed: the core closes the pipe *)
| OptRv (rv : N)                                   (* return value of a set-option call *)
| Arm (deadline : N).                              (* a protocol timer is (re)armed for this absolute time *)

(* what the poll descriptors show: None = the protocol has no such descriptor *)
Record ppoll := mkPoll { poll_r : option bool; poll_w : option bool }.

Definition remove_aio {A} (a : aioid) (l : list (aioid * A)) : list (aioid * A) :=
  filter (fun x => negb (N.eqb (fst x) a)) l.
Definition has_aio {A} (a : aioid) (l : list (aioid * A)) : bool :=
  existsb (fun x => N.eqb (fst x) a) l.
Definition remove_id (a : N) (l : list N) : list N := filter (fun x => negb (N.eqb x a)) l.
Definition has_id (a : N) (l : list N) : bool := existsb (N.eqb a) l.
Definition fail_aios (rv : N) (l : list aioid) : list pout := map (fun a => Complete a rv None) l.
