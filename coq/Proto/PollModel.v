(* PollModel: the uniform statement of property C15 ("non-blocking calls never
   block; poll descriptors mirror readiness") over every protocol model, a model
   of src/core/pollable.c, and a model of the NNG_FLAG_NONBLOCK path of src/nng.c.
   Definitions only.

   1. [pmodel] packs what every Proto/*Model.v already has -- state, init, step,
      poll -- with the three things the uniform statement needs on top: the
      environment contract [pm_ok] (pipe ids fresh, completions only for operations
      in flight, an aio submitted once at a time), the reachable-state invariant
      [pm_inv], the user aios the state holds [pm_busy] (queued operations) and the
      protocol's pre-lock validation of a message to be sent [pm_cls] (only raw
      PAIRv1 has one: a header that is not exactly one hop word below 255 is
      refused with NNG_EPROTO whatever the state).
   2. The clauses ([..._at s] = the clause in state s):
        nb_*_immediate_at    a NONBLOCK operation emits exactly one completion for
                             its aio in the same step, the aio is not among the
                             queued ones afterwards, a receive carries a message
                             iff it succeeded, and a failed send leaves the message
                             with the caller: the step (new state, every output) is
                             the same whatever message of the same validation class
                             was offered -- nothing of the message was stored, sent
                             on or freed
        nb_*_possible_at     if the blocking form of the operation would have
                             succeeded in that very step then the NONBLOCK form does
                             exactly the same (same new state, same outputs) -- in
                             particular it does not return NNG_EAGAIN
        nb_*_eagain_queues_at  (the strict reading) NNG_EAGAIN is returned only
                             where the blocking form would have been queued
        mirror_*_at          the property's two implications: the operation would
                             succeed => the descriptor is raised (no missed wake-up);
                             the descriptor is raised => the operation does not
                             return NNG_EAGAIN (no busy loop); a protocol without
                             that descriptor refuses the operation with NNG_ENOTSUP
        mirror_*_exact_at    raised <-> the operation would succeed
        mirror_*_iff_at      raised <-> the operation would not return NNG_EAGAIN
                             (the form written in DESIGN 5/C15; it is false of every
                             protocol with a state machine, where a refused operation
                             -- NNG_ESTATE -- is neither EAGAIN nor advertised)
      The socket's descriptors belong to the socket, so the mirror clauses speak of
      the socket-level operations (context = None).
   3. [reachable]: states produced from init by any history that respects the
      contract and does not close the socket (after nng_socket_close the descriptors
      are gone).
   4. c15_*: the step functions instantiated with the repairs the current source
      has (Gen/Consts.v, regenerated on every run) -- these are what the model
      daemon of this property runs.
   5. pollable.c and nng.c: see the sections below. *)
From Coq Require Import List Arith NArith Bool ZArith.
From NngV Require Import Gen.Consts Proto.Common.
From NngV Require Proto.PushModel Proto.PullModel Proto.ReqModel Proto.RepModel Proto.XReqModel Proto.XRepModel
  Proto.SubModel Proto.PubModel Proto.XsubModel Proto.SurveyModel Proto.RespondModel Proto.XSurveyModel
  Proto.XRespondModel Proto.PairModel Proto.PairGuard Proto.Pair0Model Proto.Pair1Model Proto.BusModel.
Import ListNotations.

(* ------------------------------------------------------------------ the pack *)
Record pmodel := mkPM {
  pm_st : Type;
  pm_init : pm_st;
  pm_step : pm_st -> pop -> pm_st * list pout;
  pm_poll : pm_st -> ppoll;
  pm_ok : pm_st -> pop -> Prop;
  pm_inv : pm_st -> Prop;
  pm_busy : pm_st -> list aioid;
  pm_cls : pmsg -> bool }.

(* completions of aio [a] among the outputs of one step *)
Definition compl_of (a : aioid) (outs : list pout) : list (N * option pmsg) :=
  flat_map (fun o => match o with Complete b rv m => if N.eqb a b then [(rv, m)] else [] | _ => [] end) outs.
(* the result the caller sees in that step: None = no completion (the aio was queued) *)
Definition result_of (a : aioid) (outs : list pout) : option N :=
  match compl_of a outs with [] => None | (rv, _) :: _ => Some rv end.

Section Clauses.
  Variable M : pmodel.

  Fixpoint prun (s : pm_st M) (ops : list pop) : pm_st M :=
    match ops with [] => s | o :: r => prun (fst (pm_step M s o)) r end.
  Fixpoint pops_ok (s : pm_st M) (ops : list pop) : Prop :=
    match ops with
    | [] => True
    | o :: r => pm_ok M s o /\ o <> PSockClose /\ pops_ok (fst (pm_step M s o)) r
    end.
  Definition reachable (s : pm_st M) : Prop := exists ops, pops_ok (pm_init M) ops /\ prun (pm_init M) ops = s.

  (* --- clause 1 --- *)
  Definition nb_send_immediate_at (s : pm_st M) : Prop :=
    forall c a m s' outs, pm_ok M s (PSend c a true m) -> pm_step M s (PSend c a true m) = (s', outs) ->
    exists rv, compl_of a outs = [(rv, None)] /\ ~ In a (pm_busy M s') /\
      (rv <> E_OK -> forall m2, pm_cls M m2 = pm_cls M m -> pm_step M s (PSend c a true m2) = (s', outs)).
  Definition nb_recv_immediate_at (s : pm_st M) : Prop :=
    forall c a s' outs, pm_ok M s (PRecv c a true) -> pm_step M s (PRecv c a true) = (s', outs) ->
    exists rv x, compl_of a outs = [(rv, x)] /\ ~ In a (pm_busy M s') /\ (x <> None <-> rv = E_OK).

  (* --- clause 2 --- *)
  Definition nb_send_possible_at (s : pm_st M) : Prop :=
    forall c a m, pm_ok M s (PSend c a true m) ->
    result_of a (snd (pm_step M s (PSend c a false m))) = Some E_OK ->
    pm_step M s (PSend c a true m) = pm_step M s (PSend c a false m).
  Definition nb_recv_possible_at (s : pm_st M) : Prop :=
    forall c a, pm_ok M s (PRecv c a true) ->
    result_of a (snd (pm_step M s (PRecv c a false))) = Some E_OK ->
    pm_step M s (PRecv c a true) = pm_step M s (PRecv c a false).
  Definition nb_send_eagain_queues_at (s : pm_st M) : Prop :=
    forall c a m, pm_ok M s (PSend c a true m) ->
    result_of a (snd (pm_step M s (PSend c a true m))) = Some E_AGAIN ->
    result_of a (snd (pm_step M s (PSend c a false m))) = None /\ In a (pm_busy M (fst (pm_step M s (PSend c a false m)))).
  Definition nb_recv_eagain_queues_at (s : pm_st M) : Prop :=
    forall c a, pm_ok M s (PRecv c a true) ->
    result_of a (snd (pm_step M s (PRecv c a true))) = Some E_AGAIN ->
    result_of a (snd (pm_step M s (PRecv c a false))) = None /\ In a (pm_busy M (fst (pm_step M s (PRecv c a false)))).

  (* --- clause 3 --- *)
  Definition rv_send (s : pm_st M) (a : aioid) (m : pmsg) : option N := result_of a (snd (pm_step M s (PSend None a true m))).
  Definition rv_recv (s : pm_st M) (a : aioid) : option N := result_of a (snd (pm_step M s (PRecv None a true))).

  Definition mirror_w_at (s : pm_st M) : Prop :=
    forall a m, pm_ok M s (PSend None a true m) -> pm_cls M m = true ->
    match poll_w (pm_poll M s) with
    | None => rv_send s a m = Some E_NOTSUP
    | Some b => (rv_send s a m = Some E_OK -> b = true) /\ (b = true -> rv_send s a m <> Some E_AGAIN)
    end.
  Definition mirror_r_at (s : pm_st M) : Prop :=
    forall a, pm_ok M s (PRecv None a true) ->
    match poll_r (pm_poll M s) with
    | None => rv_recv s a = Some E_NOTSUP
    | Some b => (rv_recv s a = Some E_OK -> b = true) /\ (b = true -> rv_recv s a <> Some E_AGAIN)
    end.
  Definition mirror_w_exact_at (s : pm_st M) : Prop :=
    forall a m, pm_ok M s (PSend None a true m) -> pm_cls M m = true ->
    match poll_w (pm_poll M s) with
    | None => rv_send s a m = Some E_NOTSUP
    | Some b => b = true <-> rv_send s a m = Some E_OK
    end.
  Definition mirror_r_exact_at (s : pm_st M) : Prop :=
    forall a, pm_ok M s (PRecv None a true) ->
    match poll_r (pm_poll M s) with
    | None => rv_recv s a = Some E_NOTSUP
    | Some b => b = true <-> rv_recv s a = Some E_OK
    end.
  Definition mirror_w_iff_at (s : pm_st M) : Prop :=
    forall a m, pm_ok M s (PSend None a true m) -> pm_cls M m = true ->
    match poll_w (pm_poll M s) with
    | None => rv_send s a m = Some E_NOTSUP
    | Some b => b = true <-> rv_send s a m <> Some E_AGAIN
    end.
  Definition mirror_r_iff_at (s : pm_st M) : Prop :=
    forall a, pm_ok M s (PRecv None a true) ->
    match poll_r (pm_poll M s) with
    | None => rv_recv s a = Some E_NOTSUP
    | Some b => b = true <-> rv_recv s a <> Some E_AGAIN
    end.

  (* --- the statements over all reachable states --- *)
  Definition C15_inv : Prop := forall s, reachable s -> pm_inv M s.
  Definition C15_nb_immediate : Prop := forall s, reachable s -> nb_send_immediate_at s /\ nb_recv_immediate_at s.
  Definition C15_nb_possible : Prop := forall s, reachable s -> nb_send_possible_at s /\ nb_recv_possible_at s.
  Definition C15_nb_strict : Prop := forall s, reachable s -> nb_send_eagain_queues_at s /\ nb_recv_eagain_queues_at s.
  Definition C15_mirror : Prop := forall s, reachable s -> mirror_r_at s /\ mirror_w_at s.
  Definition C15_mirror_exact : Prop := forall s, reachable s -> mirror_r_exact_at s /\ mirror_w_exact_at s.
  Definition C15_mirror_iff : Prop := forall s, reachable s -> mirror_r_iff_at s /\ mirror_w_iff_at s.
  (* the two directions separately (a protocol may keep one and break the other) *)
  Definition C15_mirror_r : Prop := forall s, reachable s -> mirror_r_at s.
  Definition C15_mirror_w : Prop := forall s, reachable s -> mirror_w_at s.
  Definition C15_nb_send_possible : Prop := forall s, reachable s -> nb_send_possible_at s.
  Definition C15_nb_recv_possible : Prop := forall s, reachable s -> nb_recv_possible_at s.
  Definition C15_nb_send_immediate : Prop := forall s, reachable s -> nb_send_immediate_at s.
  Definition C15_nb_recv_immediate : Prop := forall s, reachable s -> nb_recv_immediate_at s.
End Clauses.

(* ------------------------------------------------------------------ the models as the source is now *)
Definition c15_req_fix : ReqModel.rfix :=
  ReqModel.mkFix C04_REQ_CLONE_FIXED C04_REQ_CANCEL_SEND_FIXED C04_REQ_STASH_FIXED C04_REQ_RDCLR_FIXED.
Definition c15_rep_fix : RepModel.pfix := RepModel.mkPfix C04_REP_RCLOSE_FIXED C04_REP_NBSEND_FIXED C04_REP_SAIO_FIXED C04_REP_WBUSY_FIXED.
Definition c15_mq_fix : XReqModel.mqfix := XReqModel.mkMqfix C04_MSGQ_NB_FIXED C04_MSGQ_RESIZE_FIXED C04_MSGQ_GET_RUNS_PUTQ.
Definition c15_resp_fix : RespondModel.resp_fix :=
  RespondModel.mkRfix C07_RESP_NB_FIXED C07_RESP_WBUSY_FIXED C07_RESP_RCLOSE_FIXED C07_RESP_SBUSY_FIXED
                      C07_RESP_WOTHER_FIXED C07_RESP_WSTALE_FIXED.
Definition c15_xs_fix : XSurveyModel.mq_fix := XSurveyModel.mkMqfix3 C07_MSGQ_NB_FIXED C07_MSGQ_RESIZE_FIXED C07_MSGQ_GET_RUNS_PUTQ.

Definition c15_req_step := ReqModel.req_step c15_req_fix.
Definition c15_rep_step := RepModel.rep_step c15_rep_fix.
Definition c15_xreq_step := XReqModel.xreq_step c15_mq_fix.
Definition c15_xrep_step := XRepModel.xrep_step c15_mq_fix.
Definition c15_sub_step := SubModel.sub_step C05_SUB_UNSUB_CLEARS_POLL.
Definition c15_xsub_step := XsubModel.xsub_step C05_MSGQ_GET_TRIES_FIRST C05_MSGQ_RESIZE_NOTIFIES.
Definition c15_pub_step := PubModel.pub_step.
Definition c15_push_step := PushModel.push_step_r C06_PUSH_RESIZE_ADMITS_FIXED.
Definition c15_pull_step := PullModel.pull_step.
Definition c15_surv_step := SurveyModel.surv_step C07_SURV_NBRECV_FIXED.
Definition c15_resp_step := RespondModel.resp_step c15_resp_fix.
Definition c15_xsurv_step := XSurveyModel.xsurv_step c15_xs_fix.
Definition c15_xresp_step := XRespondModel.xresp_step c15_xs_fix.
(* PAIR: the step functions the C08 component runs (PairModel.pair_step plus the stale-completion guard of
   PairGuard, which coincides with pair_step under the environment contract: PairGuardProofs.pair_step_g_contract) *)
Definition c15_pair0_step := Pair0Model.pair0_step.
Definition c15_pair1_step := Pair1Model.pair1_step.
Definition c15_pair1raw_step := Pair1Model.pair1_raw_step.
(* BUS: BusModel.bs_lost is a ghost field (messages taken out of an aio whose send was then refused).  Since
   fix 6932118 bus0_sock_send calls nni_aio_start before it detaches the message, so a refused send keeps it:
   [keep] = that order is present in the source (Gen/Consts.v, C03_BUS_START_BEFORE_DETACH) and the ghost
   record is not extended.  The field influences no output. *)
Definition bus_step_k (fixed keep : bool) (s : BusModel.bus) (o : pop) : BusModel.bus * list pout :=
  let '(s', outs) := BusModel.bus_step fixed s o in
  ((if keep then BusModel.mkBus (BusModel.bs_raw s') (BusModel.bs_pipes s') (BusModel.bs_rq s') (BusModel.bs_rcap s')
                                (BusModel.bs_wait s') (BusModel.bs_sendbuf s') (BusModel.bs_sending s') (BusModel.bs_readable s')
                                (BusModel.bs_lost s)
    else s'), outs).
Definition c15_bus_step := bus_step_k BUS_SEND_NO_AIO_START C03_BUS_START_BEFORE_DETACH.

Definition c15_req_init := ReqModel.req_init.        Definition c15_req_poll := ReqModel.req_poll.
Definition c15_rep_init := RepModel.rep_init.        Definition c15_rep_poll := RepModel.rep_poll.
Definition c15_xreq_init := XReqModel.xreq_init.     Definition c15_xreq_poll := XReqModel.xreq_poll.
Definition c15_xrep_init := XRepModel.xrep_init.     Definition c15_xrep_poll := XRepModel.xrep_poll.
Definition c15_sub_init := SubModel.sub_init.        Definition c15_sub_poll := SubModel.sub_poll.
Definition c15_xsub_init := XsubModel.xsub_init.     Definition c15_xsub_poll := XsubModel.xsub_poll.
Definition c15_pub_init := PubModel.pub_init.        Definition c15_pub_poll := PubModel.pub_poll.
Definition c15_push_init := PushModel.push_init.     Definition c15_push_poll := PushModel.push_poll.
Definition c15_pull_init := PullModel.pull_init.     Definition c15_pull_poll := PullModel.pull_poll.
Definition c15_surv_init := SurveyModel.surv_init.   Definition c15_surv_poll := SurveyModel.surv_poll.
Definition c15_resp_init := RespondModel.resp_init.  Definition c15_resp_poll := RespondModel.resp_poll.
Definition c15_xsurv_init := XSurveyModel.xsurv_init.  Definition c15_xsurv_poll := XSurveyModel.xsurv_poll.
Definition c15_xresp_init := XRespondModel.xresp_init. Definition c15_xresp_poll := XRespondModel.xresp_poll.
Definition c15_pair_init := PairModel.pair_init.     Definition c15_pair_poll := PairModel.pair_poll.
Definition c15_bus_init := BusModel.bus_init.        Definition c15_bus_poll := BusModel.bus_poll.

(* which repairs are in force, for the driver's --flags (printed into the evidence) *)
Definition c15_flags : list bool :=
  [C04_REQ_RDCLR_FIXED; C04_REP_RCLOSE_FIXED; C04_REP_NBSEND_FIXED; C04_REP_SAIO_FIXED; C04_MSGQ_NB_FIXED; C04_MSGQ_RESIZE_FIXED;
   C05_SUB_UNSUB_CLEARS_POLL; C05_MSGQ_GET_TRIES_FIRST; C05_MSGQ_RESIZE_NOTIFIES; C07_SURV_NBRECV_FIXED; C07_RESP_NB_FIXED;
   C07_RESP_WBUSY_FIXED; C07_RESP_RCLOSE_FIXED; C07_RESP_SBUSY_FIXED; C07_RESP_WOTHER_FIXED; C07_RESP_WSTALE_FIXED;
   C07_MSGQ_NB_FIXED; C07_MSGQ_RESIZE_FIXED; C08_PAIR0_STOP_WRITABLE_FIXED; C08_PAIR1_STOP_WRITABLE_FIXED; BUS_SEND_NO_AIO_START;
   C03_BUS_START_BEFORE_DETACH; C04_REP_WBUSY_FIXED; C04_MSGQ_GET_RUNS_PUTQ; C07_MSGQ_GET_RUNS_PUTQ].

(* ------------------------------------------------------------------ src/core/pollable.c
   p_raised is the level flag; p_fds is -1 until the first nni_pollable_getfd, then
   a (write end, read end) pair of a notification pipe / eventfd.  The kernel object
   is modelled by what poll(2) on the read end reports: [kf_sig] = it holds at least
   one unread token (nni_plat_pipe_raise writes one, nni_plat_pipe_clear drains
   all).  One step = one call; the three calls are lock free, each of their atomic
   actions is its own step in [plb_astep] (the interleaving model). *)
Record pollable := mkPl {
  plb_raised : bool;          (* p_raised *)
  plb_fd : option bool }.     (* p_fds: None = -1 (not yet created); Some sig = created, sig = readable *)

Inductive plop := PlRaise | PlClear | PlGetFd.

Definition plb_init : pollable := mkPl false None.

Definition plb_step (p : pollable) (o : plop) : pollable :=
  match o with
  | PlRaise =>
      (* if (!swap(p_raised, true)) { if (fds != -1) nni_plat_pipe_raise(wfd); } *)
      if plb_raised p then p
      else mkPl true (match plb_fd p with Some _ => Some true | None => None end)
  | PlClear =>
      (* if (swap(p_raised, false)) { if (fds != -1) nni_plat_pipe_clear(rfd); } *)
      if plb_raised p then mkPl false (match plb_fd p with Some _ => Some false | None => None end)
      else p
  | PlGetFd =>
      (* already there: return it; else open, cas it in, and raise it if p_raised is set *)
      match plb_fd p with
      | Some _ => p
      | None => mkPl (plb_raised p) (Some (plb_raised p))
      end
  end.

Fixpoint plb_run (p : pollable) (ops : list plop) : pollable :=
  match ops with [] => p | o :: r => plb_run (plb_step p o) r end.

(* what poll(2) shows on the descriptor handed out: None = nobody asked for it yet *)
Definition plb_readable (p : pollable) : option bool := plb_fd p.
(* the level the protocol code set last: raise/clear history folded *)
Fixpoint plb_level (cur : bool) (ops : list plop) : bool :=
  match ops with
  | [] => cur
  | PlRaise :: r => plb_level true r
  | PlClear :: r => plb_level false r
  | PlGetFd :: r => plb_level cur r
  end.

(* the interleaving model: raise / clear / getfd are sequences of atomic actions
   (swap of p_raised; load of p_fds; the write / drain on the descriptor; for getfd:
   load, cas, load of p_raised, write).  A thread is a program counter inside one
   call; [plb_astep] runs one atomic action of thread t.  Protocol code calls raise
   and clear under the socket mutex (never two of them at once), getfd runs without
   it, so the interleavings that matter are one raise/clear call against one getfd
   call. *)
Inductive plpc :=
| PcIdle
| PcRaise1            (* swapped p_raised false -> true; about to load p_fds *)
| PcRaise2            (* loaded p_fds <> -1; about to write the token *)
| PcClear1            (* swapped true -> false; about to load p_fds *)
| PcClear2            (* loaded p_fds <> -1; about to drain *)
| PcGet1              (* loaded p_fds = -1 and opened a private pair; about to cas *)
| PcGet2              (* cas succeeded; about to load p_raised *)
| PcGet3              (* p_raised was set; about to write the token *)
| PcGetA (r : bool)   (* repaired getfd: loaded p_raised = r; about to write (r) / drain (not r) *)
| PcGetB (r : bool).  (* repaired getfd: acted on r; about to load p_raised again *)

Record plconc := mkPlc { pc_p : pollable; pc_mut : plpc; pc_get : plpc }.   (* the mutator thread, the getfd thread *)

Inductive plact := ActMut (o : plop) | ActMutStep | ActGet | ActGetStep.

Definition sig_set (p : pollable) (b : bool) : pollable :=
  mkPl (plb_raised p) (match plb_fd p with Some _ => Some b | None => None end).

(* [gfix] = nni_pollable_getfd with the proposed repair: after publishing the new descriptor it brings it in
   line with the flag and repeats while the flag changed under it:
     raised = load(p_raised); for (;;) { raised ? write(wfd) : drain(rfd); now = load(p_raised); if (now == raised) break; raised = now; }
   false = the source as it is: a single load, then a write if it was set *)
Definition plb_astep (gfix : bool) (c : plconc) (a : plact) : plconc :=
  let p := pc_p c in
  match a with
  | ActMut PlRaise =>
      match pc_mut c with
      | PcIdle => if plb_raised p then c else mkPlc (mkPl true (plb_fd p)) PcRaise1 (pc_get c)
      | _ => c
      end
  | ActMut PlClear =>
      match pc_mut c with
      | PcIdle => if plb_raised p then mkPlc (mkPl false (plb_fd p)) PcClear1 (pc_get c) else c
      | _ => c
      end
  | ActMut PlGetFd => c
  | ActMutStep =>
      match pc_mut c with
      | PcRaise1 => mkPlc p (match plb_fd p with Some _ => PcRaise2 | None => PcIdle end) (pc_get c)
      | PcRaise2 => mkPlc (sig_set p true) PcIdle (pc_get c)
      | PcClear1 => mkPlc p (match plb_fd p with Some _ => PcClear2 | None => PcIdle end) (pc_get c)
      | PcClear2 => mkPlc (sig_set p false) PcIdle (pc_get c)
      | _ => c
      end
  | ActGet =>
      match pc_get c with
      | PcIdle => match plb_fd p with Some _ => c | None => mkPlc p (pc_mut c) PcGet1 end
      | _ => c
      end
  | ActGetStep =>
      match pc_get c with
      | PcGet1 => match plb_fd p with
                  | None => mkPlc (mkPl (plb_raised p) (Some false)) (pc_mut c) PcGet2     (* cas -1 -> fresh pair (empty) *)
                  | Some _ => mkPlc p (pc_mut c) PcIdle                                     (* someone beat us (one getter: unreachable) *)
                  end
      | PcGet2 => if gfix then mkPlc p (pc_mut c) (PcGetA (plb_raised p))
                  else mkPlc p (pc_mut c) (if plb_raised p then PcGet3 else PcIdle)
      | PcGet3 => mkPlc (sig_set p true) (pc_mut c) PcIdle
      | PcGetA r => mkPlc (sig_set p r) (pc_mut c) (PcGetB r)
      | PcGetB r => mkPlc p (pc_mut c) (if Bool.eqb (plb_raised p) r then PcIdle else PcGetA (plb_raised p))
      | _ => c
      end
  end.
Fixpoint plb_arun (gfix : bool) (c : plconc) (l : list plact) : plconc :=
  match l with [] => c | a :: r => plb_arun gfix (plb_astep gfix c a) r end.
Definition plc_init : plconc := mkPlc plb_init PcIdle PcIdle.
(* the schedule harness/wb_c15.c forces with its `window clear` / `window raise` commands: a complete clear (raise)
   of another thread exactly between getfd's first load of p_raised and what follows it; then (clear case) one
   more clear.  Run with the form of getfd the source has (Gen/Consts.v, C15_POLLABLE_GETFD_SYNC). *)
Definition window_acts (clear : bool) : list plact :=
  (if clear then [ActMut PlRaise; ActMutStep; ActMutStep] else []) ++ [ActGet; ActGetStep; ActGetStep] ++
  [ActMut (if clear then PlClear else PlRaise); ActMutStep; ActMutStep] ++
  [ActGetStep; ActGetStep; ActGetStep; ActGetStep; ActGetStep; ActGetStep].
Definition c15_window (clear : bool) : pollable * pollable :=
  let c := plb_arun C15_POLLABLE_GETFD_SYNC plc_init (window_acts clear) in
  (pc_p c, pc_p (plb_arun C15_POLLABLE_GETFD_SYNC c [ActMut PlClear; ActMutStep; ActMutStep])).
Definition plc_quiescent (c : plconc) : Prop := pc_mut c = PcIdle /\ pc_get c = PcIdle.

(* ------------------------------------------------------------------ src/nng.c: nng_sendmsg / nng_recvmsg /
   nng_send / nng_recv (and the nng_ctx_* twins, which are the same code).
   The call builds an aio on its stack with timeout 0 (NNG_FLAG_NONBLOCK) or the
   socket's default, hands it to the protocol, waits for the completion and maps
   NNG_ETIMEDOUT to NNG_EAGAIN when NONBLOCK was given.  nni_aio_start with timeout
   0 refuses to queue: it sets NNG_ETIMEDOUT and dispatches the completion (the
   protocol returns without touching the aio again).  The protocol side is abstract
   here: [pr] = what the protocol does with an aio it is handed in the present state. *)
Inductive proto_reply :=
| PrDone (rv : N) (m : option pmsg)     (* completes without calling nni_aio_start: rv, message left in the aio *)
| PrStart (later : N) (m : option pmsg). (* calls nni_aio_start (would wait); if it is allowed to wait it eventually
                                            completes with [later] and leaves [m] in the aio *)
(* nni_aio_start + nni_aio_wait as seen by the caller: timeout 0 => NNG_ETIMEDOUT at once, the message slot untouched *)
Definition aio_outcome (tmo0 : bool) (slot : option pmsg) (pr : proto_reply) : N * option pmsg * bool :=   (* rv, slot afterwards, waited *)
  match pr with
  | PrDone rv m => (rv, m, false)
  | PrStart later m => if tmo0 then (E_TIMEDOUT, slot, false) else (later, m, true)
  end.
Definition api_map (nb : bool) (rv : N) : N := if nb && N.eqb rv E_TIMEDOUT then E_AGAIN else rv.

(* nng_sendmsg: returns (rv, does the caller still own msg, did the call wait) *)
Definition api_sendmsg (nb : bool) (msg : pmsg) (pr : proto_reply) : N * bool * bool :=
  let '(rv, slot, waited) := aio_outcome nb (Some msg) pr in
  (api_map nb rv, negb (N.eqb rv 0), waited).
(* nng_send: copies the buffer into a fresh message and frees it again when nng_sendmsg fails:
   (rv, messages freed by nng_send itself, waited) *)
Definition api_send (nb : bool) (body : list N) (pr : proto_reply) : N * list pmsg * bool :=
  let msg := mkPmsg [] body in
  let '(rv, kept, waited) := api_sendmsg nb msg pr in
  (rv, if kept then [msg] else [], waited).
(* nng_recvmsg: (rv, message handed to the caller, waited) *)
Definition api_recvmsg (nb : bool) (pr : proto_reply) : N * option pmsg * bool :=
  let '(rv, slot, waited) := aio_outcome nb None pr in
  (api_map nb rv, if N.eqb rv 0 then slot else None, waited).
(* nng_recv: copies min(size given, len) bytes out, reports the full length, frees the message:
   (rv, bytes copied, length reported, freed, waited) *)
Definition api_recv (nb : bool) (sz : nat) (pr : proto_reply) : N * list N * nat * list pmsg * bool :=
  match api_recvmsg nb pr with
  | (rv, Some m, waited) => (rv, firstn sz (pm_body m), length (pm_body m), [m], waited)
  | (rv, None, waited) => (rv, [], sz, [], waited)
  end.
(* a protocol model's step seen as a proto_reply: the NONBLOCK step of the model has the timeout-0 refusal
   already folded in (it answers E_AGAIN where nni_aio_start refuses), so [PrStart] corresponds to a blocking
   step that emits no completion for the aio *)
Definition reply_of_step (a : aioid) (outs : list pout) : proto_reply :=
  match compl_of a outs with
  | (rv, m) :: _ => PrDone rv m
  | [] => PrStart E_CANCELED None
  end.
