(* ReqModel: src/sp/protocol/reqrep0/req.c (cooked REQ).  Definitions only.
   One step = one critical section of req0_sock.mtx (an entry point or a
   callback).  Contexts are keyed by N: 0 = the socket's master context,
   k+1 = context c<k>.  The `requests` id map is used at the level of its
   specification (a finite map, Properties_C18), the cursor rule of
   nni_id_alloc is kept.

   Ownership.  A request message is one reference handed over by the caller.
   req0_run_send_queue either clones it (the context keeps its reference and
   the transport gets a new one) or hands the context's own reference to the
   transport (then ctx->req_msg dangles).  The ghost field cx_owned says whether
   the pointer ctx->req_msg still carries a reference; it never influences the
   behaviour.  The step function returns the clones it made as a third
   component so that the ledger can be stated (ReqProofs).

   fx_clone: false = the code as pinned (clone / free / requeue decisions read
   the *current* ctx->retry); true = the repaired code, which reads the value
   the option had when the request was submitted (cx_sretry).
   fx_cancel: false = req0_ctx_cancel_send as pinned (NNI_ASSERT(recv_aio ==
   NULL); with assertions compiled out the receive stays pending); true = the
   repaired code (the pending receive is completed with NNG_ECANCELED).
   fx_stash: false = req0_recv_cb as pinned (a matched context stays on its
   pipe's list and on the retry queue); true = it is taken off both.
   fx_rdclr: false = req0_ctx_reset as pinned (the readable pollable stays
   raised when the master context's stashed reply is thrown away); true = it is
   cleared. *)
From Coq Require Import List Arith NArith Bool ZArith.
From NngV Require Import Proto.Common Proto.ReqRepBacktrace.
Import ListNotations.

Definition PROTO_REQ : N := 48.  Definition PROTO_REP : N := 49.
Definition REQ_ID_MIN : N := 2147483648.      (* 0x80000000 *)
Definition REQ_ID_MAX : N := 4294967295.      (* 0xffffffff *)
Definition REQ_RESEND_DEFAULT : Z := 60000.   (* NNI_SECOND * 60 *)
Definition REQ_TICK_DEFAULT : Z := 1000.      (* NNI_SECOND *)

Record rfix := mkFix { fx_clone : bool; fx_cancel : bool; fx_stash : bool; fx_rdclr : bool }.

Record rctx := mkRctx {
  cx_rid : N;                  (* request_id, 0 = none *)
  cx_recv : option aioid;      (* recv_aio *)
  cx_send : option aioid;      (* send_aio *)
  cx_req : option pmsg;        (* req_msg *)
  cx_rep : option pmsg;        (* rep_msg *)
  cx_retry : Z;                (* retry (NNG_OPT_REQ_RESENDTIME of the context) *)
  cx_sretry : Z;               (* the value of retry when the request was submitted *)
  cx_rtime : N;                (* retry_time *)
  cx_creset : bool;            (* conn_reset *)
  cx_owned : bool }.           (* ghost: req_msg carries a reference *)

Record req := mkReq {
  rq_ctxs : list (N * rctx);
  rq_retry : Z;                (* s->retry: default of new contexts *)
  rq_tick : Z;                 (* retry_tick *)
  rq_closed : bool;
  rq_active : bool;            (* retry_active *)
  rq_tickdl : option N;        (* expiry of retry_aio; None = never *)
  rq_ready : list pid;
  rq_busy : list pid;
  rq_pclosed : list pid;       (* pipes whose pipe_close has run (stop_pipes) *)
  rq_plist : list (pid * N);   (* the pipes' `contexts` lists: (pipe, ctx), oldest first *)
  rq_sendq : list N;
  rq_retryq : list N;
  rq_ids : list (N * N);       (* requests: id -> ctx *)
  rq_cursor : N;               (* id_dyn_val *)
  rq_sending : list (pid * pmsg);  (* message attached to each pipe's aio_send *)
  rq_readable : bool;
  rq_writable : bool;
  rq_now : N;                  (* nni_clock() as of the last tick *)
  rq_ttl : nat }.

Definition ctx_init (retry : Z) : rctx := mkRctx 0 None None None None retry retry 0 false false.

Definition req_init : req :=
  mkReq [(0%N, ctx_init REQ_RESEND_DEFAULT)] REQ_RESEND_DEFAULT REQ_TICK_DEFAULT false false None
        [] [] [] [] [] [] [] (REQ_ID_MIN + 1) [] false false 0 8.

(* ---- field setters ---- *)
Definition set_ctxs (s : req) v := mkReq v (rq_retry s) (rq_tick s) (rq_closed s) (rq_active s) (rq_tickdl s) (rq_ready s) (rq_busy s) (rq_pclosed s) (rq_plist s) (rq_sendq s) (rq_retryq s) (rq_ids s) (rq_cursor s) (rq_sending s) (rq_readable s) (rq_writable s) (rq_now s) (rq_ttl s).
Definition set_retry (s : req) v := mkReq (rq_ctxs s) v (rq_tick s) (rq_closed s) (rq_active s) (rq_tickdl s) (rq_ready s) (rq_busy s) (rq_pclosed s) (rq_plist s) (rq_sendq s) (rq_retryq s) (rq_ids s) (rq_cursor s) (rq_sending s) (rq_readable s) (rq_writable s) (rq_now s) (rq_ttl s).
Definition set_tick (s : req) v := mkReq (rq_ctxs s) (rq_retry s) v (rq_closed s) (rq_active s) (rq_tickdl s) (rq_ready s) (rq_busy s) (rq_pclosed s) (rq_plist s) (rq_sendq s) (rq_retryq s) (rq_ids s) (rq_cursor s) (rq_sending s) (rq_readable s) (rq_writable s) (rq_now s) (rq_ttl s).
Definition set_closed (s : req) v := mkReq (rq_ctxs s) (rq_retry s) (rq_tick s) v (rq_active s) (rq_tickdl s) (rq_ready s) (rq_busy s) (rq_pclosed s) (rq_plist s) (rq_sendq s) (rq_retryq s) (rq_ids s) (rq_cursor s) (rq_sending s) (rq_readable s) (rq_writable s) (rq_now s) (rq_ttl s).
Definition set_timer (s : req) a d := mkReq (rq_ctxs s) (rq_retry s) (rq_tick s) (rq_closed s) a d (rq_ready s) (rq_busy s) (rq_pclosed s) (rq_plist s) (rq_sendq s) (rq_retryq s) (rq_ids s) (rq_cursor s) (rq_sending s) (rq_readable s) (rq_writable s) (rq_now s) (rq_ttl s).
Definition set_pipes (s : req) rd bs pc := mkReq (rq_ctxs s) (rq_retry s) (rq_tick s) (rq_closed s) (rq_active s) (rq_tickdl s) rd bs pc (rq_plist s) (rq_sendq s) (rq_retryq s) (rq_ids s) (rq_cursor s) (rq_sending s) (rq_readable s) (rq_writable s) (rq_now s) (rq_ttl s).
Definition set_plist (s : req) v := mkReq (rq_ctxs s) (rq_retry s) (rq_tick s) (rq_closed s) (rq_active s) (rq_tickdl s) (rq_ready s) (rq_busy s) (rq_pclosed s) v (rq_sendq s) (rq_retryq s) (rq_ids s) (rq_cursor s) (rq_sending s) (rq_readable s) (rq_writable s) (rq_now s) (rq_ttl s).
Definition set_sendq (s : req) v := mkReq (rq_ctxs s) (rq_retry s) (rq_tick s) (rq_closed s) (rq_active s) (rq_tickdl s) (rq_ready s) (rq_busy s) (rq_pclosed s) (rq_plist s) v (rq_retryq s) (rq_ids s) (rq_cursor s) (rq_sending s) (rq_readable s) (rq_writable s) (rq_now s) (rq_ttl s).
Definition set_retryq (s : req) v := mkReq (rq_ctxs s) (rq_retry s) (rq_tick s) (rq_closed s) (rq_active s) (rq_tickdl s) (rq_ready s) (rq_busy s) (rq_pclosed s) (rq_plist s) (rq_sendq s) v (rq_ids s) (rq_cursor s) (rq_sending s) (rq_readable s) (rq_writable s) (rq_now s) (rq_ttl s).
Definition set_ids (s : req) v cur := mkReq (rq_ctxs s) (rq_retry s) (rq_tick s) (rq_closed s) (rq_active s) (rq_tickdl s) (rq_ready s) (rq_busy s) (rq_pclosed s) (rq_plist s) (rq_sendq s) (rq_retryq s) v cur (rq_sending s) (rq_readable s) (rq_writable s) (rq_now s) (rq_ttl s).
Definition set_sending (s : req) v := mkReq (rq_ctxs s) (rq_retry s) (rq_tick s) (rq_closed s) (rq_active s) (rq_tickdl s) (rq_ready s) (rq_busy s) (rq_pclosed s) (rq_plist s) (rq_sendq s) (rq_retryq s) (rq_ids s) (rq_cursor s) v (rq_readable s) (rq_writable s) (rq_now s) (rq_ttl s).
Definition set_readable (s : req) v := mkReq (rq_ctxs s) (rq_retry s) (rq_tick s) (rq_closed s) (rq_active s) (rq_tickdl s) (rq_ready s) (rq_busy s) (rq_pclosed s) (rq_plist s) (rq_sendq s) (rq_retryq s) (rq_ids s) (rq_cursor s) (rq_sending s) v (rq_writable s) (rq_now s) (rq_ttl s).
Definition set_writable (s : req) v := mkReq (rq_ctxs s) (rq_retry s) (rq_tick s) (rq_closed s) (rq_active s) (rq_tickdl s) (rq_ready s) (rq_busy s) (rq_pclosed s) (rq_plist s) (rq_sendq s) (rq_retryq s) (rq_ids s) (rq_cursor s) (rq_sending s) (rq_readable s) v (rq_now s) (rq_ttl s).
Definition set_now (s : req) v := mkReq (rq_ctxs s) (rq_retry s) (rq_tick s) (rq_closed s) (rq_active s) (rq_tickdl s) (rq_ready s) (rq_busy s) (rq_pclosed s) (rq_plist s) (rq_sendq s) (rq_retryq s) (rq_ids s) (rq_cursor s) (rq_sending s) (rq_readable s) (rq_writable s) v (rq_ttl s).
Definition set_ttl (s : req) v := mkReq (rq_ctxs s) (rq_retry s) (rq_tick s) (rq_closed s) (rq_active s) (rq_tickdl s) (rq_ready s) (rq_busy s) (rq_pclosed s) (rq_plist s) (rq_sendq s) (rq_retryq s) (rq_ids s) (rq_cursor s) (rq_sending s) (rq_readable s) (rq_writable s) (rq_now s) v.

(* ---- keyed lists ---- *)
Fixpoint lookup {A} (k : N) (l : list (N * A)) : option A :=
  match l with [] => None | (k', v) :: r => if N.eqb k' k then Some v else lookup k r end.
Fixpoint assoc_set {A} (k : N) (v : A) (l : list (N * A)) : list (N * A) :=
  match l with
  | [] => [(k, v)]
  | (k', v') :: r => if N.eqb k' k then (k, v) :: r else (k', v') :: assoc_set k v r
  end.
Definition assoc_del {A} (k : N) (l : list (N * A)) : list (N * A) :=
  filter (fun x => negb (N.eqb (fst x) k)) l.
Definition plist_del (k : N) (l : list (pid * N)) : list (pid * N) :=
  filter (fun x => negb (N.eqb (snd x) k)) l.
Definition is_nil {A} (l : list A) : bool := match l with [] => true | _ => false end.

Definition ctx_get (s : req) (k : N) : option rctx := lookup k (rq_ctxs s).
Definition ctx_put (s : req) (k : N) (c : rctx) : req := set_ctxs s (assoc_set k c (rq_ctxs s)).

Definition eff_retry (fx : rfix) (c : rctx) : Z := if fx_clone fx then cx_sretry c else cx_retry c.
Definition retry_on (fx : rfix) (c : rctx) : bool := (0 <? eff_retry fx c)%Z.

(* ---- nni_id_alloc on the requests map ---- *)
Definition id_next (cur : N) : N := if (REQ_ID_MAX <? cur + 1)%N then REQ_ID_MIN else (cur + 1)%N.
Fixpoint id_alloc (fuel : nat) (ids : list (N * N)) (cur : N) : option (N * N) :=   (* (id, cursor') *)
  match fuel with
  | 0 => None        (* not reachable: more live ids than the fuel (= count + 1) *)
  | S f => match lookup cur ids with
           | None => Some (cur, id_next cur)
           | Some _ => id_alloc f ids (id_next cur)
           end
  end.

(* ---- req0_ctx_reset: lists, id, request (freed iff "cloned"), reply, conn_reset ---- *)
Definition ctx_reset (fx : rfix) (s : req) (k : N) (c : rctx) : req * rctx * list pout :=
  let s1 := set_plist (set_sendq (set_retryq s (remove_id k (rq_retryq s))) (remove_id k (rq_sendq s)))
                      (plist_del k (rq_plist s)) in
  let s2 := if N.eqb (cx_rid c) 0 then s1 else set_ids s1 (assoc_del (cx_rid c) (rq_ids s1)) (rq_cursor s1) in
  let o1 := match cx_req c with Some m => if retry_on fx c then [Free m] else [] | None => [] end in
  let o2 := match cx_rep c with Some m => [Free m] | None => [] end in
  let s2 := if fx_rdclr fx && N.eqb k 0 && (match cx_rep c with Some _ => true | None => false end)
            then set_readable s2 false else s2 in
  (s2, mkRctx 0 (cx_recv c) (cx_send c) None None (cx_retry c) (cx_sretry c) (cx_rtime c) false false, o1 ++ o2).

(* ---- req0_run_send_queue; the third component lists the clones made ---- *)
Fixpoint run_sendq (fx : rfix) (fuel : nat) (s : req) : req * list pout * list pmsg :=
  match fuel with
  | 0 => (s, [], [])
  | S f =>
      match rq_sendq s, rq_ready s with
      | k :: sq, p :: rd =>
          match ctx_get s k with
          | Some c =>
              match cx_req c with
              | Some m =>
                  let rt := retry_on fx c in
                  let s1 := set_sendq s sq in
                  let s2 := if rt then set_retryq s1 (remove_id k (rq_retryq s1) ++ [k]) else s1 in
                  let s3 := set_plist s2 (plist_del k (rq_plist s2) ++ [(p, k)]) in
                  let s4 := set_pipes s3 rd (rq_busy s3 ++ [p]) (rq_pclosed s3) in
                  let s5 := if is_nil rd then set_writable s4 false else s4 in
                  let oa := match cx_send c with Some a => [Complete a E_OK None] | None => [] end in
                  let c' := mkRctx (cx_rid c) (cx_recv c) None (cx_req c) (cx_rep c) (cx_retry c) (cx_sretry c)
                                   (cx_rtime c) (cx_creset c) (if rt then cx_owned c else false) in
                  let s6 := set_sending (ctx_put s5 k c') ((p, m) :: assoc_del p (rq_sending s5)) in
                  let '(s7, outs, cl) := run_sendq fx f s6 in
                  (s7, oa ++ TranSend p m :: outs, (if rt then [m] else []) ++ cl)
              | None => run_sendq fx f (set_sendq s sq)       (* not reachable: queued without a request *)
              end
          | None => run_sendq fx f (set_sendq s sq)           (* not reachable: queued context is gone *)
          end
      | _, _ => (s, [], [])
      end
  end.
Definition run_send_queue (fx : rfix) (s : req) := run_sendq fx (length (rq_sendq s)) s.

(* absolute time now + d for a positive duration *)
Definition after (now : N) (d : Z) : N := (now + Z.to_N d)%N.
Definition tick_deadline (now : N) (tick : Z) : option N :=
  if (tick <? 0)%Z then None else Some (after now tick).
Definition arm_out (d : option N) : list pout := match d with Some t => [Arm t] | None => [] end.

(* ---- req0_ctx_send ---- *)
Definition req_ctx_send (fx : rfix) (s : req) (k : N) (c : rctx) (a : aioid) (nb : bool) (m : pmsg)
  : req * list pout * list pmsg :=
  if rq_closed s then (s, [Complete a E_CLOSED None], []) else
  let o1 := match cx_recv c with Some ra => [Complete ra E_CANCELED None] | None => [] end in
  (* a request still waiting for a pipe goes back to its aio *)
  let '(s1, c1, o2) :=
    match cx_send c with
    | Some sa => (set_sendq s (remove_id k (rq_sendq s)),
                  mkRctx (cx_rid c) None None None (cx_rep c) (cx_retry c) (cx_sretry c) (cx_rtime c) (cx_creset c) false,
                  [Complete sa E_CANCELED None])
    | None => (s, mkRctx (cx_rid c) None None (cx_req c) (cx_rep c) (cx_retry c) (cx_sretry c) (cx_rtime c) (cx_creset c) (cx_owned c), [])
    end in
  let '(s2, c2, o3) := ctx_reset fx s1 k c1 in
  if (REQ_ID_MAX - REQ_ID_MIN <? N.of_nat (length (rq_ids s2)))%N
  then (ctx_put s2 k c2, o1 ++ o2 ++ o3 ++ [Complete a E_NOMEM None], []) else
  match id_alloc (S (length (rq_ids s2))) (rq_ids s2) (rq_cursor s2) with
  | None => (ctx_put s2 k c2, o1 ++ o2 ++ o3 ++ [Complete a E_NOMEM None], [])
  | Some (id, cur') =>
  let m' := req_send id m in
  if is_nil (rq_ready s2) && nb then
    (* nni_aio_start refuses: the id leaves the map, ctx->request_id keeps it *)
    let c3 := mkRctx id (cx_recv c2) (cx_send c2) None None (cx_retry c2) (cx_sretry c2) (cx_rtime c2) false false in
    (ctx_put (set_ids s2 (rq_ids s2) cur') k c3, o1 ++ o2 ++ o3 ++ [Complete a E_AGAIN None], [])
  else
    let s3 := set_ids s2 (rq_ids s2 ++ [(id, k)]) cur' in
    let rt := (0 <? cx_retry c2)%Z in
    let c3 := mkRctx id None (Some a) (Some m') None (cx_retry c2) (cx_retry c2)
                     (if rt then after (rq_now s3) (cx_retry c2) else cx_rtime c2) false true in
    let s4 := if rt then set_retryq s3 (rq_retryq s3 ++ [k]) else s3 in
    let '(s5, o4) := if rt && negb (rq_active s4)
                     then (set_timer s4 true (tick_deadline (rq_now s4) (rq_tick s4)), arm_out (tick_deadline (rq_now s4) (rq_tick s4)))
                     else (s4, []) in
    let s6 := set_sendq (ctx_put s5 k c3) (rq_sendq s5 ++ [k]) in
    let '(s7, o5, cl) := run_send_queue fx s6 in
    (s7, o1 ++ o2 ++ o3 ++ o4 ++ o5, cl)
  end.

(* ---- req0_ctx_recv ---- *)
Definition req_ctx_recv (s : req) (k : N) (c : rctx) (a : aioid) (nb : bool) : req * list pout :=
  if (match cx_recv c with Some _ => true | None => false end)
     || ((match cx_req c with None => true | _ => false end) && (match cx_rep c with None => true | _ => false end))
  then
    if cx_creset c
    then (ctx_put s k (mkRctx (cx_rid c) (cx_recv c) (cx_send c) (cx_req c) (cx_rep c) (cx_retry c) (cx_sretry c) (cx_rtime c) false (cx_owned c)),
          [Complete a E_CONNRESET None])
    else (s, [Complete a E_STATE None])
  else
    match cx_rep c with
    | None =>
        if nb then (s, [Complete a E_AGAIN None])
        else (ctx_put s k (mkRctx (cx_rid c) (Some a) (cx_send c) (cx_req c) None (cx_retry c) (cx_sretry c) (cx_rtime c) (cx_creset c) (cx_owned c)), [])
    | Some m =>
        let s1 := ctx_put s k (mkRctx (cx_rid c) None (cx_send c) (cx_req c) None (cx_retry c) (cx_sretry c) (cx_rtime c) (cx_creset c) (cx_owned c)) in
        ((if N.eqb k 0 then set_readable s1 false else s1), [Complete a E_OK (Some m)])
    end.

(* ---- req0_ctx_cancel_recv / req0_ctx_cancel_send ---- *)
Definition req_cancel_recv (fx : rfix) (s : req) (k : N) (c : rctx) (a : aioid) (rv : N) : req * list pout :=
  let '(s1, c1, o1) :=
    match cx_send c with
    | Some sa => (set_sendq s (remove_id k (rq_sendq s)),
                  mkRctx (cx_rid c) (cx_recv c) None None (cx_rep c) (cx_retry c) (cx_sretry c) (cx_rtime c) (cx_creset c) false,
                  [Complete sa E_CANCELED None])
    | None => (s, c, [])
    end in
  let '(s2, c2, o2) := ctx_reset fx s1 k (mkRctx (cx_rid c1) None (cx_send c1) (cx_req c1) (cx_rep c1) (cx_retry c1) (cx_sretry c1) (cx_rtime c1) (cx_creset c1) (cx_owned c1)) in
  (ctx_put s2 k c2, o1 ++ o2 ++ [Complete a rv None]).

Definition req_cancel_send (fx : rfix) (s : req) (k : N) (c : rctx) (a : aioid) (rv : N) : req * list pout :=
  let '(recv', o0) :=
    if fx_cancel fx then (None, match cx_recv c with Some ra => [Complete ra E_CANCELED None] | None => [] end)
    else (cx_recv c, []) in
  let c1 := mkRctx (cx_rid c) recv' None None (cx_rep c) (cx_retry c) (cx_sretry c) (cx_rtime c) (cx_creset c) false in
  let '(s2, c2, o2) := ctx_reset fx s k c1 in
  (ctx_put s2 k c2, o0 ++ o2 ++ [Complete a rv None]).

Fixpoint find_ctx (f : rctx -> bool) (l : list (N * rctx)) : option (N * rctx) :=
  match l with [] => None | (k, c) :: r => if f c then Some (k, c) else find_ctx f r end.
Definition opt_is (a : aioid) (o : option aioid) : bool := match o with Some b => N.eqb a b | None => false end.

(* ---- req0_ctx_fini ---- *)
Definition req_ctx_fini (fx : rfix) (s : req) (k : N) (c : rctx) : req * rctx * list pout :=
  let o1 := match cx_recv c with Some ra => [Complete ra E_CLOSED None] | None => [] end in
  let '(c1, o2) :=
    match cx_send c with
    | Some sa => (mkRctx (cx_rid c) None None None (cx_rep c) (cx_retry c) (cx_sretry c) (cx_rtime c) (cx_creset c) false,
                  [Complete sa E_CLOSED None])
    | None => (mkRctx (cx_rid c) None None (cx_req c) (cx_rep c) (cx_retry c) (cx_sretry c) (cx_rtime c) (cx_creset c) (cx_owned c), [])
    end in
  let '(s2, c2, o3) := ctx_reset fx s k c1 in
  (s2, c2, o1 ++ o2 ++ o3).

(* ---- req0_pipe_close: walk the pipe's contexts list ---- *)
Fixpoint first_on (p : pid) (l : list (pid * N)) : option N :=
  match l with [] => None | (q, k) :: r => if N.eqb q p then Some k else first_on p r end.

Fixpoint pipe_close_loop (fx : rfix) (fuel : nat) (s : req) (p : pid) : req * list pout * list pmsg :=
  match fuel with
  | 0 => (s, [], [])
  | S f =>
      match first_on p (rq_plist s) with
      | None => (s, [], [])
      | Some k =>
          let s0 := set_plist s (plist_del k (rq_plist s)) in
          match ctx_get s0 k with
          | None => pipe_close_loop fx f s0 p
          | Some c =>
              let '(s1, o1, cl1) :=
                if negb (retry_on fx c) then
                  match cx_recv c with
                  | Some ra =>
                      let '(s', c', o) := ctx_reset fx s0 k (mkRctx (cx_rid c) None (cx_send c) (cx_req c) (cx_rep c) (cx_retry c) (cx_sretry c) (cx_rtime c) (cx_creset c) (cx_owned c)) in
                      (ctx_put s' k c', Complete ra E_CONNRESET None :: o, [])
                  | None =>
                      let '(s', c', o) := ctx_reset fx s0 k c in
                      (ctx_put s' k (mkRctx (cx_rid c') (cx_recv c') (cx_send c') (cx_req c') (cx_rep c') (cx_retry c') (cx_sretry c') (cx_rtime c') true (cx_owned c')), o, [])
                  end
                else
                  match cx_req c with
                  | Some _ =>
                      let c' := mkRctx (cx_rid c) (cx_recv c) (cx_send c) (cx_req c) (cx_rep c) (cx_retry c) (cx_sretry c)
                                       (after (rq_now s0) (eff_retry fx c)) (cx_creset c) (cx_owned c) in
                      let s' := ctx_put s0 k c' in
                      if has_id k (rq_sendq s') then (s', [], [])
                      else run_send_queue fx (set_sendq s' (rq_sendq s' ++ [k]))
                  | None => (s0, [], [])
                  end in
              let '(s2, o2, cl2) := pipe_close_loop fx f s1 p in
              (s2, o1 ++ o2, cl1 ++ cl2)
          end
      end
  end.

(* ---- req0_retry_cb: scan of the retry queue ---- *)
Fixpoint retry_scan (s : req) (now : N) (ks : list N) (sq : list N) : list N * bool :=
  match ks with
  | [] => (sq, false)
  | k :: r =>
      match ctx_get s k with
      | Some c =>
          if (now <? cx_rtime c)%N || (match cx_req c with None => true | _ => false end)
          then retry_scan s now r sq
          else let '(sq', _) := retry_scan s now r (if has_id k sq then sq else sq ++ [k]) in (sq', true)
      | None => retry_scan s now r sq
      end
  end.

Definition ckey (c : option ctxid) : N := match c with None => 0%N | Some k => (k + 1)%N end.

Definition req_stepL (fx : rfix) (s : req) (o : pop) : req * list pout * list pmsg :=
  match o with
  | PCtxOpen k =>
      (set_ctxs s (rq_ctxs s ++ [((k + 1)%N, ctx_init (rq_retry s))]), [], [])
  | PCtxClose k =>
      match ctx_get s (k + 1)%N with
      | Some c => let '(s1, _, outs) := req_ctx_fini fx s (k + 1)%N c in
                  (set_ctxs s1 (assoc_del (k + 1)%N (rq_ctxs s1)), outs, [])
      | None => (s, [], [])
      end
  | PSend c a nb m =>
      match ctx_get s (ckey c) with
      | Some cx => req_ctx_send fx s (ckey c) cx a nb m
      | None => (s, [Complete a E_CLOSED None], [])
      end
  | PRecv c a nb =>
      match ctx_get s (ckey c) with
      | Some cx => let '(s1, outs) := req_ctx_recv s (ckey c) cx a nb in (s1, outs, [])
      | None => (s, [Complete a E_CLOSED None], [])
      end
  | PCancel a rv =>
      match find_ctx (fun c => opt_is a (cx_recv c)) (rq_ctxs s) with
      | Some (k, c) => let '(s1, outs) := req_cancel_recv fx s k c a rv in (s1, outs, [])
      | None =>
          match find_ctx (fun c => opt_is a (cx_send c)) (rq_ctxs s) with
          | Some (k, c) => let '(s1, outs) := req_cancel_send fx s k c a rv in (s1, outs, [])
          | None => (s, [], [])
          end
      end
  | PPipeStart p peer =>
      if negb (N.eqb peer PROTO_REP) then (s, [Reject E_PROTO], [])
      else
        let s1 := set_writable (set_pipes s (rq_ready s ++ [p]) (rq_busy s) (rq_pclosed s)) true in
        let '(s2, outs, cl) := run_send_queue fx s1 in
        (s2, outs ++ [TranRecv p], cl)
  | PPipeClose p =>
      let s1 := set_pipes s (remove_id p (rq_ready s)) (remove_id p (rq_busy s)) (rq_pclosed s ++ [p]) in
      let s2 := if is_nil (rq_ready s1) then set_writable s1 false else s1 in
      pipe_close_loop fx (length (rq_plist s2)) s2 p
  | PSendDone p rv =>
      let held := map snd (filter (fun x => N.eqb (fst x) p) (rq_sending s)) in
      let s0 := set_sending s (assoc_del p (rq_sending s)) in
      if negb (N.eqb rv 0) then (s0, map Free held ++ [ClosePipe p], [])
      else if has_id p (rq_pclosed s0) || rq_closed s0 then (s0, [], [])
      else
        let s1 := set_pipes s0 (rq_ready s0 ++ [p]) (remove_id p (rq_busy s0)) (rq_pclosed s0) in
        let s2 := if is_nil (rq_sendq s1) then set_writable s1 true else s1 in
        run_send_queue fx s2
  | PRecvDone p rv m =>
      if negb (N.eqb rv 0) then (s, [ClosePipe p], [])
      else
        match req_recv (pm_body m) with
        | None => (s, [Free m; ClosePipe p], [])          (* malformed: shorter than an id *)
        | Some (id, m') =>
            match lookup id (rq_ids s) with
            | None => (s, [TranRecv p; Free m'], [])
            | Some k =>
                match ctx_get s k with
                | None => (s, [TranRecv p; Free m'], [])
                | Some c =>
                    if (match cx_send c with Some _ => true | None => false end)
                       || (match cx_rep c with Some _ => true | None => false end)
                    then (s, [TranRecv p; Free m'], [])
                    else
                      let s0 := if fx_stash fx
                                then set_plist (set_retryq s (remove_id k (rq_retryq s))) (plist_del k (rq_plist s)) else s in
                      let s1 := set_ids (set_sendq s0 (remove_id k (rq_sendq s0))) (assoc_del id (rq_ids s0)) (rq_cursor s0) in
                      let o1 := match cx_req c with Some r => if retry_on fx c then [Free r] else [] | None => [] end in
                      match cx_recv c with
                      | Some ra =>
                          (ctx_put s1 k (mkRctx 0 None (cx_send c) None None (cx_retry c) (cx_sretry c) (cx_rtime c) (cx_creset c) false),
                           TranRecv p :: o1 ++ [Complete ra E_OK (Some m')], [])
                      | None =>
                          let s2 := ctx_put s1 k (mkRctx 0 None (cx_send c) None (Some m') (cx_retry c) (cx_sretry c) (cx_rtime c) (cx_creset c) false) in
                          ((if N.eqb k 0 then set_readable s2 true else s2), TranRecv p :: o1, [])
                      end
                end
            end
        end
  | PTick now =>
      let s0 := set_now s now in
      if rq_closed s0 || negb (rq_active s0) then (s0, [], [])
      else
        match rq_tickdl s0 with
        | None => (s0, [], [])
        | Some d =>
            if negb (d <? now)%N then (s0, [], [])
            else
              let '(sq, resched) := retry_scan s0 now (rq_retryq s0) (rq_sendq s0) in
              let s1 := set_sendq s0 sq in
              let '(s2, o1) := if is_nil (rq_retryq s1) then (set_timer s1 false (rq_tickdl s1), [])
                               else (set_timer s1 true (tick_deadline now (rq_tick s1)), arm_out (tick_deadline now (rq_tick s1))) in
              if resched then let '(s3, o2, cl) := run_send_queue fx s2 in (s3, o1 ++ o2, cl)
              else (s2, o1, [])
        end
  | PSetOpt c (OResendTime ms) =>
      if (ms <? -1)%Z then (s, [OptRv E_INVAL], [])
      else
        match ctx_get s (ckey c) with
        | Some cx =>
            let s1 := ctx_put s (ckey c) (mkRctx (cx_rid cx) (cx_recv cx) (cx_send cx) (cx_req cx) (cx_rep cx) ms (cx_sretry cx) (cx_rtime cx) (cx_creset cx) (cx_owned cx)) in
            ((match c with None => set_retry s1 ms | Some _ => s1 end), [OptRv E_OK], [])
        | None => (s, [OptRv E_CLOSED], [])
        end
  | PSetOpt None (OResendTick ms) =>
      if (ms <? -1)%Z then (s, [OptRv E_INVAL], []) else (set_tick s ms, [OptRv E_OK], [])
  | PSetOpt None (OMaxTtl n) =>
      if (n <? BT_TTL_MIN) || (BT_TTL_MAX <? n) then (s, [OptRv E_INVAL], []) else (set_ttl s n, [OptRv E_OK], [])
  | PSetOpt None (OSendBuf n) | PSetOpt None (ORecvBuf n) =>
      (* the socket core's upper queues exist but are unused by cooked REQ *)
      if (8192 <? N.of_nat n)%N then (s, [OptRv E_INVAL], []) else (s, [OptRv E_OK], [])
  | PSetOpt _ _ => (s, [OptRv E_NOTSUP], [])
  | PSockClose =>
      (* req0_sock_close, then req0_sock_fini -> req0_ctx_fini(&s->master) *)
      let s1 := set_closed s true in
      match ctx_get s1 0%N with
      | Some c => let '(s2, c2, outs) := req_ctx_fini fx s1 0%N c in (ctx_put s2 0%N c2, outs, [])
      | None => (s1, [], [])
      end
  end.

Definition req_step (fx : rfix) (s : req) (o : pop) : req * list pout :=
  let '(s', outs, _) := req_stepL fx s o in (s', outs).

Definition req_poll (s : req) : ppoll := mkPoll (Some (rq_readable s)) (Some (rq_writable s)).
