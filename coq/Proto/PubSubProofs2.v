(* PubSubProofs2: SUB conservation (with duplicates) and per-receiver order. *)
From Coq Require Import List Arith NArith Bool Lia.
From NngV Require Import Proto.Common Proto.PushModel Proto.PushProofs Proto.SubModel Proto.PubSubProofs.
Import ListNotations.

(* messages handed to the application *)
Fixpoint delivered (outs : list pout) : list pmsg :=
  match outs with
  | [] => []
  | Complete _ rv (Some m) :: r => if N.eqb rv 0 then m :: delivered r else delivered r
  | _ :: r => delivered r
  end.
Lemma delivered_app a b : delivered (a ++ b) = delivered a ++ delivered b.
Proof. induction a as [|[? ? [?|]| | | | | | |] a IH]; cbn; rewrite ?IH; auto. destruct (_ =? _)%N; cbn; now rewrite ?IH. Qed.
Lemma delivered_map_Free l : delivered (map Free l) = [].
Proof. induction l; cbn; auto. Qed.
Lemma delivered_fail rv l : delivered (fail_aios rv l) = [].
Proof. induction l; cbn; auto. Qed.

(* ------------------------------------------------------------------ sublists *)
Inductive Sublist {A} : list A -> list A -> Prop :=
| sl_nil : forall l, Sublist [] l
| sl_keep : forall x a b, Sublist a b -> Sublist (x :: a) (x :: b)
| sl_skip : forall x a b, Sublist a b -> Sublist a (x :: b).

Lemma sl_refl {A} (l : list A) : Sublist l l.
Proof. induction l; constructor; auto. Qed.
Lemma sl_app_l {A} (p a b : list A) : Sublist a b -> Sublist (p ++ a) (p ++ b).
Proof. induction p; cbn; auto. intros. constructor. auto. Qed.
Lemma sl_app_skip {A} (p a b : list A) : Sublist a b -> Sublist a (p ++ b).
Proof. induction p; cbn; auto. intros. constructor. auto. Qed.
Lemma sl_app {A} (a b c d : list A) : Sublist a b -> Sublist c d -> Sublist (a ++ c) (b ++ d).
Proof.
  intros H. induction H; cbn; intros Hc.
  - now apply sl_app_skip.
  - constructor. auto.
  - constructor. auto.
Qed.
Lemma sl_app_r {A} (p a b : list A) : Sublist a b -> Sublist (a ++ p) (b ++ p).
Proof. intros. apply sl_app; auto. apply sl_refl. Qed.
Lemma sl_trans {A} (a b c : list A) : Sublist a b -> Sublist b c -> Sublist a c.
Proof.
  intros H1 H2. revert a H1. induction H2; intros a0 H1.
  - inversion H1; subst. constructor.
  - inversion H1; subst; constructor; auto.
  - constructor. auto.
Qed.
Lemma sl_firstn {A} n (l : list A) : Sublist (firstn n l) l.
Proof. revert l. induction n; destruct l; cbn; constructor; auto. Qed.
Lemma sl_filter {A} (f : A -> bool) (l : list A) : Sublist (filter f l) l.
Proof. induction l as [|x l IH]; cbn; [constructor|]. destruct (f x); constructor; auto. Qed.
Lemma sl_filter_mono {A} (f : A -> bool) (a b : list A) : Sublist a b -> Sublist (filter f a) (filter f b).
Proof.
  intros H. induction H; cbn.
  - constructor.
  - destruct (f x); [constructor|]; auto.
  - destruct (f x); [constructor|]; auto.
Qed.
(* a sublist of an untagged list lifts to any tagging of the bigger list *)
Lemma sl_tag {A B} (a b : list B) (tb : list (A * B)) :
  Sublist a b -> map snd tb = b -> exists ta, Sublist ta tb /\ map snd ta = a.
Proof.
  intros H. revert tb. induction H; intros tb E.
  - exists []. split; constructor.
  - destruct tb as [|[t y] tb]; [discriminate|]. cbn in E. inversion E; subst.
    destruct (IHSublist tb eq_refl) as (ta & S & M). exists ((t, x) :: ta). split; [constructor; auto|cbn; congruence].
  - destruct tb as [|[t y] tb]; [discriminate|]. cbn in E. inversion E; subst.
    destruct (IHSublist tb eq_refl) as (ta & S & M). exists ta. split; [constructor; auto|auto].
Qed.

(* ------------------------------------------------------------------ what one context is handed in one step *)
Definition ctx_got (c : sctx) (o : pop) (outs : list pout) : list pmsg :=
  match o with
  | PRecvDone _ rv m => if N.eqb rv 0 then delivered (ctx_compl c m) else []
  | PRecv k _ _ => if cid_eqb (sc_id c) k then delivered outs else []
  | _ => []
  end.

Definition lmq_of (k : option ctxid) (s : sub) : list pmsg :=
  match find_ctx k (sb_ctxs s) with Some c => sc_lmq c | None => [] end.
Definition got_of (k : option ctxid) (s : sub) (o : pop) (outs : list pout) : list pmsg :=
  match find_ctx k (sb_ctxs s) with Some c => ctx_got c o outs | None => [] end.
Definition keeps_ctx (k : option ctxid) (o : pop) : Prop :=
  match o with PCtxOpen c | PCtxClose c => Some c <> k | _ => True end.

Lemma find_map_same k (f : sctx -> sctx) cs : (forall c, sc_id (f c) = sc_id c) ->
  find_ctx k (map f cs) = option_map f (find_ctx k cs).
Proof.
  intros Hf. unfold find_ctx. induction cs as [|x cs IH]; cbn; [reflexivity|]. rewrite Hf. destruct (cid_eqb (sc_id x) k); auto.
Qed.
Lemma ctx_after_id c m : sc_id (ctx_after c m) = sc_id c.
Proof. unfold ctx_after. destruct (ctx_accepts c m); auto. destruct (sc_rq c); auto. destruct (lmq_full c); auto. destruct (sc_lmq c); auto. Qed.

(* per step and per receiver: what it is handed followed by what it still holds is a
   subsequence of what it held followed by what arrived *)
Theorem sub_order_step fixed s o s' outs k :
  SInv s -> keeps_ctx k o -> sub_step fixed s o = (s', outs) ->
  Sublist (got_of k s o outs ++ lmq_of k s') (lmq_of k s ++ arrived o) /\
  (find_ctx k (sb_ctxs s) <> None -> find_ctx k (sb_ctxs s') <> None).
Proof.
  intros (I1 & I2 & I3) Hk H. unfold got_of, lmq_of.
  assert (SAME: sb_ctxs s' = sb_ctxs s -> (forall c, ctx_got c o outs = []) ->
          Sublist (match find_ctx k (sb_ctxs s) with Some c => ctx_got c o outs | None => [] end ++
                   match find_ctx k (sb_ctxs s') with Some c => sc_lmq c | None => [] end)
                  (match find_ctx k (sb_ctxs s) with Some c => sc_lmq c | None => [] end ++ arrived o) /\
          (find_ctx k (sb_ctxs s) <> None -> find_ctx k (sb_ctxs s') <> None)).
  { intros E G. rewrite E. split; auto. destruct (find_ctx k (sb_ctxs s)); [rewrite G|]; cbn; [|constructor].
    rewrite <- (app_nil_r (sc_lmq s0)) at 1. apply sl_app; [apply sl_refl|constructor]. }
  destruct o as [k0 a nb m|k0 a nb|a rv|p peer|p|p rv|p rv m|k0 op|k0|k0| |now]; cbn [sub_step keeps_ctx] in *;
    try (inversion H; subst; apply SAME; [reflexivity|intros; reflexivity]).
  - (* PRecv *)
    destruct (find_ctx k0 (sb_ctxs s)) as [c|] eqn:F.
    2:{ inversion H; subst. apply SAME; auto. intros c. cbn. destruct (cid_eqb (sc_id c) k0); reflexivity. }
    pose proof (find_ctx_some _ _ _ F) as [Fin Fid].
    destruct (sc_lmq c) as [|m rest] eqn:Q.
    + destruct nb; inversion H; subst; simp_s.
      * apply SAME; auto. intros c0. cbn. destruct (cid_eqb (sc_id c0) (sc_id c)); reflexivity.
      * cbn [arrived ctx_got delivered]. rewrite app_nil_r.
        destruct (cid_eqb (sc_id c) k) eqn:E.
        -- apply cid_eqb_eq in E. rewrite <- E in *. rewrite F. rewrite (find_upd_same _ (fun c => set_rq c (sc_rq c ++ [a])) _ c); auto.
           simp_c. destruct (cid_eqb (sc_id c) (sc_id c)); cbn; split; try apply sl_refl; congruence.
        -- apply cid_eqb_neq in E. rewrite find_upd_other by (try congruence; auto).
           split; auto. destruct (find_ctx k (sb_ctxs s)) as [c1|] eqn:F1; [|constructor].
           destruct (cid_eqb (sc_id c1) (sc_id c)); cbn; apply sl_refl.
    + inversion H; subst; clear H; simp_s. cbn [arrived ctx_got delivered]. rewrite app_nil_r.
      change (E_OK =? 0)%N with true. cbn iota.
      destruct (cid_eqb (sc_id c) k) eqn:E.
      * apply cid_eqb_eq in E. rewrite <- E in *. rewrite F. rewrite (find_upd_same _ (fun c => set_lmq c rest) _ c); auto.
        simp_c. rewrite cid_eqb_refl, Q. cbn. split; [apply sl_refl|congruence].
      * apply cid_eqb_neq in E. rewrite find_upd_other by (try congruence; auto).
        split; auto. destruct (find_ctx k (sb_ctxs s)) as [c1|] eqn:F1; [|constructor].
        destruct (cid_eqb (sc_id c1) (sc_id c)) eqn:E1.
        -- apply cid_eqb_eq in E1. apply find_ctx_some in F1 as [_ F1]. congruence.
        -- cbn. apply sl_refl.
  - (* PCancel *)
    destruct (existsb _ _); inversion H; subst; [|apply SAME; auto]. simp_s. cbn [ctx_got arrived].
    rewrite (find_map_same k (fun c => set_rq c (remove_id a (sc_rq c)))) by auto.
    destruct (find_ctx k (sb_ctxs s)); cbn; split; try congruence; try constructor. rewrite app_nil_r. apply sl_refl.
  - destruct (negb _); inversion H; subst; apply SAME; auto.
  - (* PRecvDone *)
    destruct (N.eqb_spec rv 0) as [->|Hrv]; cbn [negb] in H.
    2:{ inversion H; subst. apply SAME; auto. intros c. cbn. destruct (N.eqb_spec rv 0); [contradiction|reflexivity]. }
    inversion H; subst; clear H. simp_s. cbn [ctx_got arrived N.eqb].
    rewrite (find_map_same k (fun c => ctx_after c m)) by (intros; apply ctx_after_id).
    destruct (find_ctx k (sb_ctxs s)) as [c|] eqn:F; cbn [option_map]; [|split; [constructor|congruence]].
    split; [|congruence].
    pose proof (find_ctx_some _ _ _ F) as [Fin _].
    pose proof (proj1 (Forall_forall _ _) I1 c Fin) as (A & B & C & D & G).
    unfold ctx_compl, ctx_after. destruct (ctx_accepts c m).
    + destruct (sc_rq c) as [|a0 r0] eqn:R.
      * cbn [delivered app]. unfold lmq_full. destruct (sc_cap c <=? length (sc_lmq c)).
        -- destruct (sc_lmq c) as [|old r] eqn:Q; simp_c.
           ++ rewrite Q. constructor.
           ++ cbn. constructor. apply sl_refl.
        -- simp_c. apply sl_refl.
      * cbn [delivered]. change (E_OK =? 0)%N with true. cbn iota. simp_c. rewrite B by congruence. cbn. apply sl_refl.
    + cbn. rewrite <- (app_nil_r (sc_lmq c)) at 1. apply sl_app; [apply sl_refl|constructor].
  - (* PSetOpt *)
    destruct (find_ctx k0 (sb_ctxs s)) as [c|] eqn:F; [|inversion H; subst; apply SAME; auto].
    pose proof (find_ctx_some _ _ _ F) as [Fin Fid].
    assert (GEN: forall f rb pn r', (forall c, sc_id (f c) = sc_id c) -> Sublist (sc_lmq (f c)) (sc_lmq c) ->
              Sublist (match find_ctx k (sb_ctxs s) with Some c => [] | None => [] end ++
                       match find_ctx k (sb_ctxs (mkSub (upd_ctx k0 f (sb_ctxs s)) rb pn r')) with Some c => sc_lmq c | None => [] end)
                      (match find_ctx k (sb_ctxs s) with Some c => sc_lmq c | None => [] end ++ []) /\
              (find_ctx k (sb_ctxs s) <> None -> find_ctx k (sb_ctxs (mkSub (upd_ctx k0 f (sb_ctxs s)) rb pn r')) <> None)).
    { intros f rb pn r' Hf Hs. simp_s. rewrite app_nil_r.
      destruct (cid_eqb k0 k) eqn:E.
      - apply cid_eqb_eq in E. rewrite E in *. rewrite F, (find_upd_same k f _ c); auto. cbn. split; [auto|congruence].
      - apply cid_eqb_neq in E. rewrite find_upd_other by (try congruence; auto).
        split; auto. destruct (find_ctx k (sb_ctxs s)); cbn; [apply sl_refl|constructor]. }
    destruct op; try solve [inversion H; subst; apply SAME; auto].
    + destruct k0; [|destruct (_ <? _)%N]; inversion H; subst; apply SAME; auto.
    + destruct (_ || _); inversion H; subst; [apply SAME; auto|]. cbn [ctx_got arrived]. apply GEN; auto. simp_c. apply sl_firstn.
    + inversion H; subst. cbn [ctx_got arrived]. apply GEN; auto. simp_c. apply sl_refl.
    + destruct (has_topic t (sc_topics c)); inversion H; subst; [apply SAME; auto|]. cbn [ctx_got arrived]. apply GEN; auto. simp_c. apply sl_refl.
    + destruct (negb (has_topic t (sc_topics c))); inversion H; subst; [apply SAME; auto|]. cbn [ctx_got arrived]. apply GEN; auto. simp_c. apply sl_filter.
  - (* PCtxOpen *)
    inversion H; subst; clear H. simp_s. cbn [ctx_got arrived]. rewrite app_nil_r.
    assert (E: find_ctx k (sb_ctxs s ++ [mkSctx (Some k0) [] [] (sb_recvbuf s) [] (sb_prefnew s)]) = find_ctx k (sb_ctxs s)).
    { unfold find_ctx. clear - Hk. induction (sb_ctxs s) as [|x l IH]; cbn [app find sc_id].
      - destruct (cid_eqb (Some k0) k) eqn:E; [|reflexivity]. apply cid_eqb_eq in E. contradiction.
      - destruct (cid_eqb (sc_id x) k); auto. }
    rewrite E. split; auto. destruct (find_ctx k (sb_ctxs s)); cbn; [apply sl_refl|constructor].
  - (* PCtxClose *)
    destruct (find_ctx (Some k0) (sb_ctxs s)); inversion H; subst; [|apply SAME; auto]. clear H. simp_s. cbn [ctx_got arrived]. rewrite app_nil_r.
    assert (E: find_ctx k (filter (fun c => negb (cid_eqb (sc_id c) (Some k0))) (sb_ctxs s)) = find_ctx k (sb_ctxs s)).
    { unfold find_ctx. clear - Hk. induction (sb_ctxs s) as [|x l IH]; cbn; [reflexivity|].
      destruct (cid_eqb (sc_id x) (Some k0)) eqn:E1; cbn.
      - apply cid_eqb_eq in E1. destruct (cid_eqb (sc_id x) k) eqn:E2; [|exact IH]. apply cid_eqb_eq in E2. congruence.
      - destruct (cid_eqb (sc_id x) k); auto. }
    rewrite E. split; auto. destruct (find_ctx k (sb_ctxs s)); cbn; [apply sl_refl|constructor].
  - (* PSockClose *)
    destruct (find_ctx None (sb_ctxs s)) as [c|] eqn:F; inversion H; subst; [|apply SAME; auto]. clear H. simp_s. cbn [ctx_got arrived]. rewrite app_nil_r.
    destruct (cid_eqb None k) eqn:E.
    + apply cid_eqb_eq in E. subst k. rewrite F, (find_upd_same None (fun c => set_lmq (set_rq c []) []) _ c); auto. cbn.
      split; [constructor|congruence].
    + apply cid_eqb_neq in E. rewrite find_upd_other by (try congruence; auto).
      split; auto. destruct (find_ctx k (sb_ctxs s)); cbn; [apply sl_refl|constructor].
Qed.

(* ---- histories: a receiver that exists throughout ---- *)
Fixpoint tr_got (k : option ctxid) (tr : list (pop * sub * list pout)) : list pmsg :=
  match tr with [] => [] | (o, s, outs) :: r => got_of k s o outs ++ tr_got k r end.
Fixpoint tr_arrivals (tr : list (pop * sub * list pout)) : list (pid * pmsg) :=
  match tr with
  | [] => []
  | (PRecvDone p rv m, _, _) :: r => (if N.eqb rv 0 then [(p, m)] else []) ++ tr_arrivals r
  | _ :: r => tr_arrivals r
  end.
Lemma tr_arrivals_cons o s outs r : map snd (tr_arrivals ((o, s, outs) :: r)) = arrived o ++ map snd (tr_arrivals r).
Proof. destruct o; cbn [tr_arrivals arrived]; auto. destruct (rv =? 0)%N; cbn; auto. Qed.

Theorem sub_order_run fixed k ops : forall s,
  SInv s -> sub_ops_ok fixed s ops -> Forall (keeps_ctx k) ops ->
  let (s', tr) := sub_run fixed s ops in
  Sublist (tr_got k tr ++ lmq_of k s') (lmq_of k s ++ map snd (tr_arrivals tr)).
Proof.
  induction ops as [|o r IH]; intros s HI Hok Hk; cbn [sub_run].
  - cbn. rewrite app_nil_r. apply sl_refl.
  - cbn [sub_ops_ok] in Hok. destruct Hok as [Ho Hr]. inversion Hk; subst.
    destruct (sub_step fixed s o) as [s1 outs] eqn:S. cbn [fst] in Hr.
    pose proof (sub_step_inv _ _ _ _ _ HI Ho S) as HI1.
    destruct (sub_order_step _ _ _ _ _ k HI H1 S) as [L _].
    specialize (IH s1 HI1 Hr H2). destruct (sub_run fixed s1 r) as [s2 tr].
    cbn [tr_got]. rewrite tr_arrivals_cons, <- !app_assoc.
    eapply sl_trans; [apply sl_app_l; exact IH|]. rewrite !app_assoc. apply sl_app_r. exact L.
Qed.

(* per publisher: tag every arrival with the pipe it came on *)
Theorem sub_order_per_publisher fixed k ops s :
  SInv s -> sub_ops_ok fixed s ops -> Forall (keeps_ctx k) ops -> lmq_of k s = [] ->
  let (s', tr) := sub_run fixed s ops in
  exists d : list (pid * pmsg),
    Sublist d (tr_arrivals tr) /\ map snd d = tr_got k tr ++ lmq_of k s' /\
    forall p, Sublist (filter (fun x => N.eqb (fst x) p) d) (filter (fun x => N.eqb (fst x) p) (tr_arrivals tr)).
Proof.
  intros HI Hok Hk E. pose proof (sub_order_run fixed k ops s HI Hok Hk) as L.
  destruct (sub_run fixed s ops) as [s' tr]. rewrite E in L. cbn [app] in L.
  destruct (sl_tag _ _ (tr_arrivals tr) L eq_refl) as (d & S & M). exists d. repeat split; auto.
  intros p. now apply sl_filter_mono.
Qed.

(* ------------------------------------------------------------------ conservation *)
Definition owned (s : sub) : list pmsg := flat_map sc_lmq (sb_ctxs s).
(* the duplicates made in one step: with more than one context every taker gets its own copy *)
Definition dups (s : sub) (o : pop) : list pmsg :=
  match o with
  | PRecvDone _ rv m => if N.eqb rv 0 then (if 1 <? length (sb_ctxs s) then repeat m (naccept (sb_ctxs s) m) else []) else []
  | _ => []
  end.

Lemma cnt_repeat x m n : cnt x (repeat m n) = n * cnt x [m].
Proof. induction n; cbn [repeat]; [reflexivity|]. rewrite cnt_cons, IHn, cnt_cons, cnt_nil. lia. Qed.
Lemma cnt_filter_split x (f : pmsg -> bool) l : cnt x l = cnt x (filter f l) + cnt x (filter (fun m => negb (f m)) l).
Proof. induction l as [|y l IH]; cbn [filter]; [reflexivity|]. destruct (f y); cbn [negb]; rewrite !cnt_cons, IH; lia. Qed.

Lemma ctx_arrive_cnt c m x :
  cnt x (sc_lmq c) + (if ctx_accepts c m then cnt x [m] else 0) =
  cnt x (sc_lmq (ctx_after c m)) + cnt x (delivered (ctx_compl c m)) + cnt x (ctx_dropped c m).
Proof.
  unfold ctx_after, ctx_compl, ctx_dropped. destruct (ctx_accepts c m).
  2:{ cbn [delivered]. cnt_simp. lia. }
  destruct (sc_rq c).
  2:{ cbn [delivered]. change (E_OK =? 0)%N with true. cbn iota. simp_c. cbn [delivered]. cnt_simp. lia. }
  destruct (lmq_full c).
  - destruct (sc_lmq c) eqn:Q; simp_c; rewrite ?Q; cbn [delivered]; cnt_simp; lia.
  - simp_c. cbn [delivered]. cnt_simp. lia.
Qed.

Lemma arrive_sum cs m x :
  cnt x (flat_map sc_lmq cs) + naccept cs m * cnt x [m] =
  cnt x (flat_map sc_lmq (map (fun c => ctx_after c m) cs)) + cnt x (delivered (flat_map (fun c => ctx_compl c m) cs))
  + cnt x (flat_map (fun c => ctx_dropped c m) cs).
Proof.
  unfold naccept. induction cs as [|c cs IH]; cbn [flat_map map filter]; [reflexivity|].
  rewrite delivered_app. pose proof (ctx_arrive_cnt c m x) as P. cnt_simp.
  destruct (ctx_accepts c m); cbn [length]; destruct (pmsg_eq_dec m x); lia.
Qed.
Lemma naccept_le cs m : naccept cs m <= length cs.
Proof. unfold naccept. apply filter_len_le. Qed.

Lemma owned_upd k f cs c x : NoDup (map sc_id cs) -> find_ctx k cs = Some c ->
  cnt x (flat_map sc_lmq (upd_ctx k f cs)) + cnt x (sc_lmq c) = cnt x (flat_map sc_lmq cs) + cnt x (sc_lmq (f c)).
Proof.
  unfold find_ctx, upd_ctx. induction cs as [|y cs IH]; cbn [map flat_map find]; intros ND F; [discriminate|].
  inversion ND; subst. destruct (cid_eqb (sc_id y) k) eqn:E.
  - inversion F; subst.
    assert (R: map (fun c0 => if cid_eqb (sc_id c0) k then f c0 else c0) cs = cs).
    { apply cid_eqb_eq in E. clear - E H1. induction cs as [|z l IH]; cbn; [reflexivity|].
      destruct (cid_eqb (sc_id z) k) eqn:F.
      - apply cid_eqb_eq in F. exfalso. apply H1. left. congruence.
      - f_equal. apply IH. intros Hin. apply H1. now right. }
    rewrite R. cnt_simp. lia.
  - cnt_simp. specialize (IH H2 F). lia.
Qed.
Lemma owned_map_rq (g : sctx -> list aioid) cs : flat_map sc_lmq (map (fun c => set_rq c (g c)) cs) = flat_map sc_lmq cs.
Proof. induction cs; cbn; congruence. Qed.
Lemma owned_remove k cs c x : NoDup (map sc_id cs) -> find_ctx k cs = Some c ->
  cnt x (flat_map sc_lmq (filter (fun c => negb (cid_eqb (sc_id c) k)) cs)) + cnt x (sc_lmq c) = cnt x (flat_map sc_lmq cs).
Proof.
  unfold find_ctx. induction cs as [|y cs IH]; cbn [map flat_map find filter]; intros ND F; [discriminate|].
  inversion ND; subst. destruct (cid_eqb (sc_id y) k) eqn:E; cbn [negb].
  - inversion F; subst.
    assert (R: filter (fun c0 => negb (cid_eqb (sc_id c0) k)) cs = cs).
    { apply cid_eqb_eq in E. clear - E H1. induction cs as [|z l IH]; cbn; [reflexivity|].
      destruct (cid_eqb (sc_id z) k) eqn:F.
      - apply cid_eqb_eq in F. exfalso. apply H1. left. congruence.
      - cbn. f_equal. apply IH. intros Hin. apply H1. now right. }
    rewrite R. cnt_simp. lia.
  - cbn [flat_map]. cnt_simp. specialize (IH H2 F). lia.
Qed.

(* owned + arrived + duplicates made = owned' + handed to the application + freed *)
Theorem sub_conservation_step_law fixed s o s' outs :
  SInv s -> sub_step fixed s o = (s', outs) ->
  forall x, cnt x (owned s ++ arrived o ++ dups s o) = cnt x (owned s' ++ delivered outs ++ freed outs).
Proof.
  intros (I1 & I2 & I3) H x. unfold owned.
  destruct o as [k a nb m|k a nb|a rv|p peer|p|p rv|p rv m|k op|k|k| |now]; cbn [sub_step arrived dups] in *;
    try (inversion H; subst; cbn [delivered freed]; cnt_simp; lia).
  - destruct (find_ctx k (sb_ctxs s)) as [c|] eqn:F.
    2:{ inversion H; subst. cbn [delivered freed]. cnt_simp. lia. }
    destruct (sc_lmq c) as [|m rest] eqn:Q.
    + destruct nb; inversion H; subst; simp_s; cbn [delivered freed]; cnt_simp; [lia|].
      pose proof (owned_upd k (fun c => set_rq c (sc_rq c ++ [a])) _ c x I2 F) as P. simp_c. lia.
    + inversion H; subst; clear H; simp_s. cbn [delivered freed]. change (E_OK =? 0)%N with true. cbn iota.
      pose proof (owned_upd k (fun c => set_lmq c rest) _ c x I2 F) as P. simp_c. rewrite Q in P. cnt_simp. lia.
  - destruct (existsb _ _); inversion H; subst; simp_s; cbn [delivered freed]; cnt_simp; [|lia].
    rewrite (owned_map_rq (fun c => remove_id a (sc_rq c))). lia.
  - destruct (negb _); inversion H; subst; cbn [delivered freed]; cnt_simp; lia.
  - destruct (N.eqb_spec rv 0) as [->|Hrv]; cbn [negb] in H.
    2:{ inversion H; subst. cbn [delivered freed]. cnt_simp. lia. }
    inversion H; subst; clear H. simp_s.
    rewrite !delivered_app, !freed_app, delivered_map_Free, freed_map_Free. cbn [delivered freed app].
    pose proof (arrive_sum (sb_ctxs s) m x) as P. pose proof (naccept_le (sb_ctxs s) m) as LE.
    assert (FD: forall l, freed (flat_map (fun c => ctx_compl c m) l) = []).
    { induction l as [|c l IH]; cbn; [reflexivity|]. rewrite freed_app, IH. unfold ctx_compl.
      destruct (ctx_accepts c m); [destruct (sc_rq c)|]; reflexivity. }
    rewrite FD.
    destruct (1 <? length (sb_ctxs s)) eqn:L1; cbn [orb].
    + cbn [delivered freed]. cnt_simp. rewrite cnt_repeat. cnt_simp. lia.
    + apply Nat.ltb_ge in L1. destruct (naccept (sb_ctxs s) m =? 0) eqn:L2.
      * apply Nat.eqb_eq in L2. rewrite L2 in P. cbn [delivered freed]. cnt_simp. lia.
      * apply Nat.eqb_neq in L2. assert (naccept (sb_ctxs s) m = 1) by lia. rewrite H in P.
        cbn [delivered freed]. cnt_simp. lia.
  - destruct (find_ctx k (sb_ctxs s)) as [c|] eqn:F.
    2:{ inversion H; subst. cbn [delivered freed]. cnt_simp. lia. }
    destruct op; try (inversion H; subst; cbn [delivered freed]; cnt_simp; lia).
    + destruct k; [|destruct (_ <? _)%N]; inversion H; subst; cbn [delivered freed]; cnt_simp; lia.
    + destruct (_ || _); inversion H; subst; simp_s; [cbn [delivered freed]; cnt_simp; lia|].
      rewrite delivered_app, freed_app, delivered_map_Free, freed_map_Free. cbn [delivered freed].
      pose proof (owned_upd k (fun c => mkSctx (sc_id c) (sc_topics c) (firstn n (sc_lmq c)) n (sc_rq c) (sc_prefnew c)) _ c x I2 F) as P.
      simp_c. rewrite <- (firstn_skipn n (sc_lmq c)) in P at 1. cnt_simp. lia.
    + inversion H; subst; simp_s. cbn [delivered freed].
      pose proof (owned_upd k (fun c => mkSctx (sc_id c) (sc_topics c) (sc_lmq c) (sc_cap c) (sc_rq c) b) _ c x I2 F) as P.
      simp_c. cnt_simp. lia.
    + destruct (has_topic t (sc_topics c)); inversion H; subst; simp_s; cbn [delivered freed]; cnt_simp; [lia|].
      pose proof (owned_upd k (fun c => set_topics c (sc_topics c ++ [t])) _ c x I2 F) as P. simp_c. lia.
    + destruct (negb (has_topic t (sc_topics c))); inversion H; subst; simp_s; [cbn [delivered freed]; cnt_simp; lia|].
      rewrite delivered_app, freed_app, delivered_map_Free, freed_map_Free. cbn [delivered freed].
      set (ts := remove_topic t (sc_topics c)) in *.
      pose proof (owned_upd k (fun c0 => set_lmq (set_topics c0 ts) (filter (fun m => sub0_matches ts (pm_body m)) (sc_lmq c))) _ c x I2 F) as P.
      simp_c. pose proof (cnt_filter_split x (fun m => sub0_matches ts (pm_body m)) (sc_lmq c)) as S. cnt_simp. lia.
  - inversion H; subst; simp_s. rewrite flat_map_app. cbn [flat_map sc_lmq delivered freed]. cnt_simp. lia.
  - destruct (find_ctx (Some k) (sb_ctxs s)) as [c|] eqn:F; inversion H; subst; simp_s; [|cbn [delivered freed]; cnt_simp; lia].
    rewrite delivered_app, freed_app, delivered_fail, freed_fail, delivered_map_Free, freed_map_Free.
    pose proof (owned_remove (Some k) _ c x I2 F) as P. cnt_simp. lia.
  - destruct (find_ctx None (sb_ctxs s)) as [c|] eqn:F; inversion H; subst; simp_s; [|cbn [delivered freed]; cnt_simp; lia].
    rewrite delivered_app, freed_app, delivered_fail, freed_fail, delivered_map_Free, freed_map_Free.
    pose proof (owned_upd None (fun c => set_lmq (set_rq c []) []) _ c x I2 F) as P. simp_c. cnt_simp. lia.
Qed.

Fixpoint tr_in (tr : list (pop * sub * list pout)) : list pmsg :=
  match tr with [] => [] | (o, s, outs) :: r => arrived o ++ dups s o ++ tr_in r end.
Fixpoint tr_outm (tr : list (pop * sub * list pout)) : list pmsg :=
  match tr with [] => [] | (o, s, outs) :: r => delivered outs ++ freed outs ++ tr_outm r end.

Theorem sub_conservation_run fixed ops : forall s, SInv s -> sub_ops_ok fixed s ops ->
  let (s', tr) := sub_run fixed s ops in
  forall x, cnt x (owned s ++ tr_in tr) = cnt x (owned s' ++ tr_outm tr).
Proof.
  induction ops as [|o r IH]; intros s HI Hok; cbn [sub_run].
  - intros x. cbn. reflexivity.
  - cbn [sub_ops_ok] in Hok. destruct Hok as [Ho Hr]. destruct (sub_step fixed s o) as [s1 outs] eqn:S. cbn [fst] in Hr.
    pose proof (sub_step_inv _ _ _ _ _ HI Ho S) as HI1. pose proof (sub_conservation_step_law _ _ _ _ _ HI S) as L.
    specialize (IH s1 HI1 Hr). destruct (sub_run fixed s1 r) as [s2 tr]. intros x. cbn [tr_in tr_outm].
    specialize (L x). specialize (IH x). cnt_simp. lia.
Qed.
