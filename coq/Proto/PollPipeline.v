(* PollPipeline: the C15 instances for PUSH and PULL (pipeline0/push.c, pull.c;
   the raw variants are the same code).  Everything holds at full strength.
   PUSH is the pack M_push_r fr over PushModel.push_step_r fr -- fr = the source has the repaired
   push0_set_send_buf_len (blocked senders move into a resized buffer; Gen/Consts.v
   C06_PUSH_RESIZE_ADMITS_FIXED) -- and every statement holds for either text; M_push is the pack
   for the source as it is. *)
From Coq Require Import List Arith NArith Bool Lia.
From NngV Require Import Gen.Consts Proto.Common Proto.PushModel Proto.PullModel Proto.PushProofs Proto.PullProofs
  Proto.PollModel Proto.PollProofs.
From NngV Require Proto.PushGuard Proto.PushSubmit.
Import ListNotations.

Ltac errs := unfold E_OK, E_AGAIN, E_NOTSUP, E_STATE, E_CLOSED, E_PROTO, E_NOMEM, E_CONNRESET, E_CANCELED, E_TIMEDOUT in *.
Ltac unM M := unfold M in *; cbn [pm_step pm_ok pm_inv pm_busy pm_cls pm_poll pm_st pm_init] in *.

(* ================================================================== PUSH *)
Definition push_ok (s : push) (o : pop) : Prop :=
  PushProofs.op_ok s o /\ match o with PRecv _ a _ => ~ In a (map fst (ps_aq s)) | _ => True end.
Definition M_push_r (fr : bool) : pmodel :=
  mkPM push push_init (push_step_r fr) push_poll push_ok (fun s => PInv s /\ WInv s) (fun s => map fst (ps_aq s)) (fun _ => true).
Definition M_push : pmodel := M_push_r C06_PUSH_RESIZE_ADMITS_FIXED.

Lemma push_inv_init {fr} : pm_inv (M_push_r fr) (pm_init (M_push_r fr)).
Proof. exact push_init_inv. Qed.
Lemma push_inv_step {fr} s o : pm_inv (M_push_r fr) s -> pm_ok (M_push_r fr) s o -> o <> PSockClose -> pm_inv (M_push_r fr) (fst (pm_step (M_push_r fr) s o)).
Proof.
  unM M_push_r. intros [HI HW] [Hok _] _. destruct (push_step_r fr s o) as [s' outs] eqn:E. cbn [fst].
  split; [exact (proj1 (PushSubmit.push_step_r_law _ _ _ _ _ HI Hok E))|exact (PushSubmit.push_r_writable_mirror _ _ _ _ _ HI HW E)].
Qed.
Theorem push_c15_inv {fr} : C15_inv (M_push_r fr).
Proof. apply reachable_inv; [exact push_inv_init|exact push_inv_step]. Qed.

Lemma push_nb_send_immediate {fr} s : pm_inv (M_push_r fr) s -> nb_send_immediate_at (M_push_r fr) s.
Proof.
  intros [HI HW] c a m s' outs [Hok _] H. cbn in Hok, H |- *. cbn [push_step_r push_step] in H.
  destruct (ps_pl s) as [|p rest] eqn:PL.
  - destruct (wq_full s) eqn:F; cbn [negb] in H; cbv iota in H; inversion H; subst; clear H.
    + exists E_AGAIN. rewrite compl_of_self. repeat split; auto.
    + exists E_OK. rewrite compl_of_self. repeat split; auto. intros X. now elim X.
  - inversion H; subst; clear H. exists E_OK. rewrite compl_of_cons, compl_of_self. cbn.
    repeat split; auto. intros X. now elim X.
Qed.
Lemma push_nb_recv_immediate {fr} s : pm_inv (M_push_r fr) s -> nb_recv_immediate_at (M_push_r fr) s.
Proof.
  intros _ c a s' outs [_ Hok] H. cbn in H, Hok |- *. inversion H; subst; clear H.
  exists E_NOTSUP, None. rewrite compl_of_self. repeat split; auto; [intros X; now elim X|discriminate].
Qed.
Lemma push_nb_send_possible {fr} s : pm_inv (M_push_r fr) s -> nb_send_possible_at (M_push_r fr) s.
Proof.
  intros _ c a m _ H. unM M_push_r. cbn [push_step_r push_step] in *.
  destruct (ps_pl s) as [|p rest]; [|reflexivity].
  destruct (wq_full s); cbn [negb] in *; cbv iota in *; [|reflexivity]. cbn [snd] in H. discriminate.
Qed.
Lemma push_nb_recv_possible {fr} s : pm_inv (M_push_r fr) s -> nb_recv_possible_at (M_push_r fr) s.
Proof. intros _ c a _ _. reflexivity. Qed.
Lemma push_nb_send_strict {fr} s : pm_inv (M_push_r fr) s -> nb_send_eagain_queues_at (M_push_r fr) s.
Proof.
  intros _ c a m [Hok _] H. unM M_push_r. cbn [push_step_r push_step] in *.
  destruct (ps_pl s) as [|p rest].
  - destruct (wq_full s); cbn [negb] in *.
    + cbn [fst snd ps_aq]. split.
      * reflexivity.
      * rewrite map_app. apply in_or_app. right. now left.
    + cbn [fst snd] in H. rewrite result_of_single in H. discriminate.
  - cbn [fst snd] in H. rewrite result_of_self in H. discriminate.
Qed.
Lemma push_nb_recv_strict {fr} s : pm_inv (M_push_r fr) s -> nb_recv_eagain_queues_at (M_push_r fr) s.
Proof. intros _ c a _ H. unM M_push_r. cbn [push_step_r push_step snd] in H. rewrite result_of_single in H. discriminate. Qed.

(* the send descriptor: raised <-> a send would be accepted; there is no receive descriptor *)
Ltac mir_push HW := unM M_push_r; unfold rv_send; unM M_push_r; cbn [push_poll poll_w poll_r push_step_r push_step];
  unfold WInv, can_accept in HW; rewrite HW.
Lemma push_mirror_w_exact {fr} s : pm_inv (M_push_r fr) s -> mirror_w_exact_at (M_push_r fr) s.
Proof.
  intros [HI HW] a m _ _. mir_push HW.
  destruct (ps_pl s) as [|p rest]; cbn [negb orb].
  - destruct (wq_full s); cbn [negb fst snd]; rewrite result_of_single; errs; split; intros X; congruence.
  - cbn [fst snd]. rewrite result_of_self. split; auto.
Qed.
Lemma push_mirror_w_iff {fr} s : pm_inv (M_push_r fr) s -> mirror_w_iff_at (M_push_r fr) s.
Proof.
  intros [HI HW] a m _ _. mir_push HW.
  destruct (ps_pl s) as [|p rest]; cbn [negb orb].
  - destruct (wq_full s); cbn [negb fst snd]; rewrite result_of_single; errs; split; intros X; try congruence; try discriminate.
  - cbn [fst snd]. rewrite result_of_self. split; auto. discriminate.
Qed.
Lemma push_mirror_r_all {fr} s : mirror_r_at (M_push_r fr) s /\ mirror_r_exact_at (M_push_r fr) s /\ mirror_r_iff_at (M_push_r fr) s.
Proof. repeat split; intros a _; unM M_push_r; unfold rv_recv; unM M_push_r; cbn [push_poll poll_r push_step_r push_step snd]; apply result_of_single. Qed.

Theorem push_c15_nb_immediate {fr} : C15_nb_immediate (M_push_r fr).
Proof. exact (lift_at2 _ push_inv_init push_inv_step _ _ push_nb_send_immediate push_nb_recv_immediate). Qed.
Theorem push_c15_nb_possible {fr} : C15_nb_possible (M_push_r fr).
Proof. exact (lift_at2 _ push_inv_init push_inv_step _ _ push_nb_send_possible push_nb_recv_possible). Qed.
Theorem push_c15_nb_strict {fr} : C15_nb_strict (M_push_r fr).
Proof. exact (lift_at2 _ push_inv_init push_inv_step _ _ push_nb_send_strict push_nb_recv_strict). Qed.
Theorem push_c15_mirror_exact {fr} : C15_mirror_exact (M_push_r fr).
Proof. exact (lift_at2 _ push_inv_init push_inv_step _ _ (fun s _ => proj1 (proj2 (push_mirror_r_all s))) push_mirror_w_exact). Qed.
Theorem push_c15_mirror_iff {fr} : C15_mirror_iff (M_push_r fr).
Proof. exact (lift_at2 _ push_inv_init push_inv_step _ _ (fun s _ => proj2 (proj2 (push_mirror_r_all s))) push_mirror_w_iff). Qed.
Theorem push_c15_mirror {fr} : C15_mirror (M_push_r fr).
Proof.
  intros s R. destruct (push_c15_mirror_exact s R) as [A B].
  split; [now apply mirror_r_exact_weaken|now apply mirror_w_exact_weaken].
Qed.

(* ================================================================== PULL *)
Definition pull_ok (s : pull) (o : pop) : Prop :=
  match o with
  | PRecv _ a _ => ~ In a (pl_rq s)
  | PSend _ a _ _ => ~ In a (pl_rq s)
  | _ => True
  end.
Definition M_pull : pmodel :=
  mkPM pull pull_init pull_step pull_poll pull_ok LInvP (fun s => pl_rq s) (fun _ => true).

Lemma pull_inv_init : pm_inv M_pull (pm_init M_pull).
Proof. exact pull_init_inv. Qed.
Lemma pull_inv_step s o : pm_inv M_pull s -> pm_ok M_pull s o -> o <> PSockClose -> pm_inv M_pull (fst (pm_step M_pull s o)).
Proof.
  cbn. intros HI _ _. destruct (pull_step s o) as [s' outs] eqn:E. cbn [fst].
  exact (proj1 (pull_step_law _ _ _ _ HI E)).
Qed.
Theorem pull_c15_inv : C15_inv M_pull.
Proof. apply reachable_inv; [exact pull_inv_init|exact pull_inv_step]. Qed.

Lemma pull_nb_send_immediate s : pm_inv M_pull s -> nb_send_immediate_at M_pull s.
Proof.
  intros _ c a m s' outs Hok H. cbn in H, Hok |- *. inversion H; subst; clear H.
  exists E_NOTSUP. rewrite compl_of_self. repeat split; auto.
Qed.
Lemma pull_nb_recv_immediate s : pm_inv M_pull s -> nb_recv_immediate_at M_pull s.
Proof.
  intros _ c a s' outs Hok H. cbn in H, Hok |- *. cbn [pull_step] in H.
  destruct (pl_pl s) as [|[p m] rest].
  - inversion H; subst; clear H. exists E_AGAIN, None. rewrite compl_of_self.
    repeat split; auto; [intros X; now elim X|discriminate].
  - inversion H; subst; clear H. exists E_OK, (Some m). rewrite compl_of_cons, compl_of_self. cbn.
    repeat split; auto; discriminate.
Qed.
Lemma pull_nb_possible s : pm_inv M_pull s -> nb_send_possible_at M_pull s /\ nb_recv_possible_at M_pull s.
Proof.
  intros _. split.
  - intros c a m _ _. reflexivity.
  - intros c a _ H. unM M_pull. cbn [pull_step] in *. destruct (pl_pl s) as [|[p m] rest]; [|reflexivity].
    cbn [snd] in H. discriminate.
Qed.
Lemma pull_nb_strict s : pm_inv M_pull s -> nb_send_eagain_queues_at M_pull s /\ nb_recv_eagain_queues_at M_pull s.
Proof.
  intros _. split.
  - intros c a m _ H. unM M_pull. cbn [pull_step snd] in H. rewrite result_of_single in H. discriminate.
  - intros c a _ H. unM M_pull. cbn [pull_step] in *. destruct (pl_pl s) as [|[p m] rest].
    + cbn [fst snd pl_rq]. split; [reflexivity|]. apply in_or_app. right. now left.
    + cbn [fst snd] in H. rewrite result_of_self in H. discriminate.
Qed.
Lemma pull_mirror_r_exact s : pm_inv M_pull s -> mirror_r_exact_at M_pull s.
Proof.
  intros [_ HR] a _. unM M_pull. unfold rv_recv. unM M_pull. cbn [pull_poll poll_r pull_step]. rewrite HR.
  destruct (pl_pl s) as [|[p m] rest]; cbn [negb fst snd].
  - rewrite result_of_single. errs. split; intros X; congruence.
  - rewrite result_of_self. split; auto.
Qed.
Lemma pull_mirror_r_iff s : pm_inv M_pull s -> mirror_r_iff_at M_pull s.
Proof.
  intros [_ HR] a _. unM M_pull. unfold rv_recv. unM M_pull. cbn [pull_poll poll_r pull_step]. rewrite HR.
  destruct (pl_pl s) as [|[p m] rest]; cbn [negb fst snd].
  - rewrite result_of_single. errs. split; intros X; [discriminate|now elim X].
  - rewrite result_of_self. split; auto. discriminate.
Qed.
Lemma pull_mirror_w_all s : mirror_w_at M_pull s /\ mirror_w_exact_at M_pull s /\ mirror_w_iff_at M_pull s.
Proof. repeat split; intros a m _ _; unM M_pull; unfold rv_send; unM M_pull; cbn [pull_poll poll_w pull_step snd]; apply result_of_single. Qed.

Theorem pull_c15_nb_immediate : C15_nb_immediate M_pull.
Proof. exact (lift_at2 _ pull_inv_init pull_inv_step _ _ pull_nb_send_immediate pull_nb_recv_immediate). Qed.
Theorem pull_c15_nb_possible : C15_nb_possible M_pull.
Proof. intros s R. apply pull_nb_possible. now apply pull_c15_inv. Qed.
Theorem pull_c15_nb_strict : C15_nb_strict M_pull.
Proof. intros s R. apply pull_nb_strict. now apply pull_c15_inv. Qed.
Theorem pull_c15_mirror_exact : C15_mirror_exact M_pull.
Proof. intros s R. split; [apply pull_mirror_r_exact; now apply pull_c15_inv|apply pull_mirror_w_all]. Qed.
Theorem pull_c15_mirror_iff : C15_mirror_iff M_pull.
Proof. intros s R. split; [apply pull_mirror_r_iff; now apply pull_c15_inv|apply pull_mirror_w_all]. Qed.
Theorem pull_c15_mirror : C15_mirror M_pull.
Proof.
  intros s R. destruct (pull_c15_mirror_exact s R) as [A B].
  split; [now apply mirror_r_exact_weaken|now apply mirror_w_exact_weaken].
Qed.

(* non-vacuity: a reachable PUSH state with the descriptor raised, one with it lowered; same for PULL *)
Example push_reachable_raised : exists s, reachable M_push s /\ poll_w (pm_poll M_push s) = Some true.
Proof.
  exists (fst (push_step push_init (PPipeStart 1%N PROTO_PULL))). split; [|reflexivity].
  apply (reachable_step M_push push_init (PPipeStart 1%N PROTO_PULL)); [apply reachable_init| |discriminate]. cbn. repeat split; auto.
Qed.
Example push_reachable_lowered : reachable M_push push_init /\ poll_w (pm_poll M_push push_init) = Some false.
Proof. split; [apply reachable_init|reflexivity]. Qed.
Example pull_reachable_raised : exists s, reachable M_pull s /\ poll_r (pm_poll M_pull s) = Some true.
Proof.
  exists (fst (pull_step (fst (pull_step pull_init (PPipeStart 1%N PROTO_PUSH))) (PRecvDone 1%N 0%N (mkPmsg [] [1%N])))).
  split; [|reflexivity].
  apply (reachable_step M_pull); [|exact I|discriminate].
  apply (reachable_step M_pull); [apply reachable_init|exact I|discriminate].
Qed.
