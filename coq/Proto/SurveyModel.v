(* SurveyModel: src/sp/protocol/survey0/survey.c (cooked SURVEYOR).  Definitions only.
   One step = one critical section of surv0_sock.mtx (an entry point or a callback).

   The id map `surveys` is used at the level of its specification (Properties_C18):
   it is kept in step with ctx->survey_id by every statement that touches either,
   so the model derives it from the contexts (find_owner).  recv_lmq and the
   per-pipe send_queue are bounded FIFOs.  The surveyor has no timer of its own:
   the deadline acts through the expiry of the user's receive aio, which
   surv0_ctx_recv clamps to ctx->expire; PTick is the expire thread running the
   aio's cancel function (surv0_ctx_cancel with NNG_ETIMEDOUT) for the receives whose
   expiry was clamped to the survey deadline.  A receive whose own (finite, shorter)
   timeout ends first gets the same cancel function with NNG_ETIMEDOUT from the link
   layer as PCancel a 5 (ocaml/proto_link.ml, `aiotmo`): it retires the survey as any
   cancel does.

   nbfix = the repair of surv0_ctx_recv's clamp test (`timeout < 1` -> `timeout < 0`):
   false models the pinned source, where a NONBLOCK receive (timeout 0) is
   given the survey deadline as expiry and therefore waits like a blocking one. *)
From Coq Require Import List Arith NArith Bool ZArith.
From NngV Require Import Proto.Common Proto.SurveyBacktrace.
Import ListNotations.

Definition PROTO_SURVEYOR : N := 98.  Definition PROTO_RESPONDENT : N := 99.
Definition SURV_RECV_BUF : nat := 128.        (* surv0_ctx_init: len = 128 *)
Definition SURV_SEND_BUF : nat := 8.          (* surv0_sock_init: send_buf = 8 (per-pipe queue depth) *)
Definition SURV_TIME_DEFAULT : Z := 1000.     (* NNI_SECOND *)
Definition ID_LO : N := 2147483648.           (* 0x80000000 *)
Definition ID_HI : N := 4294967295.           (* 0xffffffff *)
Definition BUF_OPT_MAX : N := 8192.           (* socket.c sock_set_sendbuf/recvbuf range 0..8192 *)

(* ---- keyed lists (contexts, pipes) ---- *)
Fixpoint kget {A} (k : N) (l : list (N * A)) : option A :=
  match l with [] => None | (k', v) :: r => if N.eqb k' k then Some v else kget k r end.
Fixpoint kset {A} (k : N) (v : A) (l : list (N * A)) : list (N * A) :=   (* replace in place, else append *)
  match l with
  | [] => [(k, v)]
  | (k', v') :: r => if N.eqb k' k then (k, v) :: r else (k', v') :: kset k v r
  end.
Definition kdel {A} (k : N) (l : list (N * A)) : list (N * A) := filter (fun x => negb (N.eqb (fst x) k)) l.

(* key of a context: 0 = the socket's own context (nng_send / nng_recv), nng_ctx c -> c + 1 *)
Definition ckey (c : option ctxid) : N := match c with None => 0 | Some k => k + 1 end.

Record sctx := mkSctx {
  sc_survey : N;             (* ctx->survey_id, 0 = none *)
  sc_lmq : list pmsg;        (* recv_lmq *)
  sc_rq : list aioid;        (* recv_queue *)
  sc_stime : Z;              (* survey_time (ms; -1 = "infinite") *)
  sc_expire : Z }.           (* ctx->expire (absolute, ms) *)

Record spipe := mkSpipe {
  sp_q : list pmsg;          (* send_queue *)
  sp_busy : bool;
  sp_held : list pmsg;       (* the message attached to aio_send (at most one) *)
  sp_closed : bool }.        (* pipe_close has run: no longer on s->pipes *)

Record surv := mkSurv {
  sv_ctxs : list (N * sctx);
  sv_pipes : list (pid * spipe);   (* every started pipe, in start order; the open ones are s->pipes *)
  sv_cur : N;                      (* id_dyn_val: the next id to try *)
  sv_now : N;                      (* the clock, as last reported *)
  sv_ttl : nat;
  sv_readable : bool }.

Definition ctx_init (stime : Z) : sctx := mkSctx 0 [] [] stime 0.
Definition surv_init : surv :=
  mkSurv [(0%N, ctx_init SURV_TIME_DEFAULT)] [] (ID_LO + 1) 0 TTL_DEFAULT false.

Definition set_ctxs (s : surv) (c : list (N * sctx)) : surv :=
  mkSurv c (sv_pipes s) (sv_cur s) (sv_now s) (sv_ttl s) (sv_readable s).
Definition set_pipes (s : surv) (p : list (pid * spipe)) : surv :=
  mkSurv (sv_ctxs s) p (sv_cur s) (sv_now s) (sv_ttl s) (sv_readable s).
Definition set_readable (s : surv) (b : bool) : surv :=
  mkSurv (sv_ctxs s) (sv_pipes s) (sv_cur s) (sv_now s) (sv_ttl s) b.
Definition set_cur (s : surv) (c : N) : surv :=
  mkSurv (sv_ctxs s) (sv_pipes s) c (sv_now s) (sv_ttl s) (sv_readable s).

(* ---- the id generator: nni_id_alloc over [ID_LO, ID_HI] ---- *)
Definition id_succ (x : N) : N := if (ID_HI <? x + 1)%N then ID_LO else (x + 1)%N.
Definition live_ids (l : list (N * sctx)) : list N :=
  filter (fun x => negb (N.eqb x 0)) (map (fun x => sc_survey (snd x)) l).
Fixpoint id_alloc (fuel : nat) (live : list N) (cur : N) : option (N * N) :=   (* id, next cursor *)
  match fuel with
  | O => None
  | S f => if has_id cur live then id_alloc f live (id_succ cur) else Some (cur, id_succ cur)
  end.

(* nni_id_get(&sock->surveys, id) *)
Definition find_owner (id : N) (l : list (N * sctx)) : option (N * sctx) :=
  if N.eqb id 0 then None else find (fun x => N.eqb (sc_survey (snd x)) id) l.

(* surv0_ctx_abort *)
Definition ctx_abort (c : sctx) (err : N) : sctx * list pout :=
  (mkSctx 0 [] [] (sc_stime c) (sc_expire c), fail_aios err (sc_rq c) ++ map Free (sc_lmq c)).

(* the NNI_LIST_FOREACH of surv0_ctx_send *)
Fixpoint fanout (m : pmsg) (l : list (pid * spipe)) : list (pid * spipe) * list pout :=
  match l with
  | [] => ([], [])
  | (p, x) :: r =>
      let (r', o) := fanout m r in
      if sp_closed x then ((p, x) :: r', o)
      else if negb (sp_busy x) then ((p, mkSpipe (sp_q x) true [m] false) :: r', TranSend p m :: o)
      else if length (sp_q x) <? SURV_SEND_BUF then ((p, mkSpipe (sp_q x ++ [m]) true (sp_held x) false) :: r', o)
      else ((p, x) :: r', o)
  end.

(* the expire thread: every queued receive whose (clamped) expiry has passed is cancelled with ETIMEDOUT *)
Fixpoint expire_ctxs (now : N) (l : list (N * sctx)) : list (N * sctx) * list pout :=
  match l with
  | [] => ([], [])
  | (k, c) :: r =>
      let (r', o) := expire_ctxs now r in
      match sc_rq c with
      | [] => ((k, c) :: r', o)
      | _ => if (sc_expire c <? Z.of_N now)%Z
             then ((k, mkSctx 0 (sc_lmq c) [] (sc_stime c) (sc_expire c)) :: r', fail_aios E_TIMEDOUT (sc_rq c) ++ o)
             else ((k, c) :: r', o)
      end
  end.

(* surv0_ctx_cancel *)
Fixpoint cancel_ctxs (a : aioid) (rv : N) (l : list (N * sctx)) : list (N * sctx) * list pout :=
  match l with
  | [] => ([], [])
  | (k, c) :: r =>
      if has_id a (sc_rq c)
      then ((k, mkSctx 0 (sc_lmq c) (remove_id a (sc_rq c)) (sc_stime c) (sc_expire c)) :: r, [Complete a rv None])
      else let (r', o) := cancel_ctxs a rv r in ((k, c) :: r', o)
  end.

Definition isnil {A} (l : list A) : bool := match l with [] => true | _ => false end.

Definition surv_step (nbfix : bool) (s : surv) (o : pop) : surv * list pout :=
  match o with
  | PPipeStart p peer =>
      if negb (N.eqb peer PROTO_RESPONDENT) then (s, [Reject E_PROTO])
      else (set_pipes s (sv_pipes s ++ [(p, mkSpipe [] false [] false)]), [TranRecv p])
  | PPipeClose p =>
      match kget p (sv_pipes s) with
      | None => (s, [])
      | Some x => (set_pipes s (kset p (mkSpipe [] (sp_busy x) (sp_held x) true) (sv_pipes s)), map Free (sp_q x))
      end
  | PSendDone p rv =>
      match kget p (sv_pipes s) with
      | None => (s, [])
      | Some x =>
          if negb (N.eqb rv 0) then
            (set_pipes s (kset p (mkSpipe (sp_q x) (sp_busy x) [] (sp_closed x)) (sv_pipes s)),
             map Free (sp_held x) ++ [ClosePipe p])
          else if sp_closed x then
            (set_pipes s (kset p (mkSpipe (sp_q x) (sp_busy x) [] true) (sv_pipes s)), [])
          else match sp_q x with
               | m :: r => (set_pipes s (kset p (mkSpipe r true [m] false) (sv_pipes s)), [TranSend p m])
               | [] => (set_pipes s (kset p (mkSpipe [] false [] false) (sv_pipes s)), [])
               end
      end
  | PRecvDone p rv m =>
      if negb (N.eqb rv 0) then (s, [ClosePipe p]) else
      match surv_recv (pm_body m) with
      | None => (s, [Free m; ClosePipe p])
      | Some (id, hdr, rest) =>
          let msg := mkPmsg (pm_hdr m ++ hdr) rest in
          match find_owner id (sv_ctxs s) with
          | None => (s, [Free msg; TranRecv p])
          | Some (k, c) =>
              if SURV_RECV_BUF <=? length (sc_lmq c) then (s, [Free msg; TranRecv p])
              else match sc_rq c with
                   | a :: r =>
                       (set_ctxs s (kset k (mkSctx (sc_survey c) (sc_lmq c) r (sc_stime c) (sc_expire c)) (sv_ctxs s)),
                        [Complete a E_OK (Some msg); TranRecv p])
                   | [] =>
                       let s1 := set_ctxs s (kset k (mkSctx (sc_survey c) (sc_lmq c ++ [msg]) [] (sc_stime c) (sc_expire c)) (sv_ctxs s)) in
                       ((if N.eqb k 0 then set_readable s1 true else s1), [TranRecv p])
                   end
          end
      end
  | PSend c a nb m =>
      let k := ckey c in
      match kget k (sv_ctxs s) with
      | None => (s, [Complete a E_CLOSED None])
      | Some cx =>
          let (cx1, o1) := ctx_abort cx E_CANCELED in
          let ctxs1 := kset k cx1 (sv_ctxs s) in
          let rd := if N.eqb k 0 then false else sv_readable s in
          let live := live_ids ctxs1 in
          match id_alloc (S (length live)) live (sv_cur s) with
          | None => (set_readable (set_ctxs s ctxs1) rd, o1 ++ [Complete a E_NOMEM None])
          | Some (id, cur') =>
              let m' := mkPmsg (be32 id) (pm_body m) in
              let (pipes', tx) := fanout m' (sv_pipes s) in
              let cx2 := mkSctx id [] [] (sc_stime cx) (Z.of_N (sv_now s) + sc_stime cx) in
              (mkSurv (kset k cx2 ctxs1) pipes' cur' (sv_now s) (sv_ttl s) rd,
               o1 ++ tx ++ [Complete a E_OK None])
          end
      end
  | PRecv c a nb =>
      let k := ckey c in
      match kget k (sv_ctxs s) with
      | None => (s, [Complete a E_CLOSED None])
      | Some cx =>
          if N.eqb (sc_survey cx) 0 || (sc_expire cx <=? Z.of_N (sv_now s))%Z then (s, [Complete a E_STATE None])
          else match sc_lmq cx with
               | m :: r =>
                   let s1 := set_ctxs s (kset k (mkSctx (sc_survey cx) r (sc_rq cx) (sc_stime cx) (sc_expire cx)) (sv_ctxs s)) in
                   ((if isnil r && N.eqb k 0 then set_readable s1 false else s1), [Complete a E_OK (Some m)])
               | [] =>
                   if nb && nbfix then (s, [Complete a E_AGAIN None])
                   else (set_ctxs s (kset k (mkSctx (sc_survey cx) [] (sc_rq cx ++ [a]) (sc_stime cx) (sc_expire cx)) (sv_ctxs s)),
                         [Arm (Z.to_N (sc_expire cx))])
               end
      end
  | PCancel a rv =>
      let (cs, o) := cancel_ctxs a rv (sv_ctxs s) in (set_ctxs s cs, o)
  | PTick now =>
      let (cs, o) := expire_ctxs now (sv_ctxs s) in
      (mkSurv cs (sv_pipes s) (sv_cur s) now (sv_ttl s) (sv_readable s), o)
  | PCtxOpen c =>
      let st := match kget 0%N (sv_ctxs s) with Some m => sc_stime m | None => SURV_TIME_DEFAULT end in
      (set_ctxs s (kset (ckey (Some c)) (ctx_init st) (sv_ctxs s)), [])
  | PCtxClose c =>
      match kget (ckey (Some c)) (sv_ctxs s) with
      | None => (s, [])
      | Some cx => let (_, o1) := ctx_abort cx E_CLOSED in (set_ctxs s (kdel (ckey (Some c)) (sv_ctxs s)), o1)
      end
  | PSockClose =>
      match kget 0%N (sv_ctxs s) with
      | None => (s, [])
      | Some cx => let (cx1, o1) := ctx_abort cx E_CLOSED in (set_readable (set_ctxs s (kset 0%N cx1 (sv_ctxs s))) false, o1)
      end
  | PSetOpt c (OSurveyTime ms) =>
      if (ms <? -1)%Z then (s, [OptRv E_INVAL]) else
      match kget (ckey c) (sv_ctxs s) with
      | None => (s, [OptRv E_CLOSED])
      | Some cx => (set_ctxs s (kset (ckey c) (mkSctx (sc_survey cx) (sc_lmq cx) (sc_rq cx) ms (sc_expire cx)) (sv_ctxs s)), [OptRv E_OK])
      end
  | PSetOpt None (OMaxTtl n) =>
      if (1 <=? n) && (n <=? TTL_MAX)
      then (mkSurv (sv_ctxs s) (sv_pipes s) (sv_cur s) (sv_now s) n (sv_readable s), [OptRv E_OK])
      else (s, [OptRv E_INVAL])
  | PSetOpt None (OSendBuf n) | PSetOpt None (ORecvBuf n) =>
      (* not protocol options: the socket core resizes its (unused) upper queues *)
      if (BUF_OPT_MAX <? N.of_nat n)%N then (s, [OptRv E_INVAL]) else (s, [OptRv E_OK])
  | PSetOpt _ _ => (s, [OptRv E_NOTSUP])
  end.

Definition surv_poll (s : surv) : ppoll := mkPoll (Some (sv_readable s)) (Some true).
