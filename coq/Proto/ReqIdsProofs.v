(* ReqIdsProofs: REQ (cooked) -- which request ids are registered (C04).

   ReqProofs shows that a reply is handed to a context only if the arriving id is
   *registered* for it.  This file shows what "registered" means in every state
   the model can reach: the id map holds exactly the id of the request a context
   holds NOW --
     requests[id] = k  ==>  ctx k exists, ctx k's request_id = id, and it holds a
                            request message whose header is that id.
   Hence a request that was abandoned -- cancelled, timed out, replaced by a new
   send, its receive cancelled, its context closed, refused as a non-blocking send
   -- whether or not it ever reached the wire, leaves no id behind (its context has
   request_id 0 / no request message, or is gone), and a later reply naming that id
   finds nothing.  Also: every message handed to a transport carries exactly one
   request id as its header (whatever header the application left on it), and the
   header an application leaves on a message does not influence the step at all.

   Environment contract (op_ok): a context number is not opened twice while it is
   open (the model keeps contexts in an association list). *)
From Coq Require Import List Arith NArith Bool ZArith Lia.
From NngV Require Import Proto.Common Proto.ReqRepBacktrace Proto.ReqModel Proto.ReqRepProofs Proto.ReqProofs.
Import ListNotations.

(* ------------------------------------------------------------------ *)
(* the invariant                                                         *)
Definition hdr_is_id (m : pmsg) : Prop := exists id, cursor_ok id /\ pm_hdr m = be32 id.

Record ids_inv (s : req) : Prop := mkIdsInv {
  inv_nodup : NoDup (map fst (rq_ctxs s));
  inv_cursor : cursor_ok (rq_cursor s);
  inv_ids : forall id k, lookup id (rq_ids s) = Some k ->
              exists c, ctx_get s k = Some c /\ cx_rid c = id /\ cx_req c <> None;
  inv_req : forall k c m, ctx_get s k = Some c -> cx_req c = Some m ->
              pm_hdr m = be32 (cx_rid c) /\ cursor_ok (cx_rid c) }.

Definition tx_ok (outs : list pout) : Prop := forall p x, In (TranSend p x) outs -> hdr_is_id x.

Lemma tx_ok_app a b : tx_ok a -> tx_ok b -> tx_ok (a ++ b).
Proof. intros Ha Hb p x Hin. apply in_app_or in Hin. destruct Hin; eauto. Qed.
Lemma tx_ok_nil : tx_ok [].
Proof. intros p x []. Qed.
Lemma tx_ok_cons o l : (forall p x, o <> TranSend p x) -> tx_ok l -> tx_ok (o :: l).
Proof. intros Ho Hl p x [E|Hin]; [exfalso; eapply Ho; eauto|eauto]. Qed.

Ltac notx :=
  repeat first
    [ apply tx_ok_nil
    | apply tx_ok_app
    | apply tx_ok_cons; [intros ? ? ?; discriminate|]
    | match goal with |- tx_ok (match ?x with _ => _ end) => destruct x end
    | match goal with |- tx_ok (if ?x then _ else _) => destruct x end ].

(* ------------------------------------------------------------------ *)
(* keyed lists                                                           *)
Lemma map_fst_assoc_set_present {A} k (v v0 : A) l :
  lookup k l = Some v0 -> map fst (assoc_set k v l) = map fst l.
Proof.
  induction l as [|[k' v'] l IH]; cbn; [discriminate|].
  destruct (N.eqb_spec k' k) as [->|Hne]; cbn; [reflexivity|]. intros H. now rewrite IH.
Qed.
Lemma lookup_none_map {A} k (l : list (N * A)) : lookup k l = None <-> ~ In k (map fst l).
Proof.
  induction l as [|[k' v'] l IH]; cbn; [tauto|].
  destruct (N.eqb_spec k' k) as [->|Hne]; split; intros H.
  - discriminate.
  - exfalso. apply H. now left.
  - intros [E|Hin]; [congruence|]. now apply IH in H.
  - apply IH. intros Hin. apply H. now right.
Qed.
Lemma map_fst_assoc_del {A} k (l : list (N * A)) : NoDup (map fst l) -> NoDup (map fst (assoc_del k l)).
Proof.
  unfold assoc_del. induction l as [|[k' v'] l IH]; cbn; [constructor|].
  intros H. inversion H; subst. destruct (negb (k' =? k)%N); cbn.
  - constructor; [|now apply IH]. intros Hin. apply H2.
    clear -Hin. induction l as [|[k2 v2] l IH]; cbn in *; [tauto|].
    destruct (negb (k2 =? k)%N); cbn in Hin; [destruct Hin; [now left|right; auto]|right; auto].
  - now apply IH.
Qed.
Lemma find_ctx_in f l k c : find_ctx f l = Some (k, c) -> In (k, c) l /\ f c = true.
Proof.
  induction l as [|[k' c'] l IH]; cbn; [discriminate|].
  destruct (f c') eqn:E.
  - intros H. inversion H; subst. split; [now left|exact E].
  - intros H. apply IH in H. destruct H. split; [now right|assumption].
Qed.
Lemma nodup_in_lookup {A} k (v : A) l : NoDup (map fst l) -> In (k, v) l -> lookup k l = Some v.
Proof.
  induction l as [|[k' v'] l IH]; cbn; [tauto|].
  intros H Hin. inversion H as [|? ? Hn Hd]; subst. destruct Hin as [E|Hin].
  - inversion E; subst. now rewrite N.eqb_refl.
  - destruct (N.eqb_spec k' k) as [->|Hne]; [|now apply IH].
    exfalso. apply Hn. change k with (fst (k, v)). now apply in_map.
Qed.

(* ------------------------------------------------------------------ *)
(* steps that leave (ids, cursor, context keys, request_id / req_msg of every context) alone *)
Definition ckeyf (c : rctx) : N * option pmsg := (cx_rid c, cx_req c).
Definition same_keys (s s' : req) : Prop :=
  rq_ids s' = rq_ids s /\ rq_cursor s' = rq_cursor s /\ map fst (rq_ctxs s') = map fst (rq_ctxs s) /\
  forall k, option_map ckeyf (ctx_get s' k) = option_map ckeyf (ctx_get s k).

Lemma same_keys_refl s : same_keys s s.
Proof. repeat split. Qed.
Lemma same_keys_trans s1 s2 s3 : same_keys s1 s2 -> same_keys s2 s3 -> same_keys s1 s3.
Proof.
  intros [A1 [B1 [C1 D1]]] [A2 [B2 [C2 D2]]].
  split; [congruence|]. split; [congruence|]. split; [congruence|]. intros k. now rewrite D2, D1.
Qed.
Lemma same_keys_ctx s s' k c' : same_keys s s' -> ctx_get s' k = Some c' ->
  exists c, ctx_get s k = Some c /\ cx_rid c = cx_rid c' /\ cx_req c = cx_req c'.
Proof.
  intros [_ [_ [_ D]]] H. specialize (D k). rewrite H in D. cbn in D.
  destruct (ctx_get s k) as [c|]; cbn in D; [|discriminate]. inversion D. eauto.
Qed.
Lemma same_keys_ctx_rev s s' k c : same_keys s s' -> ctx_get s k = Some c ->
  exists c', ctx_get s' k = Some c' /\ cx_rid c' = cx_rid c /\ cx_req c' = cx_req c.
Proof.
  intros [_ [_ [_ D]]] H. specialize (D k). rewrite H in D. cbn in D.
  destruct (ctx_get s' k) as [c'|]; cbn in D; [|discriminate]. inversion D. eauto.
Qed.
Lemma same_keys_inv s s' : same_keys s s' -> ids_inv s -> ids_inv s'.
Proof.
  intros SK [N C I R]. pose proof SK as [A [B [M D]]]. constructor.
  - now rewrite M.
  - now rewrite B.
  - intros id k H. rewrite A in H. destruct (I id k H) as [c [H1 [H2 H3]]].
    destruct (same_keys_ctx_rev _ _ _ _ SK H1) as [c' [G1 [G2 G3]]].
    exists c'. split; [exact G1|]. split; congruence.
  - intros k c' m H1 H2. destruct (same_keys_ctx _ _ _ _ SK H1) as [c [G1 [G2 G3]]].
    rewrite <- G2. apply (R k c m G1). congruence.
Qed.

Lemma same_keys_put s k c c' : ctx_get s k = Some c -> cx_rid c' = cx_rid c -> cx_req c' = cx_req c ->
  same_keys s (ctx_put s k c').
Proof.
  intros H E1 E2. split; [reflexivity|]. split; [reflexivity|]. split.
  - unfold ctx_put. cbn [rq_ctxs set_ctxs]. eapply map_fst_assoc_set_present. exact H.
  - intros k'. destruct (N.eq_dec k' k) as [->|Hne].
    + rewrite ctx_get_put_same, H. cbn. unfold ckeyf. now rewrite E1, E2.
    + now rewrite ctx_get_put_other.
Qed.

(* the field setters that do not touch contexts or ids *)
Ltac sk_field := split; [reflexivity|]; split; [reflexivity|]; split; [reflexivity|]; intros ?; reflexivity.
Lemma sk_sendq s v : same_keys s (set_sendq s v). Proof. sk_field. Qed.
Lemma sk_retryq s v : same_keys s (set_retryq s v). Proof. sk_field. Qed.
Lemma sk_plist s v : same_keys s (set_plist s v). Proof. sk_field. Qed.
Lemma sk_pipes s a b c : same_keys s (set_pipes s a b c). Proof. sk_field. Qed.
Lemma sk_writable s v : same_keys s (set_writable s v). Proof. sk_field. Qed.
Lemma sk_readable s v : same_keys s (set_readable s v). Proof. sk_field. Qed.
Lemma sk_sending s v : same_keys s (set_sending s v). Proof. sk_field. Qed.
Lemma sk_timer s a d : same_keys s (set_timer s a d). Proof. sk_field. Qed.
Lemma sk_now s v : same_keys s (set_now s v). Proof. sk_field. Qed.
Lemma sk_closed s v : same_keys s (set_closed s v). Proof. sk_field. Qed.
Lemma sk_retry s v : same_keys s (set_retry s v). Proof. sk_field. Qed.
Lemma sk_tick s v : same_keys s (set_tick s v). Proof. sk_field. Qed.
Lemma sk_ttl s v : same_keys s (set_ttl s v). Proof. sk_field. Qed.
Lemma sk_if (b : bool) s s1 s2 : same_keys s s1 -> same_keys s s2 -> same_keys s (if b then s1 else s2).
Proof. destruct b; auto. Qed.

Ltac sk_peel :=
  repeat first
   [ apply same_keys_refl
   | match goal with
     | |- same_keys ?s (set_sendq ?x _) => apply (same_keys_trans s x); [|apply sk_sendq]
     | |- same_keys ?s (set_retryq ?x _) => apply (same_keys_trans s x); [|apply sk_retryq]
     | |- same_keys ?s (set_plist ?x _) => apply (same_keys_trans s x); [|apply sk_plist]
     | |- same_keys ?s (set_pipes ?x _ _ _) => apply (same_keys_trans s x); [|apply sk_pipes]
     | |- same_keys ?s (set_writable ?x _) => apply (same_keys_trans s x); [|apply sk_writable]
     | |- same_keys ?s (set_readable ?x _) => apply (same_keys_trans s x); [|apply sk_readable]
     | |- same_keys ?s (set_sending ?x _) => apply (same_keys_trans s x); [|apply sk_sending]
     | |- same_keys ?s (set_timer ?x _ _) => apply (same_keys_trans s x); [|apply sk_timer]
     | |- same_keys ?s (set_now ?x _) => apply (same_keys_trans s x); [|apply sk_now]
     | |- same_keys ?s (set_closed ?x _) => apply (same_keys_trans s x); [|apply sk_closed]
     | |- same_keys ?s (set_retry ?x _) => apply (same_keys_trans s x); [|apply sk_retry]
     | |- same_keys ?s (set_tick ?x _) => apply (same_keys_trans s x); [|apply sk_tick]
     | |- same_keys ?s (set_ttl ?x _) => apply (same_keys_trans s x); [|apply sk_ttl]
     | |- same_keys _ (if ?b then _ else _) => destruct b
     end ].

(* ------------------------------------------------------------------ *)
(* req0_run_send_queue: no context's id or request changes; what it hands to a
   transport is the request message some context holds *)
Lemma run_sendq_spec fx f : forall s s' outs cl, run_sendq fx f s = (s', outs, cl) ->
  same_keys s s' /\
  ((forall k c m, ctx_get s k = Some c -> cx_req c = Some m -> hdr_is_id m) -> tx_ok outs).
Proof.
  induction f as [|f IH]; intros s s' outs cl H; cbn [run_sendq] in H.
  { inversion H; subst. split; [apply same_keys_refl|intros _; apply tx_ok_nil]. }
  destruct (rq_sendq s) as [|k sq] eqn:Esq.
  { inversion H; subst. split; [apply same_keys_refl|intros _; apply tx_ok_nil]. }
  destruct (rq_ready s) as [|p rd] eqn:Erd.
  { inversion H; subst. split; [apply same_keys_refl|intros _; apply tx_ok_nil]. }
  assert (Hskip : run_sendq fx f (set_sendq s sq) = (s', outs, cl) ->
                  same_keys s s' /\ ((forall k c m, ctx_get s k = Some c -> cx_req c = Some m -> hdr_is_id m) -> tx_ok outs)).
  { intros H'. apply IH in H'. destruct H' as [SK TX]. split.
    - eapply same_keys_trans; [apply sk_sendq|exact SK].
    - intros HR. apply TX. intros k0 c0 m0 G. apply (HR k0 c0 m0). exact G. }
  destruct (ctx_get s k) as [c|] eqn:Ec; [|auto].
  destruct (cx_req c) as [m|] eqn:Em; [|auto].
  clear Hskip. cbv zeta in H.
  match type of H with context [run_sendq fx f ?X] =>
    assert (SK6 : same_keys s X); [|destruct (run_sendq fx f X) as [[s7 o7] c7] eqn:E7] end.
  { match goal with |- same_keys s (set_sending (ctx_put ?x5 k ?c') ?v) =>
      apply (same_keys_trans s (ctx_put x5 k c')); [|apply sk_sending];
      apply (same_keys_trans s x5); [|apply (same_keys_put x5 k c c'); [|reflexivity|symmetry; exact Em]] end.
    - sk_peel.
    - destruct (retry_on fx c), (is_nil rd); exact Ec. }
  inversion H; subst. apply IH in E7. destruct E7 as [SK7 TX7]. split.
  - eapply same_keys_trans; eauto.
  - intros HR. apply tx_ok_app; [notx|].
    intros p0 x [E|Hin].
    + inversion E; subst. eapply HR; eauto.
    + revert p0 x Hin. apply TX7. intros k0 c0 m0 G1 G2.
      destruct (same_keys_ctx _ _ _ _ SK6 G1) as [c1 [G3 [G4 G5]]]. apply (HR k0 c1 m0 G3). congruence.
Qed.

Lemma run_send_queue_spec fx s s' outs cl : run_send_queue fx s = (s', outs, cl) ->
  same_keys s s' /\
  ((forall k c m, ctx_get s k = Some c -> cx_req c = Some m -> hdr_is_id m) -> tx_ok outs).
Proof. apply run_sendq_spec. Qed.

Lemma inv_hdr s : ids_inv s -> forall k c m, ctx_get s k = Some c -> cx_req c = Some m -> hdr_is_id m.
Proof. intros I k c m H1 H2. destruct (inv_req s I k c m H1 H2) as [A B]. exists (cx_rid c). auto. Qed.

Lemma run_send_queue_inv fx s s' outs cl : run_send_queue fx s = (s', outs, cl) -> ids_inv s -> ids_inv s' /\ tx_ok outs.
Proof.
  intros H I. apply run_send_queue_spec in H. destruct H as [SK TX]. split.
  - eapply same_keys_inv; eauto.
  - apply TX. now apply inv_hdr.
Qed.

(* ------------------------------------------------------------------ *)
(* the invariant for every context but k, with no id registered for k: the state
   between req0_ctx_reset and the moment context k is written back *)
Definition except (s : req) (k : N) : Prop :=
  NoDup (map fst (rq_ctxs s)) /\ cursor_ok (rq_cursor s) /\ (exists c, ctx_get s k = Some c) /\
  (forall id k', lookup id (rq_ids s) = Some k' ->
     k' <> k /\ exists c, ctx_get s k' = Some c /\ cx_rid c = id /\ cx_req c <> None) /\
  (forall k' c m, k' <> k -> ctx_get s k' = Some c -> cx_req c = Some m ->
     pm_hdr m = be32 (cx_rid c) /\ cursor_ok (cx_rid c)).

Lemma same_keys_except s s' k : same_keys s s' -> except s k -> except s' k.
Proof.
  intros SK [N [C [[c0 P] [I R]]]]. pose proof SK as [A [B [M D]]].
  split; [now rewrite M|]. split; [now rewrite B|]. split; [|split].
  - destruct (same_keys_ctx_rev _ _ _ _ SK P) as [c' [G _]]. eauto.
  - intros id k' H. rewrite A in H. destruct (I id k' H) as [Hne [c [H1 [H2 H3]]]]. split; [exact Hne|].
    destruct (same_keys_ctx_rev _ _ _ _ SK H1) as [c' [G1 [G2 G3]]].
    exists c'. split; [exact G1|]. split; congruence.
  - intros k' c m Hne H1 H2. destruct (same_keys_ctx _ _ _ _ SK H1) as [c1 [G1 [G2 G3]]].
    rewrite <- G2. apply (R k' c1 m Hne G1). congruence.
Qed.

Lemma cursor_ok_nonzero id : cursor_ok id -> id <> 0%N.
Proof. unfold cursor_ok, REQ_ID_MIN. lia. Qed.

(* writing context k back *)
Lemma put_inv_gen t k c3 :
  NoDup (map fst (rq_ctxs t)) -> cursor_ok (rq_cursor t) -> (exists c, ctx_get t k = Some c) ->
  (forall id k', lookup id (rq_ids t) = Some k' ->
     (k' <> k /\ exists c, ctx_get t k' = Some c /\ cx_rid c = id /\ cx_req c <> None) \/
     (k' = k /\ cx_rid c3 = id /\ cx_req c3 <> None)) ->
  (forall k' c m, k' <> k -> ctx_get t k' = Some c -> cx_req c = Some m ->
     pm_hdr m = be32 (cx_rid c) /\ cursor_ok (cx_rid c)) ->
  (forall m, cx_req c3 = Some m -> pm_hdr m = be32 (cx_rid c3) /\ cursor_ok (cx_rid c3)) ->
  ids_inv (ctx_put t k c3).
Proof.
  intros N C [c0 P] I R R3. constructor.
  - unfold ctx_put. cbn [rq_ctxs set_ctxs]. erewrite map_fst_assoc_set_present; eauto.
  - exact C.
  - intros id k' H. change (rq_ids (ctx_put t k c3)) with (rq_ids t) in H.
    destruct (I id k' H) as [[Hne [c [H1 [H2 H3]]]]|[-> [H2 H3]]].
    + exists c. rewrite ctx_get_put_other by exact Hne. auto.
    + exists c3. rewrite ctx_get_put_same. auto.
  - intros k' c m H1 H2. destruct (N.eq_dec k' k) as [->|Hne].
    + rewrite ctx_get_put_same in H1. inversion H1; subst. now apply R3.
    + rewrite ctx_get_put_other in H1 by exact Hne. eapply R; eauto.
Qed.

Lemma except_put t k c3 : except t k ->
  (forall m, cx_req c3 = Some m -> pm_hdr m = be32 (cx_rid c3) /\ cursor_ok (cx_rid c3)) ->
  ids_inv (ctx_put t k c3).
Proof.
  intros [N [C [P [I R]]]] R3. apply put_inv_gen; auto; intros id k' H; left; now apply I.
Qed.

(* removing context k *)
Lemma except_del t k : except t k -> ids_inv (set_ctxs t (assoc_del k (rq_ctxs t))).
Proof.
  intros [N [C [P [I R]]]].
  assert (G : forall k', k' <> k -> ctx_get (set_ctxs t (assoc_del k (rq_ctxs t))) k' = ctx_get t k').
  { intros k' Hne. unfold ctx_get. cbn [rq_ctxs set_ctxs]. now apply lookup_assoc_del_other. }
  constructor.
  - cbn [rq_ctxs set_ctxs]. now apply map_fst_assoc_del.
  - exact C.
  - intros id k' H. change (rq_ids (set_ctxs t (assoc_del k (rq_ctxs t)))) with (rq_ids t) in H.
    destruct (I id k' H) as [Hne [c [H1 H2]]]. exists c. rewrite G by exact Hne. auto.
  - intros k' c m H1 H2. destruct (N.eq_dec k' k) as [->|Hne].
    + unfold ctx_get in H1. cbn [rq_ctxs set_ctxs] in H1. now rewrite lookup_assoc_del_same in H1.
    + rewrite G in H1 by exact Hne. eapply R; eauto.
Qed.

(* req0_ctx_reset *)
Lemma ctx_reset_facts fx s k c s2 c2 o :
  ctx_reset fx s k c = (s2, c2, o) ->
  rq_ctxs s2 = rq_ctxs s /\ rq_cursor s2 = rq_cursor s /\
  rq_ids s2 = (if N.eqb (cx_rid c) 0 then rq_ids s else assoc_del (cx_rid c) (rq_ids s)) /\
  cx_rid c2 = 0%N /\ cx_req c2 = None /\ cx_recv c2 = cx_recv c /\ cx_send c2 = cx_send c /\ tx_ok o.
Proof.
  unfold ctx_reset. intros H. inversion H; subst; clear H.
  split; [destruct (cx_rid c =? 0)%N, (fx_rdclr fx && (k =? 0)%N && match cx_rep c with Some _ => true | None => false end); reflexivity|].
  split; [destruct (cx_rid c =? 0)%N, (fx_rdclr fx && (k =? 0)%N && match cx_rep c with Some _ => true | None => false end); reflexivity|].
  split; [destruct (cx_rid c =? 0)%N, (fx_rdclr fx && (k =? 0)%N && match cx_rep c with Some _ => true | None => false end); reflexivity|].
  repeat (split; [reflexivity|]). notx.
Qed.

Lemma reset_except fx s k c0 c s2 c2 o :
  ids_inv s -> ctx_get s k = Some c0 -> cx_rid c = cx_rid c0 ->
  ctx_reset fx s k c = (s2, c2, o) -> except s2 k.
Proof.
  intros [N C I R] P E H. apply ctx_reset_facts in H. destruct H as [F1 [F2 [F3 _]]].
  assert (G : forall k', ctx_get s2 k' = ctx_get s k') by (intros k'; unfold ctx_get; now rewrite F1).
  split; [now rewrite F1|]. split; [now rewrite F2|]. split; [exists c0; now rewrite G|]. split.
  - intros id k' H. rewrite F3 in H. split.
    + intros ->.
      destruct (N.eqb_spec (cx_rid c) 0) as [Z|NZ].
      * destruct (I id k H) as [c' [H1 [H2 H3]]]. rewrite P in H1. inversion H1; subst c'.
        destruct (cx_req c0) as [m|] eqn:Em; [|congruence].
        destruct (R k c0 m P Em) as [_ CO]. apply cursor_ok_nonzero in CO. congruence.
      * apply lookup_assoc_del_some in H. destruct H as [Hne H].
        destruct (I id k H) as [c' [H1 [H2 H3]]]. rewrite P in H1. inversion H1; subst c'. congruence.
    + assert (H' : lookup id (rq_ids s) = Some k').
      { destruct (cx_rid c =? 0)%N; [exact H|]. now apply lookup_assoc_del_some in H. }
      destruct (I id k' H') as [c' [H1 H2]]. exists c'. rewrite G. auto.
  - intros k' c' m Hne H1 H2. rewrite G in H1. eapply R; eauto.
Qed.

Lemma reset_put fx s k c0 c s2 c2 o :
  ids_inv s -> ctx_get s k = Some c0 -> cx_rid c = cx_rid c0 -> ctx_reset fx s k c = (s2, c2, o) ->
  except s2 k /\ cx_rid c2 = 0%N /\ cx_req c2 = None /\ tx_ok o /\ ids_inv (ctx_put s2 k c2).
Proof.
  intros I P E H. pose proof (reset_except _ _ _ _ _ _ _ _ I P E H) as EX.
  apply ctx_reset_facts in H. destruct H as [_ [_ [_ [Z [RN [_ [_ TX]]]]]]].
  repeat (split; [assumption|]). apply except_put; [exact EX|]. intros m Hm. congruence.
Qed.

Ltac sk_solve P :=
  sk_peel; try (eapply same_keys_put; [exact P|reflexivity|reflexivity]).

(* ------------------------------------------------------------------ *)
(* the entry points                                                      *)
Lemma req_ctx_recv_inv s k c a nb s' outs :
  ctx_get s k = Some c -> req_ctx_recv s k c a nb = (s', outs) -> same_keys s s' /\ tx_ok outs.
Proof.
  intros P H. unfold req_ctx_recv in H.
  destruct (match cx_recv c with Some _ => true | None => false end
            || (match cx_req c with None => true | _ => false end) && (match cx_rep c with None => true | _ => false end)).
  - destruct (cx_creset c); inversion H; subst; (split; [sk_solve P|notx]).
  - destruct (cx_rep c); [|destruct nb]; inversion H; subst; (split; [sk_solve P|notx]).
Qed.

Lemma req_cancel_recv_inv fx s k c a rv s' outs :
  ids_inv s -> ctx_get s k = Some c -> req_cancel_recv fx s k c a rv = (s', outs) -> ids_inv s' /\ tx_ok outs.
Proof.
  intros I P H. unfold req_cancel_recv in H.
  destruct (cx_send c) as [sa|].
  - match type of H with context [ctx_reset fx ?S k ?C] => destruct (ctx_reset fx S k C) as [[s2 c2] o2] eqn:ER end.
    inversion H; subst.
    eapply reset_put in ER; [| eapply same_keys_inv; [apply sk_sendq|exact I] | exact P | reflexivity].
    destruct ER as [_ [_ [_ [TX I2]]]]. split; [exact I2|]. notx. exact TX.
  - match type of H with context [ctx_reset fx ?S k ?C] => destruct (ctx_reset fx S k C) as [[s2 c2] o2] eqn:ER end.
    inversion H; subst.
    eapply reset_put in ER; [| exact I | exact P | reflexivity].
    destruct ER as [_ [_ [_ [TX I2]]]]. split; [exact I2|]. notx. exact TX.
Qed.

Lemma req_cancel_send_inv fx s k c a rv s' outs :
  ids_inv s -> ctx_get s k = Some c -> req_cancel_send fx s k c a rv = (s', outs) -> ids_inv s' /\ tx_ok outs.
Proof.
  intros I P H. unfold req_cancel_send in H.
  destruct (fx_cancel fx);
  match type of H with context [ctx_reset fx ?S k ?C] => destruct (ctx_reset fx S k C) as [[s2 c2] o2] eqn:ER end;
  inversion H; subst;
  (eapply reset_put in ER; [| exact I | exact P | reflexivity]);
  destruct ER as [_ [_ [_ [TX I2]]]]; (split; [exact I2|]); notx; exact TX.
Qed.

Lemma req_ctx_fini_inv fx s k c s2 c2 outs :
  ids_inv s -> ctx_get s k = Some c -> req_ctx_fini fx s k c = (s2, c2, outs) ->
  except s2 k /\ tx_ok outs /\ ids_inv (ctx_put s2 k c2).
Proof.
  intros I P H. unfold req_ctx_fini in H.
  destruct (cx_send c) as [sa|];
  match type of H with context [ctx_reset fx ?S k ?C] => destruct (ctx_reset fx S k C) as [[s2' c2'] o2] eqn:ER end;
  inversion H; subst;
  (eapply reset_put in ER; [| exact I | exact P | reflexivity]);
  destruct ER as [EX [_ [_ [TX I2]]]]; (split; [exact EX|]); (split; [|exact I2]); notx; exact TX.
Qed.

(* ---- req0_pipe_close: one context of the pipe's list ---- *)
Definition pcl_body (fx : rfix) (s0 : req) (k : N) (c : rctx) : req * list pout * list pmsg :=
  if negb (retry_on fx c) then
    match cx_recv c with
    | Some ra =>
        let '(s', c', o) := ctx_reset fx s0 k (mkRctx (cx_rid c) None (cx_send c) (cx_req c) (cx_rep c) (cx_retry c) (cx_sretry c) (cx_rtime c) (cx_creset c) (cx_owned c)) in
        (ctx_put s' k c', Complete ra E_CONNRESET None :: o, [])
    | None =>
        let '(s', c', o) := ctx_reset fx s0 k c in
        (ctx_put s' k (mkRctx (cx_rid c') (cx_recv c') (cx_send c') (cx_req c') (cx_rep c') (cx_retry c') (cx_sretry c') (cx_rtime c') true (cx_owned c')), o, [])
    end
  else
    match cx_req c with
    | Some _ =>
        let c' := mkRctx (cx_rid c) (cx_recv c) (cx_send c) (cx_req c) (cx_rep c) (cx_retry c) (cx_sretry c)
                         (after (rq_now s0) (eff_retry fx c)) (cx_creset c) (cx_owned c) in
        let s' := ctx_put s0 k c' in
        if has_id k (rq_sendq s') then (s', [], [])
        else run_send_queue fx (set_sendq s' (rq_sendq s' ++ [k]))
    | None => (s0, [], [])
    end.

Lemma pcl_unfold fx f s p :
  pipe_close_loop fx (S f) s p =
  match first_on p (rq_plist s) with
  | None => (s, [], [])
  | Some k =>
      let s0 := set_plist s (plist_del k (rq_plist s)) in
      match ctx_get s0 k with
      | None => pipe_close_loop fx f s0 p
      | Some c =>
          let '(s1, o1, cl1) := pcl_body fx s0 k c in
          let '(s2, o2, cl2) := pipe_close_loop fx f s1 p in
          (s2, o1 ++ o2, cl1 ++ cl2)
      end
  end.
Proof. reflexivity. Qed.

Lemma pcl_body_inv fx s0 k c s1 o1 cl1 :
  ids_inv s0 -> ctx_get s0 k = Some c -> pcl_body fx s0 k c = (s1, o1, cl1) -> ids_inv s1 /\ tx_ok o1.
Proof.
  intros I P H. unfold pcl_body in H. destruct (negb (retry_on fx c)).
  - destruct (cx_recv c) as [ra|].
    + match type of H with context [ctx_reset fx ?S k ?C] => destruct (ctx_reset fx S k C) as [[s2 c2] o2] eqn:ER end.
      inversion H; subst. eapply reset_put in ER; [| exact I | exact P | reflexivity].
      destruct ER as [_ [_ [_ [TX I2]]]]. split; [exact I2|]. notx. exact TX.
    + destruct (ctx_reset fx s0 k c) as [[s2 c2] o2] eqn:ER.
      inversion H; subst. eapply reset_put in ER; [| exact I | exact P | reflexivity].
      destruct ER as [EX [_ [RN [TX _]]]]. split; [|exact TX].
      apply except_put; [exact EX|]. cbn [cx_req]. intros m Hm. congruence.
  - destruct (cx_req c) as [r|] eqn:Er.
    2:{ inversion H; subst. split; [exact I|notx]. }
    cbv zeta in H.
    match type of H with context [ctx_put s0 k ?C] =>
      assert (SK : same_keys s0 (ctx_put s0 k C)) by (eapply same_keys_put; [exact P|reflexivity|cbn [cx_req]; congruence]) end.
    match type of H with context [if ?b then _ else _] => destruct b end.
    + inversion H; subst. split; [eapply same_keys_inv; eauto|notx].
    + apply run_send_queue_inv in H; [exact H|].
      eapply same_keys_inv; [apply sk_sendq|]. eapply same_keys_inv; eauto.
Qed.

Lemma pcl_inv fx p : forall f s s' outs cl,
  ids_inv s -> pipe_close_loop fx f s p = (s', outs, cl) -> ids_inv s' /\ tx_ok outs.
Proof.
  induction f as [|f IH]; intros s s' outs cl I H.
  { cbn in H. inversion H; subst. split; [exact I|notx]. }
  rewrite pcl_unfold in H. destruct (first_on p (rq_plist s)) as [k|].
  2:{ inversion H; subst. split; [exact I|notx]. }
  cbv zeta in H.
  assert (I0 : ids_inv (set_plist s (plist_del k (rq_plist s)))) by (eapply same_keys_inv; [apply sk_plist|exact I]).
  destruct (ctx_get (set_plist s (plist_del k (rq_plist s))) k) as [c|] eqn:P.
  2:{ eapply IH; eauto. }
  destruct (pcl_body fx (set_plist s (plist_del k (rq_plist s))) k c) as [[s1 o1] cl1] eqn:EB.
  destruct (pipe_close_loop fx f s1 p) as [[s2 o2] cl2] eqn:EL.
  inversion H; subst.
  destruct (pcl_body_inv _ _ _ _ _ _ _ I0 P EB) as [I1 T1].
  destruct (IH _ _ _ _ I1 EL) as [I2 T2]. split; [exact I2|now apply tx_ok_app].
Qed.

(* ---- req0_ctx_send ---- *)
Lemma req_ctx_send_inv fx s k c a nb m s' outs cl :
  ids_inv s -> ctx_get s k = Some c -> req_ctx_send fx s k c a nb m = (s', outs, cl) -> ids_inv s' /\ tx_ok outs.
Proof.
  intros I P H. unfold req_ctx_send in H.
  destruct (rq_closed s). { inversion H; subst. split; [exact I|notx]. }
  set (o1 := match cx_recv c with Some ra => [Complete ra E_CANCELED None] | None => [] end) in *.
  assert (T1 : tx_ok o1) by (subst o1; notx).
  destruct (match cx_send c with
            | Some sa => (set_sendq s (remove_id k (rq_sendq s)),
                          mkRctx (cx_rid c) None None None (cx_rep c) (cx_retry c) (cx_sretry c) (cx_rtime c) (cx_creset c) false,
                          [Complete sa E_CANCELED None])
            | None => (s, mkRctx (cx_rid c) None None (cx_req c) (cx_rep c) (cx_retry c) (cx_sretry c) (cx_rtime c) (cx_creset c) (cx_owned c), [])
            end) as [[s1 c1] o2] eqn:E2.
  assert (A : ids_inv s1 /\ (exists c0, ctx_get s1 k = Some c0 /\ cx_rid c1 = cx_rid c0) /\ tx_ok o2).
  { destruct (cx_send c); inversion E2; subst.
    - split; [eapply same_keys_inv; [apply sk_sendq|exact I]|]. split; [exists c; split; [exact P|reflexivity]|notx].
    - split; [exact I|]. split; [exists c; split; [exact P|reflexivity]|notx]. }
  destruct A as [I1 [[c0 [P1 E1]] T2]]. clear E2.
  destruct (ctx_reset fx s1 k c1) as [[s2 c2] o3] eqn:E3.
  destruct (reset_put _ _ _ _ _ _ _ _ I1 P1 E1 E3) as [EX [Z2 [RN2 [T3 I2]]]].
  assert (Tfail : tx_ok (o1 ++ o2 ++ o3 ++ [Complete a E_NOMEM None])) by (repeat apply tx_ok_app; auto; notx).
  destruct (REQ_ID_MAX - REQ_ID_MIN <? N.of_nat (length (rq_ids s2)))%N. { inversion H; subst. auto. }
  destruct (id_alloc (S (length (rq_ids s2))) (rq_ids s2) (rq_cursor s2)) as [[id cur']|] eqn:EA.
  2:{ inversion H; subst. auto. }
  pose proof EX as [N2 [C2 [PX [IX RX]]]].
  destruct (id_alloc_fresh _ _ _ _ _ EA C2) as [Fr [Cid Ccur]].
  destruct (is_nil (rq_ready s2) && nb).
  - inversion H; subst. split; [|repeat apply tx_ok_app; auto; notx].
    apply put_inv_gen; auto.
    + intros id' k' L. left. now apply IX.
    + cbn [cx_req]. intros m0 Hm. discriminate.
  - cbv zeta in H.
    assert (IP : forall t, rq_ctxs t = rq_ctxs s2 -> rq_cursor t = cur' -> rq_ids t = rq_ids s2 ++ [(id, k)] ->
                 forall c3, cx_rid c3 = id -> cx_req c3 = Some (req_send id m) -> ids_inv (ctx_put t k c3)).
    { intros t Q1 Q2 Q3 c3 R1 R2.
      assert (G : forall k', ctx_get t k' = ctx_get s2 k') by (intros k'; unfold ctx_get; now rewrite Q1).
      apply put_inv_gen.
      - now rewrite Q1.
      - now rewrite Q2.
      - destruct PX as [cx PX]. exists cx. now rewrite G.
      - intros id' k' L. rewrite Q3 in L. destruct (lookup id' (rq_ids s2)) as [k2|] eqn:L2.
        + erewrite lookup_app_some in L by exact L2. inversion L; subst k2. left. rewrite G. now apply IX.
        + rewrite lookup_app_none in L by exact L2. cbn in L.
          destruct (N.eqb_spec id id') as [->|Hne]; [|discriminate]. inversion L; subst k'.
          right. split; [reflexivity|]. split; [exact R1|]. congruence.
      - intros k' c' m' Hne G1 G2. rewrite G in G1. eapply RX; eauto.
      - intros m' Hm. rewrite R2 in Hm. inversion Hm; subst m'. rewrite R1. split; [reflexivity|exact Cid]. }
    destruct (0 <? cx_retry c2)%Z;
    match type of H with context [if ?b then (set_timer _ _ _, _) else _] => destruct b end;
    match type of H with context [run_send_queue fx ?X] => destruct (run_send_queue fx X) as [[s7 o5] cl'] eqn:E7 end;
    inversion H; subst;
    (apply run_send_queue_inv in E7;
     [destruct E7 as [I7 T7]; split; [exact I7|repeat apply tx_ok_app; auto; unfold arm_out, tick_deadline; notx]
     |eapply same_keys_inv; [apply sk_sendq|]; apply IP; reflexivity]).
Qed.

(* ---- req0_recv_cb: a match retires the id ---- *)
Lemma match_put s id k c t c3 :
  ids_inv s -> lookup id (rq_ids s) = Some k -> ctx_get s k = Some c ->
  rq_ctxs t = rq_ctxs s -> rq_cursor t = rq_cursor s -> rq_ids t = assoc_del id (rq_ids s) ->
  cx_req c3 = None -> ids_inv (ctx_put t k c3).
Proof.
  intros [N C I R] L P Q1 Q2 Q3 R3.
  assert (G : forall k', ctx_get t k' = ctx_get s k') by (intros k'; unfold ctx_get; now rewrite Q1).
  apply put_inv_gen.
  - now rewrite Q1.
  - now rewrite Q2.
  - exists c. now rewrite G.
  - intros id' k' L'. rewrite Q3 in L'. apply lookup_assoc_del_some in L'. destruct L' as [Hne L'].
    left. destruct (I id' k' L') as [c' [H1 [H2 H3]]]. split.
    + intros ->. destruct (I id k L) as [c'' [G1 [G2 G3]]]. rewrite P in H1, G1. inversion H1; inversion G1; subst. congruence.
    + exists c'. rewrite G. auto.
  - intros k' c' m' Hne G1 G2. rewrite G in G1. eapply R; eauto.
  - intros m' Hm. congruence.
Qed.

Lemma req_recvdone_inv fx s p m s' outs cl :
  ids_inv s -> req_stepL fx s (PRecvDone p 0 m) = (s', outs, cl) -> ids_inv s' /\ tx_ok outs.
Proof.
  intros I H. rewrite recvdone_cases in H.
  destruct (req_recv (pm_body m)) as [[id m']|]. 2:{ inversion H; subst. split; [exact I|notx]. }
  destruct (matchable_b s id) eqn:EM. 2:{ inversion H; subst. split; [exact I|notx]. }
  apply matchable_b_true in EM. destruct EM as [k [c [H1 [H2 [H3 H4]]]]]. rewrite H1, H2 in H. cbv zeta in H.
  destruct (cx_recv c) as [ra|]; inversion H; subst; clear H.
  - split.
    + match goal with |- ids_inv (ctx_put ?T k ?C3) => apply (match_put s id k c T C3); [exact I|exact H1|exact H2|..] end;
      destruct (fx_stash fx); reflexivity.
    + apply tx_ok_cons; [intros ? ? ?; discriminate|]. apply tx_ok_app; [|notx].
      destruct (cx_req c); [destruct (retry_on fx c)|]; notx.
  - split.
    + match goal with |- ids_inv (if _ then set_readable (ctx_put ?T k ?C3) true else _) =>
        assert (IM : ids_inv (ctx_put T k C3)) by (apply (match_put s id k c T C3); [exact I|exact H1|exact H2|..]; destruct (fx_stash fx); reflexivity) end.
      destruct (k =? 0)%N; [eapply same_keys_inv; [apply sk_readable|exact IM]|exact IM].
    + apply tx_ok_cons; [intros ? ? ?; discriminate|].
      destruct (cx_req c); [destruct (retry_on fx c)|]; notx.
Qed.

Lemma tx_ok_map_free l : tx_ok (map Free l).
Proof. induction l; cbn; notx. exact IHl. Qed.

Lemma nodup_snoc {A} (x : A) l : NoDup l -> ~ In x l -> NoDup (l ++ [x]).
Proof.
  induction l as [|y l IH]; cbn; intros H Hn; [constructor; [tauto|constructor]|].
  inversion H; subst. constructor.
  - intros Hin. apply in_app_or in Hin. destruct Hin as [Hin|[E|[]]]; [tauto|]. subst. apply Hn. now left.
  - apply IH; tauto.
Qed.

Lemma ctx_open_inv s k c : ids_inv s -> ctx_get s k = None -> cx_req c = None ->
  ids_inv (set_ctxs s (rq_ctxs s ++ [(k, c)])).
Proof.
  intros [N C I R] P RN.
  assert (G : forall k' c', ctx_get s k' = Some c' -> ctx_get (set_ctxs s (rq_ctxs s ++ [(k, c)])) k' = Some c').
  { intros k' c' H. unfold ctx_get in *. cbn [rq_ctxs set_ctxs]. now apply lookup_app_some. }
  constructor.
  - cbn [rq_ctxs set_ctxs]. rewrite map_app. cbn. apply nodup_snoc; [exact N|]. now apply lookup_none_map.
  - exact C.
  - intros id k' L. change (rq_ids (set_ctxs s (rq_ctxs s ++ [(k, c)]))) with (rq_ids s) in L.
    destruct (I id k' L) as [c' [H1 H2]]. exists c'. split; [now apply G|exact H2].
  - intros k' c' m H1 H2. unfold ctx_get in H1. cbn [rq_ctxs set_ctxs] in H1.
    destruct (lookup k' (rq_ctxs s)) as [c0|] eqn:L0.
    + erewrite lookup_app_some in H1 by exact L0. inversion H1; subst c0. eapply R; eauto.
    + rewrite lookup_app_none in H1 by exact L0. cbn in H1.
      destruct (k =? k')%N; [|discriminate]. inversion H1; subst c'. congruence.
Qed.

(* ------------------------------------------------------------------ *)
(* every step                                                            *)
Definition op_ok (s : req) (o : pop) : Prop :=
  match o with PCtxOpen k => ctx_get s (k + 1)%N = None | _ => True end.

Lemma find_ctx_get s f k c : ids_inv s -> find_ctx f (rq_ctxs s) = Some (k, c) -> ctx_get s k = Some c.
Proof. intros I H. apply find_ctx_in in H. destruct H as [H _]. unfold ctx_get. apply nodup_in_lookup; [apply (inv_nodup s I)|exact H]. Qed.

Lemma req_stepL_inv fx s o s' outs cl :
  ids_inv s -> op_ok s o -> req_stepL fx s o = (s', outs, cl) -> ids_inv s' /\ tx_ok outs.
Proof.
  intros I OK H. destruct o; unfold req_stepL in H.
  - (* PSend *)
    destruct (ctx_get s (ckey c)) as [cx|] eqn:P; [eapply req_ctx_send_inv; eauto|].
    inversion H; subst. split; [exact I|notx].
  - (* PRecv *)
    destruct (ctx_get s (ckey c)) as [cx|] eqn:P.
    + destruct (req_ctx_recv s (ckey c) cx a nb) as [s1 o1] eqn:E. inversion H; subst.
      destruct (req_ctx_recv_inv _ _ _ _ _ _ _ P E) as [SK T]. split; [eapply same_keys_inv; eauto|exact T].
    + inversion H; subst. split; [exact I|notx].
  - (* PCancel *)
    destruct (find_ctx (fun c => opt_is a (cx_recv c)) (rq_ctxs s)) as [[k c]|] eqn:F1.
    + apply (find_ctx_get _ _ _ _ I) in F1.
      destruct (req_cancel_recv fx s k c a rv) as [s1 o1] eqn:E. inversion H; subst. eapply req_cancel_recv_inv; eauto.
    + destruct (find_ctx (fun c => opt_is a (cx_send c)) (rq_ctxs s)) as [[k c]|] eqn:F2.
      * apply (find_ctx_get _ _ _ _ I) in F2.
        destruct (req_cancel_send fx s k c a rv) as [s1 o1] eqn:E. inversion H; subst. eapply req_cancel_send_inv; eauto.
      * inversion H; subst. split; [exact I|notx].
  - (* PPipeStart *)
    destruct (negb (peer =? PROTO_REP)%N). { inversion H; subst. split; [exact I|notx]. }
    cbv zeta in H.
    match type of H with context [run_send_queue fx ?X] => destruct (run_send_queue fx X) as [[s2 o2] cl2] eqn:E end.
    inversion H; subst. apply run_send_queue_inv in E; [|eapply same_keys_inv; [|exact I]; sk_peel].
    destruct E as [I2 T2]. split; [exact I2|]. apply tx_ok_app; [exact T2|notx].
  - (* PPipeClose *)
    cbv zeta in H. eapply pcl_inv; [|exact H]. eapply same_keys_inv; [|exact I]. sk_peel.
  - (* PSendDone *)
    cbv zeta in H.
    destruct (negb (rv =? 0)%N).
    { inversion H; subst. split; [eapply same_keys_inv; [apply sk_sending|exact I]|]. apply tx_ok_app; [apply tx_ok_map_free|notx]. }
    match type of H with context [if ?b then _ else _] => destruct b end.
    { inversion H; subst. split; [eapply same_keys_inv; [apply sk_sending|exact I]|notx]. }
    apply run_send_queue_inv in H; [exact H|]. eapply same_keys_inv; [|exact I]. sk_peel.
  - (* PRecvDone *)
    destruct (N.eqb_spec rv 0) as [->|Hne].
    + eapply req_recvdone_inv; eauto.
    + cbn [negb] in H. inversion H; subst. split; [exact I|notx].
  - (* PSetOpt *)
    destruct o, c;
    try (destruct (ctx_get s (ckey (Some n))) as [cx|] eqn:P);
    try (destruct (ctx_get s (ckey None)) as [cx|] eqn:P);
    repeat match type of H with context [if ?b then _ else _] => destruct b end;
    inversion H; subst;
    (split; [first [exact I | eapply same_keys_inv; [|exact I]; sk_solve P]|notx]).
  - (* PCtxOpen *)
    inversion H; subst. split; [|notx]. apply ctx_open_inv; [exact I|exact OK|reflexivity].
  - (* PCtxClose *)
    destruct (ctx_get s (c + 1)%N) as [cx|] eqn:P; [|inversion H; subst; split; [exact I|notx]].
    destruct (req_ctx_fini fx s (c + 1)%N cx) as [[s1 c1] o1] eqn:E. inversion H; subst.
    destruct (req_ctx_fini_inv _ _ _ _ _ _ _ I P E) as [EX [T _]]. split; [now apply except_del|exact T].
  - (* PSockClose *)
    cbv zeta in H.
    assert (I1 : ids_inv (set_closed s true)) by (eapply same_keys_inv; [apply sk_closed|exact I]).
    destruct (ctx_get (set_closed s true) 0%N) as [cx|] eqn:P; [|inversion H; subst; split; [exact I1|notx]].
    destruct (req_ctx_fini fx (set_closed s true) 0%N cx) as [[s2 c2] o2] eqn:E. inversion H; subst.
    destruct (req_ctx_fini_inv _ _ _ _ _ _ _ I1 P E) as [_ [T I2]]. split; assumption.
  - (* PTick *)
    cbv zeta in H.
    assert (I0 : ids_inv (set_now s now)) by (eapply same_keys_inv; [apply sk_now|exact I]).
    destruct (rq_closed (set_now s now) || negb (rq_active (set_now s now))). { inversion H; subst. split; [exact I0|notx]. }
    destruct (rq_tickdl (set_now s now)) as [d|]; [|inversion H; subst; split; [exact I0|notx]].
    destruct (negb (d <? now)%N). { inversion H; subst. split; [exact I0|notx]. }
    destruct (retry_scan (set_now s now) now (rq_retryq (set_now s now)) (rq_sendq (set_now s now))) as [sq resched].
    match type of H with context [if is_nil ?l then _ else _] => destruct (is_nil l) end.
    + destruct resched.
      * match type of H with context [run_send_queue fx ?X] => destruct (run_send_queue fx X) as [[s3 o3] cl3] eqn:E end.
        inversion H; subst. apply run_send_queue_inv in E; [|eapply same_keys_inv; [|exact I0]; sk_peel].
        destruct E as [I3 T3]. split; [exact I3|exact T3].
      * inversion H; subst. split; [|notx]. eapply same_keys_inv; [|exact I0]. sk_peel.
    + destruct resched.
      * match type of H with context [run_send_queue fx ?X] => destruct (run_send_queue fx X) as [[s3 o3] cl3] eqn:E end.
        inversion H; subst. apply run_send_queue_inv in E; [|eapply same_keys_inv; [|exact I0]; sk_peel].
        destruct E as [I3 T3]. split; [exact I3|]. apply tx_ok_app; [unfold arm_out, tick_deadline; notx|exact T3].
      * inversion H; subst. split; [|unfold arm_out, tick_deadline; notx]. eapply same_keys_inv; [|exact I0]. sk_peel.
Qed.

(* ------------------------------------------------------------------ *)
(* reachable states                                                      *)
Lemma ids_inv_init : ids_inv req_init.
Proof.
  constructor.
  - cbn. constructor; [tauto|constructor].
  - cbn. unfold cursor_ok, REQ_ID_MIN, REQ_ID_MAX. lia.
  - intros id k H. cbn in H. discriminate.
  - intros k c m H1 H2. unfold ctx_get in H1. destruct k; cbn in H1; [|discriminate].
    inversion H1; subst. cbn in H2. discriminate.
Qed.

Inductive req_reach (fx : rfix) : req -> Prop :=
| reach_init : req_reach fx req_init
| reach_step s o : req_reach fx s -> op_ok s o -> req_reach fx (fst (req_step fx s o)).

Lemma req_step_inv fx s o s' outs :
  ids_inv s -> op_ok s o -> req_step fx s o = (s', outs) -> ids_inv s' /\ tx_ok outs.
Proof.
  intros I OK H. unfold req_step in H. destruct (req_stepL fx s o) as [[s1 o1] cl] eqn:E.
  inversion H; subst. eapply req_stepL_inv; eauto.
Qed.

Lemma reach_inv fx s : req_reach fx s -> ids_inv s.
Proof.
  induction 1 as [|s o R IH OK]; [apply ids_inv_init|].
  destruct (req_step fx s o) as [s' outs] eqn:E. cbn [fst]. eapply req_step_inv; eauto.
Qed.

(* requests[id] = k  ==>  context k holds, now, a request whose id is `id` *)
Lemma req_registered_is_current fx s id k :
  req_reach fx s -> lookup id (rq_ids s) = Some k ->
  exists c r, ctx_get s k = Some c /\ cx_rid c = id /\ cx_req c = Some r /\ pm_hdr r = be32 id /\ cursor_ok id.
Proof.
  intros R L. apply reach_inv in R. destruct (inv_ids s R id k L) as [c [H1 [H2 H3]]].
  destruct (cx_req c) as [r|] eqn:Er; [|congruence]. destruct (inv_req s R k c r H1 Er) as [G1 G2].
  exists c, r. subst id. auto.
Qed.

(* a context that holds no request (never sent, answered, or abandoned in any way)
   and a context that is closed have no id registered *)
Lemma req_no_request_no_id fx s k :
  req_reach fx s -> (ctx_get s k = None \/ exists c, ctx_get s k = Some c /\ cx_req c = None) ->
  forall id, lookup id (rq_ids s) <> Some k.
Proof.
  intros R H id L. destruct (req_registered_is_current _ _ _ _ R L) as [c [r [H1 [_ [H3 _]]]]].
  destruct H as [H|[c' [H H']]]; rewrite H in H1; [discriminate|]. inversion H1; subst. congruence.
Qed.

(* a reply is delivered only to the context whose CURRENT request carries the arriving
   id and has left the send queue *)
Lemma req_reply_current fx s p rv m s' outs a b :
  req_reach fx s -> req_step fx s (PRecvDone p rv m) = (s', outs) -> In (Complete a E_OK (Some b)) outs ->
  exists id k c r, req_recv (pm_body m) = Some (id, b) /\ ctx_get s k = Some c /\ cx_recv c = Some a /\
    cx_rid c = id /\ cx_req c = Some r /\ pm_hdr r = be32 id /\ cx_send c = None /\ cx_rep c = None.
Proof.
  intros R H Hin. destruct (req_recvdone_delivery _ _ _ _ _ _ _ _ _ H Hin) as [_ [id [k [c [ER [[L [G [S1 S2]]] RA]]]]]].
  destruct (req_registered_is_current _ _ _ _ R L) as [c' [r [H1 [H2 [H3 [H4 _]]]]]].
  rewrite G in H1. inversion H1; subst c'. exists id, k, c, r. auto 10.
Qed.

(* what is handed to a transport: exactly one request id, then the body *)
Lemma req_step_tx fx s o s' outs p x :
  req_reach fx s -> op_ok s o -> req_step fx s o = (s', outs) -> In (TranSend p x) outs ->
  exists id, cursor_ok id /\ pm_hdr x = be32 id /\ wire_of x = be32 id ++ pm_body x.
Proof.
  intros R OK H Hin. apply reach_inv in R. destruct (req_step_inv _ _ _ _ _ R OK H) as [_ T].
  destruct (T p x Hin) as [id [C E]]. exists id. unfold wire_of. rewrite E. auto.
Qed.

(* the header the application leaves on a message does not influence the step *)
Lemma req_send_header_independent fx s c a nb h h' b :
  req_step fx s (PSend c a nb (mkPmsg h b)) = req_step fx s (PSend c a nb (mkPmsg h' b)).
Proof. unfold req_step, req_stepL. destruct (ctx_get s (ckey c)); reflexivity. Qed.

(* witness: a send queued for want of a pipe and cancelled leaves no id behind; the
   peer naming that id (REQ_ID_MIN+1, never transmitted) is ignored, the reply to the
   next request (REQ_ID_MIN+2) is delivered, once *)
Definition w_abandon : list pop :=
  [PSend None 0%N false w_req; PCancel 0%N E_CANCELED; PPipeStart 1%N PROTO_REP; PSend None 1%N false (mkPmsg [9%N; 9%N; 9%N; 9%N] [170%N; 2%N]);
   PRecv None 2%N false; PRecvDone 1%N 0%N (mkPmsg [] (be32 (REQ_ID_MIN + 1) ++ [187%N]));
   PRecvDone 1%N 0%N (mkPmsg [] (be32 (REQ_ID_MIN + 2) ++ [188%N])); PRecvDone 1%N 0%N (mkPmsg [] (be32 (REQ_ID_MIN + 2) ++ [189%N]))].
Lemma req_abandoned_id_w :
  let outs := outs_of (snd (req_run fx_repaired req_init w_abandon)) in
  nth 1 outs [] = [Complete 0%N E_CANCELED None] /\
  nth 3 outs [] = [Complete 1%N E_OK None; TranSend 1%N (mkPmsg (be32 (REQ_ID_MIN + 2)) [170%N; 2%N])] /\
  nth 5 outs [] = [TranRecv 1%N; Free (mkPmsg [] [187%N])] /\
  nth 6 outs [] = [TranRecv 1%N; Free (mkPmsg (be32 (REQ_ID_MIN + 2)) [170%N; 2%N]); Complete 2%N E_OK (Some (mkPmsg [] [188%N]))] /\
  nth 7 outs [] = [TranRecv 1%N; Free (mkPmsg [] [189%N])].
Proof. vm_compute. repeat split. Qed.
