(* RespondModel: src/sp/protocol/survey0/respond.c (cooked RESPONDENT).  Definitions only.
   One step = one critical section of resp0_sock.mtx (an entry point or a callback;
   the header manipulation and the pollable clear that resp0_ctx_send does just
   before locking are folded into the step of the send).

   Repairs the model can follow (all false = the pinned source):
     rf_nb      resp0_ctx_send calls nni_aio_start only when it has to queue the
                send behind a busy pipe, before it changes the context, and clears
                the send descriptor only once the send is accepted
     rf_wbusy   resp0_ctx_recv (message already waiting) raises the send descriptor
                only if the survey's pipe is idle, as resp0_pipe_recv_cb does
     rf_rclose  resp0_pipe_close clears the receive descriptor when it removes the
                last pipe holding a survey
     rf_sbusy   resp0_ctx_send refuses (NNG_ESTATE) a send while the context's previous
                send is still queued behind a busy pipe.  The pinned source appends the
                context to the pipe's list a second time: NNI_ASSERT panic in
                nni_list_append (a corrupted list and a lost aio without assertions);
                the model shows the double entry and the overwritten saio
     rf_wother  when another context's response makes the pipe busy from which the
                socket's own context holds a survey, the send descriptor is cleared
     rf_wstale  when the socket's own context receives a survey whose pipe is busy, the
                send descriptor (possibly still raised for an unanswered earlier survey)
                is cleared *)
From Coq Require Import List Arith NArith Bool ZArith.
From NngV Require Import Proto.Common Proto.SurveyBacktrace Proto.SurveyModel.
Import ListNotations.

Record resp_fix := mkRfix { rf_nb : bool; rf_wbusy : bool; rf_rclose : bool; rf_sbusy : bool; rf_wother : bool; rf_wstale : bool }.
Definition rfix_none : resp_fix := mkRfix false false false false false false.
Definition rfix_all : resp_fix := mkRfix true true true true true true.

Record rctx := mkRctx {
  rc_pipe : N;                       (* ctx->pipe_id, 0 = none *)
  rc_bt : list N;                    (* ctx->btrace[0 .. btrace_len) as bytes *)
  rc_saio : option (aioid * pmsg);   (* ctx->saio and its message (header already rebuilt) *)
  rc_raio : option aioid }.          (* ctx->raio *)

Record rpipe := mkRpipe {
  rp_busy : bool;
  rp_closed : bool;
  rp_sendq : list N;                 (* keys of the contexts waiting to send on this pipe *)
  rp_held : list pmsg;               (* attached to aio_send (at most one) *)
  rp_rmsg : list pmsg }.             (* parsed survey attached to aio_recv while the pipe is on recvpipes *)

Record resp := mkResp {
  rs_ctxs : list (N * rctx);
  rs_pipes : list (pid * rpipe);     (* every started pipe; the open ones are the id map s->pipes *)
  rs_recvpipes : list pid;
  rs_recvq : list N;                 (* keys of contexts blocked in recv *)
  rs_ttl : nat;
  rs_readable : bool;
  rs_writable : bool }.

Definition rctx_init : rctx := mkRctx 0 [] None None.
Definition resp_init : resp := mkResp [(0%N, rctx_init)] [] [] [] TTL_DEFAULT false false.

Definition rset_ctxs (s : resp) c := mkResp c (rs_pipes s) (rs_recvpipes s) (rs_recvq s) (rs_ttl s) (rs_readable s) (rs_writable s).
Definition rset_pipes (s : resp) p := mkResp (rs_ctxs s) p (rs_recvpipes s) (rs_recvq s) (rs_ttl s) (rs_readable s) (rs_writable s).
Definition rset_w (s : resp) b := mkResp (rs_ctxs s) (rs_pipes s) (rs_recvpipes s) (rs_recvq s) (rs_ttl s) (rs_readable s) b.
Definition rset_r (s : resp) b := mkResp (rs_ctxs s) (rs_pipes s) (rs_recvpipes s) (rs_recvq s) (rs_ttl s) b (rs_writable s).
Definition rset_recvpipes (s : resp) l := mkResp (rs_ctxs s) (rs_pipes s) l (rs_recvq s) (rs_ttl s) (rs_readable s) (rs_writable s).
Definition rset_recvq (s : resp) l := mkResp (rs_ctxs s) (rs_pipes s) (rs_recvpipes s) l (rs_ttl s) (rs_readable s) (rs_writable s).

(* nni_id_get(&s->pipes, pid): started and not yet closed *)
Definition live_pipe (p : N) (l : list (pid * rpipe)) : option rpipe :=
  match kget p l with Some x => if rp_closed x then None else Some x | None => None end.

Definition main_pipe (s : resp) : N := match kget 0%N (rs_ctxs s) with Some c => rc_pipe c | None => 0%N end.

(* resp0_pipe_close: every context queued on the pipe has its send completed (successfully) and its message discarded *)
Fixpoint flush_sendq (ks : list N) (cs : list (N * rctx)) : list (N * rctx) * list pout :=
  match ks with
  | [] => (cs, [])
  | k :: r =>
      match kget k cs with
      | Some c =>
          match rc_saio c with
          | Some (a, m) =>
              let (cs', o) := flush_sendq r (kset k (mkRctx (rc_pipe c) (rc_bt c) None (rc_raio c)) cs) in
              (cs', Complete a E_OK None :: Free m :: o)
          | None => flush_sendq r cs
          end
      | None => flush_sendq r cs
      end
  end.

(* nni_list_node_remove(&ctx->sqnode) *)
Definition unqueue_ctx (k : N) (l : list (pid * rpipe)) : list (pid * rpipe) :=
  map (fun x => (fst x, mkRpipe (rp_busy (snd x)) (rp_closed (snd x)) (remove_id k (rp_sendq (snd x))) (rp_held (snd x)) (rp_rmsg (snd x)))) l.

Definition find_saio (a : aioid) (cs : list (N * rctx)) : option (N * rctx) :=
  find (fun x => match rc_saio (snd x) with Some (a', _) => N.eqb a' a | None => false end) cs.
Definition find_raio (a : aioid) (cs : list (N * rctx)) : option (N * rctx) :=
  find (fun x => match rc_raio (snd x) with Some a' => N.eqb a' a | None => false end) cs.

(* resp0_ctx_close *)
Definition rctx_close (s : resp) (k : N) (c : rctx) : resp * list pout :=
  let '(s1, o1) := match rc_saio c with
                   | Some (a, _) => (rset_pipes s (unqueue_ctx k (rs_pipes s)), [Complete a E_CLOSED None])
                   | None => (s, [])
                   end in
  let '(s2, o2) := match rc_raio c with
                   | Some a => (rset_recvq s1 (remove_id k (rs_recvq s1)), [Complete a E_CLOSED None])
                   | None => (s1, [])
                   end in
  (rset_ctxs s2 (kset k (mkRctx (rc_pipe c) (rc_bt c) None None) (rs_ctxs s2)), o1 ++ o2).

Definition resp_step (fx : resp_fix) (s : resp) (o : pop) : resp * list pout :=
  match o with
  | PPipeStart p peer =>
      if negb (N.eqb peer PROTO_SURVEYOR) then (s, [Reject E_PROTO])
      else (rset_pipes s (rs_pipes s ++ [(p, mkRpipe false false [] [] [])]), [TranRecv p])
  | PPipeClose p =>
      match kget p (rs_pipes s) with
      | None => (s, [])
      | Some x =>
          let rp' := remove_id p (rs_recvpipes s) in
          let (cs', o1) := flush_sendq (rp_sendq x) (rs_ctxs s) in
          let w := if N.eqb p (main_pipe s) then true else rs_writable s in
          let r := if rf_rclose fx && has_id p (rs_recvpipes s) && isnil rp' then false else rs_readable s in
          (mkResp cs' (kset p (mkRpipe (rp_busy x) true [] (rp_held x) []) (rs_pipes s)) rp' (rs_recvq s) (rs_ttl s) r w,
           map Free (rp_rmsg x) ++ o1)
      end
  | PSendDone p rv =>
      match kget p (rs_pipes s) with
      | None => (s, [])
      | Some x =>
          if negb (N.eqb rv 0) then
            (rset_pipes s (kset p (mkRpipe (rp_busy x) (rp_closed x) (rp_sendq x) [] (rp_rmsg x)) (rs_pipes s)),
             map Free (rp_held x) ++ [ClosePipe p])
          else
            match rp_sendq x with
            | [] =>
                let s1 := rset_pipes s (kset p (mkRpipe false (rp_closed x) [] [] (rp_rmsg x)) (rs_pipes s)) in
                ((if N.eqb p (main_pipe s) then rset_w s1 true else s1), [])
            | k :: rest =>
                match kget k (rs_ctxs s) with
                | Some c =>
                    match rc_saio c with
                    | Some (a, m) =>
                        (rset_ctxs (rset_pipes s (kset p (mkRpipe true (rp_closed x) rest [m] (rp_rmsg x)) (rs_pipes s)))
                                   (kset k (mkRctx (rc_pipe c) (rc_bt c) None (rc_raio c)) (rs_ctxs s)),
                         [TranSend p m; Complete a E_OK None])
                    | None => (rset_pipes s (kset p (mkRpipe false (rp_closed x) rest [] (rp_rmsg x)) (rs_pipes s)), [])
                    end
                | None => (rset_pipes s (kset p (mkRpipe false (rp_closed x) rest [] (rp_rmsg x)) (rs_pipes s)), [])
                end
            end
      end
  | PRecvDone p rv m =>
      if negb (N.eqb rv 0) then (s, [ClosePipe p]) else
      match resp_recv (rs_ttl s) (pm_body m) with
      | BtDrop => (s, [Free m; TranRecv p])
      | BtClose => (s, [Free m; ClosePipe p])
      | BtDeliver hdr body =>
          let msg := mkPmsg (pm_hdr m ++ hdr) body in
          match live_pipe p (rs_pipes s) with
          | None => (s, [Free msg])
          | Some x =>
              match rs_recvq s with
              | [] =>
                  (mkResp (rs_ctxs s) (kset p (mkRpipe (rp_busy x) false (rp_sendq x) (rp_held x) [msg]) (rs_pipes s))
                          (rs_recvpipes s ++ [p]) [] (rs_ttl s) true (rs_writable s), [])
              | k :: rest =>
                  match kget k (rs_ctxs s) with
                  | Some c =>
                      match rc_raio c with
                      | Some a =>
                          let w := if N.eqb k 0 then (if negb (rp_busy x) then true else if rf_wstale fx then false else rs_writable s)
                                   else rs_writable s in
                          (mkResp (kset k (mkRctx p (pm_hdr msg) (rc_saio c) None) (rs_ctxs s)) (rs_pipes s)
                                  (rs_recvpipes s) rest (rs_ttl s) (rs_readable s) w,
                           [TranRecv p; Complete a E_OK (Some (mkPmsg [] body))])
                      | None => (rset_recvq s rest, [Free msg; TranRecv p])
                      end
                  | None => (rset_recvq s rest, [Free msg; TranRecv p])
                  end
              end
          end
      end
  | PSend c a nb m =>
      let k := ckey c in
      match kget k (rs_ctxs s) with
      | None => (s, [Complete a E_CLOSED None])
      | Some cx =>
          let s0 := if N.eqb k 0 && negb (rf_nb fx) then rset_w s false else s in   (* cleared before the lock *)
          if nb && negb (rf_nb fx) then (s0, [Complete a E_AGAIN None])               (* nni_aio_start comes first *)
          else match rc_bt cx with
               | [] => (s0, [Complete a E_STATE None])
               | _ =>
                   let msg := mkPmsg (rc_bt cx) (pm_body m) in
                   let lp := live_pipe (rc_pipe cx) (rs_pipes s0) in
                   let wouldq := match lp with Some x => rp_busy x | None => false end in
                   if rf_sbusy fx && (match rc_saio cx with Some _ => true | None => false end)
                   then (s0, [Complete a E_STATE None])
                   else if rf_nb fx && nb && wouldq then (s0, [Complete a E_AGAIN None])
                   else
                     let s1 := if N.eqb k 0 || (rf_wother fx && N.eqb (rc_pipe cx) (main_pipe s0) &&
                                                  match lp with Some x => negb (rp_busy x) | None => false end)
                               then rset_w s0 false else s0 in
                     match lp with
                     | None =>
                         (rset_ctxs s1 (kset k (mkRctx 0 [] (rc_saio cx) (rc_raio cx)) (rs_ctxs s1)),
                          [Complete a E_OK None; Free msg])
                     | Some x =>
                         if negb (rp_busy x) then
                           (rset_ctxs (rset_pipes s1 (kset (rc_pipe cx) (mkRpipe true false (rp_sendq x) [msg] (rp_rmsg x)) (rs_pipes s1)))
                                      (kset k (mkRctx 0 [] (rc_saio cx) (rc_raio cx)) (rs_ctxs s1)),
                            [TranSend (rc_pipe cx) msg; Complete a E_OK None])
                         else
                           (rset_ctxs (rset_pipes s1 (kset (rc_pipe cx) (mkRpipe true false (rp_sendq x ++ [k]) (rp_held x) (rp_rmsg x)) (rs_pipes s1)))
                                      (kset k (mkRctx 0 [] (Some (a, msg)) (rc_raio cx)) (rs_ctxs s1)),
                            [])
                     end
               end
      end
  | PRecv c a nb =>
      let k := ckey c in
      match kget k (rs_ctxs s) with
      | None => (s, [Complete a E_CLOSED None])
      | Some cx =>
          match rs_recvpipes s with
          | [] =>
              if nb then (s, [Complete a E_AGAIN None])
              else match rc_raio cx with
                   | Some _ => (s, [Complete a E_STATE None])
                   | None =>
                       (rset_recvq (rset_ctxs s (kset k (mkRctx (rc_pipe cx) (rc_bt cx) (rc_saio cx) (Some a)) (rs_ctxs s)))
                                   (rs_recvq s ++ [k]), [])
                   end
          | p :: rest =>
              match kget p (rs_pipes s) with
              | Some x =>
                  match rp_rmsg x with
                  | msg :: _ =>
                      let r := if isnil rest then false else rs_readable s in
                      let w := if N.eqb k 0 then (if negb (rf_wbusy fx) || negb (rp_busy x) then true else if rf_wstale fx then false else rs_writable s)
                               else rs_writable s in
                      (mkResp (kset k (mkRctx p (pm_hdr msg) (rc_saio cx) (rc_raio cx)) (rs_ctxs s))
                              (kset p (mkRpipe (rp_busy x) (rp_closed x) (rp_sendq x) (rp_held x) []) (rs_pipes s))
                              rest (rs_recvq s) (rs_ttl s) r w,
                       [TranRecv p; Complete a E_OK (Some (mkPmsg [] (pm_body msg)))])
                  | [] => (rset_recvpipes s rest, [Complete a E_AGAIN None])    (* unreachable: a pipe on recvpipes holds a survey *)
                  end
              | None => (rset_recvpipes s rest, [Complete a E_AGAIN None])      (* unreachable *)
              end
          end
      end
  | PCancel a rv =>
      match find_saio a (rs_ctxs s) with
      | Some (k, c) =>
          (rset_ctxs (rset_pipes s (unqueue_ctx k (rs_pipes s))) (kset k (mkRctx (rc_pipe c) (rc_bt c) None (rc_raio c)) (rs_ctxs s)),
           [Complete a rv None])
      | None =>
          match find_raio a (rs_ctxs s) with
          | Some (k, c) =>
              (rset_ctxs (rset_recvq s (remove_id k (rs_recvq s))) (kset k (mkRctx (rc_pipe c) (rc_bt c) (rc_saio c) None) (rs_ctxs s)),
               [Complete a rv None])
          | None => (s, [])
          end
      end
  | PCtxOpen c => (rset_ctxs s (kset (ckey (Some c)) rctx_init (rs_ctxs s)), [])
  | PCtxClose c =>
      match kget (ckey (Some c)) (rs_ctxs s) with
      | None => (s, [])
      | Some cx => let (s1, o1) := rctx_close s (ckey (Some c)) cx in (rset_ctxs s1 (kdel (ckey (Some c)) (rs_ctxs s1)), o1)
      end
  | PSockClose =>
      match kget 0%N (rs_ctxs s) with
      | None => (s, [])
      | Some cx => rctx_close s 0%N cx
      end
  | PSetOpt None (OMaxTtl n) =>
      if (1 <=? n) && (n <=? TTL_MAX)
      then (mkResp (rs_ctxs s) (rs_pipes s) (rs_recvpipes s) (rs_recvq s) n (rs_readable s) (rs_writable s), [OptRv E_OK])
      else (s, [OptRv E_INVAL])
  | PSetOpt None (OSendBuf n) | PSetOpt None (ORecvBuf n) =>
      if (BUF_OPT_MAX <? N.of_nat n)%N then (s, [OptRv E_INVAL]) else (s, [OptRv E_OK])
  | PSetOpt _ _ => (s, [OptRv E_NOTSUP])
  | PTick _ => (s, [])
  end.

Definition resp_poll (s : resp) : ppoll := mkPoll (Some (rs_readable s)) (Some (rs_writable s)).
