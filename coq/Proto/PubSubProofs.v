(* PubSubProofs: SUB -- the prefix decision, delivery per context, independence of
   contexts, the unsubscribe purge, drop rules, subscription bookkeeping, the
   queue invariant, non-blocking receive and the poll-descriptor mirror. *)
From Coq Require Import List Arith NArith Bool Lia.
From NngV Require Import Proto.Common Proto.PushModel Proto.PushProofs Proto.SubModel.
Import ListNotations.

Ltac simp_c := cbn [sc_id sc_topics sc_lmq sc_cap sc_rq sc_prefnew set_lmq set_rq set_topics] in *.
Ltac simp_s := cbn [sb_ctxs sb_recvbuf sb_prefnew sb_readable] in *.

(* ------------------------------------------------------------------ prefix *)
Definition is_prefix (t b : list N) : Prop := exists r, b = t ++ r.

Lemma bytes_eqb_eq a : forall b, bytes_eqb a b = true <-> a = b.
Proof.
  induction a as [|x a IH]; destruct b as [|y b]; cbn; split; intros H; try reflexivity; try discriminate.
  - apply andb_true_iff in H as [H1 H2]. apply N.eqb_eq in H1. apply IH in H2. congruence.
  - inversion H; subst. rewrite N.eqb_refl. cbn. now apply IH.
Qed.

Lemma topic_matches_prefix t b : topic_matches t b = true <-> is_prefix t b.
Proof.
  unfold topic_matches, is_prefix. destruct (length b <? length t) eqn:L.
  - apply Nat.ltb_lt in L. split; [discriminate|]. intros [r ->]. rewrite app_length in L. lia.
  - apply Nat.ltb_ge in L. split.
    + intros H. apply orb_true_iff in H as [H|H].
      * apply Nat.eqb_eq in H. destruct t; [|discriminate]. exists b. reflexivity.
      * apply bytes_eqb_eq in H. exists (skipn (length t) b). rewrite H at 1. symmetry. apply firstn_skipn.
    + intros [r ->]. apply orb_true_iff. right. apply bytes_eqb_eq.
      rewrite firstn_app, Nat.sub_diag, firstn_all. cbn. now rewrite app_nil_r.
Qed.

Theorem matches_correct topics body :
  sub0_matches topics body = true <-> exists t, In t topics /\ is_prefix t body.
Proof.
  unfold sub0_matches. rewrite existsb_exists. split; intros (t & Hin & H); exists t; split; auto; now apply topic_matches_prefix.
Qed.

Lemma matches_empty_topic topics body : In [] topics -> sub0_matches topics body = true.
Proof. intros H. apply matches_correct. exists []. split; auto. exists body. reflexivity. Qed.
Lemma matches_no_topic body : sub0_matches [] body = false.
Proof. reflexivity. Qed.
Lemma matches_longer_never topics body :
  (forall t, In t topics -> length body < length t) -> sub0_matches topics body = false.
Proof.
  intros H. destruct (sub0_matches topics body) eqn:E; [|reflexivity].
  apply matches_correct in E as (t & Hin & r & ->). specialize (H t Hin). rewrite app_length in H. lia.
Qed.

(* ------------------------------------------------------------------ arrival, per context *)
Definition subscribed (c : sctx) (m : pmsg) : Prop := exists t, In t (sc_topics c) /\ is_prefix t (pm_body m).
Definition has_room (c : sctx) : Prop := sc_prefnew c = true \/ length (sc_lmq c) < sc_cap c.

Lemma ctx_accepts_iff c m : ctx_accepts c m = true <-> subscribed c m /\ has_room c.
Proof.
  unfold ctx_accepts, subscribed, has_room, lmq_full. rewrite andb_true_iff, matches_correct, negb_true_iff, andb_false_iff, negb_false_iff.
  rewrite Nat.leb_gt. tauto.
Qed.
Lemma ctx_accepts_false c m : ctx_accepts c m = false <-> ~ (subscribed c m /\ has_room c).
Proof. rewrite <- ctx_accepts_iff. destruct (ctx_accepts c m); split; congruence. Qed.

(* what one arrival does to one context, in the property's words *)
Definition arrival_spec (c : sctx) (m : pmsg) (c' : sctx) (compl : list pout) (dropped : list pmsg) : Prop :=
  (~ (subscribed c m /\ has_room c) -> c' = c /\ compl = [] /\ dropped = []) /\
  (subscribed c m -> has_room c ->
     (forall a r, sc_rq c = a :: r -> c' = set_rq c r /\ compl = [Complete a E_OK (Some m)] /\ dropped = []) /\
     (sc_rq c = [] -> length (sc_lmq c) < sc_cap c -> c' = set_lmq c (sc_lmq c ++ [m]) /\ compl = [] /\ dropped = []) /\
     (sc_rq c = [] -> sc_cap c <= length (sc_lmq c) -> forall old r, sc_lmq c = old :: r ->
        c' = set_lmq c (r ++ [m]) /\ compl = [] /\ dropped = [old])).

Lemma ctx_arrival c m : arrival_spec c m (ctx_after c m) (ctx_compl c m) (ctx_dropped c m).
Proof.
  unfold arrival_spec, ctx_after, ctx_compl, ctx_dropped. split.
  - intros H. apply ctx_accepts_false in H. rewrite H. auto.
  - intros H1 H2. assert (A: ctx_accepts c m = true) by (apply ctx_accepts_iff; auto). rewrite A.
    split; [|split].
    + intros a r E. rewrite E. auto.
    + intros E L. rewrite E. unfold lmq_full. apply Nat.leb_gt in L. rewrite L. auto.
    + intros E L old r Q. rewrite E. unfold lmq_full. apply Nat.leb_le in L. rewrite L, Q. auto.
Qed.

Theorem sub_arrival_law fixed s p m s' outs :
  sub_step fixed s (PRecvDone p 0 m) = (s', outs) ->
  sb_ctxs s' = map (fun c => ctx_after c m) (sb_ctxs s) /\
  (forall a rv x, In (Complete a rv x) outs <-> exists c, In c (sb_ctxs s) /\ In (Complete a rv x) (ctx_compl c m)) /\
  (forall c, In c (sb_ctxs s) -> arrival_spec c m (ctx_after c m) (ctx_compl c m) (ctx_dropped c m)).
Proof.
  intros H. cbn in H. inversion H; subst; clear H. simp_s. split; [reflexivity|]. split; [|intros; apply ctx_arrival].
  intros a rv x. rewrite !in_app_iff. split.
  - intros [H|[H|[H|H]]].
    + apply in_map_iff in H as (? & ? & _). discriminate.
    + destruct (_ || _); cbn in H; [destruct H as [H|[]]; discriminate|destruct H].
    + apply in_flat_map in H. exact H.
    + destruct H as [H|[]]. discriminate.
  - intros (c & Hin & Hc). right. right. left. apply in_flat_map. eauto.
Qed.

(* the result for one context depends on that context and the message only *)
Theorem sub_arrival_independent fixed s1 s2 p1 p2 m i j c :
  nth_error (sb_ctxs s1) i = Some c -> nth_error (sb_ctxs s2) j = Some c ->
  nth_error (sb_ctxs (fst (sub_step fixed s1 (PRecvDone p1 0 m)))) i =
  nth_error (sb_ctxs (fst (sub_step fixed s2 (PRecvDone p2 0 m)))) j.
Proof.
  intros H1 H2. cbn. rewrite !nth_error_map, H1, H2. reflexivity.
Qed.

(* full buffer: exactly one message goes per arrival *)
Theorem sub_full_law c m :
  subscribed c m -> sc_rq c = [] -> sc_cap c <= length (sc_lmq c) -> 1 <= sc_cap c ->
  (sc_prefnew c = true ->
     exists old r, sc_lmq c = old :: r /\ ctx_after c m = set_lmq c (r ++ [m]) /\ ctx_dropped c m = [old] /\
                   length (sc_lmq (ctx_after c m)) = length (sc_lmq c)) /\
  (sc_prefnew c = false -> ctx_after c m = c /\ ctx_compl c m = [] /\ ctx_dropped c m = [] /\ ctx_accepts c m = false).
Proof.
  intros Hs Hr Hf Hc. split; intros Hp.
  - destruct (ctx_arrival c m) as [_ A]. destruct (A Hs (or_introl Hp)) as (_ & _ & A3).
    destruct (sc_lmq c) as [|old r] eqn:Q; [cbn in Hf; lia|].
    destruct (A3 Hr Hf old r eq_refl) as (E1 & _ & E3). exists old, r. repeat split; auto.
    rewrite E1. simp_c. rewrite app_length. cbn. lia.
  - assert (N: ~ (subscribed c m /\ has_room c)).
    { intros [_ [H|H]]; [congruence|lia]. }
    destruct (ctx_arrival c m) as [A _]. destruct (A N) as (E1 & E2 & E3). repeat split; auto.
    now apply ctx_accepts_false.
Qed.

(* ------------------------------------------------------------------ keyed context lists *)
Lemma cid_eqb_eq a b : cid_eqb a b = true <-> a = b.
Proof.
  destruct a, b; cbn; split; intros H; try discriminate; try reflexivity.
  - apply N.eqb_eq in H. congruence.
  - inversion H. apply N.eqb_refl.
Qed.
Lemma cid_eqb_refl a : cid_eqb a a = true. Proof. now apply cid_eqb_eq. Qed.
Lemma cid_eqb_neq a b : cid_eqb a b = false <-> a <> b.
Proof. rewrite <- cid_eqb_eq. destruct (cid_eqb a b); split; congruence. Qed.

Lemma find_ctx_some k cs c : find_ctx k cs = Some c -> In c cs /\ sc_id c = k.
Proof. unfold find_ctx. intros H. apply find_some in H as [H1 H2]. split; auto. now apply cid_eqb_eq. Qed.
Lemma find_ctx_none k cs : find_ctx k cs = None -> ~ In k (map sc_id cs).
Proof.
  unfold find_ctx. intros H Hin. apply in_map_iff in Hin as (c & E & Hin).
  pose proof (find_none _ _ H c Hin) as F. cbn in F. rewrite E, cid_eqb_refl in F. discriminate.
Qed.
Lemma find_ctx_in k cs c : NoDup (map sc_id cs) -> In c cs -> sc_id c = k -> find_ctx k cs = Some c.
Proof.
  unfold find_ctx. induction cs as [|x cs IH]; cbn; intros ND Hin E; [destruct Hin|].
  inversion ND; subst. destruct Hin as [->|Hin].
  - now rewrite cid_eqb_refl.
  - destruct (cid_eqb (sc_id x) (sc_id c)) eqn:F.
    + apply cid_eqb_eq in F. exfalso. apply H1. rewrite F. now apply in_map.
    + apply IH; auto.
Qed.

Lemma upd_ctx_ids k f cs : (forall c, sc_id (f c) = sc_id c) -> map sc_id (upd_ctx k f cs) = map sc_id cs.
Proof.
  intros Hf. unfold upd_ctx. rewrite map_map. apply map_ext. intros c. destruct (cid_eqb (sc_id c) k); auto.
Qed.
Lemma find_upd_same k f cs c :
  (forall c, sc_id (f c) = sc_id c) -> find_ctx k cs = Some c -> find_ctx k (upd_ctx k f cs) = Some (f c).
Proof.
  intros Hf. unfold find_ctx, upd_ctx. induction cs as [|x cs IH]; cbn; [discriminate|].
  destruct (cid_eqb (sc_id x) k) eqn:E.
  - intros H. inversion H; subst. now rewrite Hf, E.
  - rewrite E. exact IH.
Qed.
Lemma find_upd_other k k' f cs :
  (forall c, sc_id (f c) = sc_id c) -> k' <> k -> find_ctx k' (upd_ctx k f cs) = find_ctx k' cs.
Proof.
  intros Hf Hne. unfold find_ctx, upd_ctx. induction cs as [|x cs IH]; cbn; [reflexivity|].
  destruct (cid_eqb (sc_id x) k) eqn:E.
  - rewrite Hf. apply cid_eqb_eq in E. destruct (cid_eqb (sc_id x) k') eqn:E'.
    + apply cid_eqb_eq in E'. congruence.
    + exact IH.
  - destruct (cid_eqb (sc_id x) k'); auto.
Qed.
Lemma others_upd k f cs : (forall c, sc_id (f c) = sc_id c) ->
  filter (fun c => negb (cid_eqb (sc_id c) k)) (upd_ctx k f cs) = filter (fun c => negb (cid_eqb (sc_id c) k)) cs.
Proof.
  intros Hf. unfold upd_ctx. induction cs as [|x cs IH]; cbn; [reflexivity|].
  destruct (cid_eqb (sc_id x) k) eqn:E; cbn.
  - rewrite Hf, E. cbn. exact IH.
  - rewrite E. cbn. now rewrite IH.
Qed.
Lemma in_upd k f cs c' : In c' (upd_ctx k f cs) -> exists c, In c cs /\ (c' = c \/ (sc_id c = k /\ c' = f c)).
Proof.
  unfold upd_ctx. intros H. apply in_map_iff in H as (c & E & Hin). exists c. split; auto.
  destruct (cid_eqb (sc_id c) k) eqn:F; [right|left]; auto. split; auto. now apply cid_eqb_eq.
Qed.

(* operations addressed to context k leave every other context alone *)
Definition targets (o : pop) (k : option ctxid) : Prop :=
  match o with
  | PRecv k' _ _ | PSetOpt k' _ => k' = k
  | PCtxOpen c | PCtxClose c => Some c = k
  | PSockClose => None = k
  | _ => False
  end.
Theorem sub_targeted_independent fixed s o k s' outs :
  targets o k -> sub_step fixed s o = (s', outs) ->
  filter (fun c => negb (cid_eqb (sc_id c) k)) (sb_ctxs s') = filter (fun c => negb (cid_eqb (sc_id c) k)) (sb_ctxs s).
Proof.
  intros T H. destruct o; cbn [targets] in T; try contradiction; subst; cbn [sub_step] in H.
  - (* PRecv *)
    destruct (find_ctx k (sb_ctxs s)) as [c|]; [|inversion H; subst; reflexivity].
    destruct (sc_lmq c); [destruct nb|]; inversion H; subst; simp_s; auto; now apply others_upd.
  - (* PSetOpt *)
    destruct (find_ctx k (sb_ctxs s)) as [c|]; [|inversion H; subst; reflexivity].
    destruct o.
    + destruct k; [|destruct (_ <? _)%N]; inversion H; subst; reflexivity.
    + destruct (_ || _); inversion H; subst; simp_s; auto; now apply others_upd.
    + inversion H; subst; reflexivity.
    + inversion H; subst; reflexivity.
    + inversion H; subst; reflexivity.
    + inversion H; subst; reflexivity.
    + inversion H; subst; simp_s. now apply others_upd.
    + destruct (has_topic t (sc_topics c)); inversion H; subst; simp_s; auto; now apply others_upd.
    + destruct (negb (has_topic t (sc_topics c))); inversion H; subst; simp_s; auto; now apply others_upd.
  - (* PCtxOpen *)
    inversion H; subst; simp_s. rewrite filter_app. cbn. rewrite N.eqb_refl. cbn. now rewrite app_nil_r.
  - (* PCtxClose *)
    destruct (find_ctx (Some c) (sb_ctxs s)); inversion H; subst; simp_s; auto. clear H.
    induction (sb_ctxs s) as [|x l IH]; cbn; [reflexivity|].
    destruct (cid_eqb (sc_id x) (Some c)) eqn:E; cbn; [exact IH|]. rewrite E. cbn. now rewrite IH.
  - (* PSockClose *)
    destruct (find_ctx None (sb_ctxs s)); inversion H; subst; simp_s; auto. now apply others_upd.
Qed.

(* ------------------------------------------------------------------ subscriptions *)
Lemma has_topic_in t ts : has_topic t ts = true <-> In t ts.
Proof.
  unfold has_topic. rewrite existsb_exists. split.
  - intros (x & Hin & H). apply andb_true_iff in H as [_ H]. apply bytes_eqb_eq in H. now subst.
  - intros H. exists t. split; auto. rewrite Nat.eqb_refl. cbn. now apply bytes_eqb_eq.
Qed.
Lemma has_topic_false t ts : has_topic t ts = false <-> ~ In t ts.
Proof. rewrite <- has_topic_in. destruct (has_topic t ts); split; congruence. Qed.

Lemma remove_topic_spec t ts :
  NoDup ts -> NoDup (remove_topic t ts) /\ forall x, In x (remove_topic t ts) <-> In x ts /\ x <> t.
Proof.
  unfold remove_topic. induction ts as [|y ts IH]; intros ND.
  - split; [constructor|]. intros x. cbn. tauto.
  - inversion ND; subst. cbn. destruct ((length y =? length t) && bytes_eqb y t) eqn:E.
    + apply andb_true_iff in E as [_ E]. apply bytes_eqb_eq in E. subst y. split; auto.
      intros x. split.
      * intros Hin. split; [now right|]. intros ->. contradiction.
      * intros [[->|Hin] Hne]; [congruence|auto].
    + assert (Hy: y <> t).
      { intros ->. rewrite Nat.eqb_refl in E. cbn in E. assert (bytes_eqb t t = true) by now apply bytes_eqb_eq. congruence. }
      destruct (IH H2) as [ND' S]. split.
      * constructor; auto. intros Hin. apply S in Hin. tauto.
      * intros x. cbn. rewrite S. split.
        -- intros [->|[A B]]; auto.
        -- intros [[->|A] B]; auto.
Qed.

(* subscribing to a topic already present changes nothing *)
Theorem sub_subscribe_duplicate fixed s k c t :
  find_ctx k (sb_ctxs s) = Some c -> In t (sc_topics c) ->
  sub_step fixed s (PSetOpt k (OSub t)) = (s, [OptRv E_OK]).
Proof. intros F Hin. cbn. rewrite F. apply has_topic_in in Hin. now rewrite Hin. Qed.

Theorem sub_subscribe_new fixed s k c t :
  find_ctx k (sb_ctxs s) = Some c -> ~ In t (sc_topics c) ->
  exists s', sub_step fixed s (PSetOpt k (OSub t)) = (s', [OptRv E_OK]) /\
    find_ctx k (sb_ctxs s') = Some (set_topics c (sc_topics c ++ [t])) /\ sb_readable s' = sb_readable s.
Proof.
  intros F Hin. cbn. rewrite F. apply has_topic_false in Hin. rewrite Hin. eexists. split; [reflexivity|]. simp_s. split; auto.
  apply (find_upd_same k (fun c => set_topics c (sc_topics c ++ [t]))); auto.
Qed.

(* unsubscribing from a topic that is not there: NNG_ENOENT, nothing changes *)
Theorem sub_unsubscribe_unknown fixed s k c t :
  find_ctx k (sb_ctxs s) = Some c -> ~ In t (sc_topics c) ->
  sub_step fixed s (PSetOpt k (OUnsub t)) = (s, [OptRv E_NOENT]).
Proof. intros F Hin. cbn. rewrite F. apply has_topic_false in Hin. now rewrite Hin. Qed.

(* the purge: what stays is exactly what still matches, in the old order; the rest is freed *)
Theorem sub_unsubscribe_law fixed s k c t s' outs :
  find_ctx k (sb_ctxs s) = Some c -> In t (sc_topics c) -> NoDup (sc_topics c) ->
  sub_step fixed s (PSetOpt k (OUnsub t)) = (s', outs) ->
  exists c', find_ctx k (sb_ctxs s') = Some c' /\
    (forall x, In x (sc_topics c') <-> In x (sc_topics c) /\ x <> t) /\ NoDup (sc_topics c') /\
    sc_lmq c' = filter (fun m => sub0_matches (sc_topics c') (pm_body m)) (sc_lmq c) /\
    (forall m, In m (sc_lmq c') -> subscribed c' m) /\
    (forall m, In m (sc_lmq c) -> subscribed c' m -> In m (sc_lmq c')) /\
    freed outs = filter (fun m => negb (sub0_matches (sc_topics c') (pm_body m))) (sc_lmq c) /\
    In (OptRv E_OK) outs /\
    sc_id c' = sc_id c /\ sc_cap c' = sc_cap c /\ sc_rq c' = sc_rq c /\ sc_prefnew c' = sc_prefnew c.
Proof.
  intros F Hin ND H. cbn in H. rewrite F in H. apply has_topic_in in Hin. rewrite Hin in H. cbn [negb] in H.
  inversion H; subst; clear H. simp_s.
  set (ts := remove_topic t (sc_topics c)).
  exists (set_lmq (set_topics c ts) (filter (fun m => sub0_matches ts (pm_body m)) (sc_lmq c))).
  destruct (remove_topic_spec t (sc_topics c) ND) as [ND' S].
  split; [apply (find_upd_same k (fun c0 => set_lmq (set_topics c0 ts) (filter (fun m => sub0_matches ts (pm_body m)) (sc_lmq c)))); auto|].
  simp_c. split; [intros x; apply S|]. split; [exact ND'|]. split; [reflexivity|].
  split; [|split; [|split; [|split; [|repeat split; auto]]]].
  - intros m Hm. apply filter_In in Hm as [_ Hm]. apply matches_correct in Hm. exact Hm.
  - intros m Hm Hs. apply filter_In. split; auto. apply matches_correct. exact Hs.
  - rewrite freed_app, freed_map_Free. cbn. now rewrite app_nil_r.
  - apply in_or_app. right. now left.
Qed.

(* ------------------------------------------------------------------ the invariant *)
Definition ctx_ok (c : sctx) : Prop :=
  (forall m, In m (sc_lmq c) -> sub0_matches (sc_topics c) (pm_body m) = true) /\
  (sc_rq c <> [] -> sc_lmq c = []) /\
  length (sc_lmq c) <= sc_cap c /\ 1 <= sc_cap c /\ NoDup (sc_topics c).
Definition SInv (s : sub) : Prop :=
  Forall ctx_ok (sb_ctxs s) /\ NoDup (map sc_id (sb_ctxs s)) /\ 1 <= sb_recvbuf s.

Lemma matches_mono ts t b : sub0_matches ts b = true -> sub0_matches (ts ++ [t]) b = true.
Proof. unfold sub0_matches. rewrite existsb_app. intros ->. reflexivity. Qed.

Lemma ctx_after_ok c m : ctx_ok c -> ctx_ok (ctx_after c m).
Proof.
  intros (I1 & I2 & I3 & I4 & I5). unfold ctx_after. destruct (ctx_accepts c m) eqn:A; [|repeat split; auto].
  apply andb_true_iff in A as [_ A]. destruct (sc_rq c) as [|a rest] eqn:R.
  - unfold lmq_full. destruct (sc_cap c <=? length (sc_lmq c)) eqn:L.
    + destruct (sc_lmq c) as [|old r] eqn:Q; [repeat split; auto; rewrite ?Q; auto|].
      unfold ctx_ok. simp_c. rewrite R. repeat split; auto.
      * intros x Hx. apply in_app_or in Hx as [Hx|[<-|[]]]; auto. apply I1. now right.
      * congruence.
      * cbn in I3. rewrite app_length. cbn. lia.
    + apply Nat.leb_gt in L. unfold ctx_ok. simp_c. rewrite R. repeat split; auto.
      * intros x Hx. apply in_app_or in Hx as [Hx|[<-|[]]]; auto.
      * congruence.
      * rewrite app_length. cbn. lia.
  - unfold ctx_ok. simp_c. repeat split; auto. intros _. apply I2. congruence.
Qed.

Lemma forall_upd k f cs : Forall ctx_ok cs -> (forall c, In c cs -> sc_id c = k -> ctx_ok c -> ctx_ok (f c)) -> Forall ctx_ok (upd_ctx k f cs).
Proof.
  intros H Hf. apply Forall_forall. intros c' Hin. apply in_upd in Hin as (c & Hc & [->|[E ->]]).
  - eapply Forall_forall; eauto.
  - apply Hf; auto. eapply Forall_forall; eauto.
Qed.

Lemma filter_len_le {A} (f : A -> bool) (l : list A) : length (filter f l) <= length l.
Proof. induction l as [|x l IH]; cbn; [lia|]. destruct (f x); cbn; lia. Qed.
Lemma firstn_in {A} n (l : list A) x : In x (firstn n l) -> In x l.
Proof. revert l. induction n; destruct l; cbn; try tauto. intros [->|H]; auto. Qed.

Definition sub_op_ok (s : sub) (o : pop) : Prop :=
  match o with
  | PCtxOpen k => ~ In (Some k) (map sc_id (sb_ctxs s))
  | _ => True
  end.

Theorem sub_step_inv fixed s o s' outs :
  SInv s -> sub_op_ok s o -> sub_step fixed s o = (s', outs) -> SInv s'.
Proof.
  intros (I1 & I2 & I3) Hok H. unfold SInv.
  destruct o as [k a nb m|k a nb|a rv|p peer|p|p rv|p rv m|k op|k|k| |now]; cbn [sub_step sub_op_ok] in *.
  - inversion H; subst; auto.
  - destruct (find_ctx k (sb_ctxs s)) as [c|] eqn:F; [|inversion H; subst; auto].
    destruct (sc_lmq c) as [|m rest] eqn:Q.
    + destruct nb; inversion H; subst; simp_s; auto. repeat split; auto.
      * apply forall_upd; auto. intros c0 Hin E (A & B & C & D & G). unfold ctx_ok. simp_c. repeat split; auto.
        intros _. apply find_ctx_some in F as [Fin Fid].
        assert (c0 = c). { assert (X: find_ctx k (sb_ctxs s) = Some c0) by (apply find_ctx_in; auto).
                           assert (Y: find_ctx k (sb_ctxs s) = Some c) by (apply find_ctx_in; auto). congruence. }
        now subst.
      * rewrite upd_ctx_ids; auto.
    + inversion H; subst; simp_s. repeat split; auto.
      * apply forall_upd; auto. intros c0 Hin E (A & B & C & D & G).
        apply find_ctx_some in F as [Fin Fid].
        assert (c0 = c). { assert (X: find_ctx k (sb_ctxs s) = Some c0) by (apply find_ctx_in; auto).
                           assert (Y: find_ctx k (sb_ctxs s) = Some c) by (apply find_ctx_in; auto). congruence. }
        subst c0. unfold ctx_ok. simp_c. rewrite Q in *. repeat split; auto.
        -- intros x Hx. apply A. now right.
        -- intros Hr. specialize (B Hr). discriminate.
        -- cbn in C. lia.
      * rewrite upd_ctx_ids; auto.
  - destruct (existsb _ _); inversion H; subst; simp_s; auto. repeat split; auto.
    + apply Forall_forall. intros c' Hin. apply in_map_iff in Hin as (c & <- & Hin).
      pose proof (proj1 (Forall_forall _ _) I1 c Hin) as (A & B & C & D & G). unfold ctx_ok. simp_c. repeat split; auto.
      intros Hr. apply B. intros E. rewrite E in Hr. apply Hr. reflexivity.
    + rewrite map_map. cbn. exact I2.
  - destruct (negb _); inversion H; subst; auto.
  - inversion H; subst; auto.
  - inversion H; subst; auto.
  - destruct (negb (rv =? 0)%N); inversion H; subst; simp_s; auto. repeat split; auto.
    + apply Forall_forall. intros c' Hin. apply in_map_iff in Hin as (c & <- & Hin). apply ctx_after_ok.
      eapply Forall_forall; eauto.
    + rewrite map_map. erewrite map_ext; [exact I2|]. intros c. unfold ctx_after.
      destruct (ctx_accepts c m); auto. destruct (sc_rq c); auto. destruct (lmq_full c); auto. destruct (sc_lmq c); auto.
  - destruct (find_ctx k (sb_ctxs s)) as [c|] eqn:F; [|inversion H; subst; auto].
    pose proof (find_ctx_some _ _ _ F) as [Fin Fid].
    assert (U: forall c0, In c0 (sb_ctxs s) -> sc_id c0 = k -> c0 = c).
    { intros c0 Hin E. assert (X: find_ctx k (sb_ctxs s) = Some c0) by (apply find_ctx_in; auto). congruence. }
    destruct op.
    + destruct k; [|destruct (_ <? _)%N]; inversion H; subst; auto.
    + destruct (_ || _) eqn:R; inversion H; subst; simp_s; auto.
      apply orb_false_iff in R as [R1 R2]. apply N.ltb_ge in R1. unfold SUB_RECVBUF_MIN in R1.
      repeat split; auto.
      * apply forall_upd; auto. intros c0 Hin E (A & B & C & D & G). unfold ctx_ok. simp_c. repeat split; auto.
        -- intros x Hx. apply A. eapply firstn_in; eauto.
        -- intros Hr. rewrite (B Hr). now rewrite firstn_nil.
        -- rewrite firstn_length. lia.
        -- lia.
      * rewrite upd_ctx_ids; auto.
      * destruct (is_master c); lia.
    + inversion H; subst; auto.
    + inversion H; subst; auto.
    + inversion H; subst; auto.
    + inversion H; subst; auto.
    + inversion H; subst; simp_s. repeat split; auto.
      * apply forall_upd; auto.
      * rewrite upd_ctx_ids; auto.
    + destruct (has_topic t (sc_topics c)) eqn:HT; inversion H; subst; simp_s; auto. repeat split; auto.
      * apply forall_upd; auto. intros c0 Hin E (A & B & C & D & G). rewrite (U c0 Hin E) in *. unfold ctx_ok. simp_c.
        repeat split; auto.
        -- intros x Hx. apply matches_mono. auto.
        -- apply has_topic_false in HT. clear - G HT. induction (sc_topics c) as [|y l IH]; cbn.
           ++ constructor; [tauto|constructor].
           ++ inversion G; subst. constructor.
              ** intros Hin. apply in_app_or in Hin as [Hin|[<-|[]]]; auto. apply HT. now left.
              ** apply IH; auto. intros Hin. apply HT. now right.
      * rewrite upd_ctx_ids; auto.
    + destruct (negb (has_topic t (sc_topics c))) eqn:HT; inversion H; subst; simp_s; auto. repeat split; auto.
      * apply forall_upd; auto. intros c0 Hin E (A & B & C & D & G). rewrite (U c0 Hin E) in *. unfold ctx_ok. simp_c.
        destruct (remove_topic_spec t (sc_topics c) G) as [ND' _]. repeat split; auto.
        -- intros x Hx. apply filter_In in Hx as [_ Hx]. exact Hx.
        -- intros Hr. rewrite (B Hr). reflexivity.
        -- pose proof (filter_len_le (fun m => sub0_matches (remove_topic t (sc_topics c)) (pm_body m)) (sc_lmq c)). lia.
      * rewrite upd_ctx_ids; auto.
  - inversion H; subst; simp_s. repeat split; auto.
    + apply Forall_app. split; auto. constructor; [|constructor]. unfold ctx_ok. simp_c. repeat split; auto; try (cbn; lia); try constructor.
    + rewrite map_app. cbn. clear - I2 Hok. induction (map sc_id (sb_ctxs s)) as [|y l IH]; cbn.
      * constructor; [tauto|constructor].
      * inversion I2; subst. constructor.
        -- intros Hin. apply in_app_or in Hin as [Hin|[<-|[]]]; auto. apply Hok. now left.
        -- apply IH; auto. intros Hin. apply Hok. now right.
  - destruct (find_ctx (Some k) (sb_ctxs s)) as [c|]; inversion H; subst; simp_s; auto. repeat split; auto.
    + apply Forall_forall. intros c' Hin. apply filter_In in Hin as [Hin _]. eapply Forall_forall; eauto.
    + clear - I2. induction (sb_ctxs s) as [|x l IH]; cbn; [constructor|]. inversion I2; subst.
      destruct (negb _); cbn; auto. constructor; auto. intros Hin. apply H1.
      apply in_map_iff in Hin as (c & E & Hin). apply filter_In in Hin as [Hin _]. rewrite <- E. now apply in_map.
  - destruct (find_ctx None (sb_ctxs s)) as [c|]; inversion H; subst; simp_s; auto. repeat split; auto.
    + apply forall_upd; auto. intros c0 Hin E (A & B & C & D & G). unfold ctx_ok. simp_c. repeat split; auto; try (cbn; lia).
    + rewrite upd_ctx_ids; auto.
  - inversion H; subst; auto.
Qed.

Lemma sub_init_inv : SInv sub_init.
Proof.
  unfold SInv, sub_init. simp_s. repeat split.
  - constructor; [|constructor]. unfold ctx_ok, master_init. simp_c. repeat split; try (cbn; lia); try (unfold SUB_DEFAULT_RECV_BUF; lia); try constructor; try (intros x []).
  - cbn. constructor; [tauto|constructor].
  - unfold SUB_DEFAULT_RECV_BUF. lia.
Qed.

(* every queued body matches a current topic of its own context, in every reachable state *)
Corollary queued_matches s c m : SInv s -> In c (sb_ctxs s) -> In m (sc_lmq c) -> subscribed c m.
Proof.
  intros (I1 & _) Hc Hm. pose proof (proj1 (Forall_forall _ _) I1 c Hc) as (A & _). apply matches_correct. auto.
Qed.

(* ------------------------------------------------------------------ non-blocking receive *)
Theorem sub_nb_recv fixed s k a s' outs :
  sub_step fixed s (PRecv k a true) = (s', outs) ->
  exists rv x, outs = [Complete a rv x] /\
    (forall c, In c (sb_ctxs s') -> ~ In a (sc_rq c) \/ exists c0, In c0 (sb_ctxs s) /\ In a (sc_rq c0)) /\
    (rv = E_AGAIN -> s' = s /\ x = None /\ exists c, find_ctx k (sb_ctxs s) = Some c /\ sc_lmq c = []) /\
    (rv = E_OK -> exists c m rest, find_ctx k (sb_ctxs s) = Some c /\ sc_lmq c = m :: rest /\ x = Some m /\
                  find_ctx k (sb_ctxs s') = Some (set_lmq c rest)) /\
    (rv = E_AGAIN \/ rv = E_OK \/ (rv = E_CLOSED /\ find_ctx k (sb_ctxs s) = None /\ s' = s)).
Proof.
  intros H. cbn in H. destruct (find_ctx k (sb_ctxs s)) as [c|] eqn:F.
  - destruct (sc_lmq c) as [|m rest] eqn:Q; inversion H; subst; clear H.
    + exists E_AGAIN, None. repeat split; auto; try discriminate.
      * intros c0 Hc. destruct (in_dec N.eq_dec a (sc_rq c0)); [right; eauto|left; auto].
      * eauto.
    + exists E_OK, (Some m). simp_s. repeat split; auto; try discriminate.
      * intros c0 Hc. apply in_upd in Hc as (c1 & Hc1 & [->|[_ ->]]); simp_c;
          (destruct (in_dec N.eq_dec a (sc_rq c1)); [right; eauto|left; auto]).
      * intros _. exists c, m, rest. repeat split; auto.
        apply (find_upd_same k (fun c => set_lmq c rest)); auto.
  - inversion H; subst. exists E_CLOSED, None. repeat split; auto; try discriminate.
    intros c0 Hc. destruct (in_dec N.eq_dec a (sc_rq c0)); [right; eauto|left; auto].
Qed.

(* the blocking form is queued exactly when the non-blocking form answers NNG_EAGAIN *)
Theorem sub_blocking_queues_iff fixed s k a c :
  find_ctx k (sb_ctxs s) = Some c ->
  (sc_lmq c = [] <-> snd (sub_step fixed s (PRecv k a false)) = []) /\
  (sc_lmq c = [] <-> snd (sub_step fixed s (PRecv k a true)) = [Complete a E_AGAIN None]).
Proof.
  intros F. cbn. rewrite F. destruct (sc_lmq c); cbn; split; split; intros H; auto; try discriminate.
Qed.

(* ------------------------------------------------------------------ the recv descriptor *)
Definition master_nonempty (s : sub) : bool :=
  match find_ctx None (sb_ctxs s) with Some c => negb (lmq_empty c) | None => false end.
(* raised <-> a non-blocking receive on the socket would not answer NNG_EAGAIN *)
Definition RInv (s : sub) : Prop := sb_readable s = master_nonempty s.
(* the half that holds even without the repair: no missed wake-up *)
Definition RInvHalf (s : sub) : Prop := master_nonempty s = true -> sb_readable s = true.

Lemma master_nonempty_recv fixed s a :
  master_nonempty s = true <-> exists m, snd (sub_step fixed s (PRecv None a true)) = [Complete a E_OK (Some m)].
Proof.
  unfold master_nonempty. cbn. destruct (find_ctx None (sb_ctxs s)) as [c|].
  - unfold lmq_empty. destruct (sc_lmq c); cbn; split; intros H; try discriminate; eauto. destruct H; discriminate.
  - cbn. split; [discriminate|]. intros [m H]. discriminate.
Qed.

Lemma existsb_master (f : sctx -> bool) cs :
  NoDup (map sc_id cs) ->
  existsb (fun c => is_master c && f c) cs = match find_ctx None cs with Some c => f c | None => false end.
Proof.
  unfold find_ctx, is_master. induction cs as [|x cs IH]; cbn; intros ND; [reflexivity|]. inversion ND; subst.
  destruct (cid_eqb (sc_id x) None) eqn:E; cbn.
  - destruct (f x); [reflexivity|]. cbn.
    apply cid_eqb_eq in E. clear - E H1. induction cs as [|y l IH]; cbn; [reflexivity|].
    destruct (cid_eqb (sc_id y) None) eqn:F.
    + apply cid_eqb_eq in F. exfalso. apply H1. left. congruence.
    + cbn. apply IH. intros Hin. apply H1. now right.
  - now apply IH.
Qed.

Lemma find_map_after m cs : find_ctx None (map (fun c => ctx_after c m) cs) = option_map (fun c => ctx_after c m) (find_ctx None cs).
Proof.
  unfold find_ctx. induction cs as [|x cs IH]; cbn; [reflexivity|].
  assert (E: sc_id (ctx_after x m) = sc_id x).
  { unfold ctx_after. destruct (ctx_accepts x m); auto. destruct (sc_rq x); auto. destruct (lmq_full x); auto. destruct (sc_lmq x); auto. }
  rewrite E. destruct (cid_eqb (sc_id x) None); auto.
Qed.

Theorem sub_readable_step fixed s o s' outs :
  SInv s -> sub_step fixed s o = (s', outs) ->
  (RInvHalf s -> RInvHalf s') /\ (fixed = true -> RInv s -> RInv s').
Proof.
  intros (I1 & I2 & I3) H.
  assert (KEEP: sb_ctxs s' = sb_ctxs s -> sb_readable s' = sb_readable s -> (RInvHalf s -> RInvHalf s') /\ (fixed = true -> RInv s -> RInv s')).
  { intros E1 E2. unfold RInvHalf, RInv, master_nonempty. rewrite E1, E2. tauto. }
  destruct o as [k a nb m|k a nb|a rv|p peer|p|p rv|p rv m|k op|k|k| |now]; cbn [sub_step] in H;
    try (inversion H; subst; apply KEEP; reflexivity).
  - (* PRecv *)
    destruct (find_ctx k (sb_ctxs s)) as [c|] eqn:F; [|inversion H; subst; apply KEEP; reflexivity].
    pose proof (find_ctx_some _ _ _ F) as [Fin Fid].
    destruct (sc_lmq c) as [|m rest] eqn:Q.
    + destruct nb; inversion H; subst; [apply KEEP; reflexivity|]. simp_s.
      unfold RInvHalf, RInv, master_nonempty. simp_s.
      destruct (cid_eqb (sc_id c) None) eqn:E.
      * apply cid_eqb_eq in E. rewrite E in *.
        rewrite (find_upd_same None (fun c => set_rq c (sc_rq c ++ [a])) _ c); auto.
        rewrite F. unfold lmq_empty. simp_c. tauto.
      * apply cid_eqb_neq in E. rewrite find_upd_other by (try congruence; auto). tauto.
    + inversion H; subst; clear H. simp_s. unfold RInvHalf, RInv, master_nonempty. simp_s. unfold is_master.
      destruct (cid_eqb (sc_id c) None) eqn:E.
      * apply cid_eqb_eq in E. rewrite E in *.
        rewrite (find_upd_same None (fun c => set_lmq c rest) _ c); auto.
        rewrite F. unfold lmq_empty. simp_c. rewrite Q. destruct rest; cbn; [split; intros; [discriminate|reflexivity]|].
        tauto.
      * apply cid_eqb_neq in E. rewrite find_upd_other by (try congruence; auto). rewrite andb_false_r. tauto.
  - (* PCancel *)
    destruct (existsb _ _); inversion H; subst; [|apply KEEP; reflexivity]. simp_s.
    unfold RInvHalf, RInv, master_nonempty. simp_s.
    assert (E: find_ctx None (map (fun c => set_rq c (remove_id a (sc_rq c))) (sb_ctxs s)) =
               option_map (fun c => set_rq c (remove_id a (sc_rq c))) (find_ctx None (sb_ctxs s))).
    { unfold find_ctx. clear. induction (sb_ctxs s) as [|x l IH]; cbn; [reflexivity|]. destruct (cid_eqb (sc_id x) None); auto. }
    rewrite E. destruct (find_ctx None (sb_ctxs s)); cbn; unfold lmq_empty; simp_c; tauto.
  - destruct (negb _); inversion H; subst; apply KEEP; reflexivity.
  - (* PRecvDone *)
    destruct (negb (rv =? 0)%N); inversion H; subst; [apply KEEP; reflexivity|]. clear H. simp_s.
    unfold RInvHalf, RInv, master_nonempty. simp_s. rewrite find_map_after, existsb_master by auto.
    destruct (find_ctx None (sb_ctxs s)) as [c|] eqn:F; cbn [option_map].
    + pose proof (find_ctx_some _ _ _ F) as [Fin _].
      pose proof (proj1 (Forall_forall _ _) I1 c Fin) as (A & B & C & D & G).
      unfold ctx_queued, ctx_after, lmq_empty. destruct (ctx_accepts c m); cbn [andb]; [|tauto].
      destruct (sc_rq c) as [|a0 r0] eqn:R.
      * cbn [orb]. unfold lmq_full. destruct (sc_cap c <=? length (sc_lmq c)) eqn:L.
        -- destruct (sc_lmq c) as [|old r] eqn:Q; [apply Nat.leb_le in L; cbn in L; lia|].
           simp_c. destruct (r ++ [m]) eqn:X; [destruct r; discriminate|]. cbn. tauto.
        -- simp_c. destruct (sc_lmq c ++ [m]) eqn:X; [destruct (sc_lmq c); discriminate|]. cbn. tauto.
      * simp_c. rewrite B by congruence. cbn. tauto.
    + cbn. tauto.
  - (* PSetOpt *)
    destruct (find_ctx k (sb_ctxs s)) as [c|] eqn:F; [|inversion H; subst; apply KEEP; reflexivity].
    pose proof (find_ctx_some _ _ _ F) as [Fin Fid].
    pose proof (proj1 (Forall_forall _ _) I1 c Fin) as (A & B & C & D & G).
    assert (GEN: forall f r', (forall c, sc_id (f c) = sc_id c) ->
               (is_master c = true -> (lmq_empty (f c) = lmq_empty c /\ r' = sb_readable s) \/
                                      (lmq_empty (f c) = true /\ (r' = false \/ (fixed = false /\ r' = sb_readable s)))) ->
               (is_master c = false -> r' = sb_readable s) ->
               forall rb pn, (RInvHalf s -> RInvHalf (mkSub (upd_ctx k f (sb_ctxs s)) rb pn r')) /\
                             (fixed = true -> RInv s -> RInv (mkSub (upd_ctx k f (sb_ctxs s)) rb pn r'))).
    { intros f r' Hf HM HN rb pn. unfold RInvHalf, RInv, master_nonempty. simp_s. unfold is_master in *.
      destruct (cid_eqb (sc_id c) None) eqn:E.
      - apply cid_eqb_eq in E. assert (K: k = None) by congruence. rewrite K in *.
        rewrite (find_upd_same None f _ c); auto. rewrite F.
        destruct (HM eq_refl) as [[X ->]|[X [->|[-> ->]]]]; rewrite X; cbn; split; intros; try discriminate; try reflexivity; tauto.
      - apply cid_eqb_neq in E. rewrite find_upd_other by (try congruence; auto). rewrite (HN eq_refl). tauto. }
    destruct op; try (inversion H; subst; apply KEEP; reflexivity).
    + destruct k; [|destruct (_ <? _)%N]; inversion H; subst; apply KEEP; reflexivity.
    + destruct (_ || _) eqn:R; inversion H; subst; [apply KEEP; reflexivity|]. clear H.
      apply orb_false_iff in R as [R1 R2]. apply N.ltb_ge in R1. unfold SUB_RECVBUF_MIN in R1.
      apply GEN; auto. intros _. left. split; auto. unfold lmq_empty. simp_c.
      destruct (sc_lmq c); [now rewrite firstn_nil|]. destruct n; [lia|reflexivity].
    + inversion H; subst. apply GEN; auto.
    + destruct (has_topic t (sc_topics c)); inversion H; subst; [apply KEEP; reflexivity|]. apply GEN; auto.
    + destruct (negb (has_topic t (sc_topics c))); inversion H; subst; [apply KEEP; reflexivity|]. clear H.
      apply GEN; auto.
      * intros M. rewrite M, andb_true_r. unfold lmq_empty. simp_c.
        destruct (filter _ (sc_lmq c)) eqn:X.
        -- right. split; auto. destruct fixed; cbn; auto.
        -- left. split; [|destruct fixed; reflexivity]. destruct (sc_lmq c); [discriminate|reflexivity].
      * intros M. rewrite M, andb_false_r. reflexivity.
  - (* PCtxOpen *)
    inversion H; subst; clear H. simp_s. unfold RInvHalf, RInv, master_nonempty. simp_s.
    assert (E: find_ctx None (sb_ctxs s ++ [mkSctx (Some k) [] [] (sb_recvbuf s) [] (sb_prefnew s)]) = find_ctx None (sb_ctxs s)).
    { unfold find_ctx. clear. induction (sb_ctxs s) as [|x l IH]; cbn; [reflexivity|]. destruct (cid_eqb (sc_id x) None); auto. }
    rewrite E. tauto.
  - (* PCtxClose *)
    destruct (find_ctx (Some k) (sb_ctxs s)); inversion H; subst; [|apply KEEP; reflexivity]. clear H. simp_s.
    unfold RInvHalf, RInv, master_nonempty. simp_s.
    assert (E: find_ctx None (filter (fun c => negb (cid_eqb (sc_id c) (Some k))) (sb_ctxs s)) = find_ctx None (sb_ctxs s)).
    { unfold find_ctx. clear. induction (sb_ctxs s) as [|x l IH]; cbn; [reflexivity|].
      destruct (cid_eqb (sc_id x) (Some k)) eqn:E1; cbn.
      - apply cid_eqb_eq in E1. rewrite E1. cbn. exact IH.
      - destruct (cid_eqb (sc_id x) None); auto. }
    rewrite E. tauto.
  - (* PSockClose *)
    destruct (find_ctx None (sb_ctxs s)) as [c|] eqn:F; inversion H; subst; [|apply KEEP; reflexivity]. clear H. simp_s.
    unfold RInvHalf, RInv, master_nonempty. simp_s.
    rewrite (find_upd_same None (fun c => set_lmq (set_rq c []) []) _ c); auto.
Qed.

Lemma sub_init_rinv : RInv sub_init /\ RInvHalf sub_init.
Proof. split; [reflexivity|]. intros H. discriminate. Qed.

(* ---- histories ---- *)
Fixpoint sub_run (fixed : bool) (s : sub) (ops : list pop) : sub * list (pop * sub * list pout) :=
  match ops with
  | [] => (s, [])
  | o :: r => let (s1, outs) := sub_step fixed s o in
              let (s2, tr) := sub_run fixed s1 r in (s2, (o, s, outs) :: tr)
  end.
Fixpoint sub_ops_ok (fixed : bool) (s : sub) (ops : list pop) : Prop :=
  match ops with
  | [] => True
  | o :: r => sub_op_ok s o /\ sub_ops_ok fixed (fst (sub_step fixed s o)) r
  end.

Theorem sub_run_inv fixed ops : forall s, SInv s -> sub_ops_ok fixed s ops ->
  let s' := fst (sub_run fixed s ops) in
  SInv s' /\ (RInvHalf s -> RInvHalf s') /\ (fixed = true -> RInv s -> RInv s') /\
  (forall o st outs, In (o, st, outs) (snd (sub_run fixed s ops)) -> SInv st).
Proof.
  induction ops as [|o r IH]; intros s HI Hok; cbn [sub_run].
  - cbn. split; [exact HI|]. split; [auto|]. split; [auto|]. intros o st outs [].
  - cbn [sub_ops_ok] in Hok. destruct Hok as [Ho Hr]. destruct (sub_step fixed s o) as [s1 outs] eqn:S. cbn [fst] in Hr.
    pose proof (sub_step_inv _ _ _ _ _ HI Ho S) as HI1. destruct (sub_readable_step _ _ _ _ _ HI S) as [R1 R2].
    specialize (IH s1 HI1 Hr). destruct (sub_run fixed s1 r) as [s2 tr]. cbn [fst snd] in *.
    destruct IH as (A & B & C & D). split; [exact A|]. split; [auto|]. split; [auto|].
    intros o0 st outs0 [E|Hin]; [inversion E; subst; auto|eauto].
Qed.

(* the pinned form of sub0_ctx_unsubscribe breaks the mirror: a reachable state with the
   descriptor raised in which a non-blocking receive answers NNG_EAGAIN *)
Definition refute_ops : list pop :=
  [PPipeStart 1%N PROTO_PUB; PSetOpt None (OSub [97%N]); PRecvDone 1%N 0%N (mkPmsg [] [97%N; 98%N; 99%N]);
   PSetOpt None (OUnsub [97%N])].
Theorem sub_mirror_refuted_witness :
  sub_ops_ok false sub_init refute_ops /\
  let s := fst (sub_run false sub_init refute_ops) in
  poll_r (sub_poll s) = Some true /\ snd (sub_step false s (PRecv None 9%N true)) = [Complete 9%N E_AGAIN None].
Proof. split; [cbn; tauto|]. vm_compute. split; reflexivity. Qed.
(* ... and the repaired form does not, on the same history *)
Theorem sub_mirror_fixed_same_history :
  poll_r (sub_poll (fst (sub_run true sub_init refute_ops))) = Some false.
Proof. vm_compute. reflexivity. Qed.
