(* ReqProgressProofs: C12, the induction over the position in the send queue.
   A request at position i of rq_sendq (no pipe ready) is transmitted within the
   next i+1 pipe-ready events (PPipeStart of a REP peer): each such event takes
   exactly the head of the queue, transmits its request on the new pipe and
   leaves "no pipe ready" again with the rest of the queue and every context's
   request unchanged. *)
From Coq Require Import List Arith NArith Bool ZArith Lia.
From NngV Require Import Proto.Common Proto.ReqRepBacktrace Proto.ReqModel Proto.ReqRepProofs Proto.ReqProofs
                         Proto.PollModel Proto.PollReq.
Import ListNotations.

Definition starts (ps : list pid) : list pop := map (fun p => PPipeStart p PROTO_REP) ps.

(* fold of req_step collecting all outputs *)
Fixpoint run_outs (fx : rfix) (s : req) (ops : list pop) : req * list pout :=
  match ops with
  | [] => (s, [])
  | o :: r => let '(s1, o1) := req_step fx s o in
              let '(s2, o2) := run_outs fx s1 r in (s2, o1 ++ o2)
  end.

Lemma run_outs_cons fx s o r :
  run_outs fx s (o :: r) =
  (fst (run_outs fx (fst (req_step fx s o)) r), snd (req_step fx s o) ++ snd (run_outs fx (fst (req_step fx s o)) r)).
Proof.
  cbn [run_outs]. destruct (req_step fx s o) as [s1 o1]. cbn [fst snd].
  destruct (run_outs fx s1 r) as [s2 o2]. reflexivity.
Qed.

(* run_outs and PollModel's prun walk through the same states *)
Lemma run_outs_prun fx : forall ops s, fst (run_outs fx s ops) = prun (M_req fx) s ops.
Proof.
  induction ops as [|o r IH]; intros s; [reflexivity|].
  rewrite run_outs_cons. cbn [fst prun]. rewrite IH. reflexivity.
Qed.

(* ------------------------------------------------------------------ *)
(* one pipe-ready event with no pipe ready before: exactly the head of the send
   queue is taken *)
Lemma pipe_start_takes_head fx s p k0 sq c0 m0 :
  rq_ready s = [] -> rq_sendq s = k0 :: sq -> ctx_get s k0 = Some c0 -> cx_req c0 = Some m0 ->
  exists s' outs c0',
    req_step fx s (PPipeStart p PROTO_REP) = (s', outs) /\
    rq_ready s' = [] /\ rq_sendq s' = sq /\ In (TranSend p m0) outs /\
    cx_req c0' = Some m0 /\ rq_ctxs s' = assoc_set k0 c0' (rq_ctxs s).
Proof.
  intros Hr Hs Hg Hq. unfold req_step, req_stepL.
  change (negb (PROTO_REP =? PROTO_REP)%N) with false. cbv iota.
  unfold run_send_queue. cbn [rq_sendq set_writable set_pipes]. rewrite Hs. cbn [length run_sendq].
  cbn [rq_sendq rq_ready set_writable set_pipes]. rewrite Hs, Hr. cbn [app].
  unfold ctx_get in *. cbn [rq_ctxs set_writable set_pipes]. rewrite Hg, Hq. cbv zeta.
  destruct (retry_on fx c0).
  - rewrite run_sendq_noready by reflexivity.
    do 3 eexists. split; [reflexivity|]. split; [reflexivity|]. split; [reflexivity|]. split.
    { apply in_or_app. left. apply in_or_app. right. left. reflexivity. }
    split; [|reflexivity]. reflexivity.
  - rewrite run_sendq_noready by reflexivity.
    do 3 eexists. split; [reflexivity|]. split; [reflexivity|]. split; [reflexivity|]. split.
    { apply in_or_app. left. apply in_or_app. right. left. reflexivity. }
    split; [|reflexivity]. reflexivity.
Qed.

Lemma pipe_start_keeps_requests fx s p k0 sq c0 m0 :
  rq_ready s = [] -> rq_sendq s = k0 :: sq -> ctx_get s k0 = Some c0 -> cx_req c0 = Some m0 ->
  exists s' outs,
    req_step fx s (PPipeStart p PROTO_REP) = (s', outs) /\
    rq_ready s' = [] /\ rq_sendq s' = sq /\ In (TranSend p m0) outs /\
    (forall k c m, ctx_get s k = Some c -> cx_req c = Some m ->
       exists c', ctx_get s' k = Some c' /\ cx_req c' = Some m).
Proof.
  intros Hr Hs Hg Hq.
  destruct (pipe_start_takes_head fx s p k0 sq c0 m0 Hr Hs Hg Hq) as (s' & outs & c0' & E & R1 & R2 & R3 & R4 & R5).
  exists s', outs. split; [exact E|]. split; [exact R1|]. split; [exact R2|]. split; [exact R3|].
  intros k c m Gk Qk. unfold ctx_get in *. rewrite R5.
  destruct (N.eq_dec k k0) as [->|Hne].
  - rewrite lookup_assoc_set_same. exists c0'. split; [reflexivity|].
    rewrite Hg in Gk. inversion Gk; subst c. congruence.
  - rewrite lookup_assoc_set_other by exact Hne. exists c. split; [exact Gk|exact Qk].
Qed.

(* ------------------------------------------------------------------ *)
(* the induction over the position in the send queue *)
Theorem req_queue_position_progress : forall fx ps s pre k post c m,
  rq_ready s = [] ->
  rq_sendq s = pre ++ k :: post ->
  (forall k', In k' (rq_sendq s) -> exists c' m', ctx_get s k' = Some c' /\ cx_req c' = Some m') ->
  ctx_get s k = Some c -> cx_req c = Some m ->
  length ps = S (length pre) ->
  exists p, In p ps /\ In (TranSend p m) (snd (run_outs fx s (starts ps))).
Proof.
  intros fx ps s pre. revert ps s.
  induction pre as [|k0 pre IH]; intros ps s k post c m Hr Hs Hall Hg Hq Hl.
  - destruct ps as [|p ps]; [discriminate|]. cbn [app] in Hs.
    destruct (pipe_start_keeps_requests fx s p k post c m Hr Hs Hg Hq) as (s' & outs & E & _ & _ & Hin & _).
    exists p. split; [left; reflexivity|].
    unfold starts. cbn [map]. rewrite run_outs_cons. rewrite E. cbn [fst snd].
    apply in_or_app. left. exact Hin.
  - destruct ps as [|p ps]; [discriminate|]. cbn [app] in Hs. cbn [length] in Hl.
    destruct (Hall k0) as (c0 & m0 & Hg0 & Hq0); [rewrite Hs; left; reflexivity|].
    destruct (pipe_start_keeps_requests fx s p k0 (pre ++ k :: post) c0 m0 Hr Hs Hg0 Hq0)
      as (s' & outs & E & R1 & R2 & _ & Hkeep).
    destruct (Hkeep k c m Hg Hq) as (c' & Hg' & Hq').
    destruct (IH ps s' k post c' m) as (q & Hq1 & Hq2).
    + exact R1.
    + exact R2.
    + intros k' Hk'. destruct (Hall k') as (c1 & m1 & G1 & Q1).
      { rewrite Hs. right. rewrite <- R2. exact Hk'. }
      destruct (Hkeep k' c1 m1 G1 Q1) as (c2 & G2 & Q2). exists c2, m1. split; assumption.
    + exact Hg'.
    + exact Hq'.
    + lia.
    + exists q. split; [right; exact Hq1|].
      unfold starts. cbn [map]. rewrite run_outs_cons. rewrite E. cbn [fst snd].
      apply in_or_app. right. exact Hq2.
Qed.

(* the same for the pipe at the request's own position when the queue holds no
   context twice: it is the (i+1)-th pipe that carries the request *)
Theorem req_queue_position_exact : forall fx ps s pre k post c m,
  rq_ready s = [] ->
  rq_sendq s = pre ++ k :: post ->
  (forall k', In k' (rq_sendq s) -> exists c' m', ctx_get s k' = Some c' /\ cx_req c' = Some m') ->
  ctx_get s k = Some c -> cx_req c = Some m ->
  length pre < length ps ->
  In (TranSend (nth (length pre) ps 0%N) m) (snd (run_outs fx s (starts ps))).
Proof.
  intros fx ps s pre. revert ps s.
  induction pre as [|k0 pre IH]; intros ps s k post c m Hr Hs Hall Hg Hq Hl.
  - destruct ps as [|p ps]; [cbn in Hl; lia|]. cbn [app] in Hs.
    destruct (pipe_start_keeps_requests fx s p k post c m Hr Hs Hg Hq) as (s' & outs & E & _ & _ & Hin & _).
    unfold starts. cbn [map length nth]. rewrite run_outs_cons. rewrite E. cbn [fst snd].
    apply in_or_app. left. exact Hin.
  - destruct ps as [|p ps]; [cbn in Hl; lia|]. cbn [app] in Hs. cbn [length] in Hl.
    destruct (Hall k0) as (c0 & m0 & Hg0 & Hq0); [rewrite Hs; left; reflexivity|].
    destruct (pipe_start_keeps_requests fx s p k0 (pre ++ k :: post) c0 m0 Hr Hs Hg0 Hq0)
      as (s' & outs & E & R1 & R2 & _ & Hkeep).
    destruct (Hkeep k c m Hg Hq) as (c' & Hg' & Hq').
    assert (H : In (TranSend (nth (length pre) ps 0%N) m) (snd (run_outs fx s' (starts ps)))).
    { apply (IH ps s' k post c' m).
      + exact R1.
      + exact R2.
      + intros k' Hk'. destruct (Hall k') as (c1 & m1 & G1 & Q1).
        { rewrite Hs. right. rewrite <- R2. exact Hk'. }
        destruct (Hkeep k' c1 m1 G1 Q1) as (c2 & G2 & Q2). exists c2, m1. split; assumption.
      + exact Hg'.
      + exact Hq'.
      + lia. }
    unfold starts. cbn [map length nth]. rewrite run_outs_cons. rewrite E. cbn [fst snd].
    apply in_or_app. right. exact H.
Qed.

(* ------------------------------------------------------------------ *)
(* reachable states (PollReq's pack M_req: the environment contract req_ok, no
   PSockClose; the invariant needs the repair fx_rdclr): the hypotheses about the
   contexts and about "no pipe ready" follow from the invariant *)
Theorem req_queue_position_progress_reachable : forall fx ps s pre k post,
  fx_rdclr fx = true -> reachable (M_req fx) s ->
  rq_sendq s = pre ++ k :: post ->
  length ps = S (length pre) ->
  exists c m, ctx_get s k = Some c /\ cx_req c = Some m /\
    exists p, In p ps /\ In (TranSend p m) (snd (run_outs fx s (starts ps))).
Proof.
  intros fx ps s pre k post Hfx R Hs Hl.
  pose proof (req_c15_inv fx Hfx s R) as HI. change (RInv s) in HI.
  destruct HI as (HC & _ & HQ). destruct HC as (_ & _ & _ & Hq & _).
  assert (Hr : rq_ready s = []).
  { destruct HQ as [HQ|HQ]; [exact HQ|]. rewrite Hs in HQ. destruct pre; discriminate. }
  assert (Hall : forall k', In k' (rq_sendq s) -> exists c' m', ctx_get s k' = Some c' /\ cx_req c' = Some m').
  { intros k' Hk'. exact (Hq k' Hk'). }
  destruct (Hall k) as (c & m & Hg & Hm).
  { rewrite Hs. apply in_or_app. right. left. reflexivity. }
  exists c, m. split; [exact Hg|]. split; [exact Hm|].
  exact (req_queue_position_progress fx ps s pre k post c m Hr Hs Hall Hg Hm Hl).
Qed.

(* ------------------------------------------------------------------ *)
(* non-vacuity: two contexts are opened, three requests are submitted (blocking,
   distinct aios) while no pipe is connected; the third request waits at position
   2 of the send queue and goes out on the third pipe *)
Definition w_queue3 : list pop :=
  [PCtxOpen 0%N; PCtxOpen 1%N;
   PSend None 10%N false w_req; PSend (Some 0%N) 11%N false w_req; PSend (Some 1%N) 12%N false w_req].
Definition s_queue3 : req := fst (run_outs fx_repaired req_init w_queue3).
Definition w_wire3 : pmsg := req_send (REQ_ID_MIN + 3) w_req.

Example req_queue_position_nonvacuous :
  rq_ready s_queue3 = [] /\
  rq_sendq s_queue3 = [0%N; 1%N] ++ 2%N :: [] /\
  (forall k', In k' (rq_sendq s_queue3) -> exists c' m', ctx_get s_queue3 k' = Some c' /\ cx_req c' = Some m') /\
  (exists c, ctx_get s_queue3 2%N = Some c /\ cx_req c = Some w_wire3) /\
  reachable (M_req fx_repaired) s_queue3 /\
  snd (run_outs fx_repaired s_queue3 (starts [1%N; 2%N; 3%N])) =
    [Complete 10%N E_OK None; TranSend 1%N (req_send (REQ_ID_MIN + 1) w_req); TranRecv 1%N;
     Complete 11%N E_OK None; TranSend 2%N (req_send (REQ_ID_MIN + 2) w_req); TranRecv 2%N;
     Complete 12%N E_OK None; TranSend 3%N w_wire3; TranRecv 3%N].
Proof.
  split; [vm_compute; reflexivity|]. split; [vm_compute; reflexivity|]. split.
  { intros k' Hk'. vm_compute in Hk'.
    destruct Hk' as [<-|[<-|[<-|[]]]]; vm_compute; do 2 eexists; split; reflexivity. }
  split.
  { vm_compute. eexists. split; reflexivity. }
  split; [|vm_compute; reflexivity].
  exists w_queue3. split.
  - vm_compute. intuition congruence.
  - unfold s_queue3. rewrite run_outs_prun. reflexivity.
Qed.

Print Assumptions pipe_start_takes_head.
Print Assumptions req_queue_position_progress.
Print Assumptions req_queue_position_exact.
Print Assumptions req_queue_position_progress_reachable.
Print Assumptions req_queue_position_nonvacuous.
