(* ReqRepProofs: facts about the pure header functions (ReqRepBacktrace) and the
   keyed-list helpers shared by the REQ/REP models. *)
From Coq Require Import List Arith NArith Bool ZArith Lia.
From NngV Require Import Proto.Common Proto.ReqRepBacktrace Proto.ReqModel.
Import ListNotations.

(* ---- keyed lists ---- *)
Lemma lookup_assoc_set_same {A} k (v : A) l : lookup k (assoc_set k v l) = Some v.
Proof.
  induction l as [|[k' v'] l IH]; cbn; [now rewrite N.eqb_refl|].
  destruct (N.eqb_spec k' k); cbn; [now rewrite N.eqb_refl|].
  destruct (N.eqb_spec k' k); [contradiction|auto].
Qed.
Lemma lookup_assoc_set_other {A} k k' (v : A) l : k' <> k -> lookup k' (assoc_set k v l) = lookup k' l.
Proof.
  intros H. induction l as [|[k2 v2] l IH]; cbn.
  - destruct (N.eqb_spec k k'); [congruence|reflexivity].
  - destruct (N.eqb_spec k2 k); cbn.
    + subst. destruct (N.eqb_spec k k'); [congruence|reflexivity].
    + destruct (N.eqb_spec k2 k'); auto.
Qed.
Lemma lookup_assoc_del_same {A} k (l : list (N * A)) : lookup k (assoc_del k l) = None.
Proof.
  induction l as [|[k' v'] l IH]; cbn; [reflexivity|].
  destruct (N.eqb_spec k' k); cbn; [auto|]. destruct (N.eqb_spec k' k); [contradiction|auto].
Qed.
Lemma lookup_assoc_del_other {A} k k' (l : list (N * A)) : k' <> k -> lookup k' (assoc_del k l) = lookup k' l.
Proof.
  intros H. induction l as [|[k2 v2] l IH]; cbn; [reflexivity|].
  destruct (N.eqb_spec k2 k); cbn.
  - subst. destruct (N.eqb_spec k k'); [congruence|auto].
  - destruct (N.eqb_spec k2 k'); auto.
Qed.
Lemma lookup_assoc_del_some {A} k k' (l : list (N * A)) v : lookup k' (assoc_del k l) = Some v -> k' <> k /\ lookup k' l = Some v.
Proof.
  intros H. destruct (N.eq_dec k' k) as [->|Hn].
  - rewrite lookup_assoc_del_same in H. discriminate.
  - split; auto. now rewrite lookup_assoc_del_other in H.
Qed.
Lemma lookup_app_none {A} k (l1 l2 : list (N * A)) : lookup k l1 = None -> lookup k (l1 ++ l2) = lookup k l2.
Proof.
  induction l1 as [|[k' v'] l1 IH]; cbn; auto. destruct (N.eqb k' k); [discriminate|auto].
Qed.
Lemma lookup_app_some {A} k (l1 l2 : list (N * A)) v : lookup k l1 = Some v -> lookup k (l1 ++ l2) = Some v.
Proof.
  induction l1 as [|[k' v'] l1 IH]; cbn; [discriminate|]. destruct (N.eqb k' k); auto.
Qed.
Lemma lookup_in {A} k (l : list (N * A)) v : lookup k l = Some v -> In (k, v) l.
Proof.
  induction l as [|[k' v'] l IH]; cbn; [discriminate|].
  destruct (N.eqb_spec k' k); intros H; [inversion H; subst; auto|auto].
Qed.
Lemma lookup_none_notin {A} k (l : list (N * A)) : lookup k l = None -> ~ In k (map fst l).
Proof.
  induction l as [|[k' v'] l IH]; cbn; [tauto|].
  destruct (N.eqb_spec k' k); [discriminate|]. intros H [E|Hin]; [congruence|]. now apply IH.
Qed.

Lemma has_id_true a l : has_id a l = true <-> In a l.
Proof.
  unfold has_id. rewrite existsb_exists. split.
  - intros [x [Hin E]]. apply N.eqb_eq in E. now subst.
  - intros H. exists a. split; auto. apply N.eqb_refl.
Qed.
Lemma has_id_false a l : has_id a l = false <-> ~ In a l.
Proof. rewrite <- has_id_true. destruct (has_id a l); intuition congruence. Qed.
Lemma in_remove_id a b l : In a (remove_id b l) <-> In a l /\ a <> b.
Proof.
  unfold remove_id. rewrite filter_In. split; intros [H1 H2]; split; auto.
  - apply negb_true_iff, N.eqb_neq in H2. auto.
  - apply negb_true_iff, N.eqb_neq. auto.
Qed.

(* ---- words ---- *)
Lemma word_of_be32 v rest : (v < 4294967296)%N -> word_of (be32 v ++ rest) = v.
Proof.
  intros H. unfold word_of, be32. cbn [app firstn fold_left].
  pose proof (N.div_mod' v 256) as E0.
  pose proof (N.div_mod' (v / 256) 256) as E1.
  pose proof (N.div_mod' (v / 65536) 256) as E2.
  pose proof (N.div_mod' (v / 16777216) 256) as E3.
  assert (D1 : (v / 256 / 256 = v / 65536)%N) by (rewrite N.div_div by lia; reflexivity).
  assert (D2 : (v / 65536 / 256 = v / 16777216)%N) by (rewrite N.div_div by lia; reflexivity).
  assert (D3 : (v / 16777216 / 256 = 0)%N).
  { rewrite N.div_div by lia. apply N.div_small. exact H. }
  rewrite D1 in E1. rewrite D2 in E2. rewrite D3 in E3.
  pose proof (N.mod_lt v 256). pose proof (N.mod_lt (v/256) 256). pose proof (N.mod_lt (v/65536) 256). pose proof (N.mod_lt (v/16777216) 256).
  lia.
Qed.
Lemma be32_length v : length (be32 v) = 4.
Proof. reflexivity. Qed.
(* ---- the hop loop ---- *)
Lemma bt_loop_S n hdr body :
  bt_loop (S n) hdr body =
  if length body <? 4 then BtClose
  else if BT_HEADER_MAX <? length hdr + 4 then BtDrop
  else if high_bit (firstn 4 body) then BtDeliver (mkPmsg (hdr ++ firstn 4 body) (skipn 4 body))
       else bt_loop n (hdr ++ firstn 4 body) (skipn 4 body).
Proof. reflexivity. Qed.

Lemma bt_loop_deliver n hdr body m :
  bt_loop n hdr body = BtDeliver m ->
  exists w, pm_hdr m = hdr ++ w /\ w ++ pm_body m = body /\ length (pm_hdr m) <= BT_HEADER_MAX /\
            length w <= 4 * n /\ 4 <= length w.
Proof.
  revert hdr body. induction n as [|n IH]; intros hdr body H; [discriminate|]. rewrite bt_loop_S in H.
  destruct (length body <? 4) eqn:E1; [discriminate|].
  destruct (BT_HEADER_MAX <? length hdr + 4) eqn:E2; [discriminate|].
  apply Nat.ltb_ge in E1, E2.
  assert (L4 : length (firstn 4 body) = 4) by (rewrite firstn_length; lia).
  destruct (high_bit (firstn 4 body)).
  - assert (Hm : m = mkPmsg (hdr ++ firstn 4 body) (skipn 4 body)) by congruence.
    rewrite Hm. unfold pm_hdr, pm_body. exists (firstn 4 body).
    split; [reflexivity|]. split; [apply firstn_skipn|]. split; [rewrite app_length, L4; exact E2|]. lia.
  - apply IH in H. destruct H as [w [H1 [H2 [H3 [H4 H5]]]]].
    exists (firstn 4 body ++ w).
    split; [rewrite H1; now rewrite app_assoc|].
    split; [rewrite <- app_assoc, H2; apply firstn_skipn|].
    split; [exact H3|]. rewrite app_length, L4. lia.
Qed.

(* every input is classified; the header never exceeds its buffer *)
Lemma bt_loop_total n hdr body :
  match bt_loop n hdr body with
  | BtDeliver m => length (pm_hdr m) <= BT_HEADER_MAX
  | _ => True
  end.
Proof.
  destruct (bt_loop n hdr body) eqn:E; auto. apply bt_loop_deliver in E. destruct E as [w [_ [_ [H _]]]]. exact H.
Qed.

(* hops > ttl: a backtrace of more than ttl words never gets through *)
Lemma bt_loop_ttl n hdr body m :
  bt_loop n hdr body = BtDeliver m -> length (pm_hdr m) <= length hdr + 4 * n.
Proof.
  intros H. apply bt_loop_deliver in H. destruct H as [w [H1 [_ [_ [H4 _]]]]]. rewrite H1, app_length. lia.
Qed.

(* raw REP: what receive pushes, send pops *)
Lemma xrep_push_pop p ttl wire m :
  (p < 4294967296)%N ->
  xrep_recv p ttl wire = BtDeliver m ->
  exists m0, xrep_send m = Some (p, m0) /\ pm_hdr m = be32 p ++ pm_hdr m0 /\ pm_body m0 = pm_body m /\
             pm_hdr m0 ++ pm_body m0 = wire /\ length (pm_hdr m0) <= 4 * ttl.
Proof.
  intros Hp H. unfold xrep_recv in H. apply bt_loop_deliver in H.
  destruct H as [w [H1 [H2 [H3 [H4 H5]]]]].
  unfold xrep_send. rewrite H1, app_length, be32_length. cbn [Nat.ltb Nat.leb].
  exists (mkPmsg w (pm_body m)). cbn [pm_hdr pm_body].
  replace (skipn 4 (be32 p ++ w)) with w by reflexivity.
  rewrite word_of_be32 by exact Hp. repeat split; auto.
Qed.

(* cooked REP: the saved backtrace replayed in front of the reply *)
Lemma rep_recv_send ttl wire m body' :
  rep_recv ttl wire = BtDeliver m ->
  wire_of (rep_send (pm_hdr m) (mkPmsg [] body')) = pm_hdr m ++ body' /\ pm_hdr m ++ pm_body m = wire.
Proof.
  intros H. unfold rep_recv in H. apply bt_loop_deliver in H. destruct H as [w [H1 [H2 _]]].
  cbn in H1. subst w. split; [reflexivity|exact H2].
Qed.

Lemma req_send_recv id m : (id < 4294967296)%N -> req_recv (wire_of (req_send id m)) = Some (id, mkPmsg [] (pm_body m)).
Proof.
  intros H. unfold req_recv, wire_of, req_send. cbn [pm_hdr pm_body].
  rewrite app_length, be32_length. cbn [Nat.ltb Nat.leb]. now rewrite word_of_be32.
Qed.
