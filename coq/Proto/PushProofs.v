(* PushProofs: conservation, FIFO hand-off order, back-pressure for PushModel. *)
From Coq Require Import List Arith NArith Bool Lia.
From NngV Require Import Proto.Common Proto.PushModel.
Import ListNotations.

Lemma pmsg_eq_dec : forall a b : pmsg, {a = b} + {a <> b}.
Proof. decide equality; apply (list_eq_dec N.eq_dec). Defined.
Definition cnt (x : pmsg) (l : list pmsg) : nat := count_occ pmsg_eq_dec l x.
Lemma cnt_app x a b : cnt x (a ++ b) = cnt x a + cnt x b.
Proof. apply count_occ_app. Qed.
Lemma cnt_cons x y l : cnt x (y :: l) = (if pmsg_eq_dec y x then 1 else 0) + cnt x l.
Proof. unfold cnt. cbn. destruct (pmsg_eq_dec y x); lia. Qed.
Lemma cnt_nil x : cnt x [] = 0. Proof. reflexivity. Qed.

(* messages in outputs *)
Fixpoint txs (outs : list pout) : list pmsg :=
  match outs with [] => [] | TranSend _ m :: r => m :: txs r | _ :: r => txs r end.
Fixpoint freed (outs : list pout) : list pmsg :=
  match outs with [] => [] | Free m :: r => m :: freed r | _ :: r => freed r end.
Lemma freed_app a b : freed (a ++ b) = freed a ++ freed b.
Proof. induction a as [|[] a IH]; cbn; rewrite ?IH; auto. Qed.
Lemma freed_map_Free l : freed (map Free l) = l.
Proof. induction l; cbn; congruence. Qed.
Lemma txs_app a b : txs (a ++ b) = txs a ++ txs b.
Proof. induction a as [|[] a IH]; cbn; rewrite ?IH; auto. Qed.
Lemma txs_map_Free l : txs (map Free l) = [].
Proof. induction l; cbn; auto. Qed.
Lemma txs_fail rv l : txs (fail_aios rv l) = [].
Proof. induction l; cbn; auto. Qed.
Lemma freed_fail rv l : freed (fail_aios rv l) = [].
Proof. induction l; cbn; auto. Qed.

(* the messages of callers accepted by this step: those whose send completes with 0 *)
Definition lookup_aq (a : aioid) (aq : list (aioid * pmsg)) : list pmsg :=
  map snd (filter (fun x => N.eqb (fst x) a) aq).
Fixpoint accepted (s : push) (o : pop) (outs : list pout) : list pmsg :=
  match outs with
  | [] => []
  | Complete a rv _ :: r =>
      (if N.eqb rv 0 then
         match o with
         | PSend _ a' _ m => if N.eqb a a' then [m] else lookup_aq a (ps_aq s)
         | _ => lookup_aq a (ps_aq s)
         end
       else []) ++ accepted s o r
  | _ :: r => accepted s o r
  end.

Definition held (s : push) : list pmsg := map snd (ps_sending s).
Definition owned (s : push) : list pmsg := ps_wq s ++ held s.
(* what the transport took off a pipe in this step *)
Definition wire (s : push) (o : pop) : list pmsg :=
  match o with
  | PSendDone p rv => if N.eqb rv 0 then map snd (filter (fun x => N.eqb (fst x) p) (ps_sending s)) else []
  | _ => []
  end.

(* invariants *)
Definition aq_nodup (s : push) : Prop := NoDup (map fst (ps_aq s)).
Definition PInv (s : push) : Prop :=
  (ps_pl s <> [] -> ps_wq s = [] /\ ps_aq s = []) /\
  length (ps_wq s) <= ps_cap s /\
  NoDup (map fst (ps_sending s)) /\ aq_nodup s /\
  (forall p, In p (ps_pl s) -> ~ In p (map fst (ps_sending s))) /\ NoDup (ps_pl s).

(* ---- small facts about keyed lists ---- *)
Lemma filter_keep_notin {A} (p : N) (l : list (N * A)) :
  ~ In p (map fst l) -> filter (fun x => negb (N.eqb (fst x) p)) l = l.
Proof.
  induction l as [|[k v] l IH]; cbn; intros H; [reflexivity|].
  destruct (N.eqb_spec k p); cbn; [exfalso; apply H; auto|]. f_equal. apply IH. tauto.
Qed.
Lemma filter_eq_notin {A} (p : N) (l : list (N * A)) :
  ~ In p (map fst l) -> filter (fun x => N.eqb (fst x) p) l = [].
Proof.
  induction l as [|[k v] l IH]; cbn; intros H; [reflexivity|].
  destruct (N.eqb_spec k p); cbn; [exfalso; apply H; auto|]. apply IH. tauto.
Qed.
Lemma cnt_partition x (p : N) (l : list (N * pmsg)) :
  cnt x (map snd l) = cnt x (map snd (filter (fun y => N.eqb (fst y) p) l)) +
                      cnt x (map snd (filter (fun y => negb (N.eqb (fst y) p)) l)).
Proof.
  induction l as [|[k v] l IH]; cbn [filter map fst snd]; [reflexivity|].
  destruct (N.eqb k p); cbn [negb map snd]; rewrite ?cnt_cons, IH; lia.
Qed.
Lemma in_filter_keys {A} (f : N * A -> bool) (l : list (N * A)) k :
  In k (map fst (filter f l)) -> In k (map fst l).
Proof.
  induction l as [|[k' v] l IH]; cbn; [tauto|]. destruct (f (k', v)); cbn; tauto.
Qed.
Lemma nodup_filter_keys {A} (f : N * A -> bool) (l : list (N * A)) :
  NoDup (map fst l) -> NoDup (map fst (filter f l)).
Proof.
  induction l as [|[k v] l IH]; cbn; intros H; [constructor|]. inversion H; subst.
  destruct (f (k, v)); cbn; auto. constructor; auto. intros Hin. apply H2. eapply in_filter_keys; eauto.
Qed.
Lemma notin_filter_self {A} (p : N) (l : list (N * A)) :
  ~ In p (map fst (filter (fun x => negb (N.eqb (fst x) p)) l)).
Proof.
  induction l as [|[k v] l IH]; cbn; [tauto|]. destruct (N.eqb_spec k p); cbn; [auto|]. intros [E|H]; auto.
Qed.
Lemma lookup_head_nodup a m (aqr : list (aioid * pmsg)) :
  NoDup (map fst ((a, m) :: aqr)) -> lookup_aq a ((a, m) :: aqr) = [m].
Proof.
  intros H. inversion H; subst. unfold lookup_aq. cbn. rewrite N.eqb_refl. cbn.
  now rewrite filter_eq_notin.
Qed.

Ltac cnt_simp := rewrite ?cnt_app, ?cnt_cons, ?cnt_nil, ?app_nil_r in *.

(* push0_pipe_ready moves messages but neither creates nor loses any *)
Lemma ready_law s p o s' outs x :
  (forall c a nb m, o <> PSend c a nb m) ->
  ~ In p (map fst (ps_sending s)) -> aq_nodup s ->
  push_pipe_ready s p = (s', outs) ->
  cnt x (owned s ++ accepted s o outs) = cnt x (owned s') /\ freed outs = [] /\
  ps_cap s' = ps_cap s.
Proof.
  intros Ho Hp Hnd H. unfold push_pipe_ready in H. unfold owned, held.
  destruct (ps_wq s) as [|m rest] eqn:EW; destruct (ps_aq s) as [|[a m2] aqr] eqn:EA;
    inversion H; subst; clear H; cbn [ps_wq ps_sending ps_cap ps_aq accepted freed N.eqb];
    unfold set_sending; rewrite (filter_keep_notin p _ Hp); cbn [map snd].
  - cnt_simp; repeat split; auto; try lia.
  - assert (L: lookup_aq a (ps_aq s) = [m2]).
    { rewrite EA. apply lookup_head_nodup. unfold aq_nodup in Hnd. now rewrite EA in Hnd. }
    destruct o; try (exfalso; eapply Ho; reflexivity); change (E_OK =? 0)%N with true; cbn iota; rewrite L; cnt_simp; repeat split; auto; try lia.
  - cnt_simp; repeat split; auto; try lia.
  - assert (L: lookup_aq a (ps_aq s) = [m2]).
    { rewrite EA. apply lookup_head_nodup. unfold aq_nodup in Hnd. now rewrite EA in Hnd. }
    destruct o; try (exfalso; eapply Ho; reflexivity); change (E_OK =? 0)%N with true; cbn iota; rewrite L; cnt_simp; repeat split; auto; try lia.
Qed.

(* the environment's side of the contract: pipes are started once, a send
   completion belongs to a send in flight, an aio is submitted once at a time *)
Definition op_ok (s : push) (o : pop) : Prop :=
  match o with
  | PPipeStart p _ => ~ In p (map fst (ps_sending s)) /\ ~ In p (ps_pl s)
  | PSendDone p _ => In p (map fst (ps_sending s))
  | PSend _ a _ _ => ~ In a (map fst (ps_aq s))
  | _ => True
  end.

Lemma remove_id_in p q l : In q (remove_id p l) -> In q l /\ q <> p.
Proof.
  unfold remove_id. intros H. apply filter_In in H as [H1 H2]. split; auto.
  intros ->. rewrite N.eqb_refl in H2. discriminate.
Qed.
Lemma remove_id_nodup p l : NoDup l -> NoDup (remove_id p l).
Proof. intros H. unfold remove_id. now apply NoDup_filter. Qed.

Lemma ready_inv s p s' outs :
  PInv s -> ~ In p (map fst (ps_sending s)) -> ~ In p (ps_pl s) ->
  push_pipe_ready s p = (s', outs) -> PInv s'.
Proof.
  intros (I1 & I2 & I3 & I4 & I5 & I6) Hp Hpl H. unfold push_pipe_ready in H.
  unfold PInv, aq_nodup in *.
  destruct (ps_wq s) as [|m rest] eqn:EW; destruct (ps_aq s) as [|[a m2] aqr] eqn:EA;
    inversion H; subst; clear H; cbn [ps_wq ps_sending ps_cap ps_aq ps_pl map fst];
    unfold set_sending; rewrite (filter_keep_notin p _ Hp); cbn [map fst].
  - (* nothing to send: the pipe joins the ready list *)
    repeat split; auto.
    + intros q Hq. apply in_app_or in Hq as [Hq|[<-|[]]]; auto.
    + clear - I6 Hpl. induction (ps_pl s) as [|q l IH]; cbn.
      * constructor; [tauto|constructor].
      * inversion I6; subst. constructor.
        -- intros Hin. apply in_app_or in Hin as [Hin|[<-|[]]]; [auto|]. apply Hpl. now left.
        -- apply IH; auto. intros Hin. apply Hpl. now right.
  - (* a blocked sender goes straight to the pipe *)
    assert (PL: ps_pl s = []). { destruct (ps_pl s) eqn:E; auto. destruct I1 as [_ F]; [congruence|discriminate]. }
    rewrite PL in *. repeat split; auto; try (cbn; lia); try tauto.
    + constructor; auto.
    + inversion I4; auto.
  - assert (PL: ps_pl s = []). { destruct (ps_pl s) eqn:E; auto. destruct I1 as [F _]; [congruence|discriminate]. }
    rewrite PL in *. cbn [length] in *. repeat split; auto; try lia; try tauto.
    constructor; auto.
  - assert (PL: ps_pl s = []). { destruct (ps_pl s) eqn:E; auto. destruct I1 as [F _]; [congruence|discriminate]. }
    rewrite PL in *. cbn [length] in *. repeat split; auto; try tauto.
    + rewrite app_length. cbn. lia.
    + constructor; auto.
    + inversion I4; auto.
Qed.
