(* PushProofs: conservation, FIFO hand-off order, back-pressure for PushModel. *)
From Coq Require Import List Arith NArith Bool Lia.
From NngV Require Import Proto.Common Proto.PushModel.
Import ListNotations.

Lemma pmsg_eq_dec : forall a b : pmsg, {a = b} + {a <> b}.
Proof. decide equality; apply (list_eq_dec N.eq_dec). Defined.
Definition cnt (x : pmsg) (l : list pmsg) : nat := count_occ pmsg_eq_dec l x.
Lemma cnt_app x a b : cnt x (a ++ b) = cnt x a + cnt x b.
Proof. apply count_occ_app. Qed.
Lemma cnt_cons x y l : cnt x (y :: l) = (if pmsg_eq_dec y x then 1 else 0) + cnt x l.
Proof. unfold cnt. cbn. destruct (pmsg_eq_dec y x); lia. Qed.
Lemma cnt_nil x : cnt x [] = 0. Proof. reflexivity. Qed.

(* messages in outputs *)
Fixpoint txs (outs : list pout) : list pmsg :=
  match outs with [] => [] | TranSend _ m :: r => m :: txs r | _ :: r => txs r end.
Fixpoint freed (outs : list pout) : list pmsg :=
  match outs with [] => [] | Free m :: r => m :: freed r | _ :: r => freed r end.
Lemma freed_app a b : freed (a ++ b) = freed a ++ freed b.
Proof. induction a as [|[] a IH]; cbn; rewrite ?IH; auto. Qed.
Lemma freed_map_Free l : freed (map Free l) = l.
Proof. induction l; cbn; congruence. Qed.
Lemma txs_app a b : txs (a ++ b) = txs a ++ txs b.
Proof. induction a as [|[] a IH]; cbn; rewrite ?IH; auto. Qed.
Lemma txs_map_Free l : txs (map Free l) = [].
Proof. induction l; cbn; auto. Qed.
Lemma txs_fail rv l : txs (fail_aios rv l) = [].
Proof. induction l; cbn; auto. Qed.
Lemma freed_fail rv l : freed (fail_aios rv l) = [].
Proof. induction l; cbn; auto. Qed.

(* the messages of callers accepted by this step: those whose send completes with 0 *)
Definition lookup_aq (a : aioid) (aq : list (aioid * pmsg)) : list pmsg :=
  map snd (filter (fun x => N.eqb (fst x) a) aq).
Fixpoint accepted (s : push) (o : pop) (outs : list pout) : list pmsg :=
  match outs with
  | [] => []
  | Complete a rv _ :: r =>
      (if N.eqb rv 0 then
         match o with
         | PSend _ a' _ m => if N.eqb a a' then [m] else lookup_aq a (ps_aq s)
         | _ => lookup_aq a (ps_aq s)
         end
       else []) ++ accepted s o r
  | _ :: r => accepted s o r
  end.

Definition held (s : push) : list pmsg := map snd (ps_sending s).
Definition owned (s : push) : list pmsg := ps_wq s ++ held s.
(* what the transport took off a pipe in this step *)
Definition wire (s : push) (o : pop) : list pmsg :=
  match o with
  | PSendDone p rv => if N.eqb rv 0 then map snd (filter (fun x => N.eqb (fst x) p) (ps_sending s)) else []
  | _ => []
  end.

(* invariants *)
Definition aq_nodup (s : push) : Prop := NoDup (map fst (ps_aq s)).
Definition PInv (s : push) : Prop :=
  (ps_pl s <> [] -> ps_wq s = [] /\ ps_aq s = []) /\
  length (ps_wq s) <= ps_cap s /\
  NoDup (map fst (ps_sending s)) /\ aq_nodup s /\
  (forall p, In p (ps_pl s) -> ~ In p (map fst (ps_sending s))) /\ NoDup (ps_pl s).

(* ---- small facts about keyed lists ---- *)
Lemma filter_keep_notin {A} (p : N) (l : list (N * A)) :
  ~ In p (map fst l) -> filter (fun x => negb (N.eqb (fst x) p)) l = l.
Proof.
  induction l as [|[k v] l IH]; cbn; intros H; [reflexivity|].
  destruct (N.eqb_spec k p); cbn; [exfalso; apply H; auto|]. f_equal. apply IH. tauto.
Qed.
Lemma filter_eq_notin {A} (p : N) (l : list (N * A)) :
  ~ In p (map fst l) -> filter (fun x => N.eqb (fst x) p) l = [].
Proof.
  induction l as [|[k v] l IH]; cbn; intros H; [reflexivity|].
  destruct (N.eqb_spec k p); cbn; [exfalso; apply H; auto|]. apply IH. tauto.
Qed.
Lemma cnt_partition x (p : pid) (l : list (pid * pmsg)) :
  cnt x (map snd l) = cnt x (map snd (filter (fun y => N.eqb (fst y) p) l)) +
                      cnt x (map snd (filter (fun y => negb (N.eqb (fst y) p)) l)).
Proof.
  induction l as [|[k v] l IH]; cbn [filter map fst snd]; [reflexivity|].
  destruct (N.eqb k p); cbn [negb map snd]; rewrite ?cnt_cons, IH; lia.
Qed.
Lemma in_filter_keys {A} (f : N * A -> bool) (l : list (N * A)) k :
  In k (map fst (filter f l)) -> In k (map fst l).
Proof.
  induction l as [|[k' v] l IH]; cbn; [tauto|]. destruct (f (k', v)); cbn; tauto.
Qed.
Lemma nodup_filter_keys {A} (f : N * A -> bool) (l : list (N * A)) :
  NoDup (map fst l) -> NoDup (map fst (filter f l)).
Proof.
  induction l as [|[k v] l IH]; cbn; intros H; [constructor|]. inversion H; subst.
  destruct (f (k, v)); cbn; auto. constructor; auto. intros Hin. apply H2. eapply in_filter_keys; eauto.
Qed.
Lemma notin_filter_self {A} (p : N) (l : list (N * A)) :
  ~ In p (map fst (filter (fun x => negb (N.eqb (fst x) p)) l)).
Proof.
  induction l as [|[k v] l IH]; cbn; [tauto|]. destruct (N.eqb_spec k p); cbn; [auto|]. intros [E|H]; auto.
Qed.
Lemma lookup_head_nodup a m (aqr : list (aioid * pmsg)) :
  NoDup (map fst ((a, m) :: aqr)) -> lookup_aq a ((a, m) :: aqr) = [m].
Proof.
  intros H. inversion H; subst. unfold lookup_aq. cbn. rewrite N.eqb_refl. cbn.
  now rewrite filter_eq_notin.
Qed.

Ltac cnt_simp := rewrite ?cnt_app, ?cnt_cons, ?cnt_nil, ?app_nil_r in *.

(* push0_pipe_ready moves messages but neither creates nor loses any *)
Lemma ready_law s p o s' outs x :
  (forall c a nb m, o <> PSend c a nb m) ->
  ~ In p (map fst (ps_sending s)) -> aq_nodup s ->
  push_pipe_ready s p = (s', outs) ->
  cnt x (owned s ++ accepted s o outs) = cnt x (owned s') /\ freed outs = [] /\
  ps_cap s' = ps_cap s.
Proof.
  intros Ho Hp Hnd H. unfold push_pipe_ready in H. unfold owned, held.
  destruct (ps_wq s) as [|m rest] eqn:EW; destruct (ps_aq s) as [|[a m2] aqr] eqn:EA;
    inversion H; subst; clear H; cbn [ps_wq ps_sending ps_cap ps_aq accepted freed N.eqb];
    unfold set_sending; rewrite (filter_keep_notin p _ Hp); cbn [map snd].
  - cnt_simp; repeat split; auto; try lia.
  - assert (L: lookup_aq a (ps_aq s) = [m2]).
    { rewrite EA. apply lookup_head_nodup. unfold aq_nodup in Hnd. now rewrite EA in Hnd. }
    destruct o; try (exfalso; eapply Ho; reflexivity); change (E_OK =? 0)%N with true; cbn iota; rewrite L; cnt_simp; repeat split; auto; try lia.
  - cnt_simp; repeat split; auto; try lia.
  - assert (L: lookup_aq a (ps_aq s) = [m2]).
    { rewrite EA. apply lookup_head_nodup. unfold aq_nodup in Hnd. now rewrite EA in Hnd. }
    destruct o; try (exfalso; eapply Ho; reflexivity); change (E_OK =? 0)%N with true; cbn iota; rewrite L; cnt_simp; repeat split; auto; try lia.
Qed.

(* the environment's side of the contract: pipes are started once, a send
   completion belongs to a send in flight, an aio is submitted once at a time *)
Definition op_ok (s : push) (o : pop) : Prop :=
  match o with
  | PPipeStart p _ => ~ In p (map fst (ps_sending s)) /\ ~ In p (ps_pl s)
  | PSendDone p _ => In p (map fst (ps_sending s))
  | PSend _ a _ _ => ~ In a (map fst (ps_aq s))
  | PCancel _ rv => rv <> 0%N
  | _ => True
  end.

Lemma remove_id_in p q l : In q (remove_id p l) -> In q l /\ q <> p.
Proof.
  unfold remove_id. intros H. apply filter_In in H as [H1 H2]. split; auto.
  intros ->. rewrite N.eqb_refl in H2. discriminate.
Qed.
Lemma remove_id_nodup p l : NoDup l -> NoDup (remove_id p l).
Proof. intros H. unfold remove_id. now apply NoDup_filter. Qed.

Lemma ready_inv s p s' outs :
  PInv s -> ~ In p (map fst (ps_sending s)) -> ~ In p (ps_pl s) ->
  push_pipe_ready s p = (s', outs) -> PInv s'.
Proof.
  intros (I1 & I2 & I3 & I4 & I5 & I6) Hp Hpl H. unfold push_pipe_ready in H.
  unfold PInv, aq_nodup in *.
  destruct (ps_wq s) as [|m rest] eqn:EW; destruct (ps_aq s) as [|[a m2] aqr] eqn:EA;
    inversion H; subst; clear H; cbn [ps_wq ps_sending ps_cap ps_aq ps_pl map fst];
    unfold set_sending; rewrite (filter_keep_notin p _ Hp); cbn [map fst].
  - (* nothing to send: the pipe joins the ready list *)
    repeat split; auto.
    + intros q Hq. apply in_app_or in Hq as [Hq|[<-|[]]]; auto.
    + clear - I6 Hpl. induction (ps_pl s) as [|q l IH]; cbn.
      * constructor; [tauto|constructor].
      * inversion I6; subst. constructor.
        -- intros Hin. apply in_app_or in Hin as [Hin|[<-|[]]]; [auto|]. apply Hpl. now left.
        -- apply IH; auto. intros Hin. apply Hpl. now right.
  - (* a blocked sender goes straight to the pipe *)
    assert (PL: ps_pl s = []). { destruct (ps_pl s) eqn:E; auto. destruct I1 as [_ F]; [congruence|discriminate]. }
    rewrite PL in *. repeat split; auto; try (cbn; lia); try tauto.
    + constructor; auto.
    + inversion I4; auto.
  - assert (PL: ps_pl s = []). { destruct (ps_pl s) eqn:E; auto. destruct I1 as [F _]; [congruence|discriminate]. }
    rewrite PL in *. cbn [length] in *. repeat split; auto; try lia; try tauto.
    constructor; auto.
  - assert (PL: ps_pl s = []). { destruct (ps_pl s) eqn:E; auto. destruct I1 as [F _]; [congruence|discriminate]. }
    rewrite PL in *. cbn [length] in *. repeat split; auto; try tauto.
    + rewrite app_length. cbn. lia.
    + constructor; auto.
    + inversion I4; auto.
Qed.

Lemma accepted_nil_other s o outs :
  (forall a rv m, ~ In (Complete a rv m) outs) -> accepted s o outs = [].
Proof.
  induction outs as [|x r IH]; cbn; intros H; [reflexivity|].
  destruct x; try (apply IH; intros a0 rv0 m0 Hin; eapply H; right; eauto).
  exfalso. eapply H. left. reflexivity.
Qed.

Lemma accepted_fail s o rv l : rv <> 0%N -> accepted s o (fail_aios rv l) = [].
Proof.
  intros Hrv. induction l as [|a l IH]; cbn; [reflexivity|].
  destruct (N.eqb_spec rv 0); [contradiction|]. cbn. exact IH.
Qed.

Lemma accepted_app s o a b : accepted s o (a ++ b) = accepted s o a ++ accepted s o b.
Proof. induction a as [|x a IH]; cbn; [reflexivity|]. destruct x; rewrite ?IH, ?app_assoc; auto. Qed.
Lemma accepted_map_Free s o l : accepted s o (map Free l) = [].
Proof. induction l; cbn; auto. Qed.

Lemma nodup_snoc {A} (l : list A) (a : A) : NoDup l -> ~ In a l -> NoDup (l ++ [a]).
Proof.
  induction l as [|q l IH]; cbn; intros H Ha.
  - constructor; [tauto|constructor].
  - inversion H; subst. constructor.
    + intros Hin. apply in_app_or in Hin as [Hin|[<-|[]]]; [auto|]. apply Ha. now left.
    + apply IH; auto.
Qed.

Ltac pinv6 := unfold PInv, aq_nodup in *; split; [|split; [|split; [|split; [|split]]]].
Ltac simp_p := cbn [ps_pl ps_wq ps_cap ps_aq ps_sending ps_writable] in *.

Lemma law_PSend s c a nb m s' outs :
  PInv s -> ~ In a (map fst (ps_aq s)) -> push_step s (PSend c a nb m) = (s', outs) ->
  PInv s' /\ forall x, cnt x (owned s ++ accepted s (PSend c a nb m) outs) = cnt x (owned s' ++ freed outs).
Proof.
  intros HI Hok H. pose proof HI as (I1 & I2 & I3 & I4 & I5 & I6). cbn [push_step] in H.
  destruct (ps_pl s) as [|p rest] eqn:PL.
  - destruct (wq_full s) eqn:F; cbn [negb] in H.
    + destruct nb; inversion H; subst; clear H.
      * split; [exact HI|]. intros x. cbn [accepted freed]. change (E_AGAIN =? 0)%N with false. cbn iota. cnt_simp. lia.
      * split.
        -- unfold PInv, aq_nodup in *. simp_p. rewrite PL in *.
           repeat split; auto; try tauto. rewrite map_app. cbn [map fst]. now apply nodup_snoc.
        -- intros x. unfold owned, held. cbn [accepted freed]. simp_p. cnt_simp. lia.
    + inversion H; subst; clear H. unfold wq_full in F. apply Nat.leb_gt in F. split.
      * unfold PInv, aq_nodup in *. simp_p. rewrite PL in *.
        repeat split; auto; try tauto. rewrite app_length. cbn. lia.
      * intros x. unfold owned, held. cbn [accepted freed]. simp_p. change (E_OK =? 0)%N with true. cbn iota. rewrite N.eqb_refl. cnt_simp. lia.
  - destruct I1 as [W A]; [congruence|]. inversion H; subst; clear H.
    assert (Hp: ~ In p (map fst (ps_sending s))) by (apply I5; try rewrite PL; now left).
    split.
    + unfold PInv, aq_nodup in *. simp_p. unfold set_sending.
      rewrite (filter_keep_notin p _ Hp). cbn [map fst]. rewrite PL in *. inversion I6; subst.
      repeat split; auto.
      * constructor; auto.
      * intros q Hq [<-|Hin]; [contradiction|]. eapply I5; eauto. now right.
    + intros x. unfold owned, held. cbn [accepted freed]. simp_p. change (E_OK =? 0)%N with true. cbn iota. rewrite N.eqb_refl. unfold set_sending. rewrite (filter_keep_notin p _ Hp).
      cbn [map snd]. cnt_simp. lia.
Qed.

Lemma law_ready_op s p o s' outs :
  (forall c a nb m, o <> PSend c a nb m) ->
  PInv s -> ~ In p (map fst (ps_sending s)) -> ~ In p (ps_pl s) ->
  push_pipe_ready s p = (s', outs) ->
  PInv s' /\ forall x, cnt x (owned s ++ accepted s o outs) = cnt x (owned s' ++ freed outs).
Proof.
  intros Ho HI Hp Hpl H. split; [eapply ready_inv; eauto|]. intros x.
  destruct HI as (_ & _ & _ & I4 & _).
  destruct (ready_law s p o s' outs x Ho Hp I4 H) as (L & F & _). rewrite F. cnt_simp. rewrite <- L. cnt_simp. lia.
Qed.

(* a message a peer sent to the pusher: received and discarded in the same step *)
Definition arrived (o : pop) : list pmsg :=
  match o with PRecvDone _ rv m => if N.eqb rv 0 then [m] else [] | _ => [] end.

Theorem push_step_law s o s' outs :
  PInv s -> op_ok s o -> push_step s o = (s', outs) ->
  PInv s' /\ forall x, cnt x (owned s ++ accepted s o outs ++ arrived o) = cnt x (owned s' ++ wire s o ++ freed outs).
Proof.
  intros HI Hok H. pose proof HI as (I1 & I2 & I3 & I4 & I5 & I6).
  destruct o as [c a nb m|c a nb|a rv|p peer|p|p rv|p rv m| c op|c|c| |now]; cbn [op_ok wire arrived] in *.
  - (* PSend *) destruct (law_PSend _ _ _ _ _ _ _ HI Hok H) as [A B]. split; [exact A|].
    intros x. specialize (B x). cnt_simp. lia.
  - (* PRecv *) cbn [push_step] in H. inversion H; subst. split; [exact HI|]. intros x. cbn [accepted freed].
    change (E_NOTSUP =? 0)%N with false. cbn iota. cnt_simp. lia.
  - (* PCancel *)
    cbn [push_step] in H. destruct (has_aio a (ps_aq s)) eqn:E; inversion H; subst; clear H.
    + split.
      * unfold remove_aio. pinv6; simp_p; auto.
        -- intros Hne. destruct (I1 Hne) as [W A]. split; auto. rewrite A. reflexivity.
        -- now apply nodup_filter_keys.
      * intros x. unfold owned, held. cbn [accepted freed]. simp_p.
        destruct (N.eqb_spec rv 0); [contradiction|]. cnt_simp. lia.
    + split; [exact HI|]. intros x. cbn [accepted freed]. cnt_simp. lia.
  - (* PPipeStart *)
    cbn [push_step] in H. destruct (negb (peer =? PROTO_PULL)%N).
    + inversion H; subst. split; [exact HI|]. intros x. cbn [accepted freed]. cnt_simp. lia.
    + destruct (push_pipe_ready s p) as [s1 o1] eqn:R. inversion H; subst; clear H.
      destruct Hok as [Hp Hpl].
      destruct (law_ready_op s p (PPipeStart p peer) s' o1 ltac:(intros; discriminate) HI Hp Hpl R) as [A B].
      split; [exact A|]. intros x. specialize (B x). cbn [accepted freed]. cnt_simp. lia.
  - (* PPipeClose *)
    cbn [push_step] in H. destruct (has_id p (ps_pl s)) eqn:E; inversion H; subst; clear H.
    + split.
      * pinv6; simp_p; auto.
        -- intros Hne. apply I1. intros E0. rewrite E0 in Hne. apply Hne. reflexivity.
        -- intros q Hq. apply remove_id_in in Hq as [Hq _]. auto.
        -- now apply remove_id_nodup.
      * intros x. unfold owned, held. cbn [accepted freed]. simp_p. cnt_simp. lia.
    + split; [exact HI|]. intros x. cbn [accepted freed]. cnt_simp. lia.
  - (* PSendDone *)
    cbn [push_step] in H. destruct (N.eqb_spec rv 0) as [->|Hrv]; cbn [negb] in H.
    + (* success: the transport consumed the message; the pipe is ready again *)
      set (s0 := mkPush (ps_pl s) (ps_wq s) (ps_cap s) (ps_aq s) (set_sending s p None) (ps_writable s)) in *.
      assert (HI0: PInv s0).
      { unfold s0, set_sending. pinv6; simp_p; auto.
        - now apply nodup_filter_keys.
        - intros q Hq Hin. eapply I5; eauto. eapply in_filter_keys; eauto. }
      assert (Hp0: ~ In p (map fst (ps_sending s0))) by (unfold s0, set_sending; simp_p; apply notin_filter_self).
      assert (Hpl0: ~ In p (ps_pl s0)) by (unfold s0; simp_p; intros Hin; eapply I5; eauto).
      destruct (law_ready_op s0 p (PSendDone p 0) s' outs ltac:(intros; discriminate) HI0 Hp0 Hpl0 H) as [A B].
      split; [exact A|]. intros x.
      assert (EA: accepted s (PSendDone p 0) outs = accepted s0 (PSendDone p 0) outs).
      { clear. induction outs as [|y r IH]; cbn; [reflexivity|]. destruct y; rewrite ?IH; reflexivity. }
      rewrite EA. specialize (B x). unfold owned, held in *. unfold s0 at 1 2 in B. simp_p. unfold set_sending in B.
      pose proof (cnt_partition x p (ps_sending s)) as P. cnt_simp. lia.
    + (* failure: the message is freed, the pipe closed *)
      inversion H; subst; clear H. split.
      * unfold set_sending. pinv6; simp_p; auto.
        -- now apply nodup_filter_keys.
        -- intros q Hq Hin. eapply I5; eauto. eapply in_filter_keys; eauto.
      * intros x. unfold owned, held. rewrite accepted_app, accepted_map_Free. cbn [accepted].
        rewrite freed_app, freed_map_Free. cbn [freed]. simp_p. unfold set_sending.
        pose proof (cnt_partition x p (ps_sending s)) as P. cnt_simp. lia.
  - (* PRecvDone *)
    cbn [push_step] in H. destruct (rv =? 0)%N; cbn [negb] in H; inversion H; subst; clear H.
    + split; [exact HI|]. intros x. cbn [accepted freed]. cnt_simp. lia.
    + split; [exact HI|]. intros x. cbn [accepted freed]. cnt_simp. lia.
  - (* PSetOpt *)
    cbn [push_step] in H. destruct op; try (inversion H; subst; split; [exact HI|]; intros x; cbn [accepted freed]; cnt_simp; lia).
    destruct (8192 <? N.of_nat n)%N; [inversion H; subst; split; [exact HI|]; intros x; cbn [accepted freed]; cnt_simp; lia|].
    inversion H; subst; clear H. split.
    + pinv6; simp_p; auto.
      * intros Hne. destruct (I1 Hne) as [W A]. rewrite W. now rewrite firstn_nil.
      * rewrite firstn_length. lia.
    + intros x. unfold owned, held. rewrite accepted_app, accepted_map_Free. cbn [accepted].
      rewrite freed_app, freed_map_Free. cbn [freed]. simp_p.
      rewrite <- (firstn_skipn n (ps_wq s)) at 1. cnt_simp. lia.
  - inversion H; subst. split; [exact HI|]. intros x. cbn [accepted freed]. cnt_simp. lia.
  - inversion H; subst. split; [exact HI|]. intros x. cbn [accepted freed]. cnt_simp. lia.
  - (* PSockClose *)
    cbn [push_step] in H. inversion H; subst; clear H. split.
    + pinv6; simp_p; auto.
      * intros Hne. destruct (I1 Hne) as [W A]. auto.
      * constructor.
    + intros x. unfold owned, held. rewrite accepted_fail by discriminate. rewrite freed_fail. simp_p. cnt_simp. lia.
  - inversion H; subst. split; [exact HI|]. intros x. cbn [accepted freed]. cnt_simp. lia.
Qed.

(* ---- the send descriptor mirrors "a non-blocking send would be accepted" ---- *)
Definition can_accept (s : push) : bool :=
  negb (match ps_pl s with [] => true | _ => false end) || negb (wq_full s).
Definition WInv (s : push) : Prop := ps_writable s = can_accept s.

Lemma ready_winv s p s' outs : PInv s -> WInv s -> push_pipe_ready s p = (s', outs) -> WInv s'.
Proof.
  intros (I1 & I2 & _) W H. unfold push_pipe_ready in H. unfold WInv, can_accept, wq_full in *.
  destruct (ps_wq s) as [|m rest] eqn:EW; destruct (ps_aq s) as [|[a m2] aqr] eqn:EA;
    inversion H; subst; clear H; simp_p; cbn [length] in *.
  - destruct (ps_pl s) eqn:PL; cbn [app]; destruct (ps_cap s <=? 0) eqn:C; cbn in *; auto.
  - assert (PL: ps_pl s = []). { destruct (ps_pl s) eqn:E; auto. destruct I1 as [_ F]; [congruence|discriminate]. }
    rewrite PL in *. destruct (ps_cap s <=? 0) eqn:C; cbn in *; auto.
  - assert (PL: ps_pl s = []). { destruct (ps_pl s) eqn:E; auto. destruct I1 as [F _]; [congruence|discriminate]. }
    rewrite PL in *. cbn [negb orb andb] in *.
    destruct (ps_cap s <=? S (length rest)) eqn:C1; destruct (ps_cap s <=? length rest) eqn:C2; cbn in *; auto.
    apply Nat.leb_le in C2. apply Nat.leb_gt in C1. lia.
  - assert (PL: ps_pl s = []). { destruct (ps_pl s) eqn:E; auto. destruct I1 as [F _]; [congruence|discriminate]. }
    rewrite PL in *. cbn [negb orb andb] in *. rewrite app_length. cbn [length].
    replace (length rest + 1) with (S (length rest)) by lia.
    destruct (ps_cap s <=? S (length rest)) eqn:C1; cbn in *; auto.
Qed.

Theorem push_writable_mirror s o s' outs :
  PInv s -> WInv s -> push_step s o = (s', outs) -> WInv s'.
Proof.
  intros HI W H. pose proof HI as (I1 & I2 & _).
  destruct o as [c a nb m|c a nb|a rv|p peer|p|p rv|p rv m| c op|c|c| |now]; cbn [push_step] in H;
    try (inversion H; subst; exact W).
  - destruct (ps_pl s) as [|p rest] eqn:PL.
    + destruct (wq_full s) eqn:F; cbn [negb] in H.
      * destruct nb; inversion H; subst; clear H; unfold WInv, can_accept, wq_full in *; simp_p; rewrite ?PL in *; auto.
      * inversion H; subst; clear H. unfold WInv, can_accept, wq_full in *. simp_p. rewrite ?PL in *. cbn [negb orb] in *.
        destruct (ps_cap s <=? length (ps_wq s ++ [m])); auto. rewrite W, F. reflexivity.
    + inversion H; subst; clear H. unfold WInv, can_accept, wq_full in *. simp_p. rewrite ?PL in *.
      destruct rest; cbn [negb orb andb] in *; destruct (ps_cap s <=? length (ps_wq s)); cbn in *; auto.
  - destruct (has_aio a (ps_aq s)); inversion H; subst; auto.
  - destruct (negb (peer =? PROTO_PULL)%N); [inversion H; subst; exact W|].
    destruct (push_pipe_ready s p) as [s1 o1] eqn:R. inversion H; subst. eapply ready_winv; eauto.
  - destruct (has_id p (ps_pl s)) eqn:E; inversion H; subst; clear H; [|exact W].
    unfold WInv, can_accept, wq_full in *. simp_p.
    destruct (remove_id p (ps_pl s)) eqn:R; cbn [negb orb andb] in *.
    + destruct (ps_cap s <=? length (ps_wq s)); cbn; auto. rewrite W. apply orb_true_r.
    + (* some pipe is still ready, so the descriptor was raised and stays so *)
      assert (ps_pl s <> []) by (intros E0; rewrite E0 in R; discriminate).
      destruct (ps_pl s); [congruence|]. cbn in W. exact W.
  - destruct (negb (rv =? 0)%N).
    + inversion H; subst. unfold WInv, can_accept, wq_full in *. simp_p. exact W.
    + set (s0 := mkPush (ps_pl s) (ps_wq s) (ps_cap s) (ps_aq s) (set_sending s p None) (ps_writable s)) in *.
      eapply (ready_winv s0); eauto.
      destruct HI as (A & B & C & D & E & F). unfold s0, set_sending. pinv6; simp_p; auto.
      * now apply nodup_filter_keys.
      * intros q Hq Hin. eapply E; eauto. eapply in_filter_keys; eauto.
  - destruct (negb (rv =? 0)%N); inversion H; subst; exact W.
  - destruct op; try (inversion H; subst; exact W).
    destruct (8192 <? N.of_nat n)%N; inversion H; subst; clear H; [exact W|].
    unfold WInv, can_accept, wq_full in *. simp_p.
    destruct (n <=? length (firstn n (ps_wq s))) eqn:C; cbn [negb orb] in *.
    + destruct (ps_pl s) eqn:PL; cbn in *; auto.
    + destruct (ps_pl s); reflexivity.
Qed.

(* ---- non-blocking send: completes in the same step, EAGAIN exactly when the
        blocking form would have been queued, message left with the caller ---- *)
Theorem push_nb_immediate s c a m s' outs :
  push_step s (PSend c a true m) = (s', outs) ->
  exists rv rest, outs = Complete a rv None :: rest /\ ps_aq s' = ps_aq s /\
    (rv = E_AGAIN <-> can_accept s = false) /\ (rv = E_AGAIN -> s' = s /\ rest = []) /\
    (rv <> E_AGAIN -> rv = E_OK).
Proof.
  intros H. cbn [push_step] in H. unfold can_accept.
  destruct (ps_pl s) as [|p rest] eqn:PL.
  - destruct (wq_full s) eqn:F; cbn [negb orb] in *; inversion H; subst; clear H; simp_p.
    + exists E_AGAIN, []. repeat split; auto; congruence.
    + exists E_OK, []. repeat split; auto; try discriminate.
  - inversion H; subst; clear H; simp_p. cbn [negb orb].
    exists E_OK, [TranSend p m]. repeat split; auto; try discriminate.
Qed.

(* blocking send with no room: queued, nothing completes, nothing is transmitted or dropped *)
Theorem push_backpressure s c a m :
  can_accept s = false ->
  push_step s (PSend c a false m) = (mkPush (ps_pl s) (ps_wq s) (ps_cap s) (ps_aq s ++ [(a, m)]) (ps_sending s) (ps_writable s), []).
Proof.
  unfold can_accept. intros H. cbn [push_step]. destruct (ps_pl s); cbn in H; [|discriminate].
  destruct (wq_full s); cbn in *; [reflexivity|discriminate].
Qed.

(* ---- FIFO hand-off: messages reach the transport in the order they were accepted ---- *)
Theorem push_order_law s o s' outs :
  PInv s -> op_ok s o -> (forall c op, o <> PSetOpt c op) ->
  push_step s o = (s', outs) ->
  ps_wq s ++ accepted s o outs = txs outs ++ ps_wq s'.
Proof.
  intros HI Hok Hns H. pose proof HI as (I1 & I2 & I3 & I4 & I5 & I6).
  assert (READY: forall s p o s' outs, (forall c a nb m, o <> PSend c a nb m) -> aq_nodup s ->
            push_pipe_ready s p = (s', outs) -> ps_wq s ++ accepted s o outs = txs outs ++ ps_wq s').
  { clear. intros s p o s' outs Ho Hnd H. unfold push_pipe_ready in H.
    destruct (ps_wq s) as [|m rest] eqn:EW; destruct (ps_aq s) as [|[a m2] aqr] eqn:EA;
      inversion H; subst; clear H; simp_p; cbn [accepted txs app]; auto; try (rewrite ?app_nil_r; reflexivity).
    - assert (L: lookup_aq a (ps_aq s) = [m2]).
      { rewrite EA. apply lookup_head_nodup. unfold aq_nodup in Hnd. now rewrite EA in Hnd. }
      destruct o; try (exfalso; eapply Ho; reflexivity); change (E_OK =? 0)%N with true; cbn iota; rewrite L; reflexivity.
    - assert (L: lookup_aq a (ps_aq s) = [m2]).
      { rewrite EA. apply lookup_head_nodup. unfold aq_nodup in Hnd. now rewrite EA in Hnd. }
      destruct o; try (exfalso; eapply Ho; reflexivity); change (E_OK =? 0)%N with true; cbn iota; rewrite L;
        cbn [app]; rewrite ?app_nil_r; reflexivity. }
  destruct o as [c a nb m|c a nb|a rv|p peer|p|p rv|p rv m| c op|c|c| |now]; cbn [push_step op_ok] in *.
  - destruct (ps_pl s) as [|p rest] eqn:PL.
    + destruct (wq_full s) eqn:F; cbn [negb] in H.
      * destruct nb; inversion H; subst; simp_p; cbn [accepted txs]; change (E_AGAIN =? 0)%N with false; cbn iota; now rewrite ?app_nil_r.
      * inversion H; subst; simp_p. cbn [accepted txs]. change (E_OK =? 0)%N with true. cbn iota. now rewrite N.eqb_refl, app_nil_r.
    + destruct I1 as [W A]; [congruence|]. inversion H; subst; simp_p. cbn [accepted txs].
      change (E_OK =? 0)%N with true. cbn iota. rewrite N.eqb_refl, W. reflexivity.
  - inversion H; subst. cbn [accepted txs]. change (E_NOTSUP =? 0)%N with false. cbn iota. now rewrite app_nil_r.
  - destruct (has_aio a (ps_aq s)); inversion H; subst; simp_p; cbn [accepted txs]; rewrite ?app_nil_r; auto.
    destruct (N.eqb_spec rv 0); [contradiction|]. now rewrite app_nil_r.
  - destruct (negb (peer =? PROTO_PULL)%N); [inversion H; subst; cbn; now rewrite app_nil_r|].
    destruct (push_pipe_ready s p) as [s1 o1] eqn:R. inversion H; subst. cbn [accepted txs].
    eapply READY; eauto. intros; discriminate.
  - destruct (has_id p (ps_pl s)); inversion H; subst; simp_p; cbn; now rewrite app_nil_r.
  - destruct (N.eqb_spec rv 0) as [->|Hrv]; cbn [negb] in H.
    + set (s0 := mkPush (ps_pl s) (ps_wq s) (ps_cap s) (ps_aq s) (set_sending s p None) (ps_writable s)) in *.
      assert (EA: accepted s (PSendDone p 0) outs = accepted s0 (PSendDone p 0) outs).
      { clear. induction outs as [|y r IH]; cbn; [reflexivity|]. destruct y; rewrite ?IH; reflexivity. }
      rewrite EA. change (ps_wq s) with (ps_wq s0). eapply READY; eauto. intros; discriminate.
    + inversion H; subst; simp_p. rewrite accepted_app, accepted_map_Free, txs_app, txs_map_Free. cbn. now rewrite app_nil_r.
  - destruct (negb (rv =? 0)%N); inversion H; subst; cbn; now rewrite app_nil_r.
  - exfalso. eapply Hns. reflexivity.
  - inversion H; subst. cbn. now rewrite app_nil_r.
  - inversion H; subst. cbn. now rewrite app_nil_r.
  - inversion H; subst; simp_p. rewrite accepted_fail by discriminate. rewrite txs_fail. now rewrite app_nil_r.
  - inversion H; subst. cbn. now rewrite app_nil_r.
Qed.

(* ---- histories ---- *)
Fixpoint push_run (s : push) (ops : list pop) : push * list (pop * push * list pout) :=
  match ops with
  | [] => (s, [])
  | o :: r => let (s1, outs) := push_step s o in
              let (s2, tr) := push_run s1 r in (s2, (o, s, outs) :: tr)
  end.
Fixpoint ops_ok (s : push) (ops : list pop) : Prop :=
  match ops with
  | [] => True
  | o :: r => op_ok s o /\ ops_ok (fst (push_step s o)) r
  end.
Fixpoint tr_accepted (tr : list (pop * push * list pout)) : list pmsg :=
  match tr with [] => [] | (o, s, outs) :: r => accepted s o outs ++ arrived o ++ tr_accepted r end.
Fixpoint tr_out (tr : list (pop * push * list pout)) : list pmsg :=
  match tr with [] => [] | (o, s, outs) :: r => wire s o ++ freed outs ++ tr_out r end.

Lemma push_init_inv : PInv push_init /\ WInv push_init.
Proof.
  split; [|reflexivity]. unfold PInv, aq_nodup, push_init. simp_p. cbn.
  repeat split; auto; try constructor; try congruence; tauto.
Qed.

(* every well-formed history conserves messages: what the socket owned plus what
   it accepted (or received) equals what it still owns plus what the transports
   took plus what it freed; and the poll descriptor mirrors acceptability throughout *)
Theorem push_run_law ops : forall s, PInv s -> WInv s -> ops_ok s ops ->
  let (s', tr) := push_run s ops in
  PInv s' /\ WInv s' /\ forall x, cnt x (owned s ++ tr_accepted tr) = cnt x (owned s' ++ tr_out tr).
Proof.
  induction ops as [|o r IH]; intros s HI HW Hok; cbn [push_run].
  - split; [exact HI|]. split; [exact HW|]. intros x. cbn [tr_accepted tr_out]. now rewrite !app_nil_r.
  - cbn [ops_ok] in Hok. destruct Hok as [Ho Hr].
    destruct (push_step s o) as [s1 outs] eqn:S. cbn [fst] in Hr.
    destruct (push_step_law _ _ _ _ HI Ho S) as [HI1 L].
    pose proof (push_writable_mirror _ _ _ _ HI HW S) as HW1.
    specialize (IH s1 HI1 HW1 Hr). destruct (push_run s1 r) as [s2 tr].
    destruct IH as (A & B & C). split; [exact A|]. split; [exact B|]. intros x. cbn [tr_accepted tr_out].
    specialize (L x). specialize (C x). cnt_simp. lia.
Qed.
