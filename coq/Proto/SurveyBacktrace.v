(* SurveyBacktrace: the header/body transformers of the SURVEYOR / RESPONDENT
   receive and send callbacks (src/sp/protocol/survey0/{survey,respond,xsurvey,
   xrespond}.c) as pure functions.  Definitions only; their correctness lemmas
   are in SurveyProofs.v (section "backtrace").  Exported for C13 (devices).

   A wire message is a byte list (what the transport delivers in the body);
   "header" is the nni_msg header the protocol builds up, at most HDR_MAX bytes
   (message.c: m_header_buf[(NNI_MAX_MAX_TTL + 1)] 32-bit words). *)
From Coq Require Import List Arith NArith Bool.
Import ListNotations.

Definition HDR_MAX : nat := 64.          (* sizeof(m_header_buf); tied to Gen/Consts.v in Properties_C07 *)
Definition TTL_MAX : nat := 15.          (* NNI_MAX_MAX_TTL *)
Definition TTL_DEFAULT : nat := 8.

Inductive bt_result :=
| BtDeliver (hdr body : list N)          (* header and remaining body of the message passed up *)
| BtDrop                                 (* message freed, connection kept, next receive posted *)
| BtClose.                               (* message freed, pipe closed ("peer is speaking garbage") *)

Definition be32 (v : N) : list N :=
  [(v / 16777216) mod 256; (v / 65536) mod 256; (v / 256) mod 256; v mod 256]%N.
Definition word32 (a b c d : N) : N := (((a * 256 + b) * 256 + c) * 256 + d)%N.

(* (body[0] & 0x80u) != 0 *)
Definition is_end (b0 : N) : bool := N.testbit b0 7.

(* nni_msg_header_append(msg, body, 4) fails (NNG_EINVAL) iff the header buffer would overflow *)
Definition hdr_room (hdr : list N) : bool := length hdr + 4 <=? HDR_MAX.

(* the loop of resp0_pipe_recv_cb / xresp0_recv_cb:
     hops = 1; for (;;) { if (hops > ttl) drop; hops++; if (len < 4) close;
                          end = body[0] & 0x80; if (header_append fails) drop; trim 4; if (end) break; }
   n = the number of iterations still allowed (ttl - hops + 1) *)
Fixpoint bt_move (n : nat) (hdr body : list N) : bt_result :=
  match n with
  | O => BtDrop
  | S n' =>
      match body with
      | b0 :: b1 :: b2 :: b3 :: rest =>
          if hdr_room hdr then
            let hdr' := hdr ++ [b0; b1; b2; b3] in
            if is_end b0 then BtDeliver hdr' rest else bt_move n' hdr' rest
          else BtDrop
      | _ => BtClose
      end
  end.

(* cooked respondent: the header starts empty *)
Definition resp_recv (ttl : nat) (wire : list N) : bt_result := bt_move ttl [] wire.
(* raw respondent: the receiving pipe's id is stored first *)
Definition xresp_recv (p : N) (ttl : nat) (wire : list N) : bt_result := bt_move ttl (be32 p) wire.

(* xsurv0_recv_cb: no TTL; words are moved until one has the high bit; a short
   body or a full header both free the message and close the pipe *)
Fixpoint xsurv_move (fuel : nat) (hdr body : list N) : bt_result :=
  match fuel with
  | O => BtClose
  | S f =>
      match body with
      | b0 :: b1 :: b2 :: b3 :: rest =>
          if hdr_room hdr then
            let hdr' := hdr ++ [b0; b1; b2; b3] in
            if is_end b0 then BtDeliver hdr' rest else xsurv_move f hdr' rest
          else BtClose
      | _ => BtClose
      end
  end.
Definition xsurv_recv (wire : list N) : bt_result := xsurv_move (S (length wire)) [] wire.

(* surv0_pipe_recv_cb: exactly one word (the survey id) is moved, whatever its value *)
Definition surv_recv (wire : list N) : option (N * list N * list N) :=   (* id, header, body *)
  match wire with
  | b0 :: b1 :: b2 :: b3 :: rest => Some (word32 b0 b1 b2 b3, [b0; b1; b2; b3], rest)
  | _ => None
  end.

(* xresp0_sock_getq_cb: the outgoing pipe id is popped from the header *)
Definition xresp_send (hdr : list N) : option (N * list N) :=           (* pipe id, remaining header *)
  match hdr with
  | b0 :: b1 :: b2 :: b3 :: rest => Some (word32 b0 b1 b2 b3, rest)
  | _ => None
  end.

(* what goes on the wire for a message with this header and body (all SP transports) *)
Definition wire_of (hdr body : list N) : list N := hdr ++ body.

(* cooked respondent send: the saved backtrace becomes the header;
   cooked surveyor send: the header is the survey id;
   raw surveyor send: header as supplied *)
Definition resp_send (bt body : list N) : list N := wire_of bt body.
Definition surv_send (id : N) (body : list N) : list N := wire_of (be32 id) body.
