(* PubSubCur: the PUB/SUB models instantiated with the variant flags the current
   source has (Gen/Consts.v is regenerated from /repo on every run).  Definitions only. *)
From Coq Require Import List NArith Bool.
From NngV Require Import Gen.Consts Proto.Common Proto.SubModel Proto.PubModel Proto.XsubModel.

Definition sub_step_cur : sub -> pop -> sub * list pout := sub_step C05_SUB_UNSUB_CLEARS_POLL.
Definition xsub_step_cur : xsub -> pop -> xsub * list pout := xsub_step C05_MSGQ_GET_TRIES_FIRST C05_MSGQ_RESIZE_NOTIFIES.
