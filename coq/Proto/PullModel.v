(* PullModel: src/sp/protocol/pipeline0/pull.c.  Definitions only. *)
From Coq Require Import List Arith NArith Bool.
From NngV Require Import Proto.Common Proto.PushModel.
Import ListNotations.

Record pull := mkPull {
  pl_pl : list (pid * pmsg);     (* pipes holding a received message, oldest first *)
  pl_rq : list aioid;            (* blocked receivers *)
  pl_closed : list pid;          (* pipes whose pipe_close has run *)
  pl_readable : bool }.

Definition pull_init : pull := mkPull [] [] [] false.

Definition pull_step (s : pull) (o : pop) : pull * list pout :=
  match o with
  | PPipeStart p peer =>
      if negb (N.eqb peer PROTO_PUSH) then (s, [Reject E_PROTO]) else (s, [TranRecv p])
  | PPipeClose p =>
      let held := map snd (filter (fun x => N.eqb (fst x) p) (pl_pl s)) in
      let pl' := filter (fun x => negb (N.eqb (fst x) p)) (pl_pl s) in
      let r := if has_aio p (pl_pl s) && (match pl' with [] => true | _ => false end) then false else pl_readable s in
      (mkPull pl' (pl_rq s) (p :: pl_closed s) r, map Free held)   (* p->m is released with the pipe *)
  | PRecvDone p rv m =>
      if negb (N.eqb rv 0) then (s, [ClosePipe p])
      else if has_id p (pl_closed s) then (s, [Free m])
      else match pl_rq s with
           | [] =>
               let r := match pl_pl s with [] => true | _ => pl_readable s end in
               (mkPull (pl_pl s ++ [(p, m)]) [] (pl_closed s) r, [])
           | a :: rest =>
               (mkPull (pl_pl s) rest (pl_closed s) (pl_readable s), [TranRecv p; Complete a E_OK (Some m)])
           end
  | PRecv _ a nb =>
      match pl_pl s with
      | [] => if nb then (s, [Complete a E_AGAIN None])
              else (mkPull [] (pl_rq s ++ [a]) (pl_closed s) (pl_readable s), [])
      | (p, m) :: rest =>
          let r := match rest with [] => false | _ => pl_readable s end in
          (mkPull rest (pl_rq s) (pl_closed s) r, [Complete a E_OK (Some m); TranRecv p])
      end
  | PSend _ a _ m => (s, [Complete a E_NOTSUP None])
  | PCancel a rv =>
      if has_id a (pl_rq s)
      then (mkPull (pl_pl s) (remove_id a (pl_rq s)) (pl_closed s) (pl_readable s), [Complete a rv None])
      else (s, [])
  | PSetOpt _ _ => (s, [OptRv E_NOTSUP])
  | PSockClose => (mkPull (pl_pl s) [] (pl_closed s) (pl_readable s), fail_aios E_CLOSED (pl_rq s))
  | PSendDone _ _ | PCtxOpen _ | PCtxClose _ | PTick _ => (s, [])
  end.

Definition pull_poll (s : pull) : ppoll := mkPoll (Some (pl_readable s)) None.
