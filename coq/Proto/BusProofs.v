(* BusProofs: invariant, fan-out law, no echo, per-peer FIFO, whole-message drops,
   receive order, conservation of references, non-blocking / poll mirror for BusModel. *)
From Coq Require Import List Arith NArith ZArith Bool Lia.
From NngV Require Import Proto.Common Proto.PushModel Proto.PushProofs Proto.PullModel Proto.PullProofs Proto.BusModel.
Import ListNotations.

Ltac simp_b := cbn [bs_raw bs_pipes bs_rq bs_rcap bs_wait bs_sendbuf bs_sending bs_readable bs_lost
                    bp_id bp_busy bp_q bp_cap] in *.

(* ---------------------------------------------------------------- observers *)
Definition pipe_ids (s : bus) : list pid := map bp_id (bs_pipes s).
Definition find_pipe (p : pid) (l : list bpipe) : option bpipe := find (is_pipe p) l.
Definition pq (p : pid) (s : bus) : list pmsg :=
  match find_pipe p (bs_pipes s) with Some bp => bp_q bp | None => [] end.
Fixpoint txs_on (p : pid) (outs : list pout) : list pmsg :=
  match outs with
  | [] => []
  | TranSend q m :: r => if N.eqb q p then m :: txs_on p r else txs_on p r
  | _ :: r => txs_on p r
  end.
Fixpoint completions (outs : list pout) : list (aioid * N) :=
  match outs with [] => [] | Complete a rv _ :: r => (a, rv) :: completions r | _ :: r => completions r end.

Lemma txs_on_app p a b : txs_on p (a ++ b) = txs_on p a ++ txs_on p b.
Proof. induction a as [|[] a IH]; cbn; rewrite ?IH; auto. destruct (N.eqb p0 p); cbn; congruence. Qed.
Lemma txs_on_map_Free p l : txs_on p (map Free l) = [].
Proof. induction l; cbn; auto. Qed.
Lemma txs_on_fail p rv l : txs_on p (fail_aios rv l) = [].
Proof. induction l; cbn; auto. Qed.
Lemma txs_on_map_other p q l : q <> p -> txs_on p (map (TranSend q) l) = [].
Proof. intros H. induction l; cbn; auto. destruct (N.eqb_spec q p); [contradiction|auto]. Qed.
Lemma txs_on_map_same p l : txs_on p (map (TranSend p) l) = l.
Proof. induction l; cbn; auto. rewrite N.eqb_refl. congruence. Qed.
Lemma completions_app a b : completions (a ++ b) = completions a ++ completions b.
Proof. induction a as [|[] a IH]; cbn; rewrite ?IH; auto. Qed.
Lemma delivered_app a b : delivered (a ++ b) = delivered a ++ delivered b.
Proof.
  induction a as [|x a IH]; cbn; auto. destruct x; auto. destruct m; auto.
  destruct (N.eqb rv 0); cbn; congruence.
Qed.

Lemma nodup_app_intro {A} (l1 l2 : list A) :
  NoDup l1 -> NoDup l2 -> (forall x, In x l1 -> In x l2 -> False) -> NoDup (l1 ++ l2).
Proof.
  induction l1 as [|a l IH]; cbn; intros H1 H2 H; [exact H2|]. inversion H1; subst. constructor.
  - intros Hin. apply in_app_or in Hin as [Hin|Hin]; [auto|]. eapply H; eauto.
  - apply IH; auto. intros x Hx. apply H. now right.
Qed.

(* ---------------------------------------------------------------- word codec *)
Lemma dec_enc32 v : (v < 4294967296)%N -> dec32 (enc32 v) = v.
Proof.
  intros H. unfold dec32, enc32. cbn [fold_left].
  replace 16777216%N with (256 * 256 * 256)%N by reflexivity.
  replace 65536%N with (256 * 256)%N by reflexivity.
  rewrite <- !N.div_div by discriminate.
  set (a := (v / 256)%N). set (b := (a / 256)%N). set (c := (b / 256)%N).
  pose proof (N.div_mod' v 256) as E1. pose proof (N.div_mod' a 256) as E2. pose proof (N.div_mod' b 256) as E3.
  fold a in E1. fold b in E2. fold c in E3.
  assert (C: (c < 256)%N).
  { unfold c, b, a. rewrite !N.div_div by discriminate. apply N.div_lt_upper_bound; [discriminate|]. exact H. }
  rewrite (N.mod_small c 256 C). lia.
Qed.
Ltac Zify.zify_post_hook ::= idtac.
Lemma enc32_length v : length (enc32 v) = 4.
Proof. reflexivity. Qed.

(* ---------------------------------------------------------------- offer facts *)
Lemma offer_pipe_id raw sender m bp : bp_id (offer_pipe raw sender m bp) = bp_id bp.
Proof. unfold offer_pipe. destruct (offer_kind raw sender bp); reflexivity. Qed.
Lemma offer_pipe_cap raw sender m bp : bp_cap (offer_pipe raw sender m bp) = bp_cap bp.
Proof. unfold offer_pipe. destruct (offer_kind raw sender bp); reflexivity. Qed.

Lemma is_pipe_true p bp : is_pipe p bp = true <-> bp_id bp = p.
Proof. unfold is_pipe. apply N.eqb_eq. Qed.
Lemma is_pipe_false p bp : is_pipe p bp = false <-> bp_id bp <> p.
Proof. unfold is_pipe. apply N.eqb_neq. Qed.

Lemma find_pipe_none p l : ~ In p (map bp_id l) -> find_pipe p l = None.
Proof.
  induction l as [|bp l IH]; cbn; intros H; [reflexivity|].
  destruct (is_pipe p bp) eqn:E; [apply is_pipe_true in E; tauto|]. apply IH. tauto.
Qed.
Lemma find_pipe_some p l bp : find_pipe p l = Some bp -> In bp l /\ bp_id bp = p.
Proof. intros H. apply find_some in H as [A B]. split; auto. now apply is_pipe_true. Qed.
Lemma find_pipe_in p l bp : NoDup (map bp_id l) -> In bp l -> bp_id bp = p -> find_pipe p l = Some bp.
Proof.
  induction l as [|b l IH]; cbn; intros ND Hin Hid; [tauto|]. inversion ND; subst.
  destruct Hin as [->|Hin].
  - assert (E: is_pipe (bp_id bp) bp = true) by now apply is_pipe_true. now rewrite E.
  - destruct (is_pipe (bp_id bp) b) eqn:E.
    + apply is_pipe_true in E. exfalso. apply H1. rewrite E. now apply in_map.
    + now apply IH.
Qed.
Lemma find_pipe_map p f l : (forall bp, bp_id (f bp) = bp_id bp) ->
  find_pipe p (map f l) = option_map f (find_pipe p l).
Proof.
  intros Hf. induction l as [|bp l IH]; cbn; [reflexivity|].
  unfold is_pipe at 1. rewrite Hf. fold (is_pipe p bp). destruct (is_pipe p bp); cbn; auto.
Qed.
Lemma find_pipe_app p l1 l2 : find_pipe p (l1 ++ l2) =
  match find_pipe p l1 with Some bp => Some bp | None => find_pipe p l2 end.
Proof. induction l1 as [|bp l IH]; cbn; [reflexivity|]. destruct (is_pipe p bp); auto. Qed.
Lemma find_pipe_filter_self p l : find_pipe p (filter (fun bp => negb (is_pipe p bp)) l) = None.
Proof.
  induction l as [|bp l IH]; cbn; [reflexivity|]. destruct (is_pipe p bp) eqn:E; cbn; auto. now rewrite E.
Qed.
Lemma find_pipe_filter_other p q l : q <> p ->
  find_pipe p (filter (fun bp => negb (is_pipe q bp)) l) = find_pipe p l.
Proof.
  intros H. induction l as [|bp l IH]; cbn; [reflexivity|].
  destruct (is_pipe q bp) eqn:E; cbn.
  - apply is_pipe_true in E. assert (F: is_pipe p bp = false) by (apply is_pipe_false; congruence). now rewrite F.
  - destruct (is_pipe p bp); auto.
Qed.
Lemma map_id_map f l : (forall bp, bp_id (f bp) = bp_id bp) -> map bp_id (map f l) = map bp_id l.
Proof. intros Hf. rewrite map_map. apply map_ext. auto. Qed.
Lemma in_ids_filter (f : bpipe -> bool) l k : In k (map bp_id (filter f l)) -> In k (map bp_id l).
Proof. induction l as [|b l IH]; cbn; [tauto|]. destruct (f b); cbn; tauto. Qed.
Lemma nodup_ids_filter (f : bpipe -> bool) l : NoDup (map bp_id l) -> NoDup (map bp_id (filter f l)).
Proof.
  induction l as [|b l IH]; cbn; intros H; [constructor|]. inversion H; subst.
  destruct (f b); cbn; auto. constructor; auto. intros Hin. apply H2. eapply in_ids_filter; eauto.
Qed.

(* what the fan-out loop emits for pipe p *)
Lemma txs_on_offer_notin raw sender m p l :
  ~ In p (map bp_id l) -> txs_on p (flat_map (offer_outs raw sender m) l) = [].
Proof.
  induction l as [|bp l IH]; cbn; intros H; [reflexivity|]. rewrite txs_on_app, IH by tauto.
  unfold offer_outs. destruct (offer_kind raw sender bp); cbn; auto.
  destruct (N.eqb_spec (bp_id bp) p); [tauto|reflexivity].
Qed.
Lemma txs_on_offer raw sender m p l : NoDup (map bp_id l) ->
  txs_on p (flat_map (offer_outs raw sender m) l) =
  match find_pipe p l with
  | Some bp => match offer_kind raw sender bp with ODirect => [m] | _ => [] end
  | None => []
  end.
Proof.
  induction l as [|bp l IH]; cbn; intros ND; [reflexivity|]. inversion ND; subst.
  rewrite txs_on_app. destruct (is_pipe p bp) eqn:E.
  - apply is_pipe_true in E. subst p. rewrite txs_on_offer_notin by assumption. rewrite app_nil_r.
    unfold offer_outs. destruct (offer_kind raw sender bp); cbn; auto. now rewrite N.eqb_refl.
  - rewrite IH by assumption. apply is_pipe_false in E.
    unfold offer_outs. destruct (offer_kind raw sender bp); cbn; auto.
    destruct (N.eqb_spec (bp_id bp) p); [contradiction|reflexivity].
Qed.
Lemma offer_sending_keys raw sender m l k :
  In k (map fst (flat_map (offer_sending raw sender m) l)) ->
  exists bp, In bp l /\ bp_id bp = k /\ offer_kind raw sender bp = ODirect.
Proof.
  induction l as [|bp l IH]; cbn; [tauto|]. rewrite map_app, in_app_iff. intros [H|H].
  - unfold offer_sending in H. destruct (offer_kind raw sender bp) eqn:K; cbn in H; try tauto.
    destruct H as [<-|[]]. exists bp. auto.
  - destruct (IH H) as (b & A & B & C). exists b. auto.
Qed.
Lemma nodup_offer_sending raw sender m l :
  NoDup (map bp_id l) -> NoDup (map fst (flat_map (offer_sending raw sender m) l)).
Proof.
  induction l as [|bp l IH]; cbn; intros ND; [constructor|]. inversion ND; subst.
  rewrite map_app. unfold offer_sending at 1. destruct (offer_kind raw sender bp); cbn; auto.
  constructor; auto. intros Hin. apply offer_sending_keys in Hin as (b & A & B & _).
  apply H1. rewrite <- B. now apply in_map.
Qed.
Lemma nodup_ids_inj l b1 b2 : NoDup (map bp_id l) -> In b1 l -> In b2 l -> bp_id b1 = bp_id b2 -> b1 = b2.
Proof.
  induction l as [|b l IH]; cbn; intros ND H1 H2 E; [tauto|]. inversion ND; subst.
  destruct H1 as [->|H1], H2 as [->|H2]; auto.
  - exfalso. apply H3. rewrite E. now apply in_map.
  - exfalso. apply H3. rewrite <- E. now apply in_map.
Qed.
Lemma freed_offer raw sender m l : freed (flat_map (offer_outs raw sender m) l) = [].
Proof.
  induction l as [|bp l IH]; cbn; [reflexivity|]. rewrite freed_app, IH.
  unfold offer_outs. destruct (offer_kind raw sender bp); reflexivity.
Qed.
Lemma delivered_offer raw sender m l : delivered (flat_map (offer_outs raw sender m) l) = [].
Proof.
  induction l as [|bp l IH]; cbn; [reflexivity|]. rewrite delivered_app, IH.
  unfold offer_outs. destruct (offer_kind raw sender bp); reflexivity.
Qed.
Lemma completions_offer raw sender m l : completions (flat_map (offer_outs raw sender m) l) = [].
Proof.
  induction l as [|bp l IH]; cbn; [reflexivity|]. rewrite completions_app, IH.
  unfold offer_outs. destruct (offer_kind raw sender bp); reflexivity.
Qed.

(* ---------------------------------------------------------------- invariant *)
Definition pipe_ok (s : bus) (bp : bpipe) : Prop :=
  length (bp_q bp) <= bp_cap bp /\
  (bp_busy bp = false -> bp_q bp = [] /\ ~ In (bp_id bp) (map fst (bs_sending s))) /\
  bp_id bp <> 0%N /\ (bp_id bp < 4294967296)%N.

Definition BInv (s : bus) : Prop :=
  NoDup (pipe_ids s) /\ Forall (pipe_ok s) (bs_pipes s) /\ NoDup (map fst (bs_sending s)) /\
  length (bs_rq s) <= bs_rcap s /\ (bs_wait s <> [] -> bs_rq s = []) /\ NoDup (bs_wait s) /\
  bs_readable s = negb (is_nil (bs_rq s)).

(* the environment's side: a pipe is started once, with an id out of the pipe id
   range (Properties_C18: ids are never 0 and fit 32 bits); a transport completion
   belongs to a transport send in flight; an aio is submitted once at a time *)
Definition op_ok (s : bus) (o : pop) : Prop :=
  match o with
  | PPipeStart p _ => ~ In p (pipe_ids s) /\ ~ In p (map fst (bs_sending s)) /\ p <> 0%N /\ (p < 4294967296)%N
  | PSendDone p _ => In p (map fst (bs_sending s))
  | PRecv _ a _ => ~ In a (bs_wait s)
  | PCancel _ rv => rv <> 0%N
  | _ => True
  end.

Lemma bus_init_inv raw : BInv (bus_init raw).
Proof.
  unfold BInv, bus_init, pipe_ids. simp_b. cbn.
  repeat split; auto; try constructor; try lia.
Qed.

Lemma buf_bad_false n : buf_bad n = false -> 1 <= n.
Proof.
  unfold buf_bad, BUS_BUF_MIN, BUS_BUF_MAX. intros H. apply orb_false_iff in H as [A _].
  apply N.ltb_ge in A. lia.
Qed.

Lemma flat_next_find p l : NoDup (map bp_id l) ->
  flat_map (fun bp => if is_pipe p bp then snd (pipe_next bp) else []) l =
  match find_pipe p l with Some bp => snd (pipe_next bp) | None => [] end.
Proof.
  induction l as [|bp l IH]; cbn; intros ND; [reflexivity|]. inversion ND; subst.
  destruct (is_pipe p bp) eqn:E.
  - apply is_pipe_true in E. subst p. rewrite IH by assumption. rewrite find_pipe_none by assumption.
    now rewrite app_nil_r.
  - now apply IH.
Qed.
Lemma pipe_next_len bp : length (snd (pipe_next bp)) <= 1.
Proof. unfold pipe_next. destruct (bp_q bp); cbn; lia. Qed.

Lemma is_nil_firstn {A} n (l : list A) : 1 <= n -> is_nil (firstn n l) = is_nil l.
Proof. intros H. destruct n; [lia|]. destruct l; reflexivity. Qed.

Theorem bus_step_inv fixed s o s' outs :
  BInv s -> op_ok s o -> bus_step fixed s o = (s', outs) -> BInv s'.
Proof.
  intros (I1 & I2 & I3 & I4 & I5 & I6 & I7) Hok H. unfold BInv, pipe_ids in *.
  destruct o as [c a nb m|c a nb|a rv|p peer|p|p rv|p rv m|c op|c|c| |now]; cbn [bus_step op_ok] in *.
  - (* PSend *)
    destruct (negb fixed && nb); inversion H; subst; clear H; simp_b.
    + repeat split; auto.
    + set (raw := bs_raw s) in *. set (sender := fst (bus_prep raw m)) in *. set (m' := snd (bus_prep raw m)) in *.
      rewrite (map_id_map _ _ (offer_pipe_id raw sender m')).
      split; [exact I1|]. split; [|split; [|repeat split; auto]].
      * (* every pipe stays well-formed *)
        apply Forall_forall. intros b Hb. apply in_map_iff in Hb as (bp & <- & Hin).
        pose proof (proj1 (Forall_forall _ _) I2 bp Hin) as (P1 & P2 & P3 & P4).
        unfold pipe_ok. rewrite offer_pipe_id, offer_pipe_cap. simp_b.
        unfold offer_pipe. destruct (offer_kind raw sender bp) eqn:K; simp_b.
        -- (* skipped: unchanged; if idle it holds nothing, also after the others were served *)
           repeat split; auto; try (apply P2; assumption).
           intros Hin2. rewrite map_app in Hin2. apply in_app_or in Hin2 as [Hin2|Hin2].
           ++ apply offer_sending_keys in Hin2 as (b2 & A & B & C).
              assert (b2 = bp) by (eapply nodup_ids_inj; eauto). subst b2. congruence.
           ++ apply (proj2 (P2 H)). exact Hin2.
        -- repeat split; auto; discriminate.
        -- unfold offer_kind in K. destruct (raw && (bp_id bp =? sender)%N); [discriminate|].
           destruct (bp_busy bp) eqn:B; cbn [negb] in K; [|discriminate].
           destruct (length (bp_q bp) <? bp_cap bp) eqn:L; [|discriminate]. apply Nat.ltb_lt in L.
           repeat split; auto; try discriminate. rewrite app_length. cbn. lia.
        -- unfold offer_kind in K. destruct (raw && (bp_id bp =? sender)%N); [discriminate|].
           destruct (bp_busy bp) eqn:B; cbn [negb] in K; [|discriminate].
           repeat split; auto; discriminate.
      * (* at most one message attached per pipe *)
        rewrite map_app. apply nodup_app_intro.
        -- now apply nodup_offer_sending.
        -- exact I3.
        -- intros k Hk Hk2. apply offer_sending_keys in Hk as (bp & A & B & C).
           pose proof (proj1 (Forall_forall _ _) I2 bp A) as (_ & P2 & _).
           unfold offer_kind in C. destruct (raw && (bp_id bp =? sender)%N); [discriminate|].
           destruct (bp_busy bp) eqn:Bz; cbn [negb] in C; [destruct (length (bp_q bp) <? bp_cap bp); discriminate|].
           apply (proj2 (P2 eq_refl)). now rewrite B.
  - (* PRecv *)
    destruct (bs_rq s) as [|x rest] eqn:RQ.
    + destruct nb; inversion H; subst; clear H; simp_b; rewrite ?RQ.
      * repeat split; auto.
      * repeat split; auto. now apply nodup_snoc.
    + inversion H; subst; clear H; simp_b. cbn [length] in I4. repeat split; auto; try lia.
      * intros Hne. discriminate (I5 Hne).
      * destruct rest; cbn; auto.
  - (* PCancel *)
    destruct (has_id a (bs_wait s)); inversion H; subst; clear H; simp_b; repeat split; auto.
    + intros Hne. apply I5. intros E. rewrite E in Hne. now apply Hne.
    + now apply remove_id_nodup.
  - (* PPipeStart *)
    destruct (negb (peer =? PROTO_BUS)%N); inversion H; subst; clear H; simp_b; [repeat split; auto|].
    destruct Hok as (O1 & O2 & O3 & O4). rewrite map_app. cbn [map bp_id].
    repeat split; auto.
    + now apply nodup_snoc.
    + apply Forall_app. split; [exact I2|]. constructor; [|constructor].
      unfold pipe_ok. simp_b. cbn. repeat split; auto; lia.
  - (* PPipeClose *)
    inversion H; subst; clear H; simp_b. repeat split; auto.
    + now apply nodup_ids_filter.
    + apply Forall_forall. intros b Hb. apply filter_In in Hb as [Hb _].
      exact (proj1 (Forall_forall _ _) I2 b Hb).
  - (* PSendDone *)
    destruct (negb (rv =? 0)%N); inversion H; subst; clear H; simp_b.
    + repeat split; auto.
      * apply Forall_forall. intros b Hb. pose proof (proj1 (Forall_forall _ _) I2 b Hb) as (P1 & P2 & P3 & P4).
        unfold pipe_ok. simp_b. repeat split; auto; try (apply P2; assumption).
        intros Hin. apply (proj2 (P2 H)). unfold drop_sending in Hin. eapply in_filter_keys; eauto.
      * unfold drop_sending. now apply nodup_filter_keys.
    + rewrite (flat_next_find p _ I1).
      rewrite map_id_map by (intros bp; destruct (is_pipe p bp); [unfold pipe_next; destruct (bp_q bp)|]; reflexivity).
      split; [exact I1|]. split; [|split; [|repeat split; auto]].
      * apply Forall_forall. intros b Hb. apply in_map_iff in Hb as (bp & <- & Hin).
        pose proof (proj1 (Forall_forall _ _) I2 bp Hin) as (P1 & P2 & P3 & P4).
        destruct (is_pipe p bp) eqn:E.
        -- apply is_pipe_true in E. subst p. rewrite (find_pipe_in (bp_id bp) _ bp I1 Hin eq_refl).
           unfold pipe_next. destruct (bp_q bp) as [|x r] eqn:Q; unfold pipe_ok; cbn [fst snd map app]; simp_b; cbn [length] in *.
           ++ split; [lia|]. split; [|auto]. intros _. split; [reflexivity|]. unfold drop_sending. apply notin_filter_self.
           ++ split; [lia|]. split; [|auto]. intros B. destruct (P2 B) as [F _]. discriminate.
        -- apply is_pipe_false in E. unfold pipe_ok. simp_b. repeat split; auto; try (apply P2; assumption).
           intros Hin2. rewrite map_app in Hin2. apply in_app_or in Hin2 as [Hin2|Hin2].
           ++ rewrite map_map in Hin2. cbn [fst] in Hin2. apply in_map_iff in Hin2 as (? & Hp & _). congruence.
           ++ apply (proj2 (P2 H)). unfold drop_sending in Hin2. eapply in_filter_keys; eauto.
      * rewrite map_app, map_map. cbn [fst].
        assert (ND: NoDup (map fst (drop_sending p (bs_sending s)))) by (unfold drop_sending; now apply nodup_filter_keys).
        assert (NI: ~ In p (map fst (drop_sending p (bs_sending s)))) by (unfold drop_sending; apply notin_filter_self).
        destruct (find_pipe p (bs_pipes s)) as [bp|]; [|exact ND].
        pose proof (pipe_next_len bp) as L. destruct (snd (pipe_next bp)) as [|x [|y r]]; cbn in *; try lia; auto.
        constructor; auto.
  - (* PRecvDone *)
    destruct (negb (rv =? 0)%N); [inversion H; subst; repeat split; auto|].
    destruct (bs_wait s) as [|a rest] eqn:W.
    + destruct (length (bs_rq s) <? bs_rcap s) eqn:L; inversion H; subst; clear H; simp_b; rewrite ?W.
      * apply Nat.ltb_lt in L. repeat split; auto.
        -- rewrite app_length. cbn. lia.
        -- intros F. now contradiction F.
        -- destruct (bs_rq s); reflexivity.
      * repeat split; auto.
    + inversion H; subst; clear H; simp_b. repeat split; auto.
      * intros _. apply I5. discriminate.
      * now inversion I6.
  - (* PSetOpt *)
    destruct op; try (inversion H; subst; repeat split; auto; fail).
    + destruct (buf_bad n) eqn:BB; inversion H; subst; clear H; simp_b; [repeat split; auto|].
      rewrite map_id_map by reflexivity. repeat split; auto.
      apply Forall_forall. intros b Hb. apply in_map_iff in Hb as (bp & <- & Hin).
      pose proof (proj1 (Forall_forall _ _) I2 bp Hin) as (P1 & P2 & P3 & P4).
      unfold pipe_ok. simp_b. repeat split; auto.
      * rewrite firstn_length. lia.
      * destruct (P2 H) as [Q _]. rewrite Q. now rewrite firstn_nil.
      * apply P2. assumption.
    + destruct (buf_bad n) eqn:BB; inversion H; subst; clear H; simp_b; [repeat split; auto|].
      apply buf_bad_false in BB. repeat split; auto.
      * rewrite firstn_length. lia.
      * intros Hne. rewrite (I5 Hne). now rewrite firstn_nil.
      * rewrite is_nil_firstn by assumption. exact I7.
  - inversion H; subst. repeat split; auto.
  - inversion H; subst. repeat split; auto.
  - (* PSockClose *)
    inversion H; subst; clear H; simp_b. repeat split; auto. constructor.
  - inversion H; subst. repeat split; auto.
Qed.

(* ================================================================ the fan-out law *)
(* what an accepted send does, pipe by pipe *)
Definition accepts (fixed nb : bool) : bool := negb (negb fixed && nb).
Definition sent_as (s : bus) (m : pmsg) : pmsg := snd (bus_prep (bs_raw s) m).
Definition origin (s : bus) (m : pmsg) : N := fst (bus_prep (bs_raw s) m).

Theorem bus_send_shape fixed s c a nb m s' outs :
  bus_step fixed s (PSend c a nb m) = (s', outs) ->
  if accepts fixed nb then
    s' = mkBus (bs_raw s) (map (offer_pipe (bs_raw s) (origin s m) (sent_as s m)) (bs_pipes s)) (bs_rq s) (bs_rcap s)
               (bs_wait s) (bs_sendbuf s)
               (flat_map (offer_sending (bs_raw s) (origin s m) (sent_as s m)) (bs_pipes s) ++ bs_sending s)
               (bs_readable s) (bs_lost s) /\
    outs = flat_map (offer_outs (bs_raw s) (origin s m) (sent_as s m)) (bs_pipes s) ++ [Free (sent_as s m); Complete a E_OK None]
  else
    s' = mkBus (bs_raw s) (bs_pipes s) (bs_rq s) (bs_rcap s) (bs_wait s) (bs_sendbuf s) (bs_sending s)
               (bs_readable s) (bs_lost s ++ [sent_as s m]) /\
    outs = [Complete a E_AGAIN None].
Proof.
  unfold accepts, sent_as, origin. cbn [bus_step]. destruct (negb fixed && nb); cbn [negb]; intros H; inversion H; auto.
Qed.

Theorem bus_fanout_law fixed s c a nb m s' outs :
  BInv s -> bus_step fixed s (PSend c a nb m) = (s', outs) -> accepts fixed nb = true ->
  forall p,
    find_pipe p (bs_pipes s') = option_map (offer_pipe (bs_raw s) (origin s m) (sent_as s m)) (find_pipe p (bs_pipes s)) /\
    txs_on p outs = match find_pipe p (bs_pipes s) with
                    | Some bp => match offer_kind (bs_raw s) (origin s m) bp with ODirect => [sent_as s m] | _ => [] end
                    | None => []
                    end /\
    length (txs_on p outs) + (length (pq p s') - length (pq p s)) <= 1.
Proof.
  intros HI H A p. pose proof (bus_send_shape _ _ _ _ _ _ _ _ H) as S. rewrite A in S. destruct S as [-> ->].
  destruct HI as (I1 & _). unfold pipe_ids in I1. unfold pq. simp_b.
  rewrite find_pipe_map by (intros; apply offer_pipe_id).
  rewrite txs_on_app, (txs_on_offer _ _ _ _ _ I1). cbn [txs_on]. rewrite app_nil_r.
  split; [reflexivity|]. split; [reflexivity|].
  destruct (find_pipe p (bs_pipes s)) as [bp|]; cbn [option_map]; [|cbn; lia].
  unfold offer_pipe. destruct (offer_kind (bs_raw s) (origin s m) bp); simp_b; cbn [length]; rewrite ?app_length; cbn [length]; lia.
Qed.

(* ================================================================ never echoed *)
(* (1) nothing a socket sends comes back to its own application: a send step
       neither delivers nor buffers anything on the receive side, and it only
       hands messages to started pipes (there is no pipe to the socket itself);
   (2) raw: the pipe named by the first header word is skipped, everybody else is
       offered the message;
   (3) raw: a message that arrived on pipe p is delivered / buffered with p's id
       appended to its header, so sending it on (a device) spares p. *)
Theorem bus_send_no_self_delivery fixed s c a nb m s' outs :
  bus_step fixed s (PSend c a nb m) = (s', outs) ->
  delivered outs = [] /\ bs_rq s' = bs_rq s /\ bs_wait s' = bs_wait s /\ bs_readable s' = bs_readable s /\
  forall p, txs_on p outs <> [] -> In p (pipe_ids s).
Proof.
  intros H. pose proof (bus_send_shape _ _ _ _ _ _ _ _ H) as S.
  destruct (accepts fixed nb); destruct S as [-> ->]; simp_b.
  - rewrite delivered_app, delivered_offer. cbn. repeat split; auto.
    intros p Hp. destruct (in_dec N.eq_dec p (pipe_ids s)) as [i|n]; [exact i|]. exfalso. apply Hp.
    rewrite txs_on_app, txs_on_offer_notin by exact n. reflexivity.
  - cbn. repeat split; auto. intros p Hp. now contradiction Hp.
Qed.

Theorem bus_raw_skips_origin fixed s c a nb m s' outs p hdr_rest :
  BInv s -> bs_raw s = true -> (p < 4294967296)%N -> pm_hdr m = enc32 p ++ hdr_rest ->
  bus_step fixed s (PSend c a nb m) = (s', outs) ->
  origin s m = p /\ sent_as s m = mkPmsg hdr_rest (pm_body m) /\
  txs_on p outs = [] /\ find_pipe p (bs_pipes s') = find_pipe p (bs_pipes s) /\
  (accepts fixed nb = true -> forall q bq, q <> p -> find_pipe q (bs_pipes s) = Some bq ->
     offer_kind true p bq <> OSkip /\
     (bp_busy bq = false -> txs_on q outs = [mkPmsg hdr_rest (pm_body m)]) /\
     (bp_busy bq = true -> length (bp_q bq) < bp_cap bq -> pq q s' = bp_q bq ++ [mkPmsg hdr_rest (pm_body m)])).
Proof.
  intros HI R Hp Hh H.
  assert (O: origin s m = p /\ sent_as s m = mkPmsg hdr_rest (pm_body m)).
  { unfold origin, sent_as, bus_prep. rewrite R, Hh. rewrite app_length, enc32_length. cbn [Nat.leb plus].
    change (firstn 4 (enc32 p ++ hdr_rest)) with (enc32 p). change (skipn 4 (enc32 p ++ hdr_rest)) with hdr_rest.
    cbn [fst snd]. now rewrite dec_enc32. }
  destruct O as [O1 O2]. split; [exact O1|]. split; [exact O2|].
  pose proof (bus_send_shape _ _ _ _ _ _ _ _ H) as S.
  destruct (accepts fixed nb) eqn:A.
  - pose proof (bus_fanout_law _ _ _ _ _ _ _ _ HI H A) as L. destruct S as [-> ->]. rewrite R, O1, O2 in *. simp_b.
    destruct (L p) as (L1 & L2 & _). simp_b.
    assert (SK: forall bp, find_pipe p (bs_pipes s) = Some bp -> offer_kind true p bp = OSkip).
    { intros bp F. apply find_pipe_some in F as [_ F]. unfold offer_kind. rewrite F, N.eqb_refl. reflexivity. }
    split; [|split].
    + rewrite L2. destruct (find_pipe p (bs_pipes s)) as [bp|] eqn:F; [|reflexivity]. now rewrite (SK bp eq_refl).
    + rewrite L1. destruct (find_pipe p (bs_pipes s)) as [bp|] eqn:F; [|reflexivity]. cbn [option_map].
      unfold offer_pipe. now rewrite (SK bp eq_refl).
    + intros _ q bq Hq Fq. destruct (L q) as (M1 & M2 & _). simp_b. rewrite Fq in M1, M2. cbn [option_map] in M1.
      pose proof (find_pipe_some _ _ _ Fq) as [_ Iq].
      assert (K: offer_kind true p bq = if negb (bp_busy bq) then ODirect else if length (bp_q bq) <? bp_cap bq then OQueued else ODropped).
      { unfold offer_kind. rewrite Iq. destruct (N.eqb_spec q p); [contradiction|]. reflexivity. }
      split; [|split].
      * rewrite K. destruct (negb (bp_busy bq)); [discriminate|]. destruct (length (bp_q bq) <? bp_cap bq); discriminate.
      * intros B. rewrite M2, K, B. reflexivity.
      * intros B Lq. unfold pq. simp_b. rewrite M1. unfold offer_pipe. rewrite K, B. cbn [negb].
        apply Nat.ltb_lt in Lq. rewrite Lq. reflexivity.
  - destruct S as [-> ->]. simp_b. cbn [txs_on]. split; [reflexivity|]. split; [reflexivity|]. discriminate.
Qed.

Theorem bus_recv_stamps_origin fixed s p m s' outs :
  bus_step fixed s (PRecvDone p 0 m) = (s', outs) ->
  let m' := if bs_raw s then mkPmsg (pm_hdr m ++ enc32 p) (pm_body m) else m in
  (delivered outs = [m'] /\ bs_rq s' = bs_rq s) \/
  (delivered outs = [] /\ bs_rq s' = bs_rq s ++ [m']) \/
  (delivered outs = [] /\ s' = s /\ outs = [Free m'; TranRecv p] /\ bs_wait s = [] /\ bs_rcap s <= length (bs_rq s)).
Proof.
  cbn [bus_step N.eqb negb]. destruct (bs_wait s) as [|a rest] eqn:W.
  - destruct (length (bs_rq s) <? bs_rcap s) eqn:L; intros H; inversion H; subst; simp_b.
    + right. left. auto.
    + right. right. apply Nat.ltb_ge in L. auto.
  - intros H; inversion H; subst; simp_b. left. cbn. auto.
Qed.

(* the round trip of a one-socket raw device: what arrived on p, sent again as it
   was delivered, goes to everyone but p with the header it arrived with *)
Theorem bus_raw_device_roundtrip fixed s p body c a nb s' outs :
  BInv s -> bs_raw s = true -> (p < 4294967296)%N ->
  bus_step fixed s (PSend c a nb (mkPmsg ([] ++ enc32 p) body)) = (s', outs) ->
  origin s (mkPmsg ([] ++ enc32 p) body) = p /\ sent_as s (mkPmsg ([] ++ enc32 p) body) = mkPmsg [] body /\ txs_on p outs = [].
Proof.
  intros HI R Hp H.
  assert (Hh: pm_hdr (mkPmsg ([] ++ enc32 p) body) = enc32 p ++ []) by (cbn [pm_hdr app]; now rewrite app_nil_r).
  destruct (bus_raw_skips_origin fixed s c a nb _ s' outs p [] HI R Hp Hh H) as (A & B & C & _).
  auto.
Qed.

(* ================================================================ send never blocks *)
Theorem bus_send_immediate fixed s c a nb m s' outs :
  bus_step fixed s (PSend c a nb m) = (s', outs) ->
  bs_wait s' = bs_wait s /\
  ((accepts fixed nb = true /\ completions outs = [(a, E_OK)]) \/
   (fixed = false /\ nb = true /\ outs = [Complete a E_AGAIN None])).
Proof.
  intros H. pose proof (bus_send_shape _ _ _ _ _ _ _ _ H) as S.
  destruct (accepts fixed nb) eqn:A; destruct S as [-> ->]; simp_b; (split; [reflexivity|]).
  - left. split; [reflexivity|]. rewrite completions_app, completions_offer. reflexivity.
  - right. unfold accepts in A. destruct fixed, nb; try discriminate. auto.
Qed.

(* ================================================================ per-peer FIFO *)
(* the messages a step accepts for pipe p (one clone each) ... *)
Definition taken (p : pid) (fixed : bool) (s : bus) (o : pop) : list pmsg :=
  match o with
  | PSend _ _ nb m =>
      if accepts fixed nb then
        match find_pipe p (bs_pipes s) with
        | Some bp => match offer_kind (bs_raw s) (origin s m) bp with
                     | ODirect | OQueued => [sent_as s m] | _ => [] end
        | None => []
        end
      else []
  | _ => []
  end.
(* ... and what it cuts off the tail of p's queue (pipe close, queue shrink) *)
Definition cut (p : pid) (s : bus) (o : pop) : list pmsg :=
  match o with
  | PPipeClose q => if N.eqb q p then pq p s else []
  | PSetOpt _ (OSendBuf n) => if buf_bad n then [] else skipn n (pq p s)
  | _ => []
  end.

Theorem bus_fifo_step fixed p s o s' outs :
  BInv s -> op_ok s o -> bus_step fixed s o = (s', outs) ->
  pq p s ++ taken p fixed s o = txs_on p outs ++ pq p s' ++ cut p s o.
Proof.
  intros HI Hok H. pose proof HI as (I1 & I2 & _). unfold pipe_ids in I1.
  destruct o as [c a nb m|c a nb|a rv|q peer|q|q rv|q rv m|c op|c|c| |now]; cbn [taken cut].
  - (* PSend *)
    destruct (accepts fixed nb) eqn:A.
    + destruct (bus_fanout_law _ _ _ _ _ _ _ _ HI H A p) as (L1 & L2 & _). rewrite L2. unfold pq. rewrite L1.
      destruct (find_pipe p (bs_pipes s)) as [bp|] eqn:F; cbn [option_map]; [|reflexivity].
      apply find_pipe_some in F as [Hin _]. pose proof (proj1 (Forall_forall _ _) I2 bp Hin) as (_ & P2 & _).
      unfold offer_pipe. destruct (offer_kind (bs_raw s) (origin s m) bp) eqn:K; simp_b; rewrite ?app_nil_r; auto.
      unfold offer_kind in K. destruct (bs_raw s && (bp_id bp =? origin s m)%N); [discriminate|].
      destruct (bp_busy bp); cbn [negb] in K; [destruct (length (bp_q bp) <? bp_cap bp); discriminate|].
      destruct (P2 eq_refl) as [Q _]. rewrite Q. reflexivity.
    + pose proof (bus_send_shape _ _ _ _ _ _ _ _ H) as S. rewrite A in S. destruct S as [-> ->].
      unfold pq. simp_b. cbn. now rewrite !app_nil_r.
  - (* PRecv *)
    cbn [bus_step] in H. destruct (bs_rq s); [destruct nb|]; inversion H; subst; unfold pq; simp_b; cbn; now rewrite !app_nil_r.
  - cbn [bus_step] in H. destruct (has_id a (bs_wait s)); inversion H; subst; unfold pq; simp_b; cbn; now rewrite !app_nil_r.
  - (* PPipeStart *)
    cbn [bus_step] in H. destruct (negb (peer =? PROTO_BUS)%N); inversion H; subst; unfold pq; simp_b; cbn [txs_on app]; rewrite !app_nil_r; auto.
    rewrite find_pipe_app. destruct (find_pipe p (bs_pipes s)); [reflexivity|].
    cbn. destruct (is_pipe p _); reflexivity.
  - (* PPipeClose *)
    cbn [bus_step] in H. inversion H; subst; clear H. rewrite txs_on_map_Free. unfold pq. simp_b.
    destruct (N.eqb_spec q p) as [->|Hq].
    + rewrite find_pipe_filter_self. now rewrite app_nil_r.
    + rewrite (find_pipe_filter_other p q _ Hq). now rewrite !app_nil_r.
  - (* PSendDone *)
    cbn [bus_step op_ok] in *. destruct (negb (rv =? 0)%N); inversion H; subst; clear H; unfold pq; simp_b.
    + rewrite txs_on_app, txs_on_map_Free. cbn. now rewrite !app_nil_r.
    + rewrite (flat_next_find q _ I1).
      rewrite find_pipe_map by (intros bp; destruct (is_pipe q bp); [unfold pipe_next; destruct (bp_q bp)|]; reflexivity).
      rewrite !app_nil_r. destruct (N.eqb_spec q p) as [->|Hq].
      * rewrite txs_on_map_same. destruct (find_pipe p (bs_pipes s)) as [bp|] eqn:F; cbn [option_map]; [|reflexivity].
        pose proof (find_pipe_some _ _ _ F) as [_ E]. apply is_pipe_true in E. rewrite E.
        unfold pipe_next. destruct (bp_q bp); reflexivity.
      * rewrite (txs_on_map_other p q _ Hq). destruct (find_pipe p (bs_pipes s)) as [bp|] eqn:F; cbn [option_map]; [|reflexivity].
        pose proof (find_pipe_some _ _ _ F) as [_ E].
        assert (E2: is_pipe q bp = false) by (apply is_pipe_false; congruence). now rewrite E2.
  - (* PRecvDone *)
    cbn [bus_step] in H. destruct (negb (rv =? 0)%N); [inversion H; subst; cbn; now rewrite !app_nil_r|].
    destruct (bs_wait s); [destruct (length (bs_rq s) <? bs_rcap s)|]; inversion H; subst; unfold pq; simp_b; cbn; now rewrite !app_nil_r.
  - (* PSetOpt *)
    cbn [bus_step] in H. destruct op; try (inversion H; subst; cbn; now rewrite !app_nil_r).
    + destruct (buf_bad n); inversion H; subst; clear H; [cbn; now rewrite !app_nil_r|].
      rewrite txs_on_app, txs_on_map_Free. unfold pq. simp_b. rewrite find_pipe_map by reflexivity. cbn [txs_on app].
      rewrite app_nil_r. destruct (find_pipe p (bs_pipes s)) as [bp|]; cbn [option_map]; simp_b; [|now rewrite skipn_nil].
      now rewrite firstn_skipn.
    + destruct (buf_bad n); inversion H; subst; clear H; [cbn; now rewrite !app_nil_r|].
      rewrite txs_on_app, txs_on_map_Free. unfold pq. simp_b. cbn. now rewrite !app_nil_r.
  - inversion H; subst. cbn. now rewrite !app_nil_r.
  - inversion H; subst. cbn. now rewrite !app_nil_r.
  - cbn [bus_step] in H. inversion H; subst. rewrite txs_on_fail. unfold pq. simp_b. now rewrite !app_nil_r.
  - inversion H; subst. cbn. now rewrite !app_nil_r.
Qed.

(* ---- subsequences, to say "same order, possibly with whole messages missing" ---- *)
Inductive sublist {A} : list A -> list A -> Prop :=
| sub_nil : sublist [] []
| sub_skip x l1 l2 : sublist l1 l2 -> sublist l1 (x :: l2)
| sub_keep x l1 l2 : sublist l1 l2 -> sublist (x :: l1) (x :: l2).
Lemma sublist_refl {A} (l : list A) : sublist l l.
Proof. induction l; [apply sub_nil|apply sub_keep; auto]. Qed.
Lemma sublist_nil_l {A} (l : list A) : sublist [] l.
Proof. induction l; [apply sub_nil|apply sub_skip; auto]. Qed.
Lemma sublist_app {A} (a a' b b' : list A) : sublist a a' -> sublist b b' -> sublist (a ++ b) (a' ++ b').
Proof. intros H. induction H; cbn; intros Hb; auto; [apply sub_skip|apply sub_keep]; auto. Qed.
Lemma sublist_trans {A} (a b c : list A) : sublist a b -> sublist b c -> sublist a c.
Proof.
  intros H1 H2. revert a H1. induction H2; intros a H1.
  - exact H1.
  - apply sub_skip. auto.
  - inversion H1; subst; [apply sub_skip|apply sub_keep]; auto.
Qed.
Lemma sublist_app_r {A} (a c : list A) : sublist a (a ++ c).
Proof. rewrite <- (app_nil_r a) at 1. apply sublist_app; [apply sublist_refl|apply sublist_nil_l]. Qed.
Lemma sublist_length {A} (a b : list A) : sublist a b -> length a <= length b.
Proof. induction 1; cbn; lia. Qed.

(* ================================================================ dropped whole *)
Theorem bus_drop_whole_law fixed s :
  BInv s ->
  (* send side: a pipe whose queue is full is left exactly as it was (no partial
     message, survivors untouched), nothing is transmitted on it, and the
     sender's reference is released by the one Free of the step *)
  (forall c a nb m s' outs p bp, bus_step fixed s (PSend c a nb m) = (s', outs) -> accepts fixed nb = true ->
     find_pipe p (bs_pipes s) = Some bp -> offer_kind (bs_raw s) (origin s m) bp = ODropped ->
     find_pipe p (bs_pipes s') = Some bp /\ txs_on p outs = [] /\ bp_cap bp <= length (bp_q bp) /\
     freed outs = [sent_as s m]) /\
  (* every queue of the new state is the old one, possibly with the whole message appended *)
  (forall c a nb m s' outs p, bus_step fixed s (PSend c a nb m) = (s', outs) ->
     pq p s' = pq p s \/ pq p s' = pq p s ++ [sent_as s m]) /\
  (* receive side: with no receiver waiting and the queue full the whole message is freed, nothing else changes *)
  (forall p m s' outs, bus_step fixed s (PRecvDone p 0 m) = (s', outs) ->
     bs_wait s = [] -> bs_rcap s <= length (bs_rq s) ->
     s' = s /\ outs = [Free (if bs_raw s then mkPmsg (pm_hdr m ++ enc32 p) (pm_body m) else m); TranRecv p]).
Proof.
  intros HI. split; [|split].
  - intros c a nb m s' outs p bp H A F K.
    destruct (bus_fanout_law _ _ _ _ _ _ _ _ HI H A p) as (L1 & L2 & _). rewrite F in L1, L2. rewrite K in L2.
    cbn [option_map] in L1. unfold offer_pipe in L1. rewrite K in L1. repeat split; auto.
    + unfold offer_kind in K. destruct (bs_raw s && (bp_id bp =? origin s m)%N); [discriminate|].
      destruct (negb (bp_busy bp)); [discriminate|]. destruct (length (bp_q bp) <? bp_cap bp) eqn:L; [discriminate|].
      now apply Nat.ltb_ge in L.
    + pose proof (bus_send_shape _ _ _ _ _ _ _ _ H) as S. rewrite A in S. destruct S as [_ ->].
      rewrite freed_app, freed_offer. reflexivity.
  - intros c a nb m s' outs p H. pose proof (bus_send_shape _ _ _ _ _ _ _ _ H) as S.
    destruct (accepts fixed nb) eqn:A.
    + destruct (bus_fanout_law _ _ _ _ _ _ _ _ HI H A p) as (L1 & _). unfold pq. rewrite L1.
      destruct (find_pipe p (bs_pipes s)) as [bp|]; cbn [option_map]; [|now left].
      unfold offer_pipe. destruct (offer_kind (bs_raw s) (origin s m) bp); simp_b; auto.
    + destruct S as [-> _]. unfold pq. simp_b. now left.
  - intros p m s' outs H W L. cbn [bus_step N.eqb negb] in H. rewrite W in H.
    apply Nat.ltb_ge in L. rewrite L in H. inversion H; auto.
Qed.

(* ================================================================ receive order *)
Definition stamped (s : bus) (o : pop) : list pmsg :=
  match o with
  | PRecvDone p rv m => if N.eqb rv 0 then [if bs_raw s then mkPmsg (pm_hdr m ++ enc32 p) (pm_body m) else m] else []
  | _ => []
  end.
Definition rcut (s : bus) (o : pop) : list pmsg :=
  match o with
  | PRecvDone p rv m =>
      if N.eqb rv 0 && is_nil (bs_wait s) && negb (length (bs_rq s) <? bs_rcap s) then stamped s o else []
  | PSetOpt _ (ORecvBuf n) => if buf_bad n then [] else skipn n (bs_rq s)
  | _ => []
  end.

Theorem bus_recv_fifo_step fixed s o s' outs :
  BInv s -> bus_step fixed s o = (s', outs) ->
  bs_rq s ++ stamped s o = delivered outs ++ bs_rq s' ++ rcut s o /\
  (forall x, In x (rcut s o) -> In (Free x) outs).
Proof.
  intros (_ & _ & _ & _ & I5 & _) H.
  destruct o as [c a nb m|c a nb|a rv|q peer|q|q rv|q rv m|c op|c|c| |now]; cbn [stamped rcut].
  - pose proof (bus_send_shape _ _ _ _ _ _ _ _ H) as S.
    destruct (accepts fixed nb); destruct S as [-> ->]; simp_b; rewrite ?delivered_app, ?delivered_offer; cbn; rewrite !app_nil_r; split; auto; tauto.
  - cbn [bus_step] in H. destruct (bs_rq s) as [|x r] eqn:RQ; [destruct nb|]; inversion H; subst; simp_b; cbn; rewrite ?app_nil_r; split; auto; tauto.
  - cbn [bus_step] in H. destruct (has_id a (bs_wait s)); inversion H; subst; simp_b; cbn; rewrite ?app_nil_r; split; auto; tauto.
  - cbn [bus_step] in H. destruct (negb (peer =? PROTO_BUS)%N); inversion H; subst; simp_b; cbn; rewrite ?app_nil_r; split; auto; tauto.
  - cbn [bus_step] in H. inversion H; subst; simp_b. rewrite delivered_map_Free. cbn. rewrite ?app_nil_r; split; auto; tauto.
  - cbn [bus_step] in H. destruct (negb (rv =? 0)%N); inversion H; subst; simp_b.
    + rewrite delivered_app, delivered_map_Free. cbn. rewrite ?app_nil_r; split; auto; tauto.
    + assert (D: forall l, delivered (map (TranSend q) l) = []) by (induction l; cbn; auto).
      rewrite D. cbn. rewrite ?app_nil_r; split; auto; tauto.
  - cbn [bus_step] in H. destruct (N.eqb_spec rv 0) as [->|Hrv]; cbn [negb andb] in *.
    + destruct (bs_wait s) as [|a rest] eqn:W; cbn [is_nil].
      * destruct (length (bs_rq s) <? bs_rcap s) eqn:L; cbn [negb]; inversion H; subst; simp_b; cbn [delivered app]; rewrite ?app_nil_r.
        -- split; auto. cbn. tauto.
        -- split; auto. intros x [<-|[]]. now left.
      * inversion H; subst; simp_b. rewrite (I5 ltac:(discriminate)). cbn. split; auto; tauto.
    + inversion H; subst. cbn. rewrite ?app_nil_r. split; auto; tauto.
  - cbn [bus_step] in H. destruct op; try (inversion H; subst; cbn; rewrite ?app_nil_r; split; auto; tauto).
    + destruct (buf_bad n); inversion H; subst; simp_b; rewrite ?delivered_app, ?delivered_map_Free; cbn; rewrite ?app_nil_r; split; auto; tauto.
    + destruct (buf_bad n); inversion H; subst; simp_b; rewrite ?delivered_app, ?delivered_map_Free; cbn [delivered app]; rewrite ?app_nil_r.
      * split; auto. cbn. tauto.
      * rewrite firstn_skipn. split; auto. intros x Hx. apply in_or_app. left. now apply in_map.
  - inversion H; subst. cbn. rewrite ?app_nil_r. split; auto; tauto.
  - inversion H; subst. cbn. rewrite ?app_nil_r. split; auto; tauto.
  - cbn [bus_step] in H. inversion H; subst; simp_b. rewrite delivered_fail. cbn. rewrite ?app_nil_r. split; auto; tauto.
  - inversion H; subst. cbn. rewrite ?app_nil_r. split; auto; tauto.
Qed.

(* ================================================================ conservation of references *)
(* The C clones the message once per pipe that takes it and frees the sender's
   reference: references are what is conserved.  owned = every reference the
   socket holds (send queues, messages attached to aio_send, receive queue). *)
Definition owned (s : bus) : list pmsg := flat_map bp_q (bs_pipes s) ++ map snd (bs_sending s) ++ bs_rq s.
Definition takes (raw : bool) (sender : N) (bp : bpipe) : bool :=
  match offer_kind raw sender bp with ODirect | OQueued => true | _ => false end.
(* the message taken out of the user aio by a send (always: the slot is cleared first) *)
Definition slot (s : bus) (o : pop) : list pmsg :=
  match o with PSend _ _ _ m => [sent_as s m] | _ => [] end.
(* one clone per pipe that takes it *)
Definition clones (fixed : bool) (s : bus) (o : pop) : list pmsg :=
  match o with
  | PSend _ _ nb m => if accepts fixed nb
                      then repeat (sent_as s m) (length (filter (takes (bs_raw s) (origin s m)) (bs_pipes s))) else []
  | _ => []
  end.
(* what the transport consumed *)
Definition bwire (s : bus) (o : pop) : list pmsg :=
  match o with PSendDone p rv => if N.eqb rv 0 then held_of p (bs_sending s) else [] | _ => [] end.

Lemma fan_cnt x raw sd m l :
  cnt x (flat_map bp_q (map (offer_pipe raw sd m) l)) + cnt x (map snd (flat_map (offer_sending raw sd m) l)) =
  cnt x (flat_map bp_q l) + cnt x (repeat m (length (filter (takes raw sd) l))).
Proof.
  induction l as [|bp l IH]; cbn [map flat_map filter]; [reflexivity|].
  rewrite map_app. rewrite !cnt_app. unfold takes at 1, offer_pipe at 1, offer_sending at 1.
  destruct (offer_kind raw sd bp); simp_b; cbn [map snd length repeat]; rewrite ?cnt_app, ?cnt_cons, ?cnt_nil; lia.
Qed.
Lemma next_cnt x p l :
  cnt x (flat_map bp_q l) =
  cnt x (flat_map bp_q (map (fun bp => if is_pipe p bp then fst (pipe_next bp) else bp) l)) +
  cnt x (flat_map (fun bp => if is_pipe p bp then snd (pipe_next bp) else []) l).
Proof.
  induction l as [|bp l IH]; cbn [map flat_map]; [reflexivity|]. rewrite !cnt_app, IH.
  destruct (is_pipe p bp); [|cbn; lia]. unfold pipe_next. destruct (bp_q bp); simp_b; cbn [fst snd]; simp_b; rewrite ?cnt_cons, ?cnt_nil; lia.
Qed.
Lemma close_cnt x p l :
  cnt x (flat_map bp_q l) =
  cnt x (flat_map (fun bp => if is_pipe p bp then bp_q bp else []) l) +
  cnt x (flat_map bp_q (filter (fun bp => negb (is_pipe p bp)) l)).
Proof.
  induction l as [|bp l IH]; cbn [filter flat_map]; [reflexivity|]. rewrite !cnt_app, IH.
  destruct (is_pipe p bp); cbn [negb flat_map]; rewrite ?cnt_app, ?cnt_nil; lia.
Qed.
Lemma shrink_cnt x n l :
  cnt x (flat_map bp_q l) =
  cnt x (flat_map bp_q (map (fun bp => mkBP (bp_id bp) (bp_busy bp) (firstn n (bp_q bp)) n) l)) +
  cnt x (flat_map (fun bp => skipn n (bp_q bp)) l).
Proof.
  induction l as [|bp l IH]; cbn [map flat_map]; [reflexivity|]. rewrite !cnt_app, IH. simp_b.
  rewrite <- (firstn_skipn n (bp_q bp)) at 1. rewrite cnt_app. lia.
Qed.
Lemma map_snd_pair (p : pid) (l : list pmsg) : map snd (map (fun m => (p, m)) l) = l.
Proof. induction l; cbn; congruence. Qed.
Lemma freed_map_TranSend p l : freed (map (TranSend p) l) = [].
Proof. induction l; cbn; auto. Qed.
Lemma delivered_map_TranSend p l : delivered (map (TranSend p) l) = [].
Proof. induction l; cbn; auto. Qed.

Theorem bus_conservation_step fixed s o s' outs :
  BInv s -> op_ok s o -> bus_step fixed s o = (s', outs) ->
  forall x, cnt x (owned s ++ bs_lost s ++ slot s o ++ clones fixed s o ++ stamped s o) =
            cnt x (owned s' ++ bs_lost s' ++ bwire s o ++ freed outs ++ delivered outs).
Proof.
  intros HI Hok H x. pose proof HI as (_ & _ & _ & _ & I5 & _). unfold owned.
  destruct o as [c a nb m|c a nb|a rv|q peer|q|q rv|q rv m|c op|c|c| |now]; cbn [slot clones bwire stamped].
  - pose proof (bus_send_shape _ _ _ _ _ _ _ _ H) as S.
    destruct (accepts fixed nb); destruct S as [-> ->]; simp_b.
    + rewrite freed_app, freed_offer, delivered_app, delivered_offer. cbn [freed delivered app].
      pose proof (fan_cnt x (bs_raw s) (origin s m) (sent_as s m) (bs_pipes s)) as F.
      rewrite map_app. cnt_simp. lia.
    + cbn [freed delivered]. cnt_simp. lia.
  - cbn [bus_step] in H. destruct (bs_rq s) as [|y r] eqn:RQ; [destruct nb|]; inversion H; subst; simp_b; cbn [freed delivered];
      change (E_OK =? 0)%N with true; cbn iota; rewrite ?RQ; cnt_simp; lia.
  - cbn [bus_step] in H. destruct (has_id a (bs_wait s)); inversion H; subst; simp_b; cbn [freed delivered]; cnt_simp; lia.
  - cbn [bus_step] in H. destruct (negb (peer =? PROTO_BUS)%N); inversion H; subst; simp_b; cbn [freed delivered]; cnt_simp; try lia.
    rewrite flat_map_app. cbn [flat_map]. simp_b. cnt_simp. lia.
  - cbn [bus_step] in H. inversion H; subst; simp_b. rewrite freed_map_Free, delivered_map_Free.
    pose proof (close_cnt x q (bs_pipes s)). cnt_simp. lia.
  - cbn [bus_step] in H. destruct (negb (rv =? 0)%N) eqn:R; inversion H; subst; simp_b.
    + rewrite freed_app, freed_map_Free, delivered_app, delivered_map_Free. cbn [freed delivered app].
      destruct (rv =? 0)%N; [discriminate|]. unfold held_of, drop_sending.
      pose proof (cnt_partition x q (bs_sending s)). cnt_simp. lia.
    + destruct (rv =? 0)%N; [|discriminate]. rewrite freed_map_TranSend, delivered_map_TranSend.
      rewrite map_app, map_snd_pair. unfold held_of, drop_sending.
      pose proof (cnt_partition x q (bs_sending s)). pose proof (next_cnt x q (bs_pipes s)). cnt_simp. lia.
  - cbn [bus_step] in H. destruct (N.eqb_spec rv 0) as [->|Hrv]; cbn [negb] in H.
    + destruct (bs_wait s) as [|a rest]; [destruct (length (bs_rq s) <? bs_rcap s)|]; inversion H; subst; simp_b; cbn [freed delivered];
        change (E_OK =? 0)%N with true; cbn iota; cnt_simp; lia.
    + inversion H; subst. cbn [freed delivered]. cnt_simp. lia.
  - cbn [bus_step] in H. destruct op; try (inversion H; subst; cbn [freed delivered]; cnt_simp; lia).
    + destruct (buf_bad n); inversion H; subst; simp_b; rewrite ?freed_app, ?freed_map_Free, ?delivered_app, ?delivered_map_Free; cbn [freed delivered app]; cnt_simp; try lia.
      pose proof (shrink_cnt x n (bs_pipes s)). lia.
    + destruct (buf_bad n); inversion H; subst; simp_b; rewrite ?freed_app, ?freed_map_Free, ?delivered_app, ?delivered_map_Free; cbn [freed delivered app]; cnt_simp; try lia.
      rewrite <- (firstn_skipn n (bs_rq s)) at 1. cnt_simp. lia.
  - inversion H; subst. cbn [freed delivered]. cnt_simp. lia.
  - inversion H; subst. cbn [freed delivered]. cnt_simp. lia.
  - cbn [bus_step] in H. inversion H; subst; simp_b. rewrite freed_fail, delivered_fail. cnt_simp. lia.
  - inversion H; subst. cbn [freed delivered]. cnt_simp. lia.
Qed.

(* nothing is ever lost except by the refused non-blocking send of the pinned form *)
Theorem bus_lost_only_by_refused_send fixed s o s' outs :
  bus_step fixed s o = (s', outs) ->
  bs_lost s' = bs_lost s \/
  (exists c a m, o = PSend c a true m /\ fixed = false /\ bs_lost s' = bs_lost s ++ [sent_as s m] /\
                 outs = [Complete a E_AGAIN None]).
Proof.
  destruct o as [c a nb m|c a nb|a rv|q peer|q|q rv|q rv m|c op|c|c| |now]; cbn [bus_step]; intros H.
  - unfold sent_as. destruct fixed, nb; cbn [negb andb] in H; inversion H; subst; simp_b; auto.
    right. exists c, a, m. auto.
  - destruct (bs_rq s); [destruct nb|]; inversion H; subst; auto.
  - destruct (has_id a (bs_wait s)); inversion H; subst; auto.
  - destruct (negb (peer =? PROTO_BUS)%N); inversion H; subst; auto.
  - inversion H; subst; auto.
  - destruct (negb (rv =? 0)%N); inversion H; subst; auto.
  - destruct (negb (rv =? 0)%N); [inversion H; subst; auto|].
    destruct (bs_wait s); [destruct (length (bs_rq s) <? bs_rcap s)|]; inversion H; subst; auto.
  - destruct op; try (inversion H; subst; auto; fail); destruct (buf_bad n); inversion H; subst; auto.
  - inversion H; subst; auto.
  - inversion H; subst; auto.
  - inversion H; subst; auto.
  - inversion H; subst; auto.
Qed.

(* ================================================================ non-blocking calls, poll descriptors *)
(* receive: immediate; EAGAIN exactly when nothing is buffered = exactly when the
   receive descriptor is not raised; state unchanged then *)
Theorem bus_nb_recv fixed s c a s' outs :
  BInv s -> bus_step fixed s (PRecv c a true) = (s', outs) ->
  exists rv m, outs = [Complete a rv m] /\ bs_wait s' = bs_wait s /\
    (rv = E_AGAIN <-> poll_r (bus_poll s) = Some false) /\ (rv = E_AGAIN -> s' = s /\ m = None) /\
    (rv <> E_AGAIN -> rv = E_OK /\ exists x r, bs_rq s = x :: r /\ m = Some x /\ bs_rq s' = r).
Proof.
  intros (_ & _ & _ & _ & _ & _ & I7) H. cbn [bus_step] in H. cbn [bus_poll poll_r]. rewrite I7.
  destruct (bs_rq s) as [|x r] eqn:RQ; inversion H; subst; clear H; simp_b; cbn [is_nil negb].
  - exists E_AGAIN, None. repeat split; auto; congruence.
  - exists E_OK, (Some x). repeat split; auto; try discriminate. exists x, r. auto.
Qed.
(* blocking receive with nothing buffered: queued, nothing completes *)
Theorem bus_recv_blocks fixed s c a :
  bs_rq s = [] ->
  bus_step fixed s (PRecv c a false) =
    (mkBus (bs_raw s) (bs_pipes s) [] (bs_rcap s) (bs_wait s ++ [a]) (bs_sendbuf s) (bs_sending s) (bs_readable s) (bs_lost s), []).
Proof. intros H. cbn [bus_step]. rewrite H. reflexivity. Qed.

(* send: with the nni_aio_start call gone a non-blocking send behaves exactly like
   the blocking one (which never queues): immediate success, same state, same outputs *)
Theorem bus_nb_send_fixed s c a m :
  bus_step true s (PSend c a true m) = bus_step true s (PSend c a false m) /\
  completions (snd (bus_step true s (PSend c a true m))) = [(a, E_OK)] /\
  poll_w (bus_poll s) = Some true.
Proof.
  split; [reflexivity|]. split; [|reflexivity]. cbn [bus_step negb andb snd].
  rewrite completions_app, completions_offer. reflexivity.
Qed.

(* the pinned form: the send descriptor is raised, the blocking send transmits at
   once, the non-blocking send says EAGAIN, transmits nothing and the message has
   left the aio (witness: one idle peer) *)
Definition bus_nb_witness_state : bus := fst (bus_step false (bus_init false) (PPipeStart 1%N PROTO_BUS)).
Definition bus_nb_witness_msg : pmsg := mkPmsg [] [7%N].
Theorem bus_nb_send_pinned_refuted :
  BInv bus_nb_witness_state /\ poll_w (bus_poll bus_nb_witness_state) = Some true /\
  snd (bus_step false bus_nb_witness_state (PSend None 5%N false bus_nb_witness_msg)) =
    [TranSend 1%N bus_nb_witness_msg; Free bus_nb_witness_msg; Complete 5%N E_OK None] /\
  snd (bus_step false bus_nb_witness_state (PSend None 5%N true bus_nb_witness_msg)) = [Complete 5%N E_AGAIN None] /\
  bs_lost (fst (bus_step false bus_nb_witness_state (PSend None 5%N true bus_nb_witness_msg))) = [bus_nb_witness_msg].
Proof.
  split.
  - unfold bus_nb_witness_state.
    apply (bus_step_inv false (bus_init false) (PPipeStart 1%N PROTO_BUS) _ [TranRecv 1%N] (bus_init_inv false)).
    + cbn. repeat split; auto; try discriminate; tauto.
    + reflexivity.
  - vm_compute. repeat split; reflexivity.
Qed.

(* ================================================================ histories *)
Fixpoint bus_run (fixed : bool) (s : bus) (ops : list pop) : bus * list (pop * bus * list pout) :=
  match ops with
  | [] => (s, [])
  | o :: r => let (s1, outs) := bus_step fixed s o in
              let (s2, tr) := bus_run fixed s1 r in (s2, (o, s, outs) :: tr)
  end.
Fixpoint ops_ok (fixed : bool) (s : bus) (ops : list pop) : Prop :=
  match ops with
  | [] => True
  | o :: r => op_ok s o /\ ops_ok fixed (fst (bus_step fixed s o)) r
  end.
Definition btrace := list (pop * bus * list pout).
Fixpoint tr_taken (p : pid) (fixed : bool) (tr : btrace) : list pmsg :=
  match tr with [] => [] | (o, s, outs) :: r => taken p fixed s o ++ tr_taken p fixed r end.
Fixpoint tr_txs (p : pid) (tr : btrace) : list pmsg :=
  match tr with [] => [] | (o, s, outs) :: r => txs_on p outs ++ tr_txs p r end.
Fixpoint tr_cut (p : pid) (tr : btrace) : list pmsg :=
  match tr with [] => [] | (o, s, outs) :: r => cut p s o ++ tr_cut p r end.
Fixpoint tr_stamped (tr : btrace) : list pmsg :=
  match tr with [] => [] | (o, s, outs) :: r => stamped s o ++ tr_stamped r end.
Fixpoint tr_delivered (tr : btrace) : list pmsg :=
  match tr with [] => [] | (o, s, outs) :: r => delivered outs ++ tr_delivered r end.
Fixpoint tr_rcut (tr : btrace) : list pmsg :=
  match tr with [] => [] | (o, s, outs) :: r => rcut s o ++ tr_rcut r end.
Fixpoint tr_in (fixed : bool) (tr : btrace) : list pmsg :=
  match tr with [] => [] | (o, s, outs) :: r => slot s o ++ clones fixed s o ++ stamped s o ++ tr_in fixed r end.
Fixpoint tr_out (tr : btrace) : list pmsg :=
  match tr with [] => [] | (o, s, outs) :: r => bwire s o ++ freed outs ++ delivered outs ++ tr_out r end.

Theorem bus_run_inv fixed ops : forall s, BInv s -> ops_ok fixed s ops -> BInv (fst (bus_run fixed s ops)).
Proof.
  induction ops as [|o r IH]; intros s HI Hok; cbn [bus_run]; [exact HI|].
  cbn [ops_ok] in Hok. destruct Hok as [Ho Hr]. destruct (bus_step fixed s o) as [s1 outs] eqn:S. cbn [fst] in Hr.
  pose proof (bus_step_inv _ _ _ _ _ HI Ho S) as HI1. specialize (IH s1 HI1 Hr).
  destruct (bus_run fixed s1 r) as [s2 tr]. exact IH.
Qed.

(* per pipe, over any well-formed history: what the transport of p was handed,
   followed by what is still queued for p, is a subsequence of what was queued
   before followed by the messages accepted for p, in acceptance order -- nothing
   reordered, nothing duplicated; and with nothing cut it is exactly that sequence *)
Theorem bus_run_fifo fixed p ops : forall s, BInv s -> ops_ok fixed s ops ->
  let (s', tr) := bus_run fixed s ops in
  sublist (tr_txs p tr ++ pq p s') (pq p s ++ tr_taken p fixed tr) /\
  (tr_cut p tr = [] -> tr_txs p tr ++ pq p s' = pq p s ++ tr_taken p fixed tr).
Proof.
  induction ops as [|o r IH]; intros s HI Hok; cbn [bus_run].
  - cbn [tr_txs tr_taken tr_cut app]. rewrite app_nil_r. split; [apply sublist_refl|auto].
  - cbn [ops_ok] in Hok. destruct Hok as [Ho Hr]. destruct (bus_step fixed s o) as [s1 outs] eqn:S. cbn [fst] in Hr.
    pose proof (bus_step_inv _ _ _ _ _ HI Ho S) as HI1. pose proof (bus_fifo_step fixed p _ _ _ _ HI Ho S) as L.
    specialize (IH s1 HI1 Hr). destruct (bus_run fixed s1 r) as [s2 tr]. destruct IH as [A B].
    cbn [tr_txs tr_taken tr_cut]. split.
    + rewrite <- app_assoc. rewrite (app_assoc (pq p s)), L.
      eapply sublist_trans; [apply sublist_app; [apply sublist_refl|exact A]|].
      rewrite <- !app_assoc. apply sublist_app; [apply sublist_refl|].
      rewrite (app_assoc (pq p s1)). eapply sublist_trans; [|apply sublist_app; [apply sublist_refl|apply sublist_refl]].
      rewrite <- app_assoc.
      apply sublist_app; [apply sublist_refl|].
      change (tr_taken p fixed tr) with ([] ++ tr_taken p fixed tr) at 1. apply sublist_app; [apply sublist_nil_l|apply sublist_refl].
    + intros C. apply app_eq_nil in C as [C1 C2]. rewrite C1, app_nil_r in L.
      rewrite <- app_assoc, (B C2). rewrite (app_assoc (pq p s)), L. now rewrite <- app_assoc.
Qed.

(* the receive side over histories: what the application gets, followed by what is
   still buffered, is a subsequence of the arrivals (all peers) in arrival order,
   hence each peer's messages in that peer's order *)
Theorem bus_run_recv_order fixed ops : forall s, BInv s -> ops_ok fixed s ops ->
  let (s', tr) := bus_run fixed s ops in
  sublist (tr_delivered tr ++ bs_rq s') (bs_rq s ++ tr_stamped tr) /\
  (tr_rcut tr = [] -> tr_delivered tr ++ bs_rq s' = bs_rq s ++ tr_stamped tr).
Proof.
  induction ops as [|o r IH]; intros s HI Hok; cbn [bus_run].
  - cbn [tr_delivered tr_stamped tr_rcut app]. rewrite app_nil_r. split; [apply sublist_refl|auto].
  - cbn [ops_ok] in Hok. destruct Hok as [Ho Hr]. destruct (bus_step fixed s o) as [s1 outs] eqn:S. cbn [fst] in Hr.
    pose proof (bus_step_inv _ _ _ _ _ HI Ho S) as HI1. destruct (bus_recv_fifo_step fixed _ _ _ _ HI S) as [L _].
    specialize (IH s1 HI1 Hr). destruct (bus_run fixed s1 r) as [s2 tr]. destruct IH as [A B].
    cbn [tr_delivered tr_stamped tr_rcut]. split.
    + rewrite <- app_assoc. rewrite (app_assoc (bs_rq s)), L.
      eapply sublist_trans; [apply sublist_app; [apply sublist_refl|exact A]|].
      rewrite <- !app_assoc. apply sublist_app; [apply sublist_refl|].
      apply sublist_app; [apply sublist_refl|].
      change (tr_stamped tr) with ([] ++ tr_stamped tr) at 1. apply sublist_app; [apply sublist_nil_l|apply sublist_refl].
    + intros C. apply app_eq_nil in C as [C1 C2]. rewrite C1, app_nil_r in L.
      rewrite <- app_assoc, (B C2). rewrite (app_assoc (bs_rq s)), L. now rewrite <- app_assoc.
Qed.

Theorem bus_run_conservation fixed ops : forall s, BInv s -> ops_ok fixed s ops ->
  let (s', tr) := bus_run fixed s ops in
  BInv s' /\
  forall x, cnt x (owned s ++ bs_lost s ++ tr_in fixed tr) = cnt x (owned s' ++ bs_lost s' ++ tr_out tr).
Proof.
  induction ops as [|o r IH]; intros s HI Hok; cbn [bus_run].
  - split; [exact HI|]. intros x. cbn [tr_in tr_out]. reflexivity.
  - cbn [ops_ok] in Hok. destruct Hok as [Ho Hr]. destruct (bus_step fixed s o) as [s1 outs] eqn:S. cbn [fst] in Hr.
    pose proof (bus_step_inv _ _ _ _ _ HI Ho S) as HI1. pose proof (bus_conservation_step _ _ _ _ _ HI Ho S) as L.
    specialize (IH s1 HI1 Hr). destruct (bus_run fixed s1 r) as [s2 tr]. destruct IH as [A B].
    split; [exact A|]. intros x. specialize (L x). specialize (B x). cbn [tr_in tr_out]. cnt_simp. lia.
Qed.

(* ================================================================ the poll descriptors, both directions *)
Theorem bus_poll_mirror_law fixed s c a :
  BInv s ->
  (poll_r (bus_poll s) = Some true <-> completions (snd (bus_step fixed s (PRecv c a true))) = [(a, E_OK)]) /\
  (poll_r (bus_poll s) = Some false <-> completions (snd (bus_step fixed s (PRecv c a true))) = [(a, E_AGAIN)]) /\
  poll_w (bus_poll s) = Some true /\
  (fixed = true -> forall m, completions (snd (bus_step fixed s (PSend c a true m))) = [(a, E_OK)]).
Proof.
  intros (_ & _ & _ & _ & _ & _ & I7). cbn [bus_poll poll_r poll_w]. rewrite I7. cbn [bus_step].
  split; [|split; [|split]].
  - destruct (bs_rq s); cbn; split; intros H; try discriminate; reflexivity.
  - destruct (bs_rq s); cbn; split; intros H; try discriminate; reflexivity.
  - reflexivity.
  - intros -> m. cbn [negb andb snd]. rewrite completions_app, completions_offer. reflexivity.
Qed.
