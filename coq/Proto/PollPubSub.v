(* PollPubSub: the C15 instances for SUB (pubsub0/sub.c, with contexts), PUB
   (pubsub0/pub.c, cooked and raw are the same code) and raw SUB (pubsub0/xsub.c,
   through the socket's upper read queue).

   SUB:      every clause holds at full strength once sub0_ctx_unsubscribe clears the
             recv pollable (fixed = true); the clauses about the NONBLOCK flag hold
             whatever the flag is; with fixed = false C15_mirror is refuted.
   PUB:      every clause holds (a send never waits, the send descriptor is always
             raised, there is no receive descriptor).
   raw SUB:  every clause holds once nni_msgq_aio_get looks at the queue before it
             calls nni_aio_start (mq_fixed = true), whatever rs_fixed is (the poll goes
             through run_notify); with mq_fixed = false C15_nb_possible is refuted. *)
From Coq Require Import List Arith NArith Bool Lia.
From NngV Require Import Proto.Common Proto.SubModel Proto.PubModel Proto.XsubModel
  Proto.PubSubProofs Proto.PubSubProofs2 Proto.PubSubProofs3 Proto.PollModel Proto.PollProofs.
Import ListNotations.

Ltac errs := unfold E_OK, E_AGAIN, E_NOTSUP, E_STATE, E_CLOSED, E_PROTO, E_NOMEM, E_CONNRESET, E_CANCELED, E_TIMEDOUT in *.
Ltac unM M := unfold M in *; cbn [pm_step pm_ok pm_inv pm_busy pm_cls pm_poll pm_st pm_init] in *.

(* ================================================================== SUB *)
(* the user aios the state holds: the waiting receivers of every context *)
Definition sub_busy (s : sub) : list aioid := flat_map sc_rq (sb_ctxs s).
(* the socket's own context is there (it goes only with the socket) *)
Definition has_master (s : sub) : Prop := In None (map sc_id (sb_ctxs s)).
(* the contract: a context is opened once; an aio is submitted once at a time *)
Definition sub_ok (s : sub) (o : pop) : Prop :=
  sub_op_ok s o /\ match o with PSend _ a _ _ | PRecv _ a _ => ~ In a (sub_busy s) | _ => True end.
Definition sub_inv (fixed : bool) (s : sub) : Prop :=
  SInv s /\ has_master s /\ RInvHalf s /\ (fixed = true -> RInv s).
Definition M_sub (fixed : bool) : pmodel :=
  mkPM sub sub_init (sub_step fixed) sub_poll sub_ok (sub_inv fixed) sub_busy (fun _ => true).

Lemma busy_upd k f cs : (forall c, sc_rq (f c) = sc_rq c) -> flat_map sc_rq (upd_ctx k f cs) = flat_map sc_rq cs.
Proof.
  intros Hf. unfold upd_ctx. induction cs as [|x l IH]; cbn [map flat_map]; [reflexivity|].
  rewrite IH. destruct (cid_eqb (sc_id x) k); [now rewrite Hf|reflexivity].
Qed.
Lemma busy_upd_in k a cs c : find_ctx k cs = Some c ->
  In a (flat_map sc_rq (upd_ctx k (fun c => set_rq c (sc_rq c ++ [a])) cs)).
Proof.
  intros F. apply find_ctx_some in F as [Hin Hid]. apply in_flat_map.
  exists (set_rq c (sc_rq c ++ [a])). split.
  - unfold upd_ctx. apply in_map_iff. exists c. rewrite Hid, cid_eqb_refl. split; auto.
  - simp_c. apply in_or_app. right. now left.
Qed.
Lemma master_found s : has_master s -> exists c, find_ctx None (sb_ctxs s) = Some c.
Proof.
  intros H. destruct (find_ctx None (sb_ctxs s)) as [c|] eqn:F; [eauto|].
  apply find_ctx_none in F. contradiction.
Qed.
Lemma ids_filter k cs : In None (map sc_id cs) ->
  In None (map sc_id (filter (fun c => negb (cid_eqb (sc_id c) (Some k))) cs)).
Proof.
  intros H. apply in_map_iff in H as (c & E & Hin). apply in_map_iff. exists c. split; auto.
  apply filter_In. split; auto. rewrite E. reflexivity.
Qed.
Lemma ids_after m cs : map sc_id (map (fun c => ctx_after c m) cs) = map sc_id cs.
Proof. rewrite map_map. apply map_ext. intros c. apply ctx_after_id. Qed.

Lemma sub_step_master fixed s o s' outs : sub_step fixed s o = (s', outs) -> has_master s -> has_master s'.
Proof.
  intros H HM. unfold has_master in *.
  destruct o as [k a nb m|k a nb|a rv|p peer|p|p rv|p rv m|k op|k|k| |now]; cbn [sub_step] in H.
  - inversion H; subst; auto.
  - destruct (find_ctx k (sb_ctxs s)) as [c|]; [|inversion H; subst; auto].
    destruct (sc_lmq c) as [|m rest]; [destruct nb|]; inversion H; subst; simp_s; auto; rewrite upd_ctx_ids; auto.
  - destruct (existsb _ _); inversion H; subst; simp_s; auto. rewrite map_map. cbn. exact HM.
  - destruct (negb _); inversion H; subst; auto.
  - inversion H; subst; auto.
  - inversion H; subst; auto.
  - destruct (negb _); inversion H; subst; simp_s; auto. now rewrite ids_after.
  - destruct (find_ctx k (sb_ctxs s)) as [c|]; [|inversion H; subst; auto].
    destruct op; try (inversion H; subst; auto; fail).
    + destruct k; [|destruct (_ <? _)%N]; inversion H; subst; auto.
    + destruct (_ || _); inversion H; subst; simp_s; auto. rewrite upd_ctx_ids; auto.
    + inversion H; subst; simp_s. rewrite upd_ctx_ids; auto.
    + destruct (has_topic t (sc_topics c)); inversion H; subst; simp_s; auto. rewrite upd_ctx_ids; auto.
    + destruct (negb _); inversion H; subst; simp_s; auto. rewrite upd_ctx_ids; auto.
  - inversion H; subst; simp_s. rewrite map_app. apply in_or_app. now left.
  - destruct (find_ctx (Some k) (sb_ctxs s)); inversion H; subst; simp_s; auto. now apply ids_filter.
  - destruct (find_ctx None (sb_ctxs s)); inversion H; subst; simp_s; auto. rewrite upd_ctx_ids; auto.
  - inversion H; subst; auto.
Qed.

Lemma sub_inv_init fixed : pm_inv (M_sub fixed) (pm_init (M_sub fixed)).
Proof.
  unM M_sub. split; [exact sub_init_inv|]. split; [left; reflexivity|].
  split; [exact (proj2 sub_init_rinv)|]. intros _. exact (proj1 sub_init_rinv).
Qed.
Lemma sub_inv_step fixed s o :
  pm_inv (M_sub fixed) s -> pm_ok (M_sub fixed) s o -> o <> PSockClose -> pm_inv (M_sub fixed) (fst (pm_step (M_sub fixed) s o)).
Proof.
  unM M_sub. intros (HI & HM & HH & HR) [Hok _] _. destruct (sub_step fixed s o) as [s' outs] eqn:E. cbn [fst].
  destruct (sub_readable_step _ _ _ _ _ HI E) as [R1 R2].
  split; [exact (sub_step_inv _ _ _ _ _ HI Hok E)|]. split; [exact (sub_step_master _ _ _ _ _ E HM)|].
  split; [auto|]. intros F. auto.
Qed.
Theorem sub_c15_inv_any fixed : C15_inv (M_sub fixed).
Proof. apply reachable_inv; [exact (sub_inv_init fixed)|exact (sub_inv_step fixed)]. Qed.

(* ---- clauses 1 and 2: whatever the repair flag is ---- *)
Lemma sub_nb_send_immediate fixed s : pm_inv (M_sub fixed) s -> nb_send_immediate_at (M_sub fixed) s.
Proof.
  intros _ c a m s' outs [_ Hb] H. unM M_sub. cbn [sub_step] in H. inversion H; subst; clear H.
  exists E_NOTSUP. rewrite compl_of_self. split; [reflexivity|]. split; [exact Hb|]. intros _ m2 _. reflexivity.
Qed.
Lemma sub_nb_recv_immediate fixed s : pm_inv (M_sub fixed) s -> nb_recv_immediate_at (M_sub fixed) s.
Proof.
  intros _ c a s' outs [_ Hb] H. unM M_sub. cbn [sub_step] in H.
  destruct (find_ctx c (sb_ctxs s)) as [x|] eqn:F.
  - destruct (sc_lmq x) as [|m rest] eqn:Q; inversion H; subst; clear H.
    + exists E_AGAIN, None. rewrite compl_of_self. split; [reflexivity|]. split; [exact Hb|].
      split; [intros X; now elim X|errs; discriminate].
    + exists E_OK, (Some m). rewrite compl_of_self. split; [reflexivity|]. split.
      * unfold sub_busy in *. simp_s. rewrite busy_upd; auto.
      * split; [reflexivity|discriminate].
  - inversion H; subst; clear H. exists E_CLOSED, None. rewrite compl_of_self. split; [reflexivity|]. split; [exact Hb|].
    split; [intros X; now elim X|errs; discriminate].
Qed.
Lemma sub_nb_send_possible fixed s : pm_inv (M_sub fixed) s -> nb_send_possible_at (M_sub fixed) s.
Proof. intros _ c a m _ _. reflexivity. Qed.
Lemma sub_nb_recv_possible fixed s : pm_inv (M_sub fixed) s -> nb_recv_possible_at (M_sub fixed) s.
Proof.
  intros _ c a _ H. unM M_sub. cbn [sub_step] in *.
  destruct (find_ctx c (sb_ctxs s)) as [x|]; [|reflexivity].
  destruct (sc_lmq x) as [|m rest]; [|reflexivity]. cbn [snd] in H. discriminate.
Qed.
Lemma sub_nb_send_strict fixed s : pm_inv (M_sub fixed) s -> nb_send_eagain_queues_at (M_sub fixed) s.
Proof. intros _ c a m _ H. unM M_sub. cbn [sub_step snd] in H. rewrite result_of_single in H. errs. discriminate. Qed.
Lemma sub_nb_recv_strict fixed s : pm_inv (M_sub fixed) s -> nb_recv_eagain_queues_at (M_sub fixed) s.
Proof.
  intros _ c a _ H. unM M_sub. cbn [sub_step] in *.
  destruct (find_ctx c (sb_ctxs s)) as [x|] eqn:F.
  - destruct (sc_lmq x) as [|m rest].
    + cbn [fst snd]. split; [reflexivity|]. unfold sub_busy. simp_s. eapply busy_upd_in; eauto.
    + cbn [fst snd] in H. rewrite result_of_single in H. errs. discriminate.
  - cbn [snd] in H. rewrite result_of_single in H. errs. discriminate.
Qed.

Theorem sub_c15_nb_immediate_any fixed : C15_nb_immediate (M_sub fixed).
Proof. exact (lift_at2 _ (sub_inv_init fixed) (sub_inv_step fixed) _ _ (sub_nb_send_immediate fixed) (sub_nb_recv_immediate fixed)). Qed.
Theorem sub_c15_nb_possible_any fixed : C15_nb_possible (M_sub fixed).
Proof. exact (lift_at2 _ (sub_inv_init fixed) (sub_inv_step fixed) _ _ (sub_nb_send_possible fixed) (sub_nb_recv_possible fixed)). Qed.
Theorem sub_c15_nb_strict_any fixed : C15_nb_strict (M_sub fixed).
Proof. exact (lift_at2 _ (sub_inv_init fixed) (sub_inv_step fixed) _ _ (sub_nb_send_strict fixed) (sub_nb_recv_strict fixed)). Qed.

(* ---- clause 3 ---- *)
(* there is no send descriptor: a send is refused with NNG_ENOTSUP *)
Lemma sub_mirror_w_all fixed s : mirror_w_at (M_sub fixed) s /\ mirror_w_exact_at (M_sub fixed) s /\ mirror_w_iff_at (M_sub fixed) s.
Proof.
  repeat split; intros a m _ _; unM M_sub; unfold rv_send; unM M_sub; cbn [sub_poll poll_w sub_step snd]; apply result_of_single.
Qed.
(* what a NONBLOCK receive on the socket answers, in terms of the master's queue *)
Lemma sub_rv_recv fixed s a c : find_ctx None (sb_ctxs s) = Some c ->
  rv_recv (M_sub fixed) s a = Some (if lmq_empty c then E_AGAIN else E_OK).
Proof.
  intros F. unfold rv_recv. unM M_sub. cbn [sub_step]. rewrite F. unfold lmq_empty.
  destruct (sc_lmq c); cbn [snd]; apply result_of_single.
Qed.
(* repaired: raised <-> the master's queue is not empty <-> a receive succeeds <-> it does not answer NNG_EAGAIN *)
Lemma sub_mirror_r_exact s : pm_inv (M_sub true) s -> mirror_r_exact_at (M_sub true) s.
Proof.
  intros (HI & HM & HH & HR) a _. destruct (master_found s HM) as [c F]. rewrite (sub_rv_recv true s a c F).
  unM M_sub. cbn [sub_poll poll_r]. rewrite (HR eq_refl). unfold master_nonempty. rewrite F.
  destruct (lmq_empty c); cbn [negb]; errs; split; intros X; congruence.
Qed.
Lemma sub_mirror_r_iff s : pm_inv (M_sub true) s -> mirror_r_iff_at (M_sub true) s.
Proof.
  intros (HI & HM & HH & HR) a _. destruct (master_found s HM) as [c F]. rewrite (sub_rv_recv true s a c F).
  unM M_sub. cbn [sub_poll poll_r]. rewrite (HR eq_refl). unfold master_nonempty. rewrite F.
  destruct (lmq_empty c); cbn [negb]; errs; split; intros X; try congruence; try discriminate.
Qed.
(* the half that holds without the repair: no missed wake-up *)
Lemma sub_mirror_r_half fixed s : pm_inv (M_sub fixed) s ->
  forall a, rv_recv (M_sub fixed) s a = Some E_OK -> poll_r (pm_poll (M_sub fixed) s) = Some true.
Proof.
  intros (HI & HM & HH & HR) a. destruct (master_found s HM) as [c F]. rewrite (sub_rv_recv fixed s a c F).
  unM M_sub. cbn [sub_poll poll_r]. unfold RInvHalf, master_nonempty in HH. rewrite F in HH.
  destruct (lmq_empty c); cbn [negb] in *; errs; intros X; [discriminate|]. now rewrite HH.
Qed.

Theorem sub_c15_inv : C15_inv (M_sub true).
Proof. exact (sub_c15_inv_any true). Qed.
Theorem sub_c15_nb_immediate : C15_nb_immediate (M_sub true).
Proof. exact (sub_c15_nb_immediate_any true). Qed.
Theorem sub_c15_nb_possible : C15_nb_possible (M_sub true).
Proof. exact (sub_c15_nb_possible_any true). Qed.
Theorem sub_c15_nb_strict : C15_nb_strict (M_sub true).
Proof. exact (sub_c15_nb_strict_any true). Qed.
Theorem sub_c15_mirror_exact : C15_mirror_exact (M_sub true).
Proof. intros s R. split; [apply sub_mirror_r_exact; now apply sub_c15_inv|apply sub_mirror_w_all]. Qed.
Theorem sub_c15_mirror_iff : C15_mirror_iff (M_sub true).
Proof. intros s R. split; [apply sub_mirror_r_iff; now apply sub_c15_inv|apply sub_mirror_w_all]. Qed.
Theorem sub_c15_mirror : C15_mirror (M_sub true).
Proof.
  intros s R. destruct (sub_c15_mirror_exact s R) as [A B].
  split; [now apply mirror_r_exact_weaken|now apply mirror_w_exact_weaken].
Qed.
(* whatever the flag: a receive that would succeed is advertised (the first implication of the mirror) *)
Theorem sub_c15_no_missed_wakeup_any fixed : forall s, reachable (M_sub fixed) s ->
  forall a, rv_recv (M_sub fixed) s a = Some E_OK -> poll_r (pm_poll (M_sub fixed) s) = Some true.
Proof. intros s R. apply sub_mirror_r_half. now apply sub_c15_inv_any. Qed.

(* the source before the repair: sub0_ctx_unsubscribe purges the socket's own queue to empty and leaves the
   descriptor raised -- a reachable state with the descriptor raised in which the receive answers NNG_EAGAIN *)
Theorem sub_c15_mirror_refuted_pinned : ~ C15_mirror (M_sub false).
Proof.
  intros H.
  assert (R : reachable (M_sub false) (prun (M_sub false) (pm_init (M_sub false)) refute_ops)).
  { exists refute_ops. split; [|reflexivity]. vm_compute. repeat (split; [tauto|split; [discriminate|]]). exact I. }
  destruct (H _ R) as [HR _]. specialize (HR 9%N). vm_compute in HR.
  destruct HR as [_ X]; [split; [exact I|intros []]|]. exact (X eq_refl eq_refl).
Qed.

(* ================================================================== PUB *)
Definition M_pub : pmodel :=
  mkPM pub pub_init pub_step pub_poll pub_op_ok PubInv (fun _ => []) (fun _ => true).

Lemma pub_inv_init : pm_inv M_pub (pm_init M_pub).
Proof. exact pub_init_inv. Qed.
Lemma pub_inv_step s o : pm_inv M_pub s -> pm_ok M_pub s o -> o <> PSockClose -> pm_inv M_pub (fst (pm_step M_pub s o)).
Proof.
  unM M_pub. intros HI Hok _. destruct (pub_step s o) as [s' outs] eqn:E. cbn [fst].
  exact (pub_step_inv _ _ _ _ HI Hok E).
Qed.
Theorem pub_c15_inv : C15_inv M_pub.
Proof. apply reachable_inv; [exact pub_inv_init|exact pub_inv_step]. Qed.

(* a send emits exactly one completion for its aio, a success, whatever the flags *)
Lemma pub_send_compl s c a nb m : compl_of a (snd (pub_step s (PSend c a nb m))) = [(E_OK, None)].
Proof.
  destruct (pub_send_immediate s c a nb m) as (pre & E & N & _). rewrite E. cbn [snd].
  rewrite compl_of_app, (compl_of_none a pre), compl_of_cons, compl_of_Free, compl_of_self; [reflexivity|].
  apply Forall_forall. intros o Ho. destruct o; cbn; auto. intros ->. eapply N; eauto.
Qed.
Lemma pub_nb_send_immediate s : pm_inv M_pub s -> nb_send_immediate_at M_pub s.
Proof.
  intros _ c a m s' outs _ H. unM M_pub. exists E_OK.
  replace outs with (snd (pub_step s (PSend c a true m))) by now rewrite H.
  rewrite pub_send_compl. split; [reflexivity|]. split; [intros []|]. intros X. now elim X.
Qed.
Lemma pub_nb_recv_immediate s : pm_inv M_pub s -> nb_recv_immediate_at M_pub s.
Proof.
  intros _ c a s' outs _ H. unM M_pub. cbn [pub_step] in H. inversion H; subst; clear H.
  exists E_NOTSUP, None. rewrite compl_of_self. split; [reflexivity|]. split; [intros []|].
  split; [intros X; now elim X|errs; discriminate].
Qed.
Lemma pub_nb_possible s : pm_inv M_pub s -> nb_send_possible_at M_pub s /\ nb_recv_possible_at M_pub s.
Proof. intros _. split; [intros c a m _ _|intros c a _ _]; reflexivity. Qed.
Lemma pub_nb_strict s : pm_inv M_pub s -> nb_send_eagain_queues_at M_pub s /\ nb_recv_eagain_queues_at M_pub s.
Proof.
  intros _. split.
  - intros c a m _ H. unM M_pub. rewrite (result_of_compl _ _ _ _ (pub_send_compl s c a true m)) in H. errs. discriminate.
  - intros c a _ H. unM M_pub. cbn [pub_step snd] in H. rewrite result_of_single in H. errs. discriminate.
Qed.
(* the send descriptor is always raised and a send always succeeds; there is no receive descriptor *)
Lemma pub_rv_send s a m : rv_send M_pub s a m = Some E_OK.
Proof. unfold rv_send. unM M_pub. exact (result_of_compl _ _ _ _ (pub_send_compl s None a true m)). Qed.
Lemma pub_mirror_w_all s : mirror_w_at M_pub s /\ mirror_w_exact_at M_pub s /\ mirror_w_iff_at M_pub s.
Proof.
  split; [|split]; intros a m _ _; rewrite pub_rv_send; unM M_pub; cbn [pub_poll poll_w].
  - split; [reflexivity|]. intros _. errs. discriminate.
  - split; reflexivity.
  - split; [intros _; errs; discriminate|reflexivity].
Qed.
Lemma pub_mirror_r_all s : mirror_r_at M_pub s /\ mirror_r_exact_at M_pub s /\ mirror_r_iff_at M_pub s.
Proof. repeat split; intros a _; unM M_pub; unfold rv_recv; unM M_pub; cbn [pub_poll poll_r pub_step snd]; apply result_of_single. Qed.

Theorem pub_c15_nb_immediate : C15_nb_immediate M_pub.
Proof. exact (lift_at2 _ pub_inv_init pub_inv_step _ _ pub_nb_send_immediate pub_nb_recv_immediate). Qed.
Theorem pub_c15_nb_possible : C15_nb_possible M_pub.
Proof. intros s R. apply pub_nb_possible. now apply pub_c15_inv. Qed.
Theorem pub_c15_nb_strict : C15_nb_strict M_pub.
Proof. intros s R. apply pub_nb_strict. now apply pub_c15_inv. Qed.
Theorem pub_c15_mirror : C15_mirror M_pub.
Proof. intros s _. split; [apply pub_mirror_r_all|apply pub_mirror_w_all]. Qed.
Theorem pub_c15_mirror_exact : C15_mirror_exact M_pub.
Proof. intros s _. split; [apply pub_mirror_r_all|apply pub_mirror_w_all]. Qed.
Theorem pub_c15_mirror_iff : C15_mirror_iff M_pub.
Proof. intros s _. split; [apply pub_mirror_r_all|apply pub_mirror_w_all]. Qed.

(* ================================================================== raw SUB *)
Definition xsub_ok (s : xsub) (o : pop) : Prop :=
  match o with PSend _ a _ _ | PRecv _ a _ => ~ In a (xs_rq s) | _ => True end.
Definition M_xsub (mq_fixed rs_fixed : bool) : pmodel :=
  mkPM xsub xsub_init (xsub_step mq_fixed rs_fixed) xsub_poll xsub_ok XInv xs_rq (fun _ => true).

Lemma xsub_inv_init mf rf : pm_inv (M_xsub mf rf) (pm_init (M_xsub mf rf)).
Proof. exact xsub_init_inv. Qed.
Lemma xsub_inv_step mf rf s o :
  pm_inv (M_xsub mf rf) s -> pm_ok (M_xsub mf rf) s o -> o <> PSockClose -> pm_inv (M_xsub mf rf) (fst (pm_step (M_xsub mf rf) s o)).
Proof.
  unM M_xsub. intros HI _ _. destruct (xsub_step mf rf s o) as [s' outs] eqn:E. cbn [fst].
  exact (proj1 (xsub_step_law _ _ _ _ _ _ HI E)).
Qed.
Theorem xsub_c15_inv_any mf rf : C15_inv (M_xsub mf rf).
Proof. apply reachable_inv; [exact (xsub_inv_init mf rf)|exact (xsub_inv_step mf rf)]. Qed.

(* the two forms of a receive, in terms of the queue (waiting readers exist only while nothing is queued) *)
Lemma xsub_recv_nb rf s k a : XInv s ->
  xsub_step true rf s (PRecv k a true) =
  match xs_q s with
  | [] => (s, [Complete a E_AGAIN None])
  | m :: r => (run_notify (mkXsub r (xs_cap s) [] (xs_closed s) (xs_recvable s)), [Complete a E_OK (Some m)])
  end.
Proof.
  intros I. unfold XInv in I. cbn [xsub_step negb orb andb]. destruct (xs_q s) as [|m r] eqn:Q.
  - rewrite orb_true_r. reflexivity.
  - destruct (xs_rq s) as [|a0 r0] eqn:R; [|specialize (I ltac:(congruence)); discriminate].
    cbn [negb orb andb app]. rewrite run_getq_one. reflexivity.
Qed.
Lemma xsub_recv_b mf rf s k a : XInv s ->
  xsub_step mf rf s (PRecv k a false) =
  match xs_q s with
  | [] => (run_notify (mkXsub [] (xs_cap s) (xs_rq s ++ [a]) (xs_closed s) (xs_recvable s)), [])
  | m :: r => (run_notify (mkXsub r (xs_cap s) [] (xs_closed s) (xs_recvable s)), [Complete a E_OK (Some m)])
  end.
Proof.
  intros I. unfold XInv in I. cbn [xsub_step andb]. destruct (xs_q s) as [|m r] eqn:Q.
  - rewrite run_getq_nil_q. reflexivity.
  - destruct (xs_rq s) as [|a0 r0] eqn:R; [|specialize (I ltac:(congruence)); discriminate].
    cbn [app]. rewrite run_getq_one. reflexivity.
Qed.

Lemma xsub_nb_send_immediate mf rf s : pm_inv (M_xsub mf rf) s -> nb_send_immediate_at (M_xsub mf rf) s.
Proof.
  intros _ c a m s' outs Hb H. unM M_xsub. cbn [xsub_step] in H. inversion H; subst; clear H.
  exists E_NOTSUP. rewrite compl_of_self. split; [reflexivity|]. split; [exact Hb|]. intros _ m2 _. reflexivity.
Qed.
Lemma xsub_nb_recv_immediate rf s : pm_inv (M_xsub true rf) s -> nb_recv_immediate_at (M_xsub true rf) s.
Proof.
  intros HI c a s' outs Hb H. unM M_xsub. rewrite (xsub_recv_nb rf s c a HI) in H.
  destruct (xs_q s) as [|m r]; inversion H; subst; clear H.
  - exists E_AGAIN, None. rewrite compl_of_self. split; [reflexivity|]. split; [exact Hb|].
    split; [intros X; now elim X|errs; discriminate].
  - exists E_OK, (Some m). rewrite compl_of_self. split; [reflexivity|]. split; [intros []|].
    split; [reflexivity|discriminate].
Qed.
(* the form before the repair is immediate as well (it always answers NNG_EAGAIN) *)
Lemma xsub_nb_recv_immediate_pinned rf s : pm_inv (M_xsub false rf) s -> nb_recv_immediate_at (M_xsub false rf) s.
Proof.
  intros HI c a s' outs Hb H. unM M_xsub. cbn [xsub_step negb orb andb] in H. inversion H; subst; clear H.
  exists E_AGAIN, None. rewrite compl_of_self. split; [reflexivity|]. split; [exact Hb|].
  split; [intros X; now elim X|errs; discriminate].
Qed.
Lemma xsub_nb_send_possible mf rf s : pm_inv (M_xsub mf rf) s -> nb_send_possible_at (M_xsub mf rf) s.
Proof. intros _ c a m _ _. reflexivity. Qed.
Lemma xsub_nb_recv_possible rf s : pm_inv (M_xsub true rf) s -> nb_recv_possible_at (M_xsub true rf) s.
Proof.
  intros HI c a _ H. unM M_xsub. rewrite (xsub_recv_b true rf s c a HI) in *. rewrite (xsub_recv_nb rf s c a HI).
  destruct (xs_q s) as [|m r]; [|reflexivity]. cbn [snd] in H. discriminate.
Qed.
Lemma xsub_nb_send_strict mf rf s : pm_inv (M_xsub mf rf) s -> nb_send_eagain_queues_at (M_xsub mf rf) s.
Proof. intros _ c a m _ H. unM M_xsub. cbn [xsub_step snd] in H. rewrite result_of_single in H. errs. discriminate. Qed.
Lemma xsub_nb_recv_strict rf s : pm_inv (M_xsub true rf) s -> nb_recv_eagain_queues_at (M_xsub true rf) s.
Proof.
  intros HI c a _ H. unM M_xsub. rewrite (xsub_recv_b true rf s c a HI). rewrite (xsub_recv_nb rf s c a HI) in H.
  destruct (xs_q s) as [|m r].
  - cbn [fst snd run_notify xs_rq]. split; [reflexivity|]. apply in_or_app. right. now left.
  - cbn [snd] in H. rewrite result_of_single in H. errs. discriminate.
Qed.
Lemma xsub_mirror_w_all mf rf s :
  mirror_w_at (M_xsub mf rf) s /\ mirror_w_exact_at (M_xsub mf rf) s /\ mirror_w_iff_at (M_xsub mf rf) s.
Proof.
  repeat split; intros a m _ _; unM M_xsub; unfold rv_send; unM M_xsub; cbn [xsub_poll poll_w xsub_step snd]; apply result_of_single.
Qed.
(* what a poll shows is the present predicate (nni_msgq_get_recvable runs run_notify): a message is queued *)
Lemma xsub_mirror_r_exact rf s : pm_inv (M_xsub true rf) s -> mirror_r_exact_at (M_xsub true rf) s.
Proof.
  intros HI a _. unfold rv_recv. unM M_xsub. rewrite (xsub_recv_nb rf s None a HI).
  cbn [xsub_poll poll_r run_notify xs_recvable].
  destruct (xs_q s) as [|m r]; cbn [negb snd]; rewrite result_of_single; errs; split; intros X; congruence.
Qed.
Lemma xsub_mirror_r_iff rf s : pm_inv (M_xsub true rf) s -> mirror_r_iff_at (M_xsub true rf) s.
Proof.
  intros HI a _. unfold rv_recv. unM M_xsub. rewrite (xsub_recv_nb rf s None a HI).
  cbn [xsub_poll poll_r run_notify xs_recvable].
  destruct (xs_q s) as [|m r]; cbn [negb snd]; rewrite result_of_single; errs; split; intros X; try congruence; try discriminate.
Qed.

Theorem xsub_c15_nb_immediate_any_rs rf : C15_nb_immediate (M_xsub true rf).
Proof. exact (lift_at2 _ (xsub_inv_init true rf) (xsub_inv_step true rf) _ _ (xsub_nb_send_immediate true rf) (xsub_nb_recv_immediate rf)). Qed.
Theorem xsub_c15_nb_immediate_pinned rf : C15_nb_immediate (M_xsub false rf).
Proof. exact (lift_at2 _ (xsub_inv_init false rf) (xsub_inv_step false rf) _ _ (xsub_nb_send_immediate false rf) (xsub_nb_recv_immediate_pinned rf)). Qed.
Theorem xsub_c15_nb_possible_any_rs rf : C15_nb_possible (M_xsub true rf).
Proof. exact (lift_at2 _ (xsub_inv_init true rf) (xsub_inv_step true rf) _ _ (xsub_nb_send_possible true rf) (xsub_nb_recv_possible rf)). Qed.
Theorem xsub_c15_nb_strict_any_rs rf : C15_nb_strict (M_xsub true rf).
Proof. exact (lift_at2 _ (xsub_inv_init true rf) (xsub_inv_step true rf) _ _ (xsub_nb_send_strict true rf) (xsub_nb_recv_strict rf)). Qed.
Theorem xsub_c15_mirror_exact_any_rs rf : C15_mirror_exact (M_xsub true rf).
Proof. intros s R. split; [apply xsub_mirror_r_exact; now apply xsub_c15_inv_any|apply xsub_mirror_w_all]. Qed.
Theorem xsub_c15_mirror_iff_any_rs rf : C15_mirror_iff (M_xsub true rf).
Proof. intros s R. split; [apply xsub_mirror_r_iff; now apply xsub_c15_inv_any|apply xsub_mirror_w_all]. Qed.
Theorem xsub_c15_mirror_any_rs rf : C15_mirror (M_xsub true rf).
Proof.
  intros s R. destruct (xsub_c15_mirror_exact_any_rs rf s R) as [A B].
  split; [now apply mirror_r_exact_weaken|now apply mirror_w_exact_weaken].
Qed.

Theorem xsub_c15_inv : C15_inv (M_xsub true true).
Proof. exact (xsub_c15_inv_any true true). Qed.
Theorem xsub_c15_nb_immediate : C15_nb_immediate (M_xsub true true).
Proof. exact (xsub_c15_nb_immediate_any_rs true). Qed.
Theorem xsub_c15_nb_possible : C15_nb_possible (M_xsub true true).
Proof. exact (xsub_c15_nb_possible_any_rs true). Qed.
Theorem xsub_c15_nb_strict : C15_nb_strict (M_xsub true true).
Proof. exact (xsub_c15_nb_strict_any_rs true). Qed.
Theorem xsub_c15_mirror : C15_mirror (M_xsub true true).
Proof. exact (xsub_c15_mirror_any_rs true). Qed.
Theorem xsub_c15_mirror_exact : C15_mirror_exact (M_xsub true true).
Proof. exact (xsub_c15_mirror_exact_any_rs true). Qed.
Theorem xsub_c15_mirror_iff : C15_mirror_iff (M_xsub true true).
Proof. exact (xsub_c15_mirror_iff_any_rs true). Qed.

(* the source before the repair of nni_msgq_aio_get: a message is queued, the blocking receive succeeds in
   that very step, the NONBLOCK receive answers NNG_EAGAIN *)
Theorem xsub_c15_nb_possible_refuted_pinned : ~ C15_nb_possible (M_xsub false true).
Proof.
  intros H.
  assert (R : reachable (M_xsub false true) (prun (M_xsub false true) (pm_init (M_xsub false true)) xrefute_ops)).
  { exists xrefute_ops. split; [|reflexivity]. vm_compute. repeat (split; [tauto|split; [discriminate|]]). exact I. }
  destruct (H _ R) as [_ HR]. specialize (HR None 9%N). vm_compute in HR.
  assert (X : False -> False) by tauto. specialize (HR X eq_refl). discriminate.
Qed.

(* ================================================================== non-vacuity *)
Ltac in_false := let X := fresh in intros X; repeat (destruct X as [X|X]; [discriminate|]); exact X.
Ltac ops_ok := vm_compute; repeat (split; [first [tauto|split; [in_false|tauto]]|split; [discriminate|]]); exact I.

(* SUB: subscribe to everything, a publisher's pipe, a message: the descriptor is raised and the receive succeeds;
   after the receive it is lowered again and the next receive answers NNG_EAGAIN *)
Definition sub_ex_ops : list pop :=
  [PSetOpt None (OSub []); PPipeStart 1%N PROTO_PUB; PRecvDone 1%N 0%N (mkPmsg [] [1%N])].
Example sub_reachable_raised : exists s, reachable (M_sub true) s /\ poll_r (pm_poll (M_sub true) s) = Some true /\
  rv_recv (M_sub true) s 9%N = Some E_OK.
Proof.
  exists (prun (M_sub true) (pm_init (M_sub true)) sub_ex_ops). split; [|split; vm_compute; reflexivity].
  exists sub_ex_ops. split; [ops_ok|reflexivity].
Qed.
Example sub_reachable_lowered : exists s, reachable (M_sub true) s /\ poll_r (pm_poll (M_sub true) s) = Some false /\
  rv_recv (M_sub true) s 9%N = Some E_AGAIN.
Proof.
  exists (prun (M_sub true) (pm_init (M_sub true)) (sub_ex_ops ++ [PRecv None 8%N true])). split; [|split; vm_compute; reflexivity].
  exists (sub_ex_ops ++ [PRecv None 8%N true]). split; [ops_ok|reflexivity].
Qed.
Example sub_reachable_init_lowered : reachable (M_sub true) sub_init /\ poll_r (pm_poll (M_sub true) sub_init) = Some false.
Proof. split; [apply (reachable_init (M_sub true))|reflexivity]. Qed.
(* the history that refutes the source before the repair, on the repaired model: lowered *)
Example sub_reachable_unsub_lowered : exists s, reachable (M_sub true) s /\ poll_r (pm_poll (M_sub true) s) = Some false /\
  rv_recv (M_sub true) s 9%N = Some E_AGAIN.
Proof.
  exists (prun (M_sub true) (pm_init (M_sub true)) refute_ops). split; [|split; vm_compute; reflexivity].
  exists refute_ops. split; [ops_ok|reflexivity].
Qed.
(* a context's queue does not raise the socket's descriptor *)
Definition sub_ex_ctx_ops : list pop :=
  [PCtxOpen 5%N; PSetOpt (Some 5%N) (OSub []); PPipeStart 1%N PROTO_PUB; PRecvDone 1%N 0%N (mkPmsg [] [1%N])].
Example sub_reachable_ctx : exists s, reachable (M_sub true) s /\ poll_r (pm_poll (M_sub true) s) = Some false /\
  result_of 9%N (snd (pm_step (M_sub true) s (PRecv (Some 5%N) 9%N true))) = Some E_OK /\
  rv_recv (M_sub true) s 9%N = Some E_AGAIN.
Proof.
  exists (prun (M_sub true) (pm_init (M_sub true)) sub_ex_ctx_ops). split; [|repeat split; vm_compute; reflexivity].
  exists sub_ex_ctx_ops. split; [ops_ok|reflexivity].
Qed.

(* raw SUB *)
Example xsub_reachable_raised : exists s, reachable (M_xsub true true) s /\ poll_r (pm_poll (M_xsub true true) s) = Some true /\
  rv_recv (M_xsub true true) s 9%N = Some E_OK.
Proof.
  exists (prun (M_xsub true true) (pm_init (M_xsub true true)) xrefute_ops). split; [|split; vm_compute; reflexivity].
  exists xrefute_ops. split; [ops_ok|reflexivity].
Qed.
Example xsub_reachable_lowered : exists s, reachable (M_xsub true true) s /\ poll_r (pm_poll (M_xsub true true) s) = Some false /\
  rv_recv (M_xsub true true) s 9%N = Some E_AGAIN.
Proof.
  exists (prun (M_xsub true true) (pm_init (M_xsub true true)) (xrefute_ops ++ [PRecv None 8%N true])).
  split; [|split; vm_compute; reflexivity].
  exists (xrefute_ops ++ [PRecv None 8%N true]). split; [ops_ok|reflexivity].
Qed.
Example xsub_reachable_init_lowered :
  reachable (M_xsub true true) xsub_init /\ poll_r (pm_poll (M_xsub true true) xsub_init) = Some false.
Proof. split; [apply (reachable_init (M_xsub true true))|reflexivity]. Qed.

(* PUB: a subscriber's pipe with a send in flight; the descriptor is raised and the send succeeds *)
Definition pub_ex_ops : list pop := [PPipeStart 1%N PROTO_SUB; PSend None 7%N true (mkPmsg [] [1%N])].
Example pub_reachable_raised : exists s, reachable M_pub s /\ pb_pipes s <> [] /\ poll_w (pm_poll M_pub s) = Some true /\
  rv_send M_pub s 9%N (mkPmsg [] [2%N]) = Some E_OK.
Proof.
  exists (prun M_pub (pm_init M_pub) pub_ex_ops). split; [|split; [vm_compute; discriminate|split; vm_compute; reflexivity]].
  exists pub_ex_ops. split; [ops_ok|reflexivity].
Qed.
Example pub_reachable_init : reachable M_pub pub_init /\ poll_w (pm_poll M_pub pub_init) = Some true /\ poll_r (pm_poll M_pub pub_init) = None.
Proof. split; [apply (reachable_init M_pub)|split; reflexivity]. Qed.
