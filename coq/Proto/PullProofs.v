(* PullProofs: conservation, arrival-order delivery, poll mirror for PullModel. *)
From Coq Require Import List Arith NArith Bool Lia.
From NngV Require Import Proto.Common Proto.PushModel Proto.PullModel Proto.PushProofs.
Import ListNotations.

Ltac simp_l := cbn [pl_pl pl_rq pl_closed pl_readable] in *.

Fixpoint delivered (outs : list pout) : list pmsg :=
  match outs with [] => [] | Complete _ rv (Some m) :: r => if N.eqb rv 0 then m :: delivered r else delivered r
                | _ :: r => delivered r end.
Lemma delivered_fail rv l : delivered (fail_aios rv l) = [].
Proof. induction l; cbn; auto. Qed.
Lemma delivered_map_Free l : delivered (map Free l) = [].
Proof. induction l; cbn; auto. Qed.

Definition lheld (s : pull) : list pmsg := map snd (pl_pl s).

(* a blocked receiver implies no message is held; the descriptor is raised
   exactly when a message is held *)
Definition LInvP (s : pull) : Prop :=
  (pl_rq s <> [] -> pl_pl s = []) /\
  pl_readable s = negb (match pl_pl s with [] => true | _ => false end).

Lemma pull_init_inv : LInvP pull_init.
Proof. split; [intros H; reflexivity|reflexivity]. Qed.

Theorem pull_step_law s o s' outs :
  LInvP s -> pull_step s o = (s', outs) ->
  LInvP s' /\
  (forall x, cnt x (lheld s ++ arrived o) = cnt x (lheld s' ++ delivered outs ++ freed outs)) /\
  ((forall p, o <> PPipeClose p) -> (forall p m, o = PRecvDone p 0 m -> has_id p (pl_closed s) = false) ->
     lheld s ++ arrived o = delivered outs ++ lheld s').
Proof.
  intros [I1 I2] H. unfold lheld.
  destruct o as [c a nb m|c a nb|a rv|p peer|p|p rv|p rv m| c op|c|c| |now]; cbn [pull_step arrived] in *.
  - inversion H; subst. repeat split; auto; intros; cbn; now rewrite ?app_nil_r.
  - destruct (pl_pl s) as [|[p m] rest] eqn:PL.
    + destruct nb; inversion H; subst; clear H; simp_l.
      * repeat split; auto; intros; cbn; rewrite ?PL; now rewrite ?app_nil_r.
      * split; [split; [intros _; reflexivity|simp_l; exact I2]|].
        split; intros; cbn; reflexivity.
    + inversion H; subst; clear H; simp_l. split; [|split].
      * split; [intros Hne; discriminate (I1 Hne)|]. destruct rest; simp_l; [reflexivity|exact I2].
      * intros x. cbn [map snd delivered freed]. change (E_OK =? 0)%N with true. cbn iota. cnt_simp. lia.
      * intros _ _. cbn [map snd delivered]. change (E_OK =? 0)%N with true. cbn iota. now rewrite app_nil_r.
  - destruct (has_id a (pl_rq s)) eqn:E; inversion H; subst; clear H; simp_l.
    + split; [split; [|exact I2]|].
      * intros Hne. apply I1. intros E0. rewrite E0 in Hne. apply Hne. reflexivity.
      * split; intros; cbn; now rewrite ?app_nil_r.
    + repeat split; auto; intros; cbn; now rewrite ?app_nil_r.
  - destruct (negb (peer =? PROTO_PUSH)%N); inversion H; subst; repeat split; auto; intros; cbn; now rewrite ?app_nil_r.
  - (* PPipeClose: the pipe's held message (if any) is released with the pipe *)
    inversion H; subst; clear H; simp_l. split; [|split].
    + split.
      * intros Hne. rewrite (I1 Hne). reflexivity.
      * destruct (has_aio p (pl_pl s)) eqn:E.
        -- destruct (filter _ (pl_pl s)) eqn:F; cbn [andb negb]; [reflexivity|].
           rewrite I2. destruct (pl_pl s); [discriminate|reflexivity].
        -- cbn [andb]. rewrite I2.
           assert (F: filter (fun x : N * pmsg => negb (fst x =? p)%N) (pl_pl s) = pl_pl s).
           { clear - E. unfold has_aio in E. induction (pl_pl s) as [|[k v] l IH]; cbn in *; [reflexivity|].
             apply orb_false_iff in E as [E1 E2]. rewrite E1. cbn. f_equal. auto. }
           now rewrite F.
    + intros x. rewrite delivered_map_Free, freed_map_Free. cbn [app].
      pose proof (cnt_partition x p (pl_pl s)) as P. cnt_simp. lia.
    + intros Hn. exfalso. eapply Hn. reflexivity.
  - inversion H; subst. repeat split; auto; intros; cbn; now rewrite ?app_nil_r.
  - destruct (N.eqb_spec rv 0) as [->|Hrv]; cbn [negb] in H.
    + destruct (has_id p (pl_closed s)) eqn:C.
      * inversion H; subst; clear H. split; [split; auto|]. split.
        -- intros x. cbn [delivered freed]. cnt_simp. lia.
        -- intros _ Hc. specialize (Hc p m eq_refl). congruence.
      * destruct (pl_rq s) as [|a rest] eqn:RQ; inversion H; subst; clear H; simp_l.
        -- split; [split; simp_l; [intros Hne; exfalso; apply Hne; reflexivity|]|].
           ++ destruct (pl_pl s) eqn:PL; cbn [app]; [reflexivity|]. rewrite I2. reflexivity.
           ++ split; intros; rewrite ?map_app; cbn [map snd delivered freed]; cnt_simp; auto.
        -- assert (PL: pl_pl s = []) by (apply I1; congruence).
           split; [split; [intros _; exact PL|exact I2]|]. rewrite PL. cbn [map delivered freed].
           change (E_OK =? 0)%N with true. cbn iota. split; intros; cnt_simp; auto.
    + inversion H; subst. destruct (rv =? 0)%N; repeat split; auto; intros; cbn; now rewrite ?app_nil_r.
  - inversion H; subst. repeat split; auto; intros; cbn; now rewrite ?app_nil_r.
  - inversion H; subst. repeat split; auto; intros; cbn; now rewrite ?app_nil_r.
  - inversion H; subst. repeat split; auto; intros; cbn; now rewrite ?app_nil_r.
  - inversion H; subst; clear H; simp_l. split; [split; simp_l; [intros Hne; exfalso; apply Hne; reflexivity|exact I2]|].
    rewrite delivered_fail, freed_fail. split; intros; cbn; now rewrite ?app_nil_r.
  - inversion H; subst. repeat split; auto; intros; cbn; now rewrite ?app_nil_r.
Qed.

(* non-blocking receive: immediate; EAGAIN exactly when nothing is held, i.e.
   exactly when the receive descriptor is not raised *)
Theorem pull_nb_immediate s c a s' outs :
  LInvP s -> pull_step s (PRecv c a true) = (s', outs) ->
  exists rv m rest, outs = Complete a rv m :: rest /\ pl_rq s' = pl_rq s /\
    (rv = E_AGAIN <-> pl_readable s = false) /\ (rv = E_AGAIN -> s' = s /\ m = None) /\
    (rv <> E_AGAIN -> rv = E_OK /\ exists p x r, pl_pl s = (p, x) :: r /\ m = Some x).
Proof.
  intros [I1 I2] H. cbn [pull_step] in H. destruct (pl_pl s) as [|[p x] r] eqn:PL; inversion H; subst; clear H; simp_l.
  - exists E_AGAIN, None, []. rewrite I2. cbn. repeat split; auto; congruence.
  - exists E_OK, (Some x), [TranRecv p]. rewrite I2. cbn. repeat split; auto; try discriminate. eauto.
Qed.

(* ---- histories ---- *)
Fixpoint pull_run (s : pull) (ops : list pop) : pull * list (pop * list pout) :=
  match ops with
  | [] => (s, [])
  | o :: r => let (s1, outs) := pull_step s o in
              let (s2, tr) := pull_run s1 r in (s2, (o, outs) :: tr)
  end.
Fixpoint ptr_arrived (tr : list (pop * list pout)) : list pmsg :=
  match tr with [] => [] | (o, outs) :: r => arrived o ++ ptr_arrived r end.
Fixpoint ptr_delivered (tr : list (pop * list pout)) : list pmsg :=
  match tr with [] => [] | (o, outs) :: r => delivered outs ++ ptr_delivered r end.
Fixpoint ptr_freed (tr : list (pop * list pout)) : list pmsg :=
  match tr with [] => [] | (o, outs) :: r => freed outs ++ ptr_freed r end.

Theorem pull_run_law ops : forall s, LInvP s ->
  let (s', tr) := pull_run s ops in
  LInvP s' /\ forall x, cnt x (lheld s ++ ptr_arrived tr) = cnt x (lheld s' ++ ptr_delivered tr ++ ptr_freed tr).
Proof.
  induction ops as [|o r IH]; intros s HI; cbn [pull_run].
  - split; [exact HI|]. intros x. cbn. now rewrite !app_nil_r.
  - destruct (pull_step s o) as [s1 outs] eqn:S.
    destruct (pull_step_law _ _ _ _ HI S) as (HI1 & L & _).
    specialize (IH s1 HI1). destruct (pull_run s1 r) as [s2 tr]. destruct IH as [A B].
    split; [exact A|]. intros x. cbn [ptr_arrived ptr_delivered ptr_freed].
    specialize (L x). specialize (B x). cnt_simp. lia.
Qed.
