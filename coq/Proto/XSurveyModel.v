(* XSurveyModel: src/sp/protocol/survey0/xsurvey.c (raw SURVEYOR) and the parts of
   src/core/msgqueue.c it uses.  Definitions only.

   The raw sockets have no big lock: they are chains of small callbacks around
   nni_msgq objects (each with its own mutex).  The application and the transport
   see them only through the two upper queues and the pipes; one model step is
   one external event followed to quiescence -- the chain is deterministic: the
   socket's aio_getq is permanently posted on the upper write queue, so a message
   put there is handed over at once and fanned out (xsurv0_sock_getq_cb), each
   pipe's aio_getq is posted on its send queue exactly while no transport send is
   in flight.

   The upper read queue (urq) is kept at the level of the msgq's specification: a
   FIFO with capacity, blocked readers (user aios) and blocked writers (the
   pipes' aio_putq, each with its message), with the entry-point behaviour of
   msgqueue.c: aio_get runs only the readers (pinned; repaired: then the writers), aio_put only the writers, resize
   drops the oldest messages beyond cap+1 and runs nothing.  The poll descriptors
   are evaluated by run_notify whenever they are fetched, so they are functions
   of the state.

   Repairs the model can follow (false = the pinned source):
     mf_nb      nni_msgq_aio_get/put call nni_aio_start only if the operation has to
                wait (pinned: always first, so that a NONBLOCK operation on a raw
                socket always fails with EAGAIN)
     mf_resize  nni_msgq_resize runs the blocked writers and readers afterwards
     mf_getput  nni_msgq_aio_get runs the blocked writers after the readers (e654d99): a
                reader that took a buffered message made room, a blocked writer moves
                in at once (pinned: it stays blocked until the next put or get) *)
From Coq Require Import List Arith NArith Bool ZArith.
From NngV Require Import Proto.Common Proto.SurveyBacktrace Proto.SurveyModel.
Import ListNotations.

Record mq_fix := mkMqfix3 { mf_nb : bool; mf_resize : bool; mf_getput : bool }.
(* two-flag form kept for earlier users (Proto/PollModel.v): the third repair absent *)
Definition mkMqfix (nb rs : bool) : mq_fix := mkMqfix3 nb rs false.
Definition mqfix_none : mq_fix := mkMqfix3 false false false.
Definition mqfix_all : mq_fix := mkMqfix3 true true true.

Definition XSURV_SENDQ : nat := 16.      (* xsurv0_pipe_init: nni_msgq_init(&p->sendq, 16) *)
Definition URQ_DEFAULT : nat := 1.       (* socket.c: nni_msgq_init(&s->s_urq, 1) *)
Definition UWQ_DEFAULT : nat := 0.

Record urq := mkUrq {
  uq_q : list pmsg; uq_cap : nat;
  uq_readers : list aioid;               (* mq_aio_getq *)
  uq_writers : list (pid * pmsg) }.      (* mq_aio_putq: the pipes' aio_putq *)
Definition urq_init : urq := mkUrq [] URQ_DEFAULT [] [].

(* nni_msgq_run_putq; every completed writer is a pipe whose putq_cb posts the next receive *)
Fixpoint run_putq (fuel : nat) (u : urq) : urq * list pout :=
  match fuel with
  | O => (u, [])
  | S f =>
      match uq_writers u with
      | [] => (u, [])
      | (p, m) :: ws =>
          match uq_readers u with
          | a :: rs =>
              let (u', o) := run_putq f (mkUrq (uq_q u) (uq_cap u) rs ws) in
              (u', Complete a E_OK (Some m) :: TranRecv p :: o)
          | [] =>
              if length (uq_q u) <? uq_cap u then
                let (u', o) := run_putq f (mkUrq (uq_q u ++ [m]) (uq_cap u) [] ws) in (u', TranRecv p :: o)
              else (u, [])
          end
      end
  end.

(* nni_msgq_run_getq *)
Fixpoint run_getq (fuel : nat) (u : urq) : urq * list pout :=
  match fuel with
  | O => (u, [])
  | S f =>
      match uq_readers u with
      | [] => (u, [])
      | a :: rs =>
          match uq_q u with
          | m :: q' =>
              let (u', o) := run_getq f (mkUrq q' (uq_cap u) rs (uq_writers u)) in (u', Complete a E_OK (Some m) :: o)
          | [] =>
              match uq_writers u with
              | (p, m) :: ws =>
                  let (u', o) := run_getq f (mkUrq [] (uq_cap u) rs ws) in
                  (u', Complete a E_OK (Some m) :: TranRecv p :: o)
              | [] => (u, [])
              end
          end
      end
  end.

Definition urq_put (u : urq) (p : pid) (m : pmsg) : urq * list pout :=
  let u1 := mkUrq (uq_q u) (uq_cap u) (uq_readers u) (uq_writers u ++ [(p, m)]) in
  run_putq (S (length (uq_writers u1))) u1.
Definition urq_get (u : urq) (a : aioid) : urq * list pout :=
  let u1 := mkUrq (uq_q u) (uq_cap u) (uq_readers u ++ [a]) (uq_writers u) in
  run_getq (S (length (uq_readers u1))) u1.
(* nni_msgq_aio_get with the repair e654d99: run_getq, then run_putq *)
Definition urq_get_fx (fx : mq_fix) (u : urq) (a : aioid) : urq * list pout :=
  let (u1, o1) := urq_get u a in
  if mf_getput fx then let (u2, o2) := run_putq (S (length (uq_writers u1))) u1 in (u2, o1 ++ o2)
  else (u1, o1).
Definition urq_recvable (u : urq) : bool := negb (isnil (uq_q u)) || negb (isnil (uq_writers u)).
(* nni_msgq_resize: oldest first beyond cap + 1; the repaired version then runs both queues *)
Definition urq_resize (fx : mq_fix) (u : urq) (n : nat) : urq * list pout :=
  let excess := length (uq_q u) - (n + 1) in
  let u1 := mkUrq (skipn excess (uq_q u)) n (uq_readers u) (uq_writers u) in
  let o1 := map Free (firstn excess (uq_q u)) in
  if mf_resize fx then
    let (u2, o2) := run_putq (S (length (uq_writers u1))) u1 in
    let (u3, o3) := run_getq (S (length (uq_readers u2))) u2 in (u3, o1 ++ o2 ++ o3)
  else (u1, o1).
(* would a receive posted now have to wait?  (another reader is ahead, or nothing is there) *)
Definition urq_get_waits (u : urq) : bool := negb (isnil (uq_readers u)) || (isnil (uq_q u) && isnil (uq_writers u)).
(* a user receive on the raw socket: nni_msgq_aio_get *)
Definition urq_user_recv (fx : mq_fix) (u : urq) (a : aioid) (nb : bool) : urq * list pout :=
  if nb && (negb (mf_nb fx) || urq_get_waits u) then (u, [Complete a E_AGAIN None]) else urq_get_fx fx u a.
(* nni_msgq_cancel *)
Definition urq_cancel (u : urq) (a : aioid) (rv : N) : urq * list pout :=
  if has_id a (uq_readers u)
  then (mkUrq (uq_q u) (uq_cap u) (remove_id a (uq_readers u)) (uq_writers u), [Complete a rv None])
  else (u, []).
(* the pipe's aio_putq is closed: its message is freed by putq_cb *)
Definition urq_drop_writer (u : urq) (p : pid) : urq * list pout :=
  (mkUrq (uq_q u) (uq_cap u) (uq_readers u) (filter (fun x => negb (N.eqb (fst x) p)) (uq_writers u)),
   map Free (map snd (filter (fun x => N.eqb (fst x) p) (uq_writers u)))).
(* nni_msgq_close *)
Definition urq_close (u : urq) : urq * list pout :=
  (* blocked writers (pipes' aio_putq) fail with ECLOSED too: putq_cb frees their messages *)
  (mkUrq [] (uq_cap u) [] [], map Free (uq_q u) ++ fail_aios E_CLOSED (uq_readers u) ++ map Free (map snd (uq_writers u))).

(* a pipe's side towards the transport: send queue (msgq with tryput only), aio_getq / aio_send *)
Record xpipe := mkXpipe {
  xp_q : list pmsg; xp_busy : bool;      (* busy = a transport send is in flight (aio_getq not posted) *)
  xp_held : list pmsg; xp_closed : bool }.
Definition xpipe_init : xpipe := mkXpipe [] false [] false.

(* nni_msgq_tryput(p->sendq, m) followed by the getq_cb it may trigger *)
Definition xpipe_tryput (cap : nat) (p : pid) (x : xpipe) (m : pmsg) : xpipe * list pout :=
  if xp_closed x then (x, [Free m])
  else if negb (xp_busy x) then (mkXpipe (xp_q x) true [m] false, [TranSend p m])
  else if length (xp_q x) <? cap then (mkXpipe (xp_q x ++ [m]) true (xp_held x) false, [])
  else (x, [Free m]).

(* send_cb *)
Definition xpipe_sent (p : pid) (x : xpipe) (rv : N) : xpipe * list pout :=
  if negb (N.eqb rv 0) then (mkXpipe (xp_q x) (xp_busy x) [] (xp_closed x), map Free (xp_held x) ++ [ClosePipe p])
  else if xp_closed x then (mkXpipe (xp_q x) (xp_busy x) [] true, [])
  else match xp_q x with
       | m :: r => (mkXpipe r true [m] false, [TranSend p m])
       | [] => (mkXpipe [] false [] false, [])
       end.

Record xsurv := mkXsurv {
  xs_pipes : list (pid * xpipe);
  xs_urq : urq; xs_uwcap : nat; xs_ttl : nat }.
Definition xsurv_init : xsurv := mkXsurv [] urq_init UWQ_DEFAULT TTL_DEFAULT.

(* xsurv0_sock_getq_cb: one clone per pipe on s->pipes *)
Fixpoint xfanout (m : pmsg) (l : list (pid * xpipe)) : list (pid * xpipe) * list pout :=
  match l with
  | [] => ([], [])
  | (p, x) :: r =>
      let (r', o) := xfanout m r in
      if xp_closed x then ((p, x) :: r', o)
      else let (x', o1) := xpipe_tryput XSURV_SENDQ p x m in ((p, x') :: r', o1 ++ o)
  end.

Definition raw_setopt (fx : mq_fix) (ttl : nat) (u : urq) (uw : nat) (c : option ctxid) (o : popt) : nat * urq * nat * list pout :=
  match c, o with
  | None, OMaxTtl n => if (1 <=? n) && (n <=? TTL_MAX) then (n, u, uw, [OptRv E_OK]) else (ttl, u, uw, [OptRv E_INVAL])
  | None, OSendBuf n => if (BUF_OPT_MAX <? N.of_nat n)%N then (ttl, u, uw, [OptRv E_INVAL]) else (ttl, u, n, [OptRv E_OK])
  | None, ORecvBuf n =>
      if (BUF_OPT_MAX <? N.of_nat n)%N then (ttl, u, uw, [OptRv E_INVAL])
      else let (u', o1) := urq_resize fx u n in (ttl, u', uw, o1 ++ [OptRv E_OK])
  | _, _ => (ttl, u, uw, [OptRv E_NOTSUP])
  end.

Definition xsurv_step (fx : mq_fix) (s : xsurv) (o : pop) : xsurv * list pout :=
  match o with
  | PPipeStart p peer =>
      if negb (N.eqb peer PROTO_RESPONDENT) then (s, [Reject E_PROTO])
      else (mkXsurv (xs_pipes s ++ [(p, xpipe_init)]) (xs_urq s) (xs_uwcap s) (xs_ttl s), [TranRecv p])
  | PPipeClose p =>
      match kget p (xs_pipes s) with
      | None => (s, [])
      | Some x =>
          let (u', o1) := urq_drop_writer (xs_urq s) p in
          (mkXsurv (kset p (mkXpipe [] (xp_busy x) (xp_held x) true) (xs_pipes s)) u' (xs_uwcap s) (xs_ttl s),
           map Free (xp_q x) ++ o1)
      end
  | PSendDone p rv =>
      match kget p (xs_pipes s) with
      | None => (s, [])
      | Some x => let (x', o1) := xpipe_sent p x rv in
                  (mkXsurv (kset p x' (xs_pipes s)) (xs_urq s) (xs_uwcap s) (xs_ttl s), o1)
      end
  | PRecvDone p rv m =>
      if negb (N.eqb rv 0) then (s, [ClosePipe p]) else
      match xsurv_recv (pm_body m) with
      | BtDeliver hdr body =>
          let msg := mkPmsg (pm_hdr m ++ hdr) body in
          match kget p (xs_pipes s) with
          | Some x => if xp_closed x then (s, [Free msg])
                      else let (u', o1) := urq_put (xs_urq s) p msg in
                           (mkXsurv (xs_pipes s) u' (xs_uwcap s) (xs_ttl s), o1)
          | None => (s, [Free msg])
          end
      | _ => (s, [Free m; ClosePipe p])
      end
  | PSend _ a nb m =>
      (* nni_msgq_aio_put(uwq): the socket's reader is always waiting *)
      if nb && negb (mf_nb fx) then (s, [Complete a E_AGAIN None])
      else let (ps, o1) := xfanout m (xs_pipes s) in
           (mkXsurv ps (xs_urq s) (xs_uwcap s) (xs_ttl s), Complete a E_OK None :: o1)
  | PRecv _ a nb =>
      let (u', o1) := urq_user_recv fx (xs_urq s) a nb in
      (mkXsurv (xs_pipes s) u' (xs_uwcap s) (xs_ttl s), o1)
  | PCancel a rv =>
      let (u', o1) := urq_cancel (xs_urq s) a rv in (mkXsurv (xs_pipes s) u' (xs_uwcap s) (xs_ttl s), o1)
  | PSetOpt c op =>
      let '(t, u, w, o1) := raw_setopt fx (xs_ttl s) (xs_urq s) (xs_uwcap s) c op in (mkXsurv (xs_pipes s) u w t, o1)
  | PSockClose =>
      let (u', o1) := urq_close (xs_urq s) in (mkXsurv (xs_pipes s) u' (xs_uwcap s) (xs_ttl s), o1)
  | PCtxOpen _ => (s, [OptRv E_NOTSUP])       (* raw sockets have no contexts *)
  | PCtxClose _ | PTick _ => (s, [])
  end.

(* sendable: `mq_len < mq_cap || a reader waits` -- the socket's aio_getq always waits *)
Definition xsurv_poll (s : xsurv) : ppoll := mkPoll (Some (urq_recvable (xs_urq s))) (Some true).
