(* PairGuardProofs: (1) under the environment contract op_ok the guarded step IS
   PairModel.pair_step, so every theorem of PairProofs holds of the source as it is now;
   (2) what the guard adds outside the contract: a successful send completion of a pipe that
   is no longer the peer schedules nothing; on the stale witness no message is overwritten. *)
From Coq Require Import List Arith NArith Bool Lia.
From NngV Require Import Proto.Common Proto.PairModel Proto.PairGuard Proto.PairProofs.
Import ListNotations.

Lemma is_cur_some s p : pr_p s = Some p -> is_cur s p = true.
Proof. intros H. unfold is_cur. rewrite H. apply N.eqb_refl. Qed.

Theorem pair_step_g_contract k fx fr fs s o : op_ok s o -> pair_step_g k fx fr fs s o = pair_step k fx fr s o.
Proof.
  intros Hok. destruct o; try reflexivity; cbn [pair_step_g op_ok] in *.
  - (* PSendDone *)
    destruct Hok as [_ Hc]. destruct (N.eqb rv 0) eqn:E; [|rewrite andb_false_r; reflexivity].
    apply N.eqb_eq in E. rewrite (is_cur_some s p (Hc E)). cbn [negb]. rewrite !andb_false_r. reflexivity.
  - (* PRecvDone *)
    destruct (N.eqb rv 0) eqn:E; [|rewrite andb_false_r; reflexivity].
    apply N.eqb_eq in E. destruct (Hok E) as [Hc _]. rewrite (is_cur_some s p Hc). cbn [negb]. rewrite !andb_false_r. reflexivity.
Qed.

Section Runs.
Variables (k : pkind) (fx fr fs : bool).
Fixpoint pair_run_g (s : pair) (ops : list pop) : pair * ptrace :=
  match ops with
  | [] => (s, [])
  | o :: r => let (s1, outs) := pair_step_g k fx fr fs s o in
              let (s2, tr) := pair_run_g s1 r in (s2, (o, s, outs) :: tr)
  end.

Theorem pair_run_g_contract ops : forall s, ops_ok k fx fr s ops -> pair_run_g s ops = pair_run k fx fr s ops.
Proof.
  induction ops as [|o r IH]; intros s H; cbn [pair_run_g pair_run]; [reflexivity|].
  destruct H as [H1 H2]. rewrite (pair_step_g_contract k fx fr fs s o H1).
  destruct (pair_step k fx fr s o) as [s1 outs] eqn:E. cbn [fst] in H2. rewrite (IH s1 H2). reflexivity.
Qed.
End Runs.

(* the stale successful send completion: nothing is scheduled, nothing else changes *)
Theorem pair_stale_send_ignored k fx fr s p : is_cur s p = false ->
  pair_step_g k fx fr true s (PSendDone p 0%N) =
  (mkPair (pr_p s) (pr_ttl s) (pr_wmq s) (pr_wcap s) (pr_waq s) (pr_rmq s) (pr_rcap s) (pr_raq s)
          (pr_rd s) (pr_wr s) (set_snd (pr_sending s) p None) (pr_readable s) (pr_writable s), []).
Proof. intros H. cbn [pair_step_g]. rewrite H. reflexivity. Qed.

(* a message completing on a pipe that is no longer the peer is never parked for the new peer *)
Theorem pair_stale_recv_never_parked k fx fr s p m s' outs : is_cur s p = false ->
  pair_step_g k fx fr true s (PRecvDone p 0%N m) = (s', outs) -> pr_rd s' = pr_rd s.
Proof.
  intros H E. cbn [pair_step_g] in E. rewrite H in E. cbn [N.eqb andb negb] in E.
  destruct (rx_decode k (pr_ttl s) m) as [| |m'] eqn:D.
  - cbn [pair_step] in E. rewrite D in E. cbn in E. inversion E; subst. reflexivity.
  - cbn [pair_step] in E. rewrite D in E. cbn in E. inversion E; subst. reflexivity.
  - destruct (pr_raq s) as [|a rest] eqn:R.
    + destruct (lmq_full (pr_rmq s) (pr_rcap s)) eqn:F.
      * inversion E; subst. reflexivity.
      * cbn [pair_step] in E. rewrite D, R, F in E. cbn in E. inversion E; subst. reflexivity.
    + cbn [pair_step] in E. rewrite D, R in E. cbn in E. inversion E; subst. reflexivity.
Qed.

(* on the witness of PairProofs.pair_stale_send_completion_refuted the repaired callbacks
   leave message 2 in flight on pipe 2 and message 3 queued: nothing is overwritten *)
Theorem pair_stale_send_completion_holds fx fr :
  let (s, tr) := pair_run_g K0 fx fr true pair_init stale_witness in
  tr_tx tr = [mkPmsg [] [1%N]; mkPmsg [] [2%N]] /\
  pr_p s = Some 2%N /\ sendingl s = [mkPmsg [] [2%N]] /\ pr_wmq s = [mkPmsg [] [3%N]] /\ tr_wloss tr = [].
Proof. destruct fx; destruct fr; vm_compute; repeat split; reflexivity. Qed.
