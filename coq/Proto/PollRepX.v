(* PollRepX: the C15 instances for cooked REP (reqrep0/rep.c), raw REQ (xreq.c) and raw REP
   (xrep.c; both over the upper queues of src/core/msgqueue.c).

   Cooked REP, M_rep pf.  The invariant rep_inv says: context keys are distinct and the socket's
   own context (key 0) exists; pipe id 0 was never started, busy pipes were started, a held request
   sits on a live pipe and has a non-empty backtrace; every entry of a pipe's send queue names a
   context whose reply is pending, each context at most once; the send descriptor is raised exactly
   when the socket's own context holds a request and its pipe is gone or not busy (RW -- this is
   what the repair pf_wbusy restores); the receive descriptor is raised exactly when some pipe
   holds a request (RepProofs.rep_rinv).  With pf_rclose, pf_saio and pf_wbusy the invariant is
   inductive and C15_mirror holds; the NONBLOCK clauses hold for every pf.  The strict reading of
   NNG_EAGAIN, the iff form and the exact form of the send descriptor are refuted by witnesses
   (state errors); without pf_wbusy C15_mirror itself is refuted.

   Raw REQ / raw REP, M_xreq mf / M_xrep mf.  The invariant is mq_ok of the upper queues: waiting
   getters imply an empty queue and no putters, waiting putters imply a full queue (what mf_getput
   restores).  With all three repairs every clause holds including the exact and iff forms;
   without mf_getput C15_mirror is refuted for raw REQ. *)
From Coq Require Import List Arith NArith Bool ZArith Lia.
From NngV Require Import Proto.Common Proto.ReqRepBacktrace Proto.ReqModel Proto.RepModel Proto.XReqModel Proto.XRepModel
  Proto.ReqRepProofs Proto.RepProofs Proto.XReqRepProofs Proto.PollModel Proto.PollProofs.
Import ListNotations.

Ltac errs := unfold E_OK, E_AGAIN, E_NOTSUP, E_STATE, E_CLOSED, E_PROTO, E_NOMEM, E_CONNRESET, E_CANCELED, E_TIMEDOUT in *.
Ltac unM M := unfold M in *; cbn [pm_step pm_ok pm_inv pm_busy pm_cls pm_poll pm_st pm_init] in *.

(* ------------------------------------------------------------------ witnesses by computation *)
Section Okb.
  Variable M : pmodel.
  Variable okb : pm_st M -> pop -> bool.
  Hypothesis okb_sound : forall s o, okb s o = true -> pm_ok M s o.
  Definition not_close (o : pop) : bool := match o with PSockClose => false | _ => true end.
  Fixpoint pops_okb (s : pm_st M) (ops : list pop) : bool :=
    match ops with
    | [] => true
    | o :: r => okb s o && not_close o && pops_okb (fst (pm_step M s o)) r
    end.
  Lemma pops_okb_sound : forall ops s, pops_okb s ops = true -> pops_ok M s ops.
  Proof.
    induction ops as [|o r IH]; intros s H; cbn [pops_ok]; [exact I|]. cbn [pops_okb] in H.
    apply andb_true_iff in H as [H H3]. apply andb_true_iff in H as [H1 H2].
    split; [now apply okb_sound|]. split; [intros ->; discriminate|now apply IH].
  Qed.
  Lemma reachable_okb ops : pops_okb (pm_init M) ops = true -> reachable M (prun M (pm_init M) ops).
  Proof. intros H. exists ops. split; [now apply pops_okb_sound|reflexivity]. Qed.
End Okb.

(* ------------------------------------------------------------------ small list facts *)
Lemma lookup_some_key {A} k (l : list (N * A)) : In k (map fst l) -> lookup k l <> None.
Proof. intros H E. now apply lookup_none_notin in E. Qed.
Lemma lookup_key_in {A} k (l : list (N * A)) v : lookup k l = Some v -> In k (map fst l).
Proof. intros H. apply lookup_in in H. apply (in_map fst) in H. exact H. Qed.
Lemma keys_assoc_set {A} k (v : A) l : In k (map fst l) -> map fst (assoc_set k v l) = map fst l.
Proof.
  induction l as [|[k' v'] l IH]; cbn [map fst assoc_set]; [intros []|].
  destruct (N.eqb_spec k' k); cbn [map fst]; [now subst|]. intros [E|H]; [congruence|]. now rewrite IH.
Qed.
Lemma nodup_lookup {A} k (v : A) l : NoDup (map fst l) -> In (k, v) l -> lookup k l = Some v.
Proof.
  induction l as [|[k' v'] l IH]; cbn [map fst lookup]; [intros _ []|]. intros Hn [E|H].
  - inversion E; subst. now rewrite N.eqb_refl.
  - inversion Hn; subst. destruct (N.eqb_spec k' k); [|auto]. subst. exfalso. apply H2. apply (in_map fst) in H. exact H.
Qed.
Lemma nodup_filter {A B} (f : A -> B) (g : A -> bool) l : NoDup (map f l) -> NoDup (map f (filter g l)).
Proof.
  induction l as [|x l IH]; cbn [map filter]; [auto|]. intros H. inversion H; subst.
  destruct (g x); cbn [map]; [|auto]. constructor; [|auto]. intros X. apply H2.
  apply in_map_iff in X as (y & E & Hy). apply filter_In in Hy as [Hy _]. rewrite <- E. now apply in_map.
Qed.
Lemma in_assoc_del {A} k (l : list (N * A)) x : In x (assoc_del k l) <-> In x l /\ fst x <> k.
Proof.
  unfold assoc_del. rewrite filter_In. split; intros [H1 H2]; split; auto.
  - intros E. rewrite E, N.eqb_refl in H2. discriminate.
  - destruct (N.eqb_spec (fst x) k); [contradiction|reflexivity].
Qed.
Lemma in_plist_del k (l : list (pid * N)) x : In x (plist_del k l) <-> In x l /\ snd x <> k.
Proof.
  unfold plist_del. rewrite filter_In. split; intros [H1 H2]; split; auto.
  - intros E. rewrite E, N.eqb_refl in H2. discriminate.
  - destruct (N.eqb_spec (snd x) k); [contradiction|reflexivity].
Qed.
Lemma has_id_app a l1 l2 : has_id a (l1 ++ l2) = has_id a l1 || has_id a l2.
Proof. unfold has_id. apply existsb_app. Qed.
Lemma has_id_remove_other a b l : a <> b -> has_id a (remove_id b l) = has_id a l.
Proof.
  intros H. destruct (has_id a l) eqn:E.
  - apply has_id_true. apply in_remove_id. split; [now apply has_id_true|exact H].
  - apply has_id_false. intros X. apply in_remove_id in X as [X _]. apply has_id_false in E. contradiction.
Qed.
Lemma has_id_remove_same a l : has_id a (remove_id a l) = false.
Proof. apply has_id_false. intros X. apply in_remove_id in X as [_ X]. congruence. Qed.
Lemma has_id_single a b : has_id a [b] = N.eqb a b.
Proof. unfold has_id. cbn. apply orb_false_r. Qed.
Lemma first_on_in p l k : first_on p l = Some k -> In (p, k) l.
Proof.
  induction l as [|[q k'] l IH]; cbn [first_on]; [discriminate|].
  destruct (N.eqb_spec q p); intros H; [inversion H; subst; now left|right; auto].
Qed.
Lemma find_pctx_in f l k c : find_pctx f l = Some (k, c) -> In (k, c) l /\ f c = true.
Proof.
  induction l as [|[k' c'] l IH]; cbn [find_pctx]; [discriminate|].
  destruct (f c') eqn:E; intros H.
  - inversion H; subst. split; [now left|exact E].
  - destruct (IH H). split; [now right|assumption].
Qed.
Lemma find_pctx_none f l k c : find_pctx f l = None -> In (k, c) l -> f c = false.
Proof.
  induction l as [|[k' c'] l IH]; cbn [find_pctx]; [intros _ []|].
  destruct (f c') eqn:E; [discriminate|]. intros H [X|X]; [inversion X; subst; exact E|auto].
Qed.

(* the header of a parsed request is never empty *)
Lemma bt_loop_hdr n : forall hdr body m, bt_loop n hdr body = BtDeliver m -> pm_hdr m <> [].
Proof.
  induction n as [|n IH]; intros hdr body m; cbn [bt_loop]; [discriminate|].
  destruct (length body <? 4) eqn:EL; [discriminate|]. destruct (BT_HEADER_MAX <? length hdr + 4); [discriminate|].
  destruct (high_bit (firstn 4 body)).
  - intros H. inversion H; subst. cbn [pm_hdr]. apply Nat.ltb_ge in EL.
    destruct body as [|b body]; [cbn in EL; lia|]. cbn [firstn]. intros X. apply app_eq_nil in X as [_ X]. discriminate.
  - apply IH.
Qed.
Lemma rep_recv_hdr ttl w m : rep_recv ttl w = BtDeliver m -> pm_hdr m <> [].
Proof. apply bt_loop_hdr. Qed.

(* ================================================================== cooked REP *)
Ltac rsimp := cbn [rp_ctxs rp_pipes rp_busy rp_pclosed rp_holding rp_recvq rp_sendq rp_sending rp_readable rp_writable rp_ttl
                   rp_set_ctxs rp_set_pipes rp_set_holding rp_set_recvq rp_set_sendq rp_set_sending rp_set_readable
                   rp_set_writable rp_set_ttl rc_pipe rc_bt rc_saio rc_raio fst snd] in *.

Definition caios (c : pctx) : list aioid :=
  (match rc_raio c with Some a => [a] | None => [] end) ++ (match rc_saio c with Some (a, _) => [a] | None => [] end).
Definition rep_busy (s : rep) : list aioid := flat_map (fun x => caios (snd x)) (rp_ctxs s).
Definition keys (s : rep) : list N := map fst (rp_ctxs s).
Definition started (s : rep) (p : pid) : Prop := In p (rp_pipes s) \/ In p (rp_pclosed s).
Definition wexp (s : rep) (c : pctx) : bool :=
  negb (is_nil (rc_bt c)) && (negb (has_id (rc_pipe c) (rp_pipes s)) || negb (has_id (rc_pipe c) (rp_busy s))).

Definition rep_ok (s : rep) (o : pop) : Prop :=
  match o with
  | PSend _ a _ _ | PRecv _ a _ => ~ In a (rep_busy s)
  | PPipeStart p _ => p <> 0%N /\ ~ started s p
  | PPipeClose p => p <> 0%N
  | PSendDone p _ => In p (rp_busy s)
  | PRecvDone p _ _ => started s p
  | PCtxOpen k => ~ In (k + 1)%N (keys s)
  | _ => True
  end.

Lemma get_put s k c k' : rp_get (rp_put s k c) k' = if N.eqb k' k then Some c else rp_get s k'.
Proof.
  unfold rp_get, rp_put. rsimp. destruct (N.eqb_spec k' k); [subst; apply lookup_assoc_set_same|now apply lookup_assoc_set_other].
Qed.
Lemma keys_put s k c : In k (keys s) -> keys (rp_put s k c) = keys s.
Proof. unfold keys, rp_put. rsimp. apply keys_assoc_set. Qed.
Lemma get_in_keys s k c : rp_get s k = Some c -> In k (keys s).
Proof. apply lookup_key_in. Qed.

(* busy aios under a change of one context *)
Lemma busy_in s k c a : rp_get s k = Some c -> In a (caios c) -> In a (rep_busy s).
Proof. intros H Ha. apply lookup_in in H. unfold rep_busy. apply in_flat_map. exists (k, c). auto. Qed.
Lemma busy_assoc_set a k c' l :
  In a (flat_map (fun x : N * pctx => caios (snd x)) (assoc_set k c' l)) ->
  In a (caios c') \/ In a (flat_map (fun x : N * pctx => caios (snd x)) l).
Proof.
  induction l as [|[k' v'] l IH]; cbn [assoc_set flat_map snd].
  - rewrite app_nil_r. auto.
  - destruct (N.eqb k' k); cbn [flat_map snd]; rewrite !in_app_iff; intros [H|H]; auto. destruct (IH H); auto.
Qed.
Lemma busy_put s k c' a : In a (rep_busy (rp_put s k c')) -> In a (caios c') \/ In a (rep_busy s).
Proof. unfold rep_busy, rp_put. rsimp. apply busy_assoc_set. Qed.


Ltac runf := unfold keys, started, wexp, master_pipe, rp_get, rp_put in *; rsimp.
Ltac brk1 := match goal with |- context [if ?b then _ else _] => destruct b eqn:? end.
Ltac kset := repeat (rewrite keys_assoc_set); auto.

Lemma nodup_snoc {A} (x : A) l : NoDup l -> ~ In x l -> NoDup (l ++ [x]).
Proof.
  induction l as [|y l IH]; cbn [app]; intros H Hx; [constructor; [intros []|constructor]|].
  inversion H; subst. constructor.
  - intros X. apply in_app_or in X as [X|[X|[]]]; [contradiction|]. subst. apply Hx. now left.
  - apply IH; auto. intros X. apply Hx. now right.
Qed.
Definition RK (s : rep) : Prop := NoDup (keys s) /\ In 0%N (keys s).

Lemma keys_send pf s k c a nb m : rp_get s k = Some c -> keys (fst (rep_ctx_send pf s k c a nb m)) = keys s.
Proof.
  intros H. apply get_in_keys in H. unfold rep_ctx_send. cbv zeta. repeat brk1; runf; kset.
Qed.
Lemma keys_take pf s k c p m r : In k (keys s) -> keys (rep_take pf s k c p m r) = keys s.
Proof. intros H. unfold rep_take. cbv zeta. repeat brk1; runf; kset. Qed.
Lemma keys_recv pf s k c a nb : rp_get s k = Some c -> keys (fst (rep_ctx_recv pf s k c a nb)) = keys s.
Proof.
  intros H. apply get_in_keys in H. unfold rep_ctx_recv.
  destruct (rp_holding s) as [|[p m] rest].
  - destruct nb; [reflexivity|]. destruct (rc_raio c); [reflexivity|]. runf; kset.
  - cbv zeta. cbn [fst]. rewrite keys_take; [|brk1; exact H]. brk1; reflexivity.
Qed.
Lemma keys_close s k c : In k (keys s) -> keys (fst (rep_ctx_close s k c)) = keys s.
Proof.
  intros H. unfold rep_ctx_close. destruct (rc_saio c) as [[sa sm]|]; destruct (rc_raio c); runf; kset.
Qed.
Lemma keys_close_sendq ks : forall s, keys (fst (close_sendq s ks)) = keys s.
Proof.
  induction ks as [|k ks IH]; intros s; cbn [close_sendq]; [reflexivity|].
  destruct (rp_get s k) as [c|] eqn:E; [|apply IH]. destruct (rc_saio c) as [[a m]|]; [|apply IH].
  match goal with |- context [close_sendq ?X ks] => specialize (IH X); destruct (close_sendq X ks) as [s1 outs] end.
  cbn [fst] in *. rewrite IH. apply keys_put. eapply get_in_keys; eauto.
Qed.

Lemma rk_step pf s o : RK s -> rep_ok s o -> RK (fst (rep_step pf s o)).
Proof.
  intros [Hn H0] Hok.
  assert (X : forall s', keys s' = keys s -> RK s'). { intros s' E. unfold RK. rewrite E. split; assumption. }
  destruct o; cbn [rep_step].
  - destruct (rp_get s (ckey c)) eqn:E; [apply X, keys_send; exact E|apply X; reflexivity].
  - destruct (rp_get s (ckey c)) eqn:E; [apply X, keys_recv; exact E|apply X; reflexivity].
  - destruct (find_pctx (saio_is a) (rp_ctxs s)) as [[k c]|] eqn:E1.
    + apply find_pctx_in in E1 as [E1 _]. apply (in_map fst) in E1. apply X. runf; kset.
    + destruct (find_pctx (fun c => opt_is a (rc_raio c)) (rp_ctxs s)) as [[k c]|] eqn:E2; [|apply X; reflexivity].
      apply find_pctx_in in E2 as [E2 _]. apply (in_map fst) in E2. apply X. runf; kset.
  - brk1; apply X; reflexivity.
  - cbv zeta.
    match goal with |- context [close_sendq ?A ?B] => pose proof (keys_close_sendq B A) as E; destruct (close_sendq A B) as [s2 outs] end.
    cbn [fst] in *. apply X. brk1; (etransitivity; [|etransitivity; [exact E|]]); try brk1; reflexivity.
  - cbv zeta. brk1; [apply X; reflexivity|].
    match goal with |- context [first_on p ?L] => destruct (first_on p L) as [k|] end.
    + match goal with |- context [rp_get ?A k] => destruct (rp_get A k) as [c|] eqn:E end; [|apply X; reflexivity].
      apply get_in_keys in E. destruct (rc_saio c) as [[a m]|]; apply X; [|reflexivity]. runf; kset.
    + apply X. brk1; reflexivity.
  - brk1; [apply X; reflexivity|].
    destruct (rep_recv (rp_ttl s) (pm_body m)) as [m'| |]; try (apply X; reflexivity).
    brk1; [apply X; reflexivity|]. destruct (rp_recvq s) as [|k rest]; [apply X; reflexivity|].
    destruct (rp_get s k) as [c|] eqn:E; [|apply X; reflexivity]. destruct (rc_raio c); [|apply X; reflexivity].
    cbn [fst]. apply X. apply get_in_keys in E. rewrite keys_take; [reflexivity|exact E].
  - destruct c; [apply X; reflexivity|]. destruct o; try (apply X; reflexivity); brk1; apply X; reflexivity.
  - cbn [fst]. unfold RK, keys in *. rsimp. rewrite map_app. cbn [map fst]. split.
    + apply nodup_snoc; assumption.
    + apply in_or_app. now left.
  - destruct (rp_get s (c + 1)%N) as [cx|] eqn:E; [|apply X; reflexivity].
    pose proof (keys_close s (c + 1)%N cx (get_in_keys _ _ _ E)) as EK.
    destruct (rep_ctx_close s (c + 1)%N cx) as [s1 outs]. cbn [fst] in *. unfold RK, keys in *. rsimp. rewrite <- EK in Hn, H0. split.
    + apply nodup_filter. exact Hn.
    + apply in_map_iff in H0 as [[k0 c0] [E0 H0]]. cbn [fst] in E0. subst k0. apply in_map_iff. exists (0%N, c0). split; [reflexivity|].
      apply in_assoc_del. split; [exact H0|]. cbn [fst]. lia.
  - destruct (rp_get s 0%N) as [cx|] eqn:E; [|apply X; reflexivity]. apply X. apply keys_close. eapply get_in_keys; eauto.
  - apply X; reflexivity.
Qed.

(* ---- the pipe lists ---- *)
Definition pv (s : rep) := (rp_pipes s, rp_busy s, rp_pclosed s, rp_holding s).
Definition RP (s : rep) : Prop :=
  ~ started s 0%N /\ (forall p, In p (rp_busy s) -> started s p) /\
  (forall p m, In (p, m) (rp_holding s) -> In p (rp_pipes s) /\ pm_hdr m <> []).
Lemma rp_pv s s' : pv s' = pv s -> RP s -> RP s'.
Proof. unfold pv, RP, started. intros E. inversion E as [[E1 E2 E3 E4]]. now rewrite E1, E2, E3, E4. Qed.

Lemma pv_send pf s k c a nb m :
  pv (fst (rep_ctx_send pf s k c a nb m)) = pv s \/
  (has_id (rc_pipe c) (rp_pipes s) = true /\
   pv (fst (rep_ctx_send pf s k c a nb m)) = (rp_pipes s, rp_busy s ++ [rc_pipe c], rp_pclosed s, rp_holding s)).
Proof.
  unfold rep_ctx_send. cbv zeta. unfold pv.
  destruct (pf_saio pf && _); [left; reflexivity|].
  destruct (is_nil (rc_bt c)); [left; brk1; reflexivity|].
  destruct (has_id (rc_pipe c) (rp_pipes (if (k =? 0)%N then _ else _))) eqn:E1; cbn [negb].
  2:{ left. brk1; reflexivity. }
  destruct (has_id (rc_pipe c) (rp_busy (if (k =? 0)%N then _ else _))) eqn:E2; cbn [negb].
  - left. destruct nb; repeat brk1; reflexivity.
  - right. split; [destruct (k =? 0)%N; exact E1|]. repeat brk1; reflexivity.
Qed.
Lemma pv_take pf s k c p m r : pv (rep_take pf s k c p m r) = pv s.
Proof. unfold rep_take. cbv zeta. repeat brk1; reflexivity. Qed.
Lemma pv_close s k c : pv (fst (rep_ctx_close s k c)) = pv s.
Proof. unfold rep_ctx_close. destruct (rc_saio c) as [[sa sm]|]; destruct (rc_raio c); reflexivity. Qed.
Lemma pv_close_sendq ks : forall s, pv (fst (close_sendq s ks)) = pv s.
Proof.
  induction ks as [|k ks IH]; intros s; cbn [close_sendq]; [reflexivity|].
  destruct (rp_get s k) as [c|] eqn:E; [|apply IH]. destruct (rc_saio c) as [[a m]|]; [|apply IH].
  match goal with |- context [close_sendq ?X ks] => specialize (IH X); destruct (close_sendq X ks) as [s1 outs] end.
  cbn [fst] in *. rewrite IH. reflexivity.
Qed.

Lemma rp_step pf s o : RP s -> rep_ok s o -> RP (fst (rep_step pf s o)).
Proof.
  intros HP Hok. pose proof (fun s' E => rp_pv s s' E HP) as X. destruct HP as (Hz & Hb & Hh).
  destruct o; cbn [rep_step].
  - destruct (rp_get s (ckey c)) eqn:E; [|exact (X _ eq_refl)].
    destruct (pv_send pf s (ckey c) p a nb m) as [E1|[E0 E1]]; [exact (X _ E1)|].
    unfold pv in E1. inversion E1 as [[E2 E3 E4 E5]]. unfold RP, started. rewrite E2, E3, E4, E5.
    split; [exact Hz|]. split; [|exact Hh]. intros q Hq. apply in_app_or in Hq as [Hq|[Hq|[]]]; [now apply Hb|].
    subst q. left. now apply has_id_true.
  - destruct (rp_get s (ckey c)) as [cx|] eqn:E; [|exact (X _ eq_refl)]. unfold rep_ctx_recv.
    destruct (rp_holding s) as [|[p m] rest] eqn:EH.
    + destruct nb; [exact (X _ eq_refl)|]. destruct (rc_raio cx); exact (X _ eq_refl).
    + cbv zeta. cbn [fst].
      match goal with |- RP (rep_take pf ?A ?k ?c ?p ?m ?r) => apply (rp_pv A); [apply pv_take|] end.
      unfold RP, started. brk1; rsimp; (split; [exact Hz|]; split; [exact Hb|]; intros q x Hq; apply Hh; now right).
  - destruct (find_pctx (saio_is a) (rp_ctxs s)) as [[k c]|]; [exact (X _ eq_refl)|].
    destruct (find_pctx (fun c => opt_is a (rc_raio c)) (rp_ctxs s)) as [[k c]|]; exact (X _ eq_refl).
  - brk1; [exact (X _ eq_refl)|]. cbn [fst]. destruct Hok as [Hp0 Hps]. unfold RP, started in *. rsimp.
    split; [|split].
    + intros [H|H]; [apply in_app_or in H as [H|[H|[]]]|]; [apply Hz; now left|congruence|apply Hz; now right].
    + intros q Hq. destruct (Hb q Hq); [left; apply in_or_app; now left|now right].
    + intros q x Hq. destruct (Hh q x Hq). split; [apply in_or_app; now left|assumption].
  - cbv zeta.
    match goal with |- context [close_sendq ?A ?B] => pose proof (pv_close_sendq B A) as E; destruct (close_sendq A B) as [s2 outs] end.
    cbn [fst] in *. cbn in Hok.
    assert (E' : pv s2 = (rp_pipes s, rp_busy s, rp_pclosed s ++ [p], assoc_del p (rp_holding s))).
    { rewrite E. brk1; reflexivity. }
    clear E. unfold pv in E'. inversion E' as [[E1 E2 E3 E4]]. unfold RP, started.
    assert (E5 : forall s3, pv s3 = pv s2 -> RP (rp_set_pipes s3 (remove_id p (rp_pipes s3)) (rp_busy s3) (rp_pclosed s3))).
    { intros s3 E3'. unfold pv in E3'. inversion E3' as [[F1 F2 F3 F4]]. unfold RP, started. rsimp. rewrite F1, F2, F3, F4, E1, E2, E3, E4.
      split; [|split].
      - intros [H|H]; [apply in_remove_id in H as [H _]; apply Hz; now left|].
        apply in_app_or in H as [H|[H|[]]]; [apply Hz; now right|congruence].
      - intros q Hq. destruct (N.eq_dec q p) as [->|Hn]; [right; apply in_or_app; right; now left|].
        destruct (Hb q Hq); [left; apply in_remove_id; auto|right; apply in_or_app; now left].
      - intros q x Hq. apply in_assoc_del in Hq as [Hq Hn]. cbn [fst] in Hn. destruct (Hh q x Hq). split; [apply in_remove_id; auto|assumption]. }
    brk1; apply E5; reflexivity.
  - cbv zeta. brk1; [exact (X _ eq_refl)|]. cbn in Hok.
    assert (E5 : forall s3, pv s3 = (rp_pipes s, remove_id p (rp_busy s), rp_pclosed s, rp_holding s) -> RP s3).
    { intros s3 E3'. unfold pv in E3'. inversion E3' as [[F1 F2 F3 F4]]. unfold RP, started. rewrite F1, F2, F3, F4.
      split; [exact Hz|]. split; [|exact Hh]. intros q Hq. apply in_remove_id in Hq as [Hq _]. now apply Hb. }
    match goal with |- context [first_on p ?L] => destruct (first_on p L) as [k|] end.
    + match goal with |- context [rp_get ?A k] => destruct (rp_get A k) as [c|] eqn:E end; [|apply E5; reflexivity].
      destruct (rc_saio c) as [[a m]|]; [|apply E5; reflexivity]. cbn [fst]. unfold RP, started. rsimp.
      split; [exact Hz|]. split; [|exact Hh]. intros q Hq. apply in_app_or in Hq as [Hq|[Hq|[]]].
      * apply in_remove_id in Hq as [Hq _]. now apply Hb.
      * subst q. now apply Hb.
    + apply E5. brk1; reflexivity.
  - brk1; [exact (X _ eq_refl)|]. cbn in Hok.
    destruct (rep_recv (rp_ttl s) (pm_body m)) as [m'| |] eqn:ER; try exact (X _ eq_refl).
    destruct (has_id p (rp_pclosed s)) eqn:EC; [exact (X _ eq_refl)|]. destruct (rp_recvq s) as [|k rest].
    + cbn [fst]. unfold RP, started. rsimp. split; [exact Hz|]. split; [exact Hb|]. intros q x Hq.
      apply in_app_or in Hq as [Hq|[Hq|[]]]; [now apply Hh|]. inversion Hq; subst q x. split.
      * destruct Hok as [H|H]; [exact H|]. apply has_id_false in EC. contradiction.
      * eapply rep_recv_hdr; eauto.
    + destruct (rp_get s k) as [c|] eqn:E; [|exact (X _ eq_refl)]. destruct (rc_raio c); [|exact (X _ eq_refl)].
      cbn [fst]. apply X. rewrite pv_take. reflexivity.
  - destruct c; [exact (X _ eq_refl)|]. destruct o; try exact (X _ eq_refl); brk1; exact (X _ eq_refl).
  - exact (X _ eq_refl).
  - destruct (rp_get s (c + 1)%N) as [cx|] eqn:E; [|exact (X _ eq_refl)].
    pose proof (pv_close s (c + 1)%N cx) as EK. destruct (rep_ctx_close s (c + 1)%N cx) as [s1 outs]. cbn [fst] in *.
    apply X. rewrite <- EK. reflexivity.
  - destruct (rp_get s 0%N) as [cx|] eqn:E; [|exact (X _ eq_refl)]. apply X. apply pv_close.
  - exact (X _ eq_refl).
Qed.

(* ---- the send queues ---- *)
Lemma lookup_assoc_set {A} k k' (v : A) l : lookup k' (assoc_set k v l) = if N.eqb k' k then Some v else lookup k' l.
Proof. destruct (N.eqb_spec k' k); [subst; apply lookup_assoc_set_same|now apply lookup_assoc_set_other]. Qed.
Definition sv (s : rep) (k : N) : bool := match rp_get s k with Some c => saio_pending c | None => false end.
Definition RS (s : rep) : Prop := (forall p k, In (p, k) (rp_sendq s) -> sv s k = true) /\ NoDup (map snd (rp_sendq s)).
Ltac svs := unfold sv, rp_get, saio_pending; cbn [rp_ctxs rp_pipes rp_busy rp_pclosed rp_holding rp_recvq rp_sendq rp_sending rp_readable rp_writable rp_ttl
                   rp_set_ctxs rp_set_pipes rp_set_holding rp_set_recvq rp_set_sendq rp_set_sending rp_set_readable
                   rp_set_writable rp_set_ttl rc_pipe rc_bt rc_saio rc_raio fst snd rp_put]; rewrite ?lookup_assoc_set.

Lemma rs_same s s' : rp_sendq s' = rp_sendq s -> (forall k, sv s k = true -> sv s' k = true) -> RS s -> RS s'.
Proof. intros E H [H1 H2]. unfold RS. rewrite E. split; [|exact H2]. intros p k Hi. apply H. eapply H1; eauto. Qed.
Lemma rs_del s s' k : rp_sendq s' = plist_del k (rp_sendq s) -> (forall k', k' <> k -> sv s k' = true -> sv s' k' = true) -> RS s -> RS s'.
Proof.
  intros E H [H1 H2]. unfold RS. rewrite E. split; [|apply nodup_filter; exact H2].
  intros p k' Hi. apply in_plist_del in Hi as [Hi Hn]. cbn [snd] in Hn. apply H; [exact Hn|]. eapply H1; eauto.
Qed.
Lemma nodup_snd_inj (l : list (pid * N)) p p' k : NoDup (map snd l) -> In (p, k) l -> In (p', k) l -> p = p'.
Proof.
  induction l as [|[q k'] l IH]; cbn [map snd]; [intros _ []|]. intros Hn [E1|H1] [E2|H2].
  - congruence.
  - inversion E1; subst. inversion Hn; subst. exfalso. apply (in_map snd) in H2. auto.
  - inversion E2; subst. inversion Hn; subst. exfalso. apply (in_map snd) in H1. auto.
  - inversion Hn; subst. auto.
Qed.

Ltac svleaf Hg ES := svs; unfold rp_get in Hg;
  match goal with |- context [N.eqb ?k' ?k] =>
    destruct (N.eqb_spec k' k); [subst; rewrite ?Hg; cbv iota beta; rsimp; rewrite ?ES; try reflexivity|try reflexivity] end.
Lemma sv_send pf s k c a nb m : pf_saio pf = true -> rp_get s k = Some c ->
  let s' := fst (rep_ctx_send pf s k c a nb m) in
  (rp_sendq s' = rp_sendq s /\ forall k', sv s' k' = sv s k') \/
  (sv s k = false /\ rp_sendq s' = rp_sendq s ++ [(rc_pipe c, k)] /\ forall k', sv s' k' = if N.eqb k' k then true else sv s k').
Proof.
  intros Hf Hg. cbv zeta. unfold rep_ctx_send. rewrite Hf. cbn [andb]. cbv zeta.
  destruct (rc_saio c) as [[sa sm]|] eqn:ES; [left; split; reflexivity|].
  destruct (is_nil (rc_bt c)). { left. split; [brk1; reflexivity|]. intros k'. brk1; svleaf Hg ES. }
  destruct (has_id (rc_pipe c) (rp_pipes (if (k =? 0)%N then _ else _))); cbn [negb].
  2:{ left. split; [brk1; reflexivity|]. intros k'. brk1; svleaf Hg ES. }
  destruct (has_id (rc_pipe c) (rp_busy (if (k =? 0)%N then _ else _))); cbn [negb].
  - destruct nb.
    + left. split; [repeat brk1; reflexivity|]. intros k'. repeat brk1; svleaf Hg ES.
    + right. split; [|split].
      * unfold sv. rewrite Hg. unfold saio_pending. now rewrite ES.
      * cbn [fst]. brk1; reflexivity.
      * intros k'. cbn [fst]. brk1; svleaf Hg ES.
  - left. split; [repeat brk1; reflexivity|]. intros k'. repeat brk1; svleaf Hg ES.
Qed.
Lemma sv_take pf s k c p m r : rp_get s k = Some c ->
  rp_sendq (rep_take pf s k c p m r) = rp_sendq s /\ forall k', sv (rep_take pf s k c p m r) k' = sv s k'.
Proof.
  intros Hg. unfold rep_take. cbv zeta. split; [repeat brk1; reflexivity|]. intros k'.
  destruct (rc_saio c) eqn:ES; repeat brk1; svleaf Hg ES.
Qed.
Lemma sv_close s k c : rp_get s k = Some c ->
  let s' := fst (rep_ctx_close s k c) in
  rp_sendq s' = (if saio_pending c then plist_del k (rp_sendq s) else rp_sendq s) /\
  forall k', sv s' k' = if N.eqb k' k then false else sv s k'.
Proof.
  intros Hg. cbv zeta. unfold rep_ctx_close, saio_pending.
  destruct (rc_saio c) as [[sa sm]|] eqn:ES; destruct (rc_raio c); cbn [fst]; (split; [reflexivity|]); intros k'; svs;
    destruct (k' =? k)%N; reflexivity.
Qed.
Lemma sv_close_sendq ks : forall s,
  rp_sendq (fst (close_sendq s ks)) = rp_sendq s /\ forall k', ~ In k' ks -> sv (fst (close_sendq s ks)) k' = sv s k'.
Proof.
  induction ks as [|k ks IH]; intros s; cbn [close_sendq]; [split; reflexivity|].
  destruct (rp_get s k) as [c|] eqn:E.
  2:{ destruct (IH s) as [I1 I2]. split; [exact I1|]. intros k' Hn. apply I2. intros X. apply Hn. now right. }
  destruct (rc_saio c) as [[a m]|] eqn:ES.
  2:{ destruct (IH s) as [I1 I2]. split; [exact I1|]. intros k' Hn. apply I2. intros X. apply Hn. now right. }
  match goal with |- context [close_sendq ?X ks] => specialize (IH X); destruct (close_sendq X ks) as [s1 outs] end.
  cbn [fst] in *. destruct IH as [I1 I2]. split; [rewrite I1; reflexivity|]. intros k' Hn.
  rewrite I2 by (intros X; apply Hn; now right). svs. destruct (N.eqb_spec k' k); [|reflexivity]. subst. exfalso. apply Hn. now left.
Qed.
Lemma rs_gen s s' : RS s -> NoDup (map snd (rp_sendq s')) ->
  (forall p k, In (p, k) (rp_sendq s') -> In (p, k) (rp_sendq s) /\ (sv s k = true -> sv s' k = true)) -> RS s'.
Proof. intros [H1 H2] Hn H. split; [|exact Hn]. intros p k Hi. destruct (H p k Hi) as [A B]. apply B. eapply H1; eauto. Qed.

Lemma rs_step pf s o : pf_saio pf = true -> RK s -> RS s -> rep_ok s o -> o <> PSockClose -> RS (fst (rep_step pf s o)).
Proof.
  intros Hf [Hnd Hk0] HS Hok Hnc. pose proof HS as [HS1 HS2].
  assert (X : forall s', rp_sendq s' = rp_sendq s -> (forall k, sv s' k = sv s k) -> RS s').
  { intros s' E1 E2. apply (rs_same s); auto. intros k. now rewrite E2. }
  destruct o; cbn [rep_step]; try (apply X; reflexivity).
  - destruct (rp_get s (ckey c)) as [cx|] eqn:E; [|apply X; reflexivity].
    destruct (sv_send pf s (ckey c) cx a nb m Hf E) as [[E1 E2]|[E0 [E1 E2]]]; [apply X; assumption|].
    split.
    + intros p k Hi. rewrite E1 in Hi. rewrite E2. destruct (N.eqb_spec k (ckey c)); [reflexivity|].
      apply in_app_or in Hi as [Hi|[Hi|[]]]; [eapply HS1; eauto|]. inversion Hi; subst. contradiction.
    + rewrite E1, map_app. cbn [map snd]. apply nodup_snoc; [exact HS2|]. intros Hi.
      apply in_map_iff in Hi as [[p k] [Ek Hi]]. cbn [snd] in Ek. subst k. rewrite (HS1 _ _ Hi) in E0. discriminate.
  - destruct (rp_get s (ckey c)) as [cx|] eqn:E; [|apply X; reflexivity]. unfold rep_ctx_recv.
    destruct (rp_holding s) as [|[p m] rest] eqn:EH.
    + destruct nb; [apply X; reflexivity|]. destruct (rc_raio cx); [apply X; reflexivity|]. cbn [fst].
      apply X; [reflexivity|]. intros k. destruct (rc_saio cx) eqn:ES; svleaf E ES.
    + cbv zeta. cbn [fst].
      match goal with |- RS (rep_take pf ?A ?k ?c ?p ?m ?r) => destruct (sv_take pf A k c p m r) as [E1 E2] end.
      { brk1; exact E. }
      apply X; [rewrite E1; brk1; reflexivity|]. intros k. rewrite E2. brk1; reflexivity.
  - destruct (find_pctx (saio_is a) (rp_ctxs s)) as [[k c]|] eqn:E1.
    + apply find_pctx_in in E1 as [E1 _]. apply (nodup_lookup _ _ _ Hnd) in E1. cbn [fst].
      apply (rs_del s _ k); [reflexivity| |exact HS]. intros k' Hn Hs. rewrite <- Hs. svs.
      destruct (N.eqb_spec k' k); [contradiction|reflexivity].
    + destruct (find_pctx (fun c => opt_is a (rc_raio c)) (rp_ctxs s)) as [[k c]|] eqn:E2; [|apply X; reflexivity].
      apply find_pctx_in in E2 as [E2 _]. apply (nodup_lookup _ _ _ Hnd) in E2. cbn [fst].
      apply X; [reflexivity|]. intros k'. change (lookup k (rp_ctxs s) = Some c) with (rp_get s k = Some c) in E2.
      destruct (rc_saio c) eqn:ES; svleaf E2 ES.
  - brk1; apply X; reflexivity.
  - cbv zeta.
    match goal with |- context [if ?b then rp_set_readable _ false else _] => destruct b end.
    all: match goal with |- context [close_sendq ?A ?B] => pose proof (sv_close_sendq B A) as [E1 E2]; destruct (close_sendq A B) as [s2 outs] end.
    all: cbn [fst] in *; rsimp.
    all: apply (rs_gen s); [exact HS| |].
    all: try (brk1; rsimp; rewrite E1; apply nodup_filter; exact HS2).
    all: intros q k Hi.
    all: assert (Hi' : In (q, k) (assoc_del p (rp_sendq s))) by (revert Hi; brk1; rsimp; rewrite E1; auto).
    all: apply in_assoc_del in Hi' as [Hi' Hq]; cbn [fst] in Hq; split; [exact Hi'|].
    all: assert (Hk : ~ In k (map snd (filter (fun x : N * N => (fst x =? p)%N) (rp_sendq s)))).
    all: try (intros Hx; apply in_map_iff in Hx as [[q' k'] [Ek Hx]]; cbn [snd] in Ek; subst k';
              apply filter_In in Hx as [Hx Hp]; cbn [fst] in Hp; apply N.eqb_eq in Hp; subst q';
              apply Hq; eapply nodup_snd_inj; eauto).
    all: intros Hs; rewrite <- Hs; specialize (E2 k Hk); brk1; (etransitivity; [|exact E2]); reflexivity.
  - cbv zeta. brk1; [apply X; reflexivity|]. rsimp.
    destruct (first_on p (rp_sendq s)) as [k|]; [|apply X; brk1; reflexivity].
    match goal with |- context [rp_get ?A k] => change (rp_get A k) with (rp_get s k) end.
    destruct (rp_get s k) as [c|] eqn:E.
    2:{ cbn [fst]. apply (rs_del s _ k); [reflexivity| |exact HS]. intros k' _ Hs. exact Hs. }
    destruct (rc_saio c) as [[a m]|] eqn:ES; cbn [fst].
    + apply (rs_del s _ k); [reflexivity| |exact HS]. intros k' Hn Hs. rewrite <- Hs. svs.
      destruct (N.eqb_spec k' k); [contradiction|reflexivity].
    + apply (rs_del s _ k); [reflexivity| |exact HS]. intros k' _ Hs. exact Hs.
  - brk1; [apply X; reflexivity|].
    destruct (rep_recv (rp_ttl s) (pm_body m)) as [m'| |] eqn:ER; try (apply X; reflexivity).
    brk1; [apply X; reflexivity|]. destruct (rp_recvq s) as [|k rest]; [apply X; reflexivity|].
    destruct (rp_get s k) as [c|] eqn:E; [|apply X; reflexivity]. destruct (rc_raio c); [|apply X; reflexivity].
    cbn [fst].
    match goal with |- RS (rep_take pf ?A ?k ?c ?p ?m ?r) => destruct (sv_take pf A k c p m r E) as [E1 E2] end.
    apply X; [rewrite E1; reflexivity|]. intros k'. rewrite E2. reflexivity.
  - destruct c; [apply X; reflexivity|]. destruct o; try (apply X; reflexivity); brk1; apply X; reflexivity.
  - cbn [fst]. apply (rs_same s); [reflexivity| |exact HS]. intros k. unfold sv, rp_get. rsimp.
    destruct (lookup k (rp_ctxs s)) as [cx|] eqn:E; [|discriminate]. now rewrite (lookup_app_some _ _ _ _ E).
  - destruct (rp_get s (c + 1)%N) as [cx|] eqn:E; [|apply X; reflexivity].
    destruct (sv_close s (c + 1)%N cx E) as [E1 E2]. destruct (rep_ctx_close s (c + 1)%N cx) as [s1 outs]. cbn [fst] in *.
    assert (E3 : forall k', k' <> (c + 1)%N -> sv (rp_set_ctxs s1 (assoc_del (c + 1)%N (rp_ctxs s1))) k' = sv s k').
    { intros k' Hn. specialize (E2 k'). destruct (N.eqb_spec k' (c + 1)%N); [contradiction|]. rewrite <- E2.
      unfold sv, rp_get. rsimp. now rewrite lookup_assoc_del_other. }
    destruct (saio_pending cx) eqn:EP.
    + apply (rs_del s _ (c + 1)%N); [exact E1| |exact HS]. intros k' Hn Hs. now rewrite E3.
    + apply (rs_gen s); [exact HS|rsimp; rewrite E1; exact HS2|]. intros q k Hi. rsimp. rewrite E1 in Hi. split; [exact Hi|].
      intros Hs. rewrite E3; [exact Hs|]. intros ->. unfold sv in Hs. rewrite E, EP in Hs. discriminate.
  - contradiction.
Qed.


(* ---- the socket's own context and the send descriptor ---- *)
Definition c0sig (s : rep) : option (N * list N) :=
  match rp_get s 0%N with Some c => Some (rc_pipe c, rc_bt c) | None => None end.
Definition wexp2 (s : rep) (q : N) (bt : list N) : bool :=
  negb (is_nil bt) && (negb (has_id q (rp_pipes s)) || negb (has_id q (rp_busy s))).
Definition RW (s : rep) : Prop :=
  forall q bt, c0sig s = Some (q, bt) ->
    (bt = [] -> q = 0%N) /\ (bt <> [] -> started s q) /\ rp_writable s = wexp2 s q bt.
Definition wv (s : rep) := (c0sig s, rp_pipes s, rp_busy s, rp_pclosed s, rp_writable s).
Lemma rw_wv s s' : wv s' = wv s -> RW s -> RW s'.
Proof. unfold wv, RW, started, wexp2. intros E. inversion E as [[E1 E2 E3 E4 E5]]. now rewrite E1, E2, E3, E4, E5. Qed.
Ltac wvs := unfold wv, c0sig, master_pipe, rp_get; cbn [rp_ctxs rp_pipes rp_busy rp_pclosed rp_holding rp_recvq rp_sendq rp_sending rp_readable rp_writable rp_ttl
                   rp_set_ctxs rp_set_pipes rp_set_holding rp_set_recvq rp_set_sendq rp_set_sending rp_set_readable
                   rp_set_writable rp_set_ttl rc_pipe rc_bt rc_saio rc_raio fst snd rp_put]; rewrite ?lookup_assoc_set.

Lemma rw_take pf s k c p m r : pf_wbusy pf = true -> RW s -> pm_hdr m <> [] -> In p (rp_pipes s) -> RW (rep_take pf s k c p m r).
Proof.
  intros Hf HW Hh Hp. unfold rep_take. cbv zeta. rewrite Hf.
  destruct (N.eqb_spec k 0).
  - subst k. apply has_id_true in Hp.
    destruct (has_id p (rp_busy s)) eqn:EB; cbn [negb]; intros q bt; unfold started, wexp2; wvs; cbn [N.eqb]; intros E; inversion E; subst q bt;
      (split; [intros; contradiction|]); (split; [intros _; left; now apply has_id_true|]); rewrite Hp, EB; destruct (pm_hdr m); [contradiction|reflexivity|contradiction|reflexivity].
  - apply (rw_wv s); [|exact HW]. wvs. destruct (N.eqb_spec 0 k); [congruence|reflexivity].
Qed.
Lemma wv_close s k c : rp_get s k = Some c -> wv (fst (rep_ctx_close s k c)) = wv s.
Proof.
  intros Hg. unfold rp_get in Hg. unfold rep_ctx_close. destruct (rc_saio c) as [[sa sm]|]; destruct (rc_raio c); cbn [fst]; wvs;
    (destruct (N.eqb_spec 0 k); [subst k; rewrite Hg; reflexivity|reflexivity]).
Qed.
Lemma wv_close_sendq ks : forall s, wv (fst (close_sendq s ks)) = wv s.
Proof.
  induction ks as [|k ks IH]; intros s; cbn [close_sendq]; [reflexivity|].
  destruct (rp_get s k) as [c|] eqn:E; [|apply IH]. destruct (rc_saio c) as [[a m]|]; [|apply IH].
  match goal with |- context [close_sendq ?X ks] => specialize (IH X); destruct (close_sendq X ks) as [s1 outs] end.
  cbn [fst] in *. rewrite IH. unfold rp_get in E. wvs. destruct (N.eqb_spec 0 k); [subst k; rewrite E; reflexivity|reflexivity].
Qed.
Ltac rwpre := let E := fresh "E" in intros ? ? E; unfold started, wexp2; revert E; wvs; rewrite ?N.eqb_refl.
Ltac rwgoal := let E := fresh "E" in rwpre; intros E; inversion E; subst; clear E.
Ltac putsimp := rsimp; repeat match goal with
  | |- context [rp_pipes (rp_put ?s ?k ?c)] => change (rp_pipes (rp_put s k c)) with (rp_pipes s)
  | |- context [rp_busy (rp_put ?s ?k ?c)] => change (rp_busy (rp_put s k c)) with (rp_busy s)
  end.
Lemma rw_send pf s k c a nb m : pf_wbusy pf = true -> In 0%N (keys s) -> RW s -> rp_get s k = Some c ->
  RW (fst (rep_ctx_send pf s k c a nb m)).
Proof.
  intros Hf H0 HW Hg. unfold rep_ctx_send. cbv zeta. rewrite Hf. cbn [andb].
  destruct (pf_saio pf && _); [exact HW|].
  destruct (N.eqb_spec k 0).
  - subst k. assert (E0 : c0sig s = Some (rc_pipe c, rc_bt c)) by (unfold c0sig; now rewrite Hg).
    destruct (HW _ _ E0) as (W1 & W2 & W3). unfold started, wexp2 in *.
    destruct (rc_bt c) as [|b0 bt0] eqn:EB; cbn [is_nil].
    { cbn [fst]. rwgoal. repeat split; try reflexivity; intros; contradiction. }
    putsimp. destruct (has_id (rc_pipe c) (rp_pipes s)) eqn:EP; cbn [negb].
    2:{ cbn [fst]. rwgoal. repeat split; try reflexivity; intros; contradiction. }
    destruct (has_id (rc_pipe c) (rp_busy s)) eqn:EBU; cbn [negb].
    + destruct nb; [destruct (pf_nbsend pf)|]; cbn [fst]; rwgoal.
      * rewrite EB. split; [discriminate|]. split; [exact W2|]. now rewrite EP, EBU.
      * repeat split; try reflexivity; intros; contradiction.
      * repeat split; try reflexivity; intros; contradiction.
    + brk1; cbn [fst]; rwgoal; repeat split; try reflexivity; intros; contradiction.
  - destruct (rp_get s 0%N) as [c0|] eqn:G0; [|exfalso; revert G0; apply lookup_some_key; exact H0].
    assert (E0 : c0sig s = Some (rc_pipe c0, rc_bt c0)) by (unfold c0sig; now rewrite G0).
    destruct (HW _ _ E0) as (W1 & W2 & W3). unfold started, wexp2 in *.
    assert (X : forall s', wv s' = wv s -> RW s') by (intros s' E; now apply (rw_wv s)).
    assert (N0 : (0 =? k)%N = false) by (apply N.eqb_neq; congruence).
    destruct (is_nil (rc_bt c)). { apply X. cbn [fst]. wvs. now rewrite N0. }
    putsimp. destruct (has_id (rc_pipe c) (rp_pipes s)) eqn:EP; cbn [negb].
    2:{ apply X. cbn [fst]. wvs. now rewrite N0. }
    destruct (has_id (rc_pipe c) (rp_busy s)) eqn:EBU; cbn [negb].
    + apply X. destruct nb; [destruct (pf_nbsend pf)|]; cbn [fst]; wvs; now rewrite ?N0.
    + unfold rp_get in G0. assert (EM : master_pipe (rp_put s k (mkPctx 0 [] (rc_saio c) (rc_raio c))) = rc_pipe c0).
      { wvs. now rewrite N0, G0. }
      rewrite EM. cbn [fst]. destruct (N.eqb_spec (rc_pipe c) (rc_pipe c0)) as [Eq|Nq]; rwpre; rewrite N0, G0; intros E; inversion E; subst.
      * split; [exact W1|]. split; [exact W2|]. rewrite <- Eq, has_id_app, EP, has_id_single, N.eqb_refl, orb_true_r. cbn. now rewrite andb_false_r.
      * split; [exact W1|]. split; [exact W2|]. rewrite W3, has_id_app, has_id_single.
        destruct (N.eqb_spec (rc_pipe c0) (rc_pipe c)); [congruence|]. now rewrite orb_false_r.
Qed.
Lemma has_id_snoc_other q l p : q <> p -> has_id q (l ++ [p]) = has_id q l.
Proof. intros H. rewrite has_id_app, has_id_single. destruct (N.eqb_spec q p); [contradiction|apply orb_false_r]. Qed.

Lemma has_id_readd q p l : In p l -> has_id q (remove_id p l ++ [p]) = has_id q l.
Proof.
  intros H. rewrite has_id_app, has_id_single. destruct (N.eqb_spec q p) as [->|Hn].
  - rewrite orb_true_r. symmetry. now apply has_id_true.
  - rewrite orb_false_r. now apply has_id_remove_other.
Qed.
Lemma c0sig_master s q bt : c0sig s = Some (q, bt) -> master_pipe s = q.
Proof. unfold c0sig, master_pipe. destruct (rp_get s 0%N); intros E; inversion E; reflexivity. Qed.
Lemma rw_step pf s o : pf_wbusy pf = true -> RK s -> RP s -> RS s -> RW s -> rep_ok s o -> o <> PSockClose ->
  RW (fst (rep_step pf s o)).
Proof.
  intros Hf [Hnd Hk0] (Hz & Hb & Hh) [HS1 HS2] HW Hok Hnc.
  assert (X : forall s', wv s' = wv s -> RW s') by (intros s' E; now apply (rw_wv s)).
  destruct (rp_get s 0%N) as [c0|] eqn:G0; [|exfalso; revert G0; apply lookup_some_key; exact Hk0].
  assert (E0 : c0sig s = Some (rc_pipe c0, rc_bt c0)) by (unfold c0sig; now rewrite G0).
  destruct (HW _ _ E0) as (W1 & W2 & W3).
  destruct o; cbn [rep_step]; try (apply X; reflexivity).
  - destruct (rp_get s (ckey c)) as [cx|] eqn:E; [|apply X; reflexivity]. apply rw_send; auto.
  - destruct (rp_get s (ckey c)) as [cx|] eqn:E; [|apply X; reflexivity]. unfold rep_ctx_recv.
    destruct (rp_holding s) as [|[p m] rest] eqn:EH.
    + destruct nb; [apply X; reflexivity|]. destruct (rc_raio cx); [apply X; reflexivity|]. cbn [fst].
      apply X. unfold rp_get in E. wvs. destruct (N.eqb_spec 0 (ckey c)) as [Ek|Ek]; [rewrite <- Ek in E; rewrite E|]; reflexivity.
    + cbv zeta. cbn [fst]. destruct (Hh p m (or_introl eq_refl)) as [Hp Hm].
      apply rw_take; auto; [apply (rw_wv s); [|exact HW]; brk1; reflexivity|brk1; exact Hp].
  - destruct (find_pctx (saio_is a) (rp_ctxs s)) as [[k c]|] eqn:E1.
    + apply find_pctx_in in E1 as [E1 _]. apply (nodup_lookup _ _ _ Hnd) in E1. cbn [fst]. apply X. wvs.
      destruct (N.eqb_spec 0 k) as [Ek|Ek]; [rewrite <- Ek in E1; rewrite E1|]; reflexivity.
    + destruct (find_pctx (fun c => opt_is a (rc_raio c)) (rp_ctxs s)) as [[k c]|] eqn:E2; [|apply X; reflexivity].
      apply find_pctx_in in E2 as [E2 _]. apply (nodup_lookup _ _ _ Hnd) in E2. cbn [fst]. apply X. wvs.
      destruct (N.eqb_spec 0 k) as [Ek|Ek]; [rewrite <- Ek in E2; rewrite E2|]; reflexivity.
  - brk1; [apply X; reflexivity|]. cbn [fst]. cbn in Hok. destruct Hok as [Hp0 Hps]. intros q bt E. change (c0sig s = Some (q, bt)) in E.
    rewrite E0 in E. inversion E; subst q bt. unfold started, wexp2 in *. rsimp.
    split; [exact W1|]. split.
    + intros Hn. destruct (W2 Hn); [left; apply in_or_app; now left|now right].
    + rewrite W3. destruct (rc_bt c0) as [|b0 bt0]; [reflexivity|]. rewrite has_id_snoc_other; [reflexivity|].
      intros Eq. apply Hps. rewrite <- Eq. apply W2. discriminate.
  - cbv zeta. cbn in Hok.
    match goal with |- context [if ?b then rp_set_readable _ false else _] => destruct b end.
    all: match goal with |- context [close_sendq ?A ?B] => pose proof (wv_close_sendq B A) as E; destruct (close_sendq A B) as [s2 outs] end.
    all: cbn [fst] in *.
    all: assert (E' : wv s2 = (c0sig s, rp_pipes s, rp_busy s, rp_pclosed s ++ [p], rp_writable s)) by (rewrite E; reflexivity).
    all: clear E; unfold wv in E'; inversion E' as [[E1 E2 E3 E4 E5]].
    all: rewrite (c0sig_master s2 (rc_pipe c0) (rc_bt c0)) by (rewrite E1; exact E0).
    all: destruct (N.eqb_spec p (rc_pipe c0)) as [Eq|Nq]; intros q bt Eq'.
    all: assert (Eq2 : c0sig s2 = Some (q, bt)) by exact Eq'; rewrite E1, E0 in Eq2; inversion Eq2; subst q bt.
    all: unfold started, wexp2 in *; rsimp; rewrite E2, E3, E4; try rewrite E5.
    all: split; [exact W1|]; split.
    all: try (intros Hn; destruct (N.eq_dec (rc_pipe c0) p) as [Ep|Ep];
              [right; apply in_or_app; right; left; congruence|
               destruct (W2 Hn); [left; apply in_remove_id; auto|right; apply in_or_app; now left]]).
    all: try (rewrite <- Eq, has_id_remove_same; destruct (rc_bt c0); [exfalso; apply Hok; rewrite Eq; now apply W1|reflexivity]).
    all: rewrite W3, has_id_remove_other by congruence; reflexivity.
  - cbv zeta. cbn in Hok. brk1; [apply X; reflexivity|]. rsimp.
    destruct (first_on p (rp_sendq s)) as [k|] eqn:EF.
    + match goal with |- context [rp_get ?A k] => change (rp_get A k) with (rp_get s k) end.
      apply first_on_in in EF. apply HS1 in EF. unfold sv in EF.
      destruct (rp_get s k) as [c|] eqn:E; [|discriminate].
      unfold saio_pending in EF. destruct (rc_saio c) as [[a m]|] eqn:ES; [|discriminate]. cbn [fst]. unfold rp_get in E, G0.
      rwpre. destruct (N.eqb_spec 0 k) as [Ek|Ek]; [rewrite <- Ek in E; rewrite E in G0; inversion G0; subst c0|rewrite G0];
        intros Eq; inversion Eq; subst; unfold started, wexp2 in *; (split; [exact W1|]); (split; [exact W2|]);
        rewrite W3, has_id_readd by exact Hok; reflexivity.
    + change (master_pipe (rp_set_pipes (rp_set_sending s (assoc_del p (rp_sending s))) (rp_pipes s) (remove_id p (rp_busy s)) (rp_pclosed s)))
        with (master_pipe s).
      rewrite (c0sig_master s _ _ E0). cbn [fst].
      destruct (N.eqb_spec p (rc_pipe c0)) as [Eq|Nq]; intros q bt Eq'.
      * assert (Eq2 : c0sig s = Some (q, bt)) by exact Eq'. rewrite E0 in Eq2; inversion Eq2; subst q bt.
        unfold started, wexp2 in *; rsimp. split; [exact W1|]. split; [exact W2|].
        rewrite <- Eq, has_id_remove_same. destruct (rc_bt c0); [|cbn; now rewrite orb_true_r].
        exfalso. apply Hz. rewrite <- (W1 eq_refl), <- Eq. now apply Hb.
      * assert (Eq2 : c0sig s = Some (q, bt)) by exact Eq'. rewrite E0 in Eq2; inversion Eq2; subst q bt.
        unfold started, wexp2 in *; rsimp. split; [exact W1|]. split; [exact W2|].
        rewrite W3, has_id_remove_other by congruence. reflexivity.
  - brk1; [apply X; reflexivity|]. cbn in Hok.
    destruct (rep_recv (rp_ttl s) (pm_body m)) as [m'| |] eqn:ER; try (apply X; reflexivity).
    destruct (has_id p (rp_pclosed s)) eqn:EC; [apply X; reflexivity|]. destruct (rp_recvq s) as [|k rest]; [apply X; reflexivity|].
    destruct (rp_get s k) as [c|] eqn:E; [|apply X; reflexivity]. destruct (rc_raio c); [|apply X; reflexivity].
    cbn [fst]. apply rw_take; auto.
    + eapply rep_recv_hdr; eauto.
    + destruct Hok as [H|H]; [exact H|]. apply has_id_false in EC. contradiction.
  - destruct c; [apply X; reflexivity|]. destruct o; try (apply X; reflexivity); brk1; apply X; reflexivity.
  - cbn [fst]. apply X. unfold rp_get in G0. wvs. now rewrite (lookup_app_some _ _ _ _ G0), G0.
  - destruct (rp_get s (c + 1)%N) as [cx|] eqn:E; [|apply X; reflexivity].
    pose proof (wv_close s (c + 1)%N cx E) as EK. destruct (rep_ctx_close s (c + 1)%N cx) as [s1 outs]. cbn [fst] in *.
    apply X. rewrite <- EK. wvs. rewrite lookup_assoc_del_other by lia. reflexivity.
  - contradiction.
Qed.



(* ---- the pack ---- *)
Definition rep_inv (s : rep) : Prop := RK s /\ RP s /\ RS s /\ RW s /\ rep_rinv s.
Definition M_rep (pf : pfix) : pmodel := mkPM rep rep_init (rep_step pf) rep_poll rep_ok rep_inv rep_busy (fun _ => true).

Lemma pf_all pf : pf_rclose pf = true -> pf_nbsend pf = true -> pf_saio pf = true -> pf_wbusy pf = true -> pf = pf_repaired.
Proof. destruct pf; cbn; intros; subst; reflexivity. Qed.

Lemma rep_inv_init pf : pm_inv (M_rep pf) (pm_init (M_rep pf)).
Proof.
  unM M_rep. unfold rep_inv. split; [|split; [|split; [|split]]].
  - split; [repeat constructor; intros []|now left].
  - split; [intros [[]|[]]|]. split; [intros p []|intros p m []].
  - split; [intros p k []|constructor].
  - intros q bt E. inversion E; subst. repeat split; intros; try contradiction. 
  - exact rep_rinv_init.
Qed.
Lemma rep_inv_step pf s o : pf_rclose pf = true -> pf_saio pf = true -> pf_wbusy pf = true ->
  pm_inv (M_rep pf) s -> pm_ok (M_rep pf) s o -> o <> PSockClose -> pm_inv (M_rep pf) (fst (pm_step (M_rep pf) s o)).
Proof.
  intros F1 F3 F4. unM M_rep. intros (HK & HP & HS & HW & HR) Hok Hnc. split; [|split; [|split; [|split]]].
  - now apply rk_step.
  - now apply rp_step.
  - now apply rs_step.
  - now apply rw_step.
  - now apply rep_rinv_step.
Qed.

(* ---- the mirror ---- *)
Lemma rep_c0 s : RK s -> exists c0, rp_get s 0%N = Some c0.
Proof. intros [_ H]. destruct (rp_get s 0%N) eqn:E; [eauto|]. exfalso. revert E. now apply lookup_some_key. Qed.

Lemma rep_mirror_r_exact pf s : pm_inv (M_rep pf) s -> mirror_r_exact_at (M_rep pf) s.
Proof.
  intros (HK & _ & _ & _ & HR) a _. unM M_rep. unfold rv_recv. unM M_rep. cbn [rep_poll poll_r rep_step ckey].
  destruct (rep_c0 s HK) as [c0 E0]. rewrite E0. unfold rep_ctx_recv. rewrite HR.
  destruct (rp_holding s) as [|[p m] rest]; cbn [is_nil negb snd].
  - rewrite result_of_single. errs. split; intros X; congruence.
  - rewrite result_of_skip by reflexivity. rewrite result_of_self. split; auto.
Qed.
Lemma rep_mirror_w pf s : pm_inv (M_rep pf) s -> mirror_w_at (M_rep pf) s.
Proof.
  intros (HK & _ & _ & HW & _) a m _ _. unM M_rep. unfold rv_send. unM M_rep. cbn [rep_poll poll_w rep_step ckey].
  destruct (rep_c0 s HK) as [c0 E0]. rewrite E0.
  assert (E1 : c0sig s = Some (rc_pipe c0, rc_bt c0)) by (unfold c0sig; now rewrite E0).
  destruct (HW _ _ E1) as (_ & _ & W3). rewrite W3. unfold wexp2, rep_ctx_send. cbv zeta. rewrite N.eqb_refl.
  destruct (pf_saio pf && _).
  { cbn [snd]. rewrite result_of_single. errs. split; intros; congruence. }
  destruct (rc_bt c0) as [|b0 bt0]; cbn [is_nil negb andb].
  { cbn [snd]. rewrite result_of_single. errs. split; intros; congruence. }
  putsimp. destruct (has_id (rc_pipe c0) (rp_pipes s)); cbn [negb orb].
  { destruct (has_id (rc_pipe c0) (rp_busy s)); cbn [negb].
    - destruct (pf_nbsend pf); cbn [snd]; rewrite result_of_single; errs; split; intros; congruence.
    - cbn [snd]. rewrite result_of_skip by reflexivity. rewrite result_of_self. split; auto. intros _. errs. congruence. }
  cbn [snd]. rewrite result_of_self. split; auto. intros _. errs. congruence.
Qed.

(* ---- the NONBLOCK clauses ---- *)
Ltac bsimp := unfold rep_busy; cbn [rp_ctxs rp_pipes rp_busy rp_pclosed rp_holding rp_recvq rp_sendq rp_sending rp_readable rp_writable rp_ttl
                   rp_set_ctxs rp_set_pipes rp_set_holding rp_set_recvq rp_set_sendq rp_set_sending rp_set_readable
                   rp_set_writable rp_set_ttl fst snd rp_put].
Lemma busy_assoc_set_in a k c' l :
  In a (caios c') -> In a (flat_map (fun x : N * pctx => caios (snd x)) (assoc_set k c' l)).
Proof.
  intros H. induction l as [|[k' v'] l IH]; cbn [assoc_set flat_map snd].
  - rewrite app_nil_r. exact H.
  - destruct (N.eqb k' k); cbn [flat_map snd]; apply in_or_app; [now left|now right].
Qed.
Lemma busy_send_nb pf s k c a m x : rp_get s k = Some c ->
  In x (rep_busy (fst (rep_ctx_send pf s k c a true m))) -> In x (rep_busy s).
Proof.
  intros Hg. assert (HC : forall c', caios c' = caios c -> In x (caios c') -> In x (rep_busy s)).
  { intros c' E H. rewrite E in H. eapply busy_in; eauto. }
  unfold rep_ctx_send. cbv zeta. repeat brk1; cbn [fst]; bsimp; intros Hx; try exact Hx.
  all: repeat (apply busy_assoc_set in Hx; destruct Hx as [Hx|Hx]; [revert Hx; apply HC; reflexivity|]); exact Hx.
Qed.
Lemma rep_send_nb_compl pf s k c a m :
  exists rv, compl_of a (snd (rep_ctx_send pf s k c a true m)) = [(rv, None)] /\
    (rv <> E_OK -> forall m2, rep_ctx_send pf s k c a true m2 = rep_ctx_send pf s k c a true m).
Proof.
  unfold rep_ctx_send. cbv zeta. repeat brk1; cbn [snd].
  all: try (exists E_OK; split; [rewrite compl_of_cons, compl_of_self; reflexivity|intros X; now elim X]).
  all: try (exists E_OK; split; [rewrite compl_of_cons, compl_of_self; reflexivity|intros X; now elim X]).
  all: eexists; (split; [apply compl_of_self|]); intros _ m2; reflexivity.
Qed.
Lemma rep_nb_send_immediate pf s : nb_send_immediate_at (M_rep pf) s.
Proof.
  intros c a m s' outs Hok H. unM M_rep. cbn [rep_step rep_ok] in *.
  destruct (rp_get s (ckey c)) as [cx|] eqn:E.
  - destruct (rep_send_nb_compl pf s (ckey c) cx a m) as [rv [H1 H2]]. exists rv. rewrite H in H1. cbn [snd] in H1.
    split; [exact H1|]. split.
    + intros Hx. apply Hok. apply (busy_send_nb pf s (ckey c) cx a m a E). rewrite H. exact Hx.
    + intros Hr m2 _. rewrite (H2 Hr m2). exact H.
  - inversion H; subst. exists E_CLOSED. rewrite compl_of_self. split; [reflexivity|]. split; [exact Hok|]. intros _ m2 _. reflexivity.
Qed.
Lemma rep_send_nb_cases pf s k c a m :
  rep_ctx_send pf s k c a true m = rep_ctx_send pf s k c a false m \/
  (snd (rep_ctx_send pf s k c a true m) = [Complete a E_AGAIN None] /\ snd (rep_ctx_send pf s k c a false m) = [] /\
   In a (rep_busy (fst (rep_ctx_send pf s k c a false m)))).
Proof.
  unfold rep_ctx_send. cbv zeta. destruct (pf_saio pf && _); [now left|]. destruct (is_nil (rc_bt c)); [now left|].
  destruct (negb (has_id _ _)); [now left|]. destruct (negb (has_id _ _)); [now left|].
  right. split; [reflexivity|]. split; [reflexivity|]. cbn [fst]. bsimp. apply busy_assoc_set_in. unfold caios. rsimp.
  apply in_or_app. right. now left.
Qed.
Lemma rep_send_nb_result pf s k c a m :
  result_of a (snd (rep_ctx_send pf s k c a true m)) = Some E_AGAIN ->
  snd (rep_ctx_send pf s k c a true m) = [Complete a E_AGAIN None].
Proof.
  unfold rep_ctx_send. cbv zeta. repeat brk1; cbn [snd]; try reflexivity; rewrite ?result_of_single, ?result_of_self; errs; try discriminate.
  all: rewrite result_of_skip by reflexivity; rewrite result_of_self; discriminate.
Qed.
Lemma rep_nb_send_possible pf s : nb_send_possible_at (M_rep pf) s.
Proof.
  intros c a m _ H. unM M_rep. cbn [rep_step] in *. destruct (rp_get s (ckey c)) as [cx|]; [|reflexivity].
  destruct (rep_send_nb_cases pf s (ckey c) cx a m) as [E|(_ & E & _)]; [exact E|]. rewrite E in H. discriminate.
Qed.
Lemma rep_send_b_noagain pf s k c a m : snd (rep_ctx_send pf s k c a false m) <> [Complete a E_AGAIN None].
Proof. unfold rep_ctx_send. cbv zeta. repeat brk1; cbn [snd]; errs; discriminate. Qed.
Lemma rep_nb_send_strict pf s : nb_send_eagain_queues_at (M_rep pf) s.
Proof.
  intros c a m _ H. unM M_rep. cbn [rep_step] in *. destruct (rp_get s (ckey c)) as [cx|].
  - destruct (rep_send_nb_cases pf s (ckey c) cx a m) as [E|(_ & E & Hb)].
    + apply rep_send_nb_result in H. rewrite E in H. exfalso. revert H. apply rep_send_b_noagain.
    + rewrite E. split; [reflexivity|exact Hb].
  - cbn [snd] in H. rewrite result_of_single in H. errs. discriminate.
Qed.
Lemma busy_take pf s k c p m x : rp_get s k = Some c ->
  In x (rep_busy (rep_take pf s k c p m (rc_raio c))) -> In x (rep_busy s).
Proof.
  intros Hg. unfold rep_take. cbv zeta. repeat brk1; bsimp; intros Hx.
  all: apply busy_assoc_set in Hx; destruct Hx as [Hx|Hx]; [|exact Hx]; eapply busy_in; eauto.
Qed.
Lemma rep_nb_recv_immediate pf s : nb_recv_immediate_at (M_rep pf) s.
Proof.
  intros c a s' outs Hok H. unM M_rep. cbn [rep_step rep_ok] in *.
  destruct (rp_get s (ckey c)) as [cx|] eqn:E.
  - unfold rep_ctx_recv in H. destruct (rp_holding s) as [|[p m] rest] eqn:EH.
    + inversion H; subst. exists E_AGAIN, None. rewrite compl_of_self. split; [reflexivity|]. split; [exact Hok|].
      errs. split; [intros X; now elim X|discriminate].
    + cbv zeta in H. inversion H; subst. exists E_OK, (Some (rep_deliver m)). rewrite compl_of_cons, compl_of_self.
      split; [reflexivity|]. split; [|split; [reflexivity|discriminate]].
      intros Hx. apply Hok. apply busy_take in Hx; [|destruct (is_nil rest); exact E]. destruct (is_nil rest); exact Hx.
  - inversion H; subst. exists E_CLOSED, None. rewrite compl_of_self. split; [reflexivity|]. split; [exact Hok|].
    errs. split; [intros X; now elim X|discriminate].
Qed.
Lemma rep_nb_recv_possible pf s : nb_recv_possible_at (M_rep pf) s.
Proof.
  intros c a _ H. unM M_rep. cbn [rep_step] in *. destruct (rp_get s (ckey c)) as [cx|]; [|reflexivity].
  unfold rep_ctx_recv in *. destruct (rp_holding s) as [|[p m] rest]; [|reflexivity].
  destruct (rc_raio cx); cbn [snd] in H; [rewrite result_of_single in H; errs; discriminate|discriminate].
Qed.
(* the receive half of the mirror holds for every context, the strict reading of NNG_EAGAIN only for sends *)

Section RepLift.
  Variable pf : pfix.
  Hypothesis F1 : pf_rclose pf = true.
  Hypothesis F3 : pf_saio pf = true.
  Hypothesis F4 : pf_wbusy pf = true.
  Let istep := fun s o => rep_inv_step pf s o F1 F3 F4.

  Theorem rep_c15_inv : C15_inv (M_rep pf).
  Proof. apply reachable_inv; [apply rep_inv_init|exact istep]. Qed.
  Theorem rep_c15_mirror : C15_mirror (M_rep pf).
  Proof.
    unfold C15_mirror. apply (lift_at2 (M_rep pf) (rep_inv_init pf) istep (mirror_r_at (M_rep pf)) (mirror_w_at (M_rep pf))).
    - intros s H. apply mirror_r_exact_weaken. now apply rep_mirror_r_exact.
    - intros s H. now apply rep_mirror_w.
  Qed.
  Theorem rep_c15_mirror_r_exact : forall s, reachable (M_rep pf) s -> mirror_r_exact_at (M_rep pf) s.
  Proof. apply (lift_at (M_rep pf) (rep_inv_init pf) istep (mirror_r_exact_at (M_rep pf))). apply rep_mirror_r_exact. Qed.
End RepLift.
Theorem rep_c15_nb_immediate pf : C15_nb_immediate (M_rep pf).
Proof. intros s _. split; [apply rep_nb_send_immediate|apply rep_nb_recv_immediate]. Qed.
Theorem rep_c15_nb_possible pf : C15_nb_possible (M_rep pf).
Proof. intros s _. split; [apply rep_nb_send_possible|apply rep_nb_recv_possible]. Qed.
Theorem rep_c15_nb_send_strict pf : forall s, reachable (M_rep pf) s -> nb_send_eagain_queues_at (M_rep pf) s.
Proof. intros s _. apply rep_nb_send_strict. Qed.

(* ---- witnesses ---- *)
Definition rep_okb (s : rep) (o : pop) : bool :=
  match o with
  | PSend _ a _ _ | PRecv _ a _ => negb (has_id a (rep_busy s))
  | PPipeStart p _ => negb (N.eqb p 0) && negb (has_id p (rp_pipes s)) && negb (has_id p (rp_pclosed s))
  | PPipeClose p => negb (N.eqb p 0)
  | PSendDone p _ => has_id p (rp_busy s)
  | PRecvDone p _ _ => has_id p (rp_pipes s) || has_id p (rp_pclosed s)
  | PCtxOpen k => negb (has_id (k + 1)%N (keys s))
  | _ => true
  end.
Lemma rep_okb_sound pf s o : rep_okb s o = true -> pm_ok (M_rep pf) s o.
Proof.
  unM M_rep. destruct o; cbn [rep_okb rep_ok]; try (intros; exact I).
  - intros H. apply negb_true_iff in H. now apply has_id_false.
  - intros H. apply negb_true_iff in H. now apply has_id_false.
  - intros H. apply andb_true_iff in H as [H H3]. apply andb_true_iff in H as [H1 H2].
    apply negb_true_iff in H1, H2, H3. apply N.eqb_neq in H1. apply has_id_false in H2, H3. split; [exact H1|]. intros [X|X]; contradiction.
  - intros H. apply negb_true_iff in H. now apply N.eqb_neq.
  - apply has_id_true.
  - intros H. apply orb_true_iff in H as [H|H]; apply has_id_true in H; [now left|now right].
  - intros H. apply negb_true_iff in H. now apply has_id_false.
Qed.
Definition rep_reach pf ops := reachable_okb (M_rep pf) rep_okb (rep_okb_sound pf) ops.

Definition rq (id : N) (b : N) : pmsg := mkPmsg [] (be32 id ++ [b]).

(* the strict reading of NNG_EAGAIN fails for receives: a context with a receive already pending *)
Definition w_rep_strict : list pop := [PRecv None 1%N false].
Theorem rep_c15_nb_strict_refuted pf : ~ C15_nb_strict (M_rep pf).
Proof.
  intros H. destruct (H _ (rep_reach pf w_rep_strict eq_refl)) as [_ Hr].
  assert (Hok : pm_ok (M_rep pf) (prun (M_rep pf) (pm_init (M_rep pf)) w_rep_strict) (PRecv None 2%N true)).
  { apply rep_okb_sound. reflexivity. }
  destruct (Hr None 2%N Hok eq_refl) as [Hx _]. vm_compute in Hx. discriminate.
Qed.
(* E_STATE is neither NNG_EAGAIN nor advertised *)
Theorem rep_c15_mirror_iff_refuted pf : ~ C15_mirror_iff (M_rep pf).
Proof.
  destruct pf as [f1 f2 [] f4].
  all: set (pf := mkPfix _ _ _ _).
  all: intros H; destruct (H _ (reachable_init (M_rep pf))) as [_ Hw].
  all: assert (Hok : pm_ok (M_rep pf) (pm_init (M_rep pf)) (PSend None 1%N true (mkPmsg [] []))) by (apply rep_okb_sound; reflexivity).
  all: specialize (Hw 1%N (mkPmsg [] []) Hok eq_refl); vm_compute in Hw; destruct Hw as [_ Hw].
  all: assert (X : false = true) by (apply Hw; discriminate); discriminate.
Qed.
(* the socket's previous reply still waits behind a busy pipe; it then takes a request from an idle pipe *)
Definition w_rep_exact : list pop :=
  [PCtxOpen 0%N; PPipeStart 1%N PROTO_REQ; PPipeStart 2%N PROTO_REQ;
   PRecvDone 1%N 0%N (rq 2147483649 1); PRecv (Some 0%N) 9%N true;
   PRecvDone 1%N 0%N (rq 2147483650 2); PRecv None 9%N true;
   PSend (Some 0%N) 9%N true (mkPmsg [] [3%N]);
   PSend None 8%N false (mkPmsg [] [4%N]);
   PRecvDone 2%N 0%N (rq 2147483651 5); PRecv None 9%N true].
Theorem rep_c15_mirror_exact_refuted : ~ C15_mirror_exact (M_rep pf_repaired).
Proof.
  intros H. destruct (H _ (rep_reach pf_repaired w_rep_exact eq_refl)) as [_ Hw].
  assert (Hok : pm_ok (M_rep pf_repaired) (prun (M_rep pf_repaired) (pm_init (M_rep pf_repaired)) w_rep_exact) (PSend None 7%N true (mkPmsg [] [6%N]))).
  { apply rep_okb_sound. reflexivity. }
  specialize (Hw 7%N (mkPmsg [] [6%N]) Hok eq_refl). vm_compute in Hw. destruct Hw as [Hw _].
  specialize (Hw eq_refl). discriminate.
Qed.
(* without the repair pf_wbusy: another context replies on the pipe the socket would reply on *)
Theorem rep_c15_mirror_refuted_pinned : ~ C15_mirror (M_rep (mkPfix true true true false)).
Proof.
  set (pf := mkPfix true true true false).
  intros H. destruct (H _ (rep_reach pf w_rep_wbusy eq_refl)) as [_ Hw].
  assert (Hok : pm_ok (M_rep pf) (prun (M_rep pf) (pm_init (M_rep pf)) w_rep_wbusy) (PSend None 9%N true (mkPmsg [] [4%N]))).
  { apply rep_okb_sound. reflexivity. }
  specialize (Hw 9%N (mkPmsg [] [4%N]) Hok eq_refl). vm_compute in Hw. destruct Hw as [_ Hw].
  apply (Hw eq_refl). reflexivity.
Qed.
Example rep_reachable_readable : exists s, reachable (M_rep pf_repaired) s /\ poll_r (pm_poll (M_rep pf_repaired) s) = Some true.
Proof.
  eexists. split; [exact (rep_reach pf_repaired [PPipeStart 1%N PROTO_REQ; PRecvDone 1%N 0%N (rq 2147483649 1)] eq_refl)|reflexivity].
Qed.
Example rep_reachable_writable : exists s, reachable (M_rep pf_repaired) s /\ poll_w (pm_poll (M_rep pf_repaired) s) = Some true.
Proof.
  eexists. split; [exact (rep_reach pf_repaired [PPipeStart 1%N PROTO_REQ; PRecvDone 1%N 0%N (rq 2147483649 1); PRecv None 9%N true] eq_refl)|reflexivity].
Qed.
Example rep_reachable_lowered : reachable (M_rep pf_repaired) rep_init /\ pm_poll (M_rep pf_repaired) rep_init = mkPoll (Some false) (Some false).
Proof. split; [apply (reachable_init (M_rep pf_repaired))|reflexivity]. Qed.


(* ================================================================== the message queue of the socket core *)
Section MqInv.
  Variables G T : Type.
  Notation mqt := (mq G T).
  Definition mq_ok (q : mqt) : Prop :=
    (mq_getq q = [] \/ (mq_q q = [] /\ mq_putq q = [])) /\ (mq_putq q = [] \/ mq_cap q <= length (mq_q q)).
  Definition is_evput (e : mqev G T) : Prop := match e with EvPut _ => True | EvGot _ _ => False end.

  Lemma run_putq_ok : forall fuel (q : mqt), (mq_getq q = [] \/ mq_q q = []) -> length (mq_putq q) <= fuel ->
    mq_ok (fst (mq_run_putq G T fuel q)) /\ mq_cap (fst (mq_run_putq G T fuel q)) = mq_cap q.
  Proof.
    unfold mq_ok. induction fuel as [|f IH]; intros q Hpre Hl; cbn [mq_run_putq].
    - cbn [fst]. split; [|reflexivity]. destruct (mq_putq q); [|cbn in Hl; lia]. split; [|now left].
      destruct Hpre; [now left|right; auto].
    - destruct (mq_putq q) as [|[t m] pr] eqn:EP.
      { cbn [fst]. split; [|reflexivity]. split; [|now left]. destruct Hpre; [now left|right; auto]. }
      cbn [length] in Hl. destruct (mq_getq q) as [|g gr] eqn:EG.
      + destruct (length (mq_q q) <? mq_cap q) eqn:EL.
        * specialize (IH (mkMq (mq_q q ++ [m]) (mq_cap q) [] pr)). cbn [mq_getq mq_putq mq_cap] in IH.
          destruct (mq_run_putq G T f _) as [q' ev]. cbn [fst] in *. apply IH; [now left|lia].
        * cbn [fst]. split; [|reflexivity]. apply Nat.ltb_ge in EL. split; [now left|now right].
      + specialize (IH (mkMq (mq_q q) (mq_cap q) gr pr)). cbn [mq_getq mq_putq mq_cap mq_q] in IH.
        destruct (mq_run_putq G T f _) as [q' ev]. cbn [fst] in *. apply IH; [|lia].
        destruct Hpre as [X|X]; [discriminate|now right].
  Qed.
  Lemma run_putq_nog : forall fuel (q : mqt), mq_getq q = [] ->
    mq_getq (fst (mq_run_putq G T fuel q)) = [] /\ Forall is_evput (snd (mq_run_putq G T fuel q)).
  Proof.
    induction fuel as [|f IH]; intros q Hg; cbn [mq_run_putq]; [split; [exact Hg|constructor]|].
    destruct (mq_putq q) as [|[t m] pr]; [split; [exact Hg|constructor]|]. rewrite Hg.
    destruct (length (mq_q q) <? mq_cap q); [|split; [exact Hg|constructor]].
    specialize (IH (mkMq (mq_q q ++ [m]) (mq_cap q) [] pr) eq_refl).
    destruct (mq_run_putq G T f _) as [q' ev]. cbn [fst snd] in *. destruct IH. split; [assumption|]. constructor; [exact I|assumption].
  Qed.
  Lemma run_getq_post : forall fuel (q : mqt), length (mq_getq q) <= fuel ->
    (mq_getq (fst (mq_run_getq G T fuel q)) = [] \/ mq_q (fst (mq_run_getq G T fuel q)) = []) /\
    mq_cap (fst (mq_run_getq G T fuel q)) = mq_cap q.
  Proof.
    induction fuel as [|f IH]; intros q Hl; cbn [mq_run_getq].
    - cbn [fst]. split; [|reflexivity]. left. destruct (mq_getq q); [reflexivity|cbn in Hl; lia].
    - destruct (mq_getq q) as [|g gr] eqn:EG; [cbn [fst]; rewrite EG; auto|]. cbn [length] in Hl.
      destruct (mq_q q) as [|m rest] eqn:EQ.
      + destruct (mq_putq q) as [|[t m] pr] eqn:EP; [cbn [fst]; rewrite EQ; auto|].
        specialize (IH (mkMq [] (mq_cap q) gr pr)). cbn [mq_getq mq_cap] in IH.
        destruct (mq_run_getq G T f _) as [q' ev]. cbn [fst] in *. apply IH. lia.
      + specialize (IH (mkMq rest (mq_cap q) gr (mq_putq q))). cbn [mq_getq mq_cap] in IH.
        destruct (mq_run_getq G T f _) as [q' ev]. cbn [fst] in *. apply IH. lia.
  Qed.
  Lemma run_getq_id fuel (q : mqt) : mq_ok q -> mq_run_getq G T fuel q = (q, []).
  Proof.
    unfold mq_ok. intros [[H|[H1 H2]] _]; destruct fuel as [|f]; cbn [mq_run_getq]; try reflexivity.
    - now rewrite H.
    - destruct (mq_getq q); [reflexivity|]. now rewrite H1, H2.
  Qed.

  Lemma mq_put_ok (q : mqt) t m : mq_ok q -> mq_ok (fst (mq_put q t m)) /\ mq_cap (fst (mq_put q t m)) = mq_cap q.
  Proof.
    intros [H1 H2]. unfold mq_put.
    match goal with |- context [mq_run_putq G T ?f ?X] => destruct (run_putq_ok f X) as [A B] end.
    - cbn [mq_getq mq_q]. destruct H1 as [H1|[H1 _]]; auto.
    - cbn [mq_putq]. rewrite app_length. cbn. lia.
    - split; [exact A|exact B].
  Qed.
  Lemma mq_get_ok (q : mqt) g : mq_ok (fst (mq_get true q g)) /\ mq_cap (fst (mq_get true q g)) = mq_cap q.
  Proof.
    unfold mq_get.
    match goal with |- context [mq_run_getq G T ?f ?X] => destruct (run_getq_post f X) as [A B]; [|destruct (mq_run_getq G T f X) as [q1 e1]] end.
    { cbn [mq_getq]. rewrite app_length. cbn. lia. }
    cbn [fst mq_cap] in *. destruct (run_putq_ok (S (length (mq_putq q1))) q1 A) as [C D]; [lia|].
    destruct (mq_run_putq G T _ q1) as [q2 e2]. cbn [fst] in *. split; [exact C|congruence].
  Qed.
  Lemma mq_resize_ok (q : mqt) n : mq_ok q -> mq_ok (fst (mq_rerun (fst (mq_resize q n)))).
  Proof.
    intros [H1 H2]. unfold mq_resize. cbn [fst]. unfold mq_rerun.
    match goal with |- context [mq_run_putq G T ?f ?X] => destruct (run_putq_ok f X) as [A B]; [| |destruct (mq_run_putq G T f X) as [q1 e1]] end.
    - cbn [mq_getq mq_q]. destruct H1 as [H1|[H1 _]]; [now left|right]. rewrite H1. apply skipn_nil.
    - cbn [mq_putq]. lia.
    - cbn [fst] in *. rewrite (run_getq_id _ q1 A). exact A.
  Qed.
  Lemma mq_ok_del_get (q : mqt) f : mq_ok q -> mq_ok (mkMq (mq_q q) (mq_cap q) (filter f (mq_getq q)) (mq_putq q)).
  Proof.
    intros [H1 H2]. split; cbn [mq_getq mq_q mq_putq mq_cap]; [|exact H2].
    destruct H1 as [H1|H1]; [left; now rewrite H1|now right].
  Qed.
  Lemma mq_ok_del_put (q : mqt) f : mq_ok q -> mq_ok (mkMq (mq_q q) (mq_cap q) (mq_getq q) (filter f (mq_putq q))).
  Proof.
    intros [H1 H2]. split; cbn [mq_getq mq_q mq_putq mq_cap].
    - destruct H1 as [H1|[H1 H3]]; [now left|right]. split; [exact H1|]. now rewrite H3.
    - destruct H2 as [H2|H2]; [left; now rewrite H2|now right].
  Qed.
End MqInv.
Arguments mq_ok {G T}.  Arguments is_evput {G T}.

Section MqOps.
  Variables G T : Type.
  Notation mqt := (mq G T).
  (* the entry points where they do not have to wait / have to wait *)
  Lemma mq_put_nowait (q : mqt) t m : mq_put_waits q = false ->
    mq_put q t m = match mq_getq q with
                   | g :: gr => (mkMq (mq_q q) (mq_cap q) gr [], [EvGot g m; EvPut t])
                   | [] => (mkMq (mq_q q ++ [m]) (mq_cap q) [] [], [EvPut t])
                   end.
  Proof.
    unfold mq_put_waits, mq_put. intros H. apply orb_false_iff in H. destruct H as [H1 H2].
    destruct (mq_putq q) eqn:EP; [|discriminate]. cbn [app length mq_run_putq mq_getq mq_q mq_putq mq_cap].
    destruct (mq_getq q) as [|g gr] eqn:EG; [|reflexivity].
    cbn [is_nil andb] in H2. apply Nat.leb_gt in H2. apply Nat.ltb_lt in H2. now rewrite H2.
  Qed.
  Lemma mq_put_wait (q : mqt) t m : mq_ok q -> mq_put_waits q = true ->
    mq_put q t m = (mkMq (mq_q q) (mq_cap q) (mq_getq q) (mq_putq q ++ [(t, m)]), []).
  Proof.
    unfold mq_ok, mq_put_waits, mq_put. intros [H1 H2] H.
    assert (HG : mq_getq q = [] /\ mq_cap q <= length (mq_q q)).
    { destruct (mq_putq q) as [|x pr] eqn:EP.
      - cbn [is_nil negb orb] in H. apply andb_true_iff in H as [Ha Hb]. apply Nat.leb_le in Hb.
        destruct (mq_getq q); [auto|discriminate].
      - destruct H2 as [H2|H2]; [discriminate|]. destruct H1 as [H1|[_ H1]]; [auto|discriminate]. }
    destruct HG as [HG HC]. apply Nat.ltb_ge in HC.
    cbn [mq_run_putq mq_putq mq_getq mq_q mq_cap]. rewrite HG, HC.
    destruct (mq_putq q ++ [(t, m)]) as [|[t0 m0] pr] eqn:E; [reflexivity|reflexivity].
  Qed.
  Lemma mq_get_wait (q : mqt) g : mq_ok q -> mq_get_waits q = true ->
    mq_get true q g = (mkMq (mq_q q) (mq_cap q) (mq_getq q ++ [g]) (mq_putq q), []).
  Proof.
    unfold mq_ok, mq_get_waits, mq_get. intros [H1 H2] H.
    assert (HQ : mq_q q = [] /\ mq_putq q = []).
    { destruct (mq_getq q) as [|x gr] eqn:EG.
      - cbn [is_nil negb orb] in H. apply andb_true_iff in H as [Ha Hb].
        destruct (mq_q q); [|discriminate]. destruct (mq_putq q); [auto|discriminate].
      - destruct H1 as [H1|H1]; [discriminate|exact H1]. }
    destruct HQ as [HQ HP]. cbn [mq_run_getq mq_putq mq_getq mq_q mq_cap]. rewrite HQ, HP.
    destruct (mq_getq q ++ [g]) as [|g0 gr] eqn:E; cbn [mq_run_putq mq_putq length]; reflexivity.
  Qed.
  Lemma mq_get_nowait (q : mqt) g : mq_get_waits q = false ->
    exists m q' pre ev, mq_get true q g = (q', pre ++ EvGot g m :: ev) /\ mq_getq q' = [] /\
      Forall is_evput pre /\ Forall is_evput ev.
  Proof.
    unfold mq_get_waits, mq_get. intros H. apply orb_false_iff in H. destruct H as [H1 H2].
    destruct (mq_getq q) eqn:EG; [|discriminate]. cbn [app length mq_run_getq mq_getq mq_q mq_putq].
    destruct (mq_q q) as [|m rest] eqn:EQ.
    - destruct (mq_putq q) as [|[t m] pr] eqn:EP; [discriminate|].
      match goal with |- context [mq_run_putq G T ?f ?X] => destruct (run_putq_nog G T f X eq_refl) as [A B]; destruct (mq_run_putq G T f X) as [q2 e2] end.
      cbn [fst snd] in *. exists m, q2, [EvPut t], e2. split; [reflexivity|]. split; [exact A|].
      split; [constructor; [exact I|constructor]|exact B].
    - match goal with |- context [mq_run_putq G T ?f ?X] => destruct (run_putq_nog G T f X eq_refl) as [A B]; destruct (mq_run_putq G T f X) as [q2 e2] end.
      cbn [fst snd] in *. exists m, q2, [], e2. split; [reflexivity|]. split; [exact A|].
      split; [constructor|exact B].
  Qed.
End MqOps.

(* ================================================================== raw REQ *)
Definition xreq_busy (s : xreq) : list aioid := map fst (mq_putq (xq_uwq s)) ++ mq_getq (xq_urq s).
Definition xreq_ok (s : xreq) (o : pop) : Prop :=
  match o with PSend _ a _ _ | PRecv _ a _ => ~ In a (xreq_busy s) | _ => True end.
Definition xreq_inv (s : xreq) : Prop := mq_ok (xq_uwq s) /\ mq_ok (xq_urq s).
Definition M_xreq (mf : mqfix) : pmodel :=
  mkPM xreq xreq_init (xreq_step mf) xreq_poll xreq_ok xreq_inv xreq_busy (fun _ => true).

Lemma xreq_inv_init mf : pm_inv (M_xreq mf) (pm_init (M_xreq mf)).
Proof. unM M_xreq. split; (split; [now left|now left]). Qed.

Lemma xreq_inv_step mf s o : mf_resize mf = true -> mf_getput mf = true ->
  pm_inv (M_xreq mf) s -> pm_ok (M_xreq mf) s o -> o <> PSockClose -> pm_inv (M_xreq mf) (fst (pm_step (M_xreq mf) s o)).
Proof.
  intros F2 F3. unM M_xreq. intros [HW HR] _ Hnc. unfold xreq_inv.
  destruct o; cbn [xreq_step]; try (split; assumption).
  - destruct (nb_refused mf nb _); [split; assumption|].
    pose proof (mq_put_ok _ _ (xq_uwq s) a m HW) as [A _]. destruct (mq_put (xq_uwq s) a m) as [q ev]. cbn [fst xq_uwq xq_urq] in *. split; assumption.
  - destruct (nb_refused mf nb _); [split; assumption|]. rewrite F3.
    pose proof (mq_get_ok _ _ (xq_urq s) a) as [A _]. destruct (mq_get true (xq_urq s) a) as [q ev]. cbn [fst xq_uwq xq_urq] in *. split; assumption.
  - cbv zeta. destruct (has_aio a (mq_putq (xq_uwq s))); [|destruct (has_id a (mq_getq (xq_urq s)))]; cbn [fst xq_uwq xq_urq].
    + split; [|assumption]. apply mq_ok_del_put. exact HW.
    + split; [assumption|]. apply mq_ok_del_get. exact HR.
    + split; assumption.
  - destruct (negb (peer =? PROTO_REP)%N); [split; assumption|]. rewrite F3.
    pose proof (mq_get_ok _ _ (xq_uwq s) p) as [A _]. destruct (mq_get true (xq_uwq s) p) as [q ev]. cbn [fst xq_uwq xq_urq] in *. split; assumption.
  - cbv zeta. unfold urq_pipe_close. cbn [fst xq_uwq xq_urq]. split; [apply mq_ok_del_get; exact HW|apply mq_ok_del_put; exact HR].
  - cbv zeta. destruct (negb (rv =? 0)%N); [split; assumption|]. rewrite F3.
    pose proof (mq_get_ok _ _ (xq_uwq s) p) as [A _]. destruct (mq_get true (xq_uwq s) p) as [q ev]. cbn [fst xq_uwq xq_urq] in *. split; assumption.
  - destruct (negb (rv =? 0)%N); [split; assumption|]. destruct (xreq_recv (pm_body m)) as [m'| |]; try (split; assumption).
    pose proof (mq_put_ok _ _ (xq_urq s) p m' HR) as [A _]. destruct (mq_put (xq_urq s) p m') as [q ev]. cbn [fst xq_uwq xq_urq] in *. split; assumption.
  - destruct c; [split; assumption|]. destruct o; try (split; assumption).
    + destruct (8192 <? N.of_nat n)%N; [split; assumption|]. rewrite F2.
      pose proof (mq_resize_ok _ _ (xq_uwq s) n HW) as A. destruct (mq_resize (xq_uwq s) n) as [q fr]. cbn [fst] in A.
      destruct (mq_rerun q) as [q' ev]. cbn [fst xq_uwq xq_urq] in *. split; assumption.
    + destruct (8192 <? N.of_nat n)%N; [split; assumption|]. rewrite F2.
      pose proof (mq_resize_ok _ _ (xq_urq s) n HR) as A. destruct (mq_resize (xq_urq s) n) as [q fr]. cbn [fst] in A.
      destruct (mq_rerun q) as [q' ev]. cbn [fst xq_uwq xq_urq] in *. split; assumption.
    + destruct ((n <? BT_TTL_MIN) || (BT_TTL_MAX <? n)); split; assumption.
  - contradiction.
Qed.

Lemma nb_refused_nb mf w : mf_nb mf = true -> nb_refused mf true w = w.
Proof. unfold nb_refused. intros ->. reflexivity. Qed.
Lemma nb_refused_b mf w : nb_refused mf false w = false.
Proof. reflexivity. Qed.
Lemma mq_sendable_waits {G T} (q : mq G T) : mq_ok q -> mq_sendable q = negb (mq_put_waits q).
Proof.
  unfold mq_ok, mq_sendable, mq_put_waits. intros [H1 H2].
  destruct (mq_getq q) as [|g gr]; cbn [is_nil negb andb orb].
  - rewrite orb_false_r. destruct (mq_putq q) as [|x pr]; cbn [is_nil negb orb].
    + destruct (Nat.ltb_spec (length (mq_q q)) (mq_cap q)); destruct (Nat.leb_spec (mq_cap q) (length (mq_q q))); try lia; reflexivity.
    + destruct H2 as [H2|H2]; [discriminate|]. apply Nat.ltb_ge in H2. now rewrite H2.
  - destruct H1 as [H1|[_ H1]]; [discriminate|]. rewrite H1. cbn. apply orb_true_r.
Qed.
Lemma mq_recvable_waits {G T} (q : mq G T) : mq_ok q -> mq_recvable q = negb (mq_get_waits q).
Proof.
  unfold mq_ok, mq_recvable, mq_get_waits. intros [H1 _].
  destruct (mq_getq q) as [|g gr]; cbn [is_nil negb andb orb].
  - destruct (mq_q q); destruct (mq_putq q); reflexivity.
  - destruct H1 as [H1|[H1 H3]]; [discriminate|]. now rewrite H1, H3.
Qed.
Lemma compl_of_urq_puts a (ev : list (mqev aioid pid)) : Forall is_evput ev -> compl_of a (map urq_out ev) = [].
Proof.
  induction 1 as [|e ev H _ IH]; [reflexivity|]. cbn [map]. rewrite compl_of_cons, IH, app_nil_r.
  destruct e; [destruct H|reflexivity].
Qed.

Section XreqClauses.
  Variable mf : mqfix.
  Hypothesis F1 : mf_nb mf = true.
  Hypothesis F3 : mf_getput mf = true.
  Notation M := (M_xreq mf).

  Lemma xreq_nb_send_immediate s : nb_send_immediate_at M s.
  Proof.
    intros c a m s' outs Hok H. unM M_xreq. cbn [xreq_step xreq_ok] in *. rewrite nb_refused_nb in * by exact F1.
    destruct (mq_put_waits (xq_uwq s)) eqn:EW.
    - inversion H; subst. exists E_AGAIN. rewrite compl_of_self. split; [reflexivity|]. split; [exact Hok|]. intros _ m2 _. reflexivity.
    - rewrite (mq_put_nowait _ _ _ a m EW) in H.
      assert (Hb : ~ In a (mq_getq (xq_urq s))) by (intros X; apply Hok; apply in_or_app; now right).
      destruct (mq_getq (xq_uwq s)) as [|g gr] eqn:EG; inversion H; subst; exists E_OK; cbn [flat_map uwq_out app].
      + rewrite compl_of_self. split; [reflexivity|]. split; [exact Hb|]. intros X. now elim X.
      + rewrite compl_of_cons, compl_of_self. split; [reflexivity|]. split; [exact Hb|]. intros X. now elim X.
  Qed.
  Lemma xreq_nb_recv_immediate s : nb_recv_immediate_at M s.
  Proof.
    intros c a s' outs Hok H. unM M_xreq. cbn [xreq_step xreq_ok] in *. rewrite nb_refused_nb in * by exact F1.
    destruct (mq_get_waits (xq_urq s)) eqn:EW.
    - inversion H; subst. exists E_AGAIN, None. rewrite compl_of_self. split; [reflexivity|]. split; [exact Hok|].
      errs. split; [intros X; now elim X|discriminate].
    - rewrite F3 in H. destruct (mq_get_nowait _ _ (xq_urq s) a EW) as (m & q' & pre & ev & E & Hg & Hpre & Hev).
      rewrite E in H. inversion H; subst. exists E_OK, (Some m).
      rewrite map_app, compl_of_app, (compl_of_urq_puts _ _ Hpre). cbn [map urq_out app].
      rewrite compl_of_cons, compl_of_self, (compl_of_urq_puts _ _ Hev). split; [reflexivity|].
      split; [|split; [reflexivity|discriminate]]. unfold xreq_busy in *. cbn [xq_uwq xq_urq]. rewrite Hg, app_nil_r.
      intros X. apply Hok. apply in_or_app. now left.
  Qed.
  Lemma xreq_nb_send_possible s : pm_inv M s -> nb_send_possible_at M s.
  Proof.
    intros [HW _] c a m _ H. unM M_xreq. cbn [xreq_step] in *. rewrite nb_refused_nb by exact F1. rewrite nb_refused_b in *.
    destruct (mq_put_waits (xq_uwq s)) eqn:EW; [|reflexivity].
    rewrite (mq_put_wait _ _ _ a m HW EW) in H. cbn in H. discriminate.
  Qed.
  Lemma xreq_nb_recv_possible s : pm_inv M s -> nb_recv_possible_at M s.
  Proof.
    intros [_ HR] c a _ H. unM M_xreq. cbn [xreq_step] in *. rewrite nb_refused_nb by exact F1. rewrite nb_refused_b in *.
    destruct (mq_get_waits (xq_urq s)) eqn:EW; [|reflexivity].
    rewrite F3, (mq_get_wait _ _ _ a HR EW) in H. cbn in H. discriminate.
  Qed.
  Lemma xreq_nb_send_strict s : pm_inv M s -> nb_send_eagain_queues_at M s.
  Proof.
    intros [HW _] c a m _ H. unM M_xreq. cbn [xreq_step] in *. rewrite nb_refused_nb in H by exact F1. rewrite nb_refused_b.
    destruct (mq_put_waits (xq_uwq s)) eqn:EW.
    - rewrite (mq_put_wait _ _ _ a m HW EW). cbn [fst snd flat_map]. split; [reflexivity|].
      unfold xreq_busy. cbn [xq_uwq mq_putq]. apply in_or_app. left. rewrite map_app. apply in_or_app. right. now left.
    - exfalso. rewrite (mq_put_nowait _ _ _ a m EW) in H. destruct (mq_getq (xq_uwq s)); cbn [snd flat_map uwq_out app] in H.
      + rewrite result_of_single in H. errs. discriminate.
      + rewrite result_of_skip in H by reflexivity. rewrite result_of_self in H. errs. discriminate.
  Qed.
  Lemma xreq_nb_recv_strict s : pm_inv M s -> nb_recv_eagain_queues_at M s.
  Proof.
    intros [_ HR] c a _ H. unM M_xreq. cbn [xreq_step] in *. rewrite nb_refused_nb in H by exact F1. rewrite nb_refused_b.
    destruct (mq_get_waits (xq_urq s)) eqn:EW.
    - rewrite F3, (mq_get_wait _ _ _ a HR EW). cbn [fst snd map]. split; [reflexivity|].
      unfold xreq_busy. cbn [xq_urq mq_getq]. apply in_or_app. right. apply in_or_app. right. now left.
    - exfalso. rewrite F3 in H. destruct (mq_get_nowait _ _ (xq_urq s) a EW) as (m & q' & pre & ev & E & Hg & Hpre & Hev).
      rewrite E in H. cbn [snd] in H. unfold result_of in H.
      rewrite map_app, compl_of_app, (compl_of_urq_puts _ _ Hpre) in H. cbn [map urq_out app] in H.
      rewrite compl_of_cons, compl_of_self in H. cbn in H. errs. discriminate.
  Qed.
  Lemma xreq_rv_send s a m : rv_send M s a m = Some (if mq_put_waits (xq_uwq s) then E_AGAIN else E_OK).
  Proof.
    unfold rv_send. unM M_xreq. cbn [xreq_step]. rewrite nb_refused_nb by exact F1.
    destruct (mq_put_waits (xq_uwq s)) eqn:EW; [apply result_of_single|].
    rewrite (mq_put_nowait _ _ _ a m EW). destruct (mq_getq (xq_uwq s)); cbn [snd flat_map uwq_out app].
    - apply result_of_single.
    - rewrite result_of_skip by reflexivity. apply result_of_self.
  Qed.
  Lemma xreq_rv_recv s a : rv_recv M s a = Some (if mq_get_waits (xq_urq s) then E_AGAIN else E_OK).
  Proof.
    unfold rv_recv. unM M_xreq. cbn [xreq_step]. rewrite nb_refused_nb by exact F1.
    destruct (mq_get_waits (xq_urq s)) eqn:EW; [apply result_of_single|].
    rewrite F3. destruct (mq_get_nowait _ _ (xq_urq s) a EW) as (m & q' & pre & ev & E & Hg & Hpre & Hev).
    rewrite E. cbn [snd]. unfold result_of. rewrite map_app, compl_of_app, (compl_of_urq_puts _ _ Hpre). cbn [map urq_out app].
    rewrite compl_of_cons, compl_of_self. reflexivity.
  Qed.
  Lemma xreq_mirror_exact s : pm_inv M s -> mirror_r_exact_at M s /\ mirror_w_exact_at M s.
  Proof.
    intros [HW HR]. split.
    - intros a _. rewrite xreq_rv_recv. unM M_xreq. cbn [xreq_poll poll_r]. rewrite (mq_recvable_waits _ HR).
      destruct (mq_get_waits (xq_urq s)); cbn [negb]; errs; split; intros X; congruence.
    - intros a m _ _. rewrite xreq_rv_send. unM M_xreq. cbn [xreq_poll poll_w]. rewrite (mq_sendable_waits _ HW).
      destruct (mq_put_waits (xq_uwq s)); cbn [negb]; errs; split; intros X; congruence.
  Qed.
  Lemma xreq_mirror_iff s : pm_inv M s -> mirror_r_iff_at M s /\ mirror_w_iff_at M s.
  Proof.
    intros [HW HR]. split.
    - intros a _. rewrite xreq_rv_recv. unM M_xreq. cbn [xreq_poll poll_r]. rewrite (mq_recvable_waits _ HR).
      destruct (mq_get_waits (xq_urq s)); cbn [negb]; errs; split; intros X; try congruence; try discriminate.
    - intros a m _ _. rewrite xreq_rv_send. unM M_xreq. cbn [xreq_poll poll_w]. rewrite (mq_sendable_waits _ HW).
      destruct (mq_put_waits (xq_uwq s)); cbn [negb]; errs; split; intros X; try congruence; try discriminate.
  Qed.
End XreqClauses.

Section XreqLift.
  Variable mf : mqfix.
  Hypothesis F1 : mf_nb mf = true.
  Hypothesis F2 : mf_resize mf = true.
  Hypothesis F3 : mf_getput mf = true.
  Notation M := (M_xreq mf).
  Let istep := fun s o => xreq_inv_step mf s o F2 F3.
  Let L1 := lift_at M (xreq_inv_init mf) istep.
  Let L2 := lift_at2 M (xreq_inv_init mf) istep.

  Theorem xreq_c15_inv : C15_inv M.
  Proof. apply reachable_inv; [apply xreq_inv_init|exact istep]. Qed.
  Theorem xreq_c15_nb_immediate : C15_nb_immediate M.
  Proof. intros s _. split; [now apply xreq_nb_send_immediate|now apply xreq_nb_recv_immediate]. Qed.
  Theorem xreq_c15_nb_possible : C15_nb_possible M.
  Proof. exact (L2 _ _ (xreq_nb_send_possible mf F1) (xreq_nb_recv_possible mf F1 F3)). Qed.
  Theorem xreq_c15_nb_strict : C15_nb_strict M.
  Proof. exact (L2 _ _ (xreq_nb_send_strict mf F1) (xreq_nb_recv_strict mf F1 F3)). Qed.
  Theorem xreq_c15_mirror_exact : C15_mirror_exact M.
  Proof. intros s R. apply (xreq_mirror_exact mf F1 F3). now apply xreq_c15_inv. Qed.
  Theorem xreq_c15_mirror_iff : C15_mirror_iff M.
  Proof. intros s R. apply (xreq_mirror_iff mf F1 F3). now apply xreq_c15_inv. Qed.
  Theorem xreq_c15_mirror : C15_mirror M.
  Proof.
    intros s R. destruct (xreq_c15_mirror_exact s R) as [A B].
    split; [now apply mirror_r_exact_weaken|now apply mirror_w_exact_weaken].
  Qed.
End XreqLift.

Definition xreq_okb (s : xreq) (o : pop) : bool :=
  match o with PSend _ a _ _ | PRecv _ a _ => negb (has_id a (xreq_busy s)) | _ => true end.
Lemma xreq_okb_sound mf s o : xreq_okb s o = true -> pm_ok (M_xreq mf) s o.
Proof.
  unM M_xreq. destruct o; cbn [xreq_okb xreq_ok]; try (intros; exact I); intros H; apply negb_true_iff in H; now apply has_id_false.
Qed.
Definition xreq_reach mf ops := reachable_okb (M_xreq mf) xreq_okb (xreq_okb_sound mf) ops.

(* without the repair mf_getput: a pipe takes a buffered message, there is room, a writer still waits *)
Definition xm (id b : N) : pmsg := mkPmsg (be32 id) [b].
Definition w_xreq_getput : list pop :=
  [PSetOpt None (OSendBuf 2); PSend None 1%N false (xm 2147483649 5); PSend None 2%N false (xm 2147483650 6);
   PSend None 3%N false (xm 2147483651 7); PPipeStart 1%N PROTO_REP].
Theorem xreq_c15_mirror_refuted_pinned : ~ C15_mirror (M_xreq (mkMqfix true true false)).
Proof.
  set (mf := mkMqfix true true false).
  intros H. destruct (H _ (xreq_reach mf w_xreq_getput eq_refl)) as [_ Hw].
  assert (Hok : pm_ok (M_xreq mf) (prun (M_xreq mf) (pm_init (M_xreq mf)) w_xreq_getput) (PSend None 9%N true (xm 2147483652 8))).
  { apply xreq_okb_sound. reflexivity. }
  specialize (Hw 9%N (xm 2147483652 8) Hok eq_refl). vm_compute in Hw. destruct Hw as [_ Hw].
  apply (Hw eq_refl). reflexivity.
Qed.
Example xreq_reachable_raised : exists s, reachable (M_xreq mf_repaired) s /\ poll_w (pm_poll (M_xreq mf_repaired) s) = Some true.
Proof. eexists. split; [exact (xreq_reach mf_repaired [PPipeStart 1%N PROTO_REP] eq_refl)|reflexivity]. Qed.
Example xreq_reachable_lowered : reachable (M_xreq mf_repaired) xreq_init /\ poll_w (pm_poll (M_xreq mf_repaired) xreq_init) = Some false.
Proof. split; [apply (reachable_init (M_xreq mf_repaired))|reflexivity]. Qed.
Example xreq_reachable_readable : exists s, reachable (M_xreq mf_repaired) s /\ poll_r (pm_poll (M_xreq mf_repaired) s) = Some true.
Proof.
  eexists. split; [exact (xreq_reach mf_repaired [PPipeStart 1%N PROTO_REP; PRecvDone 1%N 0%N (mkPmsg [] (be32 2147483649 ++ [7%N]))] eq_refl)|reflexivity].
Qed.

(* ================================================================== raw REP *)
Definition xrep_busy (s : xrep) : list aioid := mq_getq (xp_urq s).
Definition xrep_ok (s : xrep) (o : pop) : Prop :=
  match o with PSend _ a _ _ | PRecv _ a _ => ~ In a (xrep_busy s) | _ => True end.
Definition xrep_inv (s : xrep) : Prop := mq_ok (xp_urq s) /\ xp_closed s = false.
Definition M_xrep (mf : mqfix) : pmodel :=
  mkPM xrep xrep_init (xrep_step mf) xrep_poll xrep_ok xrep_inv xrep_busy (fun _ => true).

Lemma xrep_route_frame s m :
  xp_urq (fst (xrep_route s m)) = xp_urq s /\ xp_closed (fst (xrep_route s m)) = xp_closed s /\
  forall a, compl_of a (snd (xrep_route s m)) = [].
Proof.
  unfold xrep_route. destruct (xrep_send m) as [[p m']|]; [|repeat split].
  destruct (negb (has_id p (xp_pipes s))); [repeat split|]. destruct (has_id p (xp_idle s)); [repeat split|].
  destruct (pipe_qlen s p <? XREP_PIPE_SENDQ_CAP); repeat split.
Qed.
Lemma xrep_inv_init mf : pm_inv (M_xrep mf) (pm_init (M_xrep mf)).
Proof. unM M_xrep. split; [split; now left|reflexivity]. Qed.
Lemma xrep_inv_step mf s o : mf_resize mf = true -> mf_getput mf = true ->
  pm_inv (M_xrep mf) s -> pm_ok (M_xrep mf) s o -> o <> PSockClose -> pm_inv (M_xrep mf) (fst (pm_step (M_xrep mf) s o)).
Proof.
  intros F2 F3. unM M_xrep. intros [HR HC] _ Hnc. unfold xrep_inv.
  destruct o; cbn [xrep_step]; try (split; assumption).
  - destruct (nb_refused mf nb false); [split; assumption|].
    destruct (xrep_route_frame s m) as (A & B & _). destruct (xrep_route s m) as [s1 outs]. cbn [fst] in *. rewrite A, B. split; assumption.
  - destruct (nb_refused mf nb _); [split; assumption|]. rewrite F3.
    pose proof (mq_get_ok _ _ (xp_urq s) a) as [A _]. destruct (mq_get true (xp_urq s) a) as [q ev]. cbn [fst xp_urq xp_closed xp_set_urq] in *. split; assumption.
  - cbv zeta. destruct (has_id a (mq_getq (xp_urq s))); cbn [fst xp_urq xp_closed xp_set_urq]; [|split; assumption].
    split; [apply mq_ok_del_get; exact HR|assumption].
  - destruct (negb (peer =? PROTO_REQ)%N); split; assumption.
  - unfold urq_pipe_close. cbn [fst xp_urq xp_closed]. split; [apply mq_ok_del_put; exact HR|assumption].
  - cbv zeta. destruct (negb (rv =? 0)%N); [split; assumption|]. destruct (first_msg p (xp_sendq s)); split; assumption.
  - destruct (negb (rv =? 0)%N); [split; assumption|]. destruct (xrep_recv p (xp_ttl s) (pm_body m)) as [m'| |]; try (split; assumption).
    pose proof (mq_put_ok _ _ (xp_urq s) p m' HR) as [A _]. destruct (mq_put (xp_urq s) p m') as [q ev]. cbn [fst xp_urq xp_closed xp_set_urq] in *. split; assumption.
  - destruct c; [split; assumption|]. destruct o; try (split; assumption).
    + destruct (8192 <? N.of_nat n)%N; split; assumption.
    + destruct (8192 <? N.of_nat n)%N; [split; assumption|]. rewrite F2.
      pose proof (mq_resize_ok _ _ (xp_urq s) n HR) as A. destruct (mq_resize (xp_urq s) n) as [q fr]. cbn [fst] in A.
      destruct (mq_rerun q) as [q' ev]. cbn [fst xp_urq xp_closed xp_set_urq] in *. split; assumption.
    + destruct ((n <? BT_TTL_MIN) || (BT_TTL_MAX <? n)); split; assumption.
  - contradiction.
Qed.

Section XrepClauses.
  Variable mf : mqfix.
  Hypothesis F1 : mf_nb mf = true.
  Hypothesis F3 : mf_getput mf = true.
  Notation M := (M_xrep mf).

  Lemma xrep_nb_send_immediate s : nb_send_immediate_at M s.
  Proof.
    intros c a m s' outs Hok H. unM M_xrep. cbn [xrep_step xrep_ok] in *. rewrite nb_refused_nb in * by exact F1.
    destruct (xrep_route_frame s m) as (A & _ & C). destruct (xrep_route s m) as [s1 o1]. cbn [fst snd] in *.
    inversion H; subst. exists E_OK. rewrite compl_of_cons, compl_of_self, C. split; [reflexivity|].
    split; [unfold xrep_busy in *; now rewrite A|]. intros X. now elim X.
  Qed.
  Lemma xrep_nb_recv_immediate s : nb_recv_immediate_at M s.
  Proof.
    intros c a s' outs Hok H. unM M_xrep. cbn [xrep_step xrep_ok] in *. rewrite nb_refused_nb in * by exact F1.
    destruct (mq_get_waits (xp_urq s)) eqn:EW.
    - inversion H; subst. exists E_AGAIN, None. rewrite compl_of_self. split; [reflexivity|]. split; [exact Hok|].
      errs. split; [intros X; now elim X|discriminate].
    - rewrite F3 in H. destruct (mq_get_nowait _ _ (xp_urq s) a EW) as (m & q' & pre & ev & E & Hg & Hpre & Hev).
      rewrite E in H. inversion H; subst. exists E_OK, (Some m).
      rewrite map_app, compl_of_app, (compl_of_urq_puts _ _ Hpre). cbn [map urq_out app].
      rewrite compl_of_cons, compl_of_self, (compl_of_urq_puts _ _ Hev). split; [reflexivity|].
      split; [|split; [reflexivity|discriminate]]. unfold xrep_busy. cbn [xp_urq xp_set_urq]. rewrite Hg. intros [].
  Qed.
  Lemma xrep_nb_send_possible s : nb_send_possible_at M s.
  Proof. intros c a m _ _. unM M_xrep. cbn [xrep_step]. rewrite nb_refused_nb by exact F1. reflexivity. Qed.
  Lemma xrep_nb_recv_possible s : pm_inv M s -> nb_recv_possible_at M s.
  Proof.
    intros [HR _] c a _ H. unM M_xrep. cbn [xrep_step] in *. rewrite nb_refused_nb by exact F1. rewrite nb_refused_b in *.
    destruct (mq_get_waits (xp_urq s)) eqn:EW; [|reflexivity].
    rewrite F3, (mq_get_wait _ _ _ a HR EW) in H. cbn in H. discriminate.
  Qed.
  Lemma xrep_rv_send s a m : rv_send M s a m = Some E_OK.
  Proof.
    unfold rv_send. unM M_xrep. cbn [xrep_step]. rewrite nb_refused_nb by exact F1.
    destruct (xrep_route s m) as [s1 o1]. cbn [snd]. apply result_of_self.
  Qed.
  Lemma xrep_nb_send_strict s : nb_send_eagain_queues_at M s.
  Proof.
    intros c a m _ H. exfalso. unM M_xrep. cbn [xrep_step] in H. rewrite nb_refused_nb in H by exact F1.
    destruct (xrep_route s m) as [s1 o1]. cbn [snd] in H. rewrite result_of_self in H. errs. discriminate.
  Qed.
  Lemma xrep_nb_recv_strict s : pm_inv M s -> nb_recv_eagain_queues_at M s.
  Proof.
    intros [HR _] c a _ H. unM M_xrep. cbn [xrep_step] in *. rewrite nb_refused_nb in H by exact F1. rewrite nb_refused_b.
    destruct (mq_get_waits (xp_urq s)) eqn:EW.
    - rewrite F3, (mq_get_wait _ _ _ a HR EW). cbn [fst snd map]. split; [reflexivity|].
      unfold xrep_busy. cbn [xp_urq xp_set_urq mq_getq]. apply in_or_app. right. now left.
    - exfalso. rewrite F3 in H. destruct (mq_get_nowait _ _ (xp_urq s) a EW) as (m & q' & pre & ev & E & Hg & Hpre & Hev).
      rewrite E in H. cbn [snd] in H. unfold result_of in H.
      rewrite map_app, compl_of_app, (compl_of_urq_puts _ _ Hpre) in H. cbn [map urq_out app] in H.
      rewrite compl_of_cons, compl_of_self in H. cbn in H. errs. discriminate.
  Qed.
  Lemma xrep_rv_recv s a : rv_recv M s a = Some (if mq_get_waits (xp_urq s) then E_AGAIN else E_OK).
  Proof.
    unfold rv_recv. unM M_xrep. cbn [xrep_step]. rewrite nb_refused_nb by exact F1.
    destruct (mq_get_waits (xp_urq s)) eqn:EW; [apply result_of_single|].
    rewrite F3. destruct (mq_get_nowait _ _ (xp_urq s) a EW) as (m & q' & pre & ev & E & Hg & Hpre & Hev).
    rewrite E. cbn [snd]. unfold result_of. rewrite map_app, compl_of_app, (compl_of_urq_puts _ _ Hpre). cbn [map urq_out app].
    rewrite compl_of_cons, compl_of_self. reflexivity.
  Qed.
  Lemma xrep_mirror_exact s : pm_inv M s -> mirror_r_exact_at M s /\ mirror_w_exact_at M s.
  Proof.
    intros [HR HC]. split.
    - intros a _. rewrite xrep_rv_recv. unM M_xrep. cbn [xrep_poll poll_r]. rewrite (mq_recvable_waits _ HR).
      destruct (mq_get_waits (xp_urq s)); cbn [negb]; errs; split; intros X; congruence.
    - intros a m _ _. rewrite xrep_rv_send. unM M_xrep. cbn [xrep_poll poll_w]. rewrite HC. cbn [negb]. split; reflexivity.
  Qed.
  Lemma xrep_mirror_iff s : pm_inv M s -> mirror_r_iff_at M s /\ mirror_w_iff_at M s.
  Proof.
    intros [HR HC]. split.
    - intros a _. rewrite xrep_rv_recv. unM M_xrep. cbn [xrep_poll poll_r]. rewrite (mq_recvable_waits _ HR).
      destruct (mq_get_waits (xp_urq s)); cbn [negb]; errs; split; intros X; try congruence; try discriminate.
    - intros a m _ _. rewrite xrep_rv_send. unM M_xrep. cbn [xrep_poll poll_w]. rewrite HC. cbn [negb]. errs. split; [discriminate|reflexivity].
  Qed.
End XrepClauses.

Section XrepLift.
  Variable mf : mqfix.
  Hypothesis F1 : mf_nb mf = true.
  Hypothesis F2 : mf_resize mf = true.
  Hypothesis F3 : mf_getput mf = true.
  Notation M := (M_xrep mf).
  Let istep := fun s o => xrep_inv_step mf s o F2 F3.
  Let L2 := lift_at2 M (xrep_inv_init mf) istep.

  Theorem xrep_c15_inv : C15_inv M.
  Proof. apply reachable_inv; [apply xrep_inv_init|exact istep]. Qed.
  Theorem xrep_c15_nb_immediate : C15_nb_immediate M.
  Proof. intros s _. split; [now apply xrep_nb_send_immediate|now apply xrep_nb_recv_immediate]. Qed.
  Theorem xrep_c15_nb_possible : C15_nb_possible M.
  Proof. exact (L2 _ _ (fun s _ => xrep_nb_send_possible mf F1 s) (xrep_nb_recv_possible mf F1 F3)). Qed.
  Theorem xrep_c15_nb_strict : C15_nb_strict M.
  Proof. exact (L2 _ _ (fun s _ => xrep_nb_send_strict mf F1 s) (xrep_nb_recv_strict mf F1 F3)). Qed.
  Theorem xrep_c15_mirror_exact : C15_mirror_exact M.
  Proof. intros s R. apply (xrep_mirror_exact mf F1 F3). now apply xrep_c15_inv. Qed.
  Theorem xrep_c15_mirror_iff : C15_mirror_iff M.
  Proof. intros s R. apply (xrep_mirror_iff mf F1 F3). now apply xrep_c15_inv. Qed.
  Theorem xrep_c15_mirror : C15_mirror M.
  Proof.
    intros s R. destruct (xrep_c15_mirror_exact s R) as [A B].
    split; [now apply mirror_r_exact_weaken|now apply mirror_w_exact_weaken].
  Qed.
End XrepLift.

Definition xrep_okb (s : xrep) (o : pop) : bool :=
  match o with PSend _ a _ _ | PRecv _ a _ => negb (has_id a (xrep_busy s)) | _ => true end.
Lemma xrep_okb_sound mf s o : xrep_okb s o = true -> pm_ok (M_xrep mf) s o.
Proof.
  unM M_xrep. destruct o; cbn [xrep_okb xrep_ok]; try (intros; exact I); intros H; apply negb_true_iff in H; now apply has_id_false.
Qed.
Definition xrep_reach mf ops := reachable_okb (M_xrep mf) xrep_okb (xrep_okb_sound mf) ops.
Example xrep_reachable_readable : exists s, reachable (M_xrep mf_repaired) s /\ poll_r (pm_poll (M_xrep mf_repaired) s) = Some true.
Proof.
  eexists. split; [exact (xrep_reach mf_repaired [PPipeStart 1%N PROTO_REQ; PRecvDone 1%N 0%N (mkPmsg [] (be32 2147483649 ++ [7%N]))] eq_refl)|reflexivity].
Qed.
Example xrep_reachable_lowered : reachable (M_xrep mf_repaired) xrep_init /\ poll_r (pm_poll (M_xrep mf_repaired) xrep_init) = Some false.
Proof. split; [apply (reachable_init (M_xrep mf_repaired))|reflexivity]. Qed.

(* ================================================================== the fully repaired flag values *)
Theorem rep_c15_mirror_repaired : C15_mirror (M_rep pf_repaired).
Proof. apply rep_c15_mirror; reflexivity. Qed.
Theorem rep_c15_inv_repaired : C15_inv (M_rep pf_repaired).
Proof. apply rep_c15_inv; reflexivity. Qed.
Theorem xreq_c15_mirror_exact_repaired : C15_mirror_exact (M_xreq mf_repaired).
Proof. apply xreq_c15_mirror_exact; reflexivity. Qed.
Theorem xrep_c15_mirror_exact_repaired : C15_mirror_exact (M_xrep mf_repaired).
Proof. apply xrep_c15_mirror_exact; reflexivity. Qed.
