(* XSurveyProofs: raw SURVEYOR / RESPONDENT (XSurveyModel, XRespondModel): the receive callbacks are the
   pure backtrace functions, the raw respondent's send pops the pipe id and routes; NONBLOCK on the upper
   queues (holds with the msgqueue.c repair, refuted without it); the receive descriptor. *)
From Coq Require Import List Arith NArith Bool ZArith Lia.
From NngV Require Import Proto.Common Proto.SurveyBacktrace Proto.SurveyModel Proto.XSurveyModel Proto.XRespondModel Proto.SurveyProofs.
Import ListNotations.

(* ---- raw respondent receive = xresp_recv (push pipe id, move words, TTL) ---- *)
Theorem xresp_recv_drop fx s p m :
  xresp_recv p (xr_ttl s) (pm_body m) = BtDrop -> xresp_step fx s (PRecvDone p 0 m) = (s, [Free m; TranRecv p]).
Proof. intros H. cbn [xresp_step N.eqb negb]. now rewrite H. Qed.
Theorem xresp_recv_close fx s p m :
  xresp_recv p (xr_ttl s) (pm_body m) = BtClose -> xresp_step fx s (PRecvDone p 0 m) = (s, [Free m; ClosePipe p]).
Proof. intros H. cbn [xresp_step N.eqb negb]. now rewrite H. Qed.
Theorem xresp_recv_deliver fx s p m h b x s' outs :
  pm_hdr m = [] -> xresp_recv p (xr_ttl s) (pm_body m) = BtDeliver h b ->
  kget p (xr_pipes s) = Some x -> xp_closed x = false ->
  xresp_step fx s (PRecvDone p 0 m) = (s', outs) ->
  (s', outs) = (let (u', o1) := urq_put (xr_urq s) p (mkPmsg h b) in (mkXresp (xr_pipes s) u' (xr_uwcap s) (xr_ttl s), o1)).
Proof. intros H0 H X C St. cbn [xresp_step N.eqb negb] in St. rewrite H, X, C, H0 in St. cbn [app] in St. now rewrite <- St. Qed.
(* a waiting reader gets exactly that message, header = pipe id ++ backtrace *)
Theorem urq_put_to_reader u p m a rs :
  uq_readers u = a :: rs -> uq_writers u = [] ->
  urq_put u p m = (mkUrq (uq_q u) (uq_cap u) rs [], [Complete a E_OK (Some m); TranRecv p]).
Proof. intros R W. unfold urq_put. rewrite W. cbn [app length run_putq uq_writers uq_readers]. rewrite R. cbn. reflexivity. Qed.

(* ---- raw surveyor receive = xsurv_recv ---- *)
Theorem xsurv_recv_malformed fx s p m :
  (forall h b, xsurv_recv (pm_body m) <> BtDeliver h b) -> xsurv_step fx s (PRecvDone p 0 m) = (s, [Free m; ClosePipe p]).
Proof. intros H. cbn [xsurv_step N.eqb negb]. destruct (xsurv_recv (pm_body m)) eqn:E; auto. exfalso. eapply H; eauto. Qed.

(* ---- raw respondent send: the first header word names the pipe and is removed ---- *)
Theorem xresp_send_routes fx s a m p bt x s' outs :
  (p < 4294967296)%N -> pm_hdr m = be32 p ++ bt -> kget p (xr_pipes s) = Some x -> xp_closed x = false -> xp_busy x = false ->
  xresp_step fx s (PSend None a false m) = (s', outs) ->
  outs = [Complete a E_OK None; TranSend p (mkPmsg bt (pm_body m))].
Proof.
  intros Hp H X C B St. cbn [xresp_step andb] in St. rewrite H in St.
  pose proof (word32_be32 p Hp) as W. unfold be32 in *. cbn [app xresp_send] in St. rewrite W in St.
  rewrite X, C in St. unfold xpipe_tryput in St. rewrite C, B in St. cbn [negb] in St. now inversion St.
Qed.
Theorem xresp_send_unknown_pipe_discards fx s a m id h :
  xresp_send (pm_hdr m) = Some (id, h) -> kget id (xr_pipes s) = None ->
  xresp_step fx s (PSend None a false m) = (s, [Complete a E_OK None; Free (mkPmsg h (pm_body m))]).
Proof. intros H X. cbn [xresp_step andb]. now rewrite H, X. Qed.
Theorem xresp_send_short_header_discards fx s a m :
  xresp_send (pm_hdr m) = None -> xresp_step fx s (PSend None a false m) = (s, [Complete a E_OK None; Free m]).
Proof. intros H. cbn [xresp_step andb]. now rewrite H. Qed.

(* ---- the upper read queue: invariant of the repaired msgqueue.c ---- *)
(* blocked readers mean: nothing queued, no writer waiting; blocked writers mean: the queue is full.
   The second half is what e654d99 (aio_get runs the writers) and 65cda67 (resize runs both) establish. *)
Definition UInv (u : urq) : Prop :=
  (uq_readers u <> [] -> uq_q u = [] /\ uq_writers u = []) /\
  (uq_writers u <> [] -> uq_cap u <= length (uq_q u)).

Lemma run_putq_inv : forall f u, length (uq_writers u) < f -> (uq_readers u <> [] -> uq_q u = []) ->
  UInv (fst (run_putq f u)) /\ uq_cap (fst (run_putq f u)) = uq_cap u /\
  (uq_readers u = [] -> uq_readers (fst (run_putq f u)) = []).
Proof.
  induction f as [|f IH]; intros u Hf Hq; [lia|]. cbn [run_putq].
  destruct (uq_writers u) as [|[p m] ws] eqn:W.
  - cbn [fst]. split; [|auto]. split; [intros R; split; auto|rewrite W; congruence].
  - cbn [length] in Hf. destruct (uq_readers u) as [|a rs] eqn:R.
    + destruct (length (uq_q u) <? uq_cap u) eqn:L.
      * specialize (IH (mkUrq (uq_q u ++ [m]) (uq_cap u) [] ws)). cbn [uq_writers uq_readers uq_q uq_cap] in IH.
        destruct (run_putq f (mkUrq (uq_q u ++ [m]) (uq_cap u) [] ws)) as [u' o]. cbn [fst] in *.
        destruct IH as (A & B & C); [lia|congruence|]. auto.
      * cbn [fst]. apply Nat.ltb_ge in L. split; [|auto]. split; [rewrite R; congruence|auto].
    + specialize (IH (mkUrq (uq_q u) (uq_cap u) rs ws)). cbn [uq_writers uq_readers uq_q uq_cap] in IH.
      destruct (run_putq f (mkUrq (uq_q u) (uq_cap u) rs ws)) as [u' o]. cbn [fst] in *.
      destruct IH as (A & B & C); [lia|intros _; apply Hq; congruence|]. split; [auto|]. split; [auto|discriminate].
Qed.
Lemma run_getq_inv : forall f u, length (uq_readers u) < f ->
  (uq_readers (fst (run_getq f u)) <> [] -> uq_q (fst (run_getq f u)) = [] /\ uq_writers (fst (run_getq f u)) = []) /\
  uq_cap (fst (run_getq f u)) = uq_cap u.
Proof.
  induction f as [|f IH]; intros u Hf; [lia|]. cbn [run_getq].
  destruct (uq_readers u) as [|a rs] eqn:R; [cbn [fst]; rewrite R; split; [congruence|auto]|]. cbn [length] in Hf.
  destruct (uq_q u) as [|m q'] eqn:Q.
  - destruct (uq_writers u) as [|[p m] ws] eqn:W.
    + cbn [fst]. split; auto.
    + specialize (IH (mkUrq [] (uq_cap u) rs ws)). cbn [uq_readers uq_cap] in IH.
      destruct (run_getq f (mkUrq [] (uq_cap u) rs ws)) as [u' o]. cbn [fst] in *. apply IH. lia.
  - specialize (IH (mkUrq q' (uq_cap u) rs (uq_writers u))). cbn [uq_readers uq_cap] in IH.
    destruct (run_getq f (mkUrq q' (uq_cap u) rs (uq_writers u))) as [u' o]. cbn [fst] in *. apply IH. lia.
Qed.
Lemma run_getq_idle f u : (uq_readers u <> [] -> uq_q u = [] /\ uq_writers u = []) -> run_getq f u = (u, []).
Proof.
  intros H. destruct f; [reflexivity|]. cbn [run_getq]. destruct (uq_readers u) eqn:R; [reflexivity|].
  destruct H as [A B]; [congruence|]. now rewrite A, B.
Qed.

Lemma uinv_init : UInv urq_init. Proof. split; cbn; intros H; congruence. Qed.
(* a pipe's message put to the queue (xsurv0/xresp0 recv_cb -> nni_msgq_aio_put) *)
Theorem uinv_put u p m : UInv u -> UInv (fst (urq_put u p m)) /\ uq_cap (fst (urq_put u p m)) = uq_cap u.
Proof.
  intros [A B]. unfold urq_put.
  destruct (run_putq_inv (S (length (uq_writers (mkUrq (uq_q u) (uq_cap u) (uq_readers u) (uq_writers u ++ [(p, m)])))))
                         (mkUrq (uq_q u) (uq_cap u) (uq_readers u) (uq_writers u ++ [(p, m)]))) as (X & Y & _).
  - lia.
  - cbn. intros R. now apply A.
  - split; [exact X|exact Y].
Qed.
(* a user receive with the repair e654d99: from ANY queue state the result satisfies the invariant *)
Theorem uinv_get fx u a : mf_getput fx = true -> UInv (fst (urq_get_fx fx u a)) /\ uq_cap (fst (urq_get_fx fx u a)) = uq_cap u.
Proof.
  intros G. unfold urq_get_fx, urq_get. rewrite G.
  set (u0 := mkUrq (uq_q u) (uq_cap u) (uq_readers u ++ [a]) (uq_writers u)).
  destruct (run_getq_inv (S (length (uq_readers u0))) u0 ltac:(lia)) as [X Y].
  destruct (run_getq (S (length (uq_readers u0))) u0) as [u1 o1]. cbn [fst] in X, Y.
  destruct (run_putq_inv (S (length (uq_writers u1))) u1 ltac:(lia)) as (P & Q & _).
  - intros R. now apply X.
  - destruct (run_putq (S (length (uq_writers u1))) u1) as [u2 o2]. cbn [fst] in *. split; [exact P|]. rewrite Q, Y. reflexivity.
Qed.
(* ... which the pinned nni_msgq_aio_get does not: a reader takes the buffered message and the blocked writer
   keeps waiting although there is room now *)
Theorem raw_get_leaves_writer_blocked_refuted :
  exists u a, UInv u /\ ~ UInv (fst (urq_get_fx mqfix_none u a)) /\ UInv (fst (urq_get_fx mqfix_all u a)).
Proof.
  exists (mkUrq [mkPmsg [] [1%N]] 1 [] [(5%N, mkPmsg [] [2%N])]), 1%N. split; [|split].
  - split; cbn; [congruence|lia].
  - cbn. intros [_ B]. cbn in B. specialize (B ltac:(discriminate)). lia.
  - apply uinv_get. reflexivity.
Qed.
Theorem uinv_resize fx u n : mf_resize fx = true -> UInv u -> UInv (fst (urq_resize fx u n)).
Proof.
  intros G [A B]. unfold urq_resize. rewrite G.
  set (u1 := mkUrq (skipn (length (uq_q u) - (n + 1)) (uq_q u)) n (uq_readers u) (uq_writers u)).
  destruct (run_putq_inv (S (length (uq_writers u1))) u1 ltac:(lia)) as (P & Q & _).
  - cbn. intros R. destruct (A R) as [E _]. rewrite E. now rewrite skipn_nil.
  - destruct (run_putq (S (length (uq_writers u1))) u1) as [u2 o2]. cbn [fst] in *.
    rewrite (run_getq_idle _ u2 (proj1 P)). cbn [fst]. exact P.
Qed.
Lemma uinv_cancel u a rv : UInv u -> UInv (fst (urq_cancel u a rv)).
Proof.
  intros [A B]. unfold urq_cancel. destruct (has_id a (uq_readers u)); cbn [fst]; [|split; auto].
  split; cbn; [|exact B]. intros R. apply A. intros E. rewrite E in R. now apply R.
Qed.
Lemma uinv_drop_writer u p : UInv u -> UInv (fst (urq_drop_writer u p)).
Proof.
  intros [A B]. unfold urq_drop_writer. cbn [fst]. split; cbn.
  - intros R. destruct (A R) as [E1 E2]. now rewrite E1, E2.
  - intros W. apply B. intros E. rewrite E in W. now apply W.
Qed.
Lemma uinv_close u : UInv (fst (urq_close u)).
Proof. unfold urq_close. cbn. split; cbn; congruence. Qed.
Lemma uinv_user_recv fx u a nb : mf_getput fx = true -> UInv u -> UInv (fst (urq_user_recv fx u a nb)).
Proof. intros G H. unfold urq_user_recv. destruct (nb && _); [exact H|]. now apply uinv_get. Qed.
Lemma uinv_setopt fx ttl u uw c op : mf_resize fx = true -> UInv u ->
  UInv (snd (fst (fst (raw_setopt fx ttl u uw c op)))).
Proof.
  intros G H. unfold raw_setopt. destruct c; [destruct op; exact H|]. destruct op; try exact H.
  - destruct (_ <? _)%N; exact H.
  - destruct (_ <? _)%N; [exact H|]. pose proof (uinv_resize fx u n G H) as R. destruct (urq_resize fx u n). exact R.
  - destruct (_ && _); exact H.
Qed.
(* every step of the raw surveyor / raw respondent keeps it, given the two msgqueue.c repairs *)
Theorem xsurv_urq_inv fx s o s' outs : mf_resize fx = true -> mf_getput fx = true ->
  UInv (xs_urq s) -> xsurv_step fx s o = (s', outs) -> UInv (xs_urq s').
Proof.
  intros G1 G2 H St. destruct o as [c a nb m|c a nb|a rv|p peer|p|p rv|p rv m|c op|c|c| |now]; cbn [xsurv_step] in St.
  - destruct (nb && _); [inversion St; subst; exact H|]. destruct (xfanout m (xs_pipes s)). inversion St; subst. exact H.
  - pose proof (uinv_user_recv fx (xs_urq s) a nb G2 H) as R. destruct (urq_user_recv fx (xs_urq s) a nb). inversion St; subst. exact R.
  - pose proof (uinv_cancel (xs_urq s) a rv H) as R. destruct (urq_cancel (xs_urq s) a rv). inversion St; subst. exact R.
  - destruct (negb _); inversion St; subst; exact H.
  - destruct (kget p (xs_pipes s)); [|inversion St; subst; exact H].
    pose proof (uinv_drop_writer (xs_urq s) p H) as R. destruct (urq_drop_writer (xs_urq s) p). inversion St; subst. exact R.
  - destruct (kget p (xs_pipes s)); [|inversion St; subst; exact H]. destruct (xpipe_sent p x rv). inversion St; subst. exact H.
  - destruct (negb _); [inversion St; subst; exact H|]. destruct (xsurv_recv (pm_body m)); try (inversion St; subst; exact H).
    destruct (kget p (xs_pipes s)) as [x|]; [|inversion St; subst; exact H]. destruct (xp_closed x); [inversion St; subst; exact H|].
    pose proof (uinv_put (xs_urq s) p (mkPmsg (pm_hdr m ++ hdr) body) H) as [R _]. destruct (urq_put _ _ _). inversion St; subst. exact R.
  - pose proof (uinv_setopt fx (xs_ttl s) (xs_urq s) (xs_uwcap s) c op G1 H) as R.
    destruct (raw_setopt fx (xs_ttl s) (xs_urq s) (xs_uwcap s) c op) as [[[t u] w] o1]. inversion St; subst. exact R.
  - inversion St; subst; exact H.
  - inversion St; subst; exact H.
  - pose proof (uinv_close (xs_urq s)) as R. destruct (urq_close (xs_urq s)). inversion St; subst. exact R.
  - inversion St; subst; exact H.
Qed.
Theorem xresp_urq_inv fx s o s' outs : mf_resize fx = true -> mf_getput fx = true ->
  UInv (xr_urq s) -> xresp_step fx s o = (s', outs) -> UInv (xr_urq s').
Proof.
  intros G1 G2 H St. destruct o as [c a nb m|c a nb|a rv|p peer|p|p rv|p rv m|c op|c|c| |now]; cbn [xresp_step] in St.
  - destruct (nb && _); [inversion St; subst; exact H|]. destruct (xresp_send (pm_hdr m)) as [[id h]|]; [|inversion St; subst; exact H].
    destruct (kget id (xr_pipes s)) as [x|]; [|inversion St; subst; exact H]. destruct (xp_closed x); [inversion St; subst; exact H|].
    destruct (xpipe_tryput _ _ _ _). inversion St; subst. exact H.
  - pose proof (uinv_user_recv fx (xr_urq s) a nb G2 H) as R. destruct (urq_user_recv fx (xr_urq s) a nb). inversion St; subst. exact R.
  - pose proof (uinv_cancel (xr_urq s) a rv H) as R. destruct (urq_cancel (xr_urq s) a rv). inversion St; subst. exact R.
  - destruct (negb _); inversion St; subst; exact H.
  - destruct (kget p (xr_pipes s)); [|inversion St; subst; exact H].
    pose proof (uinv_drop_writer (xr_urq s) p H) as R. destruct (urq_drop_writer (xr_urq s) p). inversion St; subst. exact R.
  - destruct (kget p (xr_pipes s)); [|inversion St; subst; exact H]. destruct (xpipe_sent p x rv). inversion St; subst. exact H.
  - destruct (negb _); [inversion St; subst; exact H|]. destruct (xresp_recv p (xr_ttl s) (pm_body m)); try (inversion St; subst; exact H).
    destruct (kget p (xr_pipes s)) as [x|]; [|inversion St; subst; exact H]. destruct (xp_closed x); [inversion St; subst; exact H|].
    pose proof (uinv_put (xr_urq s) p (mkPmsg (pm_hdr m ++ hdr) body) H) as [R _]. destruct (urq_put _ _ _). inversion St; subst. exact R.
  - pose proof (uinv_setopt fx (xr_ttl s) (xr_urq s) (xr_uwcap s) c op G1 H) as R.
    destruct (raw_setopt fx (xr_ttl s) (xr_urq s) (xr_uwcap s) c op) as [[[t u] w] o1]. inversion St; subst. exact R.
  - inversion St; subst; exact H.
  - inversion St; subst; exact H.
  - pose proof (uinv_close (xr_urq s)) as R. destruct (urq_close (xr_urq s)). inversion St; subst. exact R.
  - inversion St; subst; exact H.
Qed.

(* ---- NONBLOCK on the upper read queue ---- *)
(* repaired msgqueue.c: EAGAIN exactly when the receive would have to wait, and then nothing changes *)
Lemma run_putq_keeps f : forall u, uq_readers u = [] -> uq_readers (fst (run_putq f u)) = [].
Proof.
  induction f as [|f IH]; intros u R; [exact R|]. cbn [run_putq]. destruct (uq_writers u) as [|[p m] ws]; [exact R|].
  rewrite R. destruct (_ <? _); [|exact R].
  specialize (IH (mkUrq (uq_q u ++ [m]) (uq_cap u) [] ws) eq_refl). destruct (run_putq f _). exact IH.
Qed.
Theorem urq_nb_recv_immediate_fx fx u a u' outs : mf_nb fx = true ->
  urq_user_recv fx u a true = (u', outs) ->
  (urq_get_waits u = true -> u' = u /\ outs = [Complete a E_AGAIN None]) /\
  (urq_get_waits u = false -> exists m r, outs = Complete a E_OK (Some m) :: r /\ uq_readers u' = []).
Proof.
  intros NB. unfold urq_user_recv. rewrite NB. cbn [negb orb andb]. destruct (urq_get_waits u) eqn:W; intros H.
  - inversion H; subst. split; [auto|discriminate].
  - split; [discriminate|]. intros _. unfold urq_get_waits in W. apply orb_false_iff in W as [W1 W2].
    destruct (uq_readers u) eqn:R; [|discriminate]. unfold urq_get_fx, urq_get in H. rewrite R in H. cbn [app length run_getq uq_readers] in H.
    assert (K: forall u1 m r0, uq_readers u1 = [] ->
              (if mf_getput fx then let (u2, o2) := run_putq (S (length (uq_writers u1))) u1 in (u2, (Complete a E_OK (Some m) :: r0) ++ o2)
               else (u1, Complete a E_OK (Some m) :: r0)) = (u', outs) ->
              exists m' r, outs = Complete a E_OK (Some m') :: r /\ uq_readers u' = []).
    { intros u1 m r0 R1 E. destruct (mf_getput fx).
      - pose proof (run_putq_keeps (S (length (uq_writers u1))) u1 R1) as KK. destruct (run_putq _ u1) as [u2 o2]. inversion E; subst. cbn. eauto.
      - inversion E; subst. eauto. }
    destruct (uq_q u) as [|m q'] eqn:Q.
    + destruct (uq_writers u) as [|[p m] ws] eqn:Wr; [cbn in W2; discriminate|]. cbn [uq_readers uq_q uq_writers uq_cap] in H.
      eapply (K (mkUrq [] (uq_cap u) [] ws) m [TranRecv p]); [reflexivity|exact H].
    + cbn [uq_readers uq_q uq_writers uq_cap] in H. eapply (K (mkUrq q' (uq_cap u) [] (uq_writers u)) m []); [reflexivity|exact H].
Qed.
Theorem urq_nb_recv_immediate u a u' outs :
  urq_user_recv mqfix_all u a true = (u', outs) ->
  (urq_get_waits u = true -> u' = u /\ outs = [Complete a E_AGAIN None]) /\
  (urq_get_waits u = false -> exists m r, outs = Complete a E_OK (Some m) :: r /\ uq_readers u' = []).
Proof. apply urq_nb_recv_immediate_fx. reflexivity. Qed.
(* pinned msgqueue.c (nni_aio_start first): a message is queued, the descriptor raised, NONBLOCK receive = EAGAIN *)
Theorem urq_nb_recv_refuted :
  exists u a, urq_recvable u = true /\ urq_get_waits u = false /\ urq_user_recv mqfix_none u a true = (u, [Complete a E_AGAIN None]).
Proof. exists (mkUrq [mkPmsg [] [1%N]] 1 [] []), 1%N. repeat split. Qed.
(* the receive descriptor of the raw sockets (evaluated by run_notify when fetched) mirrors "would not wait",
   as long as no reader is blocked (a blocked reader means: nothing is there) *)
(* on every reachable state of the repaired queue (UInv) the mirror is exact *)
Theorem urq_recvable_mirror_inv u : UInv u -> urq_recvable u = negb (urq_get_waits u).
Proof.
  intros [A _]. unfold urq_recvable, urq_get_waits. destruct (uq_readers u) eqn:R; cbn [isnil negb orb].
  - destruct (uq_q u), (uq_writers u); reflexivity.
  - destruct A as [E1 E2]; [congruence|]. now rewrite E1, E2.
Qed.
Theorem urq_recvable_mirror u : uq_readers u = [] -> urq_recvable u = negb (urq_get_waits u).
Proof.
  intros R. unfold urq_recvable, urq_get_waits. rewrite R. cbn [isnil negb orb].
  destruct (uq_q u), (uq_writers u); reflexivity.
Qed.
(* NONBLOCK send on a raw socket (repaired): the socket's reader always waits, so it is accepted at once *)
Theorem xsurv_nb_send_immediate s a m s' outs c :
  xsurv_step mqfix_all s (PSend c a true m) = (s', outs) -> exists r, outs = Complete a E_OK None :: r.
Proof. cbn [xsurv_step mqfix_all mf_nb negb andb]. destruct (xfanout m (xs_pipes s)). intros H. inversion H. eauto. Qed.
Theorem xresp_nb_send_immediate s a m s' outs c :
  xresp_step mqfix_all s (PSend c a true m) = (s', outs) -> exists r, outs = Complete a E_OK None :: r.
Proof.
  cbn [xresp_step mqfix_all mf_nb negb andb]. destruct (xresp_send (pm_hdr m)) as [[id h]|]; [|intros H; inversion H; eauto].
  destruct (kget id (xr_pipes s)) as [x|]; [|intros H; inversion H; eauto].
  destruct (xp_closed x); [intros H; inversion H; eauto|]. destruct (xpipe_tryput _ _ _ _). intros H; inversion H; eauto.
Qed.
Theorem xsurv_nb_send_refuted : exists s a m, snd (xsurv_step mqfix_none s (PSend None a true m)) = [Complete a E_AGAIN None] /\
  xsurv_poll s = mkPoll (Some false) (Some true).
Proof. exists xsurv_init, 1%N, (mkPmsg [] []). split; reflexivity. Qed.

(* ---- fan-out of the raw surveyor: one copy offered to each pipe, sent at once if the pipe is idle ---- *)
Theorem xfanout_idle_pipes m l :
  Forall (fun px => xp_closed (snd px) = false /\ xp_busy (snd px) = false) l ->
  snd (xfanout m l) = map (fun px => TranSend (fst px) m) l.
Proof.
  induction l as [|[p x] l IH]; cbn [xfanout snd map]; [auto|]. intros H. inversion H as [|? ? [C B] Hr]; subst. cbn [snd] in C, B.
  specialize (IH Hr). destruct (xfanout m l) as [r o]. cbn [snd] in IH. rewrite C. unfold xpipe_tryput. rewrite C, B. cbn [negb snd app fst]. now rewrite IH.
Qed.

(* ---- the receive descriptor of the raw sockets: exact mirror on every state satisfying the invariant ---- *)
Theorem xsurv_poll_r_mirror fx s a : mf_nb fx = true -> UInv (xs_urq s) ->
  (poll_r (xsurv_poll s) = Some true <-> snd (xsurv_step fx s (PRecv None a true)) <> [Complete a E_AGAIN None]).
Proof.
  intros NB H. cbn [xsurv_poll poll_r xsurv_step]. rewrite (urq_recvable_mirror_inv _ H).
  destruct (urq_user_recv fx (xs_urq s) a true) as [u' o] eqn:E. cbn [snd].
  destruct (urq_nb_recv_immediate_fx fx _ _ _ _ NB E) as [A B]. destruct (urq_get_waits (xs_urq s)); cbn [negb].
  - destruct (A eq_refl) as [_ ->]. split; [discriminate|congruence].
  - destruct (B eq_refl) as (m & r & -> & _). split; [intros _; discriminate|reflexivity].
Qed.
Theorem xresp_poll_r_mirror fx s a : mf_nb fx = true -> UInv (xr_urq s) ->
  (poll_r (xresp_poll s) = Some true <-> snd (xresp_step fx s (PRecv None a true)) <> [Complete a E_AGAIN None]).
Proof.
  intros NB H. cbn [xresp_poll poll_r xresp_step]. rewrite (urq_recvable_mirror_inv _ H).
  destruct (urq_user_recv fx (xr_urq s) a true) as [u' o] eqn:E. cbn [snd].
  destruct (urq_nb_recv_immediate_fx fx _ _ _ _ NB E) as [A B]. destruct (urq_get_waits (xr_urq s)); cbn [negb].
  - destruct (A eq_refl) as [_ ->]. split; [discriminate|congruence].
  - destruct (B eq_refl) as (m & r & -> & _). split; [intros _; discriminate|reflexivity].
Qed.
(* the send descriptor of the raw sockets is always raised and a NONBLOCK send is always accepted (repaired) *)
Theorem xsurv_poll_w_mirror s : poll_w (xsurv_poll s) = Some true. Proof. reflexivity. Qed.
Theorem xresp_poll_w_mirror s : poll_w (xresp_poll s) = Some true. Proof. reflexivity. Qed.
