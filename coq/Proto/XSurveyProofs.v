(* XSurveyProofs: raw SURVEYOR / RESPONDENT (XSurveyModel, XRespondModel): the receive callbacks are the
   pure backtrace functions, the raw respondent's send pops the pipe id and routes; NONBLOCK on the upper
   queues (holds with the msgqueue.c repair, refuted without it); the receive descriptor. *)
From Coq Require Import List Arith NArith Bool ZArith Lia.
From NngV Require Import Proto.Common Proto.SurveyBacktrace Proto.SurveyModel Proto.XSurveyModel Proto.XRespondModel Proto.SurveyProofs.
Import ListNotations.

(* ---- raw respondent receive = xresp_recv (push pipe id, move words, TTL) ---- *)
Theorem xresp_recv_drop fx s p m :
  xresp_recv p (xr_ttl s) (pm_body m) = BtDrop -> xresp_step fx s (PRecvDone p 0 m) = (s, [Free m; TranRecv p]).
Proof. intros H. cbn [xresp_step N.eqb negb]. now rewrite H. Qed.
Theorem xresp_recv_close fx s p m :
  xresp_recv p (xr_ttl s) (pm_body m) = BtClose -> xresp_step fx s (PRecvDone p 0 m) = (s, [Free m; ClosePipe p]).
Proof. intros H. cbn [xresp_step N.eqb negb]. now rewrite H. Qed.
Theorem xresp_recv_deliver fx s p m h b x s' outs :
  pm_hdr m = [] -> xresp_recv p (xr_ttl s) (pm_body m) = BtDeliver h b ->
  kget p (xr_pipes s) = Some x -> xp_closed x = false ->
  xresp_step fx s (PRecvDone p 0 m) = (s', outs) ->
  (s', outs) = (let (u', o1) := urq_put (xr_urq s) p (mkPmsg h b) in (mkXresp (xr_pipes s) u' (xr_uwcap s) (xr_ttl s), o1)).
Proof. intros H0 H X C St. cbn [xresp_step N.eqb negb] in St. rewrite H, X, C, H0 in St. cbn [app] in St. now rewrite <- St. Qed.
(* a waiting reader gets exactly that message, header = pipe id ++ backtrace *)
Theorem urq_put_to_reader u p m a rs :
  uq_readers u = a :: rs -> uq_writers u = [] ->
  urq_put u p m = (mkUrq (uq_q u) (uq_cap u) rs [], [Complete a E_OK (Some m); TranRecv p]).
Proof. intros R W. unfold urq_put. rewrite W. cbn [app length run_putq uq_writers uq_readers]. rewrite R. cbn. reflexivity. Qed.

(* ---- raw surveyor receive = xsurv_recv ---- *)
Theorem xsurv_recv_malformed fx s p m :
  (forall h b, xsurv_recv (pm_body m) <> BtDeliver h b) -> xsurv_step fx s (PRecvDone p 0 m) = (s, [Free m; ClosePipe p]).
Proof. intros H. cbn [xsurv_step N.eqb negb]. destruct (xsurv_recv (pm_body m)) eqn:E; auto. exfalso. eapply H; eauto. Qed.

(* ---- raw respondent send: the first header word names the pipe and is removed ---- *)
Theorem xresp_send_routes fx s a m p bt x s' outs :
  (p < 4294967296)%N -> pm_hdr m = be32 p ++ bt -> kget p (xr_pipes s) = Some x -> xp_closed x = false -> xp_busy x = false ->
  xresp_step fx s (PSend None a false m) = (s', outs) ->
  outs = [Complete a E_OK None; TranSend p (mkPmsg bt (pm_body m))].
Proof.
  intros Hp H X C B St. cbn [xresp_step andb] in St. rewrite H in St.
  pose proof (word32_be32 p Hp) as W. unfold be32 in *. cbn [app xresp_send] in St. rewrite W in St.
  rewrite X, C in St. unfold xpipe_tryput in St. rewrite C, B in St. cbn [negb] in St. now inversion St.
Qed.
Theorem xresp_send_unknown_pipe_discards fx s a m id h :
  xresp_send (pm_hdr m) = Some (id, h) -> kget id (xr_pipes s) = None ->
  xresp_step fx s (PSend None a false m) = (s, [Complete a E_OK None; Free (mkPmsg h (pm_body m))]).
Proof. intros H X. cbn [xresp_step andb]. now rewrite H, X. Qed.
Theorem xresp_send_short_header_discards fx s a m :
  xresp_send (pm_hdr m) = None -> xresp_step fx s (PSend None a false m) = (s, [Complete a E_OK None; Free m]).
Proof. intros H. cbn [xresp_step andb]. now rewrite H. Qed.

(* ---- NONBLOCK on the upper read queue ---- *)
(* repaired msgqueue.c: EAGAIN exactly when the receive would have to wait, and then nothing changes *)
Theorem urq_nb_recv_immediate u a u' outs :
  urq_user_recv mqfix_all u a true = (u', outs) ->
  (urq_get_waits u = true -> u' = u /\ outs = [Complete a E_AGAIN None]) /\
  (urq_get_waits u = false -> exists m r, outs = Complete a E_OK (Some m) :: r /\ uq_readers u' = []).
Proof.
  unfold urq_user_recv. cbn [mqfix_all mf_nb negb orb andb]. destruct (urq_get_waits u) eqn:W; intros H.
  - inversion H; subst. split; [auto|discriminate].
  - split; [discriminate|]. intros _. unfold urq_get_waits in W. apply orb_false_iff in W as [W1 W2].
    destruct (uq_readers u) eqn:R; [|discriminate]. unfold urq_get in H. rewrite R in H. cbn [app length run_getq uq_readers] in H.
    destruct (uq_q u) as [|m q'] eqn:Q.
    + destruct (uq_writers u) as [|[p m] ws] eqn:Wr; [cbn in W2; discriminate|]. cbn in H. inversion H; subst. eauto.
    + cbn in H. inversion H; subst. eauto.
Qed.
(* pinned msgqueue.c (nni_aio_start first): a message is queued, the descriptor raised, NONBLOCK receive = EAGAIN *)
Theorem urq_nb_recv_refuted :
  exists u a, urq_recvable u = true /\ urq_get_waits u = false /\ urq_user_recv mqfix_none u a true = (u, [Complete a E_AGAIN None]).
Proof. exists (mkUrq [mkPmsg [] [1%N]] 1 [] []), 1%N. repeat split. Qed.
(* the receive descriptor of the raw sockets (evaluated by run_notify when fetched) mirrors "would not wait",
   as long as no reader is blocked (a blocked reader means: nothing is there) *)
Theorem urq_recvable_mirror u : uq_readers u = [] -> urq_recvable u = negb (urq_get_waits u).
Proof.
  intros R. unfold urq_recvable, urq_get_waits. rewrite R. cbn [isnil negb orb].
  destruct (uq_q u), (uq_writers u); reflexivity.
Qed.
(* NONBLOCK send on a raw socket (repaired): the socket's reader always waits, so it is accepted at once *)
Theorem xsurv_nb_send_immediate s a m s' outs c :
  xsurv_step mqfix_all s (PSend c a true m) = (s', outs) -> exists r, outs = Complete a E_OK None :: r.
Proof. cbn [xsurv_step mqfix_all mf_nb negb andb]. destruct (xfanout m (xs_pipes s)). intros H. inversion H. eauto. Qed.
Theorem xresp_nb_send_immediate s a m s' outs c :
  xresp_step mqfix_all s (PSend c a true m) = (s', outs) -> exists r, outs = Complete a E_OK None :: r.
Proof.
  cbn [xresp_step mqfix_all mf_nb negb andb]. destruct (xresp_send (pm_hdr m)) as [[id h]|]; [|intros H; inversion H; eauto].
  destruct (kget id (xr_pipes s)) as [x|]; [|intros H; inversion H; eauto].
  destruct (xp_closed x); [intros H; inversion H; eauto|]. destruct (xpipe_tryput _ _ _ _). intros H; inversion H; eauto.
Qed.
Theorem xsurv_nb_send_refuted : exists s a m, snd (xsurv_step mqfix_none s (PSend None a true m)) = [Complete a E_AGAIN None] /\
  xsurv_poll s = mkPoll (Some false) (Some true).
Proof. exists xsurv_init, 1%N, (mkPmsg [] []). split; reflexivity. Qed.

(* ---- fan-out of the raw surveyor: one copy offered to each pipe, sent at once if the pipe is idle ---- *)
Theorem xfanout_idle_pipes m l :
  Forall (fun px => xp_closed (snd px) = false /\ xp_busy (snd px) = false) l ->
  snd (xfanout m l) = map (fun px => TranSend (fst px) m) l.
Proof.
  induction l as [|[p x] l IH]; cbn [xfanout snd map]; [auto|]. intros H. inversion H as [|? ? [C B] Hr]; subst. cbn [snd] in C, B.
  specialize (IH Hr). destruct (xfanout m l) as [r o]. cbn [snd] in IH. rewrite C. unfold xpipe_tryput. rewrite C, B. cbn [negb snd app fst]. now rewrite IH.
Qed.
