(* RespondProofs: cooked RESPONDENT (RespondModel): the response goes to the origin of the survey most
   recently received by the context, once; ESTATE; the NONBLOCK send and the descriptor mirror (refuted on the
   pinned source, witnesses by computation). *)
From Coq Require Import List Arith NArith Bool ZArith Lia.
From NngV Require Import Proto.Common Proto.SurveyBacktrace Proto.SurveyModel Proto.RespondModel Proto.SurveyProofs.
Import ListNotations.

Definition rget_ctx (s : resp) (c : option ctxid) : option rctx := kget (ckey c) (rs_ctxs s).
Fixpoint rtxs (outs : list pout) : list (pid * pmsg) :=
  match outs with [] => [] | TranSend p m :: r => (p, m) :: rtxs r | _ :: r => rtxs r end.

(* send with no pending survey: NNG_ESTATE (blocking form; for the NONBLOCK form see the resp_nb_send theorems) *)
Theorem resp_send_estate fx s c a m cx s' outs :
  rget_ctx s c = Some cx -> rc_bt cx = [] ->
  resp_step fx s (PSend c a false m) = (s', outs) ->
  outs = [Complete a E_STATE None] /\ rs_ctxs s' = rs_ctxs s /\ rs_pipes s' = rs_pipes s.
Proof.
  unfold rget_ctx. intros G B St. cbn [resp_step] in St. rewrite G, B in St. cbn [andb] in St.
  destruct (N.eqb (ckey c) 0 && negb (rf_nb fx)); inversion St; subst; auto.
Qed.

(* a second receive on a context that already has one pending (and no survey is waiting): NNG_ESTATE, as coded *)
Theorem resp_second_recv_estate fx s c a cx a0 :
  rget_ctx s c = Some cx -> rc_raio cx = Some a0 -> rs_recvpipes s = [] ->
  resp_step fx s (PRecv c a false) = (s, [Complete a E_STATE None]).
Proof. unfold rget_ctx. intros G R P. cbn [resp_step]. now rewrite G, P, R. Qed.

(* receiving a survey records its origin: pipe and backtrace (both delivery paths) *)
Theorem resp_recv_records_origin_direct fx s c a nb cx p rest x msg tl s' outs :
  rget_ctx s c = Some cx -> rs_recvpipes s = p :: rest -> kget p (rs_pipes s) = Some x -> rp_rmsg x = msg :: tl ->
  resp_step fx s (PRecv c a nb) = (s', outs) ->
  outs = [TranRecv p; Complete a E_OK (Some (mkPmsg [] (pm_body msg)))] /\
  exists cx', rget_ctx s' c = Some cx' /\ rc_pipe cx' = p /\ rc_bt cx' = pm_hdr msg.
Proof.
  unfold rget_ctx. intros G P X M St. cbn [resp_step] in St. rewrite G, P, X, M in St. inversion St; subst.
  split; [reflexivity|]. cbn [rs_ctxs]. eexists. split; [apply kget_kset_eq|]. cbn. auto.
Qed.
Theorem resp_recv_records_origin_cb fx s p m hdr body x k rest c a s' outs :
  pm_hdr m = [] -> resp_recv (rs_ttl s) (pm_body m) = BtDeliver hdr body ->
  live_pipe p (rs_pipes s) = Some x -> rs_recvq s = k :: rest -> kget k (rs_ctxs s) = Some c -> rc_raio c = Some a ->
  resp_step fx s (PRecvDone p 0 m) = (s', outs) ->
  outs = [TranRecv p; Complete a E_OK (Some (mkPmsg [] body))] /\
  exists c', kget k (rs_ctxs s') = Some c' /\ rc_pipe c' = p /\ rc_bt c' = hdr /\ rc_raio c' = None.
Proof.
  intros H0 R L Q G A St. cbn [resp_step N.eqb negb] in St. rewrite R, L, Q, G, A, H0 in St. cbn [app pm_hdr] in St.
  inversion St; subst. split; [reflexivity|]. cbn [rs_ctxs]. eexists. split; [apply kget_kset_eq|]. cbn. auto.
Qed.

(* the response: to the pipe the survey came from and to no other, with the survey's backtrace, and the
   context's record is consumed, so that a second send fails with NNG_ESTATE.  Three outcomes: sent at once
   (pipe idle), discarded (pipe gone), queued on that pipe (busy) -- then it is transmitted on that pipe by
   resp_send_done_takes_queued below *)
Theorem resp_to_origin_once fx s c a m cx s' outs :
  rget_ctx s c = Some cx -> rc_bt cx <> [] -> (rf_sbusy fx = true -> rc_saio cx = None) ->
  resp_step fx s (PSend c a false m) = (s', outs) ->
  (exists cx', rget_ctx s' c = Some cx' /\ rc_bt cx' = [] /\ rc_pipe cx' = 0%N) /\
  (forall q w, In (q, w) (rtxs outs) -> q = rc_pipe cx /\ w = mkPmsg (rc_bt cx) (pm_body m)) /\
  length (rtxs outs) <= 1 /\
  match live_pipe (rc_pipe cx) (rs_pipes s) with
  | None => outs = [Complete a E_OK None; Free (mkPmsg (rc_bt cx) (pm_body m))]
  | Some x => if rp_busy x
              then outs = [] /\ exists cx', rget_ctx s' c = Some cx' /\ rc_saio cx' = Some (a, mkPmsg (rc_bt cx) (pm_body m))
              else outs = [TranSend (rc_pipe cx) (mkPmsg (rc_bt cx) (pm_body m)); Complete a E_OK None]
  end.
Proof.
  unfold rget_ctx. intros G B SB St. cbn [resp_step] in St. rewrite G in St. cbn [andb] in St.
  destruct (rc_bt cx) as [|b0 bt] eqn:BT; [congruence|].
  set (s0 := if (ckey c =? 0)%N && negb (rf_nb fx) then rset_w s false else s) in *.
  assert (P0: rs_pipes s0 = rs_pipes s /\ rs_ctxs s0 = rs_ctxs s) by (unfold s0; destruct (_ && _); auto).
  destruct P0 as [P0 C0]. rewrite P0 in St.
  assert (SB2: (rf_sbusy fx && match rc_saio cx with Some _ => true | None => false end) = false).
  { destruct (rf_sbusy fx); [rewrite SB; auto|auto]. }
  rewrite SB2, andb_false_r in St. cbn [andb] in St.
  destruct (live_pipe (rc_pipe cx) (rs_pipes s)) as [x|] eqn:LP.
  - destruct (rp_busy x) eqn:BU; cbn [negb] in St.
    + match type of St with (?st, ?o) = _ => assert (E: s' = st /\ outs = o) by (inversion St; auto) end.
      destruct E as [-> ->]. cbn [rtxs length rs_ctxs rset_ctxs rset_pipes]. repeat split; auto; try contradiction.
      * eexists. split; [apply kget_kset_eq|]. cbn. auto.
      * eexists. split; [apply kget_kset_eq|]. cbn. auto.
    + match type of St with (?st, ?o) = _ => assert (E: s' = st /\ outs = o) by (inversion St; auto) end.
      destruct E as [-> ->]. cbn [rtxs length rs_ctxs rset_ctxs rset_pipes]. repeat split; auto.
      * eexists. split; [apply kget_kset_eq|]. cbn. auto.
      * destruct H as [H|[]]. inversion H; auto.
      * destruct H as [H|[]]. inversion H; auto.
  - match type of St with (?st, ?o) = _ => assert (E: s' = st /\ outs = o) by (inversion St; auto) end.
    destruct E as [-> ->]. cbn [rtxs length rs_ctxs rset_ctxs]. repeat split; auto; try contradiction.
    eexists. split; [apply kget_kset_eq|]. cbn. auto.
Qed.

(* a queued response leaves on the pipe it was queued on when that pipe's previous transmission completes *)
Theorem resp_send_done_takes_queued fx s p x k rest c a m s' outs :
  kget p (rs_pipes s) = Some x -> rp_sendq x = k :: rest -> kget k (rs_ctxs s) = Some c -> rc_saio c = Some (a, m) ->
  resp_step fx s (PSendDone p 0) = (s', outs) ->
  outs = [TranSend p m; Complete a E_OK None].
Proof. intros X Q G A St. cbn [resp_step N.eqb negb] in St. rewrite X, Q, G, A in St. now inversion St. Qed.

(* ---- NONBLOCK send ---- *)
Definition resp_send_would_wait (s : resp) (c : option ctxid) : bool :=
  match rget_ctx s c with
  | Some cx => match rc_bt cx with
               | [] => false
               | _ => match rc_saio cx with
                      | Some _ => false
                      | None => match live_pipe (rc_pipe cx) (rs_pipes s) with Some x => rp_busy x | None => false end
                      end
               end
  | None => false
  end.
(* with all repairs: immediate completion, EAGAIN exactly when the blocking form would queue, state unchanged *)
Theorem resp_nb_send_immediate s c a m s' outs :
  resp_step rfix_all s (PSend c a true m) = (s', outs) ->
  exists rv, In (Complete a rv None) outs /\
    (rv = E_AGAIN <-> resp_send_would_wait s c = true) /\ (rv = E_AGAIN -> s' = s /\ outs = [Complete a E_AGAIN None]) /\
    (forall k cx', In (k, cx') (rs_ctxs s') -> forall w, rc_saio cx' = Some (a, w) -> exists cx, In (k, cx) (rs_ctxs s) /\ rc_saio cx = Some (a, w)).
Proof.
  intros St. cbn [resp_step rfix_all rf_nb rf_sbusy rf_wother negb andb] in St. unfold resp_send_would_wait, rget_ctx.
  rewrite andb_false_r in St. cbn [andb] in St.
  destruct (kget (ckey c) (rs_ctxs s)) as [cx|] eqn:G.
  2:{ inversion St; subst. exists E_CLOSED. repeat split; try discriminate; [now left|]. intros. eauto. }
  destruct (rc_bt cx) as [|b0 bt] eqn:BT.
  { inversion St; subst. exists E_STATE. repeat split; try discriminate; [now left|]. intros. eauto. }
  destruct (rc_saio cx) as [[a1 w1]|] eqn:SA.
  { inversion St; subst. exists E_STATE. repeat split; try discriminate; [now left|]. intros. eauto. }
  destruct (live_pipe (rc_pipe cx) (rs_pipes s)) as [x|] eqn:LP.
  - destruct (rp_busy x) eqn:BU; cbn [negb andb] in St.
    + inversion St; subst. exists E_AGAIN. repeat split; auto; [now left|]. intros. eauto.
    + match type of St with (?st, ?o) = _ => assert (E: s' = st /\ outs = o) by (inversion St; auto) end.
      destruct E as [-> ->]. exists E_OK. repeat split; try discriminate; [right; now left|].
      cbn [rs_ctxs rset_ctxs rset_pipes]. intros k cx' H w Hw.
      match type of H with In _ (kset _ _ (rs_ctxs ?z)) => assert (Z: rs_ctxs z = rs_ctxs s) by (destruct (_ || _); reflexivity) end.
      rewrite Z in H. apply in_kset_weak in H as [->|H]; [cbn in Hw; congruence|eauto].
  - match type of St with (?st, ?o) = _ => assert (E: s' = st /\ outs = o) by (inversion St; auto) end.
    destruct E as [-> ->]. exists E_OK. repeat split; try discriminate; [now left|].
    cbn [rs_ctxs rset_ctxs]. intros k cx' H w Hw.
    match type of H with In _ (kset _ _ (rs_ctxs ?z)) => assert (Z: rs_ctxs z = rs_ctxs s) by (destruct (_ || _); reflexivity) end.
    rewrite Z in H. apply in_kset_weak in H as [->|H]; [cbn in Hw; congruence|eauto].
Qed.

(* the pinned source (nni_aio_start first): a survey is pending, its pipe idle, the descriptor raised --
   and the NONBLOCK send fails with NNG_EAGAIN, clears the descriptor, while the blocking send succeeds *)
Definition resp_w1 : resp :=
  fst (resp_step rfix_none (fst (resp_step rfix_none (fst (resp_step rfix_none resp_init (PPipeStart 1%N PROTO_SURVEYOR)))
        (PRecvDone 1%N 0%N (mkPmsg [] [128%N; 0%N; 0%N; 1%N; 7%N])))) (PRecv None 1%N true)).
Theorem resp_nb_send_refuted :
  resp_poll resp_w1 = mkPoll (Some false) (Some true) /\ resp_send_would_wait resp_w1 None = false /\
  snd (resp_step rfix_none resp_w1 (PSend None 2%N true (mkPmsg [] [9%N]))) = [Complete 2%N E_AGAIN None] /\
  resp_poll (fst (resp_step rfix_none resp_w1 (PSend None 2%N true (mkPmsg [] [9%N])))) = mkPoll (Some false) (Some false) /\
  snd (resp_step rfix_none resp_w1 (PSend None 2%N false (mkPmsg [] [9%N]))) =
    [TranSend 1%N (mkPmsg [128%N; 0%N; 0%N; 1%N] [9%N]); Complete 2%N E_OK None].
Proof. repeat split; vm_compute; reflexivity. Qed.

(* descriptor mirror, refuted on the source as pinned at round 0 (each repaired since; the flags follow the source):
   (1) send descriptor raised although the survey's pipe is busy (resp0_ctx_recv raised it unconditionally);
   (2) receive descriptor raised although no survey waits (resp0_pipe_close did not clear it);
   (3) a second send while the first is queued enters the context twice in the pipe's list (the C panics) *)
Definition rrun (fx : resp_fix) (ops : list pop) : resp := fold_left (fun s o => fst (resp_step fx s o)) ops resp_init.
Definition resp_w_busy : list pop :=
  [PPipeStart 1%N PROTO_SURVEYOR; PRecvDone 1%N 0%N (mkPmsg [] [128%N; 0%N; 0%N; 1%N; 7%N]); PRecv None 1%N true;
   PSend None 2%N false (mkPmsg [] [9%N]); PRecvDone 1%N 0%N (mkPmsg [] [128%N; 0%N; 0%N; 2%N; 8%N]); PRecv None 3%N true].
Theorem resp_poll_w_mirror_refuted :
  resp_poll (rrun rfix_none resp_w_busy) = mkPoll (Some false) (Some true) /\ resp_send_would_wait (rrun rfix_none resp_w_busy) None = true /\
  resp_poll (rrun rfix_all resp_w_busy) = mkPoll (Some false) (Some false).
Proof. repeat split; vm_compute; reflexivity. Qed.
Definition resp_r_close : list pop :=
  [PPipeStart 1%N PROTO_SURVEYOR; PRecvDone 1%N 0%N (mkPmsg [] [128%N; 0%N; 0%N; 1%N; 7%N]); PPipeClose 1%N].
Theorem resp_poll_r_mirror_refuted :
  resp_poll (rrun rfix_none resp_r_close) = mkPoll (Some true) (Some false) /\
  snd (resp_step rfix_none (rrun rfix_none resp_r_close) (PRecv None 5%N true)) = [Complete 5%N E_AGAIN None] /\
  resp_poll (rrun rfix_all resp_r_close) = mkPoll (Some false) (Some false).
Proof. repeat split; vm_compute; reflexivity. Qed.
Definition resp_two_sends : list pop :=
  resp_w_busy ++ [PSend None 4%N false (mkPmsg [] [10%N]); PRecvDone 1%N 0%N (mkPmsg [] [128%N; 0%N; 0%N; 3%N; 8%N]); PRecv None 5%N true;
                  PSend None 6%N false (mkPmsg [] [11%N])].
Theorem resp_second_queued_send_refuted :
  (exists x, kget 1%N (rs_pipes (rrun rfix_none resp_two_sends)) = Some x /\ rp_sendq x = [0%N; 0%N]) /\
  (exists x, kget 1%N (rs_pipes (rrun rfix_all resp_two_sends)) = Some x /\ rp_sendq x = [0%N]) /\
  snd (resp_step rfix_all (rrun rfix_all (removelast resp_two_sends)) (PSend None 6%N false (mkPmsg [] [11%N]))) = [Complete 6%N E_STATE None].
Proof. split; [|split]; [eexists; split; vm_compute; reflexivity..|vm_compute; reflexivity]. Qed.
