(* PipelineProofs: PUSH || links || PULL*.  The links are the environment:
   whatever the pusher's transports took (per pipe) either has arrived at the
   puller on that pipe or is still in flight on it -- a lossless connection
   that stays up.  Under that law, conservation end to end. *)
From Coq Require Import List Arith NArith Bool Lia.
From NngV Require Import Proto.Common Proto.PushModel Proto.PullModel Proto.PushProofs Proto.PullProofs.
Import ListNotations.

(* what the pusher's transport took on pipe p during a history *)
Fixpoint wire_on (p : N) (tr : list (pop * push * list pout)) : list pmsg :=
  match tr with
  | [] => []
  | (PSendDone q rv, s, outs) :: r => (if N.eqb q p then wire s (PSendDone q rv) else []) ++ wire_on p r
  | _ :: r => wire_on p r
  end.
Fixpoint tr_wire (tr : list (pop * push * list pout)) : list pmsg :=
  match tr with [] => [] | (o, s, outs) :: r => wire s o ++ tr_wire r end.
Fixpoint tr_freed (tr : list (pop * push * list pout)) : list pmsg :=
  match tr with [] => [] | (o, s, outs) :: r => freed outs ++ tr_freed r end.

Lemma tr_out_split tr x : cnt x (tr_out tr) = cnt x (tr_wire tr) + cnt x (tr_freed tr).
Proof. induction tr as [|[[o s] outs] r IH]; cbn [tr_out tr_wire tr_freed]; [reflexivity|]. cnt_simp. lia. Qed.

Definition sumf (pipes : list N) (f : N -> nat) : nat := fold_right (fun p acc => f p + acc) 0 pipes.
Lemma sumf_add pipes f g : sumf pipes (fun p => f p + g p) = sumf pipes f + sumf pipes g.
Proof. unfold sumf. induction pipes; cbn; auto. lia. Qed.
Lemma sumf_ext pipes f g : (forall p, In p pipes -> f p = g p) -> sumf pipes f = sumf pipes g.
Proof.
  unfold sumf. induction pipes as [|a l IH]; cbn; intros H; [reflexivity|].
  rewrite H by (now left). rewrite IH; [reflexivity|]. intros; apply H; now right.
Qed.
Lemma sumf_indicator pipes q c : NoDup pipes -> In q pipes ->
  sumf pipes (fun p => if N.eqb q p then c else 0) = c.
Proof.
  unfold sumf. induction pipes as [|a l IH]; intros ND Hin; [destruct Hin|]. inversion ND; subst. cbn.
  destruct Hin as [->|Hin].
  - rewrite N.eqb_refl.
    assert (Z: fold_right (fun p acc => (if (q =? p)%N then c else 0) + acc) 0 l = 0).
    { clear - H1. induction l as [|z l IH]; cbn; auto.
      destruct (N.eqb_spec q z); [subst; exfalso; apply H1; now left|]. apply IH. intros Hz. apply H1. now right. }
    rewrite Z. lia.
  - destruct (N.eqb_spec q a); [subst; contradiction|]. now rewrite IH.
Qed.
Lemma sumf_zero pipes : sumf pipes (fun _ => 0) = 0.
Proof. unfold sumf. induction pipes; cbn; auto. Qed.

(* every message the transports took went out on exactly one pipe *)
Lemma wire_is_per_pipe tr x (pipes : list N) :
  NoDup pipes ->
  (forall o s outs q rv, In (o, s, outs) tr -> o = PSendDone q rv -> wire s o <> [] -> In q pipes) ->
  cnt x (tr_wire tr) = sumf pipes (fun p => cnt x (wire_on p tr)).
Proof.
  intros ND. induction tr as [|[[o s] outs] r IH]; intros Hin.
  - cbn [tr_wire wire_on]. now rewrite sumf_zero.
  - cbn [tr_wire]. rewrite cnt_app. rewrite IH by (intros ? ? ? ? ? Hi; eapply Hin; right; exact Hi). clear IH.
    assert (E: forall q rv, o = PSendDone q rv -> wire s o <> [] -> In q pipes)
      by (intros q rv Eo; eapply Hin; [left; reflexivity|exact Eo]).
    destruct o as [c a nb m|c a nb|a rv|p peer|p|p rv|p rv m| c op|c|c| |now]; cbn [wire_on]; try reflexivity.
    set (w := wire s (PSendDone p rv)) in *.
    rewrite (sumf_ext pipes (fun p0 => cnt x ((if (p =? p0)%N then w else []) ++ wire_on p0 r))
                            (fun p0 => (if (p =? p0)%N then cnt x w else 0) + cnt x (wire_on p0 r))).
    2:{ intros p0 _. rewrite cnt_app. destruct (p =? p0)%N; reflexivity. }
    rewrite sumf_add. f_equal.
    destruct (list_eq_dec pmsg_eq_dec w []) as [W0|W0].
    + rewrite W0. cbn. rewrite (sumf_ext pipes _ (fun _ => 0)); [now rewrite sumf_zero|].
      intros p0 _. destruct (p =? p0)%N; reflexivity.
    + rewrite sumf_indicator; auto. eapply E; eauto.
Qed.

Section Pipeline.
  Variable push_ops : list pop.
  Variable pipes : list N.                       (* the connections, one puller each *)
  Variable pull_ops : N -> list pop.             (* history of the puller behind pipe p *)
  Variable inflight : N -> list pmsg.            (* still on the link of pipe p at the end *)

  Let ptr := snd (push_run push_init push_ops).
  Let pfin := fst (push_run push_init push_ops).
  Let ltr (p : N) := snd (pull_run pull_init (pull_ops p)).
  Let lfin (p : N) := fst (pull_run pull_init (pull_ops p)).

  Hypothesis push_ok : ops_ok push_init push_ops.
  Hypothesis pipes_nodup : NoDup pipes.
  Hypothesis wire_pipes : forall o s outs q rv, In (o, s, outs) ptr -> o = PSendDone q rv -> wire s o <> [] -> In q pipes.
  (* the link law: lossless connections that stay up *)
  Hypothesis link_law : forall p x, In p pipes ->
    cnt x (wire_on p ptr) = cnt x (ptr_arrived (ltr p)) + cnt x (inflight p).

  Definition sum_over (f : N -> nat) : nat := sumf pipes f.
  Lemma sum_over_ext f g : (forall p, In p pipes -> f p = g p) -> sum_over f = sum_over g.
  Proof. apply sumf_ext. Qed.
  Lemma sum_over_add f g : sum_over (fun p => f p + g p) = sum_over f + sum_over g.
  Proof. apply sumf_add. Qed.

  (* multiset of messages accepted from (or discarded for) the pushing application
     = delivered to the pulling applications + still buffered / in flight / held
     + explicitly freed (send-buffer shrink, failed transport sends, pipes closed) *)
  Theorem pipeline_conservation x :
    cnt x (tr_accepted ptr) =
      sum_over (fun p => cnt x (ptr_delivered (ltr p)))
      + cnt x (owned pfin) + sum_over (fun p => cnt x (inflight p)) + sum_over (fun p => cnt x (lheld (lfin p)))
      + cnt x (tr_freed ptr) + sum_over (fun p => cnt x (ptr_freed (ltr p))).
  Proof.
    pose proof (push_run_law push_ops push_init (proj1 push_init_inv) (proj2 push_init_inv) push_ok) as PL.
    unfold ptr, pfin in *. destruct (push_run push_init push_ops) as [sf tr] eqn:R. cbn [fst snd] in *.
    destruct PL as (_ & _ & PL). specialize (PL x). rewrite cnt_app, cnt_app, tr_out_split in PL.
    change (cnt x (owned push_init)) with 0 in PL.
    rewrite (wire_is_per_pipe tr x pipes pipes_nodup wire_pipes) in PL.
    fold (sum_over (fun p => cnt x (wire_on p tr))) in PL.
    rewrite (sum_over_ext _ (fun p => cnt x (ptr_arrived (ltr p)) + cnt x (inflight p))) in PL
      by (intros; now apply link_law).
    rewrite sum_over_add in PL.
    assert (PU: sum_over (fun p => cnt x (ptr_arrived (ltr p))) =
                sum_over (fun p => cnt x (lheld (lfin p)) + (cnt x (ptr_delivered (ltr p)) + cnt x (ptr_freed (ltr p))))).
    { apply sum_over_ext. intros p _. unfold ltr, lfin.
      pose proof (pull_run_law (pull_ops p) pull_init pull_init_inv) as L.
      destruct (pull_run pull_init (pull_ops p)) as [lf lt]. cbn [fst snd]. destruct L as [_ L]. specialize (L x).
      rewrite !cnt_app in L. cbn in L. lia. }
    rewrite PU, !sum_over_add in PL. lia.
  Qed.
End Pipeline.
