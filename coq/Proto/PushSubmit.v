(* PushSubmit: PUSH hands messages to the transports in the order the application SUBMITTED
   them (DESIGN 11.8: order laws are stated over what the application did, not over what the
   implementation chose to accept).

   pend s   = the send buffer, then the blocked senders in queue order
   entered  = the message of a send that was not refused on the spot
   Every step of push_step_r fr (and of the guarded step push_step_g fc fr that is run against the
   code) satisfies      pend s ++ entered o outs = txs outs ++ pend s'
   unless it removes submitted messages on purpose (sub_loss: a cancelled / timed-out blocked send
   leaves with exactly its own message, a buffer shrink drops the excess, the socket close fails
   the waiters), in which case the right-hand side is an in-order sub-sequence and the multisets
   differ by exactly sub_loss.  The law needs QInv (a blocked sender => the buffer is full); the
   pinned push0_set_send_buf_len breaks QInv when the buffer grows under blocked senders, and the
   law is then FALSE (push_submission_order_refuted_pinned: sends 1 2 3 arrive as 3 1 2 -- finding
   push-resize-overtakes-blocked).  With the repaired resize (fr = true) it holds for every step.

   Also here: the repaired resize keeps PInv / conservation / the descriptor mirror
   (push_step_r_law, push_r_writable_mirror), and a pipe the protocol refuses at start takes
   nothing (push_rejected_pipe_takes_nothing). *)
From Coq Require Import List Arith NArith Bool Lia.
From NngV Require Import Gen.Consts Proto.Common Proto.PushModel Proto.PushGuard Proto.PushProofs.
Import ListNotations.

(* ---------------- in-order sub-sequences ---------------- *)
Inductive sublist {A} : list A -> list A -> Prop :=
| sl_nil : sublist [] []
| sl_skip x l1 l2 : sublist l1 l2 -> sublist l1 (x :: l2)
| sl_keep x l1 l2 : sublist l1 l2 -> sublist (x :: l1) (x :: l2).
Lemma sublist_refl {A} (l : list A) : sublist l l.
Proof. induction l; [apply sl_nil|apply sl_keep; assumption]. Qed.
Lemma sublist_nil_l {A} (l : list A) : sublist [] l.
Proof. induction l; [apply sl_nil|apply sl_skip; assumption]. Qed.
Lemma sublist_app {A} (a b c d : list A) : sublist a b -> sublist c d -> sublist (a ++ c) (b ++ d).
Proof. induction 1; cbn; intros; [assumption|apply sl_skip; auto|apply sl_keep; auto]. Qed.
Lemma sublist_trans {A} (l1 l2 l3 : list A) : sublist l1 l2 -> sublist l2 l3 -> sublist l1 l3.
Proof.
  intros H12 H23. revert l1 H12. induction H23; intros l0 H12.
  - exact H12.
  - apply sl_skip, IHsublist, H12.
  - inversion H12; subst; [apply sl_skip|apply sl_keep]; apply IHsublist; assumption.
Qed.
Lemma sublist_firstn {A} n (l : list A) : sublist (firstn n l) l.
Proof. revert n. induction l; intros [|n]; cbn; [apply sl_nil|apply sl_nil|apply sublist_nil_l|apply sl_keep; apply IHl]. Qed.
Lemma sublist_app_l {A} (a b : list A) : sublist a (a ++ b).
Proof. rewrite <- (app_nil_r a) at 1. apply sublist_app; [apply sublist_refl|apply sublist_nil_l]. Qed.
Lemma sublist_app_r {A} (a b : list A) : sublist b (a ++ b).
Proof. induction a; cbn; [apply sublist_refl|apply sl_skip; assumption]. Qed.
Lemma sublist_map {A B} (f : A -> B) a b : sublist a b -> sublist (map f a) (map f b).
Proof. induction 1; cbn; [apply sl_nil|apply sl_skip; auto|apply sl_keep; auto]. Qed.
Lemma sublist_filter {A} (f : A -> bool) l : sublist (filter f l) l.
Proof. induction l; cbn; [apply sl_nil|]. destruct (f a); [apply sl_keep|apply sl_skip]; auto. Qed.
Lemma sublist_cnt (a b : list pmsg) x : sublist a b -> cnt x a <= cnt x b.
Proof. induction 1; rewrite ?cnt_cons; cbn; lia. Qed.
Lemma sublist_length {A} (a b : list A) : sublist a b -> length a <= length b.
Proof. induction 1; cbn; lia. Qed.

(* a decision procedure (greedy matching), complete for sublist: used for the refutation *)
Fixpoint sublistb (a b : list pmsg) : bool :=
  match a, b with
  | [], _ => true
  | _ :: _, [] => false
  | x :: a', y :: b' => if pmsg_eq_dec x y then sublistb a' b' else sublistb a b'
  end.
Lemma sublistb_tail x a b : sublistb (x :: a) b = true -> sublistb a b = true.
Proof.
  revert x a. induction b as [|y b IH]; intros x a H; [discriminate|].
  cbn [sublistb] in H. destruct (pmsg_eq_dec x y) as [E|E].
  - destruct a as [|z a']; [reflexivity|]. cbn [sublistb]. destruct (pmsg_eq_dec z y); [eapply IH; eauto|exact H].
  - destruct a as [|z a']; [reflexivity|]. cbn [sublistb]. destruct (pmsg_eq_dec z y); [|eapply IH; eauto].
    apply IH in H. eapply IH; eauto.
Qed.
Lemma sublistb_complete a b : sublist a b -> sublistb a b = true.
Proof.
  induction 1 as [|y l1 l2 H IH|y l1 l2 H IH].
  - reflexivity.
  - destruct l1 as [|x l1']; [reflexivity|]. cbn [sublistb]. destruct (pmsg_eq_dec x y); [|exact IH].
    eapply sublistb_tail; eauto.
  - cbn [sublistb]. destruct (pmsg_eq_dec y y); [exact IH|congruence].
Qed.

(* ---------------- small list facts ---------------- *)
Lemma NoDup_skipn {A} n (l : list A) : NoDup l -> NoDup (skipn n l).
Proof. revert n. induction l as [|a l IH]; intros [|n] H; cbn; auto. inversion H; subst. apply IH; auto. Qed.
Lemma map_skipn {A B} (f : A -> B) n l : map f (skipn n l) = skipn n (map f l).
Proof. revert n. induction l; intros [|n]; cbn; auto. Qed.
Lemma in_firstn {A} n (l : list A) x : In x (firstn n l) -> In x l.
Proof. revert n. induction l; intros [|n]; cbn; try tauto. intros [E|H]; [now left|right; eauto]. Qed.
Lemma lookup_in_nodup a m (aq : list (aioid * pmsg)) :
  NoDup (map fst aq) -> In (a, m) aq -> lookup_aq a aq = [m].
Proof.
  induction aq as [|[a0 m0] aq IH]; cbn [map fst]; intros ND Hin; [destruct Hin|].
  inversion ND; subst. destruct Hin as [E|Hin].
  - inversion E; subst. apply lookup_head_nodup. exact ND.
  - unfold lookup_aq in *. cbn [filter fst]. destruct (N.eqb_spec a0 a) as [->|Hne].
    + exfalso. apply H1. change a with (fst (a, m)). now apply in_map.
    + now apply IH.
Qed.
Lemma lookup_notin a (aq : list (aioid * pmsg)) : has_aio a aq = false -> lookup_aq a aq = [].
Proof.
  unfold has_aio, lookup_aq. induction aq as [|[a0 v] l IH]; cbn; [reflexivity|].
  intros H. apply orb_false_iff in H as [E1 E2]. rewrite E1. auto.
Qed.
Lemma remove_none a (l : list (aioid * pmsg)) : lookup_aq a l = [] -> map snd (remove_aio a l) = map snd l.
Proof.
  unfold lookup_aq, remove_aio. induction l as [|[a0 v] l IH]; cbn; [reflexivity|].
  destruct (a0 =? a)%N; cbn; [discriminate|]. intros E. now rewrite IH.
Qed.
Lemma txs_completes {A} (f : A -> aioid) (l : list A) : txs (map (fun x => Complete (f x) E_OK None) l) = [].
Proof. induction l; cbn; auto. Qed.
Lemma freed_completes {A} (f : A -> aioid) (l : list A) : freed (map (fun x => Complete (f x) E_OK None) l) = [].
Proof. induction l; cbn; auto. Qed.

(* the completions of the repaired resize accept exactly the letin senders' messages *)
Lemma accepted_completes s o (l : list (aioid * pmsg)) :
  (forall c a nb m, o <> PSend c a nb m) -> NoDup (map fst (ps_aq s)) -> (forall x, In x l -> In x (ps_aq s)) ->
  accepted s o (map (fun x => Complete (fst x) E_OK None) l) = map snd l.
Proof.
  intros Ho ND. induction l as [|[a m] l IH]; intros Hin; [reflexivity|].
  cbn [map accepted fst snd]. change (E_OK =? 0)%N with true. cbn iota.
  assert (L: lookup_aq a (ps_aq s) = [m]) by (apply lookup_in_nodup; [exact ND|apply Hin; now left]).
  rewrite IH by (intros; apply Hin; now right).
  destruct o; try (rewrite L; reflexivity). exfalso. eapply Ho. reflexivity.
Qed.

(* ================= the repaired resize keeps the laws of PushProofs ================= *)
Theorem push_step_r_law fr s o s' outs :
  PInv s -> op_ok s o -> push_step_r fr s o = (s', outs) ->
  PInv s' /\ forall x, cnt x (owned s ++ accepted s o outs ++ arrived o) = cnt x (owned s' ++ wire s o ++ freed outs).
Proof.
  intros HI Hok H.
  destruct (is_resize o) eqn:R; [|rewrite push_step_r_other in H by exact R; eapply push_step_law; eauto].
  destruct o as [| | | | | | |c op| | | |]; try discriminate. destruct op; try discriminate. cbn [push_step_r] in H.
  destruct (fr && negb (8192 <? N.of_nat n)%N); [|eapply push_step_law; eauto].
  pose proof HI as (I1 & I2 & I3 & I4 & I5 & I6). unfold push_resize_takein in H. inversion H; subst; clear H.
  set (wq1 := firstn n (ps_wq s)). set (room := n - length wq1). split.
  - pinv6; simp_p; auto.
    + intros Hne. destruct (I1 Hne) as [W A]. unfold wq1. rewrite W, A, firstn_nil, firstn_nil, skipn_nil. split; reflexivity.
    + rewrite app_length, map_length, firstn_length. unfold room. assert (length wq1 <= n) by (unfold wq1; rewrite firstn_length; lia). lia.
    + rewrite map_skipn. now apply NoDup_skipn.
  - intros x. unfold owned, held. cbn [wire arrived]. simp_p.
    rewrite accepted_app, accepted_map_Free, accepted_app. cbn [accepted].
    rewrite (accepted_completes s _ (firstn room (ps_aq s))); [|intros; discriminate|exact I4|intros y Hy; eapply in_firstn; eauto].
    rewrite !freed_app, freed_map_Free, freed_completes. cbn [freed].
    rewrite <- (firstn_skipn n (ps_wq s)) at 1. fold wq1. cnt_simp. lia.
Qed.

Theorem push_r_writable_mirror fr s o s' outs :
  PInv s -> WInv s -> push_step_r fr s o = (s', outs) -> WInv s'.
Proof.
  intros HI W H.
  destruct (is_resize o) eqn:R; [|rewrite push_step_r_other in H by exact R; eapply push_writable_mirror; eauto].
  destruct o as [| | | | | | |c op| | | |]; try discriminate. destruct op; try discriminate. cbn [push_step_r] in H.
  destruct (fr && negb (8192 <? N.of_nat n)%N); [|eapply push_writable_mirror; eauto].
  unfold push_resize_takein in H. inversion H; subst; clear H.
  unfold WInv, can_accept, wq_full in *. simp_p.
  match goal with |- context [n <=? ?L] => destruct (n <=? L) end; cbn [negb orb] in *.
  - destruct (ps_pl s) eqn:PL; cbn in *; auto.
  - destruct (ps_pl s); reflexivity.
Qed.

(* ================= submission order ================= *)
(* submitted and not yet handed to a transport, oldest first *)
Definition pend (s : push) : list pmsg := ps_wq s ++ map snd (ps_aq s).
(* the call was refused on the spot: its aio completes with an error in the very step that submits it *)
Definition refused_now (a : aioid) (outs : list pout) : bool :=
  existsb (fun x => match x with Complete a' rv _ => N.eqb a' a && negb (N.eqb rv 0) | _ => false end) outs.
(* the message a send submits -- unless the call is refused on the spot (NNG_EAGAIN for a non-blocking
   send that cannot be taken): then the message stays with the caller and never entered *)
Definition entered (o : pop) (outs : list pout) : list pmsg :=
  match o with PSend _ a _ m => if refused_now a outs then [] else [m] | _ => [] end.
(* submitted messages that leave without being transmitted, on purpose: the message of a cancelled /
   timed-out blocked send (exactly that one), the excess of a buffer shrink, the waiters at socket close *)
Definition sub_loss (s : push) (o : pop) : list pmsg :=
  match o with
  | PSetOpt _ (OSendBuf n) => if (8192 <? N.of_nat n)%N then [] else skipn n (ps_wq s)
  | PCancel a _ => lookup_aq a (ps_aq s)
  | PSockClose => map snd (ps_aq s)
  | _ => []
  end.
(* a blocked sender => the send buffer is full *)
Definition QInv (s : push) : Prop := ps_aq s <> [] -> wq_full s = true.

Definition SubLaw (s : push) (o : pop) (s' : push) (outs : list pout) : Prop :=
  QInv s' /\
  (sub_loss s o = [] -> pend s ++ entered o outs = txs outs ++ pend s') /\
  sublist (txs outs ++ pend s') (pend s ++ entered o outs) /\
  (forall x, cnt x (pend s ++ entered o outs) = cnt x (txs outs ++ pend s' ++ sub_loss s o)).

Ltac nonil := let X := fresh in intros X; exfalso; apply X; reflexivity.

Lemma sub_exact s o s' outs :
  QInv s' -> sub_loss s o = [] -> pend s ++ entered o outs = txs outs ++ pend s' -> SubLaw s o s' outs.
Proof. intros Q L E. unfold SubLaw. rewrite L, E, app_nil_r. repeat split; auto. apply sublist_refl. Qed.
Lemma sub_same s o s' outs :
  QInv s -> ps_wq s' = ps_wq s -> ps_aq s' = ps_aq s -> ps_cap s' = ps_cap s ->
  txs outs = [] -> entered o outs = [] -> sub_loss s o = [] -> SubLaw s o s' outs.
Proof.
  intros Q A B C T S L. apply sub_exact; auto.
  - unfold QInv, wq_full in *. now rewrite A, B, C.
  - unfold pend. now rewrite S, T, A, B, app_nil_r.
Qed.

(* push0_pipe_ready: the head of pend goes to the pipe, the rest keeps its order *)
Lemma ready_pend s p s' outs :
  QInv s -> push_pipe_ready s p = (s', outs) -> pend s = txs outs ++ pend s' /\ QInv s'.
Proof.
  intros Q H. unfold push_pipe_ready in H. unfold pend, QInv, wq_full in *.
  destruct (ps_wq s) as [|m rest] eqn:EW; destruct (ps_aq s) as [|[a m2] aqr] eqn:EA;
    inversion H; subst; clear H; simp_p; cbn [map snd txs app length] in *.
  - split; [reflexivity|]. intros X. exfalso. now apply X.
  - split; [reflexivity|]. intros _. apply Q. discriminate.
  - split; [reflexivity|]. intros X. exfalso. now apply X.
  - split; [now rewrite <- app_assoc|]. intros _. specialize (Q ltac:(discriminate)).
    rewrite app_length. cbn [length]. apply Nat.leb_le in Q. apply Nat.leb_le. lia.
Qed.

Lemma refused_ok a r : refused_now a (Complete a E_OK None :: r) = refused_now a r.
Proof. unfold refused_now. cbn [existsb]. rewrite N.eqb_refl. reflexivity. Qed.

Theorem push_submission_step fr s o s' outs :
  PInv s -> QInv s -> op_ok s o -> (fr = true \/ is_resize o = false) ->
  push_step_r fr s o = (s', outs) -> SubLaw s o s' outs.
Proof.
  intros HI Q Hok Hfr H. pose proof HI as (I1 & I2 & I3 & I4 & I5 & I6).
  destruct o as [c a nb m|c a nb|a rv|p peer|p|p rv|p rv m| c op|c|c| |now]; cbn [push_step_r push_step op_ok] in *.
  - (* PSend *)
    destruct (ps_pl s) as [|p rest] eqn:PL.
    + destruct (wq_full s) eqn:F; cbn [negb] in H.
      * destruct nb; inversion H; subst; clear H.
        -- (* refused: NNG_EAGAIN, nothing entered *)
           apply sub_same; auto. cbn [entered]. unfold refused_now. cbn [existsb]. rewrite N.eqb_refl. reflexivity.
        -- (* blocked: joins the tail of the wait list *)
           apply sub_exact; [unfold QInv, wq_full in *; simp_p; intros _; exact F|reflexivity|].
           unfold pend. simp_p. cbn [entered refused_now existsb txs app]. rewrite map_app. cbn [map snd]. now rewrite app_assoc.
      * (* room in the buffer: no sender can be blocked (QInv), so the message joins the tail of pend *)
        assert (AQ: ps_aq s = []) by (destruct (ps_aq s) eqn:E; auto; exfalso; unfold QInv in Q; rewrite E in Q; specialize (Q ltac:(discriminate)); congruence).
        inversion H; subst; clear H. apply sub_exact; [unfold QInv; simp_p; rewrite AQ; nonil|reflexivity|].
        unfold pend. simp_p. rewrite AQ. cbn [entered txs map app]. rewrite refused_ok. cbn. now rewrite !app_nil_r.
    + destruct I1 as [W A]; [congruence|]. inversion H; subst; clear H. apply sub_exact; [unfold QInv; simp_p; rewrite A; nonil|reflexivity|].
      unfold pend. simp_p. rewrite W, A. cbn [entered txs map app]. rewrite refused_ok. reflexivity.
  - (* PRecv *) inversion H; subst. apply sub_same; auto.
  - (* PCancel: exactly the cancelled sender's message leaves *)
    destruct (has_aio a (ps_aq s)) eqn:EA; inversion H; subst; clear H.
    + unfold SubLaw, QInv, pend, sub_loss, entered, wq_full in *. simp_p. cbn [txs app]. rewrite !app_nil_r.
      split; [|split; [|split]].
      * intros Hne. apply Q. intros E. rewrite E in Hne. apply Hne. reflexivity.
      * intros E. f_equal. symmetry. now apply remove_none.
      * apply sublist_app; [apply sublist_refl|]. apply sublist_map. apply sublist_filter.
      * intros x. unfold lookup_aq, remove_aio. pose proof (cnt_partition x a (ps_aq s)) as P. cnt_simp. lia.
    + apply sub_same; auto. cbn [sub_loss]. now apply lookup_notin.
  - (* PPipeStart *)
    destruct (negb (peer =? PROTO_PULL)%N); [inversion H; subst; apply sub_same; auto|].
    destruct (push_pipe_ready s p) as [s1 o1] eqn:R. inversion H; subst; clear H.
    destruct (ready_pend _ _ _ _ Q R) as [E Q']. apply sub_exact; auto. cbn [entered txs]. now rewrite app_nil_r.
  - (* PPipeClose *)
    destruct (has_id p (ps_pl s)); inversion H; subst; apply sub_same; auto.
  - (* PSendDone *)
    destruct (N.eqb_spec rv 0) as [->|Hrv]; cbn [negb] in H.
    + set (s0 := mkPush (ps_pl s) (ps_wq s) (ps_cap s) (ps_aq s) (set_sending s p None) (ps_writable s)) in *.
      destruct (ready_pend s0 p s' outs Q H) as [E Q']. apply sub_exact; auto. cbn [entered]. rewrite app_nil_r. exact E.
    + inversion H; subst; clear H. apply sub_same; auto. rewrite txs_app, txs_map_Free. reflexivity.
  - (* PRecvDone *) destruct (negb (rv =? 0)%N); inversion H; subst; apply sub_same; auto.
  - (* PSetOpt *)
    destruct op; try (inversion H; subst; apply sub_same; auto; fail).
    destruct Hfr as [->|Hfr]; [|discriminate]. cbn [andb] in H.
    destruct (8192 <? N.of_nat n)%N eqn:EB; cbn [negb] in H.
    { inversion H; subst. apply sub_same; auto. cbn [sub_loss]. now rewrite EB. }
    unfold push_resize_takein in H. inversion H; subst; clear H.
    set (wq1 := firstn n (ps_wq s)). set (room := n - length wq1).
    unfold SubLaw, QInv, pend, sub_loss, entered, wq_full. simp_p. rewrite EB.
    rewrite !txs_app, txs_map_Free, txs_completes. cbn [txs app]. rewrite !app_nil_r.
    assert (RW: map snd (firstn room (ps_aq s)) ++ map snd (skipn room (ps_aq s)) = map snd (ps_aq s))
      by (rewrite <- map_app; now rewrite firstn_skipn).
    assert (LW: length wq1 <= n) by (unfold wq1; rewrite firstn_length; lia).
    split; [|split; [|split]].
    + intros Hne. apply Nat.leb_le. rewrite app_length, map_length, firstn_length.
      assert (room < length (ps_aq s)).
      { destruct (Nat.lt_ge_cases room (length (ps_aq s))); auto. exfalso. apply Hne. now apply skipn_all2. }
      unfold room in *. lia.
    + intros E. rewrite <- app_assoc, RW. rewrite <- (firstn_skipn n (ps_wq s)) at 1. fold wq1. now rewrite E, app_nil_r.
    + rewrite <- app_assoc, RW. apply sublist_app; [apply sublist_firstn|apply sublist_refl].
    + intros x. rewrite <- (firstn_skipn n (ps_wq s)) at 1. fold wq1. rewrite <- RW. cnt_simp. lia.
  - inversion H; subst; apply sub_same; auto.
  - inversion H; subst; apply sub_same; auto.
  - (* PSockClose: the waiters fail with NNG_ECLOSED, their messages stay with the callers *)
    inversion H; subst; clear H. unfold SubLaw, QInv, pend, sub_loss, entered. simp_p.
    rewrite txs_fail. cbn [app map]. rewrite !app_nil_r.
    split; [nonil|]. split; [intros E; now rewrite E, app_nil_r|]. split; [apply sublist_app_l|]. intros x. reflexivity.
  - inversion H; subst; apply sub_same; auto.
Qed.

(* ---- the guarded step (the one run against the code): same law, invariants kept ---- *)
Lemma guard_stale_pinv s p : PInv s -> PInv (mkPush (ps_pl s) (ps_wq s) (ps_cap s) (ps_aq s) (set_sending s p None) (ps_writable s)).
Proof.
  intros (I1 & I2 & I3 & I4 & I5 & I6). unfold set_sending. pinv6; simp_p; auto.
  - now apply nodup_filter_keys.
  - intros q Hq Hin. eapply I5; eauto. eapply in_filter_keys; eauto.
Qed.

Theorem push_submission_step_g fc fr g o g' outs :
  PInv (pg_s g) -> QInv (pg_s g) -> op_ok (pg_s g) o -> (fr = true \/ is_resize o = false) ->
  push_step_g fc fr g o = (g', outs) ->
  SubLaw (pg_s g) o (pg_s g') outs /\ PInv (pg_s g').
Proof.
  intros HI Q Hok Hfr H. destruct (stale_done g o) eqn:ST.
  - (* the late completion of a closed pipe: with the guard nothing moves *)
    destruct o; try discriminate. cbn [stale_done] in ST. cbn [push_step_g] in H. destruct fc; cbn [andb] in H.
    + rewrite ST in H. inversion H; subst; clear H. cbn [pg_s]. split; [apply sub_same; auto|now apply guard_stale_pinv].
    + destruct (push_step_r fr (pg_s g) (PSendDone p rv)) as [s1 o1] eqn:E. inversion H; subst; clear H. cbn [pg_s].
      split; [eapply push_submission_step; eauto|exact (proj1 (push_step_r_law _ _ _ _ _ HI Hok E))].
  - destruct (PushGuard_contract_r fc fr g o ST) as [A B]. rewrite H in A, B. cbn [fst snd] in A, B.
    destruct (push_step_r fr (pg_s g) o) as [s1 o1] eqn:E. cbn [fst snd] in A, B. subst o1. rewrite A.
    split; [eapply push_submission_step; eauto|exact (proj1 (push_step_r_law _ _ _ _ _ HI Hok E))].
Qed.

(* ---- histories of the guarded step ---- *)
Definition gtrace := list (pop * push * list pout).
Fixpoint push_run_gt (fc fr : bool) (g : pushg) (ops : list pop) : pushg * gtrace :=
  match ops with
  | [] => (g, [])
  | o :: r => let (g1, outs) := push_step_g fc fr g o in
              let (g2, tr) := push_run_gt fc fr g1 r in (g2, (o, pg_s g, outs) :: tr)
  end.
Fixpoint ops_ok_g (fc fr : bool) (g : pushg) (ops : list pop) : Prop :=
  match ops with
  | [] => True
  | o :: r => op_ok (pg_s g) o /\ ops_ok_g fc fr (fst (push_step_g fc fr g o)) r
  end.
Fixpoint tr_tx (tr : gtrace) : list pmsg := match tr with [] => [] | (o, s, outs) :: r => txs outs ++ tr_tx r end.
Fixpoint tr_entered (tr : gtrace) : list pmsg := match tr with [] => [] | (o, s, outs) :: r => entered o outs ++ tr_entered r end.
Fixpoint tr_subloss (tr : gtrace) : list pmsg := match tr with [] => [] | (o, s, outs) :: r => sub_loss s o ++ tr_subloss r end.
(* what one connection carries *)
Fixpoint txs_on (p : pid) (outs : list pout) : list pmsg :=
  match outs with [] => [] | TranSend q m :: r => if N.eqb q p then m :: txs_on p r else txs_on p r | _ :: r => txs_on p r end.
Fixpoint tr_tx_on (p : pid) (tr : gtrace) : list pmsg := match tr with [] => [] | (o, s, outs) :: r => txs_on p outs ++ tr_tx_on p r end.
Definition no_resize (ops : list pop) : Prop := forall o, In o ops -> is_resize o = false.

Lemma txs_on_sub p outs : sublist (txs_on p outs) (txs outs).
Proof.
  induction outs as [|x r IH]; cbn; [apply sl_nil|]. destruct x; auto.
  destruct (p0 =? p)%N; [apply sl_keep|apply sl_skip]; auto.
Qed.
Lemma tr_tx_on_sub p tr : sublist (tr_tx_on p tr) (tr_tx tr).
Proof. induction tr as [|[[o s] outs] r IH]; cbn; [apply sl_nil|]. apply sublist_app; [apply txs_on_sub|exact IH]. Qed.

(* every history: what reached the transports (all pipes together, in hand-over order), then the
   buffer, then the blocked senders, is an in-order sub-sequence of the messages in the order
   their sends were SUBMITTED (refused calls excepted); it is all of them -- the transmitted
   sequence is a prefix of the submitted one -- when nothing was removed on purpose (cancel /
   timeout of a blocked send, buffer shrink, socket close); as multisets the difference is
   exactly what was removed *)
Theorem push_submission_order_law fc fr ops : forall g,
  (fr = true \/ no_resize ops) -> PInv (pg_s g) -> QInv (pg_s g) -> ops_ok_g fc fr g ops ->
  let (g', tr) := push_run_gt fc fr g ops in
  PInv (pg_s g') /\ QInv (pg_s g') /\
  sublist (tr_tx tr ++ pend (pg_s g')) (pend (pg_s g) ++ tr_entered tr) /\
  (tr_subloss tr = [] -> tr_tx tr ++ pend (pg_s g') = pend (pg_s g) ++ tr_entered tr) /\
  (forall x, cnt x (pend (pg_s g) ++ tr_entered tr) = cnt x (tr_tx tr ++ pend (pg_s g') ++ tr_subloss tr)).
Proof.
  induction ops as [|o r IH]; intros g Hfr HI Q Hok; cbn [push_run_gt].
  - cbn [tr_tx tr_entered tr_subloss app]. rewrite !app_nil_r.
    split; [exact HI|split; [exact Q|split; [apply sublist_refl|split; [intros _; reflexivity|intros x; reflexivity]]]].
  - cbn [ops_ok_g] in Hok. destruct Hok as [Ho Hr]. destruct (push_step_g fc fr g o) as [g1 outs] eqn:S. cbn [fst] in Hr.
    assert (Hfr1: fr = true \/ is_resize o = false) by (destruct Hfr as [E|E]; [now left|right; apply E; now left]).
    assert (Hfrr: fr = true \/ no_resize r) by (destruct Hfr as [E|E]; [now left|right; intros x Hx; apply E; now right]).
    destruct (push_submission_step_g _ _ _ _ _ _ HI Q Ho Hfr1 S) as ((Q1 & E1 & L1 & C1) & HI1).
    specialize (IH g1 Hfrr HI1 Q1 Hr). destruct (push_run_gt fc fr g1 r) as [g2 tr]. destruct IH as (HI2 & Q2 & L2 & E2 & C2).
    cbn [tr_tx tr_entered tr_subloss]. split; [exact HI2|]. split; [exact Q2|]. split; [|split].
    + rewrite (app_assoc (pend (pg_s g))), <- app_assoc.
      eapply sublist_trans; [apply sublist_app; [apply sublist_refl|exact L2]|].
      rewrite app_assoc. apply sublist_app; [exact L1|apply sublist_refl].
    + intros E. apply app_eq_nil in E as [Ea Eb]. rewrite (app_assoc (pend (pg_s g))), (E1 Ea), <- !app_assoc. f_equal. exact (E2 Eb).
    + intros x. specialize (C1 x). specialize (C2 x). revert C1 C2. cnt_simp. lia.
Qed.

(* per connection -- the property's clause: what one pipe carries is an in-order sub-sequence of
   the application's sends in submission order *)
Theorem push_per_pipe_submission_order fc fr ops p : forall g,
  (fr = true \/ no_resize ops) -> PInv (pg_s g) -> QInv (pg_s g) -> ops_ok_g fc fr g ops ->
  sublist (tr_tx_on p (snd (push_run_gt fc fr g ops))) (pend (pg_s g) ++ tr_entered (snd (push_run_gt fc fr g ops))).
Proof.
  intros g Hfr HI Q Hok. pose proof (push_submission_order_law fc fr ops g Hfr HI Q Hok) as L.
  destruct (push_run_gt fc fr g ops) as [g' tr]. cbn [snd]. destruct L as (_ & _ & L & _).
  eapply sublist_trans; [apply tr_tx_on_sub|]. eapply sublist_trans; [apply sublist_app_l|exact L].
Qed.

Lemma push_init_qinv : QInv push_init.
Proof. unfold QInv, push_init. simp_p. congruence. Qed.

(* a cancelled (or timed-out: the expire thread calls the same cancel function with NNG_ETIMEDOUT)
   blocked send leaves with exactly its own message; everything else keeps its place *)
Theorem push_cancel_removes_only_that s a rv m :
  PInv s -> In (a, m) (ps_aq s) -> rv <> 0%N ->
  exists s', push_step s (PCancel a rv) = (s', [Complete a rv None]) /\
    ps_wq s' = ps_wq s /\ ps_aq s' = remove_aio a (ps_aq s) /\ sub_loss s (PCancel a rv) = [m] /\
    sublist (pend s') (pend s) /\ forall x, cnt x (pend s) = cnt x (pend s') + cnt x [m].
Proof.
  intros (I1 & I2 & I3 & I4 & I5 & I6) Hin Hrv. cbn [push_step].
  assert (HA: has_aio a (ps_aq s) = true).
  { unfold has_aio. apply existsb_exists. exists (a, m). split; [exact Hin|apply N.eqb_refl]. }
  rewrite HA. eexists. split; [reflexivity|]. simp_p. cbn [sub_loss].
  assert (L: lookup_aq a (ps_aq s) = [m]) by (apply lookup_in_nodup; auto).
  repeat split; auto.
  - unfold pend. simp_p. apply sublist_app; [apply sublist_refl|]. apply sublist_map. apply sublist_filter.
  - intros x. unfold pend. simp_p. unfold remove_aio. pose proof (cnt_partition x a (ps_aq s)) as P.
    unfold lookup_aq in L. rewrite L in P. cnt_simp. lia.
Qed.

(* ================= a pipe the protocol refuses at start takes nothing ================= *)
(* push0_pipe_start: a peer that is not a PULL socket is refused before the receive is armed and before
   push0_pipe_ready can hand the pipe a message: state untouched, nothing transmitted, no completion *)
Theorem push_rejected_pipe_takes_nothing_step s p peer :
  peer <> PROTO_PULL -> push_step s (PPipeStart p peer) = (s, [Reject E_PROTO]).
Proof. intros H. cbn [push_step]. destruct (N.eqb_spec peer PROTO_PULL); [contradiction|reflexivity]. Qed.
Theorem push_rejected_pipe_takes_nothing fc fr g p peer :
  peer <> PROTO_PULL -> push_step_g fc fr g (PPipeStart p peer) = (g, [Reject E_PROTO]).
Proof.
  intros H. cbn [push_step_g push_step_r]. rewrite push_rejected_pipe_takes_nothing_step by exact H. now destruct g.
Qed.
Theorem push_consts_match :
  PROTO_PULL = C06_PUSH_PEER /\ PROTO_PUSH = C06_PUSH_SELF /\ C06_PUSH_BUF_MAX = 8192%N /\
  C06_PUSH_START_CHECKS_PEER_FIRST = true /\ C06_PUSH_WAITERS_FIFO = true.
Proof. repeat split; reflexivity. Qed.

(* ================= witnesses ================= *)
Definition m_ (k : N) : pmsg := mkPmsg [] [k].
(* several senders blocked at once, then one puller taking the messages one at a time *)
Definition blocked_witness : list pop :=
  [PSetOpt None (OSendBuf 1);
   PSend None 1%N false (m_ 1); PSend None 2%N false (m_ 2); PSend None 3%N false (m_ 3); PSend None 4%N false (m_ 4);
   PPipeStart 1%N PROTO_PULL; PSendDone 1%N 0%N; PSendDone 1%N 0%N; PSendDone 1%N 0%N; PSendDone 1%N 0%N].
Theorem push_submission_order_on_blocked_witness fc fr :
  ops_ok_g fc fr pushg_init blocked_witness /\
  let (g, tr) := push_run_gt fc fr pushg_init blocked_witness in
  tr_entered tr = [m_ 1; m_ 2; m_ 3; m_ 4] /\ tr_tx tr = [m_ 1; m_ 2; m_ 3; m_ 4] /\ tr_tx_on 1%N tr = tr_tx tr /\
  tr_subloss tr = [] /\ pend (pg_s g) = [].
Proof. destruct fc; destruct fr; vm_compute; (split; [intuition discriminate|]); repeat split; reflexivity. Qed.

(* the pinned push0_set_send_buf_len (fr = false): unbuffered socket, no peer, sends 1 and 2 block;
   the buffer grows to 2 -- the blocked senders stay on the wait list; send 3 finds room in the
   buffer and goes ahead of them: the one connection carries 3 1 2 *)
Definition resize_witness : list pop :=
  [PSend None 1%N false (m_ 1); PSend None 2%N false (m_ 2);
   PSetOpt None (OSendBuf 2);
   PSend None 3%N false (m_ 3);
   PPipeStart 1%N PROTO_PULL; PSendDone 1%N 0%N; PSendDone 1%N 0%N; PSendDone 1%N 0%N].
Theorem push_submission_order_refuted_pinned fc :
  ops_ok_g fc false pushg_init resize_witness /\
  let (g, tr) := push_run_gt fc false pushg_init resize_witness in
  tr_entered tr = [m_ 1; m_ 2; m_ 3] /\ tr_tx tr = [m_ 3; m_ 1; m_ 2] /\ tr_tx_on 1%N tr = tr_tx tr /\
  tr_subloss tr = [] /\ pend (pg_s g) = [] /\
  ~ sublist (tr_tx_on 1%N tr) (pend push_init ++ tr_entered tr).
Proof.
  destruct fc; vm_compute; (split; [intuition discriminate|]); repeat split; try reflexivity;
    intros S; apply sublistb_complete in S; vm_compute in S; discriminate.
Qed.
(* ... and right after the resize senders are blocked although the buffer has room *)
Theorem push_blocked_sender_not_full_refuted_pinned fc :
  let s := pg_s (fst (push_run_gt fc false pushg_init (firstn 3 resize_witness))) in
  ps_aq s <> [] /\ wq_full s = false /\ ps_writable s = true.
Proof. destruct fc; vm_compute; (split; [discriminate|split; reflexivity]). Qed.
Theorem push_submission_order_on_resize_witness fc :
  ops_ok_g fc true pushg_init resize_witness /\
  let (g, tr) := push_run_gt fc true pushg_init resize_witness in
  tr_tx tr = [m_ 1; m_ 2; m_ 3] /\ tr_entered tr = tr_tx tr /\ tr_subloss tr = [].
Proof. destruct fc; vm_compute; (split; [intuition discriminate|]); repeat split; reflexivity. Qed.

(* a cancel in the middle of the queue: 1 buffered, 2 3 4 blocked, 3 cancelled -> the wire carries 1 2 4 *)
Definition cancel_witness : list pop :=
  [PSetOpt None (OSendBuf 1);
   PSend None 1%N false (m_ 1); PSend None 2%N false (m_ 2); PSend None 3%N false (m_ 3); PSend None 4%N false (m_ 4);
   PCancel 3%N E_CANCELED;
   PPipeStart 1%N PROTO_PULL; PSendDone 1%N 0%N; PSendDone 1%N 0%N; PSendDone 1%N 0%N].
Theorem push_submission_order_on_cancel_witness fc fr :
  ops_ok_g fc fr pushg_init cancel_witness /\
  let (g, tr) := push_run_gt fc fr pushg_init cancel_witness in
  tr_entered tr = [m_ 1; m_ 2; m_ 3; m_ 4] /\ tr_tx tr = [m_ 1; m_ 2; m_ 4] /\ tr_subloss tr = [m_ 3] /\ pend (pg_s g) = [].
Proof. destruct fc; destruct fr; vm_compute; (split; [intuition discriminate|]); repeat split; reflexivity. Qed.

(* buffered and blocked messages, two wrong-protocol peers, then a puller: everything comes out, in order *)
Definition reject_witness : list pop :=
  [PSetOpt None (OSendBuf 2);
   PSend None 1%N true (m_ 1); PSend None 2%N true (m_ 2); PSend None 3%N false (m_ 3);
   PPipeStart 1%N PROTO_PUSH; PPipeStart 2%N 49%N;
   PPipeStart 3%N PROTO_PULL; PSendDone 3%N 0%N; PSendDone 3%N 0%N; PSendDone 3%N 0%N].
Theorem push_rejected_pipe_witness fc fr :
  ops_ok_g fc fr pushg_init reject_witness /\
  let (g, tr) := push_run_gt fc fr pushg_init reject_witness in
  tr_tx_on 1%N tr = [] /\ tr_tx_on 2%N tr = [] /\ tr_tx_on 3%N tr = [m_ 1; m_ 2; m_ 3] /\ tr_entered tr = [m_ 1; m_ 2; m_ 3].
Proof. destruct fc; destruct fr; vm_compute; (split; [intuition discriminate|]); repeat split; reflexivity. Qed.
