(* MsgModel: executable model of src/core/message.c (chunk + fixed header) and
   the nng_msg_* wrappers of src/nng.c.  Definitions only.
   One Gallina function per C function, same branches, same index arithmetic.
   Sizes are nat: the SIZE_MAX overflow guards of the C are therefore not
   represented (stated in DESIGN §7); every buffer access goes through the
   checked primitives [sub]/[blit] (None = out of bounds). *)
From Coq Require Import List Arith Lia Bool NArith.
From NngV Require Import Base.ListX Base.Bytes.
Import ListNotations.

Definition ENOMEM : N := 2%N.
Definition EINVAL : N := 3%N.
Definition HDR_CAP : nat := 64.   (* sizeof m_header_buf = 4*(NNI_MAX_MAX_TTL+1); re-checked against Gen/Consts.v *)

(* nni_chunk.  ch_buf: the backing store (cap = its length; NULL ~ []).
   ch_ptr: None = NULL, Some off = ch_buf + off. *)
Record chunk := mkChunk { ch_buf : list byte; ch_len : nat; ch_ptr : option nat }.
Definition ch_cap (c : chunk) : nat := length (ch_buf c).

Definition chunk0 : chunk := mkChunk [] 0 None.   (* zeroed struct *)

(* the "pointer is inside the backing store" test *)
Definition ptr_inside (c : chunk) : option nat :=
  match ch_ptr c with
  | Some off => if off <? ch_cap c then Some off else None
  | None => None
  end.

(* nni_chunk_grow.  [fail]: the allocation, if one is attempted, fails. *)
Definition chunk_grow (c : chunk) (newsz headwanted : nat) (fail : bool) : option (N * chunk) :=
  let newsz := Nat.max newsz (ch_len c) in
  match ptr_inside c with
  | Some headroom =>
      let headwanted := Nat.max headwanted headroom in
      if (newsz + headwanted <=? ch_cap c) && (headwanted <=? headroom) then Some (0%N, c)
      else
        let newsz := Nat.max newsz (ch_cap c - headroom) in
        let allocsz := newsz + headwanted in
        if fail then Some (ENOMEM, c) else
        match sub (ch_buf c) headroom (ch_len c) with
        | None => None
        | Some d =>
            match blit (zeros allocsz) headwanted d with
            | None => None
            | Some nb => Some (0%N, mkChunk nb (ch_len c) (Some headwanted))
            end
        end
  | None =>
      let allocsz := newsz + headwanted in
      if ch_cap c <=? allocsz then
        if fail then Some (ENOMEM, c)
        else Some (0%N, mkChunk (zeros allocsz) (ch_len c) (Some headwanted))
      else Some (0%N, mkChunk (ch_buf c) (ch_len c) (Some headwanted))
  end.

Definition chunk_clear (c : chunk) : chunk := mkChunk (ch_buf c) 0 (ch_ptr c).

Definition chunk_chop (c : chunk) (n : nat) : N * chunk :=
  if ch_len c <? n then (EINVAL, c) else (0%N, mkChunk (ch_buf c) (ch_len c - n) (ch_ptr c)).

Definition chunk_trim (c : chunk) (n : nat) : N * chunk :=
  if ch_len c <? n then (EINVAL, c)
  else let l' := ch_len c - n in
       (0%N, mkChunk (ch_buf c) l'
               (if l' =? 0 then ch_ptr c else option_map (fun o => o + n) (ch_ptr c))).

(* nni_chunk_dup: new zeroed store of the same capacity, same offset, data copied *)
Definition chunk_dup (src : chunk) (fail : bool) : option (N * chunk) :=
  if fail then Some (ENOMEM, chunk0) else
  let nb := zeros (ch_cap src) in
  match ch_ptr src with
  | None => if ch_len src =? 0 then Some (0%N, mkChunk nb 0 None) else None
  | Some off =>
      if ch_len src =? 0 then Some (0%N, mkChunk nb 0 (Some off)) else
      match sub (ch_buf src) off (ch_len src) with
      | None => None
      | Some d => match blit nb off d with
                  | None => None
                  | Some nb' => Some (0%N, mkChunk nb' (ch_len src) (Some off))
                  end
      end
  end.

(* nni_chunk_append; data = None models a NULL data pointer (bytes left as they are) *)
Definition chunk_append (c : chunk) (data : option (list byte)) (n : nat) (fail : bool)
  : option (N * chunk) :=
  if n =? 0 then Some (0%N, c) else
  match chunk_grow c (n + ch_len c) 0 fail with
  | None => None
  | Some (rv, c1) =>
      if negb (rv =? 0)%N then Some (rv, c1) else
      let off := match ch_ptr c1 with Some o => o | None => 0 end in
      match data with
      | Some d =>
          match blit (ch_buf c1) (off + ch_len c1) d with
          | None => None
          | Some nb => Some (0%N, mkChunk nb (ch_len c1 + n) (Some off))
          end
      | None =>
          if off + ch_len c1 + n <=? ch_cap c1
          then Some (0%N, mkChunk (ch_buf c1) (ch_len c1 + n) (Some off))
          else None
      end
  end.

Definition chunk_room (c : chunk) : nat := ch_cap c - ch_len c.

(* (x + 7) & ~7 *)
Definition round8 (x : nat) : nat := ((x + 7) / 8) * 8.

(* nni_chunk_insert.  [fixed] selects the repaired memmove target
   (ch_buf + shift + len) versus the pinned tree's (ch_buf + shift); it is a
   generated constant (Gen/Consts.v) so the model follows the source. *)
Definition chunk_insert (fixed : bool) (c : chunk) (d : list byte) (fail : bool) : option (N * chunk) :=
  let n := length d in
  let off0 := match ch_ptr c with Some o => o | None => 0 end in
  let needed := ch_len c + n in
  let finish (c2 : chunk) (newoff : nat) : option (N * chunk) :=
      match blit (ch_buf c2) newoff d with
      | None => None
      | Some nb => Some (0%N, mkChunk nb (ch_len c2 + n) (Some newoff))
      end in
  let grow :=
      match chunk_grow (mkChunk (ch_buf c) (ch_len c) (Some off0)) 0 n fail with
      | None => None
      | Some (rv, c1) =>
          if negb (rv =? 0)%N then Some (rv, c1) else
          match ch_ptr c1 with
          | Some o => if n <=? o then finish c1 (o - n) else None
          | None => None
          end
      end in
  if off0 <? ch_cap c then
    if n <=? off0 then finish c (off0 - n)
    else if needed + 8 <=? ch_cap c then
      let shift := round8 ((ch_cap c - needed) / 2) in
      let tgt := if fixed then shift + n else shift in
      match sub (ch_buf c) off0 (ch_len c) with
      | None => None
      | Some old =>
          match blit (ch_buf c) tgt old with
          | None => None
          | Some nb =>
              (* ch_ptr = ch_buf + shift; then ch_len += len; memcpy(ch_ptr, data, len) *)
              finish (mkChunk nb (ch_len c) (Some shift)) shift
          end
      end
    else grow
  else grow.

(* the message: fixed header + body chunk *)
Record msg := mkMsg { m_hdr : list byte; m_body : chunk }.

Definition msg_alloc (sz : nat) (fail1 fail2 : bool) : option (N * option msg) :=
  if fail1 then Some (ENOMEM, None) else
  let pow2 := (1024 <=? sz) && (N.land (N.of_nat sz) (N.of_nat sz - 1) =? 0)%N in
  match (if pow2 then chunk_grow chunk0 sz 0 fail2 else chunk_grow chunk0 (sz + 32) 32 fail2) with
  | None => None
  | Some (rv, c) =>
      if negb (rv =? 0)%N then Some (rv, None) else
      match chunk_append c None sz false with
      | Some (0%N, c') => Some (0%N, Some (mkMsg [] c'))
      | _ => None   (* nni_panic("chunk_append failed") *)
      end
  end.

Definition msg_dup (m : msg) (fail1 fail2 : bool) : option (N * option msg) :=
  if fail1 then Some (ENOMEM, None) else
  match chunk_dup (m_body m) fail2 with
  | None => None
  | Some (rv, c) => if negb (rv =? 0)%N then Some (rv, None) else Some (0%N, Some (mkMsg (m_hdr m) c))
  end.

Definition msg_body (m : msg) : option (list byte) :=
  match ch_ptr (m_body m) with
  | Some off => sub (ch_buf (m_body m)) off (ch_len (m_body m))
  | None => if ch_len (m_body m) =? 0 then Some [] else None
  end.
Definition msg_len (m : msg) : nat := ch_len (m_body m).
Definition msg_capacity (m : msg) : nat :=
  ch_cap (m_body m) - match ch_ptr (m_body m) with Some o => o | None => 0 end.

Inductive op :=
| Append (d : list byte) | Insert (d : list byte) | Trim (n : nat) | Chop (n : nat)
| HAppend (d : list byte) | HInsert (d : list byte) | HTrim (n : nat) | HChop (n : nat)
| Realloc (n : nat) | Reserve (n : nat) | Clear | HClear
| AppendU (k : nat) (v : N) | InsertU (k : nat) (v : N) | TrimU (k : nat) | ChopU (k : nat)
| HAppendU (k : nat) (v : N) | HInsertU (k : nat) (v : N) | HTrimU (k : nat) | HChopU (k : nat).

Definition with_body (m : msg) (r : option (N * chunk)) : option (N * option N * msg) :=
  match r with None => None | Some (rv, c) => Some (rv, None, mkMsg (m_hdr m) c) end.

Definition hdr_append (m : msg) (d : list byte) : N * msg :=
  if HDR_CAP <? length d + length (m_hdr m) then (EINVAL, m)
  else (0%N, mkMsg (m_hdr m ++ d) (m_body m)).
Definition hdr_insert (m : msg) (d : list byte) : N * msg :=
  if HDR_CAP <? length d + length (m_hdr m) then (EINVAL, m)
  else (0%N, mkMsg (d ++ m_hdr m) (m_body m)).

(* one public operation; result = (rv, value read by the _uN forms, new message) *)
Definition msg_step (fixed : bool) (m : msg) (o : op) (fail : bool) : option (N * option N * msg) :=
  let ret2 (r : N * msg) := Some (fst r, @None N, snd r) in
  let retc (r : N * chunk) := Some (fst r, @None N, mkMsg (m_hdr m) (snd r)) in
  match o with
  | Append d => with_body m (chunk_append (m_body m) (Some d) (length d) fail)
  | Insert d => with_body m (chunk_insert fixed (m_body m) d fail)
  | Trim n => retc (chunk_trim (m_body m) n)
  | Chop n => retc (chunk_chop (m_body m) n)
  | HAppend d => ret2 (hdr_append m d)
  | HInsert d => ret2 (hdr_insert m d)
  | HTrim n => if length (m_hdr m) <? n then Some (EINVAL, None, m)
               else Some (0%N, None, mkMsg (skipn n (m_hdr m)) (m_body m))
  | HChop n => if length (m_hdr m) <? n then Some (EINVAL, None, m)
               else Some (0%N, None, mkMsg (firstn (length (m_hdr m) - n) (m_hdr m)) (m_body m))
  | Realloc n =>
      if ch_len (m_body m) <? n
      then with_body m (chunk_append (m_body m) None (n - ch_len (m_body m)) fail)
      else retc (0%N, snd (chunk_chop (m_body m) (ch_len (m_body m) - n)))
  | Reserve n => with_body m (chunk_grow (m_body m) n 0 fail)
  | Clear => retc (0%N, chunk_clear (m_body m))
  | HClear => Some (0%N, None, mkMsg [] (m_body m))
  | AppendU k v => with_body m (chunk_append (m_body m) (Some (be_enc k v)) k fail)
  | InsertU k v => with_body m (chunk_insert fixed (m_body m) (be_enc k v) fail)
  | TrimU k =>
      if msg_len m <? k then Some (EINVAL, None, m) else
      match msg_body m with
      | None => None
      | Some b => Some (0%N, Some (be_dec (firstn k b)), mkMsg (m_hdr m) (snd (chunk_trim (m_body m) k)))
      end
  | ChopU k =>
      if msg_len m <? k then Some (EINVAL, None, m) else
      match msg_body m with
      | None => None
      | Some b => Some (0%N, Some (be_dec (skipn (length b - k) b)), mkMsg (m_hdr m) (snd (chunk_chop (m_body m) k)))
      end
  | HAppendU k v => ret2 (hdr_append m (be_enc k v))
  | HInsertU k v => ret2 (hdr_insert m (be_enc k v))
  | HTrimU k =>
      if length (m_hdr m) <? k then Some (EINVAL, None, m)
      else Some (0%N, Some (be_dec (firstn k (m_hdr m))), mkMsg (skipn k (m_hdr m)) (m_body m))
  | HChopU k =>
      if length (m_hdr m) <? k then Some (EINVAL, None, m)
      else Some (0%N, Some (be_dec (skipn (length (m_hdr m) - k) (m_hdr m))),
                 mkMsg (firstn (length (m_hdr m) - k) (m_hdr m)) (m_body m))
  end.

(* nni_msg_pull_up for an unshared message (refcnt = 1) with room; the
   shared/no-room case allocates a fresh message. *)
Definition msg_pull_up (fixed : bool) (m : msg) (shared : bool) (fail1 fail2 : bool) : option (option msg) :=
  if (chunk_room (m_body m) <? length (m_hdr m)) || shared then
    match msg_body m with
    | None => None
    | Some b =>
      match msg_alloc (msg_len m + length (m_hdr m)) fail1 fail2 with
      | None => None
      | Some (_, None) => Some None
      | Some (_, Some m2) =>
          match ch_ptr (m_body m2) with
          | None => None
          | Some o =>
            match blit (ch_buf (m_body m2)) o (m_hdr m ++ b) with
            | None => None
            | Some nb => Some (Some (mkMsg [] (mkChunk nb (ch_len (m_body m2)) (Some o))))
            end
          end
      end
    end
  else
    match chunk_insert fixed (m_body m) (m_hdr m) false with
    | None => None
    | Some (_, c) => Some (Some (mkMsg [] c))   (* the C ignores the return value *)
    end.
