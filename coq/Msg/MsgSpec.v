(* MsgSpec: the abstract object of C17 -- a message is a pair of byte strings. *)
From Coq Require Import List Arith Lia Bool NArith.
From NngV Require Import Base.ListX Base.Bytes Msg.MsgModel.
Import ListNotations.

Definition smsg : Type := (list byte * list byte)%type.   (* header, body *)

Definition lastn {A} (k : nat) (l : list A) : list A := skipn (length l - k) l.
Definition droplast {A} (k : nat) (l : list A) : list A := firstn (length l - k) l.

(* every operation except a growing Realloc is a function on the pair *)
Definition spec_step (s : smsg) (o : op) : N * option N * smsg :=
  let '(h, b) := s in
  let hadd (d : list byte) (f : list byte -> list byte) :=
      if HDR_CAP <? length d + length h then (EINVAL, None, s) else (0%N, None, (f h, b)) in
  match o with
  | Append d => (0%N, None, (h, b ++ d))
  | Insert d => (0%N, None, (h, d ++ b))
  | Trim n => if length b <? n then (EINVAL, None, s) else (0%N, None, (h, skipn n b))
  | Chop n => if length b <? n then (EINVAL, None, s) else (0%N, None, (h, droplast n b))
  | HAppend d => hadd d (fun h => h ++ d)
  | HInsert d => hadd d (fun h => d ++ h)
  | HTrim n => if length h <? n then (EINVAL, None, s) else (0%N, None, (skipn n h, b))
  | HChop n => if length h <? n then (EINVAL, None, s) else (0%N, None, (droplast n h, b))
  | Realloc n => (0%N, None, (h, firstn n b))          (* shrinking / same size *)
  | Reserve _ => (0%N, None, s)
  | Clear => (0%N, None, (h, []))
  | HClear => (0%N, None, ([], b))
  | AppendU k v => (0%N, None, (h, b ++ be_enc k v))
  | InsertU k v => (0%N, None, (h, be_enc k v ++ b))
  | TrimU k => if length b <? k then (EINVAL, None, s) else (0%N, Some (be_dec (firstn k b)), (h, skipn k b))
  | ChopU k => if length b <? k then (EINVAL, None, s) else (0%N, Some (be_dec (lastn k b)), (h, droplast k b))
  | HAppendU k v => hadd (be_enc k v) (fun h => h ++ be_enc k v)
  | HInsertU k v => hadd (be_enc k v) (fun h => be_enc k v ++ h)
  | HTrimU k => if length h <? k then (EINVAL, None, s) else (0%N, Some (be_dec (firstn k h)), (skipn k h, b))
  | HChopU k => if length h <? k then (EINVAL, None, s) else (0%N, Some (be_dec (lastn k h)), (droplast k h, b))
  end.

(* the relation: a growing Realloc yields the old body followed by *some* bytes *)
Definition spec_rel (s : smsg) (o : op) (rv : N) (v : option N) (s' : smsg) : Prop :=
  match o with
  | Realloc n =>
      if length (snd s) <? n
      then rv = 0%N /\ v = None /\ fst s' = fst s /\
           exists t, length t = n - length (snd s) /\ snd s' = snd s ++ t
      else (rv, v, s') = spec_step s o
  | _ => (rv, v, s') = spec_step s o
  end.

(* "remove more than present / exceed the header" is exactly when EINVAL is returned *)
Definition spec_einval (s : smsg) (o : op) : bool :=
  let '(h, b) := s in
  match o with
  | Trim n | Chop n | TrimU n | ChopU n => length b <? n
  | HTrim n | HChop n | HTrimU n | HChopU n => length h <? n
  | HAppend d | HInsert d => HDR_CAP <? length d + length h
  | HAppendU k _ | HInsertU k _ => HDR_CAP <? k + length h
  | _ => false
  end.
