(* MsgProofs: refinement of MsgModel to MsgSpec, invariants, totality. *)
From Coq Require Import List Arith Lia Bool NArith.
From NngV Require Import Base.ListX Base.Bytes Msg.MsgModel Msg.MsgSpec.
Import ListNotations.

Definition coff (c : chunk) : nat := match ch_ptr c with Some o => o | None => 0 end.

Definition CInv (c : chunk) : Prop :=
  exists off, ch_ptr c = Some off /\ off < ch_cap c /\ off + ch_len c <= ch_cap c.

Definition cabs (c : chunk) : list byte := firstn (ch_len c) (skipn (coff c) (ch_buf c)).

Definition Inv (m : msg) : Prop := CInv (m_body m) /\ length (m_hdr m) <= HDR_CAP.
Definition abs (m : msg) : smsg := (m_hdr m, cabs (m_body m)).

Lemma cabs_length c : CInv c -> length (cabs c) = ch_len c.
Proof.
  intros (off & Hp & Hlt & Hle). unfold cabs, coff. rewrite Hp.
  rewrite firstn_length, skipn_length. unfold ch_cap in *. lia.
Qed.

Lemma ptr_inside_inv c off : ch_ptr c = Some off -> off < ch_cap c -> ptr_inside c = Some off.
Proof. intros Hp Hlt. unfold ptr_inside. rewrite Hp. apply Nat.ltb_lt in Hlt. now rewrite Hlt. Qed.

Lemma sub_cabs c off : ch_ptr c = Some off -> off + ch_len c <= ch_cap c ->
  sub (ch_buf c) off (ch_len c) = Some (cabs c).
Proof. intros Hp Hle. unfold cabs, coff. rewrite Hp. now apply sub_Some. Qed.

(* --- grow ---------------------------------------------------------- *)
Lemma grow_spec c newsz hw fail rv c' :
  CInv c -> chunk_grow c newsz hw fail = Some (rv, c') ->
  (rv = ENOMEM /\ c' = c /\ fail = true) \/
  (rv = 0%N /\ CInv c' /\ cabs c' = cabs c /\ ch_len c' = ch_len c /\
   hw <= coff c' /\ coff c <= coff c' /\ coff c' + Nat.max newsz (ch_len c) <= ch_cap c' /\
   ch_cap c <= ch_cap c').
Proof.
  intros (off & Hp & Hlt & Hle) H. unfold chunk_grow in H.
  rewrite (ptr_inside_inv _ _ Hp Hlt) in H.
  set (ns := Nat.max newsz (ch_len c)) in *.
  set (hw' := Nat.max hw off) in *.
  destruct ((ns + hw' <=? ch_cap c) && (hw' <=? off)) eqn:E.
  - inversion H; subst. right. apply andb_true_iff in E as [E1 E2].
    apply Nat.leb_le in E1, E2. unfold coff; rewrite Hp.
    repeat split; try lia. exists off; auto.
  - destruct fail.
    + inversion H; subst. left; auto.
    + rewrite (sub_cabs _ _ Hp Hle) in H.
      set (ns2 := Nat.max ns (ch_cap c - off)) in *.
      assert (HL: length (cabs c) = ch_len c) by (apply cabs_length; exists off; auto).
      rewrite blit_Some in H by (rewrite zeros_length; lia).
      inversion H; subst; clear H. right.
      assert (HC: ch_cap (mkChunk (firstn hw' (zeros (ns2 + hw')) ++ cabs c ++
                 skipn (hw' + length (cabs c)) (zeros (ns2 + hw'))) (ch_len c) (Some hw')) = ns2 + hw').
      { unfold ch_cap; cbn [ch_buf]. rewrite !app_length, firstn_length, skipn_length, zeros_length, HL. lia. }
      unfold CInv, coff. rewrite HC. cbn [ch_ptr ch_len]. rewrite Hp.
      repeat split; try lia.
      * exists hw'. repeat split; try lia.
      * unfold cabs at 1, coff. cbn [ch_ptr ch_len ch_buf].
        rewrite skipn_app_exact by (rewrite firstn_length, zeros_length; lia).
        apply firstn_app_exact. lia.
Qed.

Lemma grow_total c newsz hw fail : CInv c -> exists r, chunk_grow c newsz hw fail = Some r.
Proof.
  intros (off & Hp & Hlt & Hle). unfold chunk_grow.
  rewrite (ptr_inside_inv _ _ Hp Hlt).
  destruct (_ && _); [eauto|]. destruct fail; [eauto|].
  rewrite (sub_cabs _ _ Hp Hle).
  assert (HL: length (cabs c) = ch_len c) by (apply cabs_length; exists off; auto).
  rewrite blit_Some by (rewrite zeros_length; lia). eauto.
Qed.

(* --- list facts about a write in front of / behind the live region ---- *)
Lemma abs_after_blit_back (buf : list byte) off len d nb :
  blit buf (off + len) d = Some nb ->
  firstn (len + length d) (skipn off nb) = firstn len (skipn off buf) ++ d.
Proof.
  intros H. pose proof (blit_length _ _ _ _ H) as [_ Hle].
  rewrite blit_Some in H by lia. inversion H; subst nb; clear H.
  rewrite skipn_app by idtac.
  rewrite firstn_length, Nat.min_l by lia.
  replace (off - (off + len)) with 0 by lia. cbn [skipn].
  rewrite skipn_firstn_comm'.
  rewrite app_assoc. rewrite firstn_app_exact; [reflexivity|].
  rewrite app_length, firstn_length, skipn_length. lia.
Qed.

Lemma abs_after_blit_front (buf : list byte) o len d nb :
  o + length d + len <= length buf ->
  blit buf o d = Some nb ->
  firstn (length d + len) (skipn o nb) = d ++ firstn len (skipn (o + length d) buf).
Proof.
  intros Hle H. rewrite blit_Some in H by lia. inversion H; subst nb; clear H.
  rewrite skipn_app_exact by (rewrite firstn_length; lia).
  rewrite firstn_app_full by lia. f_equal. f_equal. lia.
Qed.

(* --- append -------------------------------------------------------- *)
Lemma append_spec c d fail rv c' :
  CInv c -> chunk_append c (Some d) (length d) fail = Some (rv, c') ->
  (rv = ENOMEM /\ c' = c /\ fail = true) \/
  (rv = 0%N /\ CInv c' /\ cabs c' = cabs c ++ d /\ coff c <= coff c').
Proof.
  intros HI H. unfold chunk_append in H.
  destruct (length d =? 0) eqn:E0.
  - apply Nat.eqb_eq in E0. destruct d; [|discriminate]. inversion H; subst.
    right. rewrite app_nil_r. auto.
  - apply Nat.eqb_neq in E0.
    destruct (chunk_grow c (length d + ch_len c) 0 fail) as [[rv1 c1]|] eqn:G; [|discriminate].
    destruct (grow_spec _ _ _ _ _ _ HI G) as [(-> & -> & ->)|(-> & HI1 & Ha & Hl & _ & Ho & Hroom & _)].
    + cbn in H. inversion H; subst. left; auto.
    + cbn [N.eqb negb] in H.
      destruct HI1 as (o1 & Hp1 & Hlt1 & Hle1). rewrite Hp1 in H.
      destruct (blit (ch_buf c1) (o1 + ch_len c1) d) as [nb|] eqn:B; [|discriminate].
      inversion H; subst; clear H. right.
      pose proof (blit_length _ _ _ _ B) as [HL Hb].
      split; [reflexivity|]. split.
      * exists o1. unfold ch_cap; cbn [ch_ptr ch_buf ch_len]. rewrite HL. unfold ch_cap in *. repeat split; lia.
      * split.
        -- unfold cabs at 1, coff. cbn [ch_ptr ch_len ch_buf].
           rewrite (abs_after_blit_back _ _ _ _ _ B). rewrite <- Ha.
           unfold cabs, coff. now rewrite Hp1.
        -- unfold coff at 2. cbn [ch_ptr]. unfold coff in Ho. rewrite Hp1 in Ho. exact Ho.
Qed.

Lemma append_null_spec c n fail rv c' :
  CInv c -> chunk_append c None n fail = Some (rv, c') ->
  (rv = ENOMEM /\ c' = c /\ fail = true) \/
  (rv = 0%N /\ CInv c' /\ exists t, length t = n /\ cabs c' = cabs c ++ t).
Proof.
  intros HI H. unfold chunk_append in H.
  destruct (n =? 0) eqn:E0.
  - apply Nat.eqb_eq in E0. subst. inversion H; subst.
    right. split; [reflexivity|]. split; [assumption|]. exists []. now rewrite app_nil_r.
  - apply Nat.eqb_neq in E0.
    destruct (chunk_grow c (n + ch_len c) 0 fail) as [[rv1 c1]|] eqn:G; [|discriminate].
    destruct (grow_spec _ _ _ _ _ _ HI G) as [(-> & -> & ->)|(-> & HI1 & Ha & Hl & _ & Ho & Hroom & _)].
    + cbn in H. inversion H; subst. left; auto.
    + cbn [N.eqb negb] in H.
      destruct HI1 as (o1 & Hp1 & Hlt1 & Hle1). rewrite Hp1 in H.
      destruct (o1 + ch_len c1 + n <=? ch_cap c1) eqn:E; [|discriminate].
      apply Nat.leb_le in E. inversion H; subst; clear H. right.
      split; [reflexivity|]. split.
      * exists o1. unfold ch_cap in *; cbn [ch_ptr ch_buf ch_len]. repeat split; lia.
      * exists (firstn n (skipn (o1 + ch_len c1) (ch_buf c1))). split.
        -- rewrite firstn_length, skipn_length. unfold ch_cap in *. lia.
        -- unfold cabs at 1, coff. cbn [ch_ptr ch_len ch_buf].
           rewrite firstn_skipn_split. rewrite <- Ha. unfold cabs, coff. rewrite Hp1.
           f_equal. now rewrite skipn_skipn', (Nat.add_comm (ch_len c1)).
Qed.

Lemma append_total c d n fail : CInv c -> (match d with Some x => length x = n | None => True end) ->
  exists r, chunk_append c d n fail = Some r.
Proof.
  intros HI Hd. unfold chunk_append. destruct (n =? 0) eqn:E0; [eauto|]. apply Nat.eqb_neq in E0.
  destruct (grow_total c (n + ch_len c) 0 fail HI) as [[rv1 c1] G]. rewrite G.
  destruct (grow_spec _ _ _ _ _ _ HI G) as [(-> & -> & ->)|(-> & HI1 & Ha & Hl & _ & Ho & Hroom & _)].
  - cbn. eauto.
  - cbn [N.eqb negb]. destruct HI1 as (o1 & Hp1 & Hlt1 & Hle1). rewrite Hp1.
    unfold coff in Hroom. rewrite Hp1 in Hroom.
    destruct d as [d|].
    + rewrite blit_Some; [eauto|]. unfold ch_cap in *. lia.
    + assert (E: o1 + ch_len c1 + n <=? ch_cap c1 = true) by (apply Nat.leb_le; lia).
      rewrite E. eauto.
Qed.

(* --- insert (repaired memmove target) ------------------------------ *)
Lemma round8_bounds x : x <= round8 x /\ round8 x <= x + 7.
Proof.
  unfold round8. pose proof (Nat.div_mod (x + 7) 8 ltac:(lia)) as E.
  pose proof (Nat.mod_upper_bound (x + 7) 8 ltac:(lia)). lia.
Qed.

Lemma split_shift_fits cap needed : needed + 8 <= cap ->
  round8 ((cap - needed) / 2) + needed <= cap.
Proof.
  intros H. unfold round8.
  pose proof (Nat.div_mod (cap - needed) 2 ltac:(lia)) as E2.
  pose proof (Nat.mod_upper_bound (cap - needed) 2 ltac:(lia)).
  set (h := (cap - needed) / 2) in *.
  pose proof (Nat.div_mod (h + 7) 8 ltac:(lia)) as E8.
  pose proof (Nat.mod_upper_bound (h + 7) 8 ltac:(lia)).
  set (q := (h + 7) / 8) in *.
  (* q*8 <= h+7; if h >= 7 then q*8 <= 2h <= cap-needed; else 4<=h<7 so q = 1 *)
  destruct (le_lt_dec 7 h) as [Hh|Hh]; [lia|].
  assert (q = 1) by lia. lia.
Qed.

Lemma insert_finish c2 o d r :
  o < ch_cap c2 -> o + length d + ch_len c2 <= ch_cap c2 ->
  match blit (ch_buf c2) o d with
  | Some nb => Some (0%N, mkChunk nb (ch_len c2 + length d) (Some o))
  | None => None end = Some r ->
  fst r = 0%N /\ CInv (snd r) /\
  cabs (snd r) = d ++ firstn (ch_len c2) (skipn (o + length d) (ch_buf c2)).
Proof.
  intros Hlt Hle Hr. unfold ch_cap in *.
  destruct (blit (ch_buf c2) o d) as [nb|] eqn:B; [|discriminate].
  inversion Hr; subst r; clear Hr. cbn [fst snd].
  pose proof (blit_length _ _ _ _ B) as [HL _].
  split; [reflexivity|]. split.
  - exists o. unfold ch_cap; cbn [ch_ptr ch_buf ch_len]. rewrite HL. repeat split; lia.
  - unfold cabs at 1, coff; cbn [ch_ptr ch_buf ch_len].
    rewrite (Nat.add_comm (ch_len c2)).
    apply abs_after_blit_front; [lia|exact B].
Qed.

Lemma insert_finish_total c2 o d :
  o + length d + ch_len c2 <= ch_cap c2 ->
  exists r, match blit (ch_buf c2) o d with
  | Some nb => Some (0%N, mkChunk nb (ch_len c2 + length d) (Some o))
  | None => None end = Some r.
Proof. intros H. unfold ch_cap in *. rewrite blit_Some by lia. eauto. Qed.

Lemma insert_spec c d fail rv c' :
  CInv c -> chunk_insert true c d fail = Some (rv, c') ->
  (rv = ENOMEM /\ c' = c /\ fail = true) \/
  (rv = 0%N /\ CInv c' /\ cabs c' = d ++ cabs c).
Proof.
  intros HI H. pose proof HI as (off & Hp & Hlt & Hle).
  unfold chunk_insert in H. rewrite Hp in H.
  assert (Hc0: mkChunk (ch_buf c) (ch_len c) (Some off) = c) by (destruct c; cbn in *; now subst).
  rewrite Hc0 in H.
  assert (Hlt': off <? ch_cap c = true) by now apply Nat.ltb_lt.
  rewrite Hlt' in H.
  assert (GROW: forall r,
     match chunk_grow c 0 (length d) fail with
     | Some (rv, c1) =>
         if negb (rv =? 0)%N then Some (rv, c1)
         else match ch_ptr c1 with
              | Some o => if length d <=? o
                          then match blit (ch_buf c1) (o - length d) d with
                               | Some nb => Some (0%N, mkChunk nb (ch_len c1 + length d) (Some (o - length d)))
                               | None => None end
                          else None
              | None => None end
     | None => None end = Some r ->
     (fst r = ENOMEM /\ snd r = c /\ fail = true) \/
     (fst r = 0%N /\ CInv (snd r) /\ cabs (snd r) = d ++ cabs c)).
  { intros r Hr.
    destruct (chunk_grow c 0 (length d) fail) as [[rv1 c1]|] eqn:G; [|discriminate].
    destruct (grow_spec _ _ _ _ _ _ HI G) as [(-> & -> & ->)|(-> & HI1 & Ha & Hl & Hhw & Ho & Hroom & _)].
    - cbn in Hr. inversion Hr; subst. left; auto.
    - cbn [N.eqb negb] in Hr. destruct HI1 as (o1 & Hp1 & Hlt1 & Hle1).
      rewrite Hp1 in Hr. unfold coff in Hhw. rewrite Hp1 in Hhw.
      apply Nat.leb_le in Hhw as Hhw'. rewrite Hhw' in Hr.
      right. destruct (insert_finish c1 (o1 - length d) d r ltac:(lia) ltac:(lia) Hr) as (E1 & E2 & E3).
      repeat split; auto. rewrite E3. f_equal. rewrite <- Ha. unfold cabs, coff. rewrite Hp1.
      f_equal. f_equal. lia. }
  destruct (length d <=? off) eqn:E1.
  - apply Nat.leb_le in E1. right.
    destruct (insert_finish c (off - length d) d (rv, c') ltac:(lia) ltac:(lia) H) as (F1 & F2 & F3).
    cbn [fst snd] in *. repeat split; auto. rewrite F3. unfold cabs, coff. rewrite Hp.
    f_equal. f_equal. f_equal. lia.
  - apply Nat.leb_gt in E1.
    destruct (ch_len c + length d + 8 <=? ch_cap c) eqn:E2.
    + apply Nat.leb_le in E2. right.
      rewrite (sub_cabs _ _ Hp Hle) in H.
      pose proof (split_shift_fits _ _ E2) as Hfit.
      set (shift := round8 ((ch_cap c - (ch_len c + length d)) / 2)) in *.
      assert (HL: length (cabs c) = ch_len c) by now apply cabs_length.
      destruct (blit (ch_buf c) (shift + length d) (cabs c)) as [nb|] eqn:B.
      2:{ unfold ch_cap in *. rewrite blit_Some in B by lia. discriminate. }
      pose proof (blit_length _ _ _ _ B) as [HLnb _].
      set (c2 := mkChunk nb (ch_len c) (Some shift)) in *.
      assert (Hcap2: ch_cap c2 = ch_cap c) by (unfold ch_cap; cbn; exact HLnb).
      destruct (insert_finish c2 shift d (rv, c') ltac:(lia) ltac:(cbn [ch_len c2]; lia) H) as (F1 & F2 & F3).
      cbn [fst snd] in *. repeat split; auto. rewrite F3. f_equal.
      cbn [ch_len ch_buf c2].
      pose proof (sub_blit_same _ _ _ _ B) as S. unfold sub in S. rewrite HL in S.
      destruct (shift + length d + ch_len c <=? length nb); [|discriminate].
      now inversion S.
    + destruct (GROW _ H) as [(A1 & A2 & A3)|(A1 & A2 & A3)]; cbn [fst snd] in *; subst; auto.
  Qed.

Lemma insert_total c d fail : CInv c -> exists r, chunk_insert true c d fail = Some r.
Proof.
  intros HI. pose proof HI as (off & Hp & Hlt & Hle).
  unfold chunk_insert. rewrite Hp.
  assert (Hc0: mkChunk (ch_buf c) (ch_len c) (Some off) = c) by (destruct c; cbn in *; now subst).
  rewrite Hc0.
  assert (Hlt': off <? ch_cap c = true) by now apply Nat.ltb_lt.
  rewrite Hlt'.
  assert (GROW: exists r,
     match chunk_grow c 0 (length d) fail with
     | Some (rv, c1) =>
         if negb (rv =? 0)%N then Some (rv, c1)
         else match ch_ptr c1 with
              | Some o => if length d <=? o
                          then match blit (ch_buf c1) (o - length d) d with
                               | Some nb => Some (0%N, mkChunk nb (ch_len c1 + length d) (Some (o - length d)))
                               | None => None end
                          else None
              | None => None end
     | None => None end = Some r).
  { destruct (grow_total c 0 (length d) fail HI) as [[rv1 c1] G]. rewrite G.
    destruct (grow_spec _ _ _ _ _ _ HI G) as [(-> & -> & ->)|(-> & HI1 & Ha & Hl & Hhw & Ho & Hroom & _)].
    - cbn. eauto.
    - cbn [N.eqb negb]. destruct HI1 as (o1 & Hp1 & Hlt1 & Hle1). rewrite Hp1.
      unfold coff in Hhw. rewrite Hp1 in Hhw. apply Nat.leb_le in Hhw as Hhw'. rewrite Hhw'.
      apply insert_finish_total. lia. }
  destruct (length d <=? off) eqn:E1.
  - apply Nat.leb_le in E1. apply insert_finish_total. lia.
  - destruct (ch_len c + length d + 8 <=? ch_cap c) eqn:E2; [|exact GROW].
    apply Nat.leb_le in E2. rewrite (sub_cabs _ _ Hp Hle).
    pose proof (split_shift_fits _ _ E2) as Hfit.
    assert (HL: length (cabs c) = ch_len c) by now apply cabs_length.
    unfold ch_cap in *. rewrite blit_Some by lia.
    apply insert_finish_total. unfold ch_cap. cbn [ch_buf ch_len].
    rewrite !app_length, firstn_length, skipn_length, HL. lia.
Qed.

(* --- trim / chop / clear ------------------------------------------- *)
Lemma trim_spec c n :
  CInv c ->
  let r := chunk_trim c n in
  CInv (snd r) /\
  (if ch_len c <? n then fst r = EINVAL /\ snd r = c
   else fst r = 0%N /\ cabs (snd r) = skipn n (cabs c)).
Proof.
  intros HI. pose proof HI as (off & Hp & Hlt & Hle). unfold chunk_trim.
  destruct (ch_len c <? n) eqn:E; cbn [fst snd]; [auto|].
  apply Nat.ltb_ge in E. split.
  - destruct (ch_len c - n =? 0) eqn:E0.
    + exists off. unfold ch_cap; cbn. unfold ch_cap in *. repeat split; auto; lia.
    + apply Nat.eqb_neq in E0. exists (off + n). rewrite Hp. unfold ch_cap in *; cbn. repeat split; lia.
  - split; [reflexivity|]. unfold cabs, coff; cbn [ch_ptr ch_buf ch_len]. rewrite Hp.
    destruct (ch_len c - n =? 0) eqn:E0.
    + apply Nat.eqb_eq in E0. rewrite E0. cbn [firstn].
      symmetry. apply skipn_all2. rewrite firstn_length. lia.
    + cbn [option_map]. rewrite skipn_firstn_comm. rewrite skipn_skipn'. now rewrite (Nat.add_comm n off).
Qed.

Lemma chop_spec c n :
  CInv c ->
  let r := chunk_chop c n in
  CInv (snd r) /\
  (if ch_len c <? n then fst r = EINVAL /\ snd r = c
   else fst r = 0%N /\ cabs (snd r) = firstn (ch_len c - n) (cabs c)).
Proof.
  intros HI. pose proof HI as (off & Hp & Hlt & Hle). unfold chunk_chop.
  destruct (ch_len c <? n) eqn:E; cbn [fst snd]; [auto|].
  apply Nat.ltb_ge in E. split.
  - exists off. unfold ch_cap in *; cbn. repeat split; auto; lia.
  - split; [reflexivity|]. unfold cabs, coff; cbn [ch_ptr ch_buf ch_len].
    rewrite firstn_firstn. f_equal. lia.
Qed.

Lemma clear_spec c : CInv c -> CInv (chunk_clear c) /\ cabs (chunk_clear c) = [].
Proof.
  intros (off & Hp & Hlt & Hle). split.
  - exists off. unfold ch_cap in *; cbn. repeat split; auto; lia.
  - reflexivity.
Qed.

(* --- dup ----------------------------------------------------------- *)
Lemma dup_spec c : CInv c ->
  exists c', chunk_dup c false = Some (0%N, c') /\ CInv c' /\ cabs c' = cabs c /\
             ch_cap c' = ch_cap c /\ coff c' = coff c.
Proof.
  intros HI. pose proof HI as (off & Hp & Hlt & Hle). unfold chunk_dup. rewrite Hp.
  destruct (ch_len c =? 0) eqn:E0.
  - apply Nat.eqb_eq in E0. eexists; split; [reflexivity|].
    unfold CInv, cabs, coff, ch_cap; cbn [ch_ptr ch_buf ch_len]. rewrite zeros_length, Hp, E0.
    repeat split; auto. exists off. unfold ch_cap in *. repeat split; auto; lia.
  - rewrite (sub_cabs _ _ Hp Hle).
    assert (HL: length (cabs c) = ch_len c) by now apply cabs_length.
    unfold ch_cap in *. rewrite blit_Some by (rewrite zeros_length; lia).
    eexists; split; [reflexivity|].
    assert (HC: length (firstn off (zeros (length (ch_buf c))) ++ cabs c ++
              skipn (off + length (cabs c)) (zeros (length (ch_buf c)))) = length (ch_buf c)).
    { rewrite !app_length, firstn_length, skipn_length, zeros_length. lia. }
    unfold CInv, coff, ch_cap; cbn [ch_ptr ch_buf ch_len]. rewrite HC, Hp.
    repeat split; auto.
    + exists off. repeat split; auto.
    + unfold cabs at 1, coff; cbn [ch_ptr ch_buf ch_len].
      rewrite skipn_app_exact by (rewrite firstn_length, zeros_length; lia).
      apply firstn_app_exact. lia.
Qed.

(* --- alloc --------------------------------------------------------- *)
Lemma grow0_spec newsz hw :
  chunk_grow chunk0 newsz hw false = Some (0%N, mkChunk (zeros (newsz + hw)) 0 (Some hw)).
Proof.
  unfold chunk_grow, ptr_inside, chunk0, ch_cap; cbn [ch_ptr ch_buf ch_len length].
  rewrite Nat.max_0_r. reflexivity.
Qed.

Lemma alloc_spec sz :
  exists m, msg_alloc sz false false = Some (0%N, Some m) /\ Inv m /\
            abs m = ([], zeros sz) /\ sz <= msg_capacity m.
Proof.
  unfold msg_alloc. cbn [negb].
  set (pow2 := (1024 <=? sz) && (N.land (N.of_nat sz) (N.of_nat sz - 1) =? 0)%N).
  assert (G: exists hw tot, (hw = 0 \/ hw = 32) /\ hw + sz <= tot /\ (hw < tot) /\
     (if pow2 then chunk_grow chunk0 sz 0 false else chunk_grow chunk0 (sz + 32) 32 false)
     = Some (0%N, mkChunk (zeros tot) 0 (Some hw))).
  { destruct pow2 eqn:P.
    - exists 0, (sz + 0). rewrite grow0_spec. repeat split; auto; try lia.
      apply andb_true_iff in P as [P _]. apply Nat.leb_le in P. lia.
    - exists 32, (sz + 32 + 32). rewrite grow0_spec. repeat split; auto; lia. }
  destruct G as (hw & tot & Hhw & Htot & Hlt & ->). cbn [N.eqb negb].
  set (c := mkChunk (zeros tot) 0 (Some hw)).
  assert (HI: CInv c). { exists hw. unfold ch_cap; cbn. rewrite zeros_length. repeat split; lia. }
  destruct (append_total c None sz false HI I) as [[rv c'] A]. rewrite A.
  destruct (append_null_spec _ _ _ _ _ HI A) as [(_ & _ & F)|(-> & HI' & t & Ht & Ha)]; [discriminate|].
  eexists; split; [reflexivity|]. split; [split; [exact HI'|cbn; unfold HDR_CAP; lia]|].
  (* contents are zeros: the store is all zeros and append(NULL) does not write *)
  unfold chunk_append in A. destruct (sz =? 0) eqn:E0.
  - apply Nat.eqb_eq in E0. subst sz. inversion A; subst c'. split.
    + unfold abs, cabs; cbn. reflexivity.
    + lia.
  - assert (GG: chunk_grow c (sz + ch_len c) 0 false = Some (0%N, c)).
    { unfold chunk_grow. rewrite (ptr_inside_inv c hw eq_refl) by (unfold ch_cap; cbn; rewrite zeros_length; lia).
      unfold ch_cap; cbn [ch_len ch_buf c]. rewrite zeros_length, Nat.add_0_r, Nat.max_0_r.
      assert (E: (sz + Nat.max 0 hw <=? tot) && (Nat.max 0 hw <=? hw) = true).
      { apply andb_true_iff; split; apply Nat.leb_le; lia. }
      now rewrite E. }
    rewrite GG in A. cbn [N.eqb negb ch_ptr c] in A.
    unfold ch_cap in A; cbn [ch_buf ch_len c] in A. rewrite zeros_length in A.
    destruct (hw + 0 + sz <=? tot); [|discriminate]. inversion A; subst c'. split.
    + unfold abs, cabs, coff; cbn [m_hdr m_body ch_ptr ch_buf ch_len]. f_equal.
      unfold zeros. rewrite skipn_repeat', firstn_repeat'. f_equal. lia.
    + unfold msg_capacity, ch_cap; cbn. rewrite zeros_length. lia.
Qed.

(* --- message level -------------------------------------------------- *)
Lemma msg_body_abs m : Inv m -> msg_body m = Some (snd (abs m)).
Proof.
  intros [(off & Hp & Hlt & Hle) _]. unfold msg_body. rewrite Hp. cbn [abs snd].
  now apply sub_cabs.
Qed.

Lemma cap_ge_len m : Inv m -> msg_len m <= msg_capacity m.
Proof.
  intros [(off & Hp & Hlt & Hle) _]. unfold msg_len, msg_capacity. rewrite Hp. lia.
Qed.

Definition step_ok (m : msg) (o : op) (fail : bool) (rv : N) (v : option N) (m' : msg) : Prop :=
  Inv m' /\ ((rv = ENOMEM /\ v = None /\ m' = m /\ fail = true) \/ spec_rel (abs m) o rv v (abs m')).

Lemma with_body_inv m r rv v m' :
  with_body m r = Some (rv, v, m') ->
  exists c, r = Some (rv, c) /\ v = None /\ m' = mkMsg (m_hdr m) c.
Proof.
  unfold with_body. destruct r as [[rv0 c]|]; [|discriminate].
  intros H; inversion H; subst. eauto.
Qed.

Lemma same_msg m : mkMsg (m_hdr m) (m_body m) = m.
Proof. now destruct m. Qed.

Theorem step_refines m o fail rv v m' :
  Inv m -> msg_step true m o fail = Some (rv, v, m') -> step_ok m o fail rv v m'.
Proof.
  intros [HC HH] H. unfold step_ok, Inv.
  assert (HLc: length (cabs (m_body m)) = ch_len (m_body m)) by now apply cabs_length.
  destruct o as [d|d|n|n|d|d|n|n|n|n| | |k u|k u|k|k|k u|k u|k|k]; cbn [msg_step] in H; unfold spec_rel, abs; cbn [spec_step fst snd m_hdr m_body].
  - (* Append *)
    apply with_body_inv in H as (c & H & -> & ->). cbn [m_hdr m_body].
    destruct (append_spec _ _ _ _ _ HC H) as [(-> & -> & ->)|(-> & HI & Ha & _)].
    + rewrite same_msg. split; [auto|]. left. repeat split; reflexivity.
    + rewrite Ha. auto.
  - (* Insert *)
    apply with_body_inv in H as (c & H & -> & ->). cbn [m_hdr m_body].
    destruct (insert_spec _ _ _ _ _ HC H) as [(-> & -> & ->)|(-> & HI & Ha)].
    + rewrite same_msg. split; [auto|]. left. repeat split; reflexivity.
    + rewrite Ha. auto.
  - (* Trim *)
    inversion H; subst; clear H. cbn [m_hdr m_body].
    destruct (trim_spec _ n HC) as [HI T]. rewrite HLc.
    destruct (ch_len (m_body m) <? n); destruct T as [-> T]; split; auto; right.
    + now rewrite T.
    + now rewrite T.
  - (* Chop *)
    inversion H; subst; clear H. cbn [m_hdr m_body].
    destruct (chop_spec _ n HC) as [HI T]. rewrite HLc.
    destruct (ch_len (m_body m) <? n); destruct T as [-> T]; split; auto; right.
    + now rewrite T.
    + rewrite T. unfold droplast. now rewrite HLc.
  - (* HAppend *)
    inversion H; subst; clear H. unfold hdr_append.
    destruct (HDR_CAP <? length d + length (m_hdr m)) eqn:E; cbn [fst snd m_hdr m_body]; split; auto.
    apply Nat.ltb_ge in E. split; auto. rewrite app_length. lia.
  - (* HInsert *)
    inversion H; subst; clear H. unfold hdr_insert.
    destruct (HDR_CAP <? length d + length (m_hdr m)) eqn:E; cbn [fst snd m_hdr m_body]; split; auto.
    apply Nat.ltb_ge in E. split; auto. rewrite app_length. lia.
  - (* HTrim *)
    destruct (length (m_hdr m) <? n) eqn:E; inversion H; subst; clear H; cbn [m_hdr m_body]; split; auto.
    split; auto. rewrite skipn_length. lia.
  - (* HChop *)
    destruct (length (m_hdr m) <? n) eqn:E; inversion H; subst; clear H; cbn [m_hdr m_body]; split; auto.
    split; auto. rewrite firstn_length. lia.
  - (* Realloc *)
    rewrite HLc. destruct (ch_len (m_body m) <? n) eqn:E.
    + apply with_body_inv in H as (c & H & -> & ->). cbn [m_hdr m_body].
      destruct (append_null_spec _ _ _ _ _ HC H) as [(-> & -> & ->)|(-> & HI & t & Ht & Ha)].
      * rewrite same_msg. split; [auto|]. left. repeat split; reflexivity.
      * split; auto. right. repeat split; auto. exists t. auto.
    + inversion H; subst; clear H. cbn [m_hdr m_body fst snd].
      apply Nat.ltb_ge in E.
      destruct (chop_spec _ (ch_len (m_body m) - n) HC) as [HI T].
      assert (E2: ch_len (m_body m) <? ch_len (m_body m) - n = false) by (apply Nat.ltb_ge; lia).
      rewrite E2 in T. destruct T as [_ T]. split; auto. right. rewrite T.
      do 3 f_equal. lia.
  - (* Reserve *)
    apply with_body_inv in H as (c & H & -> & ->). cbn [m_hdr m_body].
    destruct (grow_spec _ _ _ _ _ _ HC H) as [(-> & -> & ->)|(-> & HI & Ha & _)].
    + rewrite same_msg. split; [auto|]. left. repeat split; reflexivity.
    + rewrite Ha. auto.
  - (* Clear *)
    inversion H; subst; clear H. cbn [m_hdr m_body fst snd].
    destruct (clear_spec _ HC) as [HI T]. rewrite T. auto.
  - (* HClear *)
    inversion H; subst; clear H. cbn [m_hdr m_body]. split; auto. split; auto. cbn. unfold HDR_CAP. lia.
  - (* AppendU *)
    apply with_body_inv in H as (c & H & -> & ->). cbn [m_hdr m_body].
    rewrite <- (be_enc_length k u) in H at 2.
    destruct (append_spec _ _ _ _ _ HC H) as [(-> & -> & ->)|(-> & HI & Ha & _)].
    + rewrite same_msg. split; [auto|]. left. repeat split; reflexivity.
    + rewrite Ha. auto.
  - (* InsertU *)
    apply with_body_inv in H as (c & H & -> & ->). cbn [m_hdr m_body].
    destruct (insert_spec _ _ _ _ _ HC H) as [(-> & -> & ->)|(-> & HI & Ha)].
    + rewrite same_msg. split; [auto|]. left. repeat split; reflexivity.
    + rewrite Ha. auto.
  - (* TrimU *)
    unfold msg_len in H. rewrite HLc.
    destruct (ch_len (m_body m) <? k) eqn:E.
    + inversion H; subst; clear H. split; auto.
    + rewrite (msg_body_abs m (conj HC HH)) in H. cbn [abs snd] in H.
      inversion H; subst; clear H. cbn [m_hdr m_body].
      destruct (trim_spec _ k HC) as [HI T]. rewrite E in T. destruct T as [_ T].
      split; auto. right. now rewrite T.
  - (* ChopU *)
    unfold msg_len in H. rewrite HLc.
    destruct (ch_len (m_body m) <? k) eqn:E.
    + inversion H; subst; clear H. split; auto.
    + rewrite (msg_body_abs m (conj HC HH)) in H. cbn [abs snd] in H.
      inversion H; subst; clear H. cbn [m_hdr m_body].
      destruct (chop_spec _ k HC) as [HI T]. rewrite E in T. destruct T as [_ T].
      split; auto. right. rewrite T. unfold lastn, droplast. now rewrite HLc.
  - (* HAppendU *)
    inversion H; subst; clear H. unfold hdr_append.
    match goal with |- context [Nat.ltb ?a ?b] => destruct (Nat.ltb a b) eqn:E end; cbn [fst snd m_hdr m_body]; split; auto.
    apply Nat.ltb_ge in E. split; auto. rewrite app_length. lia.
  - (* HInsertU *)
    inversion H; subst; clear H. unfold hdr_insert.
    match goal with |- context [Nat.ltb ?a ?b] => destruct (Nat.ltb a b) eqn:E end; cbn [fst snd m_hdr m_body]; split; auto.
    apply Nat.ltb_ge in E. split; auto. rewrite app_length. lia.
  - (* HTrimU *)
    destruct (length (m_hdr m) <? k) eqn:E; inversion H; subst; clear H; cbn [m_hdr m_body]; split; auto.
    split; auto. rewrite skipn_length. lia.
  - (* HChopU *)
    destruct (length (m_hdr m) <? k) eqn:E; inversion H; subst; clear H; cbn [m_hdr m_body]; split; auto.
    split; auto. rewrite firstn_length. lia.
Qed.

Theorem step_total m o fail : Inv m -> exists r, msg_step true m o fail = Some r.
Proof.
  intros [HC HH].
  assert (WB: forall r, (exists x, r = Some x) -> exists y, with_body m r = Some y).
  { intros r [[rv c] ->]. cbn. eauto. }
  destruct o; cbn [msg_step]; eauto.
  - apply WB. apply append_total; auto.
  - apply WB. apply insert_total; auto.
  - destruct (_ <? _); eauto.
  - destruct (_ <? _); eauto.
  - destruct (_ <? _); eauto. apply WB. apply append_total; auto.
  - apply WB. apply grow_total; auto.
  - apply WB. apply append_total; auto. cbn. apply be_enc_length.
  - apply WB. apply insert_total; auto.
  - destruct (_ <? _); eauto. rewrite (msg_body_abs m (conj HC HH)). eauto.
  - destruct (_ <? _); eauto. rewrite (msg_body_abs m (conj HC HH)). eauto.
  - destruct (_ <? _); eauto.
  - destruct (_ <? _); eauto.
Qed.

(* --- histories ------------------------------------------------------ *)
Fixpoint run (m : msg) (ops : list (op * bool)) : option (list (N * option N) * msg) :=
  match ops with
  | [] => Some ([], m)
  | (o, f) :: rest =>
      match msg_step true m o f with
      | None => None
      | Some (rv, v, m1) =>
          match run m1 rest with
          | None => None
          | Some (outs, m2) => Some ((rv, v) :: outs, m2)
          end
      end
  end.

(* the spec's view of a history: each step is the string operation, or -- only
   where an allocation was made to fail -- ENOMEM with both strings unchanged *)
Inductive spec_run : smsg -> list (op * bool) -> list (N * option N) -> smsg -> Prop :=
| sr_nil s : spec_run s [] [] s
| sr_step s o f rv v s1 rest outs s2 :
    spec_rel s o rv v s1 -> spec_run s1 rest outs s2 ->
    spec_run s ((o, f) :: rest) ((rv, v) :: outs) s2
| sr_enomem s o rest outs s2 :
    spec_run s rest outs s2 ->
    spec_run s ((o, true) :: rest) ((ENOMEM, None) :: outs) s2.

Theorem run_refines ops : forall m, Inv m ->
  exists outs m', run m ops = Some (outs, m') /\ Inv m' /\ spec_run (abs m) ops outs (abs m').
Proof.
  induction ops as [|[o f] rest IH]; intros m HI.
  - exists [], m. split; [reflexivity|]. split; [exact HI|]. apply sr_nil.
  - cbn [run]. destruct (step_total m o f HI) as [[[rv v] m1] S]. rewrite S.
    destruct (step_refines _ _ _ _ _ _ HI S) as [HI1 R].
    destruct (IH m1 HI1) as (outs & m2 & R2 & HI2 & SR). rewrite R2.
    exists ((rv, v) :: outs), m2. split; [reflexivity|]. split; [exact HI2|].
    destruct R as [(-> & -> & -> & ->)|R].
    + apply sr_enomem. exact SR.
    + eapply sr_step; eauto.
Qed.

(* --- big-endian forms ----------------------------------------------- *)
Theorem insert_trim_u m k u m1 :
  Inv m -> msg_step true m (InsertU k u) false = Some (0%N, None, m1) ->
  exists m2, msg_step true m1 (TrimU k) false = Some (0%N, Some (u mod 256 ^ N.of_nat k)%N, m2)
             /\ abs m2 = abs m /\ Inv m2.
Proof.
  intros HI S1. destruct (step_refines _ _ _ _ _ _ HI S1) as [HI1 [(E & _)|R1]]; [discriminate|].
  cbn [spec_rel] in R1. unfold abs in R1. cbn [spec_step] in R1. fold (abs m1) in R1.
  assert (A1: abs m1 = (m_hdr m, be_enc k u ++ cabs (m_body m))) by congruence. clear R1.
  destruct (step_total m1 (TrimU k) false HI1) as [[[rv v] m2] S2].
  destruct (step_refines _ _ _ _ _ _ HI1 S2) as [HI2 [(_ & _ & _ & F)|R2]]; [discriminate|].
  cbn [spec_rel] in R2. rewrite A1 in R2. cbn [spec_step] in R2.
  match type of R2 with context [Nat.ltb ?a ?b] =>
    assert (E: Nat.ltb a b = false) by (apply Nat.ltb_ge; rewrite app_length, be_enc_length; lia);
    rewrite E in R2 end.
  rewrite firstn_app_exact in R2 by now rewrite be_enc_length.
  rewrite skipn_app_exact in R2 by now rewrite be_enc_length.
  rewrite be_dec_enc in R2. inversion R2; subst.
  exists m2. rewrite S2. split; [reflexivity|]. split; [unfold abs; congruence|exact HI2].
Qed.

Theorem append_chop_u m k u m1 :
  Inv m -> msg_step true m (AppendU k u) false = Some (0%N, None, m1) ->
  exists m2, msg_step true m1 (ChopU k) false = Some (0%N, Some (u mod 256 ^ N.of_nat k)%N, m2)
             /\ abs m2 = abs m /\ Inv m2.
Proof.
  intros HI S1. destruct (step_refines _ _ _ _ _ _ HI S1) as [HI1 [(E & _)|R1]]; [discriminate|].
  cbn [spec_rel] in R1. unfold abs in R1. cbn [spec_step] in R1. fold (abs m1) in R1.
  assert (A1: abs m1 = (m_hdr m, cabs (m_body m) ++ be_enc k u)) by congruence. clear R1.
  destruct (step_total m1 (ChopU k) false HI1) as [[[rv v] m2] S2].
  destruct (step_refines _ _ _ _ _ _ HI1 S2) as [HI2 [(_ & _ & _ & F)|R2]]; [discriminate|].
  cbn [spec_rel] in R2. rewrite A1 in R2. cbn [spec_step] in R2.
  match type of R2 with context [Nat.ltb ?a ?b] =>
    assert (E: Nat.ltb a b = false) by (apply Nat.ltb_ge; rewrite app_length, be_enc_length; lia);
    rewrite E in R2 end. unfold lastn, droplast in R2.
  rewrite app_length, be_enc_length in R2.
  replace (length (cabs (m_body m)) + k - k) with (length (cabs (m_body m))) in R2 by lia.
  rewrite skipn_app_exact in R2 by reflexivity.
  rewrite firstn_app_exact in R2 by reflexivity.
  rewrite be_dec_enc in R2. inversion R2; subst.
  exists m2. rewrite S2. split; [reflexivity|]. split; [unfold abs; congruence|exact HI2].
Qed.

(* --- dup ------------------------------------------------------------ *)
Theorem msg_dup_spec m : Inv m ->
  exists m', msg_dup m false false = Some (0%N, Some m') /\ Inv m' /\ abs m' = abs m /\
             msg_capacity m' = msg_capacity m.
Proof.
  intros [HC HH]. unfold msg_dup. destruct (dup_spec _ HC) as (c' & D & HI & Ha & Hcap & Hoff).
  rewrite D. cbn. eexists; split; [reflexivity|]. repeat split; auto.
  - unfold abs; cbn. now rewrite Ha.
  - unfold msg_capacity; cbn. unfold coff in Hoff.
    destruct (ch_ptr c'), (ch_ptr (m_body m)); rewrite Hcap; try lia.
Qed.

(* --- the pinned tree's insert (memmove to ch_buf+shift) loses data --- *)
Definition insert_witness : option (N * option N * msg) :=
  match msg_alloc 8 false false with
  | Some (_, Some m0) =>
      match msg_step false m0 (Chop 8) false with
      | Some (_, _, m1) =>
          match msg_step false m1 (Append [65;66;67;68;69;70;71;72]%N) false with
          | Some (_, _, m2) => msg_step false m2 (Insert (repeat 120%N 40)) false
          | None => None end
      | None => None end
  | _ => None
  end.

Theorem insert_unfixed_refuted :
  exists m3, insert_witness = Some (0%N, None, m3) /\
             snd (abs m3) <> repeat 120%N 40 ++ [65;66;67;68;69;70;71;72]%N.
Proof.
  eexists. split. { vm_compute. reflexivity. } vm_compute. discriminate.
Qed.
