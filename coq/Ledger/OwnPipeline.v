(* OwnPipeline: the ledger law of PUSH and PULL (pipeline0/push.c, pull.c). *)
From Coq Require Import List Arith NArith Bool Lia.
From NngV Require Import Proto.Common Proto.PushModel Proto.PullModel Proto.PushProofs
  Ledger.Ledger Ledger.LedgerProofs Ledger.LawTac Ledger.Views.
From NngV Require Proto.PushGuard Proto.PushSubmit.
Import ListNotations.

Ltac fin := cbn; unfold no_rx, no_keys; wnorm; cbn; try lia.

(* ------------------------------ PULL ------------------------------ *)
Lemma pull_law_sum s o s' outs : pull_step s o = (s', outs) -> law_sum view_pull s o s' outs.
Proof.
  intros H F. cbv zeta.
  assert (Hx : v_extra view_pull s o outs = []) by reflexivity. rewrite Hx, app_nil_r. clear Hx.
  unfold w_omega. cbn [view_pull VPull.view v_held v_tx v_att v_clones v_dups v_rx app]. unfold no_keys, no_rx.
  destruct o as [c a nb m|c a nb|a rv|p peer|p|p rv|p rv m|c op|c|c| |now]; cbn [pull_step] in H.
  - inversion H; subst. cbn [op_add op_del s_take s_del o_tx o_rel]. rewrite ?send_key_self. fin.
  - destruct (pl_pl s) as [|[p m] rest] eqn:E.
    + destruct nb; inversion H; subst; cbn; rewrite ?E; fin.
    + inversion H; subst. fin.
  - destruct (has_id a (pl_rq s)); inversion H; subst; fin.
  - destruct (negb (peer =? PROTO_PUSH)%N); inversion H; subst; fin.
  - inversion H; subst. cbn [op_add op_del pl_pl].
    destruct (s_quiet view_pull F s (PPipeClose p) (map Free (map snd (filter (fun x => (fst x =? p)%N) (pl_pl s))))) as [A B].
    { induction (map snd (filter (fun x => (fst x =? p)%N) (pl_pl s))); cbn; auto. }
    rewrite A, B. wnorm.
    pose proof (wsum_filter_key (fun x => F (OProto, body (snd x))) p (pl_pl s)). cbn. lia.
  - inversion H; subst. cbn. destruct (rv =? 0)%N; fin.
  - destruct (N.eqb_spec rv 0) as [->|Hrv]; cbn [negb] in H.
    + destruct (has_id p (pl_closed s)).
      * inversion H; subst. fin.
      * destruct (pl_rq s) as [|a rest]; inversion H; subst; fin.
    + inversion H; subst. cbn. destruct (N.eqb_spec rv 0); [contradiction|]. fin.
  - inversion H; subst. fin.
  - inversion H; subst. fin.
  - inversion H; subst. fin.
  - inversion H; subst. cbn [op_add op_del pl_pl].
    destruct (s_none view_pull F s PSockClose (fail_aios E_CLOSED (pl_rq s)) eq_refl ltac:(intros; discriminate)) as [A B].
    rewrite A, B. fin.
  - inversion H; subst. fin.
Qed.

Theorem pull_proto_law : proto_law view_pull pull_step (fun _ => True) (fun _ _ => True).
Proof.
  intros s o s' outs _ _ H. split; [exact I|]. split.
  - apply law_sum_eq, pull_law_sum, H.
  - apply clones_held_none. reflexivity.
Qed.

(* ------------------------------ PUSH ------------------------------ *)
(* invariant and environment contract: those of PushProofs (pipes started once, a send
   completion only for a pipe with a send in flight, an aio submitted once at a time) *)
Ltac push_view := unfold w_omega; cbn [view_push VPush.view v_held v_tx v_att v_clones v_dups v_rx v_extra app];
                  unfold no_keys, no_rx, no_extra.

Lemma ready_sum F s p o s' outs :
  (forall c a nb m, o <> PSend c a nb m) ->
  ~ In p (map fst (ps_sending s)) ->
  push_pipe_ready s p = (s', outs) ->
  w_omega F view_push s + s_take F view_push s o outs + o_tx F outs
  = w_omega F view_push s' + s_del F view_push s o outs + o_rel F outs.
Proof.
  intros Ho Hp H. unfold push_pipe_ready in H. push_view.
  assert (K : forall a m l, ps_aq s = (a, m) :: l -> send_key view_push s o a = Some (body m)).
  { intros a m l E. unfold send_key. cbn [view_push VPush.view v_att]. rewrite E, att_key_head.
    destruct o; auto. exfalso. eapply Ho. reflexivity. }
  destruct (ps_wq s) as [|m rest] eqn:EW; destruct (ps_aq s) as [|[a m2] aqr] eqn:EA;
    inversion H; subst; clear H; cbn [ps_wq ps_sending ps_aq s_take s_del o_tx o_rel];
    unfold set_sending; rewrite (filter_keep_notin' p _ Hp);
    try rewrite (K a m2 aqr eq_refl); change (E_OK =? 0)%N with true; cbn iota; wnorm; cbn [fst snd]; lia.
Qed.

(* an aio is submitted once at a time: a receive is not posted on an aio whose send is still queued *)
Definition push_ok (s : push) (o : pop) : Prop :=
  op_ok s o /\ match o with PRecv _ a _ => ~ In a (map fst (ps_aq s)) | _ => True end.

Lemma push_law_sum s o s' outs :
  PInv s -> push_ok s o -> push_step s o = (s', outs) -> law_sum view_push s o s' outs.
Proof.
  intros HI [Hok Hrecv] H F. cbv zeta. pose proof HI as (I1 & I2 & I3 & I4 & I5 & I6).
  change (v_extra view_push s o outs) with (@nil pmsg).
  change (v_clones view_push s o ++ v_dups view_push s o) with (@nil key).
  cbn [map]. rewrite app_nil_r, wsum_nil.
  destruct o as [c a nb m|c a nb|a rv|p peer|p|p rv|p rv m|c op|c|c| |now]; cbn [op_ok op_add op_del] in *.
  - (* PSend *)
    cbn [push_step] in H. destruct (ps_pl s) as [|p rest] eqn:PL.
    + destruct (wq_full s) eqn:Fu; cbn [negb] in H.
      * destruct nb; inversion H; subst; clear H; push_view;
          cbn [s_take s_del o_tx o_rel ps_wq ps_sending ps_aq]; rewrite ?send_key_self; cbn; wnorm; cbn; lia.
      * inversion H; subst; clear H; push_view.
        cbn [s_take s_del o_tx o_rel ps_wq ps_sending ps_aq]. rewrite ?send_key_self. cbn. wnorm. cbn. lia.
    + inversion H; subst; clear H. push_view.
      assert (Hp : ~ In p (map fst (ps_sending s))) by (apply I5; now left).
      cbn [s_take s_del o_tx o_rel ps_wq ps_sending ps_aq]. rewrite ?send_key_self.
      unfold set_sending. rewrite (filter_keep_notin' p _ Hp). cbn. wnorm. cbn. lia.
  - (* PRecv *)
    cbn [push_step] in H. inversion H; subst. push_view.
    cbn [s_take s_del o_tx o_rel send_key view_push VPush.view v_att]. rewrite (att_key_notin _ _ Hrecv). lia.
  - (* PCancel *)
    cbn [push_step] in H. destruct (has_aio a (ps_aq s)) eqn:E; inversion H; subst; clear H; push_view.
    + destruct (has_aio_in _ _ E) as [m Hm].
      cbn [s_take s_del o_tx o_rel send_key view_push VPush.view v_att ps_wq ps_sending ps_aq].
      rewrite (att_key_in a m _ I4 Hm). destruct (N.eqb_spec rv 0); [contradiction|].
      rewrite (wsum_remove_aio (fun x => F (OAio (fst x), body (snd x))) a (ps_aq s) m I4 Hm). cbn [fst snd]. lia.
    + cbn [s_take s_del o_tx o_rel]. lia.
  - (* PPipeStart *)
    cbn [push_step] in H. destruct (negb (peer =? PROTO_PULL)%N).
    + inversion H; subst. cbn. lia.
    + destruct (push_pipe_ready s p) as [s1 o1] eqn:R. inversion H; subst; clear H. destruct Hok as [Hp Hpl].
      pose proof (ready_sum F s p (PPipeStart p peer) s' o1 ltac:(intros; discriminate) Hp R) as L.
      cbn [s_take s_del o_tx o_rel]. lia.
  - (* PPipeClose *)
    cbn [push_step] in H. destruct (has_id p (ps_pl s)); inversion H; subst; clear H; push_view; cbn; lia.
  - (* PSendDone *)
    cbn [push_step] in H. cbn [view_push VPush.view v_tx].
    rewrite wsum_tx_of, (wsum_tx_of' (fun k => F (OProto, k))).
    pose proof (wsum_filter_key (fun x => F (OPipe (fst x), body (snd x))) p (ps_sending s)) as P.
    destruct (N.eqb_spec rv 0) as [->|Hrv]; cbn [negb] in H.
    + set (s0 := mkPush (ps_pl s) (ps_wq s) (ps_cap s) (ps_aq s) (set_sending s p None) (ps_writable s)) in *.
      assert (Hp0 : ~ In p (map fst (ps_sending s0))) by (unfold s0, set_sending; cbn [ps_sending]; apply notin_filter_self).
      pose proof (ready_sum F s0 p (PSendDone p 0) s' outs ltac:(intros; discriminate) Hp0 H) as L.
      destruct (s_att_ext view_push F s s0 (PSendDone p 0) outs eq_refl) as [E1 E2].
      rewrite E1, E2. revert L. unfold s0 at 1. push_view. cbn [ps_wq ps_sending ps_aq]. unfold set_sending. lia.
    + inversion H; subst; clear H. push_view. cbn [ps_wq ps_sending ps_aq]. unfold set_sending.
      destruct (s_quiet view_push F s (PSendDone p rv)
                  (map Free (map snd (filter (fun x => (fst x =? p)%N) (ps_sending s))) ++ [ClosePipe p])) as [A B].
      { induction (map snd (filter (fun x => (fst x =? p)%N) (ps_sending s))); cbn; auto. }
      rewrite A, B. wnorm. cbn [o_tx o_rel]. lia.
  - (* PRecvDone *)
    cbn [push_step] in H. destruct (rv =? 0)%N eqn:E; cbn [negb] in H; inversion H; subst; clear H; push_view; cbn; lia.
  - (* PSetOpt *)
    cbn [push_step] in H. destruct op; try (inversion H; subst; cbn; lia).
    destruct (8192 <? N.of_nat n)%N; [inversion H; subst; cbn; lia|].
    inversion H; subst; clear H. push_view. cbn [ps_wq ps_sending ps_aq].
    destruct (s_quiet view_push F s (PSetOpt c (OSendBuf n)) (map Free (skipn n (ps_wq s)) ++ [OptRv E_OK])) as [A B].
    { induction (skipn n (ps_wq s)); cbn; auto. }
    rewrite A, B. wnorm. cbn [o_tx o_rel].
    rewrite <- (firstn_skipn n (ps_wq s)) at 1. wnorm. lia.
  - inversion H; subst. cbn. lia.
  - inversion H; subst. cbn. lia.
  - (* PSockClose *)
    cbn [push_step] in H. inversion H; subst; clear H. push_view. cbn [ps_wq ps_sending ps_aq].
    destruct (s_fail_all view_push F s PSockClose E_CLOSED I4 ltac:(intros; discriminate) ltac:(discriminate)) as [A B].
    cbn [view_push VPush.view v_att] in A, B. rewrite A, B. wnorm. lia.
  - inversion H; subst. cbn. lia.
Qed.

Theorem push_proto_law : proto_law view_push push_step PInv push_ok.
Proof.
  intros s o s' outs HI Hok H. split.
  - destruct Hok as [Hok _]. exact (proj1 (push_step_law s o s' outs HI Hok H)).
  - split; [apply law_sum_eq, push_law_sum; assumption|apply clones_held_none; reflexivity].
Qed.

(* ---- push0_set_send_buf_len with the repair of finding push-resize-overtakes-blocked (PushModel.push_step_r
        true): the blocked senders that fit move, in order, from s->aq into the resized buffer; each one's send
        completes with success, i.e. the reference on its aio becomes the protocol's ---- *)
Lemma push_done_sub F s o (l' : list (aioid * pmsg)) :
  NoDup (map fst (ps_aq s)) -> (forall c a nb m, o <> PSend c a nb m) -> incl l' (ps_aq s) ->
  s_take F view_push s o (map (fun x => Complete (fst x) E_OK None) l') = wsum (fun x => F (OProto, body (snd x))) l' /\
  s_del F view_push s o (map (fun x => Complete (fst x) E_OK None) l') = wsum (fun x => F (OAio (fst x), body (snd x))) l'.
Proof.
  intros Hn Ho Hi. induction l' as [|[a m] l' IH]; [split; reflexivity|].
  destruct IH as [I1 I2]; [intros x Hx; apply Hi; right; exact Hx|].
  cbn [map fst s_take s_del].
  assert (K : send_key view_push s o a = Some (body m)).
  { rewrite send_key_other by exact Ho. cbn [view_push VPush.view v_att]. apply att_key_in; [exact Hn|apply Hi; left; reflexivity]. }
  rewrite K. change (E_OK =? 0)%N with true. cbn iota. rewrite !wsum_cons. cbn [fst snd]. rewrite I1, I2. split; lia.
Qed.
Lemma o_tx_done {A} F (f : A -> aioid) l : o_tx F (map (fun x => Complete (f x) E_OK None) l) = 0.
Proof. induction l; cbn; auto. Qed.
Lemma o_rel_done {A} F (f : A -> aioid) l : o_rel F (map (fun x => Complete (f x) E_OK None) l) = 0.
Proof. induction l; cbn; auto. Qed.
Lemma wsum_first_skip {A} (G : A -> nat) n (l : list A) : wsum G l = wsum G (firstn n l) + wsum G (skipn n l).
Proof. rewrite <- (firstn_skipn n l) at 1. apply wsum_app. Qed.

Lemma incl_firstn_l {A} n (l : list A) : incl (firstn n l) l.
Proof. revert n. induction l as [|y l IH]; intros [|r] x; cbn; try tauto. intros [E|Hx]; [now left|right; eapply IH; eauto]. Qed.

Lemma push_r_law_sum fr s o s' outs :
  PInv s -> push_ok s o -> push_step_r fr s o = (s', outs) -> law_sum view_push s o s' outs.
Proof.
  intros HI Hok H.
  destruct o as [c a nb m|c a nb|a rv|p peer|p|p rv|p rv m|c op|c|c| |now];
    try (cbn [push_step_r] in H; apply push_law_sum; assumption).
  destruct op; try (cbn [push_step_r] in H; apply push_law_sum; assumption).
  cbn [push_step_r] in H. destruct (fr && negb (8192 <? N.of_nat n)%N); [|apply push_law_sum; assumption].
  pose proof HI as (I1 & I2 & I3 & I4 & I5 & I6). intros F. cbv zeta.
  change (v_extra view_push s (PSetOpt c (OSendBuf n)) outs) with (@nil pmsg).
  change (v_clones view_push s (PSetOpt c (OSendBuf n)) ++ v_dups view_push s (PSetOpt c (OSendBuf n))) with (@nil key).
  cbn [map op_add op_del]. rewrite app_nil_r, wsum_nil.
  unfold push_resize_takein in H. inversion H; subst; clear H. push_view. cbn [ps_wq ps_sending ps_aq].
  set (room := n - length (firstn n (ps_wq s))).
  destruct (push_done_sub F s (PSetOpt c (OSendBuf n)) (firstn room (ps_aq s)) I4 ltac:(intros; discriminate)) as [A B].
  { apply incl_firstn_l. }
  rewrite !s_take_app, !s_del_app, !s_take_Free, !s_del_Free, A, B.
  rewrite !o_tx_app, !o_rel_app, o_tx_Free, o_rel_Free, o_tx_done, o_rel_done. cbn [s_take s_del o_tx o_rel].
  pose proof (wsum_first_skip (fun m => F (OProto, body m)) n (ps_wq s)) as FS.
  pose proof (wsum_first_skip (fun x => F (OAio (fst x), body (snd x))) room (ps_aq s)) as FA.
  rewrite !wsum_app, wsum_map. lia.
Qed.

Theorem push_proto_law_r fr : proto_law view_push (push_step_r fr) PInv push_ok.
Proof.
  intros s o s' outs HI Hok H. split.
  - destruct Hok as [Hok _]. exact (proj1 (PushSubmit.push_step_r_law fr s o s' outs HI Hok H)).
  - split; [apply law_sum_eq, (push_r_law_sum fr); assumption|apply clones_held_none; reflexivity].
Qed.
