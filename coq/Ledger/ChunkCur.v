(* ChunkCur.v -- C03: Ledger/ChunkAlloc.v instantiated with the rules of the CURRENT source
   (Gen/Consts.v: tools/gen_consts.py and tools/gen_consts_d/c03_chunk.py).  ssz = sizeof(struct
   nng_msg), which the driver measures (the first block of an nng_msg_alloc). *)
From Coq Require Import NArith.
From NngV Require Import Gen.Consts Ledger.ChunkAlloc.

Definition chunk_cfg_cur (ssz : N) : ccfg :=
  mkCfg C03_CHUNK_CAP_FIRST_1 C03_CHUNK_CAP_FIRST_2 C03_CHUNK_NULL_GE
        (N.of_nat MSG_HEADROOM) (N.of_nat MSG_HEADROOM2) (N.of_nat MSG_BIG)
        (N.of_nat C03_CHUNK_INSERT_PAD) (N.of_nat C03_MSG_HEADER_BYTES) ssz.

Definition mstep_cur (ssz : N) := mstep (chunk_cfg_cur ssz).
